(** C11, area addsub (Model/AddSub.v, owner C04): a panic of the model comes from the carry / borrow test of the
    operator forms; it is bridged to the spec's range test with the carry-chain lemmas of Proofs/AddSubP.v. *)
From CB Require Import Model.Limbs Model.AddSub Proofs.WordP Proofs.WordPredP Proofs.LimbsP Proofs.AddSubP Proofs.TotalityP.
From Coq Require Import ZArith Lia List String Bool.
Open Scope Z_scope.
Notation length := List.length.

Lemma addsub_cover : covers addsub_keys ops_addsub_model = true.
Proof. vm_compute. reflexivity. Qed.

Lemma addsub_quiet : quiet_keys_ok ops_addsub_model ops_addsub_spec addsub_quiet_keys.
Proof. unfold addsub_quiet_keys. quiet_tac ops_addsub_model ops_addsub_spec. Qed.

(* ---- the spec side: sp_panicking n x = PanicV iff x is outside [0, 2^BITS) ---- *)
Lemma sp_panicking_iff n x : sp_panicking n x = PanicV <-> sp_fits n x = false.
Proof. unfold sp_panicking, sp_val. destruct (sp_fits n x); split; intros H; try discriminate; reflexivity. Qed.
Lemma sp_fits_true n x : 0 <= x < Bn n -> sp_fits n x = true.
Proof. intros H. unfold sp_fits. apply andb_true_intro. split; [apply Z.leb_le | apply Z.ltb_lt]; lia. Qed.
Lemma sp_fits_false n x : x < 0 \/ Bn n <= x -> sp_fits n x = false.
Proof.
  intros H. unfold sp_fits. apply andb_false_iff. destruct H; [left; apply Z.leb_gt | right; apply Z.ltb_ge]; lia.
Qed.
Lemma vpanic_none_iff o : vpanic_none o = PanicV <-> o = None.
Proof. destruct o; cbn; split; intros H; try discriminate; reflexivity. Qed.

(* ---- Uint / Limb operators ---- *)
Lemma uint_add_panics x y : wf x -> wf y -> length x = length y ->
  (vpanic_none (uint_checked_add x y) = PanicV <-> sp_panicking (length x) (eval x + eval y) = PanicV).
Proof.
  intros Hx Hy Hl. rewrite vpanic_none_iff, sp_panicking_iff.
  pose proof (checked_add_spec x y Hx Hy Hl) as H. pose proof (eval_bounds x Hx). pose proof (eval_bounds y Hy).
  destruct (uint_checked_add x y) as [r|].
  - destruct H as (He & Hw & Hlr). pose proof (eval_bounds r Hw) as Hb. rewrite Hlr in Hb.
    rewrite sp_fits_true by lia. split; discriminate.
  - rewrite sp_fits_false by lia. tauto.
Qed.
Lemma uint_sub_panics x y : wf x -> wf y -> length x = length y ->
  (vpanic_none (uint_checked_sub x y) = PanicV <-> sp_panicking (length x) (eval x - eval y) = PanicV).
Proof.
  intros Hx Hy Hl. rewrite vpanic_none_iff, sp_panicking_iff.
  pose proof (checked_sub_spec x y Hx Hy Hl) as H. pose proof (eval_bounds x Hx). pose proof (eval_bounds y Hy).
  destruct (uint_checked_sub x y) as [r|].
  - destruct H as (He & Hw & Hlr). pose proof (eval_bounds r Hw) as Hb. rewrite Hlr in Hb.
    rewrite sp_fits_true by lia. split; discriminate.
  - rewrite sp_fits_false by lia. tauto.
Qed.

Local Ltac start := start_key ops_addsub_model ops_addsub_spec addsub_ty.

Lemma key_limb_add : key_ok ops_addsub_model ops_addsub_spec addsub_ty "limb.add".
Proof.
  start. destruct Hty as [H0 H1]. unfold ev, ln in *.
  replace (sp_panicking 1) with (sp_panicking (length (arg 0 a))) by (rewrite H0; reflexivity).
  apply uint_add_panics; try apply wf_arg; auto. lia.
Qed.
Lemma key_limb_sub : key_ok ops_addsub_model ops_addsub_spec addsub_ty "limb.sub".
Proof.
  start. destruct Hty as [H0 H1]. unfold ev, ln in *.
  replace (sp_panicking 1) with (sp_panicking (length (arg 0 a))) by (rewrite H0; reflexivity).
  apply uint_sub_panics; try apply wf_arg; auto. lia.
Qed.
Lemma key_uint_add : key_ok ops_addsub_model ops_addsub_spec addsub_ty "uint.add".
Proof. start. apply uint_add_panics; try apply wf_arg; auto. Qed.
Lemma key_uint_sub : key_ok ops_addsub_model ops_addsub_spec addsub_ty "uint.sub".
Proof. start. apply uint_sub_panics; try apply wf_arg; auto. Qed.

(* ---- BoxedUint + / - (operands of any two precisions, zero-extended to the wider) ---- *)
Lemma key_boxed_add : key_ok ops_addsub_model ops_addsub_spec addsub_ty "boxed.add".
Proof.
  start. rewrite sp_panicking_iff. unfold lmax, ev, ln.
  pose proof (wf_arg 0 a Hwf) as Hx. pose proof (wf_arg 1 a Hwf) as Hy.
  set (x := arg 0 a) in *. set (y := arg 1 a) in *.
  destruct (boxed_adc x y 0) as [r c] eqn:E.
  pose proof (boxed_adc_spec x y 0 r c Hx Hy is_word_0' E) as (He & Hw & Hlr & Hc).
  pose proof (eval_bounds r Hw) as Hb. rewrite Hlr in Hb. unfold is_word in Hc.
  pose proof (Bn_pos (Nat.max (length x) (length y))) as HB.
  destruct (Z.eqb_spec c 0) as [->|Hne].
  - rewrite sp_fits_true by lia. split; discriminate.
  - rewrite sp_fits_false; [tauto|]. right.
    assert (Bn (Nat.max (length x) (length y)) * 1 <= Bn (Nat.max (length x) (length y)) * c)
      by (apply Z.mul_le_mono_nonneg_l; lia). lia.
Qed.
Lemma key_boxed_sub : key_ok ops_addsub_model ops_addsub_spec addsub_ty "boxed.sub".
Proof.
  start. rewrite sp_panicking_iff. unfold lmax, ev, ln.
  pose proof (wf_arg 0 a Hwf) as Hx. pose proof (wf_arg 1 a Hwf) as Hy.
  set (x := arg 0 a) in *. set (y := arg 1 a) in *. clearbody x y.
  destruct (boxed_sbb x y 0) as [r c] eqn:E.
  destruct (Nat.eq_dec (Nat.max (length x) (length y)) 0) as [Hz|Hnz].
  - assert (x = []) by (destruct x; [reflexivity | cbn [length] in Hz; lia]).
    assert (y = []) by (destruct y; [reflexivity | cbn [length] in Hz; lia]). subst x y.
    cbn in E. inv_pair E. cbn. split; discriminate.
  - pose proof (boxed_sbb_spec x y 0 r c Hx Hy is_word_0' ltac:(lia) E) as (He & Hw & Hlr & Hc).
    rewrite bin_0 in He. pose proof (eval_bounds r Hw) as Hb. rewrite Hlr in Hb.
    destruct Hc as [-> | ->].
    + rewrite bout_0 in He. rewrite sp_fits_true by lia. cbn. split; discriminate.
    + rewrite bout_MAXW in He. rewrite sp_fits_false by lia.
      assert (MAXW =? 0 = false) as -> by (apply Z.eqb_neq; pose proof MAXW_val; pose proof B_gt1; lia). tauto.
Qed.

(* ---- BoxedUint += / -= : limbs of rhs beyond the receiver's precision are folded into the carry / borrow ---- *)
Lemma fold_flag m l : is_word m -> m <> 0 -> wf l -> forall c, (c = 0 \/ c = m) ->
  let f := fold_left (fun cy x => wor cy (if_true_word (from_word_nonzero x) m)) l c in
  (f = 0 \/ f = m) /\ (f = 0 <-> c = 0 /\ eval l = 0).
Proof.
  intros Hm Hm0 Hl. induction l as [|x l IH]; intros c Hc; cbn [fold_left eval].
  - split; [assumption | tauto].
  - apply wf_cons in Hl. destruct Hl as [Hx Hl]. specialize (IH Hl).
    pose proof (eval_nonneg l Hl) as Hn. pose proof B_pos as HB. unfold is_word in Hx.
    assert (HBn : 0 <= B * eval l) by (apply Z.mul_nonneg_nonneg; lia).
    rewrite from_word_nonzero_spec by assumption. unfold if_true_word, wand, wor.
    destruct (Z.eqb_spec x 0) as [->|Hx0]; cbn [negb choice_of_bool].
    + rewrite Z.land_0_r, Z.lor_0_r. destruct (IH c Hc) as [H1 H2]. split; [assumption|].
      rewrite H2. split; intros [? ?]; split; auto; lia.
    + rewrite Z.land_comm, land_MAXW by assumption.
      assert (Z.lor c m = m) as -> by (destruct Hc as [-> | ->]; [apply Z.lor_0_l | apply Z.lor_diag]).
      destruct (IH m (or_intror eq_refl)) as [H1 H2]. split; [assumption|].
      rewrite H2. split; [intros [? _]; contradiction | intros [_ ?]; lia].
Qed.

Lemma eval_skipn_zero_iff n b : wf b -> (eval (skipn n b) = 0 <-> eval b < Bn n).
Proof.
  intros Hb. pose proof (eval_firstn_skipn n b) as E.
  pose proof (eval_bounds _ (wf_firstn n b Hb)) as H1. pose proof (eval_nonneg _ (wf_skipn n b Hb)) as H2.
  destruct (Nat.le_gt_cases (length b) n) as [Hle|Hgt].
  - rewrite skipn_all2 by assumption. cbn [eval]. pose proof (eval_bounds b Hb). pose proof (Bn_le _ _ Hle). lia.
  - rewrite firstn_length_le in * by lia. pose proof (Bn_pos n).
    split; intros Hz.
    + rewrite Hz in E. lia.
    + destruct (Z.eq_dec (eval (skipn n b)) 0) as [|Hne]; [assumption|exfalso].
      assert (Bn n * 1 <= Bn n * eval (skipn n b)) by (apply Z.mul_le_mono_nonneg_l; lia). lia.
Qed.

Lemma boxed_add_assign_full x y dbg : wf x -> wf y ->
  (eval x + eval y < Bn (length x) /\
   exists r, boxed_add_assign_op dbg x y = Val [r] /\ eval r = eval x + eval y /\ length r = length x /\ wf r) \/
  (Bn (length x) <= eval x + eval y /\ boxed_add_assign_op dbg x y = PanicV).
Proof.
  intros Hx Hy. unfold boxed_add_assign_op, boxed_adc_assign.
  destruct (adc_limbs x (resize (length x) y) 0) as [r c] eqn:E.
  pose proof (adc_limbs_correct x (resize (length x) y) 0 r c Hx (wf_resize _ _ Hy)
    ltac:(rewrite length_resize; reflexivity) is_word_0' E) as (He & Hw & Hlr & Hc & Hc1).
  specialize (Hc1 ltac:(lia)). rewrite eval_resize in He by assumption.
  assert (Hc01 : c = 0 \/ c = 1) by (unfold is_word in Hc; lia).
  destruct (fold_flag 1 (skipn (length x) y) is_word_1 ltac:(lia) (wf_skipn _ _ Hy) c Hc01) as [_ Hf].
  cbv zeta in Hf. rewrite eval_skipn_zero_iff in Hf by assumption.
  pose proof (eval_bounds r Hw) as Hb. rewrite Hlr in Hb.
  pose proof (eval_bounds x Hx) as Hbx. pose proof (eval_nonneg y Hy) as Hny. pose proof (Bn_pos (length x)) as HB.
  destruct (Z.eqb_spec (fold_left (fun cy x0 => wor cy (if_true_word (from_word_nonzero x0) 1)) (skipn (length x) y) c) 0)
    as [E0|E0].
  - apply Hf in E0. destruct E0 as [-> Hlt]. rewrite Z.mod_small in He by lia.
    left. split; [lia|]. exists r. repeat split; auto; lia.
  - right. split; [|reflexivity].
    destruct (Z.lt_ge_cases (eval x + eval y) (Bn (length x))) as [Hlt|]; [exfalso|assumption].
    apply E0, Hf. rewrite Z.mod_small in He by lia.
    split; [|lia]. destruct Hc01 as [ | -> ]; [assumption|lia].
Qed.

Lemma boxed_sub_assign_full x y dbg : wf x -> wf y ->
  (eval y <= eval x /\
   exists r, boxed_sub_assign_op dbg x y = Val [r] /\ eval r = eval x - eval y /\ length r = length x /\ wf r) \/
  (eval x < eval y /\ boxed_sub_assign_op dbg x y = PanicV).
Proof.
  intros Hx Hy. unfold boxed_sub_assign_op, boxed_sbb_assign.
  destruct (sbb_limbs x (resize (length x) y) 0) as [r c] eqn:E.
  pose proof (sbb_limbs_correct x (resize (length x) y) 0 r c Hx (wf_resize _ _ Hy)
    ltac:(rewrite length_resize; reflexivity) is_word_0' E) as (Hw & Hlr & Hcase).
  rewrite eval_resize in Hcase by assumption. rewrite bin_0 in Hcase.
  assert (HM : MAXW <> 0) by (pose proof MAXW_val; pose proof B_gt1; lia).
  assert (Hc0M : c = 0 \/ c = MAXW) by (destruct Hcase as [(_ & -> & _)|(_ & Hc & _)]; [left; reflexivity | exact Hc]).
  destruct (fold_flag MAXW (skipn (length x) y) is_word_MAXW HM (wf_skipn _ _ Hy) c Hc0M) as [_ Hf].
  cbv zeta in Hf. rewrite eval_skipn_zero_iff in Hf by assumption.
  pose proof (eval_bounds r Hw) as Hb. rewrite Hlr in Hb.
  pose proof (eval_bounds x Hx) as Hbx. pose proof (eval_nonneg y Hy) as Hny. pose proof (Bn_pos (length x)) as HB.
  destruct (Z.eqb_spec (fold_left (fun cy x0 => wor cy (if_true_word (from_word_nonzero x0) MAXW)) (skipn (length x) y) c) 0)
    as [E0|E0].
  - apply Hf in E0. destruct E0 as [-> Hlt]. rewrite Z.mod_small in Hcase by lia. rewrite bout_0 in Hcase.
    left. destruct Hcase as [(Hz & _ & ->)|(_ & _ & He)].
    + destruct x; [|discriminate]. cbn [length eval] in *. rewrite Bn_0 in *.
      split; [lia|]. exists []. repeat split; auto. cbn [eval]. lia.
    + split; [lia|]. exists r. repeat split; auto; lia.
  - right. split; [|reflexivity].
    destruct (Z.lt_ge_cases (eval x) (eval y)) as [|Hge]; [assumption|exfalso].
    apply E0, Hf. rewrite Z.mod_small in Hcase by lia.
    split; [|lia]. destruct Hcase as [(_ & -> & _)|(_ & [-> | ->] & He)]; [reflexivity | reflexivity | exfalso].
    rewrite bout_MAXW in He. lia.
Qed.

Lemma boxed_add_assign_panics x y dbg : wf x -> wf y ->
  (boxed_add_assign_op dbg x y = PanicV <-> sp_panicking (length x) (eval x + eval y) = PanicV).
Proof.
  intros Hx Hy. rewrite sp_panicking_iff. pose proof (eval_nonneg x Hx). pose proof (eval_nonneg y Hy).
  destruct (boxed_add_assign_full x y dbg Hx Hy) as [(Hlt & r & -> & _)|(Hge & ->)].
  - rewrite sp_fits_true by lia. split; discriminate.
  - rewrite sp_fits_false by lia. tauto.
Qed.
Lemma boxed_sub_assign_panics x y dbg : wf x -> wf y ->
  (boxed_sub_assign_op dbg x y = PanicV <-> sp_panicking (length x) (eval x - eval y) = PanicV).
Proof.
  intros Hx Hy. rewrite sp_panicking_iff. pose proof (eval_bounds x Hx). pose proof (eval_nonneg y Hy).
  destruct (boxed_sub_assign_full x y dbg Hx Hy) as [(Hlt & r & -> & _)|(Hge & ->)].
  - rewrite sp_fits_true by lia. split; discriminate.
  - rewrite sp_fits_false by lia. tauto.
Qed.

Lemma key_boxed_add_assign : key_ok ops_addsub_model ops_addsub_spec addsub_ty "boxed.add_assign".
Proof. start. apply boxed_add_assign_panics; apply wf_arg; assumption. Qed.
Lemma key_boxed_sub_assign : key_ok ops_addsub_model ops_addsub_spec addsub_ty "boxed.sub_assign".
Proof. start. apply boxed_sub_assign_panics; apply wf_arg; assumption. Qed.

(* ---- the two statements ---- *)
#[export] Hint Resolve key_limb_add key_limb_sub key_uint_add key_uint_sub key_boxed_add key_boxed_sub
  key_boxed_add_assign key_boxed_sub_assign : c11keys.

Theorem addsub_panics_iff_documented :
  panics_iff_documented ops_addsub_model ops_addsub_spec addsub_keys addsub_ty.
Proof. apply panics_from_parts; [exact addsub_quiet | unfold addsub_panic_keys; by_keys]. Qed.

Theorem addsub_total_forms_never_panic :
  total_forms_never_panic ops_addsub_model addsub_total_keys addsub_total_ty.
Proof.
  apply (quiet_total _ ops_addsub_spec addsub_quiet_keys); [exact addsub_quiet|].
  apply sublist_In. vm_compute. reflexivity.
Qed.

(** boxed add/sub-assign precision rule (anchor src/uint/boxed/add.rs:18-26, sub.rs:18-26, finding F7, fixed):
    whatever the two precisions, in both profiles, the operator either returns the exact sum / difference at the
    receiver's precision or panics; it never returns a wrapped value *)
Theorem boxed_assign_precision_rule dbg x y : wf x -> wf y ->
  (forall r, boxed_add_assign_op dbg x y = Val [r] -> eval r = eval x + eval y /\ length r = length x) /\
  (forall r, boxed_sub_assign_op dbg x y = Val [r] -> eval r = eval x - eval y /\ length r = length x) /\
  (boxed_add_assign_op dbg x y = PanicV <-> Bn (length x) <= eval x + eval y) /\
  (boxed_sub_assign_op dbg x y = PanicV <-> eval x < eval y).
Proof.
  intros Hx Hy.
  destruct (boxed_add_assign_full x y dbg Hx Hy) as [(Hlt & r & E & He & Hl & _)|(Hge & E)];
  destruct (boxed_sub_assign_full x y dbg Hx Hy) as [(Hlt' & r' & E' & He' & Hl' & _)|(Hge' & E')];
  rewrite E, E'; repeat split; intros; try discriminate; try lia;
  repeat match goal with H : Val _ = Val _ |- _ => inversion H; subst; clear H end; auto.
Qed.
