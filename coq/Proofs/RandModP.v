(** C19, part 2: RandomMod for Uint / BoxedUint (random_mod_core): model = specification, range,
    fixed = boxed, the all-ones stream, and the counting theorem for one acceptance round. *)
From CB Require Import Model.Limbs Model.AddSub Model.Rand Proofs.WordP Proofs.LimbsP Proofs.AddSubP Proofs.RandBaseP.
From Coq Require Import ZArith Lia List Bool.
Open Scope Z_scope. Open Scope list_scope.

(** A model result agrees with a specification result: same value (as [n] limbs), the counters advanced
    by the specification's word / byte counts (the specification counted from [base] at the stream [ws0]),
    and the RNG left at the right position of the stream. *)
Definition rnd_agrees (n : nat) (ws0 : list Z) (base nw0 nb0 : Z) (o : option (list Z * rnd_rng)) (s : rnd_sp) : Prop :=
  match o, s with
  | Some (v, Rng rest nw nb), SpOk x k b =>
      v = to_limbs n x /\ 0 <= x < Bn n /\ nw = nw0 + k /\ nb = nb0 + b /\ base < k /\
      rest = skipn (Z.to_nat (k - base)) ws0
  | None, SpExhausted => True
  | _, _ => False
  end.

Lemma rnd_agrees_shift n pre ws base nw0 nb0 o s :
  rnd_agrees n ws (base + Z.of_nat (length pre)) nw0 nb0 o s -> rnd_agrees n (pre ++ ws) base nw0 nb0 o s.
Proof.
  unfold rnd_agrees. destruct o as [[v [rest nw nb]]|], s as [x k b|]; auto.
  intros (Hv & Hx & Hnw & Hnb & Hk & Hr). repeat split; try assumption; try lia.
  rewrite Hr. replace (Z.to_nat (k - base)) with (length pre + Z.to_nat (k - (base + Z.of_nat (length pre))))%nat by lia.
  symmetry. apply rnd_skipn_app_plus.
Qed.

(* ------------------------------------------------------------------ shape of a non-zero modulus *)
(** [p + 1] significant limbs, top limb [h] with [tb] bits *)
Record rnd_shape (m : list Z) (p : nat) (h tb : Z) : Prop := {
  sh_len : (S p <= length m)%nat;
  sh_lo : Bn p <= eval m;
  sh_hi : eval m < Bn (S p);
  sh_h : h = eval m / Bn p;
  sh_hw : 0 < h < B;
  sh_nth : nthz m p = h;
  sh_tb : tb = rnd_bitlen h;
  sh_tbr : 1 <= tb <= 64;
  sh_bits : rnd_bitlen (eval m) = 64 * Z.of_nat p + tb
}.

Lemma rnd_shape_of m : wf m -> 0 < eval m ->
  exists p h tb, Z.to_nat ((rnd_bitlen (eval m) + 63) / 64) = S p /\ rnd_shape m p h tb.
Proof.
  intros Hw Hpos. set (M := eval m) in *. set (k := rnd_bitlen M).
  pose proof (rnd_bitlen_spec M Hpos) as [Hlo Hhi]. fold k in Hlo, Hhi.
  assert (Hk : 0 < k). { unfold k. rewrite rnd_bitlen_pos by lia. pose proof (Z.log2_nonneg M). lia. }
  destruct (rnd_ceil64 k Hk) as [Hq1 Hq2]. set (q := (k + 63) / 64) in *.
  exists (Z.to_nat (q - 1)), (M / Bn (Z.to_nat (q - 1))), (k - 64 * (q - 1)).
  split; [lia|].
  set (p := Z.to_nat (q - 1)). assert (Hp : Z.of_nat p = q - 1) by lia.
  assert (HBp : Bn p <= M).
  { rewrite rnd_Bn_pow, Hp. eapply Z.le_trans; [|exact Hlo]. apply rnd_pow_le. lia. }
  assert (HBS : M < Bn (S p)).
  { rewrite rnd_Bn_pow, Nat2Z.inj_succ, Hp. eapply Z.lt_le_trans; [exact Hhi|]. apply rnd_pow_le. lia. }
  pose proof (Bn_pos p) as HBpos. pose proof B_pos.
  assert (Hh : 0 < M / Bn p < B).
  { split; [apply Z.div_str_pos; lia | apply Z.div_lt_upper_bound; [lia | rewrite Bn_S in HBS; lia]]. }
  assert (Hlen : (S p <= length m)%nat).
  { destruct (Nat.le_gt_cases (S p) (length m)) as [|Hc]; [assumption|exfalso].
    pose proof (eval_bounds m Hw) as Hb. fold M in Hb.
    assert (Bn (length m) <= Bn p) by (apply Bn_le; lia). lia. }
  assert (Hbits : k = 64 * Z.of_nat p + rnd_bitlen (M / Bn p)).
  { pose proof (Z.div_mod M (Bn p) ltac:(lia)) as Hdm. pose proof (Z.mod_pos_bound M (Bn p) ltac:(lia)) as Hmb.
    unfold k. rewrite rnd_Bn_pow in *.
    replace (rnd_bitlen M) with (rnd_bitlen (M mod 2 ^ (64 * Z.of_nat p) + 2 ^ (64 * Z.of_nat p) * (M / 2 ^ (64 * Z.of_nat p))))
      by (f_equal; lia).
    apply rnd_bitlen_shift; lia. }
  assert (Hs64 : 1 <= rnd_bitlen (M / Bn p) <= 64).
  { pose proof (rnd_bitlen_pos (M / Bn p) ltac:(lia)). pose proof (Z.log2_nonneg (M / Bn p)).
    assert (rnd_bitlen (M / Bn p) <= 64) by (apply rnd_bitlen_lt; [lia | rewrite <- B_val; lia]). lia. }
  assert (Hnth : nthz m p = M / Bn p).
  { rewrite rnd_nthz_eval by assumption. fold M. apply Z.mod_small. lia. }
  constructor; try assumption; try reflexivity; fold M; fold k; lia.
Qed.

(* ------------------------------------------------------------------ the rejection loop *)
Section Loop.
  Variables (m : list Z) (p : nat) (h tb : Z).
  Hypothesis Hwm : wf m.
  Hypothesis Hsh : rnd_shape m p h tb.
  Let mask := 2 ^ tb - 1.

  Lemma rnd_candidate_limbs hi lows :
    is_word hi -> wf lows -> length lows = p ->
    let n := lows ++ hi :: zeros (length m - S p) in
    wf n /\ length n = length m /\ eval n = hi * Bn p + eval lows.
  Proof.
    intros Hhi Hl Hlen n. destruct Hsh. subst n. split; [|split].
    - apply wf_app. split; [assumption|]. apply wf_cons. split; [assumption | apply wf_zeros].
    - rewrite app_length. cbn [length]. rewrite length_zeros. lia.
    - rewrite eval_app. cbn [eval]. rewrite eval_zeros, Hlen. ring.
  Qed.

  Lemma rnd_mod_loop_agrees nw0 nb0 : forall f1 f2 ws w cnt,
    is_word w -> wf ws -> (length ws < f1)%nat -> (length ws < f2)%nat ->
    rnd_agrees (length m) (w :: ws) cnt nw0 nb0
      (rnd_mod_loop f1 m (S p) h mask (w mod 2 ^ tb) (Rng ws (nw0 + (cnt + 1)) (nb0 + 8 * (cnt + 1))))
      (sp_mod_loop f2 (eval m) (S p) tb (w :: ws) cnt).
  Proof.
    pose proof Hsh as Hsh'. destruct Hsh' as [Hlen Hlo Hhi Hh Hhw Hnth Htb Htbr Hbits].
    induction f1 as [|f1 IH]; intros f2 ws w cnt Hw Hws Hf1 Hf2; [lia|].
    destruct f2 as [|f2]; [lia|].
    cbn [rnd_mod_loop sp_mod_loop].
    replace (S p - 1)%nat with p by lia. rewrite <- Hh.
    set (hi := w mod 2 ^ tb).
    assert (Hhiw : is_word hi) by (apply rnd_mod_pow_word; lia).
    (* drawing the next top word *)
    assert (Hnext : forall ws1 c1 pre, wf ws1 -> (length ws1 <= length ws)%nat ->
              w :: ws = pre ++ ws1 -> c1 = cnt + Z.of_nat (length pre) ->
              rnd_agrees (length m) (w :: ws) cnt nw0 nb0
                match rnd_u64 (Rng ws1 (nw0 + c1) (nb0 + 8 * c1)) with
                | None => None
                | Some (w1, r1) => rnd_mod_loop f1 m (S p) h mask (wand w1 mask) r1
                end
                (sp_mod_loop f2 (eval m) (S p) tb ws1 c1)).
    { intros ws1 c1 pre Hw1 Hl1 Hpre Hc1. destruct ws1 as [|w1 ws1].
      - cbn [rnd_u64]. destruct f2; cbn; exact I.
      - cbn [rnd_u64]. apply wf_cons in Hw1. destruct Hw1 as [Hw1 Hws1]. cbn [length] in Hl1.
        unfold mask. rewrite rnd_land_ones by lia.
        rewrite Hpre. apply rnd_agrees_shift. rewrite <- Hc1.
        replace (nw0 + c1 + 1) with (nw0 + (c1 + 1)) by lia.
        replace (nb0 + 8 * c1 + 8) with (nb0 + 8 * (c1 + 1)) by lia.
        apply IH; try assumption; lia. }
    destruct (Z.gtb_spec hi h) as [Hgt|Hle].
    - (* early rejection *)
      apply (Hnext ws (cnt + 1) [w]); try assumption; try lia; reflexivity.
    - rewrite rnd_words_spec.
      destruct (Nat.ltb_spec (length ws) p) as [Hshort|Hlong]; [exact I|].
      set (lows := firstn p ws).
      assert (Hlw : wf lows) by (apply wf_firstn; assumption).
      assert (Hll : length lows = p) by (unfold lows; rewrite firstn_length; lia).
      destruct (rnd_candidate_limbs hi lows Hhiw Hlw Hll) as (Hnw & Hnl & Hne).
      set (n := lows ++ hi :: zeros (length m - S p)) in *.
      rewrite rnd_ct_lt_spec by (try assumption; lia). rewrite Hne.
      destruct (Z.ltb_spec (hi * Bn p + eval lows) (eval m)) as [Hacc|Hrej].
      + (* accepted *)
        unfold rnd_agrees.
        pose proof (eval_nonneg lows Hlw). pose proof (Bn_pos p). unfold is_word in Hhiw.
        assert (0 <= hi * Bn p) by (apply Z.mul_nonneg_nonneg; lia).
        pose proof (eval_bounds m Hwm) as HbM.
        repeat split; try lia.
        * apply to_limbs_unique; try assumption. rewrite Hne. symmetry. apply Z.mod_small. lia.
        * replace (Z.to_nat (cnt + Z.of_nat (S p) - cnt)) with (S p) by lia. reflexivity.
      + (* rejected after the low words *)
        replace (nw0 + (cnt + 1) + Z.of_nat p) with (nw0 + (cnt + Z.of_nat (S p))) by lia.
        replace (nb0 + 8 * (cnt + 1) + 8 * Z.of_nat p) with (nb0 + 8 * (cnt + Z.of_nat (S p))) by lia.
        apply (Hnext (skipn p ws) (cnt + Z.of_nat (S p)) (w :: lows)).
        * apply wf_skipn. assumption.
        * rewrite skipn_length. lia.
        * unfold lows. cbn [app]. rewrite firstn_skipn. reflexivity.
        * cbn [length]. rewrite Hll. reflexivity.
  Qed.
End Loop.

(** random_mod_core, given the modulus' true bit length, is the specified rejection sampler *)
Theorem rnd_mod_core_spec m ws nw0 nb0 :
  wf m -> wf ws -> 0 < eval m ->
  rnd_agrees (length m) ws 0 nw0 nb0 (rnd_mod_core m (rnd_bitlen (eval m)) (Rng ws nw0 nb0)) (sp_random_mod (eval m) ws).
Proof.
  intros Hwm Hws Hpos. destruct (rnd_shape_of m Hwm Hpos) as (p & h & tb & Hnl & Hsh).
  unfold rnd_mod_core, sp_random_mod. rewrite Hnl.
  replace ((rnd_bitlen (eval m) + 64 - 1) / 64) with ((rnd_bitlen (eval m) + 63) / 64) by (f_equal; lia).
  unfold rnd_ceil. replace (rnd_bitlen (eval m) + 64 - 1) with (rnd_bitlen (eval m) + 63) by lia. rewrite Hnl.
  replace (S p - 1)%nat with p by lia.
  pose proof Hsh as Hsh'. destruct Hsh' as [Hlen Hlo Hhi Hh Hhw Hnth Htb Htbr Hbits].
  rewrite Hnth. rewrite rnd_mask_spec by assumption. rewrite <- Htb.
  replace (rnd_bitlen (eval m) - 64 * (Z.of_nat (S p) - 1)) with tb by lia.
  destruct ws as [|w ws]; [exact I|].
  apply wf_cons in Hws. destruct Hws as [Hw Hws].
  cbn [rnd_u64 rnd_left]. rewrite rnd_land_ones by lia.
  replace (nw0 + 1) with (nw0 + (0 + 1)) by lia. replace (nb0 + 8) with (nb0 + 8 * (0 + 1)) by lia.
  apply (rnd_mod_loop_agrees m p h tb Hwm Hsh); try assumption; cbn [length]; lia.
Qed.

(* ------------------------------------------------------------------ consequences *)
Lemma rnd_front_nonzero m : wf m -> 0 < eval m -> length m <> 0%nat.
Proof. intros _ H. destruct m; [cbn in H; lia | discriminate]. Qed.

(** Uint::random_mod and BoxedUint::random_mod are the same function of (modulus limbs, stream) *)
Theorem rnd_mod_fixed_eq_boxed m r : wf m -> 0 < eval m -> boxed_random_mod m r = uint_random_mod m r.
Proof.
  intros Hw Hp. unfold boxed_random_mod, uint_random_mod.
  rewrite rnd_bits_ct_spec, rnd_bits_vartime_spec by (try assumption; apply rnd_front_nonzero; assumption).
  reflexivity.
Qed.

Theorem uint_random_mod_spec m ws nw0 nb0 :
  wf m -> wf ws -> 0 < eval m ->
  rnd_agrees (length m) ws 0 nw0 nb0 (uint_random_mod m (Rng ws nw0 nb0)) (sp_random_mod (eval m) ws).
Proof.
  intros Hw Hws Hp. unfold uint_random_mod.
  rewrite rnd_bits_vartime_spec by (try assumption; apply rnd_front_nonzero; assumption).
  apply rnd_mod_core_spec; assumption.
Qed.

Theorem boxed_random_mod_spec m ws nw0 nb0 :
  wf m -> wf ws -> 0 < eval m ->
  rnd_agrees (length m) ws 0 nw0 nb0 (boxed_random_mod m (Rng ws nw0 nb0)) (sp_random_mod (eval m) ws).
Proof. intros. rewrite rnd_mod_fixed_eq_boxed by assumption. apply uint_random_mod_spec; assumption. Qed.

(** the specified sampler only ever returns values below the modulus, and counts 8 bytes per word *)
Lemma sp_mod_loop_range f : forall M nl tb ws cnt x k b,
  (0 < nl)%nat -> sp_mod_loop f M nl tb ws cnt = SpOk x k b ->
  x < M /\ b = 8 * k /\ cnt < k <= cnt + Z.of_nat (length ws).
Proof.
  induction f as [|f IH]; intros M nl tb ws cnt x k b Hnl E; [discriminate|].
  cbn [sp_mod_loop] in E. destruct ws as [|w ws]; [discriminate|]. cbn [length].
  destruct (w mod 2 ^ tb >? M / Bn (nl - 1)).
  - apply IH in E; [lia | assumption].
  - destruct (Nat.ltb_spec (length ws) (nl - 1)); [discriminate|].
    destruct (Z.ltb_spec (w mod 2 ^ tb * Bn (nl - 1) + eval (firstn (nl - 1) ws)) M).
    + injection E as E1 E2 E3. subst x k b. split; [assumption|]. split; [reflexivity|lia].
    + apply IH in E; [|assumption]. rewrite skipn_length in E. lia.
Qed.

Lemma rnd_nl_pos M : 0 < M -> (0 < Z.to_nat (rnd_ceil (rnd_bitlen M) 64))%nat.
Proof.
  intros H. unfold rnd_ceil. replace (rnd_bitlen M + 64 - 1) with (rnd_bitlen M + 63) by lia.
  assert (Hk : 0 < rnd_bitlen M) by (rewrite rnd_bitlen_pos by lia; pose proof (Z.log2_nonneg M); lia).
  pose proof (rnd_ceil64 _ Hk) as [H1 _]. lia.
Qed.

(** RANGE, for every stream: whatever the RNG outputs, a returned value is a well-formed integer of the
    modulus' width that is strictly below the modulus; [k] words (8 k bytes) were consumed *)
Theorem uint_random_mod_range m ws nw0 nb0 v r' :
  wf m -> wf ws -> 0 < eval m -> uint_random_mod m (Rng ws nw0 nb0) = Some (v, r') ->
  wf v /\ length v = length m /\ 0 <= eval v < eval m /\
  exists k, 0 < k /\ r' = Rng (skipn (Z.to_nat k) ws) (nw0 + k) (nb0 + 8 * k).
Proof.
  intros Hwm Hws Hpos E. pose proof (uint_random_mod_spec m ws nw0 nb0 Hwm Hws Hpos) as H.
  rewrite E in H. unfold rnd_agrees in H. destruct r' as [rest nw nb].
  destruct (sp_random_mod (eval m) ws) as [x k b|] eqn:Es; [|contradiction].
  destruct H as (Hv & Hx & Hnw & Hnb & Hk & Hr).
  unfold sp_random_mod in Es. apply sp_mod_loop_range in Es; [|apply rnd_nl_pos; assumption].
  destruct Es as (Hlt & Hb & _). subst v.
  split; [apply wf_to_limbs|]. split; [apply length_to_limbs|].
  rewrite to_limbs_small by assumption. split; [lia|].
  exists k. split; [lia|]. rewrite Z.sub_0_r in Hr. subst. reflexivity.
Qed.

Theorem boxed_random_mod_range m ws nw0 nb0 v r' :
  wf m -> wf ws -> 0 < eval m -> boxed_random_mod m (Rng ws nw0 nb0) = Some (v, r') ->
  wf v /\ length v = length m /\ 0 <= eval v < eval m /\
  exists k, 0 < k /\ r' = Rng (skipn (Z.to_nat k) ws) (nw0 + k) (nb0 + 8 * k).
Proof. intros Hwm Hws Hpos. rewrite rnd_mod_fixed_eq_boxed by assumption. apply uint_random_mod_range; assumption. Qed.

(* ------------------------------------------------------------------ the all-ones stream *)
Lemma rnd_firstn_repeat (x : Z) p j : (p <= j)%nat -> firstn p (repeat x j) = repeat x p.
Proof. revert j. induction p as [|p IH]; intros j H; [reflexivity|]. destruct j; [lia|]. cbn. f_equal. apply IH. lia. Qed.
Lemma rnd_skipn_repeat (x : Z) p j : skipn p (repeat x j) = repeat x (j - p).
Proof. revert j. induction p as [|p IH]; intros j; [rewrite Nat.sub_0_r; reflexivity|]. destruct j; [reflexivity|]. cbn. apply IH. Qed.

Lemma rnd_MAXW_mod tb : 0 <= tb <= 64 -> MAXW mod 2 ^ tb = 2 ^ tb - 1.
Proof.
  intros H. rewrite MAXW_val, B_val.
  assert (Hp : 2 ^ 64 = 2 ^ (64 - tb) * 2 ^ tb) by (rewrite <- rnd_pow_split by lia; f_equal; lia).
  pose proof (rnd_pow_pos tb ltac:(lia)). pose proof (rnd_pow_pos (64 - tb) ltac:(lia)).
  symmetry. apply (Z.mod_unique_pos _ _ (2 ^ (64 - tb) - 1)); lia.
Qed.

Lemma sp_mod_loop_allones m p h tb : rnd_shape m p h tb ->
  forall f j cnt, sp_mod_loop f (eval m) (S p) tb (repeat MAXW j) cnt = SpExhausted.
Proof.
  intros [Hlen Hlo Hhi Hh Hhw Hnth Htb Htbr Hbits].
  induction f as [|f IH]; intros j cnt; [reflexivity|].
  cbn [sp_mod_loop]. destruct j as [|j]; [reflexivity|]. cbn [repeat].
  replace (S p - 1)%nat with p by lia. rewrite <- Hh, rnd_MAXW_mod by lia.
  destruct (Z.gtb_spec (2 ^ tb - 1) h); [apply IH|].
  rewrite repeat_length. destruct (Nat.ltb_spec j p); [reflexivity|].
  rewrite rnd_firstn_repeat by assumption. fold (maxs p). rewrite eval_maxs.
  pose proof (rnd_bitlen_spec h ltac:(lia)) as [_ Hub]. rewrite <- Htb in Hub.
  pose proof (Bn_pos p). pose proof (Z.div_mod (eval m) (Bn p) ltac:(lia)) as Hdm.
  pose proof (Z.mod_pos_bound (eval m) (Bn p) ltac:(lia)). rewrite <- Hh in Hdm.
  assert (Heq : h = 2 ^ tb - 1) by lia.
  destruct (Z.ltb_spec ((2 ^ tb - 1) * Bn p + (Bn p - 1)) (eval m)) as [Hc|_]; [exfalso; rewrite <- Heq in Hc; nia|].
  rewrite rnd_skipn_repeat. apply IH.
Qed.

(** NO TERMINATION GUARANTEE for arbitrary streams: an RNG that only outputs all-ones words is rejected
    for ever, for every modulus -- however long the stream is, the sampler runs out of it *)
Theorem uint_random_mod_allones m j nw0 nb0 :
  wf m -> 0 < eval m -> uint_random_mod m (Rng (repeat MAXW j) nw0 nb0) = None.
Proof.
  intros Hwm Hpos.
  assert (Hws : wf (repeat MAXW j)).
  { unfold wf. apply Forall_forall. intros x Hx. apply repeat_spec in Hx. subst. unfold is_word. pose proof MAXW_val. pose proof B_gt1. lia. }
  pose proof (uint_random_mod_spec m _ nw0 nb0 Hwm Hws Hpos) as H.
  destruct (rnd_shape_of m Hwm Hpos) as (p & h & tb & Hnl & Hsh).
  unfold sp_random_mod, rnd_ceil in H. replace (rnd_bitlen (eval m) + 64 - 1) with (rnd_bitlen (eval m) + 63) in H by lia.
  rewrite Hnl in H. destruct Hsh as [? ? ? ? ? ? ? ? Hbits] eqn:Esh.
  replace (rnd_bitlen (eval m) - 64 * (Z.of_nat (S p) - 1)) with tb in H by lia.
  rewrite (sp_mod_loop_allones m p h tb) in H by (constructor; assumption).
  destruct (uint_random_mod m (Rng (repeat MAXW j) nw0 nb0)) as [[v [? ? ?]]|]; [contradiction | reflexivity].
Qed.
