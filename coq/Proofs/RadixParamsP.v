(** C17 proofs, part 4: the per-radix constants of the encoder (RadixDivisionParams::ALL, recomputed by the
    model with the loops of the source) checked by a finite sweep over the 30 radixes that are no power of two,
    and the five power-of-two radixes. *)
From CB Require Import Model.Limbs Model.Div Model.Conv Model.Radix Proofs.WordP Proofs.LimbsP Proofs.DivP Proofs.RecipP
  Proofs.DivShiftP Proofs.RadixParseP.
From Coq Require Import ZArith Lia List Bool.
Import ListNotations.
Open Scope Z_scope.
Open Scope list_scope.

Definition params_okb (r : Z) : bool :=
  match for_radix r with
  | None => false
  | Some rp =>
      let k := rp_digits_limb rp in let rc := rp_recip rp in let D := r ^ Z.of_nat k in
      (rp_radix rp =? r) && (1 <=? k)%nat && (rp_div_limb rp =? D) && (D <? 2 ^ 64) && (2 ^ 64 <=? D * r)
      && (0 <=? r_shift rc) && (r_shift rc <? 64) && (r_d rc =? D * 2 ^ r_shift rc)
      && (2 ^ 64 <=? 2 * r_d rc) && (r_d rc <? 2 ^ 64) && (r_v rc =? reciprocal (r_d rc))
      && (length (rp_div_large rp) =? 32)%nat && wfb (rp_div_large rp)
      && (eval (rp_div_large rp) =? r ^ Z.of_nat (rp_digits_large rp))
      && negb (nthz (rp_div_large rp) 31 =? 0) && (1 <=? rp_digits_large rp)%nat
  end.
Lemma params_sweep : forallb params_okb ALL_radixes = true.
Proof. vm_compute. reflexivity. Qed.

Definition pow2_okb (r : Z) : bool :=
  if is_power_of_two r then
    let rb := trailing_zeros r in (1 <=? rb) && (rb <=? 5) && (r =? 2 ^ rb)
  else existsb (Z.eqb r) ALL_radixes.
Lemma pow2_sweep : forallb pow2_okb (map Z.of_nat (seq 2 35)) = true.
Proof. vm_compute. reflexivity. Qed.

Lemma pow2_facts r : 2 <= r <= 36 -> is_power_of_two r = true ->
  1 <= trailing_zeros r <= 5 /\ r = 2 ^ trailing_zeros r.
Proof.
  intros Hr Hp. pose proof pow2_sweep as H. rewrite forallb_forall in H. specialize (H r (radix_in_range r Hr)).
  unfold pow2_okb in H. rewrite Hp in H. cbv zeta in H. rewrite !andb_true_iff in H. destruct H as [[H1 H2] H3].
  apply Z.leb_le in H1, H2. apply Z.eqb_eq in H3. lia.
Qed.
Lemma generic_in_ALL r : 2 <= r <= 36 -> is_power_of_two r = false -> In r ALL_radixes.
Proof.
  intros Hr Hp. pose proof pow2_sweep as H. rewrite forallb_forall in H. specialize (H r (radix_in_range r Hr)).
  unfold pow2_okb in H. rewrite Hp in H. apply existsb_exists in H. destruct H as (x & Hin & E). apply Z.eqb_eq in E. subst x. assumption.
Qed.

Lemma wfb_wf ls : wfb ls = true -> wf ls.
Proof.
  unfold wfb, wf. intros H. rewrite forallb_forall in H. apply Forall_forall. intros x Hx. specialize (H x Hx).
  unfold is_wordb in H. apply andb_true_iff in H. destruct H as [H1 H2]. apply Z.leb_le in H1. apply Z.ltb_lt in H2. split; assumption.
Qed.

Record params_good (r : Z) (rp : rparams) : Prop := {
  pg_radix : rp_radix rp = r;
  pg_k : (1 <= rp_digits_limb rp)%nat;
  pg_D : rp_div_limb rp = r ^ Z.of_nat (rp_digits_limb rp);
  pg_Dlt : r ^ Z.of_nat (rp_digits_limb rp) < B;
  pg_Dr : B <= r ^ Z.of_nat (rp_digits_limb rp) * r;
  pg_recip : recip_for (r ^ Z.of_nat (rp_digits_limb rp)) (rp_recip rp);
  pg_len : length (rp_div_large rp) = 32%nat;
  pg_wf : wf (rp_div_large rp);
  pg_large : eval (rp_div_large rp) = r ^ Z.of_nat (rp_digits_large rp);
  pg_top : nthz (rp_div_large rp) 31 <> 0;
  pg_dl : (1 <= rp_digits_large rp)%nat
}.

Theorem params_facts r : 2 <= r <= 36 -> is_power_of_two r = false ->
  exists rp, for_radix r = Some rp /\ params_good r rp.
Proof.
  intros Hr Hp. pose proof params_sweep as H. rewrite forallb_forall in H. specialize (H r (generic_in_ALL r Hr Hp)).
  unfold params_okb in H. destruct (for_radix r) as [rp|]; [|discriminate]. exists rp. split; [reflexivity|].
  cbv zeta in H. rewrite !andb_true_iff in H.
  destruct H as [[[[[[[[[[[[[[[H1 H2] H3] H4] H5] H6] H7] H8] H9] H10] H11] H12] H13] H14] H15] H16].
  apply Z.eqb_eq in H1, H3, H8, H11, H14. apply Nat.leb_le in H2, H16. apply Z.ltb_lt in H4, H7, H10.
  apply Z.leb_le in H5, H6, H9. apply Nat.eqb_eq in H12. apply negb_true_iff, Z.eqb_neq in H15.
  rewrite <- B_val in H4, H5, H9, H10.
  constructor; try assumption; try (apply wfb_wf; assumption).
  unfold recip_for. split; [lia|]. split; [assumption|].
  assert (Hn : normalized (r_d (rp_recip rp))) by (unfold normalized; lia).
  split; [assumption|]. rewrite H11. apply reciprocal_correct. destruct Hn as [Ha Hb]. rewrite B_val in Ha, Hb. lia.
Qed.
