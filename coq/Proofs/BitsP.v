(** Bit-level facts: disjoint lor is addition, shifts as multiplication/division. *)
From CB Require Import Model.Word Proofs.WordP.
From Coq Require Import ZArith Lia.
Open Scope Z_scope.

Lemma testbit_small lo s n : 0 <= lo < 2 ^ s -> s <= n -> Z.testbit lo n = false.
Proof.
  intros Hlo Hn. destruct (Z.eq_dec lo 0) as [->|Hnz]; [apply Z.testbit_0_l|].
  apply Z.bits_above_log2; [lia|]. assert (Z.log2 lo < s) by (apply Z.log2_lt_pow2; lia). lia.
Qed.

Lemma land_disjoint hi lo s : 0 <= s -> 0 <= lo < 2 ^ s -> Z.land (hi * 2 ^ s) lo = 0.
Proof.
  intros Hs Hlo. apply Z.bits_inj'. intros n Hn. rewrite Z.land_spec, Z.bits_0.
  destruct (Z_lt_ge_dec n s) as [Hlt|Hge].
  - rewrite Z.mul_pow2_bits_low by lia. reflexivity.
  - rewrite (testbit_small lo s n) by lia. apply andb_false_r.
Qed.

Lemma lor_disjoint hi lo s : 0 <= s -> 0 <= lo < 2 ^ s -> Z.lor (hi * 2 ^ s) lo = hi * 2 ^ s + lo.
Proof.
  intros Hs Hlo. pose proof (land_disjoint hi lo s Hs Hlo) as Hl.
  rewrite <- Z.lxor_lor by assumption. symmetry. apply Z.add_nocarry_lxor. assumption.
Qed.

Lemma pow2_split a b : 0 <= a -> 0 <= b -> 2 ^ (a + b) = 2 ^ a * 2 ^ b.
Proof. intros. apply Z.pow_add_r; lia. Qed.

(** x << s on a 64-bit word, together with the bits shifted out:  x * 2^s = (x >> (64-s)) * B + (x << s) *)
Lemma wshl_split x s : is_word x -> 0 < s < 64 ->
  x * 2 ^ s = (x / 2 ^ (64 - s)) * B + wshl x s /\ 0 <= x / 2 ^ (64 - s) < 2 ^ s /\
  exists k, wshl x s = k * 2 ^ s /\ 0 <= k.
Proof.
  intros Hx Hs. unfold is_word in Hx. unfold wshl, wrap. rewrite B_val in *.
  assert (Hp : 2 ^ 64 = 2 ^ (64 - s) * 2 ^ s) by (rewrite <- pow2_split by lia; f_equal; lia).
  assert (0 < 2 ^ s) by (apply Z.pow_pos_nonneg; lia).
  assert (0 < 2 ^ (64 - s)) by (apply Z.pow_pos_nonneg; lia).
  pose proof (Z.div_mod x (2 ^ (64 - s)) ltac:(lia)) as Hdm.
  pose proof (Z.mod_pos_bound x (2 ^ (64 - s)) ltac:(lia)) as Hmb.
  set (h := x / 2 ^ (64 - s)) in *. set (l := x mod 2 ^ (64 - s)) in *.
  assert (Hh : 0 <= h < 2 ^ s).
  { split; [apply Z.div_pos; lia | apply Z.div_lt_upper_bound; lia]. }
  assert (Hl2 : 0 <= l * 2 ^ s < 2 ^ 64) by nia.
  assert (Hm : (x * 2 ^ s) mod 2 ^ 64 = l * 2 ^ s).
  { symmetry. apply (Z.mod_unique_pos _ _ h); [lia|]. rewrite Hdm, Hp. ring. }
  rewrite Hm. split; [rewrite Hdm at 1; rewrite Hp; ring|]. split; [assumption|].
  exists l. split; [reflexivity | lia].
Qed.
