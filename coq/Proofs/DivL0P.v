(** C02 (limb-level shifts): the value-level shortcut of Model/Div.v is harmless.
    Model/DivL0.v runs Uint::div_rem / BoxedUint::div_rem with the limb-level constant-time shift ladder and the
    limb-level bit length of Model/Bits.v.  Here: the two models are EQUAL (and the panicking wrappers `shl` / `shr`
    never take their panic branch), hence the l0 functions inherit the exactness theorems of Proofs/DivFinalP.v. *)
From CB Require Import Model.Limbs Model.AddSub Model.Bits Model.Div Model.DivL0
  Proofs.WordP Proofs.LimbsP Proofs.AddSubP Proofs.BitsWordP Proofs.ShiftP Proofs.LadderP Proofs.BitQueryP
  Proofs.DivP Proofs.Rem2kP Proofs.DivShiftP Proofs.DivCtP Proofs.DivFinalP.
From Coq Require Import ZArith Lia List Bool.
Open Scope Z_scope.

(* ---------------------------------------------------------------- every stored limb is the output of a word operation *)
Lemma l0_word_wadd a b : is_word (wadd a b). Proof. unfold wadd, wrap. apply is_word_mod. Qed.
Lemma l0_word_wsub a b : is_word (wsub a b). Proof. unfold wsub, wrap. apply is_word_mod. Qed.
Lemma l0_word_0 : is_word 0. Proof. unfold is_word. pose proof B_gt1. lia. Qed.
Lemma l0_word_MAXW : is_word MAXW. Proof. unfold is_word. rewrite MAXW_val. pose proof B_gt1. lia. Qed.
Lemma l0_word_sel c a b : is_word a -> is_word b -> is_word (sel c a b).
Proof. destruct c; auto. Qed.
Lemma l0_sbb_word a b c : is_word (fst (sbb a b c)).
Proof. unfold sbb. cbn [fst]. apply is_word_mod. Qed.
Lemma l0_adc_word a b c : is_word (fst (adc a b c)).
Proof. unfold adc. cbn [fst]. apply is_word_mod. Qed.

Ltac l0_words := repeat first [apply l0_word_sel | apply l0_word_wadd | apply l0_word_wsub | apply l0_word_0 | apply l0_word_MAXW].

Lemma l0_div2by1_words u1 u0 rc : is_word (fst (div2by1 u1 u0 rc)) /\ is_word (snd (div2by1 u1 u0 rc)).
Proof.
  unfold div2by1. destruct (mulhilo (r_v rc) u1) as [q1 q0]. destruct (addhilo q1 q0 u1 u0) as [q1' q0'].
  cbv zeta. cbn [fst snd]. split; l0_words.
Qed.

Lemma l0_div3by2_round_word v0 d u0 st : is_word (fst st) -> is_word (fst (div3by2_round v0 d u0 st)).
Proof.
  destruct st as [quo rem]. cbn [fst]. intros H. unfold div3by2_round. cbv zeta. cbn [fst]. l0_words; assumption.
Qed.

Lemma l0_div3by2_word u2 u1 u0 rc v0 : is_word (div3by2 u2 u1 u0 rc v0).
Proof.
  unfold div3by2. cbv zeta.
  pose proof (l0_div2by1_words (sel (u2 =? r_d rc) u2 0) u1 rc) as [Hq _].
  destruct (div2by1 (sel (u2 =? r_d rc) u2 0) u1 rc) as [quo rem]. cbn [fst] in Hq.
  do 2 apply l0_div3by2_round_word. cbn [fst]. l0_words; assumption.
Qed.

Lemma l0_wf_upd l i v : wf l -> is_word v -> wf (upd l i v).
Proof.
  intros Hl Hv. unfold upd. apply wf_app. split; [apply wf_firstn; assumption|].
  apply wf_cons. split; [assumption | apply wf_skipn; assumption].
Qed.

Lemma l0_length_upd (l : list Z) i v : (i < length l)%nat -> length (upd l i v) = length l.
Proof.
  intros Hi. unfold upd. rewrite app_length, firstn_length_le by lia. cbn [length]. rewrite skipn_length. lia.
Qed.

Lemma l0_wf_map (f : nat -> Z) l : (forall i, is_word (f i)) -> wf (map f l).
Proof. intros Hf. induction l as [|a l IH]; cbn [map]; [apply wf_nil | apply wf_cons; split; auto]. Qed.

Lemma l0_mulsub_go_wf : forall cnt i x y base yoff quo carry borrow,
  wf x -> (base + i + cnt <= length x)%nat ->
  wf (fst (fst (mulsub_go cnt i x y base yoff quo carry borrow))) /\
  length (fst (fst (mulsub_go cnt i x y base yoff quo carry borrow))) = length x.
Proof.
  induction cnt as [|c IH]; intros i x y base yoff quo carry borrow Hw Hl; cbn [mulsub_go].
  - cbn [fst]. auto.
  - destruct (mac 0 (nthz y (yoff + i)) quo carry) as [tmp carry'].
    pose proof (l0_sbb_word (nthz x (base + i)) tmp borrow) as Hxv.
    destruct (sbb (nthz x (base + i)) tmp borrow) as [xv borrow']. cbn [fst] in Hxv.
    destruct (IH (S i) (upd x (base + i) xv) y base yoff quo carry' borrow') as [H1 H2].
    + apply l0_wf_upd; assumption.
    + rewrite l0_length_upd by lia. lia.
    + rewrite l0_length_upd in H2 by lia. auto.
Qed.

Lemma l0_addback_go_wf : forall cnt i x y base yoff mask carry,
  wf x -> (base + i + cnt <= length x)%nat ->
  wf (addback_go cnt i x y base yoff mask carry) /\
  length (addback_go cnt i x y base yoff mask carry) = length x.
Proof.
  induction cnt as [|c IH]; intros i x y base yoff mask carry Hw Hl; cbn [addback_go].
  - auto.
  - pose proof (l0_adc_word (nthz x (base + i)) (sel mask 0 (nthz y (yoff + i))) carry) as Hxv.
    destruct (adc (nthz x (base + i)) (sel mask 0 (nthz y (yoff + i))) carry) as [xv carry']. cbn [fst] in Hxv.
    destruct (IH (S i) (upd x (base + i) xv) y base yoff mask carry') as [H1 H2].
    + apply l0_wf_upd; assumption.
    + rewrite l0_length_upd by lia. lia.
    + rewrite l0_length_upd in H2 by lia. auto.
Qed.

Lemma l0_knuth_step_wf x y x_hi base yoff cnt quo : wf x -> (base + cnt <= length x)%nat ->
  wf (fst (knuth_step x y x_hi base yoff cnt quo)) /\
  length (fst (knuth_step x y x_hi base yoff cnt quo)) = length x.
Proof.
  intros Hw Hl. unfold knuth_step.
  pose proof (l0_mulsub_go_wf cnt 0 x y base yoff quo 0 0 Hw ltac:(lia)) as [H1 H2].
  destruct (mulsub_go cnt 0 x y base yoff quo 0 0) as [[x1 carry] borrow]. cbn [fst] in H1, H2.
  destruct (sbb x_hi carry borrow) as [t borrow2]. cbn [fst].
  destruct (l0_addback_go_wf cnt 0 x1 y base yoff (negb (borrow2 =? 0)) 0 H1 ltac:(lia)) as [H3 H4].
  split; [assumption | lia].
Qed.

(* ---------------------------------------------------------------- the loop state stays a well-formed n-limb value *)
Definition ct_wf (n : nat) (st : ctst) : Prop := wf (c_x st) /\ length (c_x st) = n /\ is_word (c_xhi st).

Lemma l0_ct_body_wf xi' n dwords y rc st : (S xi' < n)%nat -> ct_wf n st -> ct_wf n (ct_body xi' n dwords y rc st).
Proof.
  intros Hxi (Hw & Hl & Hh). unfold ct_body. cbv zeta.
  assert (Hq : is_word (sel (Z.of_nat (S xi') <? dwords - 1)
                 (div3by2 (c_xhi st) (c_xlo st) (nthz (c_x st) xi') rc (nthz y (n - 2))) 0))
    by (apply l0_word_sel; [apply l0_div3by2_word | apply l0_word_0]).
  set (quo := sel (Z.of_nat (S xi') <? dwords - 1)
                 (div3by2 (c_xhi st) (c_xlo st) (nthz (c_x st) xi') rc (nthz y (n - 2))) 0) in *.
  pose proof (l0_knuth_step_wf (c_x st) y (c_xhi st) 0 (n - S xi' - 1) (S (S xi')) quo Hw ltac:(lia)) as [H1 H2].
  destruct (knuth_step (c_x st) y (c_xhi st) 0 (n - S xi' - 1) (S (S xi')) quo) as [x2 mask]. cbn [fst] in H1, H2.
  unfold ct_wf. cbn [c_x c_xhi].
  assert (Hq' : is_word (sel mask quo (if quo =? 0 then 0 else quo - 1))).
  { apply l0_word_sel; [assumption|]. destruct (quo =? 0) eqn:E; [apply l0_word_0|].
    apply Z.eqb_neq in E. unfold is_word in *. lia. }
  split; [|split].
  - apply l0_wf_upd; [assumption|]. apply l0_word_sel; [assumption | apply wf_nthz; assumption].
  - rewrite l0_length_upd by lia. lia.
  - apply l0_word_sel; [apply wf_nthz; assumption | assumption].
Qed.

Lemma l0_div_ct_loop_wf : forall xi n dwords y rc st,
  (xi < n)%nat -> ct_wf n st -> ct_wf n (div_ct_loop xi n dwords y rc st).
Proof.
  induction xi as [|xi IH]; intros n dwords y rc st Hxi Hst; [exact Hst|].
  rewrite div_ct_loop_S. apply IH; [lia|]. apply l0_ct_body_wf; assumption.
Qed.

(* ---------------------------------------------------------------- the part of div_rem between the first and the last shifts *)
Definition ct_mid (y x0 : list Z) (dbits : Z) : list Z * list Z :=
  let n := length x0 in
  let dwords := (dbits + 63) / 64 in
  let lshift := (64 - dbits mod 64) mod 64 in
  let '(x, x_hi) := shl_limb x0 lshift in
  let rc := recip_new (nthz y (n - 1)) in
  let st := div_ct_loop (n - 1) n dwords y rc {| c_x := x; c_xhi := x_hi; c_xlo := nthz x (n - 1) |} in
  let x := c_x st in
  let limb_div := dwords =? 1 in
  let x_hi_adj := sel limb_div 0 (c_xhi st) in
  let '(quo2, rem2) := div2by1 x_hi_adj (c_xlo st) rc in
  let x := upd x 0 (sel limb_div (nthz x 0) quo2) in
  let y0' := sel limb_div (nthz x 0) rem2 in
  let ytail := map (fun i => let yi := sel (Z.of_nat i <? dwords) 0 (nthz x i) in
                             sel (Z.of_nat i =? dwords - 1) yi (c_xhi st)) (seq 1 (n - 1)) in
  (x, y0' :: ytail).

Lemma l0_core_split x0 y0 dbits :
  div_rem_ct_core x0 y0 dbits =
  (shr_val (length x0) (fst (ct_mid (shl_val (length x0) y0 (64 * Z.of_nat (length x0) - dbits)) x0 dbits))
     (((dbits + 63) / 64 - 1) * 64),
   shr_val (length x0) (snd (ct_mid (shl_val (length x0) y0 (64 * Z.of_nat (length x0) - dbits)) x0 dbits))
     ((64 - dbits mod 64) mod 64)).
Proof.
  unfold div_rem_ct_core, ct_mid. cbv zeta.
  destruct (shl_limb x0 ((64 - dbits mod 64) mod 64)) as [x x_hi].
  destruct (div2by1 _ _ _) as [quo2 rem2]. reflexivity.
Qed.

Lemma l0_gen_split shl shr x0 y0 dbits :
  div_rem_ct_core_gen shl shr x0 y0 dbits =
  match shl y0 (64 * Z.of_nat (length x0) - dbits) with
  | None => None
  | Some y =>
      match shr (fst (ct_mid y x0 dbits)) (((dbits + 63) / 64 - 1) * 64),
            shr (snd (ct_mid y x0 dbits)) ((64 - dbits mod 64) mod 64) with
      | Some q, Some r => Some (q, r)
      | _, _ => None
      end
  end.
Proof.
  unfold div_rem_ct_core_gen, ct_mid. cbv zeta.
  destruct (shl y0 (64 * Z.of_nat (length x0) - dbits)) as [y|]; [|reflexivity].
  destruct (shl_limb x0 ((64 - dbits mod 64) mod 64)) as [x x_hi].
  destruct (div2by1 _ _ _) as [quo2 rem2]. reflexivity.
Qed.

(** the two lists handed to the final shifts are well-formed values of the full width (for ANY divisor list y) *)
Lemma l0_ct_mid_wf y x0 dbits : wf x0 -> (1 <= length x0)%nat ->
  wf (fst (ct_mid y x0 dbits)) /\ length (fst (ct_mid y x0 dbits)) = length x0 /\
  wf (snd (ct_mid y x0 dbits)) /\ length (snd (ct_mid y x0 dbits)) = length x0.
Proof.
  intros Hwx Hn. unfold ct_mid. cbv zeta. set (n := length x0) in *.
  set (s := (64 - dbits mod 64) mod 64).
  assert (Hs : 0 <= s < 64) by (apply Z.mod_pos_bound; lia).
  pose proof (shl_limb_correct x0 s Hwx Hs) as Hx. fold n in Hx.
  destruct (shl_limb x0 s) as [x x_hi]. destruct Hx as (_ & Hwxs & Hlxs & Hxhi).
  assert (Hxhiw : is_word x_hi).
  { unfold is_word. assert (2 ^ s <= 2 ^ 64) by (apply Z.pow_le_mono_r; lia). rewrite B_val. lia. }
  set (dwords := (dbits + 63) / 64).
  set (rc := recip_new (nthz y (n - 1))).
  set (st0 := {| c_x := x; c_xhi := x_hi; c_xlo := nthz x (n - 1) |}).
  assert (H0 : ct_wf n st0) by (unfold ct_wf, st0; cbn [c_x c_xhi]; auto).
  pose proof (l0_div_ct_loop_wf (n - 1) n dwords y rc st0 ltac:(lia) H0) as (Hw & Hl & Hh).
  set (st := div_ct_loop (n - 1) n dwords y rc st0) in *.
  pose proof (l0_div2by1_words (sel (dwords =? 1) 0 (c_xhi st)) (c_xlo st) rc) as [Hq2 Hr2].
  destruct (div2by1 (sel (dwords =? 1) 0 (c_xhi st)) (c_xlo st) rc) as [quo2 rem2]. cbn [fst snd] in Hq2, Hr2 |- *.
  assert (Hwu : wf (upd (c_x st) 0 (sel (dwords =? 1) (nthz (c_x st) 0) quo2))).
  { apply l0_wf_upd; [assumption|]. apply l0_word_sel; [apply wf_nthz; assumption | assumption]. }
  split; [exact Hwu|]. split; [rewrite l0_length_upd by lia; exact Hl|]. split.
  - apply wf_cons. split.
    + apply l0_word_sel; [apply wf_nthz; assumption | assumption].
    + apply l0_wf_map. intros i. apply l0_word_sel; [|assumption].
      apply l0_word_sel; [apply l0_word_0 | apply wf_nthz; assumption].
  - cbn [length]. rewrite map_length, seq_length. lia.
Qed.

(* ---------------------------------------------------------------- generic in the shift wrappers *)
Section Gen.
Variables (shl shr : list Z -> Z -> option (list Z)) (n : nat).
Hypothesis Hshl : forall a s, wf a -> length a = n -> 0 <= s < 64 * Z.of_nat n -> shl a s = Some (shl_val n a s).
Hypothesis Hshr : forall a s, wf a -> length a = n -> 0 <= s < 64 * Z.of_nat n -> shr a s = Some (shr_val n a s).

Lemma l0_core_gen_eq x0 y0 dbits :
  wf x0 -> wf y0 -> length x0 = n -> length y0 = n -> (1 <= n)%nat -> 0 < dbits <= 64 * Z.of_nat n ->
  div_rem_ct_core_gen shl shr x0 y0 dbits = Some (div_rem_ct_core x0 y0 dbits).
Proof.
  intros Hwx Hwy Hlx Hly Hn Hd.
  rewrite l0_gen_split, l0_core_split, Hlx.
  rewrite (Hshl y0 (64 * Z.of_nat n - dbits) Hwy Hly ltac:(lia)).
  set (y := shl_val n y0 (64 * Z.of_nat n - dbits)).
  destruct (l0_ct_mid_wf y x0 dbits Hwx ltac:(lia)) as (H1 & H2 & H3 & H4). rewrite Hlx in H2, H4.
  assert (Hdw : 0 <= ((dbits + 63) / 64 - 1) * 64 < 64 * Z.of_nat n).
  { pose proof (Z.div_mod (dbits + 63) 64 ltac:(lia)) as Hdm.
    pose proof (Z.mod_pos_bound (dbits + 63) 64 ltac:(lia)) as Hmb. lia. }
  assert (Hls : 0 <= (64 - dbits mod 64) mod 64 < 64 * Z.of_nat n).
  { pose proof (Z.mod_pos_bound (64 - dbits mod 64) 64 ltac:(lia)). lia. }
  rewrite (Hshr _ _ H1 H2 Hdw), (Hshr _ _ H3 H4 Hls). reflexivity.
Qed.
End Gen.

(* ---------------------------------------------------------------- the panicking wrappers on in-range shifts *)
Lemma l0_uint_shl_val a s : wf a -> a <> [] -> 64 * Z.of_nat (length a) < U32 -> 0 <= s < 64 * Z.of_nat (length a) ->
  l0_uint_shl a s = Some (shl_val (length a) a s).
Proof.
  intros Hw Hne Hb Hs.
  destruct (uint_overflowing_shl_correct a s Hw Hne Hb ltac:(lia)) as (v & E & Wv & Lv & Ev).
  unfold bitsZ' in E, Ev. assert (Hlt : s <? 64 * Z.of_nat (length a) = true) by (apply Z.ltb_lt; lia).
  rewrite Hlt in E, Ev. cbn [choice_of_bool] in E.
  unfold l0_uint_shl. rewrite E, ct_expect_some. f_equal.
  unfold shl_val. rewrite <- Ev, <- Lv. symmetry. apply to_limbs_eval. assumption.
Qed.

Lemma l0_uint_shr_val a s : wf a -> a <> [] -> 64 * Z.of_nat (length a) < U32 -> 0 <= s < 64 * Z.of_nat (length a) ->
  l0_uint_shr a s = Some (shr_val (length a) a s).
Proof.
  intros Hw Hne Hb Hs.
  destruct (uint_overflowing_shr_correct a s Hw Hne Hb ltac:(lia)) as (v & E & Wv & Lv & Ev).
  unfold bitsZ' in E, Ev. assert (Hlt : s <? 64 * Z.of_nat (length a) = true) by (apply Z.ltb_lt; lia).
  rewrite Hlt in E, Ev. cbn [choice_of_bool] in E.
  unfold l0_uint_shr. rewrite E, ct_expect_some. f_equal.
  unfold shr_val. rewrite <- Ev, <- Lv. symmetry. apply to_limbs_eval. assumption.
Qed.

Lemma l0_boxed_shl_val a s : wf a -> a <> [] -> 0 <= s < 64 * Z.of_nat (length a) ->
  l0_boxed_shl a s = Some (shl_val (length a) a s).
Proof.
  intros Hw Hne Hs.
  destruct (boxed_overflowing_shl_correct a s Hw Hne ltac:(lia)) as (v & E & Wv & Lv & Ev).
  unfold bitsZ' in E, Ev. assert (Hlt : s <? 64 * Z.of_nat (length a) = true) by (apply Z.ltb_lt; lia).
  rewrite Hlt in E, Ev. cbn [negb] in E.
  unfold l0_boxed_shl. rewrite E. f_equal.
  unfold shl_val. rewrite <- Ev, <- Lv. symmetry. apply to_limbs_eval. assumption.
Qed.

Lemma l0_boxed_shr_val a s : wf a -> a <> [] -> 0 <= s < 64 * Z.of_nat (length a) ->
  l0_boxed_shr a s = Some (shr_val (length a) a s).
Proof.
  intros Hw Hne Hs.
  destruct (boxed_overflowing_shr_correct a s Hw Hne ltac:(lia)) as (v & E & Wv & Lv & Ev).
  unfold bitsZ' in E, Ev. assert (Hlt : s <? 64 * Z.of_nat (length a) = true) by (apply Z.ltb_lt; lia).
  rewrite Hlt in E, Ev. cbn [negb] in E.
  unfold l0_boxed_shr. rewrite E. f_equal.
  unfold shr_val. rewrite <- Ev, <- Lv. symmetry. apply to_limbs_eval. assumption.
Qed.

(** `rhs.bits()` computed on the limbs is the bit length of the value *)
Lemma l0_bits_val y : wf y -> l0_bits y = bits_of (eval y).
Proof.
  intros Hw. unfold l0_bits, lenZ. rewrite limbs_leading_zeros_correct by assumption.
  change (spec_bits (eval y)) with (bits_of (eval y)). lia.
Qed.

Lemma l0_bits_of_range y : wf y -> 0 <= bits_of (eval y) <= 64 * Z.of_nat (length y).
Proof.
  intros Hw. pose proof (eval_bounds y Hw) as Hb. destruct (Z.eq_dec (eval y) 0) as [E|E].
  - rewrite E. change (bits_of 0) with 0. lia.
  - destruct (bits_of_spec (eval y) ltac:(lia)) as (H1 & H2 & H3). split; [lia|].
    rewrite Bn_pow2 in Hb.
    destruct (Z_le_gt_dec (bits_of (eval y)) (64 * Z.of_nat (length y))) as [|Hgt]; [assumption|]. exfalso.
    assert (2 ^ (64 * Z.of_nat (length y)) <= 2 ^ (bits_of (eval y) - 1)) by (apply Z.pow_le_mono_r; lia). lia.
Qed.

Lemma l0_same_len_ne (a x : list Z) : length a = length x -> x <> [] -> a <> [].
Proof. intros Hl Hx ->. destruct x; [congruence | discriminate]. Qed.

(* ---------------------------------------------------------------- equality of the two models *)
(** Uint::div_rem with limb-level `bits` / `shl` / `shr` = the model of Div.v, on every input (zero divisor included:
    both are None); the `expect`s of Uint::shl / Uint::shr are never hit *)
Theorem uint_div_rem_l0_eq x y :
  wf x -> wf y -> length y = length x -> x <> [] -> 64 * Z.of_nat (length x) < 2 ^ 32 ->
  uint_div_rem_l0 x y = uint_div_rem x y.
Proof.
  intros Hx Hy Hl Hne Hb. unfold uint_div_rem_l0, uint_div_rem.
  destruct (length x =? 1)%nat; [reflexivity|].
  rewrite l0_bits_val by assumption.
  destruct (bits_of (eval y) =? 0) eqn:E0; [reflexivity|]. apply Z.eqb_neq in E0.
  pose proof (l0_bits_of_range y Hy) as Hr. rewrite Hl in Hr.
  assert (Hn1 : (1 <= length x)%nat) by (destruct x; [congruence | cbn [length]; lia]).
  unfold div_rem_ct_core_l0.
  apply (l0_core_gen_eq l0_uint_shl l0_uint_shr (length x)); try assumption; try reflexivity; try lia.
  - intros a s Ha Hla Hs. rewrite <- Hla in *. apply l0_uint_shl_val; try assumption.
    + eapply l0_same_len_ne; eassumption.
  - intros a s Ha Hla Hs. rewrite <- Hla in *. apply l0_uint_shr_val; try assumption.
    + eapply l0_same_len_ne; eassumption.
Qed.

(** BoxedUint::div_rem likewise (no width bound needed: the boxed overflow test is subtle's ct_lt on u32) *)
Theorem boxed_div_rem_l0_eq x y :
  wf x -> wf y -> x <> [] -> boxed_div_rem_l0 x y = boxed_div_rem x y.
Proof.
  intros Hx Hy Hne. unfold boxed_div_rem_l0, boxed_div_rem, uint_div_rem.
  destruct (length x =? length y)%nat eqn:El; cbn [negb]; [|reflexivity].
  apply Nat.eqb_eq in El.
  destruct (length x =? 1)%nat; [reflexivity|].
  rewrite l0_bits_val by assumption.
  destruct (bits_of (eval y) =? 0) eqn:E0; [reflexivity|]. apply Z.eqb_neq in E0.
  pose proof (l0_bits_of_range y Hy) as Hr. rewrite <- El in Hr.
  assert (Hn1 : (1 <= length x)%nat) by (destruct x; [congruence | cbn [length]; lia]).
  unfold boxed_div_rem_ct_core_l0.
  apply (l0_core_gen_eq l0_boxed_shl l0_boxed_shr (length x)); try assumption; try reflexivity; try lia.
  - intros a s Ha Hla Hs. rewrite <- Hla in *. apply l0_boxed_shl_val; try assumption.
    eapply l0_same_len_ne; eassumption.
  - intros a s Ha Hla Hs. rewrite <- Hla in *. apply l0_boxed_shr_val; try assumption.
    eapply l0_same_len_ne; eassumption.
Qed.

(* ---------------------------------------------------------------- total correctness of the limb-level models *)
Lemma l0_nonzero_ne (x0 y0 : list Z) : length y0 = length x0 -> eval y0 <> 0 -> x0 <> [].
Proof. intros Hl Hnz ->. destruct y0; [apply Hnz; reflexivity | discriminate]. Qed.

(** the statement of [uint_div_rem_total] for the limb-level model; the only extra hypothesis is that the width
    in bits is a u32 (as `Uint::BITS : u32` is) *)
Theorem uint_div_rem_l0_total x0 y0 :
  wf x0 -> wf y0 -> length y0 = length x0 -> 64 * Z.of_nat (length x0) < 2 ^ 32 -> eval y0 <> 0 ->
  exists q r, uint_div_rem_l0 x0 y0 = Some (q, r) /\
  eval x0 = eval q * eval y0 + eval r /\ 0 <= eval r < eval y0 /\
  length q = length x0 /\ length r = length x0 /\ wf q /\ wf r.
Proof.
  intros Hx Hy Hl Hb Hnz.
  rewrite uint_div_rem_l0_eq by (try assumption; eapply l0_nonzero_ne; eassumption).
  apply uint_div_rem_total; assumption.
Qed.

Theorem uint_div_rem_l0_zero x0 y0 :
  wf x0 -> wf y0 -> length y0 = length x0 -> x0 <> [] -> 64 * Z.of_nat (length x0) < 2 ^ 32 -> eval y0 = 0 ->
  uint_div_rem_l0 x0 y0 = None.
Proof.
  intros Hx Hy Hl Hne Hb Hz. rewrite uint_div_rem_l0_eq by assumption. apply uint_div_rem_zero; assumption.
Qed.

(** exactly the statement of [boxed_div_rem_total] for the limb-level model *)
Theorem boxed_div_rem_l0_total x0 y0 :
  wf x0 -> wf y0 -> length y0 = length x0 -> eval y0 <> 0 ->
  exists q r, boxed_div_rem_l0 x0 y0 = Some (q, r) /\
  eval x0 = eval q * eval y0 + eval r /\ 0 <= eval r < eval y0 /\
  length q = length x0 /\ length r = length x0 /\ wf q /\ wf r.
Proof.
  intros Hx Hy Hl Hnz.
  rewrite boxed_div_rem_l0_eq by (try assumption; eapply l0_nonzero_ne; eassumption).
  apply boxed_div_rem_total; assumption.
Qed.
