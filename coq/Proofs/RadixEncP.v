(** C17 proofs, part 6: RadixDivisionParams::encode_limbs (radixes that are no power of two).
    One round of the main loop divides  hi * B^limb_count + limbs  by div_limb = radix^digits_limb exactly
    (normalising shift, div2by1 with the reciprocal, the top quotient limb moved into `hi` when it is below the
    divisor); the loop writes the low `out_idx` digits of that number; the large-divisor loop (more than 32 limbs)
    splits the number by div_large = radix^digits_large with the proved in-place Knuth division and encodes
    each 32-limb remainder with the same loop.  Together: the formatter returns the canonical numeral. *)
From CB Require Import Model.Limbs Model.Div Model.Conv Model.Radix Proofs.WordP Proofs.LimbsP Proofs.ConvDigitsP
  Proofs.BitsP Proofs.DivP Proofs.RecipP Proofs.DivShiftP Proofs.KnuthStepP Proofs.DivBoxedP
  Proofs.RadixSpecP Proofs.RadixParseP Proofs.RadixParamsP.
From Coq Require Import ZArith Lia List Bool.
Import ListNotations.
Open Scope Z_scope.
Open Scope list_scope.

(* the low c digits only depend on the number modulo r^k, c <= k *)
Lemma digits_mod_ge r (c k : nat) x : 0 < r -> (c <= k)%nat -> digits r c (x mod r ^ Z.of_nat k) = digits r c x.
Proof.
  intros Hr Hc. rewrite <- (digits_mod r c (x mod r ^ Z.of_nat k)), <- (digits_mod r c x) by assumption. f_equal.
  replace k with (c + (k - c))%nat by lia. rewrite pow_add_nat.
  pose proof (pow_pos_nat r c Hr). pose proof (pow_pos_nat r (k - c) Hr).
  rewrite Z.rem_mul_r by lia.
  rewrite Z.mul_comm, Z_mod_plus_full. apply Z.mod_mod. lia.
Qed.

Section Enc.
Variable r : Z.
Variable rp : rparams.
Hypothesis Hr : 2 <= r <= 36.
Hypothesis Hg : params_good r rp.

Let k := rp_digits_limb rp.
Let D := r ^ Z.of_nat k.
Let rc := rp_recip rp.

Lemma D_pos : 0 < D. Proof. apply pow_pos_nat. lia. Qed.

Lemma emit_digits_spec : forall cnt dw w,
  emit_digits cnt r dw w = (dw / r ^ Z.of_nat cnt, map digit_char (rev (digits r cnt dw)) ++ w).
Proof.
  induction cnt as [|c IH]; intros dw w.
  - cbn [emit_digits digits rev map app]. change (Z.of_nat 0) with 0. rewrite Z.pow_0_r, Z.div_1_r. reflexivity.
  - cbn [emit_digits digits rev]. rewrite IH. rewrite map_app, <- app_assoc. cbn [map app].
    rewrite (Z.mod_small (dw mod r) 256) by (pose proof (Z.mod_pos_bound dw r ltac:(lia)); lia).
    rewrite pow_S_nat, Z.div_div by (try apply pow_pos_nat; lia). reflexivity.
Qed.

(** one round of the division loop *)
Theorem enc_step_spec act hi act' hi' dw : wf act -> 0 <= hi < D ->
  enc_step true rp act hi = (act', hi', dw) ->
  let V := hi * Bn (length act) + eval act in
  wf act' /\ 0 <= hi' < D /\ hi' * Bn (length act') + eval act' = V / D /\ dw = V mod D /\
  (length act' <= length act)%nat.
Proof.
  intros Hw Hhi E. cbv zeta. pose proof D_pos as HD. destruct Hg as [Hrad Hk HDl HDlt HDr Hrec Hlen Hwl Hlarge Htop Hdl].
  fold k D rc in HDl, HDlt, HDr, Hrec.
  destruct act as [|a0 at0] eqn:Eact.
  - cbn [enc_step] in E. inversion E; subst. cbn [length eval]. rewrite Bn_0.
    rewrite Z.mul_1_r, Z.add_0_r. rewrite Z.div_small, Z.mod_small by lia. cbn [length eval].
    repeat split; try lia; try apply wf_nil.
  - rewrite <- Eact in *. set (V := hi * Bn (length act) + eval act). assert (Hne : act <> []) by (rewrite Eact; discriminate).
    assert (Hn1 : (1 <= length act)%nat) by (rewrite Eact; cbn [length]; lia).
    unfold enc_step in E. rewrite Eact in E. rewrite <- Eact in E. fold rc in E.
    destruct Hrec as (Hs & Hdn & Hnorm & Hrok). remember (r_shift rc) as s eqn:Es_def.
    pose proof (shl_limb_correct act s Hw Hs) as Hshl.
    destruct (shl_limb act s) as [sh c] eqn:Esh. destruct Hshl as (Hse & Hwsh & Hlsh & Hc).
    assert (H2s : 0 < 2 ^ s) by (apply Z.pow_pos_nonneg; lia).
    destruct Hnorm as [Hn1' Hn2].
    set (carry := if 0 <? s then Z.lor c (wshl hi s) else hi) in *.
    assert (Hhs : 0 <= hi * 2 ^ s /\ hi * 2 ^ s + 2 ^ s <= D * 2 ^ s).
    { split; [apply Z.mul_nonneg_nonneg; lia|]. replace (hi * 2 ^ s + 2 ^ s) with ((hi + 1) * 2 ^ s) by ring.
      apply Z.mul_le_mono_nonneg_r; lia. }
    assert (Hcarry : carry = hi * 2 ^ s + c).
    { unfold carry. destruct (Z.ltb_spec 0 s).
      - unfold wshl, wrap. rewrite Z.mod_small by (destruct Hhs as [Hx0 Hx]; rewrite <- Hdn in Hx; lia). rewrite Z.lor_comm. apply lor_disjoint; lia.
      - assert (s = 0) by lia. replace s with 0 in * by lia. rewrite Z.pow_0_r in *. lia. }
    assert (Hcr : 0 <= carry < r_d rc) by (rewrite Hcarry; destruct Hhs as [Hx0 Hx]; rewrite <- Hdn in Hx; lia).
    destruct (divlimb_go (rev sh) carry rc) as [qs rf] eqn:Ediv.
    destruct (divlimb_go_correct rc (conj Hn1' Hn2) Hrok sh carry qs rf Hwsh Hcr Ediv) as (Hq & Hrf & Hwq & Hlq).
    set (q := rev qs) in *. set (Q := eval q) in *.
    assert (HV : V * 2 ^ s = Q * D * 2 ^ s + rf).
    { unfold V. rewrite Hlsh in Hq. rewrite Hcarry, Hdn in Hq. nia. }
    assert (Hmul : rf = 2 ^ s * (V - Q * D)) by lia.
    assert (Hdivs : rf / 2 ^ s = V - Q * D) by (rewrite Hmul, Z.mul_comm; apply Z.div_mul; lia).
    set (t := V - Q * D) in *.
    assert (Ht0 : 0 <= t).
    { destruct (Z_lt_ge_dec t 0) as [Hneg|]; [|lia]. assert (2 ^ s * t <= 2 ^ s * (-1)) by (apply Z.mul_le_mono_nonneg_l; lia). lia. }
    assert (Ht1 : t < D).
    { destruct (Z_lt_ge_dec t D) as [|Hge]; [assumption|]. rewrite Hdn in Hrf. assert (2 ^ s * D <= 2 ^ s * t) by (apply Z.mul_le_mono_nonneg_l; lia). lia. }
    assert (HQ : V / D = Q /\ V mod D = t) by (apply div_mod_unique_pos; lia).
    destruct HQ as [HQ1 HQ2].
    assert (Hlq' : length q = length act) by (unfold q; rewrite rev_length; lia).
    assert (Hqne : q <> []) by (intros Eq; rewrite Eq in Hlq'; cbn in Hlq'; lia).
    pose proof (app_removelast_last 0 Hqne) as Hsplit. set (top := last q 0) in *. set (ql := removelast q) in *.
    assert (Hwsplit : wf ql /\ is_word top).
    { rewrite Hsplit in Hwq. apply wf_app in Hwq. destruct Hwq as [H1 H2]. apply wf_cons in H2. tauto. }
    destruct Hwsplit as [Hwql Hwtop].
    assert (Hlql : length ql = (length act - 1)%nat).
    { apply (f_equal (@length Z)) in Hsplit. rewrite app_length in Hsplit. cbn [length] in Hsplit. lia. }
    assert (HQsplit : Q = eval ql + Bn (length ql) * top) by (unfold Q; rewrite Hsplit at 1; apply eval_snoc').
    rewrite HDl in E. fold D in E.
    destruct (Z.ltb_spec top D) as [Hsmall|Hbig]; inversion E; subst act' hi' dw.
    + unfold is_word in Hwtop. rewrite HQ1, HQ2, Hdivs. repeat split; try assumption; try lia.
    + rewrite HQ1, HQ2, Hdivs. repeat split; try assumption; try lia.
Qed.

(** the main loop writes the low out_idx digits of  hi * B^limb_count + limbs  in front of what is there *)
Theorem enc_loop_spec : forall fuel act hi oi w, wf act -> 0 <= hi < D -> (oi < fuel)%nat ->
  enc_loop fuel true rp act hi oi w =
  map digit_char (rev (digits r oi (hi * Bn (length act) + eval act))) ++ w.
Proof.
  pose proof D_pos as HD.
  assert (Hrad : rp_radix rp = r) by (destruct Hg; assumption).
  assert (Hk : (1 <= k)%nat) by (destruct Hg; assumption).
  induction fuel as [|f IH]; intros act hi oi w Hw Hhi Hf; [lia|].
  cbn [enc_loop]. destruct (enc_step true rp act hi) as [[act' hi'] dw] eqn:E.
  destruct (enc_step_spec act hi act' hi' dw Hw Hhi E) as (Hw' & Hhi' & HV' & Hdw & Hl').
  set (V := hi * Bn (length act) + eval act) in *.
  fold k. rewrite Hrad. rewrite emit_digits_spec.
  destruct (Nat.eqb_spec (oi - Nat.min k oi) 0) as [Hz|Hnz].
  - assert (Hmin : Nat.min k oi = oi) by lia. rewrite Hmin. rewrite Hdw. unfold D.
    rewrite digits_mod_ge by lia. reflexivity.
  - assert (Hmin : Nat.min k oi = k) by lia. rewrite Hmin.
    rewrite IH by (assumption || lia). rewrite HV'. rewrite Hdw. unfold D. rewrite digits_mod by lia.
    replace (digits r oi V) with (digits r (k + (oi - k)) V) by (f_equal; lia). rewrite digits_app by lia.
    rewrite rev_app_distr, map_app, <- app_assoc. reflexivity.
Qed.

Lemma firstn_S_snoc (l : list Z) n : (n < length l)%nat -> firstn (S n) l = firstn n l ++ [nthz l n].
Proof.
  revert n. induction l as [|x l IH]; intros n Hn; [cbn in Hn; lia|].
  destruct n as [|n]; [reflexivity|]. cbn [firstn app]. unfold nthz. cbn [nth]. f_equal. apply IH. cbn [length] in Hn. lia.
Qed.

Definition out_string (act : list Z) (oi : nat) (w : list Z) : list Z :=
  map digit_char (rev (digits r oi (eval act))) ++ w.

(** the large-divisor loop keeps the string that the remaining work will produce *)
Theorem large_go_spec : forall fuel act oi w act' oi' w', wf act ->
  large_go fuel true rp act oi w = (act', oi', w') ->
  wf act' /\ out_string act' oi' w' = out_string act oi w.
Proof.
  pose proof D_pos as HD.
  induction fuel as [|f IH]; intros act oi w act' oi' w' Hw E.
  - cbn [large_go] in E. inversion E; subst. split; [assumption | reflexivity].
  - cbn [large_go] in E. destruct (Nat.leb_spec RADIX_LIMBS_LARGE (length act)) as [Hge|Hlt].
    2:{ inversion E; subst. split; [assumption | reflexivity]. }
    unfold RADIX_LIMBS_LARGE in *.
    destruct Hg as [Hrad Hk HDl HDlt HDr Hrec Hlen Hwl Hlarge Htop Hdl].
    set (Y := rp_div_large rp) in *. set (dl := rp_digits_large rp) in *.
    assert (HY0 : Bn 31 <= eval Y).
    { destruct (list_snoc Y 31 Hlen) as (yl & yt & EY & Hyl).
      assert (Hyt : nthz Y 31 = yt) by (rewrite EY; apply nthz_app_mid; assumption).
      rewrite Hyt in Htop. rewrite EY in Hwl. apply wf_app in Hwl. destruct Hwl as [Hwyl Hwyt]. apply wf_cons in Hwyt.
      destruct Hwyt as [Hyw _]. unfold is_word in Hyw. rewrite EY, eval_snoc', Hyl.
      pose proof (eval_nonneg yl Hwyl). pose proof (Bn_pos 31). nia. }
    assert (HYpos : 0 < eval Y) by (pose proof (Bn_pos 31); lia).
    destruct (boxed_div_rem_in_place act Y) as [q remain] eqn:Ediv.
    assert (Hrok : recip_ok (top64 (eval Y)) (reciprocal (top64 (eval Y)))).
    { apply reciprocal_correct. pose proof (top64_normalized (eval Y) HYpos) as [Ha Hb]. rewrite B_val in Ha, Hb. lia. }
    destruct (boxed_div_rem_in_place_correct act Y q remain Hw Hwl ltac:(lia) ltac:(rewrite Hlen; exact Htop) Hrok Ediv)
      as (Heq & Hrem & Hlq & Hlr & Hwq & Hwr).
    set (X := eval act) in *. set (Q := eval q) in *. set (R := eval remain) in *.
    assert (HQD : X / eval Y = Q /\ X mod eval Y = R) by (apply div_mod_unique_pos; lia).
    destruct HQD as [HQ1 HQ2].
    (* the quotient fits length act - 31 limbs *)
    pose proof (eval_bounds act Hw) as HXb. fold X in HXb.
    set (lc := (length act + 1 - 32)%nat) in *.
    assert (HBsplit : Bn (length act) = Bn 31 * Bn lc) by (rewrite <- Bn_add; f_equal; unfold lc; lia).
    assert (HQnn : 0 <= Q) by (apply eval_nonneg; assumption).
    assert (HQlt : Q < Bn lc).
    { pose proof (Bn_pos lc). pose proof (Bn_pos 31).
      destruct (Z_lt_ge_dec Q (Bn lc)) as [|Hge']; [assumption|].
      assert (Bn lc * eval Y <= Q * eval Y) by (apply Z.mul_le_mono_nonneg_r; lia).
      assert (Bn lc * Bn 31 <= Bn lc * eval Y) by (apply Z.mul_le_mono_nonneg_l; lia). lia. }
    assert (Hlc1 : (1 <= lc <= length q)%nat) by (unfold lc; lia).
    assert (Hf1 : eval (firstn lc q) = Q).
    { rewrite eval_firstn by (assumption || lia). fold Q. apply Z.mod_small. lia. }
    set (lc' := if nthz q (lc - 1) =? 0 then (lc - 1)%nat else lc) in *.
    assert (Hf2 : eval (firstn lc' q) = Q).
    { unfold lc'. destruct (Z.eqb_spec (nthz q (lc - 1)) 0) as [E0|_]; [|assumption].
      rewrite <- Hf1. replace lc with (S (lc - 1)) at 2 by lia. rewrite firstn_S_snoc by lia.
      rewrite eval_snoc', E0. lia. }
    set (next := (oi - dl)%nat) in *. set (m := (oi - next)%nat) in *.
    assert (Hchunk : enc_loop (S m) true rp remain 0 m [] = map digit_char (rev (digits r m R))).
    { rewrite enc_loop_spec by (assumption || lia). rewrite app_nil_r. f_equal. }
    rewrite Hchunk in E.
    destruct (IH (firstn lc' q) next (map digit_char (rev (digits r m R)) ++ w) act' oi' w'
                (wf_firstn lc' q Hwq) E) as (Hw' & Hout).
    split; [assumption|]. rewrite Hout. unfold out_string. rewrite Hf2. fold X.
    rewrite app_assoc. f_equal. rewrite <- map_app, <- rev_app_distr. f_equal. f_equal.
    assert (HL : eval Y = r ^ Z.of_nat dl) by assumption.
    replace (digits r oi X) with (digits r (m + next) X) by (f_equal; unfold m, next; lia).
    rewrite digits_app by lia.
    destruct (Nat.le_gt_cases dl oi) as [Hcase|Hcase].
    + assert (Hm : m = dl) by (unfold m, next; lia). rewrite Hm.
      rewrite <- HL, HQ1. f_equal. rewrite <- HQ2, HL. apply digits_mod. lia.
    + assert (Hm : m = oi) by (unfold m, next; lia). assert (Hn : next = 0%nat) by (unfold next; lia).
      rewrite Hn, Hm. cbn [digits]. rewrite !app_nil_r. rewrite <- HQ2, HL. apply digits_mod_ge; lia.
Qed.

Theorem encode_limbs_spec limbs size : wf limbs ->
  encode_limbs true rp limbs size = map digit_char (rev (digits r size (eval limbs))).
Proof.
  intros Hw. pose proof D_pos as HD. unfold encode_limbs.
  destruct (Nat.ltb RADIX_LIMBS_LARGE (length limbs)).
  - destruct (large_go (length limbs) true rp limbs size []) as [[act oi] w] eqn:E.
    destruct (large_go_spec _ _ _ _ _ _ _ Hw E) as (Hw' & Hout).
    rewrite enc_loop_spec by (assumption || lia). rewrite Z.mul_0_l, Z.add_0_l.
    fold (out_string act oi w). rewrite Hout. unfold out_string. apply app_nil_r.
  - rewrite enc_loop_spec by (assumption || lia). rewrite Z.mul_0_l, Z.add_0_l. apply app_nil_r.
Qed.

End Enc.

(** radixes that are no power of two (single-divisor path and large-divisor recursion alike):
    the formatter returns the canonical numeral *)
Theorem format_generic_correct r limbs : 2 <= r <= 36 -> is_power_of_two r = false -> wf limbs -> limbs <> [] ->
  radix_encode_limbs_to_string true r limbs = Some (numeral r (eval limbs)).
Proof.
  intros Hr Hp Hw Hne. destruct (params_facts r Hr Hp) as (rp & Hfor & Hg).
  unfold radix_encode_limbs_to_string. destruct (Z.ltb_spec r 2); [lia|]. destruct (Z.ltb_spec 36 r); [lia|]. cbn [orb].
  rewrite Hp, Hfor. f_equal. rewrite (encode_limbs_spec r rp Hr Hg) by assumption.
  rewrite (map_ext digit_char sp_digit_char digit_char_sp).
  destruct Hg as [Hrad Hk HDl HDlt HDr Hrec Hlen Hwl Hlarge Htop Hdl].
  assert (Hlen1 : (1 <= length limbs)%nat) by (destruct limbs; [contradiction | cbn [length]; lia]).
  apply numeral_fixed; [assumption | nia |].
  pose proof (eval_bounds limbs Hw) as Hb. split; [lia|].
  assert (Bn (length limbs) <= r ^ Z.of_nat (length limbs * (rp_digits_limb rp + 1))).
  { rewrite Bn_pow, Nat.mul_comm, pow_mul_nat. apply Z.pow_le_mono_l. pose proof B_pos.
    rewrite Nat.add_1_r, pow_S_nat. lia. }
  lia.
Qed.

(** the fuel of the large-divisor loop in the model (the number of limbs) is never exhausted: the loop stops because
    fewer than 32 limbs remain, like the `while limb_count >= RADIX_ENCODING_LIMBS_LARGE` of the source *)
Lemma large_go_fuel fixed rp : forall fuel act oi w, (length act <= fuel)%nat ->
  (length (fst (fst (large_go fuel fixed rp act oi w))) < 32)%nat.
Proof.
  induction fuel as [|f IH]; intros act oi w Hl.
  - cbn [large_go fst]. lia.
  - cbn [large_go]. unfold RADIX_LIMBS_LARGE. destruct (Nat.leb_spec 32 (length act)) as [Hge|Hlt]; [|cbn [fst]; lia].
    destruct (boxed_div_rem_in_place act (rp_div_large rp)) as [q remain].
    apply IH. rewrite firstn_length. destruct (nthz q (length act + 1 - 32 - 1) =? 0); lia.
Qed.
