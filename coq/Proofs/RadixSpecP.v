(** C17 proofs, part 1: the specification level.  Canonical numerals and their values:
    [value r (numeral r x) = x], numerals are well formed, and the canonical numeral is the fixed-width
    big-endian digit string with its leading zeros stripped (the form both encoders produce). *)
From CB Require Import Model.Limbs Model.Conv Model.Radix Proofs.WordP Proofs.LimbsP Proofs.ConvDigitsP Proofs.ConvBytesP.
From Coq Require Import ZArith Lia List Bool.
Import ListNotations.
Open Scope Z_scope.
Open Scope list_scope.

(* ---- leading zero digits ---- *)
Fixpoint dropz (ds : list Z) : list Z :=
  match ds with [] => [] | d :: t => if d =? 0 then dropz t else ds end.

Lemma dropz_zeros l m : Forall (fun d => d = 0) l -> dropz (l ++ m) = dropz m.
Proof. induction 1 as [|d l Hd _ IH]; [reflexivity|]. subst d. cbn [app dropz]. exact IH. Qed.
Lemma dropz_all_zeros l : Forall (fun d => d = 0) l -> dropz l = [].
Proof. intros H. rewrite <- (app_nil_r l). rewrite dropz_zeros by assumption. reflexivity. Qed.
Lemma dropz_nil_zeros l : dropz l = [] -> Forall (fun d => d = 0) l.
Proof.
  induction l as [|d l IH]; intros H; [constructor|]. cbn [dropz] in H.
  destruct (Z.eqb_spec d 0); [constructor; auto | discriminate].
Qed.
Lemma dropz_app_nz l m : dropz l <> [] -> dropz (l ++ m) = dropz l ++ m.
Proof.
  induction l as [|d l IH]; intros H; [contradiction|]. cbn [app dropz] in *.
  destruct (d =? 0); [apply IH; assumption | reflexivity].
Qed.
Lemma wfd_dropz b l : wfd b l -> wfd b (dropz l).
Proof.
  induction l as [|d l IH]; intros H; [assumption|]. cbn [dropz].
  destruct (d =? 0); [apply IH; apply wfd_cons in H; tauto | assumption].
Qed.
Lemma evalb_zeros b l : Forall (fun d => d = 0) l -> evalb b l = 0.
Proof. induction 1 as [|d l Hd _ IH]; [reflexivity|]. cbn [evalb]. rewrite IH, Hd. lia. Qed.
Lemma Forall_zero_rev l : Forall (fun d : Z => d = 0) l -> Forall (fun d => d = 0) (rev l).
Proof. apply Forall_rev. Qed.
Lemma digits_zero b k : digits b k 0 = repeat 0 k.
Proof. induction k; cbn [digits repeat]; [reflexivity|]. rewrite Zmod_0_l, Zdiv_0_l, IHk. reflexivity. Qed.
Lemma Forall_zero_repeat k : Forall (fun d : Z => d = 0) (repeat 0 k).
Proof. induction k; cbn [repeat]; constructor; auto. Qed.

Lemma horner_dropz b l : horner b (dropz l) = horner b l.
Proof.
  induction l as [|d l IH]; [reflexivity|]. cbn [dropz]. destruct (Z.eqb_spec d 0) as [->|]; [|reflexivity].
  rewrite IH. unfold horner. cbn [fold_left]. reflexivity.
Qed.

Lemma pow_le_mono_nat b (k m : nat) : 1 <= b -> (k <= m)%nat -> b ^ Z.of_nat k <= b ^ Z.of_nat m.
Proof. intros Hb Hkm. apply Z.pow_le_mono_r; lia. Qed.

(* the significant digits do not depend on the width *)
Lemma dropz_digits_le r (m m' : nat) x : 2 <= r -> (m <= m')%nat -> 0 <= x < r ^ Z.of_nat m ->
  dropz (rev (digits r m' x)) = dropz (rev (digits r m x)).
Proof.
  intros Hr Hm Hx. replace m' with (m + (m' - m))%nat by lia.
  rewrite digits_app by lia. rewrite (Z.div_small x) by lia.
  rewrite digits_zero, rev_app_distr. apply dropz_zeros. apply Forall_zero_rev, Forall_zero_repeat.
Qed.
Lemma dropz_digits_indep r (m m' : nat) x : 2 <= r -> 0 <= x < r ^ Z.of_nat m -> 0 <= x < r ^ Z.of_nat m' ->
  dropz (rev (digits r m' x)) = dropz (rev (digits r m x)).
Proof.
  intros Hr H1 H2. destruct (Nat.le_ge_cases m m').
  - apply dropz_digits_le; assumption.
  - symmetry. apply dropz_digits_le; assumption.
Qed.

Lemma be_digits_spec r : 2 <= r -> forall (F : nat) x acc, 0 <= x < r ^ Z.of_nat F ->
  be_digits F r x acc = dropz (rev (digits r F x)) ++ acc.
Proof.
  intros Hr. induction F as [|f IH]; intros x acc Hx.
  - reflexivity.
  - cbn [be_digits digits rev]. destruct (Z.eqb_spec x 0) as [->|Hnz].
    + rewrite Zmod_0_l, Zdiv_0_l, digits_zero.
      rewrite (dropz_zeros (rev (repeat 0 f)) [0]) by (apply Forall_zero_rev, Forall_zero_repeat). reflexivity.
    + rewrite pow_S_nat in Hx. pose proof (pow_pos_nat r f ltac:(lia)) as Hp.
      assert (Hq : 0 <= x / r < r ^ Z.of_nat f).
      { split; [apply Z.div_pos; lia | apply Z.div_lt_upper_bound; lia]. }
      rewrite IH by assumption.
      destruct (Z.eqb_spec (x / r) 0) as [E0|Hq0].
      * rewrite E0, digits_zero.
        rewrite (dropz_all_zeros (rev (repeat 0 f))) by (apply Forall_zero_rev, Forall_zero_repeat).
        rewrite (dropz_zeros (rev (repeat 0 f)) [x mod r]) by (apply Forall_zero_rev, Forall_zero_repeat).
        cbn [dropz app].
        assert (x mod r <> 0).
        { pose proof (Z.div_mod x r ltac:(lia)). lia. }
        destruct (Z.eqb_spec (x mod r) 0); [contradiction | reflexivity].
      * assert (Hne : dropz (rev (digits r f (x / r))) <> []).
        { intros Hnil. apply dropz_nil_zeros in Hnil. apply Forall_rev in Hnil. rewrite rev_involutive in Hnil.
          apply (evalb_zeros r) in Hnil. rewrite evalb_digits in Hnil by lia. rewrite Z.mod_small in Hnil by lia. contradiction. }
        rewrite dropz_app_nz by assumption. rewrite <- app_assoc. reflexivity.
Qed.

(* ---- digit characters ---- *)
Lemma digit_char_sp d : digit_char d = sp_digit_char d.
Proof. unfold digit_char, sp_digit_char. destruct (d <? 10); cbv iota; lia. Qed.
Lemma sp_char_val_digit d : 0 <= d < 36 -> sp_char_val (sp_digit_char d) = Some d.
Proof.
  intros Hd. unfold sp_char_val, sp_digit_char. destruct (Z.ltb_spec d 10);
  repeat match goal with |- context [?a <=? ?b] => destruct (Z.leb_spec a b) end; cbn [andb]; try lia; f_equal; lia.
Qed.
Lemma sp_digit_char_zero d : 0 <= d < 36 -> (sp_digit_char d =? 48) = (d =? 0).
Proof. intros Hd. unfold sp_digit_char. destruct (Z.ltb_spec d 10); destruct (Z.eqb_spec d 0); destruct (Z.eqb_spec (48 + d) 48); destruct (Z.eqb_spec (87 + d) 48); lia || reflexivity. Qed.
Lemma sp_digit_char_range d : 0 <= d < 36 -> 48 <= sp_digit_char d <= 122 /\ sp_digit_char d <> 95 /\ sp_digit_char d <> 43.
Proof. intros Hd. unfold sp_digit_char. destruct (Z.ltb_spec d 10); lia. Qed.
Lemma wfd_weaken b b' l : b <= b' -> wfd b l -> wfd b' l.
Proof. intros Hb H. unfold wfd in *. eapply Forall_impl; [|exact H]. cbn. intros; lia. Qed.

Lemma sp_digit_vals_chars ds : wfd 36 ds -> sp_digit_vals (map sp_digit_char ds) = ds.
Proof.
  induction ds as [|d ds IH]; intros H; [reflexivity|]. apply wfd_cons in H. destruct H as [Hd Hw].
  unfold sp_digit_vals in *. cbn [map flat_map]. rewrite sp_char_val_digit by assumption. rewrite IH by assumption. reflexivity.
Qed.

(* strip_zeros on characters = dropz on digits, but at least one character stays *)
Lemma strip_zeros_cons2 c c' t : strip_zeros (c :: c' :: t) = if c =? 48 then strip_zeros (c' :: t) else c :: c' :: t.
Proof. reflexivity. Qed.
Lemma dropz_cons d t : dropz (d :: t) = if d =? 0 then dropz t else d :: t.
Proof. reflexivity. Qed.
Lemma strip_zeros_map ds : ds <> [] -> wfd 36 ds ->
  strip_zeros (map sp_digit_char ds) = match dropz ds with [] => [48] | l => map sp_digit_char l end.
Proof.
  induction ds as [|d ds IH]; intros Hne Hw; [contradiction|].
  apply wfd_cons in Hw. destruct Hw as [Hd Hw].
  destruct ds as [|d' ds'].
  - cbn [map strip_zeros dropz]. destruct (Z.eqb_spec d 0) as [->|]; reflexivity.
  - change (map sp_digit_char (d :: d' :: ds')) with (sp_digit_char d :: sp_digit_char d' :: map sp_digit_char ds').
    rewrite strip_zeros_cons2, sp_digit_char_zero by assumption. rewrite (dropz_cons d).
    destruct (Z.eqb_spec d 0) as [->|Hnz].
    + change (sp_digit_char d' :: map sp_digit_char ds') with (map sp_digit_char (d' :: ds')).
      apply IH; [discriminate | assumption].
    + reflexivity.
Qed.

Lemma log2_fuel r x : 2 <= r -> 0 < x -> 0 <= x < r ^ Z.of_nat (Z.to_nat (Z.log2 x + 1)).
Proof.
  intros Hr Hx. pose proof (Z.log2_nonneg x). rewrite Z2Nat.id by lia.
  pose proof (Z.log2_spec x Hx) as [_ Hhi]. replace (Z.succ (Z.log2 x)) with (Z.log2 x + 1) in Hhi by lia.
  assert (2 ^ (Z.log2 x + 1) <= r ^ (Z.log2 x + 1)) by (apply Z.pow_le_mono_l; lia). lia.
Qed.

(** the canonical numeral is the fixed-width digit string with its leading zeros stripped *)
Theorem numeral_fixed r (m : nat) x : 2 <= r <= 36 -> (1 <= m)%nat -> 0 <= x < r ^ Z.of_nat m ->
  strip_zeros (map sp_digit_char (rev (digits r m x))) = numeral r x.
Proof.
  intros Hr Hm Hx.
  assert (Hw : wfd 36 (rev (digits r m x))) by (apply wfd_rev, (wfd_weaken r); [lia | apply wfd_digits; lia]).
  assert (Hne : rev (digits r m x) <> []).
  { intros E. apply (f_equal (@length Z)) in E. rewrite rev_length, length_digits in E. cbn in E. lia. }
  rewrite strip_zeros_map by assumption. unfold numeral.
  destruct (Z.leb_spec x 0) as [Hx0|Hx0].
  - assert (x = 0) by lia. subst x. rewrite digits_zero.
    rewrite dropz_all_zeros by (apply Forall_zero_rev, Forall_zero_repeat). reflexivity.
  - pose proof (log2_fuel r x ltac:(lia) Hx0) as Hf.
    rewrite be_digits_spec, app_nil_r by (lia || assumption).
    rewrite (dropz_digits_indep r m (Z.to_nat (Z.log2 x + 1)) x) by (lia || assumption).
    destruct (dropz (rev (digits r m x))) eqn:E; [|reflexivity].
    exfalso. apply dropz_nil_zeros in E. apply Forall_rev in E. rewrite rev_involutive in E.
    apply (evalb_zeros r) in E. rewrite evalb_digits in E by lia. rewrite Z.mod_small in E by lia. lia.
Qed.

(* the significant digits of a positive number *)
Lemma numeral_pos r x : 2 <= r -> 0 < x ->
  numeral r x = map sp_digit_char (dropz (rev (digits r (Z.to_nat (Z.log2 x + 1)) x))) /\
  dropz (rev (digits r (Z.to_nat (Z.log2 x + 1)) x)) <> [].
Proof.
  intros Hr Hx. unfold numeral. destruct (Z.leb_spec x 0); [lia|].
  pose proof (log2_fuel r x Hr Hx) as Hf.
  rewrite be_digits_spec, app_nil_r by assumption. split; [reflexivity|].
  intros E. apply dropz_nil_zeros in E. apply Forall_rev in E. rewrite rev_involutive in E.
  apply (evalb_zeros r) in E. rewrite evalb_digits in E by lia. rewrite Z.mod_small in E by lia. lia.
Qed.

Lemma sp_body_nosign c t : c <> 43 -> sp_body (c :: t) = c :: t.
Proof.
  intros H. unfold sp_body. destruct c as [|p|p]; try reflexivity.
  do 6 (destruct p as [p|p|]; try reflexivity). contradiction.
Qed.

(** parsing the canonical numeral gives the number back (specification level) *)
Theorem spec_roundtrip r x : 2 <= r <= 36 -> 0 <= x -> value r (numeral r x) = x.
Proof.
  intros Hr Hx. destruct (Z.eq_dec x 0) as [->|Hnz]; [reflexivity|].
  destruct (numeral_pos r x ltac:(lia) ltac:(lia)) as [E Hne]. set (F := Z.to_nat (Z.log2 x + 1)) in *.
  pose proof (log2_fuel r x ltac:(lia) ltac:(lia)) as Hf. fold F in Hf.
  assert (Hw : wfd 36 (dropz (rev (digits r F x)))).
  { apply wfd_dropz, wfd_rev, (wfd_weaken r); [lia | apply wfd_digits; lia]. }
  unfold value. rewrite E.
  destruct (dropz (rev (digits r F x))) as [|d l] eqn:Ed; [contradiction|].
  cbn [map]. rewrite sp_body_nosign.
  2:{ apply wfd_cons in Hw. destruct Hw as [Hd _]. pose proof (sp_digit_char_range d Hd). lia. }
  change (sp_digit_char d :: map sp_digit_char l) with (map sp_digit_char (d :: l)).
  rewrite sp_digit_vals_chars by assumption. rewrite <- Ed, horner_dropz, horner_evalb, rev_involutive.
  rewrite evalb_digits by lia. apply Z.mod_small. lia.
Qed.

Lemma is_digit_of_char r d : 0 <= d < r -> r <= 36 -> is_digit_of r (sp_digit_char d) = true.
Proof. intros Hd Hr. unfold is_digit_of. rewrite sp_char_val_digit by lia. apply Z.ltb_lt. lia. Qed.

(** the canonical numeral is a numeral *)
Lemma last_In_Z (c0 : Z) ct : In (last (c0 :: ct) 0) (c0 :: ct).
Proof.
  revert c0. induction ct as [|c ct IH]; intros c0; [left; reflexivity|].
  change (last (c0 :: c :: ct) 0) with (last (c :: ct) 0). right. apply IH.
Qed.
Lemma digit_string_well_formed r cs : cs <> [] ->
  (forall c, In c cs -> is_digit_of r c = true /\ c <> 95 /\ c <> 43) -> well_formedb r cs = true.
Proof.
  intros Hne Hall. destruct cs as [|c0 ct]; [contradiction|].
  unfold well_formedb. rewrite sp_body_nosign by (apply Hall; left; reflexivity).
  apply andb_true_iff; split; [apply andb_true_iff; split|].
  - destruct (Hall c0 ltac:(left; reflexivity)) as (_ & H95 & _). apply negb_true_iff, Z.eqb_neq. assumption.
  - destruct (Hall _ (last_In_Z c0 ct)) as (_ & H95 & _). apply negb_true_iff, Z.eqb_neq. assumption.
  - apply forallb_forall. intros c Hc. destruct (Hall c Hc) as (Hd & _). rewrite Hd. apply orb_true_r.
Qed.
Theorem numeral_well_formed r x : 2 <= r <= 36 -> 0 <= x -> well_formed r (numeral r x).
Proof.
  intros Hr Hx. unfold well_formed. destruct (Z.eq_dec x 0) as [->|Hnz].
  - unfold numeral, well_formedb. cbn. unfold is_digit_of. cbn. rewrite andb_true_r. apply Z.ltb_lt. lia.
  - destruct (numeral_pos r x ltac:(lia) ltac:(lia)) as [E Hne].
    remember (dropz (rev (digits r (Z.to_nat (Z.log2 x + 1)) x))) as ds eqn:Eds.
    assert (Hw : wfd r ds) by (subst ds; apply wfd_dropz, wfd_rev, wfd_digits; lia).
    rewrite E. apply digit_string_well_formed.
    + destruct ds; [contradiction | discriminate].
    + intros c Hc. apply in_map_iff in Hc. destruct Hc as (d & <- & Hin).
      unfold wfd in Hw. rewrite Forall_forall in Hw. specialize (Hw d Hin).
      split; [apply is_digit_of_char; lia|]. pose proof (sp_digit_char_range d ltac:(lia)). lia.
Qed.
