(** C18 proofs, part 4: the RLP model against the specification. *)
From CB Require Import Model.Limbs Model.Conv Model.Der Proofs.WordP Proofs.LimbsP Proofs.ConvDigitsP Proofs.ConvBytesP
  Proofs.DerSpecP Proofs.DerCodecP.
From Coq Require Import ZArith Lia List Bool.
Import ListNotations.
Open Scope Z_scope.
Open Scope list_scope.

(* ---------------------------------------------------------------- specification *)
Lemma payload_spec x : 0 <= x ->
  wfd 256 (sp_rlp_payload x) /\ no_lead0 (sp_rlp_payload x) /\ bev (sp_rlp_payload x) = x /\ lenZ (sp_rlp_payload x) = sp_octets x.
Proof.
  intros Hx. unfold sp_rlp_payload. repeat split.
  - apply wfd_sp_be.
  - apply minimal_no_lead0. assumption.
  - apply bev_minimal. assumption.
  - apply lenZ_sp_be, sp_octets_nonneg.
Qed.
Lemma payload_unique d : wfd 256 d -> no_lead0 d -> d = sp_rlp_payload (bev d).
Proof. apply minimal_unique. Qed.
Lemma octets_small x : 0 < x < 128 -> sp_octets x = 1.
Proof. intros. apply sp_octets_unique; simpl; lia. Qed.
Lemma octets_ge2 x : 256 <= x -> 2 <= sp_octets x.
Proof.
  intros H. destruct (sp_octets_range x ltac:(lia)) as (H1 & _ & Hu).
  destruct (Z.leb_spec 2 (sp_octets x)); [assumption|]. assert (sp_octets x = 1) as E by lia. rewrite E in Hu. simpl in Hu. lia.
Qed.
Lemma rlp_header_size_ok x : 0 <= x ->
  sp_rlp_header_size (sp_rlp_header x ++ sp_rlp_payload x) = length (sp_rlp_header x).
Proof.
  intros Hx. unfold sp_rlp_header_size, sp_rlp_header.
  destruct (Z.eqb_spec x 0) as [->|Hn]; [reflexivity|].
  destruct (Z.ltb_spec x 128) as [Hs|Hs].
  - cbn [app length]. unfold sp_rlp_payload. rewrite octets_small by lia. change (sp_be 1 x) with [x mod 256]. rewrite Z.mod_small by lia.
    cbn [nthz nth]. rewrite ltb_true by lia. reflexivity.
  - pose proof (sp_octets_range x ltac:(lia)) as (H1 & _).
    destruct (Z.leb_spec (sp_octets x) 55).
    + cbn [app nthz nth length]. rewrite ltb_false by lia. rewrite leb_true by lia. reflexivity.
    + cbn [app nthz nth length]. pose proof (sp_octets_range (sp_octets x) ltac:(lia)) as (H2 & _).
      rewrite ltb_false by lia. rewrite leb_false by lia. rewrite length_sp_be. lia.
Qed.
Theorem sp_rlp_decode_iff n bs v : wfd 256 bs ->
  sp_rlp_decode n bs = Some v <-> (0 <= v < Bn n /\ bs = sp_rlp_encode v).
Proof.
  intros Hw. split.
  - intros H. apply (sp_decode_at_some _ _ _ _ _ _ Hw) in H. exact H.
  - intros [Hv ->]. unfold sp_rlp_decode, sp_rlp_encode. rewrite rlp_header_size_ok by lia.
    apply (sp_decode_at_complete sp_rlp_header sp_rlp_payload n v Hv). apply payload_spec. lia.
Qed.
Theorem sp_rlp_encode_inj x y : 0 <= x -> 0 <= y -> sp_rlp_encode x = sp_rlp_encode y -> x = y.
Proof.
  intros Hx Hy E. pose proof (f_equal sp_rlp_header_size E) as Hs. unfold sp_rlp_encode in *. rewrite !rlp_header_size_ok in Hs by assumption.
  assert (Ec : skipn (length (sp_rlp_header x)) (sp_rlp_header x ++ sp_rlp_payload x) =
               skipn (length (sp_rlp_header x)) (sp_rlp_header y ++ sp_rlp_payload y)) by (rewrite E; reflexivity).
  rewrite skipn_app_len in Ec by reflexivity. rewrite Hs, skipn_app_len in Ec by reflexivity.
  destruct (payload_spec x Hx) as (_ & _ & <- & _). destruct (payload_spec y Hy) as (_ & _ & <- & _). rewrite Ec. reflexivity.
Qed.

(* ---------------------------------------------------------------- encoder *)
Lemma head_value_bounds b r : wfd 256 (b :: r) -> b <> 0 ->
  0 < bev (b :: r) /\ (r <> [] -> 256 <= bev (b :: r)) /\ (r = [] -> bev (b :: r) = b).
Proof.
  intros Hw Hb. pose proof (bev_head_bounds b r Hw) as [Hl Hu]. apply wfd_cons in Hw. destruct Hw as [Hb0 Hr].
  pose proof (pow256_pos (length r)) as HP. assert (1 <= b) by lia.
  assert (1 * 256 ^ Z.of_nat (length r) <= b * 256 ^ Z.of_nat (length r)) by (apply Z.mul_le_mono_nonneg_r; lia).
  repeat split; try lia.
  - intros Hn. destruct r as [|c r']; [contradiction|]. cbn [length] in *. rewrite Nat2Z.inj_succ, Z.pow_succ_r in * by lia.
    pose proof (pow256_pos (length r')). lia.
  - intros ->. apply bev_single.
Qed.
Lemma rlp_size_bytes_spec len : 0 <= len < 4294967296 ->
  rlp_size_bytes len = sp_be (sp_octets len) len.
Proof.
  intros H. unfold rlp_size_bytes. rewrite Z.mod_small by assumption. change (rev (digits 256 4 len)) with (sp_be 4 len).
  apply strip_all_sp_be; [lia|]. change (256 ^ 4) with 4294967296. assumption.
Qed.
Lemma rlp_encode_value_spec p : wfd 256 p -> no_lead0 p -> lenZ p < 4294967296 ->
  rlp_encode_value p = sp_rlp_header (bev p) ++ p.
Proof.
  intros Hw Hn Hl. destruct p as [|first r]; [reflexivity|]. cbn [no_lead0] in Hn.
  pose proof (head_value_bounds first r Hw Hn) as (Hpos & Hbig & Hone).
  pose proof (octets_of_string first r Hw Hn) as Ho. set (x := bev (first :: r)) in *.
  pose proof Hw as Hw'. apply wfd_cons in Hw'. destruct Hw' as [Hf _].
  unfold rlp_encode_value, sp_rlp_header. fold x. rewrite Ho. rewrite (eqb_false x 0) by lia.
  set (len := lenZ (first :: r)) in *. assert (1 <= len) by (unfold len; rewrite lenZ_cons; pose proof (lenZ_nonneg r); lia).
  destruct (Z.leb_spec len 55) as [H55|H55].
  - destruct (Z.eqb_spec len 1) as [E1|N1].
    + assert (r = []). { destruct r; [reflexivity|]. unfold len in E1. rewrite !lenZ_cons in E1. pose proof (lenZ_nonneg r). lia. }
      subst r. rewrite (Hone eq_refl). cbn [andb]. destruct (Z.ltb_spec first 128); reflexivity.
    + cbn [andb]. assert (r <> []). { intros ->. apply N1. reflexivity. }
      rewrite ltb_false by (specialize (Hbig H0); lia). reflexivity.
  - assert (r <> []). { intros ->. unfold len in H55. unfold lenZ in H55. cbn [length] in H55. lia. }
    rewrite ltb_false by (specialize (Hbig H0); lia).
    rewrite rlp_size_bytes_spec by lia. rewrite lenZ_sp_be by apply sp_octets_nonneg. reflexivity.
Qed.
Theorem rlp_encode_spec ls : wf ls -> 8 * Z.of_nat (length ls) < 4294967296 ->
  rlp_encode ls = sp_rlp_encode (eval ls).
Proof.
  intros Hw Hb. pose proof (eval_bounds ls Hw) as Hx. rewrite Bn_256_Z in Hx.
  unfold rlp_encode. rewrite uint_to_be_bytes_sp by assumption. rewrite strip_all_sp_be by lia.
  change (sp_be (sp_octets (eval ls)) (eval ls)) with (sp_rlp_payload (eval ls)).
  destruct (payload_spec (eval ls) ltac:(lia)) as (Hwp & Hnp & Hbp & Hlp).
  rewrite rlp_encode_value_spec; try assumption.
  - rewrite Hbp. reflexivity.
  - rewrite Hlp. pose proof (sp_octets_le (eval ls) (Z.of_nat (8 * length ls)) ltac:(lia) ltac:(lia) ltac:(lia)). lia.
Qed.

(* ---------------------------------------------------------------- slices, decode_usize, the glue *)
Lemma slice_app hdr d rest : slice (hdr ++ d ++ rest) (lenZ hdr) (lenZ hdr + lenZ d) = d.
Proof.
  unfold slice, lenZ. replace (Z.of_nat (length hdr) + Z.of_nat (length d) - Z.of_nat (length hdr)) with (Z.of_nat (length d)) by lia.
  rewrite !Nat2Z.id. rewrite skipn_app_len by reflexivity. apply firstn_app_len. reflexivity.
Qed.
Lemma slice_tail hdr d : slice (hdr ++ d) (lenZ hdr) (lenZ hdr + lenZ d) = d.
Proof. rewrite <- (app_nil_r d) at 1. apply slice_app. Qed.
Lemma slice_cons l bs k : 0 <= k -> slice (l :: bs) 1 (1 + k) = firstn (Z.to_nat k) bs.
Proof. intros. unfold slice. replace (1 + k - 1) with k by lia. reflexivity. Qed.
Lemma decode_usize_ok lb : lb <> [] -> no_lead0 lb -> lenZ lb <= 8 -> decode_usize lb = Ok (bev lb).
Proof.
  intros Hn H0 Hl. unfold decode_usize. replace (Nat.leb (length lb) 8) with true by (symmetry; apply Nat.leb_le; unfold lenZ in Hl; lia).
  destruct lb as [|b r]; [contradiction|]. cbn [no_lead0] in H0. rewrite eqb_false by assumption. rewrite horner_bev. reflexivity.
Qed.
Lemma decode_usize_inv lb v : decode_usize lb = Ok v -> lb <> [] /\ no_lead0 lb /\ lenZ lb <= 8 /\ v = bev lb.
Proof.
  unfold decode_usize. destruct (Nat.leb_spec (length lb) 8); [|discriminate]. destruct lb as [|b r]; [discriminate|].
  destruct (Z.eqb_spec b 0); [discriminate|]. intros E. apply ok_inj in E. rewrite horner_bev in E.
  repeat split; try discriminate; try assumption; try (unfold lenZ; lia); auto.
Qed.
Lemma decode_usize_nopn lb : lb <> [] -> decode_usize lb <> Pn.
Proof. intros H. unfold decode_usize. destruct (Nat.leb (length lb) 8); [|discriminate]. destruct lb; [contradiction|]. destruct (z =? 0); discriminate. Qed.

Lemma rlp_glue_run n d : wfd 256 d -> no_lead0 d ->
  rlp_glue n d = if Nat.ltb (8 * n) (length d) then Er R_IsTooBig else Ok (to_limbs n (bev d)).
Proof.
  intros Hw Hn. unfold rlp_glue.
  assert (E : match d with b :: _ => b =? 0 | [] => false end = false).
  { destruct d as [|b r]; [reflexivity|]. cbn [no_lead0] in Hn. apply eqb_false. assumption. }
  rewrite E. destruct (Nat.ltb_spec (8 * n) (length d)); [reflexivity|].
  destruct (from_be_pad n d Hw ltac:(lia)) as [-> _]. reflexivity.
Qed.
Lemma rlp_glue_ok n d v : wfd 256 d -> rlp_glue n d = Ok v ->
  no_lead0 d /\ (length d <= 8 * n)%nat /\ v = to_limbs n (bev d) /\ 0 <= bev d < Bn n.
Proof.
  intros Hw H. assert (Hn : no_lead0 d).
  { unfold rlp_glue in H. destruct d as [|b r]; [exact I|]. cbn [no_lead0]. destruct (Z.eqb_spec b 0); [discriminate | assumption]. }
  rewrite rlp_glue_run in H by assumption. destruct (Nat.ltb_spec (8 * n) (length d)); [discriminate|].
  apply ok_inj in H. destruct (from_be_pad n d Hw ltac:(lia)) as [_ Hb]. auto.
Qed.
Lemma rlp_glue_nopn n d : rlp_glue n d <> Pn.
Proof.
  unfold rlp_glue. destruct (match d with b :: _ => b =? 0 | [] => false end); [discriminate|].
  destruct (Nat.ltb_spec (8 * n) (length d)); [discriminate|].
  unfold from_be_array. destruct (uint_from_be_slice n _) eqn:E; [discriminate|].
  apply from_be_slice_len in E. exfalso. apply E. rewrite app_length, length_zeros. lia.
Qed.

(* ---------------------------------------------------------------- the shape of an accepted item *)
Definition rlp_shape (strict : bool) (hdr d : list Z) : Prop :=
  (hdr = [] /\ exists l, d = [l] /\ l <= 127) \/
  (hdr = [128 + lenZ d] /\ lenZ d <= 55 /\ ~ (exists b, d = [b] /\ b < 128)) \/
  (exists lb, hdr = (183 + lenZ lb) :: lb /\ lb <> [] /\ lenZ lb <= 8 /\ no_lead0 lb /\ bev lb = lenZ d /\
              (strict = true -> 55 < lenZ d)).

Lemma lenZ_single (b : Z) : lenZ [b] = 1. Proof. reflexivity. Qed.
Lemma lenZ_1_inv (d : list Z) : lenZ d = 1 -> exists b, d = [b].
Proof. destruct d as [|b [|c r]]; unfold lenZ; cbn [length]; intros; try lia. exists b. reflexivity. Qed.

(** BasicDecoder::decode_value on an item of one of the three shapes hands the payload to the closure *)
Lemma rdv_run {A} (f : list Z -> res A) strict hdr d rest : rlp_shape strict hdr d ->
  lenZ (hdr ++ d ++ rest) < USIZE -> rlp_decode_value f (hdr ++ d ++ rest) = f d.
Proof.
  intros Hs Hl. destruct Hs as [(-> & l & -> & Hl127) | [(-> & H55 & Hnb) | (lb & -> & Hne & H8 & Hn0 & Hbv & _)]].
  - cbn [app rlp_decode_value]. rewrite leb_true by assumption. reflexivity.
  - pose proof (lenZ_nonneg d) as Hd. cbn [app rlp_decode_value].
    rewrite leb_false by lia. rewrite leb_true by lia.
    replace (1 + (128 + lenZ d) - 128) with (1 + lenZ d) by lia.
    rewrite lenZ_cons, lenZ_app. pose proof (lenZ_nonneg rest). rewrite ltb_false by lia.
    assert (Es : slice (128 + lenZ d :: d ++ rest) 1 (1 + lenZ d) = d).
    { rewrite slice_cons by lia. unfold lenZ. rewrite Nat2Z.id. apply firstn_app_len. reflexivity. }
    rewrite Es.
    destruct (Z.eqb_spec (128 + lenZ d) 129) as [E|N]; [|reflexivity].
    destruct (lenZ_1_inv d ltac:(lia)) as (b & ->). cbn [nthz nth andb].
    destruct (Z.ltb_spec b 128); [|reflexivity]. exfalso. apply Hnb. exists b. auto.
  - pose proof (lenZ_nonneg d) as Hd. pose proof (lenZ_nonneg rest) as Hr.
    assert (1 <= lenZ lb). { destruct lb; [contradiction|]. rewrite lenZ_cons. pose proof (lenZ_nonneg lb). lia. }
    cbn [app rlp_decode_value]. rewrite leb_false by lia. rewrite leb_false by lia. rewrite leb_true by lia.
    replace (183 + lenZ lb - 183) with (lenZ lb) by lia.
    cbn [app] in Hl. rewrite lenZ_cons, !lenZ_app in *.
    rewrite ltb_false by lia.
    assert (Es : slice (183 + lenZ lb :: lb ++ d ++ rest) 1 (1 + lenZ lb) = lb).
    { rewrite slice_cons by lia. unfold lenZ. rewrite Nat2Z.id. apply firstn_app_len. reflexivity. }
    rewrite Es. rewrite decode_usize_ok by assumption. cbn [bind]. rewrite Hbv.
    rewrite leb_false by lia. rewrite ltb_false by lia.
    assert (Es2 : slice (183 + lenZ lb :: lb ++ d ++ rest) (1 + lenZ lb) (1 + lenZ lb + lenZ d) = d).
    { change (183 + lenZ lb :: lb ++ d ++ rest) with ((183 + lenZ lb :: lb) ++ d ++ rest).
      rewrite <- (lenZ_cons (183 + lenZ lb) lb). apply slice_app. }
    rewrite Es2. reflexivity.
Qed.

(** payload_info on a strict item (whatever follows it) *)
Lemma pi_run_rest hdr d rest : rlp_shape true hdr d -> lenZ (hdr ++ d ++ rest) < USIZE ->
  payload_info (hdr ++ d ++ rest) = Ok (lenZ hdr, lenZ d).
Proof.
  intros Hs Hl. pose proof (lenZ_nonneg rest) as Hrest.
  destruct Hs as [(-> & l & -> & Hl127) | [(-> & H55 & Hnb) | (lb & -> & Hne & H8 & Hn0 & Hbv & Hst)]].
  - cbn [app] in *. unfold payload_info, payload_from. rewrite leb_true by assumption. cbn [bind fst snd].
    rewrite lenZ_cons in *. rewrite ltb_true by lia. rewrite leb_true by lia. reflexivity.
  - pose proof (lenZ_nonneg d) as Hd. cbn [app] in *. unfold payload_info, payload_from.
    rewrite leb_false by lia. rewrite leb_true by lia. cbn [bind fst snd].
    rewrite lenZ_cons, lenZ_app in *. replace (128 + lenZ d - 128) with (lenZ d) by lia.
    rewrite ltb_true by lia. rewrite leb_true by lia. cbn [andb]. reflexivity.
  - specialize (Hst eq_refl). pose proof (lenZ_nonneg d) as Hd.
    assert (1 <= lenZ lb). { destruct lb; [contradiction|]. rewrite lenZ_cons. pose proof (lenZ_nonneg lb). lia. }
    cbn [app] in *. rewrite lenZ_cons, !lenZ_app in Hl. unfold payload_info, payload_from.
    rewrite leb_false by lia. rewrite leb_false by lia. rewrite leb_true by lia.
    replace (183 + lenZ lb - 183) with (lenZ lb) by lia. unfold calculate_payload_info.
    destruct lb as [|b1 lb']; [contradiction|]. cbn [no_lead0] in Hn0. cbn [app]. rewrite eqb_false by assumption.
    rewrite !lenZ_cons, !lenZ_app in *. pose proof (lenZ_nonneg lb'). rewrite ltb_false by lia.
    assert (Es : slice (183 + (1 + lenZ lb') :: b1 :: lb' ++ d ++ rest) 1 (1 + (1 + lenZ lb')) = b1 :: lb').
    { rewrite slice_cons by lia. change (b1 :: lb' ++ d ++ rest) with ((b1 :: lb') ++ d ++ rest). apply firstn_app_len.
      cbn [length]. unfold lenZ. lia. }
    rewrite Es. rewrite decode_usize_ok; [|discriminate|exact Hn0|rewrite lenZ_cons; lia]. cbn [bind].
    rewrite Hbv. rewrite leb_false by lia. cbn [bind fst snd].
    rewrite ltb_true by lia. rewrite leb_true by lia. reflexivity.
Qed.
Lemma pi_run hdr d : rlp_shape true hdr d -> lenZ (hdr ++ d) < USIZE ->
  payload_info (hdr ++ d) = Ok (lenZ hdr, lenZ d).
Proof. intros Hs Hl. pose proof (pi_run_rest hdr d [] Hs) as H. rewrite app_nil_r in H. apply H. assumption. Qed.

(** an item of strict shape whose payload has no leading zero is the canonical encoding of its value *)
Lemma shape_canonical hdr d : wfd 256 d -> no_lead0 d -> rlp_shape true hdr d ->
  (forall lb, hdr = (183 + lenZ lb) :: lb -> wfd 256 lb) -> hdr = sp_rlp_header (bev d).
Proof.
  intros Hw Hn Hs Hwl. unfold sp_rlp_header.
  destruct Hs as [(-> & l & -> & Hl127) | [(-> & H55 & Hnb) | (lb & -> & Hne & H8 & Hn0 & Hbv & Hst)]].
  - cbn [no_lead0] in Hn. apply wfd_cons in Hw. destruct Hw as [Hl _]. rewrite bev_single.
    rewrite eqb_false by assumption. rewrite ltb_true by lia. reflexivity.
  - destruct d as [|b r].
    + reflexivity.
    + cbn [no_lead0] in Hn. pose proof (head_value_bounds b r Hw Hn) as (Hpos & Hbig & Hone).
      rewrite octets_of_string by assumption. rewrite eqb_false by lia.
      destruct (Z.ltb_spec (bev (b :: r)) 128) as [Hs|Hs].
      * exfalso. apply Hnb. destruct r as [|c r']; [|specialize (Hbig ltac:(discriminate)); lia].
        exists b. split; [reflexivity|]. rewrite (Hone eq_refl) in Hs. assumption.
      * rewrite leb_true by assumption. reflexivity.
  - specialize (Hst eq_refl). specialize (Hwl lb eq_refl).
    destruct d as [|b r]; [unfold lenZ in Hst; cbn [length] in Hst; lia|].
    cbn [no_lead0] in Hn. pose proof (head_value_bounds b r Hw Hn) as (Hpos & Hbig & Hone).
    rewrite octets_of_string by assumption. rewrite eqb_false by lia.
    assert (r <> []). { intros ->. unfold lenZ in Hst. cbn [length] in Hst. lia. }
    rewrite ltb_false by (specialize (Hbig H); lia). rewrite leb_false by lia.
    rewrite <- Hbv. destruct lb as [|c lb']; [contradiction|]. cbn [no_lead0] in Hn0.
    rewrite octets_of_string by assumption. f_equal. rewrite sp_be_bev by assumption. reflexivity.
Qed.
(** ... and conversely the canonical encoding has the strict shape *)
Lemma spec_shape x : 0 <= x -> sp_octets x < USIZE -> rlp_shape true (sp_rlp_header x) (sp_rlp_payload x).
Proof.
  intros Hx Hu. destruct (payload_spec x Hx) as (Hwp & Hnp & Hbp & Hlp). unfold rlp_shape, sp_rlp_header.
  destruct (Z.eqb_spec x 0) as [->|Hnz].
  - right. left. repeat split; try reflexivity; try (cbn; lia). intros (b & E & _). discriminate.
  - destruct (Z.ltb_spec x 128) as [Hs|Hs].
    + left. split; [reflexivity|]. exists x. split; [|lia]. unfold sp_rlp_payload. rewrite octets_small by lia.
      change (sp_be 1 x) with [x mod 256]. rewrite Z.mod_small by lia. reflexivity.
    + right. destruct (Z.leb_spec (sp_octets x) 55) as [H55|H55].
      * left. rewrite Hlp. repeat split; try assumption. intros (b & E & Hb). rewrite E in Hbp. rewrite bev_single in Hbp. lia.
      * right. exists (sp_be (sp_octets (sp_octets x)) (sp_octets x)).
        pose proof (sp_octets_range (sp_octets x) ltac:(lia)) as (H1 & _).
        rewrite lenZ_sp_be by lia. rewrite Hlp. repeat split; try lia.
        -- intros E. apply (f_equal (@length Z)) in E. rewrite length_sp_be in E. cbn [length] in E. lia.
        -- apply sp_octets_le; try lia. unfold USIZE in Hu. change (256 ^ 8) with 18446744073709551616. lia.
        -- apply minimal_no_lead0. lia.
        -- apply bev_minimal. lia.
Qed.

(* ---------------------------------------------------------------- Decodable::decode *)
Theorem rlp_decode_run fx n x : 0 <= x -> lenZ (sp_rlp_encode x) < USIZE ->
  rlp_decode fx n (sp_rlp_encode x) = rlp_glue n (sp_rlp_payload x).
Proof.
  intros Hx Hl. destruct (payload_spec x Hx) as (Hwp & Hnp & Hbp & Hlp).
  assert (Hu : sp_octets x < USIZE).
  { unfold sp_rlp_encode in Hl. rewrite lenZ_app, Hlp in Hl. pose proof (lenZ_nonneg (sp_rlp_header x)). lia. }
  pose proof (spec_shape x Hx Hu) as Hs. unfold rlp_decode, sp_rlp_encode in *.
  assert (Hr : rlp_decode_value (rlp_glue n) (sp_rlp_header x ++ sp_rlp_payload x) = rlp_glue n (sp_rlp_payload x)).
  { rewrite <- (app_nil_r (sp_rlp_payload x)) at 1. apply (rdv_run _ true); [assumption | rewrite app_nil_r; assumption]. }
  destruct fx; [|assumption].
  rewrite pi_run by assumption. cbn [bind fst snd]. rewrite lenZ_app, Z.eqb_refl. cbn [negb]. assumption.
Qed.

Lemma cons_inj {A} (x y : A) (a b : list A) : x :: a = y :: b -> x = y /\ a = b.
Proof. intros H. injection H. auto. Qed.
Lemma slice_cons2 l bs a k : 0 <= a -> slice (l :: bs) (1 + a) (1 + a + k) = firstn (Z.to_nat k) (skipn (Z.to_nat a) bs).
Proof.
  intros Ha. unfold slice. replace (1 + a + k - (1 + a)) with k by lia.
  replace (Z.to_nat (1 + a)) with (S (Z.to_nat a)) by lia. reflexivity.
Qed.
Lemma firstn_lenZ (bs : list Z) k : lenZ bs <= k -> firstn (Z.to_nat k) bs = bs.
Proof. intros H. apply firstn_all2. unfold lenZ in H. lia. Qed.
Lemma lenZ_firstn (bs : list Z) k : 0 <= k <= lenZ bs -> lenZ (firstn (Z.to_nat k) bs) = k.
Proof. intros H. unfold lenZ in *. rewrite firstn_length. lia. Qed.
Lemma lenZ_skipn (bs : list Z) k : 0 <= k <= lenZ bs -> lenZ (skipn (Z.to_nat k) bs) = lenZ bs - k.
Proof. intros H. unfold lenZ in *. rewrite skipn_length. lia. Qed.

(** what the repaired decoder accepts: an item of strict shape that spans the input *)
Theorem rlp_decode_ok n bs v : wfd 256 bs -> rlp_decode true n bs = Ok v ->
  exists hdr d, bs = hdr ++ d /\ rlp_shape true hdr d /\ (forall lb, hdr = (183 + lenZ lb) :: lb -> wfd 256 lb) /\
                wfd 256 d /\ rlp_glue n d = Ok v.
Proof.
  intros Hw H. unfold rlp_decode in H. inv_bind H. destruct a as [hl vl]. cbn [fst snd] in H.
  destruct (Z.eqb_spec (hl + vl) (lenZ bs)) as [Et|]; [|discriminate]. cbn [negb] in H.
  unfold payload_info in Ha. inv_bind Ha. destruct a as [hl' vl']. cbn [fst snd] in Ha.
  destruct ((hl' + vl' <? USIZE) && (hl' + vl' <=? lenZ bs)) eqn:Eb; [|discriminate].
  apply ok_inj, pair_inj in Ha. destruct Ha as [-> ->]. apply andb_prop in Eb. destruct Eb as [Eu _]. apply Z.ltb_lt in Eu.
  destruct bs as [|l bs']; [discriminate|]. pose proof Hw as Hw'. apply wfd_cons in Hw'. destruct Hw' as [Hl Hwb].
  pose proof (lenZ_nonneg bs') as Hnb. unfold payload_from in Ha0. cbn [rlp_decode_value] in H. rewrite lenZ_cons in *.
  destruct (Z.leb_spec l 127) as [HA|HA].
  { (* a single octet below 0x80 *)
    apply ok_inj, pair_inj in Ha0. destruct Ha0 as [<- <-].
    assert (bs' = []) by (destruct bs'; [reflexivity | rewrite lenZ_cons in Et; pose proof (lenZ_nonneg bs'); lia]). subst bs'.
    exists [], [l]. repeat split; try assumption.
    - left. split; [reflexivity|]. exists l. auto.
    - intros lb E. discriminate. }
  destruct (Z.leb_spec l 183) as [HB|HB].
  { (* short string *)
    apply ok_inj, pair_inj in Ha0. destruct Ha0 as [<- <-].
    replace (1 + l - 128) with (1 + (l - 128)) in H by lia. rewrite slice_cons in H by lia.
    rewrite ltb_false in H by lia. rewrite firstn_lenZ in H by lia.
    exists [l], bs'. assert (El : l = 128 + lenZ bs') by lia.
    destruct ((l =? 129) && (nthz bs' 0 <? 128)) eqn:Ec; [discriminate|].
    repeat split; try assumption.
    - right. left. split; [rewrite El at 1; reflexivity|]. split; [lia|].
      intros (b & E & Hb). subst bs'. unfold lenZ in El. cbn [length] in El. cbn [nthz nth] in Ec.
      rewrite (proj2 (Z.eqb_eq l 129)) in Ec by lia. rewrite ltb_true in Ec by assumption. discriminate.
    - intros lb E. apply cons_inj in E. destruct E as [_ <-]. apply wfd_nil. }
  destruct (Z.leb_spec l 191) as [HC|HC].
  { (* long string *)
    set (lol := l - 183) in *. assert (Hlol : 1 <= lol <= 8) by (unfold lol; lia).
    unfold calculate_payload_info in Ha0. destruct bs' as [|b1 bs'']; [discriminate|].
    destruct (Z.eqb_spec b1 0); [discriminate|].
    destruct (Z.ltb_spec (lenZ (l :: b1 :: bs'')) (1 + lol)) as [|Hlen]; [discriminate|]. rewrite lenZ_cons in Hlen.
    inv_bind Ha0. rewrite slice_cons in Ha by lia.
    set (lb := firstn (Z.to_nat lol) (b1 :: bs'')) in *. set (d := skipn (Z.to_nat lol) (b1 :: bs'')).
    apply decode_usize_inv in Ha. destruct Ha as (Hne & Hn0 & H8 & ->).
    destruct (Z.leb_spec (bev lb) 55) as [|H55]; [discriminate|]. apply ok_inj, pair_inj in Ha0. destruct Ha0 as [<- <-].
    assert (Llb : lenZ lb = lol) by (apply lenZ_firstn; lia).
    assert (Ld : lenZ d = bev lb) by (unfold d; rewrite lenZ_skipn by lia; lia).
    rewrite ltb_false in H by lia. rewrite slice_cons in H by lia. fold lb in H.
    rewrite decode_usize_ok in H by assumption. cbn [bind] in H.
    destruct (Z.leb_spec USIZE (1 + lol + bev lb)); [discriminate|].
    rewrite ltb_false in H by lia.
    rewrite slice_cons2 in H by lia. fold d in H. rewrite firstn_lenZ in H by lia.
    assert (Esplit : b1 :: bs'' = lb ++ d) by (symmetry; apply firstn_skipn).
    exists (l :: lb), d. rewrite Esplit in Hwb. apply wfd_app in Hwb. destruct Hwb as [Hwlb Hwd].
    repeat split; try assumption.
    - cbn [app]. rewrite <- Esplit. reflexivity.
    - right. right. exists lb. repeat split; try assumption; try lia. rewrite Llb. unfold lol. f_equal. lia.
    - intros lb0 E. apply cons_inj in E. destruct E as [_ <-]. assumption. }
  discriminate.
Qed.

(* ---------------------------------------------------------------- consequences *)
Theorem rlp_decode_sound n bs v : wfd 256 bs -> rlp_decode true n bs = Ok v ->
  wf v /\ length v = n /\ 0 <= eval v < Bn n /\ v = to_limbs n (eval v) /\ bs = sp_rlp_encode (eval v).
Proof.
  intros Hw H. destruct (rlp_decode_ok n bs v Hw H) as (hdr & d & -> & Hs & Hwl & Hwd & Hg).
  apply rlp_glue_ok in Hg; [|assumption]. destruct Hg as (Hn0 & Hl & -> & Hb).
  rewrite to_limbs_small by assumption. repeat split; try lia.
  - apply wf_to_limbs.
  - apply length_to_limbs.
  - unfold sp_rlp_encode. rewrite <- (shape_canonical hdr d Hwd Hn0 Hs Hwl). rewrite <- payload_unique by assumption. reflexivity.
Qed.
Lemma payload_fits n x : 0 <= x < Bn n -> (length (sp_rlp_payload x) <= 8 * n)%nat.
Proof.
  intros Hx. unfold sp_rlp_payload. rewrite length_sp_be. rewrite Bn_256_Z in Hx.
  pose proof (sp_octets_le x (Z.of_nat (8 * n)) ltac:(lia) ltac:(lia) ltac:(lia)). pose proof (sp_octets_nonneg x). lia.
Qed.
Lemma payload_over n x : Bn n <= x -> (8 * n < length (sp_rlp_payload x))%nat.
Proof.
  intros Hx. pose proof (length_mag0_over n x Hx) as H. pose proof (Bn_pos n). unfold mag0 in H. rewrite eqb_false in H by lia. exact H.
Qed.
Theorem rlp_decode_complete fx n x : 0 <= x < Bn n -> lenZ (sp_rlp_encode x) < USIZE ->
  rlp_decode fx n (sp_rlp_encode x) = Ok (to_limbs n x).
Proof.
  intros Hx Hl. rewrite rlp_decode_run by (assumption || lia). destruct (payload_spec x ltac:(lia)) as (Hwp & Hnp & Hbp & _).
  rewrite rlp_glue_run by assumption. pose proof (payload_fits n x Hx).
  replace (Nat.ltb (8 * n) (length (sp_rlp_payload x))) with false by (symmetry; apply Nat.ltb_ge; assumption).
  rewrite Hbp. reflexivity.
Qed.
Theorem rlp_oversize_err fx n x : Bn n <= x -> lenZ (sp_rlp_encode x) < USIZE ->
  rlp_decode fx n (sp_rlp_encode x) = Er R_IsTooBig.
Proof.
  intros Hx Hl. pose proof (Bn_pos n). rewrite rlp_decode_run by (assumption || lia).
  destruct (payload_spec x ltac:(lia)) as (Hwp & Hnp & _ & _). rewrite rlp_glue_run by assumption.
  pose proof (payload_over n x Hx). replace (Nat.ltb (8 * n) (length (sp_rlp_payload x))) with true by (symmetry; apply Nat.ltb_lt; assumption).
  reflexivity.
Qed.

Lemma slice_nonempty l bs k : 1 <= k -> 1 + k <= lenZ (l :: bs) -> slice (l :: bs) 1 (1 + k) <> [].
Proof.
  intros Hk Hl. rewrite slice_cons by lia. rewrite lenZ_cons in Hl. intros E. apply (f_equal lenZ) in E.
  rewrite lenZ_firstn in E by (pose proof (lenZ_nonneg bs); lia). unfold lenZ in E. cbn [length] in E. lia.
Qed.
Lemma rdv_nopn {A} (f : list Z -> res A) bs : (forall d, f d <> Pn) -> rlp_decode_value f bs <> Pn.
Proof.
  intros Hf. destruct bs as [|l bs']; [discriminate|]. cbn [rlp_decode_value].
  destruct (l <=? 127); [apply Hf|]. destruct (Z.leb_spec l 183).
  { destruct (_ <? _); [discriminate|]. destruct (_ && _); [discriminate | apply Hf]. }
  destruct (Z.leb_spec l 191); [|discriminate].
  destruct (Z.ltb_spec (lenZ (l :: bs')) (1 + (l - 183))); [discriminate|].
  apply bind_nopn; [apply decode_usize_nopn, slice_nonempty; lia|].
  intros len _. destruct (_ <=? _); [discriminate|]. destruct (_ <? _); [discriminate | apply Hf].
Qed.
Lemma payload_info_nopn bs : payload_info bs <> Pn.
Proof.
  unfold payload_info. apply bind_nopn; [|intros p _; destruct (_ && _); discriminate].
  unfold payload_from. destruct bs as [|l bs']; [discriminate|].
  assert (Hc : forall lol, 1 <= lol -> calculate_payload_info (l :: bs') lol <> Pn).
  { intros lol Hl. unfold calculate_payload_info. destruct bs' as [|b1 bs'']; [discriminate|].
    destruct (b1 =? 0); [discriminate|]. destruct (Z.ltb_spec (lenZ (l :: b1 :: bs'')) (1 + lol)); [discriminate|].
    apply bind_nopn; [apply decode_usize_nopn, slice_nonempty; lia|]. intros vl _. destruct (vl <=? 55); discriminate. }
  destruct (l <=? 127); [discriminate|]. destruct (Z.leb_spec l 183); [discriminate|].
  destruct (Z.leb_spec l 191); [apply Hc; lia|]. destruct (Z.leb_spec l 247); [discriminate | apply Hc; lia].
Qed.
(** neither the code as found nor the repaired code can panic *)
Theorem rlp_decode_nopn fx n bs : rlp_decode fx n bs <> Pn.
Proof.
  unfold rlp_decode. destruct fx; [|apply rdv_nopn, rlp_glue_nopn].
  apply bind_nopn; [apply payload_info_nopn|]. intros p _. destruct (negb _); [discriminate | apply rdv_nopn, rlp_glue_nopn].
Qed.
(** the repair only rejects more *)
Theorem rlp_fix_conservative n bs v : rlp_decode true n bs = Ok v -> rlp_decode false n bs = Ok v.
Proof.
  unfold rlp_decode. intros H. inv_bind H. destruct (negb _); [discriminate | assumption].
Qed.
Theorem rlp_fail_closed n bs : wfd 256 bs ->
  (exists v, rlp_decode true n bs = Ok v /\ wf v /\ length v = n /\ bs = sp_rlp_encode (eval v)) \/
  (exists e, rlp_decode true n bs = Er e).
Proof.
  intros Hw. destruct (rlp_decode true n bs) as [v|e|] eqn:E.
  - left. exists v. destruct (rlp_decode_sound n bs v Hw E) as (A & B' & _ & _ & D). auto.
  - right. exists e. reflexivity.
  - exfalso. exact (rlp_decode_nopn true n bs E).
Qed.


Lemma lenZ_rlp_encode_le x K : 0 <= K < 4294967296 -> 0 <= x < 256 ^ K -> lenZ (sp_rlp_encode x) <= K + 5.
Proof.
  intros HK Hx. destruct (payload_spec x ltac:(lia)) as (_ & _ & _ & Hlp). unfold sp_rlp_encode. rewrite lenZ_app, Hlp.
  pose proof (sp_octets_le x K ltac:(lia) ltac:(lia) ltac:(lia)). pose proof (sp_octets_nonneg x). unfold sp_rlp_header.
  destruct (x =? 0); [unfold lenZ; cbn [length]; lia|]. destruct (x <? 128); [unfold lenZ; cbn [length]; lia|].
  destruct (sp_octets x <=? 55); [unfold lenZ; cbn [length]; lia|]. rewrite lenZ_cons, lenZ_sp_be by apply sp_octets_nonneg.
  assert (sp_octets (sp_octets x) <= 4); [|lia].
  apply sp_octets_le; [lia | lia |]. change (256 ^ 4) with 4294967296. lia.
Qed.
Theorem rlp_roundtrip fx ls : wf ls -> 8 * Z.of_nat (length ls) < 4294967296 ->
  rlp_decode fx (length ls) (rlp_encode ls) = Ok ls.
Proof.
  intros Hw Hb. rewrite rlp_encode_spec by assumption. pose proof (eval_bounds ls Hw) as Hx.
  rewrite rlp_decode_complete; [rewrite to_limbs_eval by assumption; reflexivity | assumption |].
  rewrite Bn_256_Z in Hx. pose proof (lenZ_rlp_encode_le (eval ls) (Z.of_nat (8 * length ls)) ltac:(lia) Hx). unfold USIZE. lia.
Qed.
(** decode bs = Ok v  ->  bs is THE encoding the encoder produces for v (repaired decoder) *)
Theorem rlp_canonical n bs v : wfd 256 bs -> 8 * Z.of_nat n < 4294967296 -> rlp_decode true n bs = Ok v -> rlp_encode v = bs.
Proof.
  intros Hw Hb H. destruct (rlp_decode_sound n bs v Hw H) as (Hwv & Hlv & _ & _ & ->).
  apply rlp_encode_spec; [assumption | rewrite Hlv; assumption].
Qed.
Theorem rlp_decode_injective n bs1 bs2 v : wfd 256 bs1 -> wfd 256 bs2 ->
  rlp_decode true n bs1 = Ok v -> rlp_decode true n bs2 = Ok v -> bs1 = bs2.
Proof.
  intros H1 H2 E1 E2. apply rlp_decode_sound in E1, E2; try assumption.
  destruct E1 as (_ & _ & _ & _ & ->). destruct E2 as (_ & _ & _ & _ & ->). reflexivity.
Qed.
(** the encoder's output is minimal: no leading zero octet in the payload, shortest header *)
Theorem rlp_encode_minimal ls : wf ls -> 8 * Z.of_nat (length ls) < 4294967296 ->
  exists hdr d, rlp_encode ls = hdr ++ d /\ wfd 256 d /\ no_lead0 d /\ bev d = eval ls /\ rlp_shape true hdr d.
Proof.
  intros Hw Hb. pose proof (eval_bounds ls Hw) as Hx. rewrite rlp_encode_spec by assumption.
  destruct (payload_spec (eval ls) ltac:(lia)) as (A & B' & C & D).
  exists (sp_rlp_header (eval ls)), (sp_rlp_payload (eval ls)). repeat split; try assumption.
  apply spec_shape; [lia|]. rewrite Bn_256_Z in Hx.
  pose proof (sp_octets_le (eval ls) (Z.of_nat (8 * length ls)) ltac:(lia) ltac:(lia) ltac:(lia)). unfold USIZE. lia.
Qed.

(* ---------------------------------------------------------------- Rlp::val_at(0): the first item of a list payload *)
Theorem rlp_decode_item_nopn fx n bs : rlp_decode_item fx n bs <> Pn.
Proof. unfold rlp_decode_item. apply bind_nopn; [apply payload_info_nopn | intros; apply rlp_decode_nopn]. Qed.
Lemma payload_info_total bs hl vl : payload_info bs = Ok (hl, vl) -> hl + vl <= lenZ bs.
Proof.
  unfold payload_info. intros H. inv_bind H. destruct ((fst a + snd a <? USIZE) && (fst a + snd a <=? lenZ bs)) eqn:E; [|discriminate].
  apply ok_inj in H. subst a. cbn [fst snd] in E. apply andb_prop in E. destruct E as [_ E]. apply Z.leb_le in E. assumption.
Qed.
(** a canonical item followed by anything: val_at cuts it out and decodes it *)
Theorem rlp_decode_item_run fx n x rest : 0 <= x -> lenZ (sp_rlp_encode x ++ rest) < USIZE ->
  rlp_decode_item fx n (sp_rlp_encode x ++ rest) = rlp_decode fx n (sp_rlp_encode x).
Proof.
  intros Hx Hl. destruct (payload_spec x Hx) as (Hwp & Hnp & Hbp & Hlp).
  assert (Hu : sp_octets x < USIZE).
  { unfold sp_rlp_encode in Hl. rewrite !lenZ_app, Hlp in Hl. pose proof (lenZ_nonneg (sp_rlp_header x)). pose proof (lenZ_nonneg rest). lia. }
  pose proof (spec_shape x Hx Hu) as Hs. unfold rlp_decode_item, sp_rlp_encode in *. rewrite <- app_assoc in *.
  rewrite pi_run_rest by assumption. cbn [bind fst snd]. rewrite <- lenZ_app. unfold lenZ at 1. rewrite Nat2Z.id.
  rewrite app_assoc. rewrite firstn_app_len by reflexivity. reflexivity.
Qed.
