(** C09 proofs, part 7: the table theorem.  Every entry of [ops_pow_model] returns the outcome of its [ops_pow_spec]
    entry wherever the specification is defined (spec entry <> Unsupported), for all well-formed argument lists, every
    number of limbs of modulus / bases / exponents, every exponent_bits and every number of bases / terms, in both
    build profiles.  Together with the sampled equality impl = model this covers every API form of C09. *)
From CB Require Import Model.Limbs Model.AddSub Model.ModArith Model.Cmp Model.Pow
  Proofs.WordP Proofs.LimbsP Proofs.AddSubP Proofs.ModArithTablesP Proofs.PowMathP Proofs.PowLadderP Proofs.PowFixedP
  Proofs.PowBoxedP Proofs.PowLincombP Proofs.PowApiP.
From Coq Require Import ZArith Lia List Bool String.
Import ListNotations.
Open Scope Z_scope.
Open Scope list_scope.
Notation length := List.length.

Definition run_op9 (t : list (string * opfn)) (k : string) (dbg : bool) (args : list (list Z)) : outcome :=
  match lookup k t with Some f => f dbg args | None => Unsupported end.
Notation M9 := (run_op9 ops_pow_model).
Notation S9 := (run_op9 ops_pow_spec).

Ltac table_open9 :=
  unfold run_op9;
  lazy beta iota zeta delta [lookup ops_pow_model ops_pow_spec String.eqb Ascii.eqb Bool.eqb].

Definition pow_keys : list string :=
  ["pow.fixed"; "pow.boxed"; "multiexp.array"; "multiexp.slice"; "lincomb.fixed"; "lincomb.boxed"]%string.

(* ------------------------------------------------------------------ *)
(** * argument plumbing *)

Lemma wf_args_skipn c a : wf_args a -> wf_args (skipn c a).
Proof.
  unfold wf_args. intros H. rewrite <- (firstn_skipn c a) in H. apply Forall_app in H. exact (proj2 H).
Qed.

Lemma pairs_of_wf : forall (fuel : nat) l, (length l <= fuel)%nat -> wf_args l ->
  Forall (fun ab => wf (fst ab) /\ wf (snd ab)) (pairs_of l).
Proof.
  induction fuel as [|f IH]; intros l Hl Hw.
  - destruct l; [constructor | cbn [length] in Hl; lia].
  - destruct l as [|x [|y r]]; [constructor | constructor |].
    cbn [pairs_of]. inversion Hw as [|x' l' Hx Hr]; subst. inversion Hr as [|y' l'' Hy Hr']; subst.
    constructor; [split; assumption|]. apply IH; [cbn [length] in Hl; lia | exact Hr'].
Qed.

Lemma margs_wf a : wf_args a -> Forall (fun ab => wf (fst ab) /\ wf (snd ab)) (margs a).
Proof. intros H. unfold margs. apply (pairs_of_wf (length (skipn 2 a))); [lia | apply wf_args_skipn; exact H]. Qed.
Lemma largs_wf a : wf_args a -> Forall (fun ab => wf (fst ab) /\ wf (snd ab)) (largs a).
Proof. intros H. unfold largs. apply (pairs_of_wf (length (skipn 1 a))); [lia | apply wf_args_skipn; exact H]. Qed.

Lemma sp_modulus_ok_spec mL : sp_modulus_ok mL = true -> Z.odd (eval mL) = true /\ length mL <> 0%nat.
Proof.
  unfold sp_modulus_ok. intros H. apply andb_prop in H. destruct H as [H1 H2]. split; [exact H1|].
  apply negb_true_iff in H2. apply Nat.eqb_neq in H2. exact H2.
Qed.

(* ------------------------------------------------------------------ *)
(** * the specification functions in closed form *)

Lemma prod_pows_spec m bes k : 0 <= k -> prod_pows bes k m = prod_spec bes k mod m.
Proof.
  intros Hk. induction bes as [|[b e] r IH]; [reflexivity|].
  cbn [prod_pows prod_spec fst snd]. rewrite IH.
  rewrite powmod_correct by (apply Z.mod_pos_bound; apply Z.pow_pos_nonneg; lia).
  rewrite mulmod_both. reflexivity.
Qed.

(* ------------------------------------------------------------------ *)
(** * per entry *)

Section Keys.
Variables (dbg : bool) (a : list (list Z)).
Hypothesis Hwf : wf_args a.

Lemma entry_pow (f : list Z -> list Z -> list Z -> Z -> outcome) :
  (forall mL x e k, wf mL -> length mL <> 0%nat -> Z.odd (eval mL) = true -> wf x -> wf e -> 0 <= k <= bitsZ e ->
     f mL x e k = sp_out (length mL) (eval mL) ((eval x ^ (eval e mod 2 ^ k)) mod eval mL)) ->
  spec_pow (arg 0 a) (arg 1 a) (arg 2 a) (sarg 3 a) <> Unsupported ->
  f (arg 0 a) (arg 1 a) (arg 2 a) (sarg 3 a) = spec_pow (arg 0 a) (arg 1 a) (arg 2 a) (sarg 3 a).
Proof.
  intros Hf. unfold spec_pow.
  destruct (sp_modulus_ok (arg 0 a) && sp_res_ok (arg 0 a) (arg 1 a) && (0 <=? sarg 3 a) && (sarg 3 a <=? bitsZ (arg 2 a)))%bool eqn:D;
    [|intros H; contradiction H; reflexivity].
  intros _. dom_hyps D. dom_conv. destruct (sp_modulus_ok_spec _ D) as [Hodd Hn].
  rewrite Hf; try assumption; try (apply wf_arg; assumption); [|lia].
  rewrite powmod_correct by (apply Z.mod_pos_bound; apply Z.pow_pos_nonneg; lia). reflexivity.
Qed.

Lemma entry_multiexp slice :
  (if even_tail a 2 then spec_multiexp (arg 0 a) (sarg 1 a) (margs a) else Unsupported) <> Unsupported ->
  api_multiexp_fixed slice (arg 0 a) (sarg 1 a) (margs a) =
  (if even_tail a 2 then spec_multiexp (arg 0 a) (sarg 1 a) (margs a) else Unsupported).
Proof.
  destruct (even_tail a 2); [|intros H; contradiction H; reflexivity].
  unfold spec_multiexp.
  destruct (sp_modulus_ok (arg 0 a) &&
            forallb (fun be => sp_res_ok (arg 0 a) (fst be) && (sarg 1 a <=? bitsZ (snd be))) (margs a) &&
            (0 <=? sarg 1 a))%bool eqn:D; [|intros H; contradiction H; reflexivity].
  intros _. dom_hyps D. dom_conv. destruct (sp_modulus_ok_spec _ D) as [Hodd Hn].
  rewrite api_multiexp_correct; try assumption; try (apply wf_arg; assumption).
  - rewrite prod_pows_spec by assumption. reflexivity.
  - pose proof (margs_wf a Hwf) as Hm. rewrite forallb_forall in D1. rewrite Forall_forall in *.
    intros be Hin. destruct (Hm be Hin) as [H1 H2]. specialize (D1 be Hin). apply andb_prop in D1. destruct D1 as [_ D1].
    apply Z.leb_le in D1. repeat split; assumption.
Qed.

Lemma entry_lincomb boxed :
  (if even_tail a 1 then spec_lincomb (arg 0 a) (largs a) else Unsupported) <> Unsupported ->
  api_lincomb boxed dbg (arg 0 a) (largs a) =
  (if even_tail a 1 then spec_lincomb (arg 0 a) (largs a) else Unsupported).
Proof.
  destruct (even_tail a 1); [|intros H; contradiction H; reflexivity].
  unfold spec_lincomb.
  destruct (sp_modulus_ok (arg 0 a) &&
            forallb (fun ab => sp_res_ok (arg 0 a) (fst ab) && sp_res_ok (arg 0 a) (snd ab)) (largs a))%bool eqn:D;
    [|intros H; contradiction H; reflexivity].
  intros _. dom_hyps D. destruct (sp_modulus_ok_spec _ D) as [Hodd Hn].
  destruct (largs a) as [|t0 tr] eqn:El; [reflexivity|]. rewrite <- El.
  rewrite api_lincomb_correct; try assumption; try (apply wf_arg; assumption).
  - reflexivity.
  - rewrite El. discriminate.
  - apply largs_wf. assumption.
Qed.

Lemma tbl_pow_fixed : S9 "pow.fixed" dbg a <> Unsupported -> M9 "pow.fixed" dbg a = S9 "pow.fixed" dbg a.
Proof. table_open9. apply entry_pow. intros; apply api_pow_fixed_correct; assumption. Qed.
Lemma tbl_pow_boxed : S9 "pow.boxed" dbg a <> Unsupported -> M9 "pow.boxed" dbg a = S9 "pow.boxed" dbg a.
Proof. table_open9. apply entry_pow. intros; apply api_pow_boxed_correct; assumption. Qed.
Lemma tbl_multiexp_array : S9 "multiexp.array" dbg a <> Unsupported -> M9 "multiexp.array" dbg a = S9 "multiexp.array" dbg a.
Proof. table_open9. apply entry_multiexp. Qed.
Lemma tbl_multiexp_slice : S9 "multiexp.slice" dbg a <> Unsupported -> M9 "multiexp.slice" dbg a = S9 "multiexp.slice" dbg a.
Proof. table_open9. apply entry_multiexp. Qed.
Lemma tbl_lincomb_fixed : S9 "lincomb.fixed" dbg a <> Unsupported -> M9 "lincomb.fixed" dbg a = S9 "lincomb.fixed" dbg a.
Proof. table_open9. apply entry_lincomb. Qed.
Lemma tbl_lincomb_boxed : S9 "lincomb.boxed" dbg a <> Unsupported -> M9 "lincomb.boxed" dbg a = S9 "lincomb.boxed" dbg a.
Proof. table_open9. apply entry_lincomb. Qed.
End Keys.

(** the key list is the whole table *)
Lemma pow_keys_complete : map fst ops_pow_model = pow_keys /\ map fst ops_pow_spec = pow_keys.
Proof. split; reflexivity. Qed.

(** model = spec for EVERY entry of the C09 table, wherever the specification is defined *)
Theorem tables_agree_pow dbg a k : wf_args a -> In k pow_keys ->
  S9 k dbg a <> Unsupported -> M9 k dbg a = S9 k dbg a.
Proof.
  intros Hwf Hin. unfold pow_keys in Hin. cbn [In] in Hin.
  repeat (destruct Hin as [<- | Hin];
    [first [ apply tbl_pow_fixed | apply tbl_pow_boxed | apply tbl_multiexp_array | apply tbl_multiexp_slice
           | apply tbl_lincomb_fixed | apply tbl_lincomb_boxed ]; assumption |]).
  contradiction.
Qed.

(* ------------------------------------------------------------------ *)
(** * names for the interface to C08 (used in the statements of Props/C09.v) *)

(** what the ladders need of mul_montgomery_form / square_montgomery_form: canonical result, x*y*R^-1 mod m *)
Definition monty_mul_contract (n : nat) (m rinv : Z) (mmul : list Z -> list Z -> list Z) : Prop :=
  forall x y, Mf n m x -> Mf n m y ->
    Mf n m (mmul x y) /\ eval (mmul x y) mod m = (eval x * eval y * rinv) mod m.
Definition monty_sq_contract (n : nat) (m rinv : Z) (msq : list Z -> list Z) : Prop :=
  forall x, Mf n m x -> Mf n m (msq x) /\ eval (msq x) mod m = (eval x * eval x * rinv) mod m.
(** what the boxed ladder needs of almost_montgomery_mul: n limbs, the right residue, and a * R < x * y + m * R *)
Definition amm_contract (n : nat) (m rinv : Z) (amm : list Z -> list Z -> list Z) : Prop :=
  forall x y, Bf n x -> Bf n y ->
    Bf n (amm x y) /\ V m rinv (amm x y) = (V m rinv x * V m rinv y) mod m /\
    eval (amm x y) * Bn n < eval x * eval y + m * Bn n.
