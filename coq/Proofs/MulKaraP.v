(** C03 proofs, part 3: fixed-size Karatsuba multiplication (kmul) for every level. *)
From CB Require Import Model.Limbs Model.AddSub Model.Mul Proofs.WordP Proofs.LimbsP Proofs.AddSubP
  Proofs.MulBaseP Proofs.MulSqP.
From Coq Require Import ZArith Lia List.
Open Scope Z_scope.

(* ---------------- small facts ---------------- *)
Lemma wadd_small a b : 0 <= a -> 0 <= b -> a + b < B -> wadd a b = a + b.
Proof. intros. unfold wadd, wrap. apply Z.mod_small. lia. Qed.

Lemma is_mask_0 : is_mask 0 = false. Proof. reflexivity. Qed.
Lemma is_mask_MAXW : is_mask MAXW = true. Proof. vm_compute. reflexivity. Qed.

(** |a - b| by subtract, then conditional two's-complement negation on borrow *)
Lemma abs_diff a b d bo :
  wf a -> wf b -> length a = length b -> sbb_limbs a b 0 = (d, bo) ->
  wf (sel_limbs (is_mask bo) d (uint_wrapping_neg d)) /\
  length (sel_limbs (is_mask bo) d (uint_wrapping_neg d)) = length a /\
  eval (sel_limbs (is_mask bo) d (uint_wrapping_neg d)) = (if is_mask bo then eval b - eval a else eval a - eval b).
Proof.
  intros Ha Hb Hl E.
  destruct (sbb_limbs_correct a b 0 d bo Ha Hb Hl is_word_0 E) as (Hw & Hld & [(Hz & -> & ->)|(Hnz & Hib & He)]).
  - rewrite is_mask_0. cbn [sel_limbs]. destruct a; [|discriminate]. destruct b; [|discriminate].
    split; [apply wf_nil|]. split; reflexivity.
  - rewrite bin_0 in He. destruct Hib as [-> | ->].
    + rewrite is_mask_0. cbn [sel_limbs]. rewrite bout_0 in He. split; [assumption|]. split; [assumption|]. lia.
    + rewrite is_mask_MAXW. cbn [sel_limbs]. rewrite bout_MAXW in He.
      unfold uint_wrapping_neg. destruct (neg_limbs d 1) as [r co] eqn:En. cbn [fst].
      destruct (neg_limbs_correct d 1 r co Hw ltac:(lia) En) as (Hn & Hwr & Hlr & Hco).
      rewrite Hld in *.
      pose proof (eval_bounds a Ha) as Hba. pose proof (eval_bounds b Hb) as Hbb. rewrite <- Hl in Hbb.
      pose proof (eval_bounds d Hw) as Hbd. rewrite Hld in Hbd.
      pose proof (eval_bounds r Hwr) as Hbr. rewrite Hlr in Hbr.
      split; [assumption|]. split; [lia|].
      assert (co = 0 \/ co = 1) as [-> | ->] by lia; lia.
Qed.

Lemma lnot_limbs_correct l : wf l ->
  eval (lnot_limbs l) = Bn (length l) - 1 - eval l /\ wf (lnot_limbs l) /\ length (lnot_limbs l) = length l.
Proof.
  induction l as [|x l IH]; intros Hl.
  - cbn. rewrite Bn_0. split; [lia|]. split; [apply wf_nil | reflexivity].
  - apply wf_cons in Hl. destruct Hl as [Hx Hl]. destruct (IH Hl) as (I1 & I2 & I3).
    unfold lnot_limbs in *. cbn [map eval length]. rewrite Bn_S, I1, I3.
    unfold wnot. pose proof MAXW_val. unfold is_word in Hx.
    split; [lia|]. split; [|reflexivity]. apply wf_cons. split; [unfold is_word; lia | assumption].
Qed.

(** conditional ones' complement of an h-limb value *)
Lemma sel_lnot s l : wf l ->
  wf (sel_limbs s l (lnot_limbs l)) /\ length (sel_limbs s l (lnot_limbs l)) = length l /\
  eval (sel_limbs s l (lnot_limbs l)) = (if s then Bn (length l) - 1 - eval l else eval l).
Proof.
  intros Hl. destruct (lnot_limbs_correct l Hl) as (A & C & D). destruct s; cbn [sel_limbs]; auto.
Qed.

(** one carry chain over h limbs, with the bounds on the outgoing carry that the recombination needs *)
Lemma adc_h h a b c r co : wf a -> wf b -> length a = h -> length b = h -> 0 <= c <= 4 ->
  adc_limbs a b c = (r, co) ->
  eval r + Bn h * co = eval a + eval b + c /\ wf r /\ length r = h /\ 0 <= co /\
  (c <= 1 -> co <= 1) /\ (c <= 2 -> co <= 2).
Proof.
  intros Ha Hb Hla Hlb Hc E.
  assert (Hcw : is_word c) by (unfold is_word; pose proof B_gt4; lia).
  destruct (adc_limbs_correct a b c r co Ha Hb ltac:(lia) Hcw E) as (H1 & H2 & H3 & H4 & H5).
  pose proof (eval_bounds a Ha) as Hba. pose proof (eval_bounds b Hb) as Hbb. pose proof (eval_bounds r H2) as Hbr.
  rewrite H3 in Hbr. rewrite Hla in *. rewrite Hlb in *. unfold is_word in H4.
  split; [assumption|]. split; [assumption|]. split; [assumption|]. split; [lia|]. split; [assumption|].
  intros Hc2. pose proof (Bn_pos h).
  destruct (Z_le_gt_dec co 2); [assumption|].
  assert (Bn h * 3 <= Bn h * co) by (apply Z.mul_le_mono_nonneg_l; lia). lia.
Qed.

(** the multi-carry recombination, as pure arithmetic: nothing is lost except the last carry c8 *)
Lemma kara_recomb H R0 R1 R2 R3 cin z0lo z0hi z2lo z2hi r0a r1a r1b r1c r2a r2b r2c r3a c1 c2 c3 c4 c5 c6 c7 c8 :
  r0a + H * c1 = R0 + z0lo + cin ->
  r1a + H * c2 = R1 + z0hi + c1 ->
  r1b + H * c3 = r1a + z0lo + 0 ->
  r2a + H * c4 = R2 + z0hi + (c2 + c3) ->
  r1c + H * c5 = r1b + z2lo + 0 ->
  r2b + H * c6 = r2a + z2hi + c5 ->
  r2c + H * c7 = r2b + z2lo + 0 ->
  r3a + H * c8 = R3 + z2hi + (c4 + c6 + c7) ->
  (r0a + H * r1c) + H * H * (r2c + H * r3a) + H * H * H * H * c8 =
    (R0 + H * R1 + H * H * R2 + H * H * H * R3) + cin
    + (z0lo + H * z0hi) * (1 + H) + (z2lo + H * z2hi) * (H + H * H).
Proof.
  intros E1 E2 E3 E4 E5 E6 E7 E8.
  assert (r0a = R0 + z0lo + cin - H * c1) by lia. subst r0a.
  assert (r1a = R1 + z0hi + c1 - H * c2) by lia. subst r1a.
  assert (r1b = R1 + z0hi + c1 - H * c2 + z0lo + 0 - H * c3) by lia. subst r1b.
  assert (r2a = R2 + z0hi + (c2 + c3) - H * c4) by lia. subst r2a.
  assert (r1c = R1 + z0hi + c1 - H * c2 + z0lo + 0 - H * c3 + z2lo + 0 - H * c5) by lia. subst r1c.
  assert (r2b = R2 + z0hi + (c2 + c3) - H * c4 + z2hi + c5 - H * c6) by lia. subst r2b.
  assert (r2c = R2 + z0hi + (c2 + c3) - H * c4 + z2hi + c5 - H * c6 + z2lo + 0 - H * c7) by lia. subst r2c.
  assert (r3a = R3 + z2hi + (c4 + c6 + c7) - H * c8) by lia. subst r3a.
  ring.
Qed.

Lemma div2_double n : Nat.div2 (2 * n) = n.
Proof. apply Nat.div2_double. Qed.

Lemma split_halves h l l0 l1 : wf l -> length l = (2 * h)%nat -> split_at h l = (l0, l1) ->
  eval l = eval l0 + Bn h * eval l1 /\ wf l0 /\ wf l1 /\ length l0 = h /\ length l1 = h.
Proof.
  intros Hw Hl E. destruct (split_at_eval h l l0 l1 Hw ltac:(lia) E) as (A & C & D & F & G).
  repeat split; auto; lia.
Qed.

Lemma prod_lt a b M N : 0 <= a < M -> 0 <= b < N -> 0 <= a * b < M * N.
Proof.
  intros Ha Hb. split; [apply Z.mul_nonneg_nonneg; lia|]. apply Z.mul_lt_mono_nonneg; lia.
Qed.

(** GOAL 4: Karatsuba of any level on operands whose length is a multiple of 2^level *)
Theorem kmul_correct l : forall x y lo hi m,
  wf x -> wf y -> length x = (2 ^ l * m)%nat -> length y = length x ->
  kmul l x y = (lo, hi) ->
  eval lo + Bn (length x) * eval hi = eval x * eval y /\ wf lo /\ wf hi /\
  length lo = length x /\ length hi = length x.
Proof.
  induction l as [|l IH]; intros x y lo hi m Hx Hy Hlx Hly E.
  - cbn [kmul] in E. destruct (schoolbook_split_correct x y lo hi Hx Hy E) as (A & C & D & F & G).
    repeat split; auto; lia.
  - cbn [kmul] in E. cbv zeta in E.
    rewrite Nat.pow_succ_r', <- Nat.mul_assoc in Hlx.
    remember (2 ^ l * m)%nat as h eqn:Hh.
    rewrite Hlx, div2_double in E.
    destruct (split_at h x) as [x0 x1] eqn:Ex. destruct (split_at h y) as [y0 y1] eqn:Ey.
    destruct (split_halves h x x0 x1 Hx Hlx Ex) as (Hxe & Hx0 & Hx1 & Hlx0 & Hlx1).
    destruct (split_halves h y y0 y1 Hy ltac:(lia) Ey) as (Hye & Hy0 & Hy1 & Hly0 & Hly1).
    destruct (sbb_limbs x0 x1 0) as [l0 l0b] eqn:Es0.
    destruct (sbb_limbs y1 y0 0) as [l1 l1b] eqn:Es1.
    destruct (abs_diff x0 x1 l0 l0b Hx0 Hx1 ltac:(lia) Es0) as (Hwa0 & Hla0 & Hea0).
    destruct (abs_diff y1 y0 l1 l1b Hy1 Hy0 ltac:(lia) Es1) as (Hwa1 & Hla1 & Hea1).
    set (a0 := sel_limbs (is_mask l0b) l0 (uint_wrapping_neg l0)) in *.
    set (a1 := sel_limbs (is_mask l1b) l1 (uint_wrapping_neg l1)) in *.
    set (s := xorb (is_mask l0b) (is_mask l1b)) in *.
    destruct (kmul l a0 a1) as [z1lo z1hi] eqn:Ez1.
    destruct (kmul l x0 y0) as [z0lo z0hi] eqn:Ez0.
    destruct (kmul l x1 y1) as [z2lo z2hi] eqn:Ez2.
    destruct (IH a0 a1 z1lo z1hi m Hwa0 Hwa1 ltac:(congruence) ltac:(congruence) Ez1) as (Hz1 & Hwz1l & Hwz1h & Hlz1l & Hlz1h).
    destruct (IH x0 y0 z0lo z0hi m Hx0 Hy0 ltac:(congruence) ltac:(congruence) Ez0) as (Hz0 & Hwz0l & Hwz0h & Hlz0l & Hlz0h).
    destruct (IH x1 y1 z2lo z2hi m Hx1 Hy1 ltac:(congruence) ltac:(congruence) Ez2) as (Hz2 & Hwz2l & Hwz2h & Hlz2l & Hlz2h).
    rewrite Hla0 in *. rewrite Hlx0 in *. rewrite Hlx1 in *.
    (* the four initial limbs groups: +-(0, z1lo, z1hi, 0) in ones' complement *)
    destruct (sel_lnot s (zeros h) (wf_zeros h)) as (HwR0 & HlR0 & HeR0).
    destruct (sel_lnot s z1lo Hwz1l) as (HwR1 & HlR1 & HeR1).
    destruct (sel_lnot s z1hi Hwz1h) as (HwR2 & HlR2 & HeR2).
    rewrite length_zeros, eval_zeros in *. rewrite Hlz1l in *. rewrite Hlz1h in *.
    set (R0 := sel_limbs s (zeros h) (lnot_limbs (zeros h))) in *.
    set (R1 := sel_limbs s z1lo (lnot_limbs z1lo)) in *.
    set (R2 := sel_limbs s z1hi (lnot_limbs z1hi)) in *.
    set (cin := if s then 1 else 0) in *.
    assert (Hcin : 0 <= cin <= 1) by (unfold cin; destruct s; lia).
    destruct (adc_limbs R0 z0lo cin) as [r0a c1] eqn:E1.
    destruct (adc_h h R0 z0lo cin r0a c1 HwR0 Hwz0l HlR0 ltac:(lia) ltac:(lia) E1) as (A1 & W1 & L1 & P1 & Q1 & _).
    destruct (adc_limbs R1 z0hi c1) as [r1a c2] eqn:E2.
    destruct (adc_h h R1 z0hi c1 r1a c2 HwR1 Hwz0h HlR1 ltac:(lia) ltac:(lia) E2) as (A2 & W2 & L2 & P2 & Q2 & _).
    destruct (adc_limbs r1a z0lo 0) as [r1b c3] eqn:E3.
    destruct (adc_h h r1a z0lo 0 r1b c3 W2 Hwz0l L2 ltac:(lia) ltac:(lia) E3) as (A3 & W3 & L3 & P3 & Q3 & _).
    pose proof B_gt4 as HB4.
    rewrite (wadd_small c2 c3) in E by lia.
    destruct (adc_limbs R2 z0hi (c2 + c3)) as [r2a c4] eqn:E4.
    destruct (adc_h h R2 z0hi (c2 + c3) r2a c4 HwR2 Hwz0h HlR2 ltac:(lia) ltac:(lia) E4) as (A4 & W4 & L4 & P4 & _ & Q4).
    destruct (adc_limbs r1b z2lo 0) as [r1c c5] eqn:E5.
    destruct (adc_h h r1b z2lo 0 r1c c5 W3 Hwz2l L3 ltac:(lia) ltac:(lia) E5) as (A5 & W5 & L5 & P5 & Q5 & _).
    destruct (adc_limbs r2a z2hi c5) as [r2b c6] eqn:E6.
    destruct (adc_h h r2a z2hi c5 r2b c6 W4 Hwz2h L4 ltac:(lia) ltac:(lia) E6) as (A6 & W6 & L6 & P6 & Q6 & _).
    destruct (adc_limbs r2b z2lo 0) as [r2c c7] eqn:E7.
    destruct (adc_h h r2b z2lo 0 r2c c7 W6 Hwz2l L6 ltac:(lia) ltac:(lia) E7) as (A7 & W7 & L7 & P7 & Q7 & _).
    rewrite (wadd_small c4 c6) in E by lia.
    rewrite (wadd_small (c4 + c6) c7) in E by lia.
    destruct (adc_limbs R0 z2hi (c4 + c6 + c7)) as [r3a c8] eqn:E8.
    destruct (adc_h h R0 z2hi (c4 + c6 + c7) r3a c8 HwR0 Hwz2h HlR0 ltac:(lia) ltac:(lia) E8) as (A8 & W8 & L8 & P8 & _ & _).
    inv_pair E.
    pose proof (kara_recomb (Bn h) _ _ _ _ _ _ _ _ _ _ _ _ _ _ _ _ _ _ _ _ _ _ _ _ _
                  A1 A2 A3 A4 A5 A6 A7 A8) as Hrec.
    assert (Hwlo : wf (r0a ++ r1c)) by (apply wf_app; auto).
    assert (Hwhi : wf (r2c ++ r3a)) by (apply wf_app; auto).
    assert (Hllo : length (r0a ++ r1c) = (2 * h)%nat) by (rewrite app_length; lia).
    assert (Hlhi : length (r2c ++ r3a) = (2 * h)%nat) by (rewrite app_length; lia).
    split; [|split; [|split; [|split]]]; auto; try lia.
    pose proof (eval_bounds _ Hwlo) as Hblo. pose proof (eval_bounds _ Hwhi) as Hbhi.
    rewrite Hllo in Hblo. rewrite Hlhi in Hbhi.
    rewrite !eval_app, L1, L7 in *.
    rewrite Bn_double in *.
    set (H := Bn h) in *.
    pose proof (eval_bounds _ Hx) as Hbx. pose proof (eval_bounds _ Hy) as Hby.
    rewrite Hly, Hlx, Bn_double in Hby. rewrite Hlx, Bn_double in Hbx. fold H in Hbx, Hby.
    assert (HH : 0 < H) by apply Bn_pos.
    pose proof (prod_lt _ _ _ _ Hbx Hby) as Hprod.
    (* the signed middle term *)
    assert (Hmid : (eval x0 - eval x1) * (eval y1 - eval y0) = if s then - (eval a0 * eval a1) else eval a0 * eval a1).
    { rewrite Hea0, Hea1. unfold s. destruct (is_mask l0b), (is_mask l1b); cbn [xorb]; ring. }
    assert (Hinit : eval R0 + H * eval R1 + H * H * eval R2 + H * H * H * eval R0 + cin =
                    if s then H * H * H * H - H * (eval a0 * eval a1) else H * (eval a0 * eval a1)).
    { rewrite HeR0, HeR1, HeR2, <- Hz1. unfold cin. fold H. destruct s; ring. }
    set (t := if s then 1 else 0).
    assert (Ht : (eval r0a + H * eval r1c) + H * H * (eval r2c + H * eval r3a) + H * H * H * H * c8 =
                 eval x * eval y + H * H * H * H * t).
    { rewrite Hrec, Hinit, Hxe, Hye, Hz0, Hz2.
      unfold t. destruct s.
      - assert (eval a0 * eval a1 = - ((eval x0 - eval x1) * (eval y1 - eval y0))) as -> by lia. ring.
      - rewrite <- Hmid. ring. }
    assert (Hu : c8 = t /\ (eval r0a + H * eval r1c) + H * H * (eval r2c + H * eval r3a) = eval x * eval y).
    { apply (divmod_uniq (H * H * H * H)).
      - assert (0 <= H * H * (eval r2c + H * eval r3a) <= H * H * (H * H - 1))
          by (split; [apply Z.mul_nonneg_nonneg; lia | apply Z.mul_le_mono_nonneg_l; lia]). lia.
      - replace (H * H * H * H) with (H * H * (H * H)) by ring. lia.
      - lia. }
    destruct Hu as [_ Hu]. rewrite Hlx, Bn_double. fold H. exact Hu.
Qed.

(* ================= fixed-size Karatsuba squaring ================= *)
Lemma is_borrow_word b : is_borrow b -> is_word b.
Proof. intros [-> | ->]; unfold is_word; pose proof B_gt1; pose proof MAXW_val; lia. Qed.
Lemma bin_bout b : is_borrow b -> bin b = bout b.
Proof. intros [-> | ->]; reflexivity. Qed.
Lemma bout_range b : is_borrow b -> 0 <= bout b <= 1.
Proof. intros [-> | ->]; [rewrite bout_0 | rewrite bout_MAXW]; lia. Qed.

(** one borrow chain over h limbs (h = 0 included) *)
Lemma sbb_h h a b bw r bo : wf a -> wf b -> length a = h -> length b = h -> is_borrow bw ->
  sbb_limbs a b bw = (r, bo) ->
  eval r - Bn h * bout bo = eval a - eval b - bout bw /\ wf r /\ length r = h /\ is_borrow bo.
Proof.
  intros Ha Hb Hla Hlb Hbw E.
  destruct (sbb_limbs_correct a b bw r bo Ha Hb ltac:(lia) (is_borrow_word _ Hbw) E)
    as (Hw & Hl & [(Hz & -> & ->)|(Hnz & Hib & He)]).
  - destruct a; [|simpl in Hz; lia]. simpl in Hla. subst h. destruct b; [|simpl in Hlb; lia].
    cbn [eval]. rewrite Bn_0. split; [lia|]. split; [apply wf_nil|]. split; [reflexivity | assumption].
  - rewrite Hla in *. rewrite (bin_bout _ Hbw) in He. auto.
Qed.

Lemma ksq_recomb H z0lo z0hi z2lo z2hi z1lo z1hi r1a r1b r1c r2a r2b r2c r3a r3b c1 c2 c3 c4 c5 b1 b2 b3 :
  r1a + H * c1 = z0hi + z0lo + 0 ->
  r2a + H * c2 = z0hi + z2lo + c1 ->
  r1b + H * c3 = r1a + z2lo + 0 ->
  r2b + H * c4 = r2a + z2hi + c3 ->
  r3a + H * c5 = z2hi + 0 + (c2 + c4) ->
  r1c - H * b1 = r1b - z1lo - 0 ->
  r2c - H * b2 = r2b - z1hi - b1 ->
  r3b - H * b3 = r3a - 0 - b2 ->
  (z0lo + H * r1c) + H * H * (r2c + H * r3b) + H * H * H * H * c5 =
    (z0lo + H * z0hi) * (1 + H) + (z2lo + H * z2hi) * (H + H * H) - H * (z1lo + H * z1hi)
    + H * H * H * H * b3.
Proof.
  intros E1 E2 E3 E4 E5 E6 E7 E8.
  assert (r1a = z0hi + z0lo + 0 - H * c1) by lia. subst r1a.
  assert (r2a = z0hi + z2lo + c1 - H * c2) by lia. subst r2a.
  assert (r1b = z0hi + z0lo + 0 - H * c1 + z2lo + 0 - H * c3) by lia. subst r1b.
  assert (r2b = z0hi + z2lo + c1 - H * c2 + z2hi + c3 - H * c4) by lia. subst r2b.
  assert (r3a = z2hi + 0 + (c2 + c4) - H * c5) by lia. subst r3a.
  assert (r1c = z0hi + z0lo + 0 - H * c1 + z2lo + 0 - H * c3 - z1lo - 0 + H * b1) by lia. subst r1c.
  assert (r2c = z0hi + z2lo + c1 - H * c2 + z2hi + c3 - H * c4 - z1hi - b1 + H * b2) by lia. subst r2c.
  assert (r3b = z2hi + 0 + (c2 + c4) - H * c5 - 0 - b2 + H * b3) by lia. subst r3b.
  ring.
Qed.

(** GOAL 5 *)
Theorem ksq_correct l : forall x lo hi m,
  wf x -> length x = (2 ^ l * m)%nat -> ksq l x = (lo, hi) ->
  eval lo + Bn (length x) * eval hi = eval x * eval x /\ wf lo /\ wf hi /\
  length lo = length x /\ length hi = length x.
Proof.
  induction l as [|l IH]; intros x lo hi m Hx Hlx E.
  - cbn [ksq] in E. destruct (schoolbook_sq_correct x Hx) as (A & C & D).
    destruct (split_at_eval (length x) (schoolbook_sq x) lo hi C ltac:(lia) E) as (A' & C' & D' & F' & G').
    repeat split; auto; lia.
  - cbn [ksq] in E. cbv zeta in E.
    rewrite Nat.pow_succ_r', <- Nat.mul_assoc in Hlx.
    remember (2 ^ l * m)%nat as h eqn:Hh.
    rewrite Hlx, div2_double in E.
    destruct (split_at h x) as [x0 x1] eqn:Ex.
    destruct (split_halves h x x0 x1 Hx Hlx Ex) as (Hxe & Hx0 & Hx1 & Hlx0 & Hlx1).
    destruct (ksq l x0) as [z0lo z0hi] eqn:Ez0.
    destruct (ksq l x1) as [z2lo z2hi] eqn:Ez2.
    destruct (IH x0 z0lo z0hi m Hx0 ltac:(congruence) Ez0) as (Hz0 & Hwz0l & Hwz0h & Hlz0l & Hlz0h).
    destruct (IH x1 z2lo z2hi m Hx1 ltac:(congruence) Ez2) as (Hz2 & Hwz2l & Hwz2h & Hlz2l & Hlz2h).
    rewrite Hlx0 in *. rewrite Hlx1 in *.
    pose proof B_gt4 as HB4.
    destruct (adc_limbs z0hi z0lo 0) as [r1a c1] eqn:E1.
    destruct (adc_h h z0hi z0lo 0 r1a c1 Hwz0h Hwz0l Hlz0h Hlz0l ltac:(lia) E1) as (A1 & W1 & L1 & P1 & Q1 & _).
    destruct (adc_limbs z0hi z2lo c1) as [r2a c2] eqn:E2.
    destruct (adc_h h z0hi z2lo c1 r2a c2 Hwz0h Hwz2l Hlz0h Hlz2l ltac:(lia) E2) as (A2 & W2 & L2 & P2 & Q2 & _).
    destruct (adc_limbs r1a z2lo 0) as [r1b c3] eqn:E3.
    destruct (adc_h h r1a z2lo 0 r1b c3 W1 Hwz2l L1 Hlz2l ltac:(lia) E3) as (A3 & W3 & L3 & P3 & Q3 & _).
    destruct (adc_limbs r2a z2hi c3) as [r2b c4] eqn:E4.
    destruct (adc_h h r2a z2hi c3 r2b c4 W2 Hwz2h L2 Hlz2h ltac:(lia) E4) as (A4 & W4 & L4 & P4 & Q4 & _).
    rewrite (wadd_small c2 c4) in E by lia.
    destruct (adc_limbs z2hi (zeros h) (c2 + c4)) as [r3a c5] eqn:E5.
    destruct (adc_h h z2hi (zeros h) (c2 + c4) r3a c5 Hwz2h (wf_zeros h) Hlz2h (length_zeros h) ltac:(lia) E5)
      as (A5 & W5 & L5 & P5 & _ & Q5).
    rewrite eval_zeros in A5.
    destruct (sbb_limbs x0 x1 0) as [l0 l0b] eqn:Es0.
    destruct (abs_diff x0 x1 l0 l0b Hx0 Hx1 ltac:(lia) Es0) as (Hwa0 & Hla0 & Hea0).
    set (a0 := sel_limbs (is_mask l0b) l0 (uint_wrapping_neg l0)) in *.
    destruct (ksq l a0) as [z1lo z1hi] eqn:Ez1.
    destruct (IH a0 z1lo z1hi m Hwa0 ltac:(congruence) Ez1) as (Hz1 & Hwz1l & Hwz1h & Hlz1l & Hlz1h).
    rewrite Hla0, Hlx0 in *.
    assert (Hb0 : is_borrow 0) by (left; reflexivity).
    destruct (sbb_limbs r1b z1lo 0) as [r1c b1] eqn:E6.
    destruct (sbb_h h r1b z1lo 0 r1c b1 W3 Hwz1l L3 Hlz1l Hb0 E6) as (A6 & W6 & L6 & B6).
    destruct (sbb_limbs r2b z1hi b1) as [r2c b2] eqn:E7.
    destruct (sbb_h h r2b z1hi b1 r2c b2 W4 Hwz1h L4 Hlz1h B6 E7) as (A7 & W7 & L7 & B7).
    destruct (sbb_limbs r3a (zeros h) b2) as [r3b b3] eqn:E8.
    destruct (sbb_h h r3a (zeros h) b2 r3b b3 W5 (wf_zeros h) L5 (length_zeros h) B7 E8) as (A8 & W8 & L8 & B8).
    rewrite eval_zeros in A8. rewrite bout_0 in A6.
    inv_pair E.
    pose proof (ksq_recomb (Bn h) _ _ _ _ _ _ _ _ _ _ _ _ _ _ _ _ _ _ _ _ _ _ A1 A2 A3 A4 A5 A6 A7 A8) as Hrec.
    assert (Hwlo : wf (z0lo ++ r1c)) by (apply wf_app; auto).
    assert (Hwhi : wf (r2c ++ r3b)) by (apply wf_app; auto).
    assert (Hllo : length (z0lo ++ r1c) = (2 * h)%nat) by (rewrite app_length; lia).
    assert (Hlhi : length (r2c ++ r3b) = (2 * h)%nat) by (rewrite app_length; lia).
    split; [|split; [|split; [|split]]]; auto; try lia.
    pose proof (eval_bounds _ Hwlo) as Hblo. pose proof (eval_bounds _ Hwhi) as Hbhi.
    rewrite Hllo in Hblo. rewrite Hlhi in Hbhi.
    rewrite !eval_app, Hlz0l, L7 in *.
    rewrite Hlx. rewrite Bn_double in *.
    pose proof (eval_bounds _ Hx) as Hbx. rewrite Hlx, Bn_double in Hbx.
    pose proof (bout_range _ B8) as Hb3.
    set (H := Bn h) in *.
    assert (HH : 0 < H) by apply Bn_pos.
    pose proof (prod_lt _ _ _ _ Hbx Hbx) as Hprod.
    assert (Hsq : eval a0 * eval a0 = (eval x0 - eval x1) * (eval x0 - eval x1)).
    { rewrite Hea0. destruct (is_mask l0b); ring. }
    rewrite Hz0, Hz2, Hz1, Hsq in Hrec.
    assert (Hu : c5 = bout b3 /\
                 (eval z0lo + H * eval r1c) + H * H * (eval r2c + H * eval r3b) = eval x * eval x).
    { apply (divmod_uniq (H * H * H * H)).
      - assert (0 <= H * H * (eval r2c + H * eval r3b) <= H * H * (H * H - 1))
          by (split; [apply Z.mul_nonneg_nonneg; lia | apply Z.mul_le_mono_nonneg_l; lia]). lia.
      - replace (H * H * H * H) with (H * H * (H * H)) by ring. lia.
      - rewrite Z.mul_comm, Z.add_comm, Hrec, Hxe. ring. }
    tauto.
Qed.
