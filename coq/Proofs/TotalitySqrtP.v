(** C11, area sqrt (Model/Sqrt.v, owner C20): the model table equals the spec table on every well-formed argument
    (Proofs/SqrtP.v), and the spec table never panics; in particular the fuel the model passes to the data-dependent
    loop of sqrt_vartime always suffices (the model maps "out of fuel" to [Unsupported]). *)
From CB Require Import Model.Limbs Model.Sqrt Proofs.WordP Proofs.LimbsP Proofs.SqrtP Proofs.TotalityP.
From Coq Require Import ZArith Lia List String Bool.
Open Scope Z_scope.
Notation length := List.length.

Lemma sqrt_cover : covers sqrt_keys ops_sqrt_model = true.
Proof. vm_compute. reflexivity. Qed.
Lemma sqrt_quiet : quiet_keys_ok ops_sqrt_model ops_sqrt_spec sqrt_quiet_keys.
Proof. unfold sqrt_quiet_keys. intros k dbg a []. Qed.

Lemma agree_run M S : Forall2 entries_agree M S -> forall k dbg a, wf (arg 0 a) -> run_tab M k dbg a = run_tab S k dbg a.
Proof.
  intros H k dbg a Hw. unfold run_tab. induction H as [|[km fm] [ks fs] M S [Hk Hf] H IH]; cbn [lookup]; [reflexivity|].
  cbn [fst snd] in Hk, Hf. subst ks. destruct (String.eqb k km); [apply Hf; assumption | exact IH].
Qed.
Lemma sqrt_model_eq_spec k dbg a : wf (arg 0 a) -> run_tab ops_sqrt_model k dbg a = run_tab ops_sqrt_spec k dbg a.
Proof. apply agree_run. exact sqrt_tables_agree. Qed.

Lemma sqrt_spec_never_panics k dbg a : run_tab ops_sqrt_spec k dbg a <> PanicV.
Proof.
  unfold run_tab. destruct (lookup k ops_sqrt_spec) as [f|] eqn:E; [|discriminate].
  cbn [lookup ops_sqrt_spec] in E.
  repeat (destruct (String.eqb k _); [inversion E; subst f; unfold sp_sqrt, sp_checked_sqrt; np |]).
  discriminate.
Qed.

Theorem sqrt_panics_iff_documented : panics_iff_documented ops_sqrt_model ops_sqrt_spec sqrt_keys sqrt_ty.
Proof.
  intros k dbg a _ Hwf _ _. rewrite (sqrt_model_eq_spec k dbg a (wf_arg 0 a Hwf)). tauto.
Qed.
Theorem sqrt_total_forms_never_panic : total_forms_never_panic ops_sqrt_model sqrt_total_keys sqrt_total_ty.
Proof.
  intros k dbg a Hin Hty.
  assert (Hw : wf (arg 0 a)).
  { cbn [In sqrt_total_keys] in Hin. destruct Hin as [<-|[<-|[<-|[<-|[]]]]]; exact Hty. }
  rewrite (sqrt_model_eq_spec k dbg a Hw). apply sqrt_spec_never_panics.
Qed.

(** no entry of the area panics on a well-formed argument (the `expect` inside the initial-guess shift never fires) and
    the fuelled loop of sqrt_vartime terminates with the fuel the model passes: for a value of at least one limb the
    model returns neither PanicV nor Unsupported (= out of fuel) *)
Theorem sqrt_never_panics_and_fuel_suffices : forall k dbg a, In k sqrt_keys -> wf (arg 0 a) -> arg 0 a <> [] ->
  run_tab ops_sqrt_model k dbg a <> PanicV /\ run_tab ops_sqrt_model k dbg a <> Unsupported.
Proof.
  intros k dbg a Hin Hw Hne. rewrite (sqrt_model_eq_spec k dbg a Hw). split; [apply sqrt_spec_never_panics|].
  cbn [In sqrt_keys sqrt_quiet_keys sqrt_panic_keys app] in Hin.
  repeat (destruct Hin as [<- | Hin];
    [ open_tabs ops_sqrt_model ops_sqrt_spec; unfold sp_sqrt, sp_checked_sqrt, nonempty;
      destruct (arg 0 a); [contradiction Hne; reflexivity|]; cbv zeta;
      match goal with |- context[if ?c then _ else _] => destruct c | _ => idtac end; discriminate |]).
  contradiction.
Qed.
