(** C10 proofs, part 3: [jump] (src/modular/safegcd.rs:265-298).  62 divsteps on the low limbs produce a matrix t
    with  t (f0, g0) = 2^62 (f', g')  exactly on the integers, row sums <= 2^62, det t = 2^62, even first row,
    f' odd, and no i64 / i128 operation wraps.  Induction over the loop, for all inputs. *)
From CB Require Import Model.Limbs Model.AddSub Model.SafeGcd Proofs.WordP Proofs.LimbsP Proofs.BitsP Proofs.SafeGcdArithP.
From Coq Require Import ZArith Lia List Bool Znumtheory Zdiv Setoid Morphisms.
Open Scope Z_scope.

(** invariant of the loop: s steps done, row 1 may be ahead by p (the zero bits of g not yet shifted out) *)
Definition JI (f0 g0 s p f g t00 t01 t10 t11 : Z) : Prop :=
  t00 * f0 + t01 * g0 = 2 ^ s * f /\
  t10 * f0 + t11 * g0 = 2 ^ s * g /\
  Z.abs t00 + Z.abs t01 <= 2 ^ s /\
  Z.abs t10 + Z.abs t11 <= 2 ^ (s + p) /\
  t00 * t11 - t01 * t10 = 2 ^ s.

Lemma abs_lin ta tb x y M : 0 <= x <= M -> 0 <= y <= M -> Z.abs (ta * x + tb * y) <= (Z.abs ta + Z.abs tb) * M.
Proof.
  intros Hx Hy.
  assert (A : Z.abs (ta * x) <= Z.abs ta * M) by (rewrite Z.abs_mul, (Z.abs_eq x) by lia; apply Z.mul_le_mono_nonneg_l; lia).
  assert (C : Z.abs (tb * y) <= Z.abs tb * M) by (rewrite Z.abs_mul, (Z.abs_eq y) by lia; apply Z.mul_le_mono_nonneg_l; lia).
  pose proof (Z.abs_triangle (ta * x) (tb * y)). lia.
Qed.

Lemma JI_bounds f0 g0 s p f g t00 t01 t10 t11 : 0 <= s -> 0 <= p -> 0 <= f0 < P62 -> 0 <= g0 < P62 ->
  JI f0 g0 s p f g t00 t01 t10 t11 ->
  Z.abs f < P62 /\ Z.abs g < 2 ^ p * P62 /\
  Z.abs t00 <= 2 ^ s /\ Z.abs t01 <= 2 ^ s /\ Z.abs t10 <= 2 ^ (s + p) /\ Z.abs t11 <= 2 ^ (s + p).
Proof.
  intros Hs Hp Hf Hg (E0 & E1 & R0 & R1 & _).
  assert (Ps : 0 < 2 ^ s) by (apply pow2_pos; assumption).
  assert (Pp : 0 < 2 ^ p) by (apply pow2_pos; assumption).
  pose proof (abs_lin t00 t01 f0 g0 (P62 - 1) ltac:(lia) ltac:(lia)) as A0.
  pose proof (abs_lin t10 t11 f0 g0 (P62 - 1) ltac:(lia) ltac:(lia)) as A1.
  rewrite E0 in A0. rewrite E1 in A1. rewrite Z.abs_mul, (Z.abs_eq (2 ^ s)) in A0, A1 by lia.
  rewrite Z.pow_add_r in R1 by assumption.
  assert (B0 : (Z.abs t00 + Z.abs t01) * (P62 - 1) <= 2 ^ s * (P62 - 1)) by (apply Z.mul_le_mono_nonneg_r; pfacts; lia).
  assert (B1 : (Z.abs t10 + Z.abs t11) * (P62 - 1) <= 2 ^ s * 2 ^ p * (P62 - 1)) by (apply Z.mul_le_mono_nonneg_r; pfacts; lia).
  repeat split.
  - assert (2 ^ s * Z.abs f <= 2 ^ s * (P62 - 1)) by lia.
    apply Z.mul_le_mono_pos_l in H; lia.
  - assert (2 ^ s * Z.abs g <= 2 ^ s * (2 ^ p * (P62 - 1))) by lia.
    apply Z.mul_le_mono_pos_l in H; [|lia].
    assert (2 ^ p * (P62 - 1) < 2 ^ p * P62) by (apply Z.mul_lt_mono_pos_l; lia). lia.
  - lia.
  - lia.
  - rewrite Z.pow_add_r by assumption. lia.
  - rewrite Z.pow_add_r by assumption. lia.
Qed.

Lemma JI_shift f0 g0 s z f g g1 t00 t01 t10 t11 : 0 <= s -> 0 <= z -> g = 2 ^ z * g1 ->
  JI f0 g0 s z f g t00 t01 t10 t11 -> JI f0 g0 (s + z) 0 f g1 (t00 * 2 ^ z) (t01 * 2 ^ z) t10 t11.
Proof.
  intros Hs Hz Eg (E0 & E1 & R0 & R1 & D).
  assert (Pz : 0 < 2 ^ z) by (apply pow2_pos; assumption).
  unfold JI. rewrite Z.add_0_r, !Z.pow_add_r by assumption. repeat split.
  - replace (t00 * 2 ^ z * f0 + t01 * 2 ^ z * g0) with (2 ^ z * (t00 * f0 + t01 * g0)) by ring. rewrite E0. ring.
  - rewrite E1, Eg. ring.
  - rewrite !Z.abs_mul, (Z.abs_eq (2 ^ z)) by lia.
    replace (Z.abs t00 * 2 ^ z + Z.abs t01 * 2 ^ z) with ((Z.abs t00 + Z.abs t01) * 2 ^ z) by ring.
    apply Z.mul_le_mono_nonneg_r; lia.
  - rewrite Z.pow_add_r in R1 by assumption. assumption.
  - replace (t00 * 2 ^ z * t11 - t01 * 2 ^ z * t10) with ((t00 * t11 - t01 * t10) * 2 ^ z) by ring. rewrite D. reflexivity.
Qed.

Lemma JI_swap f0 g0 s f g t00 t01 t10 t11 :
  JI f0 g0 s 0 f g t00 t01 t10 t11 -> JI f0 g0 s 0 g (- f) t10 t11 (- t00) (- t01).
Proof.
  intros (E0 & E1 & R0 & R1 & D). rewrite Z.add_0_r in R1.
  unfold JI. rewrite Z.add_0_r, !Z.abs_opp. repeat split; try assumption.
  - replace (- t00 * f0 + - t01 * g0) with (- (t00 * f0 + t01 * g0)) by ring. rewrite E0. ring.
  - rewrite <- D. ring.
Qed.

Lemma JI_wstep f0 g0 s k w f g t00 t01 t10 t11 : 0 <= s -> 0 <= k -> 0 <= w < 2 ^ k ->
  JI f0 g0 s 0 f g t00 t01 t10 t11 -> JI f0 g0 s k f (g + w * f) t00 t01 (t00 * w + t10) (t01 * w + t11).
Proof.
  intros Hs Hk Hw (E0 & E1 & R0 & R1 & D). rewrite Z.add_0_r in R1.
  assert (Ps : 0 < 2 ^ s) by (apply pow2_pos; assumption).
  unfold JI. rewrite Z.pow_add_r by assumption. repeat split; try assumption.
  - replace ((t00 * w + t10) * f0 + (t01 * w + t11) * g0) with (w * (t00 * f0 + t01 * g0) + (t10 * f0 + t11 * g0)) by ring.
    rewrite E0, E1. ring.
  - pose proof (Z.abs_triangle (t00 * w) t10). pose proof (Z.abs_triangle (t01 * w) t11).
    rewrite Z.abs_mul, (Z.abs_eq w) in H, H0 by lia.
    assert ((Z.abs t00 + Z.abs t01) * w <= 2 ^ s * w) by (apply Z.mul_le_mono_nonneg_r; lia).
    assert (2 ^ s * (w + 1) <= 2 ^ s * 2 ^ k) by (apply Z.mul_le_mono_nonneg_l; lia).
    lia.
  - rewrite <- D. ring.
Qed.

(** the multiplier w clears k low bits of g *)
Lemma w_clears f g k : Z.odd f = true -> 0 <= k <= 5 ->
  let w := Z.land (wmul (u64 g) (wxor (wmul (u64 f) 3) 28)) (2 ^ k - 1) in
  0 <= w < 2 ^ k /\ (2 ^ k | g + w * f).
Proof.
  intros Ho Hk w.
  assert (Pk : 0 < 2 ^ k) by (apply pow2_pos; lia).
  assert (Ew : w = (wmul (u64 g) (wxor (wmul (u64 f) 3) 28)) mod 2 ^ k).
  { unfold w. replace (2 ^ k - 1) with (Z.ones k) by (rewrite Z.ones_equiv; lia). apply Z.land_ones. lia. }
  split; [rewrite Ew; apply Z.mod_pos_bound; assumption|].
  set (v := u64 f) in *.
  assert (Ov : Z.odd v = true).
  { unfold v, u64. rewrite <- Z.bit0_odd in *. rewrite P64_pow, Z.mod_pow2_bits_low by lia. assumption. }
  pose proof (seed_neginv5 v Ov) as S5.
  set (c := wxor (wmul v 3) 28) in *.
  assert (Ec : c = Z.lxor ((v * 3) mod P64) 28) by (unfold c, wxor, wmul, wrap; rewrite B_P64; reflexivity).
  rewrite <- Ec in S5.
  (* modulo 2^k *)
  assert (D32 : (2 ^ k | 32)) by (change 32 with (2 ^ 5); apply pow2_divide; lia).
  assert (D64 : (2 ^ k | P64)) by (rewrite P64_pow; apply pow2_divide; lia).
  assert (Cv : cg (2 ^ k) v f).
  { apply (cg_weaken P64); [discriminate | lia | assumption |]. unfold v, u64. apply cg_mod. }
  assert (Cg : cg (2 ^ k) (u64 g) g).
  { apply (cg_weaken P64); [discriminate | lia | assumption |]. unfold u64. apply cg_mod. }
  assert (Cc : cg (2 ^ k) (c * v) (-1)).
  { apply (cg_weaken 32); [discriminate | lia | assumption |]. apply cg_iff. rewrite S5. reflexivity. }
  assert (Cw : cg (2 ^ k) w (g * c)).
  { rewrite Ew, cg_mod. unfold wmul, wrap. rewrite B_P64.
    transitivity (u64 g * c); [apply (cg_weaken P64); [discriminate | lia | assumption | apply cg_mod]|].
    rewrite Cg. reflexivity. }
  assert (Fin : cg (2 ^ k) (g + w * f) 0).
  { rewrite Cw, <- Cv. replace (g * c * v) with (g * (c * v)) by ring. rewrite Cc.
    apply eq_subrelation; [typeclasses eauto | ring]. }
  apply cg_divide in Fin; [|lia]. rewrite Z.sub_0_r in Fin. exact Fin.
Qed.

(** result of a jump *)
Definition JPost (f0 g0 delta : Z) (r : Z * matrix) : Prop :=
  let '(delta', (t00, t01, t10, t11)) := r in
  exists f' g',
    t00 * f0 + t01 * g0 = P62 * f' /\ t10 * f0 + t11 * g0 = P62 * g' /\
    Z.abs t00 + Z.abs t01 <= P62 /\ Z.abs t10 + Z.abs t11 <= P62 /\
    t00 * t11 - t01 * t10 = P62 /\
    Z.even t00 = true /\ Z.even t01 = true /\ Z.odd f' = true /\
    Z.abs delta' <= Z.abs delta + 62.

Lemma even_mul_pow2 x z : 1 <= z -> Z.even (x * 2 ^ z) = true.
Proof.
  intros Hz. replace z with (1 + (z - 1)) by lia. rewrite Z.pow_add_r by lia. change (2 ^ 1) with 2.
  rewrite Z.mul_assoc, Z.even_mul, (Z.even_mul x 2). cbn. rewrite orb_true_r. reflexivity.
Qed.

Lemma s128_small x k : Z.abs x < 2 ^ k * P62 -> 2 ^ k <= 32 -> s128 x = x.
Proof.
  intros H K. apply s128_id. assert (2 ^ k * P62 <= 32 * P62) by (apply Z.mul_le_mono_nonneg_r; pfacts; lia).
  pfacts; lia.
Qed.
Lemma s64_small x b : Z.abs x <= b -> b <= P62 -> s64 x = x.
Proof. intros H K. apply s64_id. pfacts; lia. Qed.

Lemma jump_loop_inv f0 g0 K : 0 <= f0 < P62 -> 0 <= g0 < P62 -> K <= P62 ->
  forall fuel steps delta f g t00 t01 t10 t11,
  1 <= steps <= 62 ->
  JI f0 g0 (62 - steps) (ctz_upto (Z.to_nat steps) g) f g t00 t01 t10 t11 ->
  (Z.odd f = true \/ (0 < delta /\ Z.odd g = true)) ->
  Z.abs delta + steps <= K ->
  steps + (if ctz_upto (Z.to_nat steps) g =? 0 then 1 else 0) <= Z.of_nat fuel ->
  let '(delta', (u00, u01, u10, u11)) := jump_loop fuel steps delta f g (t00, t01, t10, t11) in
  exists f' g',
    u00 * f0 + u01 * g0 = P62 * f' /\ u10 * f0 + u11 * g0 = P62 * g' /\
    Z.abs u00 + Z.abs u01 <= P62 /\ Z.abs u10 + Z.abs u11 <= P62 /\
    u00 * u11 - u01 * u10 = P62 /\
    Z.even u00 = true /\ Z.even u01 = true /\ Z.odd f' = true /\
    Z.abs delta' <= K.
Proof.
  intros Hf0 Hg0 HK.
  induction fuel as [|fuel IH]; intros steps delta f g t00 t01 t10 t11 Hst J Hodd Hd Hfuel.
  - destruct (ctz_upto (Z.to_nat steps) g =? 0); change (Z.of_nat 0) with 0 in Hfuel; lia.
  - cbn [jump_loop].
    set (z := ctz_upto (Z.to_nat steps) g) in *.
    pose proof (ctz_upto_range (Z.to_nat steps) g) as Hz. fold z in Hz. rewrite Z2Nat.id in Hz by lia.
    pose proof (ctz_upto_divide (Z.to_nat steps) g) as Eg. fold z in Eg.
    set (g1 := g / 2 ^ z) in *.
    set (s := 62 - steps) in *.
    assert (Hs : 0 <= s) by (unfold s; lia).
    assert (Pz : 0 < 2 ^ z) by (apply pow2_pos; lia).
    (* bounds before the shift *)
    destruct (JI_bounds _ _ _ _ _ _ _ _ _ _ Hs (proj1 Hz) Hf0 Hg0 J) as (Bf & Bg & B00 & B01 & B10 & B11).
    assert (Psz : 2 ^ (s + z) <= P62).
    { rewrite P62_pow. apply Z.pow_le_mono_r; unfold s; lia. }
    assert (Ps : 2 ^ s <= 2 ^ (s + z)) by (apply Z.pow_le_mono_r; lia).
    (* shift *)
    pose proof (JI_shift _ _ _ _ _ _ _ _ _ _ _ Hs (proj1 Hz) Eg J) as J1.
    assert (E00 : s64 (t00 * 2 ^ z) = t00 * 2 ^ z).
    { apply s64_id. assert (Z.abs (t00 * 2 ^ z) <= 2 ^ (s + z)).
      { rewrite Z.abs_mul, (Z.abs_eq (2 ^ z)), Z.pow_add_r by lia. apply Z.mul_le_mono_nonneg_r; lia. }
      pfacts; lia. }
    assert (E01 : s64 (t01 * 2 ^ z) = t01 * 2 ^ z).
    { apply s64_id. assert (Z.abs (t01 * 2 ^ z) <= 2 ^ (s + z)).
      { rewrite Z.abs_mul, (Z.abs_eq (2 ^ z)), Z.pow_add_r by lia. apply Z.mul_le_mono_nonneg_r; lia. }
      pfacts; lia. }
    assert (Ed : s64 (delta + z) = delta + z) by (apply s64_id; pfacts; lia).
    rewrite E00, E01, Ed.
    replace (62 - steps + z) with (62 - (steps - z)) in J1 by (unfold s; lia).
    fold s in J1. replace (s + z) with (62 - (steps - z)) in J1 by (unfold s; lia).
    destruct (Z.eqb_spec (steps - z) 0) as [Est|Est].
    + (* all 62 steps done *)
      rewrite Est, Z.sub_0_r in J1. destruct J1 as (F0 & F1 & R0 & R1 & D). rewrite Z.add_0_r in R1.
      change (2 ^ 62) with P62 in *.
      exists f, g1. repeat split; try assumption.
      * apply even_mul_pow2. lia.
      * apply even_mul_pow2. lia.
      * destruct Hodd as [Ho|[_ Ho]]; [assumption|].
        exfalso. assert (z = 0); [|lia].
        unfold z. destruct (Z.to_nat steps) eqn:En; [lia|]. cbn [ctz_upto]. rewrite Ho. reflexivity.
      * lia.
    + assert (Hzlt : z < steps) by lia.
      pose proof (ctz_upto_odd (Z.to_nat steps) g) as Og1. fold z in Og1. rewrite Z2Nat.id in Og1 by lia.
      specialize (Og1 Hzlt). fold g1 in Og1.
      set (st := steps - z) in *.
      set (s' := 62 - st) in *.
      assert (Hs' : 0 <= s') by (unfold s', st; lia).
      assert (Ps' : 2 ^ s' <= P62) by (rewrite P62_pow; apply Z.pow_le_mono_r; unfold s', st; lia).
      assert (Ps'0 : 0 < 2 ^ s') by (apply pow2_pos; assumption).
      destruct (JI_bounds _ _ _ _ _ _ _ _ _ _ Hs' (Z.le_refl 0) Hf0 Hg0 J1) as (Bf1 & Bg1 & C00 & C01 & C10 & C11).
      rewrite Z.add_0_r in C10, C11. change (2 ^ 0) with 1 in Bg1. rewrite Z.mul_1_l in Bg1.
      (* swap *)
      set (sw := 0 <? delta + z).
      assert (exists delta2 f2 g2 v00 v01 v10 v11,
                (if sw then (s64 (- (delta + z)), s64 g1, s64 (- f), t10, t11, s64 (- (t00 * 2 ^ z)), s64 (- (t01 * 2 ^ z)))
                 else (delta + z, f, g1, t00 * 2 ^ z, t01 * 2 ^ z, t10, t11)) = (delta2, f2, g2, v00, v01, v10, v11) /\
                JI f0 g0 s' 0 f2 g2 v00 v01 v10 v11 /\ Z.odd f2 = true /\ delta2 <= 0 /\ Z.abs delta2 + st <= K) as SW.
      { unfold sw. destruct (Z.ltb_spec 0 (delta + z)) as [Hpos|Hnp].
        - exists (- (delta + z)), g1, (- f), t10, t11, (- (t00 * 2 ^ z)), (- (t01 * 2 ^ z)).
          rewrite !s64_id by (pfacts; lia).
          split; [reflexivity|]. split; [apply JI_swap; assumption|]. split; [assumption|]. unfold st. lia.
        - exists (delta + z), f, g1, (t00 * 2 ^ z), (t01 * 2 ^ z), t10, t11.
          split; [reflexivity|]. split; [assumption|].
          split; [destruct Hodd as [Ho|[Hp _]]; [assumption | lia]|]. unfold st. lia. }
      destruct SW as (delta2 & f2 & g2 & v00 & v01 & v10 & v11 & Esw & J2 & Of2 & Hd2 & Hd2K).
      rewrite Esw.
      destruct (JI_bounds _ _ _ _ _ _ _ _ _ _ Hs' (Z.le_refl 0) Hf0 Hg0 J2) as (Bf2 & Bg2 & V00 & V01 & V10 & V11).
      rewrite Z.add_0_r in V10, V11. change (2 ^ 0) with 1 in Bg2. rewrite Z.mul_1_l in Bg2.
      (* the multiplier *)
      assert (E1d : s64 (1 - delta2) = 1 - delta2) by (apply s64_id; clear - Hd2 Hd2K HK Hzlt Hz; pfacts; lia).
      rewrite E1d.
      set (k := Z.min (Z.min st (1 - delta2)) 5).
      assert (Hk : 1 <= k <= 5 /\ k <= st) by (clear - Hd2 Hzlt; unfold k, st; lia).
      destruct (w_clears f2 g2 k Of2 ltac:(lia)) as (Hw & Dw). cbv zeta in Hw, Dw.
      set (w := Z.land (wmul (u64 g2) (wxor (wmul (u64 f2) 3) 28)) (2 ^ k - 1)) in *.
      assert (Pk : 2 ^ k <= 32) by (change 32 with (2 ^ 5); apply Z.pow_le_mono_r; lia).
      assert (Hk0 : 0 <= k) by lia.
      pose proof (JI_wstep _ _ _ k w _ _ _ _ _ _ Hs' Hk0 Hw J2) as J3.
      assert (Psk : 2 ^ (s' + k) <= P62) by (rewrite P62_pow; apply Z.pow_le_mono_r; unfold s'; lia).
      destruct (JI_bounds _ _ _ _ _ _ _ _ _ _ Hs' Hk0 Hf0 Hg0 J3) as (_ & Bg3 & _ & _ & W10 & W11).
      assert (Eg3 : s128 (g2 + w * f2) = g2 + w * f2) by (apply (s128_small _ k); assumption).
      assert (E10 : s64 (v00 * w + v10) = v00 * w + v10) by (apply (s64_small _ (2 ^ (s' + k))); assumption).
      assert (E11 : s64 (v01 * w + v11) = v01 * w + v11) by (apply (s64_small _ (2 ^ (s' + k))); assumption).
      rewrite Eg3, E10, E11.
      (* next iteration *)
      assert (Hkz : k <= ctz_upto (Z.to_nat st) (g2 + w * f2)) by (apply ctz_upto_ge; [clear - Hk Hzlt; unfold st in *; lia | assumption]).
      pose proof (ctz_upto_range (Z.to_nat st) (g2 + w * f2)) as Hz'. rewrite Z2Nat.id in Hz' by (clear - Hzlt; unfold st; lia).
      apply (IH st delta2 f2 (g2 + w * f2) v00 v01 (v00 * w + v10) (v01 * w + v11)).
      * clear - Hzlt Hst Hz. unfold st. lia.
      * fold s'. destruct J3 as (G0 & G1 & R0 & R1 & D). unfold JI. repeat split; try assumption.
        eapply Z.le_trans; [exact R1|]. apply Z.pow_le_mono_r; [lia|]. clear - Hkz. lia.
      * left. assumption.
      * assumption.
      * clear - Hfuel Hkz Hk Hz Hzlt Hz'.
        destruct (Z.eqb_spec (ctz_upto (Z.to_nat st) (g2 + w * f2)) 0) as [E0|E0]; [lia|].
        rewrite Nat2Z.inj_succ in Hfuel. unfold st.
        destruct (Z.eqb_spec z 0); lia.
Qed.

(** [jump]: t (f0, g0) = 2^62 (f', g') exactly, entries bounded, det = 2^62, first row even, f' odd *)
Theorem jump_matrix f0 g0 delta : 0 <= f0 < P62 -> 0 <= g0 < P62 ->
  (Z.odd f0 = true \/ (0 < delta /\ Z.odd g0 = true)) -> Z.abs delta + 62 <= P62 ->
  JPost f0 g0 delta (jump f0 g0 delta).
Proof.
  intros Hf Hg Ho Hd. unfold jump, JPost.
  pose proof (jump_loop_inv f0 g0 (Z.abs delta + 62) Hf Hg Hd 63 62 delta f0 g0 1 0 0 1 ltac:(lia)) as L.
  assert (J : JI f0 g0 (62 - 62) (ctz_upto (Z.to_nat 62) g0) f0 g0 1 0 0 1).
  { pose proof (ctz_upto_range (Z.to_nat 62) g0) as R.
    unfold JI. change (62 - 62) with 0. rewrite Z.add_0_l. change (2 ^ 0) with 1. assert (0 < 2 ^ ctz_upto (Z.to_nat 62) g0) by (apply pow2_pos; lia). repeat split; cbn [Z.abs]; lia. }
  specialize (L J Ho ltac:(lia)).
  assert (Fu : 62 + (if ctz_upto (Z.to_nat 62) g0 =? 0 then 1 else 0) <= Z.of_nat 63) by (destruct (_ =? 0); lia).
  specialize (L Fu).
  destruct (jump_loop 63 62 delta f0 g0 (1, 0, 0, 1)) as [d' [[[u00 u01] u10] u11]].
  exact L.
Qed.

Lemma jump_matrix_eq f0 g0 delta d' t00 t01 t10 t11 : 0 <= f0 < P62 -> 0 <= g0 < P62 ->
  (Z.odd f0 = true \/ (0 < delta /\ Z.odd g0 = true)) -> Z.abs delta + 62 <= P62 ->
  jump f0 g0 delta = (d', (t00, t01, t10, t11)) ->
  exists f' g',
    t00 * f0 + t01 * g0 = P62 * f' /\ t10 * f0 + t11 * g0 = P62 * g' /\
    Z.abs t00 + Z.abs t01 <= P62 /\ Z.abs t10 + Z.abs t11 <= P62 /\
    t00 * t11 - t01 * t10 = P62 /\
    Z.even t00 = true /\ Z.even t01 = true /\ Z.odd f' = true /\
    Z.abs d' <= Z.abs delta + 62.
Proof.
  intros Hf Hg Ho Hd E. pose proof (jump_matrix f0 g0 delta Hf Hg Ho Hd) as JP. rewrite E in JP. exact JP.
Qed.

(** g0 = 0: the jump is the identity on (f, g) whatever f0 is (used for gcd(x, 0), gcd(0, 0) and after convergence) *)
Lemma jump_loop_g0 fuel steps delta f t00 t01 t10 t11 : 0 <= steps ->
  jump_loop (S fuel) steps delta f 0 (t00, t01, t10, t11) =
  (s64 (delta + steps), (s64 (t00 * 2 ^ steps), s64 (t01 * 2 ^ steps), t10, t11)).
Proof.
  intros Hs. cbn [jump_loop]. rewrite ctz_upto_zero, Z2Nat.id, Z.sub_diag by assumption. reflexivity.
Qed.
Lemma jump_g0 f0 delta : - P62 <= delta <= P62 -> jump f0 0 delta = (delta + 62, (P62, 0, 0, 1)).
Proof.
  intros Hd. unfold jump. rewrite jump_loop_g0 by lia.
  rewrite s64_id by (pfacts; lia). reflexivity.
Qed.
