(** C13 proofs: signed integers.  Part 1: word-level masks, ConstChoice algebra, the Uint helpers
    (is_nonzero / eq / gt / lte) and the signed reading [seval]. *)
From CB Require Import Model.Limbs Model.AddSub Model.IntArith Proofs.WordP Proofs.LimbsP Proofs.AddSubP.
From Coq Require Import ZArith Lia List Bool.
Open Scope Z_scope.

(* ------------------------------------------------------------------ words *)
Lemma p63_lt_B : 2 ^ 63 < B. Proof. word_facts. lia. Qed.
Lemma MAXW_ones : MAXW = Z.ones 64.
Proof. rewrite MAXW_val, B_val. rewrite Z.ones_equiv. reflexivity. Qed.

Lemma word_log2 x : is_word x -> Z.log2 x < 64.
Proof.
  unfold is_word. rewrite B_val. intros H.
  destruct (Z.eq_dec x 0) as [->|Hn]; [reflexivity|]. apply Z.log2_lt_pow2; lia.
Qed.

Lemma is_word_of_log2 x : 0 <= x -> Z.log2 x < 64 -> is_word x.
Proof.
  intros H0 Hl. unfold is_word. rewrite B_val. split; [assumption|].
  destruct (Z.eq_dec x 0) as [->|Hn]; [reflexivity|]. apply Z.log2_lt_pow2; lia.
Qed.

Lemma is_word_lor a b : is_word a -> is_word b -> is_word (Z.lor a b).
Proof.
  intros Ha Hb. pose proof (word_log2 a Ha). pose proof (word_log2 b Hb). unfold is_word in Ha, Hb.
  apply is_word_of_log2. { apply Z.lor_nonneg; lia. }
  rewrite Z.log2_lor by lia. lia.
Qed.

Lemma is_word_lxor a b : is_word a -> is_word b -> is_word (Z.lxor a b).
Proof.
  intros Ha Hb. pose proof (word_log2 a Ha). pose proof (word_log2 b Hb). unfold is_word in Ha, Hb.
  apply is_word_of_log2. { apply Z.lxor_nonneg; lia. }
  eapply Z.le_lt_trans; [apply Z.log2_lxor; lia|]. lia.
Qed.

Lemma wxor_MAXW x : is_word x -> wxor x MAXW = wnot x.
Proof.
  intros Hx. unfold wxor, wnot. rewrite MAXW_ones.
  pose proof (word_log2 x Hx). unfold is_word in Hx.
  rewrite <- Z.ldiff_ones_l_low by lia.
  symmetry. apply Z.sub_nocarry_ldiff. apply Z.ldiff_ones_r_low; lia.
Qed.

Lemma is_word_wnot x : is_word x -> is_word (wnot x).
Proof. unfold is_word, wnot. pose proof MAXW_val. lia. Qed.

(* the top bit of a word *)
Lemma msb_01 x : is_word x -> (x < 2 ^ 63 /\ x / 2 ^ 63 = 0) \/ (2 ^ 63 <= x /\ x / 2 ^ 63 = 1).
Proof.
  unfold is_word. intros H. word_facts.
  destruct (Z_lt_ge_dec x (2 ^ 63)).
  - left. split; [assumption|]. apply Z.div_small. lia.
  - right. split; [lia|]. symmetry. apply (Z.div_unique_pos x (2 ^ 63) 1 (x - 2 ^ 63)); lia.
Qed.

Lemma from_word_msb_spec x : is_word x -> from_word_msb x = choice_of_bool (2 ^ 63 <=? x).
Proof.
  intros H. unfold from_word_msb. destruct (msb_01 x H) as [[Hl ->]|[Hg ->]].
  - replace (2 ^ 63 <=? x) with false by (symmetry; apply Z.leb_gt; assumption). reflexivity.
  - replace (2 ^ 63 <=? x) with true by (symmetry; apply Z.leb_le; assumption). reflexivity.
Qed.

Lemma msb_testbit x : is_word x -> x / 2 ^ 63 = Z.b2z (Z.testbit x 63).
Proof.
  intros H. rewrite Z.testbit_spec' by lia.
  destruct (msb_01 x H) as [[_ ->]|[_ ->]]; reflexivity.
Qed.

Lemma wneg_word x : is_word x -> x <> 0 -> wneg x = B - x.
Proof.
  unfold is_word, wneg, wrap. intros H Hn. symmetry.
  apply (Z.mod_unique_pos (- x) B (-1) (B - x)); lia.
Qed.

Lemma from_word_nonzero_spec x : is_word x -> from_word_nonzero x = choice_of_bool (negb (x =? 0)).
Proof.
  intros H. unfold from_word_nonzero.
  destruct (Z.eq_dec x 0) as [->|Hn]; [reflexivity|].
  replace (x =? 0) with false by (symmetry; apply Z.eqb_neq; assumption). cbn [negb].
  assert (Hneg : is_word (wneg x)).
  { rewrite wneg_word by assumption. unfold is_word in *. lia. }
  assert (Hor : is_word (wor x (wneg x))) by (apply is_word_lor; assumption).
  rewrite (msb_testbit _ Hor). unfold wor. rewrite Z.lor_spec.
  assert (Hb : Z.testbit x 63 || Z.testbit (wneg x) 63 = true); [|rewrite Hb; reflexivity].
  (* one of the two top bits is set *)
  destruct (msb_01 x H) as [[Hl E1]|[Hg E1]].
  - destruct (msb_01 _ Hneg) as [[Hl2 E2]|[Hg2 E2]].
    + rewrite wneg_word in Hl2 by assumption. word_facts. unfold is_word in H. lia.
    + rewrite (msb_testbit _ Hneg) in E2. rewrite msb_testbit in E1 by assumption.
      destruct (Z.testbit x 63), (Z.testbit (wneg x) 63); try discriminate; reflexivity.
  - rewrite msb_testbit in E1 by assumption.
    destruct (Z.testbit x 63); [reflexivity | discriminate].
Qed.

(* ------------------------------------------------------------------ ConstChoice algebra *)
Lemma choice_to_of_bool b : choice_to_bool (choice_of_bool b) = b.
Proof. destruct b; reflexivity. Qed.
Lemma cc_not_bool b : cc_not (choice_of_bool b) = choice_of_bool (negb b).
Proof. destruct b; reflexivity. Qed.
Lemma cc_and_bool a b : cc_and (choice_of_bool a) (choice_of_bool b) = choice_of_bool (a && b).
Proof. destruct a, b; reflexivity. Qed.
Lemma cc_or_bool a b : cc_or (choice_of_bool a) (choice_of_bool b) = choice_of_bool (a || b).
Proof. destruct a, b; reflexivity. Qed.
Lemma cc_xor_bool a b : cc_xor (choice_of_bool a) (choice_of_bool b) = choice_of_bool (xorb a b).
Proof. destruct a, b; reflexivity. Qed.
Lemma cc_ne_bool a b : cc_ne (choice_of_bool a) (choice_of_bool b) = choice_of_bool (xorb a b).
Proof. apply cc_xor_bool. Qed.
Lemma cc_eq_bool a b : cc_eq (choice_of_bool a) (choice_of_bool b) = choice_of_bool (negb (xorb a b)).
Proof. destruct a, b; reflexivity. Qed.
Lemma ctopt_new_bool {A} (v : A) b : ctopt_new v (choice_of_bool b) = if b then Some v else None.
Proof. unfold ctopt_new. rewrite choice_to_of_bool. reflexivity. Qed.
Lemma is_word_choice b : is_word (choice_of_bool b).
Proof. destruct b; unfold is_word, choice_of_bool; pose proof MAXW_val; pose proof B_gt1; lia. Qed.

(* ------------------------------------------------------------------ Uint helpers over limb lists *)
Lemma eval_zero_iff a : wf a -> (eval a = 0 <-> Forall (fun x => x = 0) a).
Proof.
  induction a as [|x a IH]; intros H; simpl.
  - split; auto.
  - apply wf_cons in H. destruct H as [Hx Ha]. specialize (IH Ha).
    pose proof (eval_nonneg a Ha). unfold is_word in Hx. pose proof B_pos. split.
    + intros E. assert (x = 0 /\ eval a = 0) as [-> E0] by nia. constructor; [reflexivity | apply IH; assumption].
    + intros F. inversion F; subst. apply IH in H4. lia.
Qed.

Lemma fold_wor_spec a : forall acc, wf a -> is_word acc ->
  is_word (fold_left wor a acc) /\ (fold_left wor a acc = 0 <-> acc = 0 /\ Forall (fun x => x = 0) a).
Proof.
  induction a as [|x a IH]; intros acc Ha Hacc; simpl.
  - split; [assumption|]. split; [intros ->; auto | tauto].
  - apply wf_cons in Ha. destruct Ha as [Hx Ha].
    destruct (IH (wor acc x) Ha (is_word_lor _ _ Hacc Hx)) as [Hw Hiff]. split; [assumption|].
    rewrite Hiff. unfold wor. rewrite Z.lor_eq_0_iff. split.
    + intros [[-> ->] F]. split; [reflexivity | constructor; auto].
    + intros [-> F]. inversion F; subst. auto.
Qed.

Lemma ux_is_nonzero_spec a : wf a -> ux_is_nonzero a = choice_of_bool (negb (eval a =? 0)).
Proof.
  intros Ha. unfold ux_is_nonzero.
  destruct (fold_wor_spec a 0 Ha is_word_0) as [Hw Hiff].
  rewrite from_word_nonzero_spec by assumption. f_equal. f_equal.
  apply eq_true_iff_eq. rewrite !Z.eqb_eq, Hiff, eval_zero_iff by assumption. tauto.
Qed.

Lemma fold_xor_spec a : forall b acc, wf a -> wf b -> length a = length b -> is_word acc ->
  let r := fold_left (fun acc p => wor acc (wxor (fst p) (snd p))) (combine a b) acc in
  is_word r /\ (r = 0 <-> acc = 0 /\ a = b).
Proof.
  induction a as [|x a IH]; intros b acc Ha Hb Hl Hacc; destruct b as [|y b]; try discriminate; simpl.
  - split; [assumption|]. split; [intros ->; auto | tauto].
  - apply wf_cons in Ha. destruct Ha as [Hx Ha]. apply wf_cons in Hb. destruct Hb as [Hy Hb].
    simpl in Hl.
    destruct (IH b (wor acc (wxor x y)) Ha Hb ltac:(lia) (is_word_lor _ _ Hacc (is_word_lxor _ _ Hx Hy))) as [Hw Hiff].
    split; [exact Hw|]. cbv zeta in Hiff. rewrite Hiff. unfold wor, wxor.
    rewrite Z.lor_eq_0_iff, Z.lxor_eq_0_iff. split.
    + intros [[-> ->] ->]. auto.
    + intros [-> E]. inversion E; subst. auto.
Qed.

Lemma ux_eq_spec a b : wf a -> wf b -> length a = length b ->
  ux_eq a b = choice_of_bool (eval a =? eval b).
Proof.
  intros Ha Hb Hl. unfold ux_eq.
  destruct (fold_xor_spec a b 0 Ha Hb Hl is_word_0) as [Hw Hiff]. cbv zeta in Hw, Hiff.
  rewrite from_word_nonzero_spec by assumption. rewrite cc_not_bool, negb_involutive. f_equal.
  apply eq_true_iff_eq. rewrite !Z.eqb_eq, Hiff. split.
  - intros [_ ->]. reflexivity.
  - intros E. split; [reflexivity | apply eval_inj; assumption].
Qed.

Lemma ux_gt_spec a b : wf a -> wf b -> length a = length b ->
  ux_gt a b = choice_of_bool (eval b <? eval a).
Proof.
  intros Ha Hb Hl. unfold ux_gt. destruct (sbb_limbs b a 0) as [r bo] eqn:E. cbn [snd].
  pose proof (sbb_limbs_correct b a 0 r bo Hb Ha (eq_sym Hl) is_word_0 E) as (Hw & Hlr & [(Hz & -> & ->)|(Hnz & Hib & He)]).
  - destruct b; [|discriminate]. destruct a; [|discriminate]. reflexivity.
  - rewrite bin_0 in He. pose proof (eval_bounds r Hw) as Hb'. rewrite Hlr in Hb'.
    pose proof (eval_bounds a Ha). pose proof (eval_bounds b Hb). rewrite <- Hl in *.
    destruct Hib as [-> | ->].
    + rewrite bout_0 in He. replace (eval b <? eval a) with false; [reflexivity|]. symmetry. apply Z.ltb_ge. lia.
    + rewrite bout_MAXW in He. replace (eval b <? eval a) with true; [reflexivity|]. symmetry. apply Z.ltb_lt. lia.
Qed.

Lemma ux_lte_spec a b : wf a -> wf b -> length a = length b ->
  ux_lte a b = choice_of_bool (eval a <=? eval b).
Proof.
  intros. unfold ux_lte. rewrite ux_gt_spec, cc_not_bool by assumption. f_equal.
  rewrite Z.leb_antisym. reflexivity.
Qed.

Lemma ux_is_zero_spec a : wf a -> ux_is_zero a = choice_of_bool (eval a =? 0).
Proof.
  intros Ha. unfold ux_is_zero. rewrite ux_eq_spec; auto using wf_zeros.
  - rewrite eval_zeros. reflexivity.
  - rewrite length_zeros. reflexivity.
Qed.

Lemma eval_map_wnot a : wf a -> eval (map wnot a) = Bn (length a) - 1 - eval a /\ wf (map wnot a).
Proof.
  induction a as [|x a IH]; intros H; simpl.
  - rewrite Bn_0. split; [lia | apply wf_nil].
  - apply wf_cons in H. destruct H as [Hx Ha]. destruct (IH Ha) as [IHe IHw].
    rewrite IHe, Bn_S. unfold wnot at 1. pose proof MAXW_val. split; [lia|].
    apply wf_cons. split; [apply is_word_wnot; assumption | assumption].
Qed.

Lemma ux_xor_max_spec a : wf a -> ux_xor_max a = map wnot a.
Proof.
  intros H. unfold ux_xor_max. apply map_ext_in. intros x Hx.
  apply wxor_MAXW. unfold wf in H. rewrite Forall_forall in H. auto.
Qed.

Lemma one_limbs_spec n : n <> 0%nat -> eval (one_limbs n) = 1 /\ wf (one_limbs n) /\ length (one_limbs n) = n.
Proof.
  destruct n; [congruence|]. intros _. simpl. rewrite eval_zeros, length_zeros.
  repeat split; try lia. apply wf_cons. split; [|apply wf_zeros]. unfold is_word. pose proof B_gt1. lia.
Qed.

(* ------------------------------------------------------------------ the signed reading *)
Definition halfB (n : nat) : Z := 2 ^ 63 * Bn (pred n).
Lemma Bn_half n : n <> 0%nat -> Bn n = 2 * halfB n /\ 0 < halfB n.
Proof.
  destruct n; [congruence|]. intros _. unfold halfB. cbn [pred]. rewrite Bn_S.
  pose proof (Bn_pos n). word_facts. split; [lia | apply Z.mul_pos_pos; lia].
Qed.

Lemma seval_cases a : wf a ->
  (2 * eval a < Bn (length a) /\ seval a = eval a) \/
  (Bn (length a) <= 2 * eval a /\ seval a = eval a - Bn (length a)).
Proof.
  intros H. unfold seval. destruct (2 * eval a <? Bn (length a)) eqn:E.
  - apply Z.ltb_lt in E. left. auto.
  - apply Z.ltb_ge in E. right. auto.
Qed.

Lemma seval_range a : wf a -> - Bn (length a) <= 2 * seval a < Bn (length a).
Proof.
  intros H. pose proof (eval_bounds a H). destruct (seval_cases a H) as [[? ->]|[? ->]]; lia.
Qed.

Lemma seval_mod a : wf a -> seval a mod Bn (length a) = eval a.
Proof.
  intros H. pose proof (eval_bounds a H). pose proof (Bn_pos (length a)).
  destruct (seval_cases a H) as [[? ->]|[? ->]].
  - apply Z.mod_small. lia.
  - symmetry. apply (Z.mod_unique_pos _ _ (-1)); lia.
Qed.

Lemma seval_neg a : wf a -> (seval a <? 0) = (Bn (length a) <=? 2 * eval a).
Proof.
  intros H. pose proof (eval_bounds a H). apply eq_true_iff_eq. rewrite Z.ltb_lt, Z.leb_le.
  destruct (seval_cases a H) as [[? ->]|[? ->]]; lia.
Qed.

Lemma seval_nil : seval [] = 0. Proof. reflexivity. Qed.

Lemma eval_to_limbs_s n x : eval (to_limbs_s n x) = x mod Bn n.
Proof. unfold to_limbs_s. rewrite eval_to_limbs. pose proof (Bn_pos n). apply Z.mod_mod. lia. Qed.
Lemma wf_to_limbs_s n x : wf (to_limbs_s n x). Proof. apply wf_to_limbs. Qed.
Lemma length_to_limbs_s n x : length (to_limbs_s n x) = n. Proof. apply length_to_limbs. Qed.

Lemma to_limbs_s_unique n r x : wf r -> length r = n -> eval r = x mod Bn n -> r = to_limbs_s n x.
Proof.
  intros Hw Hl He. unfold to_limbs_s. apply to_limbs_unique; auto.
  pose proof (Bn_pos n). rewrite Z.mod_mod by lia. assumption.
Qed.

Lemma to_limbs_to_limbs_s n x : 0 <= x < Bn n -> to_limbs n x = to_limbs_s n x.
Proof. intros H. unfold to_limbs_s. rewrite Z.mod_small by assumption. reflexivity. Qed.

Lemma to_limbs_mod n x : to_limbs n (x mod Bn n) = to_limbs n x.
Proof.
  apply eval_inj; auto using wf_to_limbs.
  - rewrite !length_to_limbs. reflexivity.
  - rewrite !eval_to_limbs. pose proof (Bn_pos n). apply Z.mod_mod. lia.
Qed.

Lemma to_limbs_s_cong n x y k : x = y + k * Bn n -> to_limbs_s n x = to_limbs_s n y.
Proof. intros ->. unfold to_limbs_s. pose proof (Bn_pos n). rewrite Z.mod_add by lia. reflexivity. Qed.

Lemma seval_to_limbs_s n x : - Bn n <= 2 * x < Bn n -> seval (to_limbs_s n x) = x.
Proof.
  intros Hr. pose proof (Bn_pos n).
  pose proof (seval_cases _ (wf_to_limbs_s n x)) as Hc.
  rewrite length_to_limbs_s, eval_to_limbs_s in Hc.
  destruct (Z_lt_ge_dec x 0).
  - assert (E : x mod Bn n = x + Bn n) by (symmetry; apply (Z.mod_unique_pos _ _ (-1)); lia).
    rewrite E in Hc. destruct Hc as [[? ->]|[? ->]]; lia.
  - assert (E : x mod Bn n = x) by (apply Z.mod_small; lia).
    rewrite E in Hc. destruct Hc as [[? ->]|[? ->]]; lia.
Qed.

Lemma to_limbs_s_seval a : wf a -> to_limbs_s (length a) (seval a) = a.
Proof.
  intros H. symmetry. apply to_limbs_s_unique; auto. symmetry. apply seval_mod. assumption.
Qed.

Lemma isp_fits_iff n x : isp_fits n x = true <-> - Bn n <= 2 * x < Bn n.
Proof. unfold isp_fits. rewrite andb_true_iff, Z.leb_le, Z.ltb_lt. tauto. Qed.
Lemma isp_fits_false n x : isp_fits n x = false <-> (2 * x < - Bn n \/ Bn n <= 2 * x).
Proof. unfold isp_fits. rewrite andb_false_iff, Z.leb_gt, Z.ltb_ge. tauto. Qed.

(* sign bit = top bit of the last limb *)
Lemma msw_sign a : wf a -> a <> [] ->
  is_word (int_msw a) /\ (2 ^ 63 <= int_msw a <-> Bn (length a) <= 2 * eval a).
Proof.
  intros H Hne. unfold int_msw.
  destruct (exists_last Hne) as (ini & top & ->).
  rewrite last_last. apply wf_app in H. destruct H as [Hi Ht]. apply wf_cons in Ht. destruct Ht as [Ht _].
  split; [assumption|].
  rewrite eval_app, app_length, Bn_add. cbn [eval length]. rewrite Bn_1.
  pose proof (eval_bounds ini Hi) as Hb. set (K := Bn (length ini)) in *. set (e := eval ini) in *.
  unfold is_word in Ht. word_facts. replace (top + B * 0) with top by lia.
  split; intros Hc.
  - assert (K * 2 ^ 63 <= K * top) by (apply Z.mul_le_mono_nonneg_l; lia). lia.
  - destruct (Z_lt_ge_dec top (2 ^ 63)); [|lia]. exfalso.
    assert (K * top <= K * (2 ^ 63 - 1)) by (apply Z.mul_le_mono_nonneg_l; lia). lia.
Qed.

Lemma int_is_negative_spec a : wf a -> int_is_negative a = choice_of_bool (seval a <? 0).
Proof.
  intros H. destruct a as [|x a'] eqn:Ea; [reflexivity|]. rewrite <- Ea in *.
  assert (Hne : a <> []) by (subst; discriminate).
  destruct (msw_sign a H Hne) as [Hw Hiff]. unfold int_is_negative.
  rewrite from_word_msb_spec by assumption. f_equal. rewrite seval_neg by assumption.
  apply eq_true_iff_eq. rewrite !Z.leb_le. assumption.
Qed.

(* ------------------------------------------------------------------ add / sub / neg *)
Lemma seval_shift a : wf a -> exists k, eval a = seval a + k * Bn (length a).
Proof.
  intros H. destruct (seval_cases a H) as [[_ ->]|[_ ->]]; [exists 0 | exists 1]; lia.
Qed.

Lemma wrapping_sub_spec a b : wf a -> wf b -> length a = length b ->
  eval (uint_wrapping_sub a b) = (eval a - eval b) mod Bn (length a) /\ wf (uint_wrapping_sub a b)
  /\ length (uint_wrapping_sub a b) = length a.
Proof.
  intros Ha Hb Hl. unfold uint_wrapping_sub. destruct (sbb_limbs a b 0) as [r bo] eqn:E. cbn [fst].
  pose proof (sbb_limbs_correct a b 0 r bo Ha Hb Hl is_word_0 E) as (Hw & Hlr & [(Hz & -> & ->)|(Hnz & Hib & He)]).
  - destruct a; [|discriminate]. destruct b; [|discriminate]. simpl. rewrite Bn_0. repeat split; auto.
  - rewrite bin_0 in He. pose proof (eval_bounds r Hw) as Hb'. rewrite Hlr in Hb'.
    pose proof (Bn_pos (length a)). repeat split; auto.
    destruct Hib as [-> | ->].
    + rewrite bout_0 in He. apply (Z.mod_unique_pos _ _ 0); lia.
    + rewrite bout_MAXW in He. apply (Z.mod_unique_pos _ _ (-1)); lia.
Qed.

Lemma wrapping_add_signed a b : wf a -> wf b -> length a = length b ->
  uint_wrapping_add a b = to_limbs_s (length a) (seval a + seval b).
Proof.
  intros Ha Hb Hl. destruct (wrapping_add_spec a b Ha Hb Hl) as (He & Hw & Hlr).
  apply to_limbs_s_unique; auto. rewrite He.
  destruct (seval_shift a Ha) as [ka Ea]. destruct (seval_shift b Hb) as [kb Eb]. rewrite <- Hl in Eb.
  rewrite Ea, Eb. pose proof (Bn_pos (length a)).
  replace (seval a + ka * Bn (length a) + (seval b + kb * Bn (length a)))
    with (seval a + seval b + (ka + kb) * Bn (length a)) by ring.
  apply Z.mod_add. lia.
Qed.

Lemma wrapping_sub_signed a b : wf a -> wf b -> length a = length b ->
  uint_wrapping_sub a b = to_limbs_s (length a) (seval a - seval b).
Proof.
  intros Ha Hb Hl. destruct (wrapping_sub_spec a b Ha Hb Hl) as (He & Hw & Hlr).
  apply to_limbs_s_unique; auto. rewrite He.
  destruct (seval_shift a Ha) as [ka Ea]. destruct (seval_shift b Hb) as [kb Eb]. rewrite <- Hl in Eb.
  rewrite Ea, Eb. pose proof (Bn_pos (length a)).
  replace (seval a + ka * Bn (length a) - (seval b + kb * Bn (length a)))
    with (seval a - seval b + (ka - kb) * Bn (length a)) by ring.
  apply Z.mod_add. lia.
Qed.

(* two's complement wrap-around of a value at most one modulus outside the range *)
Lemma swrap_cases n x : - 2 * Bn n <= 2 * x < 2 * Bn n ->
  let R := seval (to_limbs_s n x) in
  (2 * x < - Bn n /\ R = x + Bn n) \/ (- Bn n <= 2 * x < Bn n /\ R = x) \/ (Bn n <= 2 * x /\ R = x - Bn n).
Proof.
  intros Hr R. unfold R. pose proof (Bn_pos n).
  destruct (Z_lt_ge_dec (2 * x) (- Bn n)); [left | destruct (Z_lt_ge_dec (2 * x) (Bn n)); [right; left | right; right]].
  - split; [assumption|]. rewrite (to_limbs_s_cong n x (x + Bn n) (-1)) by lia. apply seval_to_limbs_s. lia.
  - split; [lia|]. apply seval_to_limbs_s. lia.
  - split; [lia|]. rewrite (to_limbs_s_cong n x (x - Bn n) 1) by lia. apply seval_to_limbs_s. lia.
Qed.

Ltac zb := repeat match goal with
  | |- context [?x <? ?y] => destruct (Z.ltb_spec x y)
  | |- context [?x <=? ?y] => destruct (Z.leb_spec x y)
  | |- context [?x =? ?y] => destruct (Z.eqb_spec x y)
  end.

Lemma int_overflowing_add_spec a b : wf a -> wf b -> length a = length b ->
  int_overflowing_add a b =
    (to_limbs_s (length a) (seval a + seval b),
     choice_of_bool (negb (isp_fits (length a) (seval a + seval b)))).
Proof.
  intros Ha Hb Hl. unfold int_overflowing_add.
  rewrite wrapping_add_signed by assumption.
  rewrite !int_is_negative_spec by auto using wf_to_limbs_s.
  rewrite cc_eq_bool, cc_ne_bool, cc_and_bool. f_equal. f_equal.
  pose proof (seval_range a Ha) as Ra. pose proof (seval_range b Hb) as Rb. rewrite <- Hl in Rb.
  set (n := length a) in *. set (A := seval a) in *. set (Bv := seval b) in *.
  pose proof (swrap_cases n (A + Bv) ltac:(lia)) as Hc. cbv zeta in Hc.
  set (R := seval (to_limbs_s n (A + Bv))) in *. unfold isp_fits.
  pose proof (Bn_pos n).
  destruct Hc as [[H1 H2]|[[H1 H2]|[H1 H2]]]; zb; try reflexivity; lia.
Qed.

Lemma int_checked_add_spec a b : wf a -> wf b -> length a = length b ->
  int_checked_add a b =
    if isp_fits (length a) (seval a + seval b) then Some (to_limbs_s (length a) (seval a + seval b)) else None.
Proof.
  intros. unfold int_checked_add. rewrite int_overflowing_add_spec by assumption.
  rewrite cc_not_bool, negb_involutive, ctopt_new_bool. reflexivity.
Qed.

Lemma int_wrapping_add_spec a b : wf a -> wf b -> length a = length b ->
  int_wrapping_add a b = to_limbs_s (length a) (seval a + seval b).
Proof. apply wrapping_add_signed. Qed.

Lemma int_checked_sub_spec a b : wf a -> wf b -> length a = length b ->
  int_checked_sub a b =
    if isp_fits (length a) (seval a - seval b) then Some (to_limbs_s (length a) (seval a - seval b)) else None.
Proof.
  intros Ha Hb Hl. unfold int_checked_sub.
  rewrite wrapping_sub_signed by assumption.
  rewrite !int_is_negative_spec by auto using wf_to_limbs_s.
  rewrite !cc_ne_bool, cc_and_bool, cc_not_bool, ctopt_new_bool.
  pose proof (seval_range a Ha) as Ra. pose proof (seval_range b Hb) as Rb. rewrite <- Hl in Rb.
  set (n := length a) in *. set (A := seval a) in *. set (Bv := seval b) in *.
  pose proof (swrap_cases n (A - Bv) ltac:(lia)) as Hc. cbv zeta in Hc.
  set (R := seval (to_limbs_s n (A - Bv))) in *. unfold isp_fits.
  pose proof (Bn_pos n).
  destruct Hc as [[H1 H2]|[[H1 H2]|[H1 H2]]]; zb; try reflexivity; lia.
Qed.

Lemma int_wrapping_sub_spec a b : wf a -> wf b -> length a = length b ->
  int_wrapping_sub a b = to_limbs_s (length a) (seval a - seval b).
Proof. apply wrapping_sub_signed. Qed.

Lemma seval_complement a : wf a -> a <> [] -> seval (map wnot a) = - seval a - 1.
Proof.
  intros H Hne. destruct (eval_map_wnot a H) as [He Hw].
  assert (Hn : length a <> 0%nat) by (destruct a; [congruence | discriminate]).
  destruct (Bn_half _ Hn) as [HM HH].
  pose proof (eval_bounds a H).
  pose proof (seval_cases _ Hw) as Hc. rewrite map_length, He in Hc.
  destruct (seval_cases a H) as [[? ->]|[? ->]]; destruct Hc as [[? ->]|[? ->]]; lia.
Qed.

Lemma seval_one n : n <> 0%nat -> seval (one_limbs n) = 1.
Proof.
  intros Hn. destruct (one_limbs_spec n Hn) as (He & Hw & Hl).
  destruct (Bn_half _ Hn) as [HM HH].
  assert (2 <= halfB n).
  { unfold halfB. pose proof (Bn_pos (pred n)). word_facts.
    assert (2 ^ 63 * 1 <= 2 ^ 63 * Bn (pred n)) by (apply Z.mul_le_mono_nonneg_l; lia). lia. }
  destruct (seval_cases _ Hw) as [[? ->]|[? ->]]; rewrite ?Hl, ?He in *; lia.
Qed.

Lemma int_overflowing_neg_spec a : wf a ->
  int_overflowing_neg a =
    (to_limbs_s (length a) (- seval a), choice_of_bool (negb (isp_fits (length a) (- seval a)))).
Proof.
  intros H. destruct a as [|x a'] eqn:Ea; [vm_compute; reflexivity|]. rewrite <- Ea in *.
  assert (Hne : a <> []) by (subst; discriminate).
  assert (Hn : length a <> 0%nat) by (subst; discriminate).
  unfold int_overflowing_neg. rewrite ux_xor_max_spec by assumption.
  destruct (eval_map_wnot a H) as [_ Hw]. destruct (one_limbs_spec _ Hn) as (_ & Hw1 & Hl1).
  rewrite int_overflowing_add_spec by (auto; rewrite map_length, Hl1; reflexivity).
  rewrite map_length, seval_complement, seval_one by assumption.
  replace (- seval a - 1 + 1) with (- seval a) by lia. reflexivity.
Qed.

Lemma int_wrapping_neg_spec a : wf a -> int_wrapping_neg a = to_limbs_s (length a) (- seval a).
Proof. intros. unfold int_wrapping_neg. rewrite int_overflowing_neg_spec by assumption. reflexivity. Qed.

Lemma int_checked_neg_spec a : wf a ->
  int_checked_neg a = if isp_fits (length a) (- seval a) then Some (to_limbs_s (length a) (- seval a)) else None.
Proof.
  intros. unfold int_checked_neg. rewrite int_overflowing_neg_spec by assumption.
  rewrite cc_not_bool, negb_involutive, ctopt_new_bool. reflexivity.
Qed.

(* negation overflows exactly for MIN *)
Lemma neg_fits_iff a : wf a -> a <> [] -> (isp_fits (length a) (- seval a) = false <-> 2 * seval a = - Bn (length a)).
Proof. intros H Hne. pose proof (seval_range a H). rewrite isp_fits_false. lia. Qed.

(* conditional negation of any encoding *)
Lemma uint_wrapping_neg_spec a : wf a ->
  eval (uint_wrapping_neg a) = (- eval a) mod Bn (length a) /\ wf (uint_wrapping_neg a) /\
  length (uint_wrapping_neg a) = length a.
Proof.
  intros Ha. unfold uint_wrapping_neg. destruct (neg_limbs a 1) as [r co] eqn:E. cbn [fst].
  pose proof (neg_limbs_correct a 1 r co Ha ltac:(lia) E) as (He & Hw & Hlr & Hco).
  pose proof (eval_bounds r Hw) as Hb'. rewrite Hlr in Hb'. pose proof (eval_bounds a Ha).
  pose proof (Bn_pos (length a)). repeat split; auto.
  assert (co = 0 \/ co = 1) as [-> | ->] by lia.
  - apply (Z.mod_unique_pos _ _ (-1)); lia.
  - apply (Z.mod_unique_pos _ _ 0); lia.
Qed.

Lemma neg_if_encodes a x (b : bool) : wf a -> eval a = x mod Bn (length a) ->
  uint_wrapping_neg_if a (choice_of_bool b) = to_limbs_s (length a) (if b then - x else x).
Proof.
  intros Ha Hx. unfold uint_wrapping_neg_if.
  destruct (uint_wrapping_neg_spec a Ha) as (He & Hw & Hl).
  rewrite select_limbs_choice by auto. destruct b.
  - apply to_limbs_s_unique; auto. rewrite He, Hx. pose proof (Bn_pos (length a)).
    rewrite (Z.mod_eq x (Bn (length a))) by lia.
    replace (- (x - Bn (length a) * (x / Bn (length a)))) with (- x + (x / Bn (length a)) * Bn (length a)) by ring.
    apply Z.mod_add. lia.
  - apply to_limbs_s_unique; auto.
Qed.

Lemma int_wrapping_neg_if_spec a (b : bool) : wf a ->
  int_wrapping_neg_if a (choice_of_bool b) = to_limbs_s (length a) (if b then - seval a else seval a).
Proof.
  intros Ha. unfold int_wrapping_neg_if. apply neg_if_encodes; auto. symmetry. apply seval_mod. assumption.
Qed.

Lemma abs_bound a : wf a -> 0 <= Z.abs (seval a) < Bn (length a) /\ 2 * Z.abs (seval a) <= Bn (length a).
Proof. intros H. pose proof (seval_range a H). pose proof (Bn_pos (length a)). lia. Qed.

Lemma int_abs_sign_spec a : wf a ->
  int_abs_sign a = (to_limbs (length a) (Z.abs (seval a)), choice_of_bool (seval a <? 0)).
Proof.
  intros Ha. unfold int_abs_sign. rewrite int_is_negative_spec by assumption. f_equal.
  rewrite int_wrapping_neg_if_spec by assumption.
  rewrite to_limbs_to_limbs_s by (apply abs_bound; assumption). f_equal.
  destruct (Z.ltb_spec (seval a) 0); lia.
Qed.

Lemma int_abs_spec a : wf a -> int_abs a = to_limbs (length a) (Z.abs (seval a)).
Proof. intros. unfold int_abs. rewrite int_abs_sign_spec by assumption. reflexivity. Qed.

Lemma eval_abs a : wf a -> eval (to_limbs (length a) (Z.abs (seval a))) = Z.abs (seval a).
Proof. intros H. apply to_limbs_small. apply abs_bound. assumption. Qed.

(* ------------------------------------------------------------------ MIN / MAX, fit test *)
Lemma int_max_limbs_spec n : n <> 0%nat ->
  eval (int_max_limbs n) = halfB n - 1 /\ wf (int_max_limbs n) /\ length (int_max_limbs n) = n.
Proof.
  destruct n; [congruence|]. intros _. unfold int_max_limbs, halfB. cbn [pred].
  rewrite eval_app, eval_maxs, length_maxs, app_length, length_maxs. cbn [eval length].
  word_facts. repeat split; try lia.
  apply wf_app. split; [apply wf_maxs|]. apply wf_cons. split; [unfold is_word; lia | apply wf_nil].
Qed.

Lemma int_min_limbs_spec n : n <> 0%nat ->
  eval (int_min_limbs n) = halfB n /\ wf (int_min_limbs n) /\ length (int_min_limbs n) = n.
Proof.
  destruct n; [congruence|]. intros _. unfold int_min_limbs, halfB. cbn [pred].
  rewrite eval_app, eval_zeros, length_zeros, app_length, length_zeros. cbn [eval length].
  word_facts. repeat split; try lia.
  apply wf_app. split; [apply wf_zeros|]. apply wf_cons. split; [unfold is_word; lia | apply wf_nil].
Qed.

Lemma int_new_from_abs_sign_spec ab (b : bool) : wf ab ->
  let x := if b then - eval ab else eval ab in
  int_new_from_abs_sign ab (choice_of_bool b) =
    if isp_fits (length ab) x then Some (to_limbs_s (length ab) x) else None.
Proof.
  intros Ha. destruct ab as [|w ab'] eqn:Eab.
  { destruct b; vm_compute; reflexivity. }
  rewrite <- Eab in *. intros x. assert (Hn : length ab <> 0%nat) by (subst; discriminate).
  unfold int_new_from_abs_sign.
  destruct (int_max_limbs_spec _ Hn) as (Emax & Wmax & Lmax).
  destruct (int_min_limbs_spec _ Hn) as (Emin & Wmin & Lmin).
  destruct (Bn_half _ Hn) as [HM HH]. pose proof (eval_bounds ab Ha) as Hb.
  rewrite ux_lte_spec, ux_eq_spec by auto. rewrite Emax, Emin.
  rewrite cc_and_bool, cc_or_bool, ctopt_new_bool.
  unfold int_wrapping_neg_if. rewrite (neg_if_encodes ab (eval ab)) by (auto; symmetry; apply Z.mod_small; assumption).
  fold x. unfold isp_fits, x. destruct b; cbn [andb orb]; zb; try reflexivity; lia.
Qed.

Lemma int_is_min_spec a : wf a -> a <> [] -> int_is_min a = choice_of_bool (2 * seval a =? - Bn (length a)).
Proof.
  intros Ha Hne. assert (Hn : length a <> 0%nat) by (destruct a; [congruence | discriminate]).
  unfold int_is_min. destruct (int_min_limbs_spec _ Hn) as (Emin & Wmin & Lmin).
  rewrite ux_eq_spec by auto. rewrite Emin. f_equal.
  destruct (Bn_half _ Hn) as [HM HH]. pose proof (eval_bounds a Ha).
  destruct (seval_cases a Ha) as [[? ->]|[? ->]]; zb; try reflexivity; lia.
Qed.

Lemma int_is_max_spec a : wf a -> a <> [] -> int_is_max a = choice_of_bool (2 * seval a =? Bn (length a) - 2).
Proof.
  intros Ha Hne. assert (Hn : length a <> 0%nat) by (destruct a; [congruence | discriminate]).
  unfold int_is_max. destruct (int_max_limbs_spec _ Hn) as (Emax & Wmax & Lmax).
  rewrite ux_eq_spec by auto. rewrite Emax. f_equal.
  destruct (Bn_half _ Hn) as [HM HH]. pose proof (eval_bounds a Ha).
  destruct (seval_cases a Ha) as [[? ->]|[? ->]]; zb; try reflexivity; lia.
Qed.

Lemma int_is_positive_spec a : wf a -> int_is_positive a = choice_of_bool (0 <? seval a).
Proof.
  intros Ha. unfold int_is_positive. rewrite int_is_negative_spec, ux_is_nonzero_spec by assumption.
  rewrite cc_not_bool, cc_and_bool. f_equal.
  pose proof (eval_bounds a Ha). pose proof (Bn_pos (length a)).
  destruct (seval_cases a Ha) as [[? E]|[? E]]; rewrite E; zb; try reflexivity; lia.
Qed.

(* ------------------------------------------------------------------ multiplication *)
Lemma mul_sign A Bv :
  (if xorb (A <? 0) (Bv <? 0) then - (Z.abs A * Z.abs Bv) else Z.abs A * Z.abs Bv) = A * Bv.
Proof.
  destruct (Z.ltb_spec A 0), (Z.ltb_spec Bv 0); cbn [xorb];
    rewrite ?(Z.abs_neq A), ?(Z.abs_eq A), ?(Z.abs_neq Bv), ?(Z.abs_eq Bv) by lia; ring.
Qed.
Lemma mul_sign_u A e : (if A <? 0 then - (Z.abs A * e) else Z.abs A * e) = A * e.
Proof. destruct (Z.ltb_spec A 0); rewrite ?(Z.abs_neq A), ?(Z.abs_eq A) by lia; ring. Qed.

Lemma high_part n m p : 0 <= p < Bn n * Bn m -> 0 <= p / Bn n < Bn m.
Proof.
  intros H. pose proof (Bn_pos n). split; [apply Z.div_pos; lia|].
  apply Z.div_lt_upper_bound; lia.
Qed.

Lemma eval_lo_hi n m p : 0 <= p < Bn n * Bn m ->
  eval (to_limbs n p ++ to_limbs m (p / Bn n)) = p.
Proof.
  intros H. rewrite eval_app, length_to_limbs, !eval_to_limbs.
  rewrite (Z.mod_small (p / Bn n)) by (apply high_part; assumption).
  pose proof (Bn_pos n). rewrite (Z.div_mod p (Bn n)) at 3 by lia. lia.
Qed.

Lemma fit_product_spec n m p (b : bool) : 0 <= p < Bn n * Bn m ->
  int_fit_product (to_limbs n p, to_limbs m (p / Bn n), choice_of_bool b) =
    if isp_fits n (if b then - p else p) then Some (to_limbs_s n (if b then - p else p)) else None.
Proof.
  intros Hp. unfold int_fit_product.
  pose proof (int_new_from_abs_sign_spec (to_limbs n p) b (wf_to_limbs n p)) as E. cbv zeta in E.
  rewrite length_to_limbs, eval_to_limbs in E. rewrite E. clear E.
  pose proof (Bn_pos n). pose proof (Bn_pos m). pose proof (high_part n m p Hp) as Hh.
  destruct (Z_lt_ge_dec p (Bn n)) as [Hs|Hl].
  - rewrite (Z.mod_small p (Bn n)) by lia.
    destruct (isp_fits n (if b then - p else p)); [|reflexivity].
    rewrite ux_is_zero_spec by apply wf_to_limbs. rewrite eval_to_limbs, ctopt_new_bool.
    rewrite (Z.div_small p (Bn n)) by lia. rewrite Z.mod_0_l by lia. reflexivity.
  - assert (Hq : 1 <= p / Bn n) by (apply Z.div_le_lower_bound; lia).
    replace (isp_fits n (if b then - p else p)) with false
      by (symmetry; apply isp_fits_false; destruct b; lia).
    destruct (isp_fits n _); [|reflexivity].
    rewrite ux_is_zero_spec by apply wf_to_limbs. rewrite eval_to_limbs, ctopt_new_bool.
    rewrite (Z.mod_small (p / Bn n)) by lia.
    replace (p / Bn n =? 0) with false by (symmetry; apply Z.eqb_neq; lia). reflexivity.
Qed.

Lemma abs_mul_bound a b : wf a -> wf b ->
  0 <= Z.abs (seval a) * Z.abs (seval b) < Bn (length a) * Bn (length b).
Proof.
  intros Ha Hb. destruct (abs_bound a Ha) as [? _]. destruct (abs_bound b Hb) as [? _].
  split; [apply Z.mul_nonneg_nonneg; lia | apply Z.mul_lt_mono_nonneg; lia].
Qed.
Lemma abs_umul_bound a b : wf a -> wf b ->
  0 <= Z.abs (seval a) * eval b < Bn (length a) * Bn (length b).
Proof.
  intros Ha Hb. destruct (abs_bound a Ha) as [? _]. pose proof (eval_bounds b Hb).
  split; [apply Z.mul_nonneg_nonneg; lia | apply Z.mul_lt_mono_nonneg; lia].
Qed.

Lemma int_split_mul_spec a b : wf a -> wf b ->
  let p := Z.abs (seval a) * Z.abs (seval b) in
  int_split_mul a b = (to_limbs (length a) p, to_limbs (length b) (p / Bn (length a)),
                       choice_of_bool (xorb (seval a <? 0) (seval b <? 0))).
Proof.
  intros Ha Hb p. unfold int_split_mul. rewrite !int_abs_sign_spec by assumption.
  unfold ux_split_mul. rewrite !length_to_limbs, !eval_abs, cc_xor_bool by assumption. reflexivity.
Qed.

Lemma int_split_mul_uint_spec a b : wf a -> wf b ->
  let p := Z.abs (seval a) * eval b in
  int_split_mul_uint a b = (to_limbs (length a) p, to_limbs (length b) (p / Bn (length a)),
                            choice_of_bool (seval a <? 0)).
Proof.
  intros Ha Hb p. unfold int_split_mul_uint. rewrite !int_abs_sign_spec by assumption.
  unfold ux_split_mul. rewrite !length_to_limbs, !eval_abs by assumption. reflexivity.
Qed.

Lemma int_split_mul_uint_right_spec a b : wf a -> wf b ->
  let p := eval b * Z.abs (seval a) in
  int_split_mul_uint_right a b = (to_limbs (length b) p, to_limbs (length a) (p / Bn (length b)),
                                  choice_of_bool (seval a <? 0)).
Proof.
  intros Ha Hb p. unfold int_split_mul_uint_right. rewrite !int_abs_sign_spec by assumption.
  unfold ux_split_mul. rewrite !length_to_limbs, !eval_abs by assumption. reflexivity.
Qed.

Lemma int_checked_mul_spec a b : wf a -> wf b ->
  int_checked_mul a b =
    if isp_fits (length a) (seval a * seval b) then Some (to_limbs_s (length a) (seval a * seval b)) else None.
Proof.
  intros Ha Hb. unfold int_checked_mul. pose proof (int_split_mul_spec a b Ha Hb) as E. cbv zeta in E.
  rewrite E, fit_product_spec by (apply abs_mul_bound; assumption). rewrite mul_sign. reflexivity.
Qed.

Lemma int_checked_mul_uint_spec a b : wf a -> wf b ->
  int_checked_mul_uint a b =
    if isp_fits (length a) (seval a * eval b) then Some (to_limbs_s (length a) (seval a * eval b)) else None.
Proof.
  intros Ha Hb. unfold int_checked_mul_uint. pose proof (int_split_mul_uint_spec a b Ha Hb) as E. cbv zeta in E.
  rewrite E, fit_product_spec by (apply abs_umul_bound; assumption). rewrite mul_sign_u. reflexivity.
Qed.

Lemma int_checked_mul_uint_right_spec a b : wf a -> wf b ->
  int_checked_mul_uint_right a b =
    if isp_fits (length b) (seval a * eval b) then Some (to_limbs_s (length b) (seval a * eval b)) else None.
Proof.
  intros Ha Hb. unfold int_checked_mul_uint_right.
  pose proof (int_split_mul_uint_right_spec a b Ha Hb) as E. cbv zeta in E.
  rewrite E, fit_product_spec
    by (rewrite (Z.mul_comm (eval b)), (Z.mul_comm (Bn (length b))); apply abs_umul_bound; assumption).
  rewrite (Z.mul_comm (eval b)), mul_sign_u. reflexivity.
Qed.

Lemma widen_neg_if n m p (b : bool) : 0 <= p < Bn n * Bn m ->
  uint_wrapping_neg_if (to_limbs n p ++ to_limbs m (p / Bn n)) (choice_of_bool b) =
    to_limbs_s (n + m) (if b then - p else p).
Proof.
  intros Hp.
  assert (Hl : length (to_limbs n p ++ to_limbs m (p / Bn n)) = (n + m)%nat)
    by (rewrite app_length, !length_to_limbs; reflexivity).
  rewrite <- Hl. apply neg_if_encodes.
  - apply wf_app. split; apply wf_to_limbs.
  - rewrite eval_lo_hi, Hl, Bn_add by assumption. symmetry. apply Z.mod_small. assumption.
Qed.

Lemma int_widening_mul_spec a b : wf a -> wf b ->
  int_widening_mul a b = to_limbs_s (length a + length b) (seval a * seval b).
Proof.
  intros Ha Hb. unfold int_widening_mul. rewrite !int_abs_sign_spec by assumption.
  unfold ux_split_mul. rewrite !length_to_limbs, !eval_abs, cc_xor_bool by assumption.
  rewrite widen_neg_if by (apply abs_mul_bound; assumption). rewrite mul_sign. reflexivity.
Qed.

Lemma int_widening_mul_uint_spec a b : wf a -> wf b ->
  int_widening_mul_uint a b = to_limbs_s (length a + length b) (seval a * eval b).
Proof.
  intros Ha Hb. unfold int_widening_mul_uint. rewrite !int_abs_sign_spec by assumption.
  unfold ux_split_mul. rewrite !length_to_limbs, !eval_abs by assumption.
  rewrite widen_neg_if by (apply abs_umul_bound; assumption). rewrite mul_sign_u. reflexivity.
Qed.

(* the widening product always fits: its signed reading is the exact product *)
Lemma widening_fits a b : wf a -> wf b -> a <> [] -> b <> [] ->
  - Bn (length a + length b) <= 2 * (seval a * seval b) < Bn (length a + length b).
Proof.
  intros Ha Hb Hna Hnb.
  assert (Hla : length a <> 0%nat) by (destruct a; [congruence | discriminate]).
  assert (Hlb : length b <> 0%nat) by (destruct b; [congruence | discriminate]).
  destruct (Bn_half _ Hla) as [HMa HHa]. destruct (Bn_half _ Hlb) as [HMb HHb].
  pose proof (seval_range a Ha) as Ra. pose proof (seval_range b Hb) as Rb.
  rewrite Bn_add, HMa, HMb. rewrite HMa in Ra. rewrite HMb in Rb.
  set (x := seval a) in *. set (y := seval b) in *. set (h := halfB (length a)) in *. set (k := halfB (length b)) in *.
  assert (Z.abs (x * y) <= h * k).
  { rewrite Z.abs_mul. apply Z.mul_le_mono_nonneg; lia. }
  assert (0 < h * k) by (apply Z.mul_pos_pos; lia).
  replace (2 * h * (2 * k)) with (4 * (h * k)) by ring. lia.
Qed.

(* ------------------------------------------------------------------ squares (returned unsigned) *)
Lemma abs_sq A : Z.abs A * Z.abs A = A * A.
Proof. rewrite <- Z.abs_mul. apply Z.abs_eq. apply Z.square_nonneg. Qed.

Lemma sq_bound a : wf a -> 0 <= seval a * seval a < Bn (length a) * Bn (length a).
Proof. intros Ha. rewrite <- abs_sq. apply abs_mul_bound; assumption. Qed.

Lemma ux_square_wide_abs a : wf a ->
  ux_square_wide (int_abs a) =
    (to_limbs (length a) (seval a * seval a), to_limbs (length a) (seval a * seval a / Bn (length a))).
Proof.
  intros Ha. rewrite int_abs_spec by assumption. unfold ux_square_wide.
  rewrite length_to_limbs, eval_abs, abs_sq by assumption. reflexivity.
Qed.

Lemma int_widening_square_spec a : wf a ->
  int_widening_square a = to_limbs (length a + length a) (seval a * seval a).
Proof.
  intros Ha. unfold int_widening_square. rewrite ux_square_wide_abs by assumption.
  pose proof (sq_bound a Ha) as Hp.
  apply eval_inj.
  - apply wf_app. split; apply wf_to_limbs.
  - apply wf_to_limbs.
  - rewrite app_length, !length_to_limbs. reflexivity.
  - rewrite eval_lo_hi by assumption. rewrite eval_to_limbs, Bn_add. symmetry. apply Z.mod_small. assumption.
Qed.

Lemma hi_zero_iff n p : 0 <= p < Bn n * Bn n -> (eval (to_limbs n (p / Bn n)) =? 0) = (p <? Bn n).
Proof.
  intros Hp. pose proof (high_part n n p Hp). pose proof (Bn_pos n).
  rewrite eval_to_limbs, Z.mod_small by assumption.
  destruct (Z.ltb_spec p (Bn n)).
  - rewrite Z.div_small by lia. reflexivity.
  - apply Z.eqb_neq. assert (1 <= p / Bn n) by (apply Z.div_le_lower_bound; lia). lia.
Qed.

Lemma int_checked_square_spec a : wf a ->
  int_checked_square a =
    if seval a * seval a <? Bn (length a) then Some (to_limbs (length a) (seval a * seval a)) else None.
Proof.
  intros Ha. unfold int_checked_square. rewrite ux_square_wide_abs by assumption.
  rewrite ux_eq_spec; auto using wf_to_limbs, wf_zeros; [|rewrite !length_to_limbs, length_zeros; reflexivity].
  rewrite eval_zeros, ctopt_new_bool, hi_zero_iff by (apply sq_bound; assumption). reflexivity.
Qed.

Lemma int_wrapping_square_spec a : wf a ->
  int_wrapping_square a = to_limbs (length a) ((seval a * seval a) mod Bn (length a)).
Proof.
  intros Ha. unfold int_wrapping_square. rewrite ux_square_wide_abs by assumption. cbn [fst].
  symmetry. apply to_limbs_mod.
Qed.

Lemma maxs_to_limbs n : maxs n = to_limbs n (Bn n - 1).
Proof.
  apply eval_inj; auto using wf_maxs, wf_to_limbs.
  - rewrite length_maxs, length_to_limbs. reflexivity.
  - rewrite eval_maxs, eval_to_limbs. pose proof (Bn_pos n). symmetry. apply Z.mod_small. lia.
Qed.

Lemma int_saturating_square_spec a : wf a ->
  int_saturating_square a =
    to_limbs (length a) (if seval a * seval a <? Bn (length a) then seval a * seval a else Bn (length a) - 1).
Proof.
  intros Ha. unfold int_saturating_square. rewrite ux_square_wide_abs by assumption.
  rewrite ux_is_nonzero_spec by apply wf_to_limbs.
  rewrite hi_zero_iff by (apply sq_bound; assumption).
  rewrite select_limbs_choice; auto using wf_to_limbs, wf_maxs; [|rewrite !length_to_limbs, length_maxs; reflexivity].
  rewrite length_to_limbs.
  destruct (seval a * seval a <? Bn (length a)); cbn [negb]; [reflexivity | apply maxs_to_limbs].
Qed.

(* ------------------------------------------------------------------ resize: sign extension / truncation *)
Lemma eval_repeat_MAXW k : eval (repeat MAXW k) = Bn k - 1.
Proof. apply eval_maxs. Qed.

Lemma int_resize_spec t a : wf a -> int_resize t a = to_limbs_s t (seval a).
Proof.
  intros Ha. unfold int_resize. rewrite int_is_negative_spec by assumption.
  rewrite select_word_choice by (unfold is_word; pose proof MAXW_val; pose proof B_gt1; lia).
  destruct (seval_shift a Ha) as [k Ek]. pose proof (Bn_pos t).
  destruct (le_lt_dec t (length a)) as [Hle|Hgt].
  - (* narrowing *)
    replace (t - length a)%nat with 0%nat by lia. cbn [repeat]. rewrite app_nil_r.
    apply to_limbs_s_unique.
    + apply wf_firstn. assumption.
    + apply firstn_length_le. assumption.
    + rewrite eval_firstn by assumption. rewrite Ek.
      replace (length a) with (t + (length a - t))%nat at 1 by lia. rewrite Bn_add.
      replace (seval a + k * (Bn t * Bn (length a - t))) with (seval a + (k * Bn (length a - t)) * Bn t) by ring.
      apply Z.mod_add. lia.
  - (* widening: fill with the sign *)
    rewrite firstn_all2 by lia. set (d := (t - length a)%nat).
    assert (Et : t = (length a + d)%nat) by (unfold d; lia).
    pose proof (Bn_pos (length a)). pose proof (Bn_pos d). pose proof (eval_bounds a Ha) as Hb.
    destruct (seval_cases a Ha) as [[Hc Es]|[Hc Es]].
    + replace (seval a <? 0) with false by (symmetry; apply Z.ltb_ge; lia).
      apply to_limbs_s_unique.
      * apply wf_app. split; [assumption | apply wf_zeros].
      * rewrite app_length, repeat_length. lia.
      * rewrite eval_app. change (repeat 0 d) with (zeros d). rewrite eval_zeros, Es.
        symmetry. rewrite Z.mod_small; [lia|]. rewrite Et, Bn_add.
        assert (Bn (length a) * 1 <= Bn (length a) * Bn d) by (apply Z.mul_le_mono_nonneg_l; lia). lia.
    + replace (seval a <? 0) with true by (symmetry; apply Z.ltb_lt; lia).
      apply to_limbs_s_unique.
      * apply wf_app. split; [assumption | apply wf_maxs].
      * rewrite app_length, repeat_length. lia.
      * rewrite eval_app, eval_repeat_MAXW, Es. rewrite Et at 1. rewrite Bn_add.
        apply (Z.mod_unique_pos _ _ (-1)).
        -- assert (Bn (length a) * 1 <= Bn (length a) * Bn d) by (apply Z.mul_le_mono_nonneg_l; lia). lia.
        -- ring.
Qed.

(* ------------------------------------------------------------------ From<i8..i128> *)
Lemma sext_word_spec bits x : 1 <= bits <= 64 -> 0 <= x < 2 ^ bits ->
  is_word (sext_word bits x) /\ seval [sext_word bits x] = prim_sval bits x.
Proof.
  intros Hb Hx. unfold sext_word, prim_sval, seval, is_word. cbn [eval length]. rewrite Bn_1.
  assert (E : 2 ^ bits = 2 * 2 ^ (bits - 1)).
  { replace bits with (Z.succ (bits - 1)) at 1 by lia. apply Z.pow_succ_r. lia. }
  assert (Hle : 2 ^ (bits - 1) <= 2 ^ 63) by (apply Z.pow_le_mono_r; lia).
  assert (0 < 2 ^ (bits - 1)) by (apply Z.pow_pos_nonneg; lia).
  word_facts.
  destruct (Z.ltb_spec x (2 ^ (bits - 1))).
  - split; [lia|]. replace (2 * (x + B * 0) <? B) with true; [lia|]. symmetry. apply Z.ltb_lt. lia.
  - split; [lia|]. replace (2 * (x + (B - 2 ^ bits) + B * 0) <? B) with false; [lia|]. symmetry. apply Z.ltb_ge. lia.
Qed.

Lemma int_from_prim_spec bits t x : 1 <= bits <= 64 -> 0 <= x < 2 ^ bits ->
  int_from_prim bits t x = to_limbs_s t (prim_sval bits x).
Proof.
  intros Hb Hx. destruct (sext_word_spec bits x Hb Hx) as [Hw Hs]. unfold int_from_prim.
  rewrite int_resize_spec by (apply wf_cons; split; [assumption | apply wf_nil]).
  rewrite Hs. reflexivity.
Qed.

Lemma int_from_i128_spec t lo hi : is_word lo -> is_word hi ->
  int_from_i128 t lo hi = to_limbs_s t (seval [lo; hi]).
Proof.
  intros Hl Hh. unfold int_from_i128. apply int_resize_spec.
  apply wf_cons. split; [assumption|]. apply wf_cons. split; [assumption | apply wf_nil].
Qed.

(* ------------------------------------------------------------------ Checked<Int> chains *)
Definition opt_enc (n : nat) (o : option (list Z)) (s : option Z) : Prop :=
  match o, s with
  | Some r, Some v => r = to_limbs_s n v /\ (- Bn n <= 2 * v < Bn n)
  | None, None => True
  | _, _ => False
  end.

Lemma opt_enc_of_fits n x :
  opt_enc n (if isp_fits n x then Some (to_limbs_s n x) else None) (if isp_fits n x then Some x else None).
Proof.
  destruct (isp_fits n x) eqn:E; cbn; [|exact I]. split; [reflexivity | apply isp_fits_iff; assumption].
Qed.

Lemma opt_enc_some n a : wf a -> length a = n -> opt_enc n (Some a) (Some (seval a)).
Proof.
  intros Ha Hl. cbn. subst n. split; [symmetry; apply to_limbs_s_seval; assumption | apply seval_range; assumption].
Qed.

Lemma int_checked_bin_spec n op xo xs yo ys : opt_enc n xo xs -> opt_enc n yo ys ->
  opt_enc n (int_checked_bin op xo yo) (isp_checked_bin n op xs ys).
Proof.
  intros Hx Hy.
  destruct xo as [r|], xs as [v|]; cbn in Hx; try contradiction; [|exact I].
  destruct yo as [r2|], ys as [v2|]; cbn in Hy; try contradiction; [|exact I].
  destruct Hx as [-> Hv]. destruct Hy as [-> Hv2]. unfold int_checked_bin, isp_checked_bin.
  pose proof (wf_to_limbs_s n v) as Hw. pose proof (length_to_limbs_s n v) as Hlr.
  pose proof (wf_to_limbs_s n v2) as Hw2. pose proof (length_to_limbs_s n v2) as Hlr2.
  pose proof (seval_to_limbs_s n v Hv) as Hs. pose proof (seval_to_limbs_s n v2 Hv2) as Hs2.
  destruct (op =? 0); [|destruct (op =? 1)].
  - rewrite int_checked_add_spec by (auto; lia). rewrite Hlr, Hs, Hs2. apply opt_enc_of_fits.
  - rewrite int_checked_sub_spec by (auto; lia). rewrite Hlr, Hs, Hs2. apply opt_enc_of_fits.
  - rewrite int_checked_mul_spec by auto. rewrite Hlr, Hs, Hs2. apply opt_enc_of_fits.
Qed.

Lemma int_checked_expr_spec shape op1 op2 a b c : wf a -> wf b -> wf c -> length a = length b -> length a = length c ->
  opt_enc (length a) (int_checked_expr shape op1 op2 a b c)
                     (isp_checked_expr (length a) shape op1 op2 (seval a) (seval b) (seval c)).
Proof.
  intros Ha Hb Hc Hl1 Hl2. unfold int_checked_expr, isp_checked_expr.
  pose proof (opt_enc_some (length a) a Ha eq_refl) as Ea.
  pose proof (opt_enc_some (length a) b Hb (eq_sym Hl1)) as Eb.
  pose proof (opt_enc_some (length a) c Hc (eq_sym Hl2)) as Ec.
  destruct (shape =? 0); repeat apply int_checked_bin_spec; assumption.
Qed.

(* ------------------------------------------------------------------ the constants MIN / MAX *)
Lemma int_min_max_values n : n <> 0%nat ->
  2 * seval (int_min_limbs n) = - Bn n /\ 2 * seval (int_max_limbs n) = Bn n - 2.
Proof.
  intros Hn. destruct (int_min_limbs_spec n Hn) as (Emin & Wmin & Lmin).
  destruct (int_max_limbs_spec n Hn) as (Emax & Wmax & Lmax).
  destruct (Bn_half n Hn) as [HM HH].
  destruct (seval_cases _ Wmin) as [[? E1]|[? E1]]; destruct (seval_cases _ Wmax) as [[? E2]|[? E2]];
    rewrite ?Lmin, ?Lmax, ?Emin, ?Emax in *; lia.
Qed.
