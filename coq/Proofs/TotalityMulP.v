(** C11, area mul (Model/Mul.v, owner C03): the panicking `*` forms test the high half of the wide product;
    the table theorems of Proofs/MulApiP.v (model entry = spec entry on well-formed arguments) give the rest. *)
From CB Require Import Model.Limbs Model.AddSub Model.Mul Proofs.WordP Proofs.LimbsP Proofs.MulApiP Proofs.TotalityP.
From Coq Require Import ZArith Lia List String Bool.
Open Scope Z_scope.
Notation length := List.length.

Lemma mul_cover : covers mul_keys ops_mul_model = true.
Proof. vm_compute. reflexivity. Qed.
Lemma mul_quiet : quiet_keys_ok ops_mul_model ops_mul_spec mul_quiet_keys.
Proof. unfold mul_quiet_keys. quiet_tac ops_mul_model ops_mul_spec. Qed.

Lemma key_limb_mul : key_ok ops_mul_model ops_mul_spec mul_ty "limb.mul".
Proof.
  intros dbg a Hwf Hty _. open_typed mul_ty Hty. destruct Hty as [H0 H1].
  pose proof (sarg_word 0 a Hwf) as W0. pose proof (sarg_word 1 a Hwf) as W1.
  pose proof (limb_ops_correct "limb.mul" dbg (sarg 0 a) (sarg 1 a) W0 W1 ltac:(cbn; tauto)) as E.
  assert (Em : run_tab ops_mul_model "limb.mul" dbg a = op_of ops_mul_model "limb.mul" dbg [[sarg 0 a]; [sarg 1 a]])
    by reflexivity.
  assert (Es : run_tab ops_mul_spec "limb.mul" dbg a = op_of ops_mul_spec "limb.mul" dbg [[sarg 0 a]; [sarg 1 a]]).
  { unfold run_tab, op_of. lazy beta iota delta [lookup ops_mul_spec String.eqb Ascii.eqb Bool.eqb].
    unfold sp_prod, ev. unfold ln in H0, H1. rewrite (arg_single 0 a H0), (arg_single 1 a H1). reflexivity. }
  rewrite Em, Es, E. tauto.
Qed.
Lemma key_uint_mul : key_ok ops_mul_model ops_mul_spec mul_ty "uint.mul".
Proof.
  intros dbg a Hwf _ _.
  pose proof (uint_mul_ops_correct "uint.mul" dbg (arg 0 a) (arg 1 a) (wf_arg 0 a Hwf) (wf_arg 1 a Hwf)
    ltac:(cbn; tauto)) as E.
  change (run_tab ops_mul_model "uint.mul" dbg a) with (op_of ops_mul_model "uint.mul" dbg [arg 0 a; arg 1 a]).
  change (run_tab ops_mul_spec "uint.mul" dbg a) with (op_of ops_mul_spec "uint.mul" dbg [arg 0 a; arg 1 a]).
  rewrite E. tauto.
Qed.
Lemma key_boxed_mul_panicking : key_ok ops_mul_model ops_mul_spec mul_ty "boxed.mul_panicking".
Proof.
  intros dbg a Hwf _ _.
  pose proof (boxed_ops_correct "boxed.mul_panicking" dbg (arg 0 a) (arg 1 a) (wf_arg 0 a Hwf) (wf_arg 1 a Hwf)
    ltac:(cbn; tauto)) as E.
  change (run_tab ops_mul_model "boxed.mul_panicking" dbg a)
    with (op_of ops_mul_model "boxed.mul_panicking" dbg [arg 0 a; arg 1 a]).
  change (run_tab ops_mul_spec "boxed.mul_panicking" dbg a)
    with (op_of ops_mul_spec "boxed.mul_panicking" dbg [arg 0 a; arg 1 a]).
  rewrite E. tauto.
Qed.
#[export] Hint Resolve key_limb_mul key_uint_mul key_boxed_mul_panicking : c11keys.

Theorem mul_panics_iff_documented : panics_iff_documented ops_mul_model ops_mul_spec mul_keys mul_ty.
Proof. apply panics_from_parts; [exact mul_quiet | unfold mul_panic_keys; by_keys]. Qed.
Theorem mul_total_forms_never_panic : total_forms_never_panic ops_mul_model mul_total_keys mul_total_ty.
Proof.
  apply (quiet_total _ ops_mul_spec mul_quiet_keys); [exact mul_quiet|]. apply sublist_In. vm_compute. reflexivity.
Qed.

(** the `*` operator on Uint panics exactly on overflow; checked_mul never panics (statement of round 1, kept) *)
Lemma uint_mul_panics_iff x y dbg : wf x -> wf y ->
  (op_of ops_mul_model "uint.mul" dbg [x; y] = PanicV <-> sp_fits (length x) (eval x * eval y) = false) /\
  op_of ops_mul_model "uint.checked_mul" dbg [x; y] <> PanicV.
Proof.
  intros Hx Hy.
  assert (E1 := uint_mul_ops_correct "uint.mul" dbg x y Hx Hy ltac:(simpl; tauto)).
  assert (E2 := uint_mul_ops_correct "uint.checked_mul" dbg x y Hx Hy ltac:(simpl; tauto)).
  rewrite E1, E2. cbn. unfold sp_panicking, sp_checked, sp_prod, ev, ln, arg. cbn [nth length].
  destruct (sp_fits (length x) (eval x * eval y)); split; try split; intros; try discriminate; try reflexivity.
Qed.
