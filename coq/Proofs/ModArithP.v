(** C07 proofs: modular add / sub / neg / double, the special-modulus variants (p = 2^BITS - c),
    mac_by_limb and the HAC 14.47 reduction of mul_mod_special.  All statements for every limb count. *)
From CB Require Import Model.Limbs Model.AddSub Model.Mul Model.Div Model.ModArith
  Proofs.WordP Proofs.LimbsP Proofs.AddSubP Proofs.DivP.
From Coq Require Import ZArith Lia List Bool.
Open Scope Z_scope.

(* ------------------------------------------------------------------ *)
(** * Small arithmetic helpers *)

Lemma mod_once a p : 0 < p -> p <= a < 2 * p -> a mod p = a - p.
Proof. intros Hp Ha. symmetry. apply (Z.mod_unique_pos a p 1); lia. Qed.

Lemma mod_neg_once a p : 0 < p -> - p <= a < 0 -> a mod p = a + p.
Proof. intros Hp Ha. symmetry. apply (Z.mod_unique_pos a p (-1)); lia. Qed.

Lemma is_word_1 : is_word 1. Proof. unfold is_word. pose proof B_gt1. lia. Qed.
Lemma is_word_MAXW : is_word MAXW. Proof. unfold is_word. pose proof B_gt1. pose proof MAXW_val. lia. Qed.
Lemma is_word_01 c : 0 <= c <= 1 -> is_word c.
Proof. unfold is_word. pose proof B_gt1. lia. Qed.
Lemma is_borrow_word b : is_borrow b -> is_word b.
Proof. intros [-> | ->]; [apply is_word_0 | apply is_word_MAXW]. Qed.
Lemma bin_borrow b : is_borrow b -> bin b = bout b.
Proof. intros [-> | ->]; reflexivity. Qed.
Lemma bout_range b : 0 <= bout b <= 1.
Proof. unfold bout. destruct (b =? 0); lia. Qed.

(* ------------------------------------------------------------------ *)
(** * Masks *)

Lemma wand_MAXW_r x : is_word x -> wand x MAXW = x.
Proof. intros H. unfold wand. rewrite Z.land_comm. apply land_MAXW. assumption. Qed.
Lemma wand_0_r x : wand x 0 = 0.
Proof. unfold wand. apply Z.land_0_r. Qed.
Lemma wand_MAXW_l x : is_word x -> wand MAXW x = x.
Proof. intros H. unfold wand. apply land_MAXW. assumption. Qed.
Lemma wand_0_l x : wand 0 x = 0.
Proof. unfold wand. apply Z.land_0_l. Qed.

Lemma wsub_1_1 : wsub 1 1 = 0. Proof. reflexivity. Qed.
Lemma wsub_0_1 : wsub 0 1 = MAXW. Proof. reflexivity. Qed.

Lemma bitand_limb_0 p : bitand_limb p 0 = zeros (length p).
Proof.
  unfold bitand_limb, zeros. induction p as [|x p IH]; [reflexivity|].
  cbn [map length repeat]. rewrite wand_0_r, IH. reflexivity.
Qed.
Lemma bitand_limb_MAXW p : wf p -> bitand_limb p MAXW = p.
Proof.
  unfold bitand_limb. induction p as [|x p IH]; intros H; [reflexivity|].
  apply wf_cons in H. destruct H as [Hx Hp]. cbn [map]. rewrite wand_MAXW_r, IH by assumption. reflexivity.
Qed.

(** masking with a borrow word (0 or MAX) keeps or clears the operand *)
Lemma bitand_limb_borrow p m : wf p -> is_borrow m ->
  eval (bitand_limb p m) = eval p * bout m /\ wf (bitand_limb p m) /\ length (bitand_limb p m) = length p.
Proof.
  intros Hp [-> | ->].
  - rewrite bitand_limb_0, eval_zeros, length_zeros, bout_0. repeat split; [lia | apply wf_zeros].
  - rewrite bitand_limb_MAXW, bout_MAXW by assumption. repeat split; [lia | assumption].
Qed.

(** the mask of add_mod / double_mod: sbb(carry, 0, borrow).1 is set iff carry = 0 and borrow is set *)
Lemma carry_borrow_mask carry borrow r mask :
  0 <= carry <= 1 -> is_borrow borrow -> sbb carry 0 borrow = (r, mask) ->
  is_borrow mask /\ bout mask = (if carry =? 0 then bout borrow else 0).
Proof.
  intros Hc Hb E.
  pose proof (sbb_exact carry 0 borrow r mask (is_word_01 _ Hc) is_word_0 (is_borrow_word _ Hb) E) as (Hr & Hcase).
  rewrite (bin_borrow _ Hb) in Hcase. unfold is_word in Hr. pose proof B_gt1.
  destruct Hb as [-> | ->]; rewrite ?bout_0, ?bout_MAXW in *.
  - destruct Hcase as [[-> Hv]|[-> Hv]]; [|lia]. split; [left; reflexivity|]. rewrite bout_0. destruct (carry =? 0); reflexivity.
  - assert (carry = 0 \/ carry = 1) as [-> | ->] by lia.
    + destruct Hcase as [[-> Hv]|[-> Hv]]; [lia|]. split; [right; reflexivity|]. rewrite bout_MAXW. reflexivity.
    + destruct Hcase as [[-> Hv]|[-> Hv]]; [|lia]. split; [left; reflexivity|]. rewrite bout_0. reflexivity.
Qed.

(* ------------------------------------------------------------------ *)
(** * add_mod, double_mod *)

(** common tail: the (n+1)-limb value V = eval w + 2^BITS * carry, V < 2p, is reduced to V mod p *)
Lemma add_mod_tail_correct w carry p :
  wf w -> wf p -> length w = length p -> 0 <= carry <= 1 ->
  0 <= eval w + Bn (length w) * carry < 2 * eval p ->
  eval (add_mod_tail w carry p) = (eval w + Bn (length w) * carry) mod eval p
  /\ wf (add_mod_tail w carry p) /\ length (add_mod_tail w carry p) = length w.
Proof.
  intros Hw Hp Hl Hc HV. unfold add_mod_tail.
  destruct (sbb_limbs w p 0) as [w1 borrow] eqn:E1.
  destruct (sbb carry 0 borrow) as [r mask] eqn:E2.
  pose proof (sbb_limbs_correct w p 0 w1 borrow Hw Hp Hl is_word_0 E1) as (Hw1 & Hl1 & [(Hz & _)|(Hnz & Hib & He)]).
  - destruct w; [|discriminate]. destruct p; [|discriminate]. simpl in HV. rewrite Bn_0 in HV. lia.
  - rewrite bin_0 in He.
    pose proof (carry_borrow_mask carry borrow r mask Hc Hib E2) as (Him & Hbm).
    pose proof (bitand_limb_borrow p mask Hp Him) as (Hpe & Hpw & Hpl).
    pose proof (wrapping_add_spec w1 (bitand_limb p mask) Hw1 Hpw ltac:(lia)) as (Hre & Hrw & Hrl).
    split; [|split; [assumption | lia]].
    rewrite Hre, Hpe, Hbm, Hl1.
    pose proof (eval_bounds w Hw) as Bw. pose proof (eval_bounds p Hp) as Bp. pose proof (eval_bounds w1 Hw1) as Bw1.
    rewrite Hl1 in Bw1. rewrite <- Hl in Bp. set (N := Bn (length w)) in *.
    assert (carry = 0 \/ carry = 1) as [-> | ->] by lia.
    + change (0 =? 0) with true. cbv iota.
      destruct Hib as [-> | ->]; rewrite ?bout_0, ?bout_MAXW in *.
      * (* w >= p *) replace (eval w + N * 0) with (eval w) by lia.
        rewrite (mod_once (eval w)) by lia. rewrite Z.mod_small by lia. lia.
      * (* w < p : add p back *) replace (eval w + N * 0) with (eval w) by lia.
        rewrite (Z.mod_small (eval w)) by lia.
        symmetry. apply (Z.mod_unique_pos _ N 1); lia.
    + change (1 =? 0) with false. cbv iota.
      destruct Hib as [-> | ->]; rewrite ?bout_0, ?bout_MAXW in *.
      * (* impossible: w >= p and w + N < 2p *) lia.
      * rewrite (mod_once (eval w + N * 1)) by lia. rewrite Z.mod_small by lia. lia.
Qed.

Theorem add_mod_correct a b p :
  wf a -> wf b -> wf p -> length a = length b -> length a = length p ->
  eval a < eval p -> eval b < eval p ->
  eval (add_mod a b p) = (eval a + eval b) mod eval p
  /\ wf (add_mod a b p) /\ length (add_mod a b p) = length a.
Proof.
  intros Ha Hb Hp Hlb Hlp Hap Hbp. unfold add_mod.
  destruct (adc_limbs a b 0) as [w carry] eqn:E.
  pose proof (adc_limbs_correct a b 0 w carry Ha Hb Hlb is_word_0 E) as (He & Hw & Hlw & Hco & Hsm).
  unfold is_word in Hco. specialize (Hsm ltac:(lia)).
  pose proof (eval_nonneg a Ha). pose proof (eval_nonneg b Hb).
  pose proof (add_mod_tail_correct w carry p Hw Hp ltac:(lia) ltac:(lia)) as H1.
  rewrite Hlw in H1. specialize (H1 ltac:(lia)). destruct H1 as (H1 & H2 & H3).
  rewrite H1. split; [f_equal; lia | split; assumption].
Qed.

Lemma shl1_val_correct a w carry : wf a -> shl1_val a = (w, carry) ->
  eval w + Bn (length a) * carry = 2 * eval a /\ wf w /\ length w = length a /\ 0 <= carry <= 1.
Proof.
  intros Ha E. unfold shl1_val in E. inv_pair E.
  pose proof (eval_bounds a Ha) as Ba. pose proof (Bn_pos (length a)) as HN. set (N := Bn (length a)) in *.
  rewrite eval_to_limbs, Z.mod_mod by lia. fold N.
  pose proof (Z.div_mod (2 * eval a) N ltac:(lia)). pose proof (Z.mod_pos_bound (2 * eval a) N ltac:(lia)).
  repeat split; try lia.
  - apply wf_to_limbs.
  - apply length_to_limbs.
  - apply Z.div_pos; lia.
  - apply Z.lt_succ_r. apply Z.div_lt_upper_bound; lia.
Qed.

Theorem double_mod_correct a p :
  wf a -> wf p -> length a = length p -> eval a < eval p ->
  eval (double_mod a p) = (2 * eval a) mod eval p
  /\ wf (double_mod a p) /\ length (double_mod a p) = length a.
Proof.
  intros Ha Hp Hlp Hap. unfold double_mod.
  destruct (shl1_val a) as [w carry] eqn:E.
  pose proof (shl1_val_correct a w carry Ha E) as (He & Hw & Hlw & Hc).
  pose proof (eval_nonneg a Ha).
  pose proof (add_mod_tail_correct w carry p Hw Hp ltac:(lia) Hc) as H1.
  rewrite Hlw in H1. specialize (H1 ltac:(lia)). destruct H1 as (H1 & H2 & H3).
  rewrite H1. split; [f_equal; lia | split; assumption].
Qed.

(* ------------------------------------------------------------------ *)
(** * sub_mod, neg_mod *)

Theorem sub_mod_correct a b p :
  wf a -> wf b -> wf p -> length a = length b -> length a = length p ->
  eval a < eval p -> eval b < eval p ->
  eval (sub_mod a b p) = (eval a - eval b) mod eval p
  /\ wf (sub_mod a b p) /\ length (sub_mod a b p) = length a.
Proof.
  intros Ha Hb Hp Hlb Hlp Hap Hbp. unfold sub_mod.
  destruct (sbb_limbs a b 0) as [out mask] eqn:E.
  pose proof (eval_bounds a Ha) as Ba. pose proof (eval_bounds b Hb) as Bb. pose proof (eval_bounds p Hp) as Bp.
  pose proof (sbb_limbs_correct a b 0 out mask Ha Hb Hlb is_word_0 E) as (Hwo & Hlo & [(Hz & _)|(Hnz & Him & He)]).
  - destruct a; [|discriminate]. destruct p; [|discriminate]. simpl in Hap. lia.
  - rewrite bin_0 in He.
    pose proof (bitand_limb_borrow p mask Hp Him) as (Hpe & Hpw & Hpl).
    pose proof (wrapping_add_spec out (bitand_limb p mask) Hwo Hpw ltac:(lia)) as (Hre & Hrw & Hrl).
    split; [|split; [assumption | lia]].
    rewrite Hre, Hpe, Hlo. pose proof (eval_bounds out Hwo) as Bo. rewrite Hlo in Bo.
    rewrite <- Hlp in Bp. rewrite <- Hlb in Bb. set (N := Bn (length a)) in *.
    destruct Him as [-> | ->]; rewrite ?bout_0, ?bout_MAXW in *.
    + rewrite (Z.mod_small (eval a - eval b)) by lia. rewrite Z.mod_small by lia. lia.
    + rewrite (mod_neg_once (eval a - eval b)) by lia. symmetry. apply (Z.mod_unique_pos _ N 1); lia.
Qed.

Lemma forallb_zero_eval a : wf a -> forallb (fun x => x =? 0) a = (eval a =? 0).
Proof.
  induction a as [|x a IH]; intros H; [reflexivity|].
  apply wf_cons in H. destruct H as [Hx Ha]. cbn [forallb eval]. rewrite (IH Ha).
  pose proof (eval_nonneg a Ha). unfold is_word in Hx. pose proof B_gt1.
  destruct (x =? 0) eqn:Ex; destruct (eval a =? 0) eqn:Ea; cbn [andb]; symmetry;
    rewrite ?Z.eqb_eq, ?Z.eqb_neq in *; nia.
Qed.

Lemma map_if_true_0 l : map (fun x => if_true_word 0 x) l = zeros (length l).
Proof. unfold if_true_word. apply (bitand_limb_0 l). Qed.
Lemma map_if_true_MAXW l : wf l -> map (fun x => if_true_word MAXW x) l = l.
Proof. unfold if_true_word. apply (bitand_limb_MAXW l). Qed.

Theorem neg_mod_correct a p :
  wf a -> wf p -> length a = length p -> eval a < eval p ->
  eval (neg_mod a p) = (- eval a) mod eval p
  /\ wf (neg_mod a p) /\ length (neg_mod a p) = length a.
Proof.
  intros Ha Hp Hlp Hap. unfold neg_mod.
  destruct (sbb_limbs p a 0) as [out bo] eqn:E. cbn [fst].
  pose proof (eval_bounds a Ha) as Ba. pose proof (eval_bounds p Hp) as Bp.
  pose proof (sbb_limbs_correct p a 0 out bo Hp Ha ltac:(lia) is_word_0 E) as (Hwo & Hlo & [(Hz & _)|(Hnz & Hib & He)]).
  - destruct p; [|discriminate]. destruct a; [|discriminate]. simpl in Hap. lia.
  - rewrite bin_0 in He. pose proof (eval_bounds out Hwo) as Bo. rewrite Hlo in Bo.
    rewrite forallb_zero_eval by assumption.
    destruct (eval a =? 0) eqn:Ez.
    + apply Z.eqb_eq in Ez. rewrite map_if_true_0, eval_zeros, length_zeros, Ez.
      split; [rewrite Z.mod_0_l by lia; reflexivity | split; [apply wf_zeros | lia]].
    + apply Z.eqb_neq in Ez. rewrite map_if_true_MAXW by assumption.
      split; [|split; [assumption | lia]].
      destruct Hib as [-> | ->]; rewrite ?bout_0, ?bout_MAXW in *; [|lia].
      rewrite mod_neg_once by lia. lia.
Qed.

Corollary neg_mod_zero a p : wf a -> wf p -> length a = length p -> eval a = 0 -> 0 < eval p ->
  eval (neg_mod a p) = 0.
Proof.
  intros Ha Hp Hl Hz Hp0. destruct (neg_mod_correct a p Ha Hp Hl ltac:(lia)) as (H & _).
  rewrite H, Hz. apply Z.mod_0_l. lia.
Qed.

(* ------------------------------------------------------------------ *)
(** * Special modulus p = 2^BITS - c *)

Lemma eval_from_word_n n l : is_word l -> n <> 0%nat ->
  eval (from_word_n n l) = l /\ wf (from_word_n n l) /\ length (from_word_n n l) = n.
Proof.
  intros Hl Hn. unfold from_word_n.
  assert (Hw : wf [l]) by (apply wf_cons; split; [assumption | apply wf_nil]).
  split; [|split; [apply wf_resize; assumption | apply length_resize]].
  rewrite eval_resize_ge by (auto; simpl; lia). simpl. lia.
Qed.

Lemma wrapping_sub_spec a b :
  wf a -> wf b -> length a = length b ->
  eval (uint_wrapping_sub a b) = (eval a - eval b) mod Bn (length a) /\ wf (uint_wrapping_sub a b)
  /\ length (uint_wrapping_sub a b) = length a.
Proof.
  intros Ha Hb Hl. unfold uint_wrapping_sub. destruct (sbb_limbs a b 0) as [r bo] eqn:E. cbn [fst].
  pose proof (sbb_limbs_correct a b 0 r bo Ha Hb Hl is_word_0 E) as (Hw & Hlr & [(Hz & -> & ->)|(Hnz & Hib & He)]).
  - destruct a; [|discriminate]. destruct b; [|discriminate]. simpl. rewrite Bn_0. repeat split; auto.
  - rewrite bin_0 in He. repeat split; auto.
    pose proof (eval_bounds r Hw) as Hb'. rewrite Hlr in Hb'. pose proof (Bn_pos (length a)).
    pose proof (bout_range bo).
    apply (Z.mod_unique_pos _ _ (- bout bo)); lia.
Qed.

(** psp n c > 0 with c >= 1 forces at least one limb *)
Lemma psp_pos_nonzero n c : 1 <= c -> 0 < psp n c -> n <> 0%nat.
Proof. unfold psp. intros Hc Hp ->. rewrite Bn_0 in Hp. lia. Qed.

Theorem add_mod_special_correct a b c :
  wf a -> wf b -> length a = length b -> 1 <= c < B -> 0 < psp (length a) c ->
  eval a < psp (length a) c -> eval b < psp (length a) c ->
  eval (add_mod_special a b c) = (eval a + eval b) mod psp (length a) c
  /\ wf (add_mod_special a b c) /\ length (add_mod_special a b c) = length a.
Proof.
  intros Ha Hb Hlb Hc Hp0 Hap Hbp. unfold add_mod_special.
  destruct (adc_limbs a b c) as [out carry] eqn:E.
  assert (Hcw : is_word c) by (unfold is_word; lia).
  pose proof (adc_limbs_correct a b c out carry Ha Hb Hlb Hcw E) as (He & Hwo & Hlo & Hco & _).
  pose proof (psp_pos_nonzero (length a) c ltac:(lia) Hp0) as Hn.
  pose proof (eval_nonneg a Ha). pose proof (eval_nonneg b Hb).
  pose proof (eval_bounds out Hwo) as Bo. rewrite Hlo in Bo.
  unfold psp in *. pose proof (Bn_pos (length a)) as HN. set (N := Bn (length a)) in *.
  unfold is_word in Hco.
  assert (Hc01 : carry = 0 \/ carry = 1).
  { destruct (Z_lt_ge_dec carry 2) as [|Hge]; [lia|].
    assert (N * 2 <= N * carry) by (apply Z.mul_le_mono_nonneg_l; lia). lia. }
  set (l := wand (wsub carry 1) c).
  assert (Hl : is_word l /\ l = if carry =? 0 then c else 0).
  { unfold l. destruct Hc01 as [-> | ->].
    - rewrite wsub_0_1, wand_MAXW_l by assumption. split; [assumption | reflexivity].
    - rewrite wsub_1_1, wand_0_l. split; [apply is_word_0 | reflexivity]. }
  destruct Hl as [Hlw Hlv].
  pose proof (eval_from_word_n (length a) l Hlw Hn) as (Hfe & Hfw & Hfl).
  pose proof (wrapping_sub_spec out (from_word_n (length a) l) Hwo Hfw ltac:(lia)) as (Hre & Hrw & Hrl).
  split; [|split; [assumption | lia]].
  rewrite Hre, Hfe, Hlo, Hlv. fold N.
  destruct Hc01 as [-> | ->].
  - change (0 =? 0) with true. cbv iota.
    rewrite (Z.mod_small (eval a + eval b)) by lia. rewrite Z.mod_small by lia. lia.
  - change (1 =? 0) with false. cbv iota.
    rewrite (mod_once (eval a + eval b)) by lia. rewrite Z.mod_small by lia. lia.
Qed.

Theorem sub_mod_special_correct a b c :
  wf a -> wf b -> length a = length b -> 1 <= c < B -> 0 < psp (length a) c ->
  eval a < psp (length a) c -> eval b < psp (length a) c ->
  eval (sub_mod_special a b c) = (eval a - eval b) mod psp (length a) c
  /\ wf (sub_mod_special a b c) /\ length (sub_mod_special a b c) = length a.
Proof.
  intros Ha Hb Hlb Hc Hp0 Hap Hbp. unfold sub_mod_special.
  destruct (sbb_limbs a b 0) as [out borrow] eqn:E.
  assert (Hcw : is_word c) by (unfold is_word; lia).
  pose proof (psp_pos_nonzero (length a) c ltac:(lia) Hp0) as Hn.
  pose proof (sbb_limbs_correct a b 0 out borrow Ha Hb Hlb is_word_0 E) as (Hwo & Hlo & [(Hz & _)|(_ & Hib & He)]);
    [contradiction|].
  rewrite bin_0 in He.
  pose proof (eval_nonneg a Ha). pose proof (eval_nonneg b Hb).
  pose proof (eval_bounds out Hwo) as Bo. rewrite Hlo in Bo.
  unfold psp in *. pose proof (Bn_pos (length a)) as HN. set (N := Bn (length a)) in *.
  set (l := wand borrow c).
  assert (Hl : is_word l /\ l = c * bout borrow).
  { unfold l. destruct Hib as [-> | ->].
    - rewrite wand_0_l, bout_0. split; [apply is_word_0 | lia].
    - rewrite wand_MAXW_l, bout_MAXW by assumption. split; [assumption | lia]. }
  destruct Hl as [Hlw Hlv].
  pose proof (eval_from_word_n (length a) l Hlw Hn) as (Hfe & Hfw & Hfl).
  pose proof (wrapping_sub_spec out (from_word_n (length a) l) Hwo Hfw ltac:(lia)) as (Hre & Hrw & Hrl).
  split; [|split; [assumption | lia]].
  rewrite Hre, Hfe, Hlo, Hlv. fold N.
  destruct Hib as [-> | ->]; rewrite ?bout_0, ?bout_MAXW in *.
  - rewrite (Z.mod_small (eval a - eval b)) by lia. rewrite Z.mod_small by lia. lia.
  - rewrite (mod_neg_once (eval a - eval b)) by lia. rewrite Z.mod_small by lia. lia.
Qed.

Theorem neg_mod_special_correct a c :
  wf a -> 1 <= c < B -> 0 < psp (length a) c -> eval a < psp (length a) c ->
  eval (neg_mod_special a c) = (- eval a) mod psp (length a) c
  /\ wf (neg_mod_special a c) /\ length (neg_mod_special a c) = length a.
Proof.
  intros Ha Hc Hp0 Hap. unfold neg_mod_special.
  pose proof (sub_mod_special_correct (zeros (length a)) a c (wf_zeros _) Ha (length_zeros _) Hc) as H.
  rewrite length_zeros, eval_zeros in H. specialize (H Hp0 ltac:(lia) Hap).
  replace (- eval a) with (0 - eval a) by lia. exact H.
Qed.

(* ------------------------------------------------------------------ *)
(** * mac_by_limb *)

Theorem mac_by_limb_correct a : forall b c carry r co,
  wf a -> wf b -> length a = length b -> is_word c -> is_word carry ->
  mac_by_limb a b c carry = (r, co) ->
  eval r + Bn (length a) * co = eval a + eval b * c + carry /\ wf r /\ length r = length a /\ is_word co.
Proof.
  induction a as [|x a IH]; intros b c carry r co Ha Hb Hl Hc Hk E.
  - destruct b; [|discriminate]. simpl in E. inv_pair E. simpl. rewrite Bn_0.
    repeat split; try lia; [apply wf_nil | apply Hk | apply Hk].
  - destruct b as [|y b]; [discriminate|]. simpl in Hl.
    apply wf_cons in Ha. destruct Ha as [Hx Ha]. apply wf_cons in Hb. destruct Hb as [Hy Hb].
    cbn [mac_by_limb] in E.
    destruct (mac x y c carry) as [v cy] eqn:E1.
    destruct (mac_by_limb a b c cy) as [r' cf] eqn:E2.
    inv_pair E.
    pose proof (mac_exact _ _ _ _ _ _ Hx Hy Hc Hk E1) as (H1 & Hv & Hcy).
    specialize (IH b c cy r' cf Ha Hb ltac:(lia) Hc Hcy E2). destruct IH as (H2 & Hwr & Hlr & Hcf).
    cbn [eval length]. rewrite Bn_S.
    repeat split; try (simpl; lia); try apply Hcf.
    apply wf_cons. split; assumption.
Qed.


(* ------------------------------------------------------------------ *)
(** * mul_mod_special: HAC 14.47 for p = N - c, N = 2^BITS >= B^2 *)

(** the reduction on integers.  x = lo + N*hi is ANY double-width value (no bound by p^2 is needed):
    one multiply-accumulate by c, one addition of (k1+1)*c and one conditional subtraction of c give x mod p *)
Lemma hac1447 N c lo hi lo1 k1 lo2 k2 :
  B * B <= N -> 1 <= c < B ->
  0 <= lo < N -> 0 <= hi < N ->
  0 <= lo1 < N -> 0 <= k1 -> lo1 + N * k1 = lo + hi * c ->
  0 <= lo2 < N -> 0 <= k2 <= 1 -> lo2 + N * k2 = lo1 + (k1 + 1) * c ->
  (lo2 - (if k2 =? 0 then c else 0)) mod N = (lo + N * hi) mod (N - c).
Proof.
  intros HN Hc Hlo Hhi Hlo1 Hk1 E1 Hlo2 Hk2 E2. pose proof B_gt1.
  assert (Hhc : 0 <= hi * c <= (N - 1) * c).
  { split; [apply Z.mul_nonneg_nonneg; lia | apply Z.mul_le_mono_nonneg_r; lia]. }
  assert (Hk1c : k1 <= c).
  { destruct (Z_lt_ge_dec c k1) as [Hlt|]; [|lia].
    assert (N * (c + 1) <= N * k1) by (apply Z.mul_le_mono_nonneg_l; lia). lia. }
  assert (Hcc : c * c <= (B - 1) * (B - 1)) by (apply Z.mul_le_mono_nonneg; lia).
  assert (Hkc : 0 <= k1 * c) by (apply Z.mul_nonneg_nonneg; lia).
  (* y = lo1 + k1*c is congruent to x and below N - 1 - c + c^2 < 2p *)
  assert (Hy : lo1 + k1 * c <= N - 1 - c + c * c).
  { destruct (Z.eq_dec k1 c) as [->|Hne].
    - lia.
    - assert (k1 * c <= (c - 1) * c) by (apply Z.mul_le_mono_nonneg_r; lia). lia. }
  assert (k2 = 0 \/ k2 = 1) as [-> | ->] by lia.
  - change (0 =? 0) with true. cbv iota.
    rewrite Z.mod_small by lia.
    apply (Z.mod_unique_pos _ _ (k1 + hi)); lia.
  - change (1 =? 0) with false. cbv iota.
    rewrite Z.mod_small by lia.
    apply (Z.mod_unique_pos _ _ (k1 + hi + 1)); lia.
Qed.

Lemma Bn_ge_BB n : (2 <= n)%nat -> B * B <= Bn n.
Proof. intros H. pose proof (Bn_le 2 n H) as H2. rewrite (Bn_S 1), Bn_1 in H2. exact H2. Qed.

Lemma eval_from_wide_word_n n x : (2 <= n)%nat -> 0 <= x < B * B ->
  eval (from_wide_word_n n x) = x /\ wf (from_wide_word_n n x) /\ length (from_wide_word_n n x) = n.
Proof.
  intros Hn Hx. unfold from_wide_word_n. pose proof B_gt1.
  pose proof (Z.div_mod x B ltac:(lia)). pose proof (Z.mod_pos_bound x B ltac:(lia)).
  assert (Hq : 0 <= x / B < B).
  { split; [apply Z.div_pos; lia | apply Z.div_lt_upper_bound; lia]. }
  assert (Hw : wf [x mod B; x / B]).
  { apply wf_cons. split; [apply is_word_mod|]. apply wf_cons. split; [exact Hq | apply wf_nil]. }
  split; [|split; [apply wf_resize; assumption | apply length_resize]].
  rewrite eval_resize_ge by (auto; simpl; lia). simpl. lia.
Qed.

(** Multi-limb branch (n >= 2).  The only fact used about the multiplication is that (lo, hi) is the
    double-width product; a, b need not be reduced. *)
Theorem mul_mod_special_wide_correct dbg mulf a b c lo hi :
  (2 <= length a)%nat -> 1 <= c < B ->
  mulf a b = (lo, hi) -> wf lo -> wf hi -> length lo = length a -> length hi = length a ->
  exists r, mul_mod_special dbg mulf a b c = Some r
    /\ eval r = (eval lo + Bn (length a) * eval hi) mod psp (length a) c
    /\ wf r /\ length r = length a.
Proof.
  intros Hn Hc Em Hwlo Hwhi Hllo Hlhi. unfold mul_mod_special.
  assert ((length a =? 1)%nat = false) as -> by (apply Nat.eqb_neq; lia).
  rewrite Em.
  assert (Hcw : is_word c) by (unfold is_word; lia).
  destruct (mac_by_limb lo hi c 0) as [lo1 k1] eqn:E1.
  pose proof (mac_by_limb_correct lo hi c 0 lo1 k1 Hwlo Hwhi ltac:(lia) Hcw is_word_0 E1) as (He1 & Hw1 & Hl1 & Hk1).
  rewrite Hllo in *. pose proof (Bn_ge_BB _ Hn) as HNB. set (N := Bn (length a)) in *.
  unfold is_word in Hk1. pose proof B_gt1.
  assert (Hrhs : 0 <= (k1 + 1) * c < B * B).
  { split; [apply Z.mul_nonneg_nonneg; lia|].
    assert ((k1 + 1) * c <= B * c) by (apply Z.mul_le_mono_nonneg_r; lia).
    assert (B * c <= B * (B - 1)) by (apply Z.mul_le_mono_nonneg_l; lia). lia. }
  pose proof (eval_from_wide_word_n (length a) _ Hn Hrhs) as (Hfe & Hfw & Hfl).
  destruct (adc_limbs lo1 (from_wide_word_n (length a) ((k1 + 1) * c)) 0) as [lo2 k2] eqn:E2.
  pose proof (adc_limbs_correct lo1 _ 0 lo2 k2 Hw1 Hfw ltac:(lia) is_word_0 E2) as (He2 & Hw2 & Hl2 & Hk2 & Hk2s).
  specialize (Hk2s ltac:(lia)). unfold is_word in Hk2. rewrite Hl1, Hfe in He2. fold N in He2.
  set (l := wand (wsub k2 1) c).
  assert (Hl : is_word l /\ l = if k2 =? 0 then c else 0).
  { unfold l. assert (k2 = 0 \/ k2 = 1) as [-> | ->] by lia.
    - rewrite wsub_0_1, wand_MAXW_l by assumption. split; [assumption | reflexivity].
    - rewrite wsub_1_1, wand_0_l. split; [apply is_word_0 | reflexivity]. }
  destruct Hl as [Hlw Hlv].
  pose proof (eval_from_word_n (length a) l Hlw ltac:(lia)) as (Hge & Hgw & Hgl).
  pose proof (wrapping_sub_spec lo2 (from_word_n (length a) l) Hw2 Hgw ltac:(lia)) as (Hre & Hrw & Hrl).
  unfold uint_wrapping_sub in *.
  eexists. split; [reflexivity|]. split; [|split; [assumption | lia]].
  rewrite Hre, Hge, Hlv, Hl2, Hl1. fold N. unfold psp. fold N.
  pose proof (eval_bounds lo Hwlo) as Blo. pose proof (eval_bounds hi Hwhi) as Bhi.
  pose proof (eval_bounds lo1 Hw1) as Blo1. pose proof (eval_bounds lo2 Hw2) as Blo2.
  rewrite ?Hllo, ?Hlhi, ?Hl1, ?Hl2 in *. fold N in Blo, Bhi, Blo1, Blo2.
  apply (hac1447 N c (eval lo) (eval hi) (eval lo1) k1 (eval lo2) k2); try lia.
Qed.

(** the statement of the property: canonical residue of the product *)
Theorem mul_mod_special_correct dbg mulf a b c lo hi :
  wf a -> wf b -> length a = length b -> (2 <= length a)%nat -> 1 <= c < B ->
  eval a < psp (length a) c -> eval b < psp (length a) c ->
  mulf a b = (lo, hi) -> wf lo -> wf hi -> length lo = length a -> length hi = length a ->
  eval lo + Bn (length a) * eval hi = eval a * eval b ->
  exists r, mul_mod_special dbg mulf a b c = Some r
    /\ eval r = (eval a * eval b) mod psp (length a) c
    /\ wf r /\ length r = length a.
Proof.
  intros Ha Hb Hlab Hn Hc _ _ Em Hwlo Hwhi Hllo Hlhi Hprod.
  destruct (mul_mod_special_wide_correct dbg mulf a b c lo hi Hn Hc Em Hwlo Hwhi Hllo Hlhi) as (r & Hr & He & Hw & Hl).
  exists r. rewrite <- Hprod. auto.
Qed.

(** One-limb branch: mul_rem through the reciprocal of d = 2^64 - c; needs the 64-bit Newton reciprocal
    to be exact for this divisor ([recip_ok], C02). *)
Theorem mul_mod_special_one_limb_given_recip dbg mulf x y c :
  is_word x -> is_word y -> 1 <= c < B ->
  recip_ok (r_d (recip_new (B - c))) (reciprocal (r_d (recip_new (B - c)))) ->
  exists r, mul_mod_special dbg mulf [x] [y] c = Some r
    /\ eval r = (eval [x] * eval [y]) mod psp 1 c /\ wf r /\ length r = 1%nat.
Proof.
  intros Hx Hy Hc Hrec. unfold mul_mod_special. cbn [length Nat.eqb nthz nth].
  pose proof B_gt1.
  assert (Hd : wsub 0 c = B - c).
  { unfold wsub, wrap. replace (0 - c) with (- c) by lia. rewrite mod_neg_once by lia. lia. }
  rewrite Hd. assert (B - c =? 0 = false) as -> by (apply Z.eqb_neq; lia).
  unfold mulhilo. unfold rem_limb_with_reciprocal.
  unfold is_word in Hx, Hy.
  assert (Hxy : 0 <= x * y <= (B - 1) * (B - 1)).
  { split; [apply Z.mul_nonneg_nonneg; lia | apply Z.mul_le_mono_nonneg; lia]. }
  pose proof (Z.div_mod (x * y) B ltac:(lia)). pose proof (Z.mod_pos_bound (x * y) B ltac:(lia)).
  assert (Hq : 0 <= x * y / B < B).
  { split; [apply Z.div_pos; lia | apply Z.div_lt_upper_bound; lia]. }
  assert (Hw : wf [(x * y) mod B; x * y / B]).
  { apply wf_cons. split; [apply is_word_mod|]. apply wf_cons. split; [exact Hq | apply wf_nil]. }
  pose proof (div_rem_limb_correct [(x * y) mod B; x * y / B] (B - c) (recip_new (B - c)) Hw ltac:(lia)
                (recip_new_for (B - c) ltac:(lia) Hrec)) as Hdiv.
  destruct (div_rem_limb_with_reciprocal [(x * y) mod B; x * y / B] (recip_new (B - c))) as [q r] eqn:E.
  destruct Hdiv as (He & Hr & Hwq & Hlq). cbn [snd].
  eexists. split; [reflexivity|]. cbn [eval length]. unfold psp. rewrite Bn_1.
  split; [|split; [|reflexivity]].
  - replace (r + B * 0) with r by lia. replace ((x + B * 0) * (y + B * 0)) with (x * y) by lia.
    cbn [eval] in He. apply (Z.mod_unique_pos _ _ (eval q)); lia.
  - apply wf_cons. split; [unfold is_word; lia | apply wf_nil].
Qed.


(** same, for any one-limb operands *)
Theorem mul_mod_special_one_limb_given_recip' dbg mulf a b c :
  wf a -> wf b -> length a = 1%nat -> length b = 1%nat -> 1 <= c < B ->
  recip_ok (r_d (recip_new (B - c))) (reciprocal (r_d (recip_new (B - c)))) ->
  exists r, mul_mod_special dbg mulf a b c = Some r
    /\ eval r = (eval a * eval b) mod psp (length a) c /\ wf r /\ length r = length a.
Proof.
  intros Ha Hb Hla Hlb.
  destruct a as [|x [|? ?]]; try discriminate Hla. destruct b as [|y [|? ?]]; try discriminate Hlb.
  intros Hc Hrec.
  apply wf_cons in Ha. destruct Ha as [Hx _]. apply wf_cons in Hb. destruct Hb as [Hy _].
  exact (mul_mod_special_one_limb_given_recip dbg mulf x y c Hx Hy Hc Hrec).
Qed.

(** what is assumed of the multiplication routine plugged into mul_mod_special *)
Definition split_mul_ok (mulf : list Z -> list Z -> list Z * list Z) (a b : list Z) : Prop :=
  forall lo hi, mulf a b = (lo, hi) ->
    wf lo /\ wf hi /\ length lo = length a /\ length hi = length a
    /\ eval lo + Bn (length a) * eval hi = eval a * eval b.

(** every width: n >= 2 given the product, n = 1 given the reciprocal *)
Theorem mul_mod_special_all_widths_given_mul_recip dbg mulf a b c :
  wf a -> wf b -> length a = length b -> 1 <= c < B -> 0 < psp (length a) c ->
  split_mul_ok mulf a b ->
  recip_ok (r_d (recip_new (B - c))) (reciprocal (r_d (recip_new (B - c)))) ->
  exists r, mul_mod_special dbg mulf a b c = Some r
    /\ eval r = (eval a * eval b) mod psp (length a) c /\ wf r /\ length r = length a.
Proof.
  intros Ha Hb Hl Hc Hp Hmul Hrec.
  pose proof (psp_pos_nonzero (length a) c ltac:(lia) Hp) as Hn.
  destruct (Nat.eq_dec (length a) 1) as [H1|H1].
  - apply mul_mod_special_one_limb_given_recip'; auto; lia.
  - destruct (mulf a b) as [lo hi] eqn:Em.
    destruct (Hmul lo hi Em) as (Hwlo & Hwhi & Hllo & Hlhi & Hprod).
    destruct (mul_mod_special_wide_correct dbg mulf a b c lo hi ltac:(lia) Hc Em Hwlo Hwhi Hllo Hlhi) as (r & Hr & He & Hw & Hlr).
    exists r. rewrite <- Hprod. auto.
Qed.


(* ------------------------------------------------------------------ *)
(** * Why `carry + 1` must be computed in the wide word
    The variant below computes `carry + 1` in a 64-bit word (wrapping), as the code did before the fix
    "mul_mod_special overflowed computing (carry + 1) for c = Word::MAX".  It is NOT correct: the first
    carry reaches MAX for c = MAX and in-range operands a = b = 2^192 - 2^65. *)
Definition mul_mod_special_wrapping (mulf : list Z -> list Z -> list Z * list Z) (a b : list Z) (c : Z) : list Z :=
  let n := length a in
  let '(lo, hi) := mulf a b in
  let '(lo, carry) := mac_by_limb lo hi c 0 in
  let rhs := wadd carry 1 * c in
  let '(lo, carry) := adc_limbs lo (from_wide_word_n n rhs) 0 in
  let rhs2 := wand (wsub carry 1) c in
  fst (sbb_limbs lo (from_word_n n rhs2) 0).

Lemma mul_mod_special_wrapping_refuted :
  exists a c, wf a /\ 1 <= c < B /\ eval a < psp (length a) c /\
    eval (mul_mod_special_wrapping uint_split_mul a a c) <> (eval a * eval a) mod psp (length a) c /\
    option_map eval (mul_mod_special false uint_split_mul a a c) = Some ((eval a * eval a) mod psp (length a) c).
Proof.
  exists [0; MAXW - 1; MAXW], MAXW. split; [|vm_compute; repeat split; congruence].
  repeat (apply wf_cons; split; [vm_compute; split; congruence|]). apply wf_nil.
Qed.
