(** C08 proofs, part 2: the boxed almost-Montgomery multiplication (CIOS with the ts / ts1 carries, reduction only on
    overflow of 2^BITS), almost_montgomery_mul_by_one, sub_assign_mod_with_carry, and the fully reduced products of
    BoxedMontyMultiplier; for every limb count.
    The source states its three properties of AMM as "discovered via randomized tests, not proven".  Proved here:
      R * (AMM x y + e * m) = x * y + U * m,  e in {0,1}, U < R, AMM x y < R                        (amm_correct)
      floor(AMM x y / m) <= min(floor(x / m), floor(y / m)) + 1            (claim 1)                 (amm_bound)
      x < m -> AMM x 1 < m                                                 (claim 2 for canonical x) (amm_by_one_reduced)
      claim 2 as stated ("regardless of f(x)") is false: AMM m 1 = m       (amm_by_one_claim2_refuted, MontyHistP) *)
From CB Require Import Model.Limbs Model.AddSub Model.Mul Model.Div Model.ModArith Model.Monty
  Proofs.WordP Proofs.LimbsP Proofs.AddSubP Proofs.ModArithP Proofs.MontyRedP.
From Coq Require Import ZArith Lia List Bool.
Open Scope Z_scope.

Lemma overflowing_add_exact a b r c : is_word a -> is_word b -> overflowing_add a b = (r, c) ->
  r + B * c = a + b /\ is_word r /\ 0 <= c <= 1.
Proof.
  unfold overflowing_add, is_word. intros Ha Hb E. inv_pair E. pose proof B_pos.
  pose proof (Z.div_mod (a + b) B ltac:(lia)). pose proof (Z.mod_pos_bound (a + b) B ltac:(lia)).
  repeat split; try lia.
  - apply Z.div_pos; lia.
  - apply Z.lt_succ_r. apply Z.div_lt_upper_bound; lia.
Qed.

Lemma eval_snoc l x : eval (l ++ [x]) = eval l + Bn (length l) * x.
Proof. rewrite eval_app. cbn [eval]. lia. Qed.

Section Amm.
Variables (m : list Z) (k : Z).
Hypothesis Hm : wf m.
Hypothesis Hn : length m <> 0%nat.
Hypothesis Hk : (hd 0 m * k + 1) mod B = 0.
Let n := length m.
Let N := Bn (length m).
Let M := eval m.
Ltac nrm := repeat match goal with
  | H : context [Bn n] |- _ => progress change (Bn n) with N in H
  | H : context [Bn (length m)] |- _ => progress change (Bn (length m)) with N in H
  | H : context [eval m] |- _ => progress change (eval m) with M in H
  | H : context [length m] |- _ => progress change (length m) with n in H
  end; try change (Bn n) with N; try change (Bn (length m)) with N; try change (eval m) with M.

(** the second half of a CIOS iteration: (z1 + N c + N ts + t m) / B, exactly *)
Lemma amm_tail_correct z1 c ts z' ts' :
  wf z1 -> length z1 = n -> is_word c -> is_word ts ->
  amm_tail z1 c ts m k = (z', ts') ->
  wf z' /\ length z' = n /\ is_word ts' /\
  exists t, 0 <= t < B /\ B * (eval z' + N * ts') = eval z1 + N * c + N * ts + t * M.
Proof.
  intros Hz1 Hl1 Hc Hts E. unfold amm_tail, add_mul_carry_and_shift in E.
  destruct (overflowing_add ts c) as [ts0 ts1] eqn:E1.
  set (t := wmul (hd 0 z1) k) in *.
  destruct (mac_by_limb z1 m t 0) as [row c2] eqn:E2.
  destruct (overflowing_add ts0 c2) as [top c3] eqn:E3.
  inv_pair E.
  pose proof (overflowing_add_exact _ _ _ _ Hts Hc E1) as (H1 & Hts0 & Hts1).
  assert (Ht : is_word t) by apply is_word_wmul.
  pose proof (mac_by_limb_correct z1 m t 0 row c2 Hz1 Hm Hl1 Ht is_word_0 E2) as (Hrow & Hwrow & Hlrow & Hc2).
  pose proof (overflowing_add_exact _ _ _ _ Hts0 Hc2 E3) as (H3 & Htop & Hc3).
  rewrite Hl1 in Hrow, Hlrow. change (Bn n) with N in Hrow.
  assert (Hrow0 : hd 0 row = 0).
  { subst n N. destruct (length m) as [|n'] eqn:En; [contradiction|].
    assert (Hne : row <> []) by (intros ->; discriminate).
    rewrite Bn_S in Hrow.
    rewrite (low_word_of_sum row c2 (Bn n') _ Hwrow Hne Hrow).
    rewrite (eval_hd_tl z1), (eval_hd_tl m). pose proof B_pos.
    replace (hd 0 z1 + B * eval (tl z1) + (hd 0 m + B * eval (tl m)) * t + 0)
      with (hd 0 z1 + hd 0 m * t + (eval (tl z1) + eval (tl m) * t) * B) by ring.
    rewrite Z.mod_add by lia. apply neg_inv_kills_low. assumption. }
  assert (Hw' : wf (tl row ++ [top])).
  { apply wf_app. split; [apply wf_tl; assumption|]. apply wf_cons. split; [assumption | apply wf_nil]. }
  assert (Hl' : length (tl row ++ [top]) = n).
  { rewrite app_length, length_tl. cbn [length]. subst n. lia. }
  assert (Hadd : wadd ts1 c3 = ts1 + c3).
  { unfold wadd, wrap. apply Z.mod_small. pose proof B_gt4. lia. }
  split; [assumption|]. split; [assumption|]. split.
  { rewrite Hadd. unfold is_word. pose proof B_gt4. lia. }
  exists t. split; [exact Ht|]. rewrite Hadd.
  pose proof (eval_hd_tl row) as Erow. rewrite Hrow0 in Erow.
  assert (Ez : B * eval (tl row ++ [top]) = eval row + N * top).
  { rewrite eval_snoc, length_tl, Hlrow. subst N n.
    destruct (length m) as [|n']; [contradiction|]. replace (S n' - 1)%nat with n' by lia. rewrite Bn_S. lia. }
  assert (HX1 : N * top + N * (B * c3) = N * ts0 + N * c2) by (rewrite <- !Z.mul_add_distr_l; f_equal; lia).
  assert (HX2 : N * ts0 + N * (B * ts1) = N * ts + N * c) by (rewrite <- !Z.mul_add_distr_l; f_equal; lia).
  rewrite Z.mul_add_distr_l, Ez. fold M in Hrow. lia.
Qed.

Lemma amm_step_correct z ts x yi z' ts' :
  wf z -> length z = n -> wf x -> length x = n -> is_word yi -> is_word ts ->
  amm_step z ts x yi m k = (z', ts') ->
  wf z' /\ length z' = n /\ is_word ts' /\
  exists t, 0 <= t < B /\ B * (eval z' + N * ts') = eval z + N * ts + eval x * yi + t * M.
Proof.
  intros Hz Hlz Hx Hlx Hy Hts E. unfold amm_step, add_mul_carry in E.
  destruct (mac_by_limb z x yi 0) as [z1 c] eqn:E1.
  pose proof (mac_by_limb_correct z x yi 0 z1 c Hz Hx ltac:(lia) Hy is_word_0 E1) as (H1 & Hz1 & Hl1 & Hc).
  rewrite Hlz in H1, Hl1. change (Bn n) with N in H1.
  destruct (amm_tail_correct z1 c ts z' ts' Hz1 Hl1 Hc Hts E) as (A & C & D & t & Ht & HE).
  split; [assumption|]. split; [assumption|]. split; [assumption|]. exists t. split; [assumption|]. lia.
Qed.

Lemma amm_loop_correct x : wf x -> length x = n -> forall ys z ts z' ts',
  wf ys -> wf z -> length z = n -> is_word ts ->
  amm_loop ys z ts x m k = (z', ts') ->
  wf z' /\ length z' = n /\ is_word ts' /\
  exists U, 0 <= U < Bn (length ys) /\
    Bn (length ys) * (eval z' + N * ts') = eval z + N * ts + eval x * eval ys + U * M.
Proof.
  intros Hx Hlx. induction ys as [|yi r IH]; intros z ts z' ts' Hys Hz Hlz Hts E.
  - cbn [amm_loop] in E. inv_pair E. split; [assumption|]. split; [assumption|]. split; [assumption|].
    exists 0. cbn [length eval]. rewrite Bn_0. lia.
  - apply wf_cons in Hys. destruct Hys as [Hyi Hr]. cbn [amm_loop] in E.
    destruct (amm_step z ts x yi m k) as [z1 ts1] eqn:E1.
    destruct (amm_step_correct _ _ _ _ _ _ Hz Hlz Hx Hlx Hyi Hts E1) as (Hz1 & Hl1 & Hts1 & t & Ht & HE1).
    destruct (IH _ _ _ _ Hr Hz1 Hl1 Hts1 E) as (A & C & D & U' & HU' & HE).
    split; [assumption|]. split; [assumption|]. split; [assumption|]. exists (t + B * U'). cbn [length eval]. rewrite Bn_S.
    pose proof B_pos. pose proof (Bn_pos (length r)). split.
    + assert (B * U' <= B * (Bn (length r) - 1)) by (apply Z.mul_le_mono_nonneg_l; lia).
      assert (0 <= B * U') by (apply Z.mul_nonneg_nonneg; lia). lia.
    + assert (HB : B * (Bn (length r) * (eval z' + N * ts')) =
                   B * (eval z1 + N * ts1) + B * (eval x * eval r) + B * (U' * M)) by (rewrite HE; ring).
      replace (B * Bn (length r) * (eval z' + N * ts')) with (B * (Bn (length r) * (eval z' + N * ts'))) by ring.
      rewrite HB, HE1. ring.
Qed.

(** conditional_sub after the loop: V = z + N ts < N + m, ts in {0,1}  ->  result = V - ts * m < N *)
Lemma conditional_sub_correct z ts :
  wf z -> length z = n -> 0 <= ts <= 1 -> eval z + N * ts < N + M -> 0 < M ->
  let r := conditional_sub z m (from_word_lsb ts) in
  wf r /\ length r = n /\ eval r = eval z + N * ts - ts * M.
Proof.
  intros Hz Hlz Hts HV HM. cbv zeta. unfold conditional_sub.
  rewrite from_word_lsb_01 by assumption.
  assert (Hb : is_borrow (choice_of_bool (ts =? 1))) by (destruct (ts =? 1); [right | left]; reflexivity).
  pose proof (bitand_limb_borrow m _ Hm Hb) as (Hpe & Hpw & Hpl).
  destruct (sbb_limbs z (bitand_limb m (choice_of_bool (ts =? 1))) 0) as [r bo] eqn:E. cbn [fst].
  pose proof (sbb_limbs_correct z _ 0 r bo Hz Hpw ltac:(subst n; lia) is_word_0 E) as (Hwr & Hlr & [(Hz0 & _)|(_ & Hib & He)]).
  { subst n. lia. }
  rewrite bin_0, Hpe, Hlz in He. fold N M in He.
  pose proof (eval_bounds r Hwr) as Br. rewrite Hlr, Hlz in Br. fold N in Br.
  pose proof (eval_bounds z Hz) as Bz. rewrite Hlz in Bz. fold N in Bz.
  pose proof (eval_bounds m Hm) as Bm. nrm.
  split; [assumption|]. split; [lia|].
  assert (ts = 0 \/ ts = 1) as [-> | ->] by lia.
  - change (0 =? 1) with false in He. cbn [choice_of_bool] in He. rewrite bout_0 in He.
    destruct Hib as [-> | ->]; rewrite ?bout_0, ?bout_MAXW in He; lia.
  - change (1 =? 1) with true in He. cbn [choice_of_bool] in He. rewrite bout_MAXW in He.
    destruct Hib as [-> | ->]; rewrite ?bout_0, ?bout_MAXW in He; lia.
Qed.

(** the value equation of almost_montgomery_mul *)
Theorem amm_correct x y :
  wf x -> wf y -> length x = n -> length y = n -> 0 < M ->
  let a := almost_montgomery_mul x y m k in
  wf a /\ length a = n /\ 0 <= eval a < N /\
  exists U e, 0 <= U < N /\ 0 <= e <= 1 /\ N * (eval a + e * M) = eval x * eval y + U * M.
Proof.
  intros Hx Hy Hlx Hly HM. cbv zeta. unfold almost_montgomery_mul.
  destruct (amm_loop y (zeros (length m)) 0 x m k) as [z ts] eqn:E.
  destruct (amm_loop_correct x Hx Hlx y _ 0 z ts Hy (wf_zeros _) (length_zeros _) is_word_0 E)
    as (Hz & Hlz & Hts & U & HU & HE).
  rewrite eval_zeros in HE. rewrite Hly in HE, HU.
  pose proof (Bn_pos (length m)) as HN.
  pose proof (eval_bounds x Hx) as Bx. pose proof (eval_bounds y Hy) as By. pose proof (eval_bounds z Hz) as Bz.
  pose proof (eval_bounds m Hm) as Bm. rewrite Hlx in Bx. rewrite Hly in By. rewrite Hlz in Bz. nrm.
  assert (Hxy : eval x * eval y <= (N - 1) * (N - 1)).
  { apply Z.mul_le_mono_nonneg; lia. }
  assert (HUM : U * M <= (N - 1) * M) by (apply Z.mul_le_mono_nonneg_r; lia).
  assert (HV : eval z + N * ts < N + M).
  { apply Z.mul_lt_mono_pos_l with (p := N); [lia|]. nia. }
  assert (Hts1 : 0 <= ts <= 1).
  { unfold is_word in Hts. split; [lia|]. destruct (Z_le_gt_dec ts 1); [assumption|].
    assert (N * 2 <= N * ts) by (apply Z.mul_le_mono_nonneg_l; lia). lia. }
  destruct (conditional_sub_correct z ts Hz Hlz Hts1 HV HM) as (Hwr & Hlr & Her).
  split; [assumption|]. split; [assumption|].
  pose proof (eval_bounds _ Hwr) as Br. rewrite Hlr in Br. nrm. split; [exact Br|].
  exists U, ts. split; [lia|]. split; [assumption|]. rewrite Her.
  replace (eval z + N * ts - ts * M + ts * M) with (eval z + N * ts) by ring. lia.
Qed.

(** congruence and the bounds the callers need *)
Corollary amm_congr x y :
  wf x -> wf y -> length x = n -> length y = n -> 0 < M ->
  (eval (almost_montgomery_mul x y m k) * N) mod M = (eval x * eval y) mod M.
Proof.
  intros Hx Hy Hlx Hly HM.
  destruct (amm_correct x y Hx Hy Hlx Hly HM) as (_ & _ & _ & U & e & HU & He & HE).
  replace (eval (almost_montgomery_mul x y m k) * N) with (eval x * eval y + (U - N * e) * M) by lia.
  apply Z.mod_add. lia.
Qed.

(** AMM x y < x*y/R + m; in particular below 2m as soon as one operand is canonical *)
Theorem amm_lt_2m x y :
  wf x -> wf y -> length x = n -> length y = n -> 0 < M -> (eval x < M \/ eval y < M) ->
  eval (almost_montgomery_mul x y m k) < 2 * M.
Proof.
  intros Hx Hy Hlx Hly HM Hcan.
  destruct (amm_correct x y Hx Hy Hlx Hly HM) as (_ & _ & Ba & U & e & HU & He & HE).
  pose proof (eval_bounds x Hx) as Bx. pose proof (eval_bounds y Hy) as By.
  rewrite Hlx in Bx. rewrite Hly in By.
  pose proof (eval_bounds m Hm) as Bm. nrm.
  set (A := eval (almost_montgomery_mul x y m k)) in *.
  assert (Hxy : eval x * eval y <= (M - 1) * (N - 1)).
  { destruct Hcan; [apply Z.mul_le_mono_nonneg; lia|].
    rewrite (Z.mul_comm (M - 1)). apply Z.mul_le_mono_nonneg; lia. }
  assert (HUM : U * M <= (N - 1) * M) by (apply Z.mul_le_mono_nonneg_r; lia).
  assert (e = 0 \/ e = 1) as [-> | ->] by lia.
  - apply Z.mul_lt_mono_pos_l with (p := N); [lia|]. nia.
  - assert (N * (A + 1 * M) < N * (2 * M)) by nia.
    assert (A + 1 * M < 2 * M) by (apply Z.mul_lt_mono_pos_l with (p := N); lia). lia.
Qed.

(** claim 1 of the source: f(AMM(x, y)) <= min(f(x), f(y)) + 1 with f(v) = floor(v / m) *)
Theorem amm_bound x y :
  wf x -> wf y -> length x = n -> length y = n -> 0 < M ->
  eval (almost_montgomery_mul x y m k) / M <= Z.min (eval x / M) (eval y / M) + 1.
Proof.
  intros Hx Hy Hlx Hly HM.
  destruct (amm_correct x y Hx Hy Hlx Hly HM) as (_ & _ & Ba & U & e & HU & He & HE).
  pose proof (eval_bounds x Hx) as Bx. pose proof (eval_bounds y Hy) as By.
  rewrite Hlx in Bx. rewrite Hly in By. nrm.
  set (A := eval (almost_montgomery_mul x y m k)) in *.
  assert (Hgen : forall u v, 0 <= u < N -> 0 <= v < N -> u * v = eval x * eval y -> A / M <= v / M + 1).
  { intros u v Hu Hv Huv.
    pose proof (Z.div_mod v M ltac:(lia)) as Dv. pose proof (Z.mod_pos_bound v M HM) as Mv.
    set (f := v / M) in *.
    assert (Hf0 : 0 <= f) by (apply Z.div_pos; lia).
    (* u * v < N * (f + 1) * M *)
    assert (Hv1 : v <= (f + 1) * M - 1) by lia.
    assert (u * v <= (N - 1) * ((f + 1) * M - 1)) by (apply Z.mul_le_mono_nonneg; lia).
    assert (HUM : U * M <= (N - 1) * M) by (apply Z.mul_le_mono_nonneg_r; lia).
    assert (0 <= e * M) by (apply Z.mul_nonneg_nonneg; lia).
    assert (HA : N * A < N * ((f + 2) * M)).
    { assert (0 <= (f + 1) * M) by (apply Z.mul_nonneg_nonneg; lia). nia. }
    assert (A < (f + 2) * M) by (apply Z.mul_lt_mono_pos_l with (p := N); lia).
    apply Z.lt_succ_r. apply Z.div_lt_upper_bound; lia. }
  apply Z.min_case.
  - apply (Hgen (eval y) (eval x)); try lia.
  - apply (Hgen (eval x) (eval y)); try lia.
Qed.

(* ------------------------------------------------------------------ *)
(** * almost_montgomery_mul_by_one *)
Lemma amm1_loop_correct x : wf x -> length x = n -> forall cnt first z ts z' ts',
  wf z -> length z = n -> is_word ts ->
  amm1_loop cnt first z ts x m k = (z', ts') ->
  wf z' /\ length z' = n /\ is_word ts' /\
  exists U, 0 <= U < Bn cnt /\
    Bn cnt * (eval z' + N * ts') = eval z + N * ts + (if first then match cnt with O => 0 | _ => eval x end else 0) + U * M.
Proof.
  intros Hx Hlx. induction cnt as [|c IH]; intros first z ts z' ts' Hz Hlz Hts E.
  - cbn [amm1_loop] in E. inv_pair E. split; [assumption|]. split; [assumption|]. split; [assumption|].
    exists 0. rewrite Bn_0. destruct first; lia.
  - cbn [amm1_loop] in E.
    destruct (if first then add_mul_carry z x 1 else (z, 0)) as [z1 cy] eqn:E0.
    destruct (amm_tail z1 cy ts m k) as [z2 ts2] eqn:E1.
    assert (H0 : wf z1 /\ length z1 = n /\ is_word cy /\ eval z1 + N * cy = eval z + (if first then eval x else 0)).
    { destruct first.
      - unfold add_mul_carry in E0.
        pose proof (mac_by_limb_correct z x 1 0 z1 cy Hz Hx ltac:(lia) is_word_1 is_word_0 E0) as (H1 & Hz1 & Hl1 & Hc).
        rewrite Hlz in H1, Hl1. change (Bn n) with N in H1.
        split; [assumption|]. split; [assumption|]. split; [assumption|]. lia.
      - inv_pair E0. split; [assumption|]. split; [assumption|]. split; [apply is_word_0 | lia]. }
    destruct H0 as (Hz1 & Hl1 & Hcy & H1).
    destruct (amm_tail_correct z1 cy ts z2 ts2 Hz1 Hl1 Hcy Hts E1) as (Hz2 & Hl2 & Hts2 & t & Ht & HE1).
    destruct (IH false _ _ _ _ Hz2 Hl2 Hts2 E) as (A & C & D & U' & HU' & HE).
    split; [assumption|]. split; [assumption|]. split; [assumption|]. exists (t + B * U'). rewrite Bn_S.
    pose proof B_pos. pose proof (Bn_pos c). split.
    + assert (B * U' <= B * (Bn c - 1)) by (apply Z.mul_le_mono_nonneg_l; lia).
      assert (0 <= B * U') by (apply Z.mul_nonneg_nonneg; lia). lia.
    + assert (HB : B * (Bn c * (eval z' + N * ts')) = B * (eval z2 + N * ts2) + B * (U' * M)) by (rewrite HE; ring).
      replace (B * Bn c * (eval z' + N * ts')) with (B * (Bn c * (eval z' + N * ts'))) by ring.
      rewrite HB, HE1. destruct first; lia.
Qed.

(** retrieve: for a canonical operand the result is canonical without any subtraction (claim 2, for x < m) *)
Theorem amm_by_one_reduced x :
  wf x -> length x = n -> eval x < M ->
  let a := almost_montgomery_mul_by_one x m k in
  wf a /\ length a = n /\ 0 <= eval a < M /\ (eval a * N) mod M = eval x mod M.
Proof.
  intros Hx Hlx HxM. cbv zeta. unfold almost_montgomery_mul_by_one.
  destruct (amm1_loop (length m) true (zeros (length m)) 0 x m k) as [z ts] eqn:E.
  destruct (amm1_loop_correct x Hx Hlx _ true _ 0 z ts (wf_zeros _) (length_zeros _) is_word_0 E)
    as (Hz & Hlz & Hts & U & HU & HE).
  rewrite eval_zeros in HE.
  assert (Hne : match length m with O => 0 | _ => eval x end = eval x) by (destruct (length m); [contradiction | reflexivity]).
  cbv iota in HE. rewrite Hne in HE.
  pose proof (Bn_pos (length m)) as HN.
  pose proof (eval_nonneg x Hx) as Bx. pose proof (eval_bounds z Hz) as Bz. rewrite Hlz in Bz.
  pose proof (eval_bounds m Hm) as Bm. nrm.
  assert (HM : 0 < M) by lia.
  assert (HUM : U * M <= (N - 1) * M) by (apply Z.mul_le_mono_nonneg_r; lia).
  assert (HV : eval z + N * ts < M).
  { apply Z.mul_lt_mono_pos_l with (p := N); [lia|]. lia. }
  assert (Hts0 : ts = 0).
  { unfold is_word in Hts. destruct (Z.eq_dec ts 0); [assumption|].
    assert (N * 1 <= N * ts) by (apply Z.mul_le_mono_nonneg_l; lia). lia. }
  subst ts.
  destruct (conditional_sub_correct z 0 Hz Hlz ltac:(lia) ltac:(lia) HM) as (Hwr & Hlr & Her).
  split; [assumption|]. split; [assumption|]. rewrite Her. split; [lia|].
  replace ((eval z + N * 0 - 0 * M) * N) with (eval x + U * M) by lia.
  apply Z.mod_add. lia.
Qed.

(* ------------------------------------------------------------------ *)
(** * BoxedUint::sub_assign_mod_with_carry and the fully reduced products *)
Lemma conditional_adc_assign_val a (choice : bool) :
  wf a -> length a = n ->
  let r := fst (conditional_adc_assign a m choice) in
  wf r /\ length r = n /\ eval r = (eval a + (if choice then M else 0)) mod N.
Proof.
  intros Ha Hla. cbv zeta. unfold conditional_adc_assign.
  replace (resize (length a) m) with m by (rewrite Hla; subst n; symmetry; apply resize_same).
  assert (Hb : is_borrow (if choice then MAXW else 0)) by (destruct choice; [right | left]; reflexivity).
  pose proof (bitand_limb_borrow m _ Hm Hb) as (Hpe & Hpw & Hpl).
  destruct (adc_limbs a (bitand_limb m (if choice then MAXW else 0)) 0) as [r c] eqn:E. cbn [fst].
  pose proof (adc_limbs_correct a _ 0 r c Ha Hpw ltac:(subst n; lia) is_word_0 E) as (He & Hw & Hlr & Hco & _).
  split; [assumption|]. split; [lia|].
  pose proof (eval_bounds r Hw) as Br. rewrite Hlr, Hla in Br.
  rewrite Hla, Hpe in He. nrm.
  assert (Hbo : bout (if choice then MAXW else 0) = if choice then 1 else 0) by (destruct choice; [apply bout_MAXW | apply bout_0]).
  rewrite Hbo in He. unfold is_word in Hco.
  apply (Z.mod_unique_pos _ N c); [lia|]. destruct choice; lia.
Qed.

Theorem boxed_sub_assign_mod_with_carry_correct a b :
  wf a -> wf b -> length a = n -> length b = n ->
  - M <= eval a - eval b < M ->
  let r := boxed_sub_assign_mod_with_carry a 0 b m in
  wf r /\ length r = n /\ eval r = (eval a - eval b) mod M.
Proof.
  intros Ha Hb Hla Hlb HD. cbv zeta. unfold boxed_sub_assign_mod_with_carry.
  destruct (sbb_limbs a b 0) as [out borrow] eqn:E.
  pose proof (sbb_limbs_correct a b 0 out borrow Ha Hb ltac:(lia) is_word_0 E) as (Hwo & Hlo & [(Hz & _)|(_ & Hib & He)]).
  { subst n. lia. }
  rewrite bin_0, Hla in He. nrm.
  rewrite carry_mask_0 by (apply is_borrow_word; assumption).
  destruct (conditional_adc_assign_val out (negb (borrow =? 0)) Hwo ltac:(lia)) as (Hwr & Hlr & Her).
  split; [assumption|]. split; [assumption|]. rewrite Her.
  pose proof (eval_bounds a Ha) as Ba. pose proof (eval_bounds b Hb) as Bb. pose proof (eval_bounds out Hwo) as Bo.
  pose proof (eval_bounds m Hm) as Bm. rewrite Hla in Ba. rewrite Hlb in Bb. rewrite Hlo, Hla in Bo. nrm.
  destruct Hib as [-> | ->]; rewrite ?bout_0, ?bout_MAXW in He.
  - change (negb (0 =? 0)) with false. cbv iota.
    rewrite Z.add_0_r, (Z.mod_small (eval out)) by lia. rewrite Z.mod_small by lia. lia.
  - assert (HMx : negb (MAXW =? 0) = true) by reflexivity. rewrite HMx.
    rewrite (mod_neg_once (eval a - eval b)) by lia.
    symmetry. apply (Z.mod_unique_pos _ N 1); lia.
Qed.

(** BoxedMontyMultiplier::mul / mul_assign / square / square_assign, BoxedMontyForm::new: one canonical operand is
    enough for a canonical result (AMM < 2m, then one conditional subtraction) *)
Theorem boxed_monty_mul_correct x y :
  wf x -> wf y -> length x = n -> length y = n -> 0 < M -> (eval x < M \/ eval y < M) ->
  let r := boxed_monty_mul x y m k in
  wf r /\ length r = n /\ 0 <= eval r < M /\ (eval r * N) mod M = (eval x * eval y) mod M.
Proof.
  intros Hx Hy Hlx Hly HM Hcan. cbv zeta. unfold boxed_monty_mul.
  destruct (amm_correct x y Hx Hy Hlx Hly HM) as (Hwa & Hla & Ba & _).
  pose proof (amm_lt_2m x y Hx Hy Hlx Hly HM Hcan) as H2.
  pose proof (amm_congr x y Hx Hy Hlx Hly HM) as Hc.
  set (A := almost_montgomery_mul x y m k) in *.
  destruct (boxed_sub_assign_mod_with_carry_correct A m Hwa Hm Hla eq_refl ltac:(fold M; lia)) as (Hwr & Hlr & Her).
  split; [assumption|]. split; [assumption|]. rewrite Her. fold M.
  pose proof (Z.mod_pos_bound (eval A - M) M HM). split; [lia|].
  rewrite Zmult_mod, Z.mod_mod, <- Zmult_mod by lia.
  replace ((eval A - M) * N) with (eval A * N + (- N) * M) by ring.
  rewrite Z.mod_add by lia. exact Hc.
Qed.
End Amm.
