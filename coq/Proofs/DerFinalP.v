(** C18 proofs, part 5: the statements of Props/C18.v that combine encoder and decoder. *)
From CB Require Import Model.Limbs Model.Conv Model.Der Proofs.WordP Proofs.LimbsP Proofs.ConvDigitsP Proofs.ConvBytesP
  Proofs.DerSpecP Proofs.DerCodecP Proofs.DerRoutesP Proofs.RlpCodecP.
From Coq Require Import ZArith Lia List Bool.
Import ListNotations.
Open Scope Z_scope.
Open Scope list_scope.

Theorem der_encode_ok ls : wf ls -> (1 <= length ls)%nat -> 8 * Z.of_nat (length ls) + 7 <= LEN_MAX ->
  der_encode ls = Ok (sp_der_encode (eval ls)).
Proof. intros Hw Hn Hb. apply der_encode_spec; try assumption. apply width_total_len; assumption. Qed.

Theorem der_roundtrip_model fx ls : wf ls -> (1 <= length ls)%nat -> 8 * Z.of_nat (length ls) + 7 <= LEN_MAX ->
  exists bs, der_encode ls = Ok bs /\ der_decode fx (length ls) bs = Ok ls.
Proof.
  intros Hw Hn Hb. exists (sp_der_encode (eval ls)). split; [apply der_encode_ok; assumption|].
  apply der_roundtrip; try assumption. apply width_total_len; assumption.
Qed.

(** minimality of the encoder's output, spelled out *)
Theorem der_length_minimal k : 0 <= k <= LEN_MAX ->
  (k < 128 /\ sp_der_length k = [k]) \/
  (128 <= k /\ exists lb, sp_der_length k = (128 + lenZ lb) :: lb /\ wfd 256 lb /\ lb <> [] /\ no_lead0 lb /\ bev lb = k).
Proof.
  intros Hk. unfold sp_der_length. destruct (Z.ltb_spec k 128); [left; auto|]. right. split; [assumption|].
  exists (sp_be (sp_octets k) k). pose proof (octets_ge128 k H). rewrite lenZ_sp_be by lia. repeat split.
  - apply wfd_sp_be.
  - intros E. apply (f_equal (@length Z)) in E. rewrite length_sp_be in E. cbn [length] in E. lia.
  - apply minimal_no_lead0. lia.
  - apply bev_minimal. lia.
Qed.
Theorem der_encode_minimal ls : wf ls -> (1 <= length ls)%nat -> 8 * Z.of_nat (length ls) + 7 <= LEN_MAX ->
  exists c, der_encode ls = Ok (2 :: sp_der_length (lenZ c) ++ c) /\ wfd 256 c /\ bev c = eval ls /\ der_canonb c = true.
Proof.
  intros Hw Hn Hb. pose proof (eval_bounds ls Hw) as Hx. destruct (content_canon (eval ls) ltac:(lia)) as (A & B' & C & D).
  exists (sp_der_content (eval ls)). rewrite der_encode_ok by assumption. rewrite D. repeat split; assumption.
Qed.
(** the canonical-content predicate is exactly "no superfluous leading octet, non-negative" *)
Theorem der_canonb_spec c : der_canonb c = true <->
  exists b rest, c = b :: rest /\ b < 128 /\ (rest = [] \/ b <> 0 \/ exists d r, rest = d :: r /\ 128 <= d).
Proof.
  split.
  - destruct c as [|b rest]; [discriminate|]. cbn [der_canonb]. intros H. apply andb_prop in H. destruct H as [H1 H2].
    apply Z.ltb_lt in H1. exists b, rest. repeat split; try assumption. destruct rest as [|d r]; [left; reflexivity|].
    right. apply orb_prop in H2. destruct H2 as [H2|H2].
    + left. apply negb_true_iff in H2. apply Z.eqb_neq in H2. assumption.
    + right. exists d, r. apply Z.leb_le in H2. auto.
  - intros (b & rest & -> & Hb & Hr). cbn [der_canonb]. rewrite ltb_true by assumption. cbn [andb].
    destruct rest as [|d r]; [reflexivity|]. destruct Hr as [Hr | [Hr | (d' & r' & E & Hd)]]; [discriminate | |].
    + rewrite eqb_false by assumption. reflexivity.
    + apply cons_inj in E. destruct E as [<- <-]. rewrite leb_true by assumption. apply orb_true_r.
Qed.

(** the defect of the code as found, for every width: ANY canonical encoding of a value that does not fit panics *)
Theorem der_oversize_panics n x : Bn n <= x -> lenZ (sp_der_encode x) <= LEN_MAX -> der_decode false n (sp_der_encode x) = Pn.
Proof. intros. apply der_decode_oversize; assumption. Qed.
Theorem der_oversize_err n x : Bn n <= x -> lenZ (sp_der_encode x) <= LEN_MAX -> der_decode true n (sp_der_encode x) = Er E_Length.
Proof. intros. apply der_decode_oversize; assumption. Qed.

(** the other DER routes accept exactly the same octet strings (repaired code) *)
Theorem der_from_any_same n bs v : wfd 256 bs -> (der_from_any true n bs = Ok v <-> der_decode true n bs = Ok v).
Proof.
  intros Hw. split; intros H.
  - destruct (der_from_any_ok true n bs v Hw H) as (x & Hx & -> & Hl & Ht). rewrite der_decode_run by assumption. assumption.
  - destruct (der_decode_ok true n bs v Hw H) as (x & Hx & -> & Hl & Ht). rewrite der_from_any_run by assumption. assumption.
Qed.
