(** C09 proofs, part 1: the arithmetic behind the value-level Montgomery context of Model/Pow.v
    (R^-1 mod m by halving, -m^-1 mod 2^k, representatives), powmod = Z.pow mod m, window arithmetic on exponents. *)
From CB Require Import Model.Limbs Model.AddSub Model.ModArith Model.Pow Proofs.WordP Proofs.LimbsP.
From Coq Require Import ZArith Lia List Bool Znumtheory.
Open Scope Z_scope.

Lemma pw_Bn_pow n : Bn n = 2 ^ (64 * Z.of_nat n).
Proof.
  induction n as [|n IH]; [rewrite Bn_0; reflexivity|].
  rewrite Bn_S, IH, B_val, <- Z.pow_add_r by lia. f_equal. lia.
Qed.
Lemma pw_Bn_pow' n : Bn n = 2 ^ Z.of_nat (64 * n).
Proof. rewrite pw_Bn_pow. f_equal. lia. Qed.

(* ------------------------------------------------------------------ *)
(** * congruences *)

Lemma mulmod_l a b m : (a mod m * b) mod m = (a * b) mod m.
Proof. apply Zmult_mod_idemp_l. Qed.
Lemma mulmod_r a b m : (a * (b mod m)) mod m = (a * b) mod m.
Proof. apply Zmult_mod_idemp_r. Qed.
Lemma mulmod_both a b m : ((a mod m) * (b mod m)) mod m = (a * b) mod m.
Proof. symmetry. apply Zmult_mod. Qed.
Lemma mul_cong a a' b b' m : a mod m = a' mod m -> b mod m = b' mod m -> (a * b) mod m = (a' * b') mod m.
Proof. intros Ha Hb. rewrite (Zmult_mod a b), (Zmult_mod a' b'), Ha, Hb. reflexivity. Qed.
Lemma add_cong a a' b b' m : a mod m = a' mod m -> b mod m = b' mod m -> (a + b) mod m = (a' + b') mod m.
Proof. intros Ha Hb. rewrite (Zplus_mod a b), (Zplus_mod a' b'), Ha, Hb. reflexivity. Qed.
Lemma pow_cong a a' e m : 0 <= e -> a mod m = a' mod m -> (a ^ e) mod m = (a' ^ e) mod m.
Proof.
  intros He Ha. revert e He. apply natlike_ind.
  - reflexivity.
  - intros e He IH. rewrite !Z.pow_succ_r by assumption. apply mul_cong; assumption.
Qed.
Lemma powmod_mod a e m : 0 <= e -> ((a mod m) ^ e) mod m = (a ^ e) mod m.
Proof.
  intros He. apply pow_cong; [assumption|]. destruct (Z.eq_dec m 0) as [->|Hm].
  - rewrite !Zmod_0_r. reflexivity.
  - apply Z.mod_mod. assumption.
Qed.

(* ------------------------------------------------------------------ *)
(** * R^-1 mod m by repeated halving *)

Lemma half_mod_spec m x : 0 < m -> Z.odd m = true -> 0 <= x < m ->
  0 <= half_mod m x < m /\ (2 * half_mod m x = x \/ 2 * half_mod m x = x + m).
Proof.
  intros Hm Hodd Hx. unfold half_mod.
  destruct (Z.even x) eqn:Ev.
  - apply Z.even_spec in Ev. destruct Ev as [y ->]. rewrite Z.mul_comm, Z.div_mul by lia. lia.
  - assert (Hox : Z.odd x = true) by (rewrite <- Z.negb_even, Ev; reflexivity).
    apply Z.odd_spec in Hox. destruct Hox as [y ->].
    apply Z.odd_spec in Hodd. destruct Hodd as [z ->].
    replace (2 * y + 1 + (2 * z + 1)) with ((y + z + 1) * 2) by lia.
    rewrite Z.div_mul by lia. lia.
Qed.

Lemma pow2_inv_spec k m : 0 < m -> Z.odd m = true ->
  0 <= pow2_inv k m < m /\ (2 ^ Z.of_nat k * pow2_inv k m) mod m = 1 mod m.
Proof.
  intros Hm Hodd. unfold pow2_inv. induction k as [|k IH].
  - change (Nat.iter 0 (half_mod m) (1 mod m)) with (1 mod m). change (2 ^ Z.of_nat 0) with 1. rewrite Z.mul_1_l.
    split; [apply Z.mod_pos_bound; lia | apply Z.mod_mod; lia].
  - change (Nat.iter (S k) (half_mod m) (1 mod m)) with (half_mod m (Nat.iter k (half_mod m) (1 mod m))). destruct IH as [Hr He]. set (p := Nat.iter k (half_mod m) (1 mod m)) in *.
    destruct (half_mod_spec m p Hm Hodd Hr) as [Hh Hd]. split; [assumption|].
    rewrite Nat2Z.inj_succ, Z.pow_succ_r by lia.
    replace (2 * 2 ^ Z.of_nat k * half_mod m p) with (2 ^ Z.of_nat k * (2 * half_mod m p)) by ring.
    destruct Hd as [Hd | Hd]; rewrite Hd; [assumption|].
    rewrite Z.mul_add_distr_l, Z.mod_add by lia. assumption.
Qed.

Lemma mg_rinv_spec n m : 0 < m -> Z.odd m = true ->
  0 <= mg_rinv n m < m /\ (Bn n * mg_rinv n m) mod m = 1 mod m.
Proof.
  intros Hm Hodd. unfold mg_rinv. destruct (pow2_inv_spec (64 * n) m Hm Hodd) as [H1 H2]. split; [assumption|].
  rewrite pw_Bn_pow'. assumption.
Qed.

(** -m^-1 mod 2^k from the Bezout identity 2^k * 2^-k - m * m' = 1 *)
Lemma neg_inv_pow2_spec k m : 0 < m -> Z.odd m = true ->
  0 <= neg_inv_pow2 k m < 2 ^ Z.of_nat k /\ (m * neg_inv_pow2 k m + 1) mod 2 ^ Z.of_nat k = 0.
Proof.
  intros Hm Hodd. unfold neg_inv_pow2. destruct (pow2_inv_spec k m Hm Hodd) as [Hr He].
  set (P := 2 ^ Z.of_nat k) in *. set (p := pow2_inv k m) in *.
  assert (HP : 0 < P) by (apply Z.pow_pos_nonneg; lia).
  split; [apply Z.mod_pos_bound; assumption|].
  assert (Hdiv : (P * p - 1) mod m = 0).
  { rewrite Zminus_mod, He, <- Zminus_mod. replace (1 - 1) with 0 by lia. apply Zmod_0_l. }
  pose proof (Z.div_mod (P * p - 1) m ltac:(lia)) as Hdm. rewrite Hdiv in Hdm.
  set (t := (P * p - 1) / m) in *.
  rewrite Zplus_mod, mulmod_r, <- Zplus_mod.
  replace (m * t + 1) with (p * P) by lia. apply Z.mod_mul. lia.
Qed.

Lemma mg_neg_inv_spec m : 0 < m -> Z.odd m = true ->
  is_word (mg_neg_inv m) /\ (m * mg_neg_inv m + 1) mod B = 0.
Proof.
  intros Hm Hodd. unfold mg_neg_inv. pose proof (neg_inv_pow2_spec 64 m Hm Hodd) as H.
  change (2 ^ Z.of_nat 64) with B in H. exact H.
Qed.

Lemma mg_neg_inv_full_spec n m : 0 < m -> Z.odd m = true ->
  0 <= mg_neg_inv_full n m < Bn n /\ (m * mg_neg_inv_full n m + 1) mod Bn n = 0.
Proof.
  intros Hm Hodd. unfold mg_neg_inv_full. pose proof (neg_inv_pow2_spec (64 * n) m Hm Hodd) as H.
  rewrite <- pw_Bn_pow' in H. exact H.
Qed.

(** the Montgomery representative of a residue is unique *)
Lemma rep_unique R rinv m z v : 0 < m -> (R * rinv) mod m = 1 mod m ->
  0 <= z < m -> (z * rinv) mod m = v mod m -> z = (v * R) mod m.
Proof.
  intros Hm Hr Hz Hv.
  rewrite <- (Z.mod_small z m) at 1 by assumption.
  rewrite <- mulmod_l, <- Hv, mulmod_l.
  replace (z * rinv * R) with (z * (R * rinv)) by ring.
  rewrite <- mulmod_r, Hr, mulmod_r. f_equal. ring.
Qed.

(* ------------------------------------------------------------------ *)
(** * powmod *)

Lemma powmod_pos_correct a p m : powmod_pos a p m = (a ^ Zpos p) mod m.
Proof.
  induction p as [p IH|p IH|].
  - cbn [powmod_pos]. rewrite IH, Pos2Z.inj_xI.
    replace (2 * Z.pos p + 1) with (Z.pos p + Z.pos p + 1) by lia.
    rewrite !Z.pow_add_r, Z.pow_1_r by lia.
    rewrite mulmod_l. apply mul_cong; [symmetry; apply Zmult_mod | reflexivity].
  - cbn [powmod_pos]. rewrite IH, Pos2Z.inj_xO.
    replace (2 * Z.pos p) with (Z.pos p + Z.pos p) by lia.
    rewrite Z.pow_add_r by lia. rewrite <- Zmult_mod. reflexivity.
  - cbn [powmod_pos]. rewrite Z.pow_1_r. reflexivity.
Qed.
Lemma powmod_correct a e m : 0 <= e -> powmod a e m = (a ^ e) mod m.
Proof.
  intros He. destruct e as [|p|p]; [reflexivity | apply powmod_pos_correct | lia].
Qed.

(* ------------------------------------------------------------------ *)
(** * exponent windows *)

Lemma nthz_eval ls : forall i, wf ls -> nthz ls i = (eval ls / Bn i) mod B.
Proof.
  unfold nthz. induction ls as [|x ls IH]; intros i Hw.
  - destruct i; cbn [nth eval]; rewrite Zdiv_0_l, Zmod_0_l; reflexivity.
  - apply wf_cons in Hw. destruct Hw as [Hx Hl]. unfold is_word in Hx. pose proof B_gt1.
    destruct i as [|i]; cbn [nth eval].
    + rewrite Bn_0, Z.div_1_r. replace (x + B * eval ls) with (x + eval ls * B) by ring.
      rewrite Z.mod_add by lia. symmetry. apply Z.mod_small. lia.
    + rewrite IH by assumption. rewrite Bn_S. rewrite <- Z.div_div by (pose proof (Bn_pos i); lia).
      f_equal. f_equal. replace (x + B * eval ls) with (eval ls * B + x) by ring.
      rewrite Z.div_add_l by lia. rewrite (Z.div_small x B) by lia. lia.
Qed.

Lemma pow2_split a b : 0 <= a -> 0 <= b -> 2 ^ (a + b) = 2 ^ a * 2 ^ b.
Proof. intros. apply Z.pow_add_r; assumption. Qed.

(** (x mod 2^k) / 2^g = (x / 2^g) mod 2^(k-g) *)
Lemma mod_div_pow2 x g k : 0 <= g <= k -> (x mod 2 ^ k) / 2 ^ g = (x / 2 ^ g) mod 2 ^ (k - g).
Proof.
  intros H. replace k with (g + (k - g)) at 1 by lia. rewrite pow2_split by lia.
  assert (0 < 2 ^ g) by (apply Z.pow_pos_nonneg; lia). assert (0 < 2 ^ (k - g)) by (apply Z.pow_pos_nonneg; lia).
  rewrite Z.rem_mul_r by lia.
  replace (x mod 2 ^ g + 2 ^ g * ((x / 2 ^ g) mod 2 ^ (k - g))) with ((x / 2 ^ g) mod 2 ^ (k - g) * 2 ^ g + x mod 2 ^ g) by ring.
  rewrite Z.div_add_l by lia.
  rewrite (Z.div_small (x mod 2 ^ g)) by (apply Z.mod_pos_bound; lia). lia.
Qed.

(** a 4-bit window wholly below bit k is the same in x and in x mod 2^k *)
Lemma window_below x g k : 0 <= g -> g + 4 <= k -> (x / 2 ^ g) mod 16 = ((x mod 2 ^ k) / 2 ^ g) mod 16.
Proof.
  intros Hg Hk. rewrite mod_div_pow2 by lia.
  replace (k - g) with (4 + (k - g - 4)) by lia. rewrite (pow2_split 4 (k - g - 4)) by lia. change (2 ^ 4) with 16.
  assert (0 < 2 ^ (k - g - 4)) by (apply Z.pow_pos_nonneg; lia).
  rewrite Z.rem_mul_r by lia.
  set (y := x / 2 ^ g). replace (y mod 16 + 16 * ((y / 16) mod 2 ^ (k - g - 4))) with (y mod 16 + (y / 16) mod 2 ^ (k - g - 4) * 16) by ring.
  rewrite Z.mod_add by lia. rewrite Z.mod_mod by lia. reflexivity.
Qed.

(** the window of a word inside the whole exponent *)
Lemma word_window x i w : 0 <= x -> (w < 16)%nat ->
  (((x / Bn i) mod B) / 2 ^ (Z.of_nat w * 4)) mod 16 = (x / 2 ^ (64 * Z.of_nat i + 4 * Z.of_nat w)) mod 16.
Proof.
  intros Hx Hw.
  rewrite pw_Bn_pow. set (g := Z.of_nat w * 4).
  assert (Hg : 0 <= g /\ g + 4 <= 64) by (unfold g; lia).
  rewrite B_val. rewrite mod_div_pow2 by lia.
  rewrite Z.div_div by (try apply Z.pow_pos_nonneg; lia || (pose proof (Z.pow_pos_nonneg 2 (64 * Z.of_nat i)); lia)).
  rewrite <- pow2_split by lia.
  replace (64 * Z.of_nat i + 4 * Z.of_nat w) with (64 * Z.of_nat i + g) by (unfold g; lia).
  replace (64 - g) with (4 + (60 - g)) by lia. rewrite (pow2_split 4 (60 - g)) by lia. change (2 ^ 4) with 16.
  assert (0 < 2 ^ (60 - g)) by (apply Z.pow_pos_nonneg; lia).
  rewrite Z.rem_mul_r by lia.
  set (y := x / 2 ^ (64 * Z.of_nat i + g)). replace (y mod 16 + 16 * ((y / 16) mod 2 ^ (60 - g))) with (y mod 16 + (y / 16) mod 2 ^ (60 - g) * 16) by ring.
  rewrite Z.mod_add by lia. apply Z.mod_mod. lia.
Qed.

Lemma land_15 x : 0 <= x -> Z.land x 15 = x mod 16.
Proof. intros. change 15 with (Z.ones 4). rewrite Z.land_ones by lia. reflexivity. Qed.
Lemma land_mask x s : 0 <= x -> 0 <= s -> Z.land x (2 ^ s - 1) = x mod 2 ^ s.
Proof. intros. replace (2 ^ s - 1) with (Z.ones s) by (rewrite Z.ones_equiv; lia). apply Z.land_ones. assumption. Qed.
