(** C15 (glue tables): the model table and the spec table of Model/Glue.v agree on EVERY key, for all well-formed
    argument lists that satisfy the typing side condition of the key, in both profiles, wherever the spec entry is
    defined.  [run_tab t k dbg a] is the table lookup of Model/Api.v (Proofs/TotalityP.v).
    Side conditions ([glue_tbl_ty]): the two halves of a wide value have one limb count (Rust's types);
    "glue.zero_like_wrapping_boxed" agrees at every precision since the repair of finding F32 (/repo 526c7f5). *)
From CB Require Import Model.Limbs Model.AddSub Model.Cmp Model.Conv Model.Bits Model.Div Model.Glue
  Proofs.WordP Proofs.LimbsP Proofs.CmpWordP Proofs.ConvDigitsP Proofs.ConvBytesP Proofs.TotalityP.
From CB Require Proofs.ConvTablesP Proofs.BitsTablesP Proofs.WrappersP.
From Coq Require Import ZArith Lia List String Bool.
Import ListNotations.
Open Scope Z_scope.
Notation length := List.length.

(* ------------------------------------------------------------------ typing side conditions (boolean) *)
Definition gtyping := list (string * (list (list Z) -> bool)).
Definition gtypedb (t : gtyping) (k : string) (a : list (list Z)) : bool :=
  match lookup k t with Some P => P a | None => true end.
Definition ty_one_limb (a : list (list Z)) : bool := (length (arg 0 a) =? 1)%nat.
(* (lo, hi) of a wide value: two Uint<N> *)
Definition ty_halves (a : list (list Z)) : bool := (length (arg 1 a) =? length (arg 0 a))%nat.

Open Scope string_scope.
Definition glue_tbl_ty : gtyping :=
  [("glue.shl_wide_expect", ty_halves); ("glue.shr_wide_expect", ty_halves)].
Close Scope string_scope.

Definition tbl_ok (k : string) : Prop :=
  forall dbg a, wf_args a -> gtypedb glue_tbl_ty k a = true ->
    run_tab ops_glue_spec k dbg a <> Unsupported ->
    run_tab ops_glue_model k dbg a = run_tab ops_glue_spec k dbg a.

Ltac open_ty H :=
  unfold gtypedb in H;
  lazy beta iota delta [lookup glue_tbl_ty String.eqb Ascii.eqb Bool.eqb] in H.
Ltac start :=
  let dbg := fresh "dbg" in let a := fresh "a" in
  let Hwf := fresh "Hwf" in let Hty := fresh "Hty" in let Hdom := fresh "Hdom" in
  intros dbg a Hwf Hty Hdom; open_ty Hty; revert Hdom; open_tabs ops_glue_model ops_glue_spec; intros Hdom.

(* ------------------------------------------------------------------ small facts *)
Lemma to_limbs_S_word k x : is_word x -> to_limbs (S k) x = x :: zeros k.
Proof.
  intros [H0 H1]. cbn [to_limbs]. rewrite Z.mod_small, Z.div_small by lia.
  rewrite BitsTablesP.zeros_to_limbs. reflexivity.
Qed.
Lemma one_is_word : is_word 1.
Proof. pose proof B_gt1. unfold is_word. lia. Qed.
Lemma maxw_is_word : is_word MAXW.
Proof. pose proof B_gt1. unfold is_word. rewrite MAXW_val. lia. Qed.
Lemma zero_is_word : is_word 0.
Proof. pose proof B_gt1. unfold is_word. lia. Qed.
Lemma vec_into_boxed_nonempty ls : ls <> [] -> vec_into_boxed ls = ls.
Proof. destruct ls; [congruence | reflexivity]. Qed.
Lemma limbs_for_precision_ceil p : 0 < p -> limbs_for_precision p = Z.to_nat ((p + 63) / 64).
Proof.
  intros Hp. unfold limbs_for_precision. f_equal. cbv zeta.
  destruct (Z.ltb_spec 0 (p mod 64)); Z.div_mod_to_equations; lia.
Qed.
Lemma wfd256_wf bs : wfd 256 bs -> wf bs.
Proof.
  unfold wfd, wf, is_word. intros H. eapply Forall_impl; [|exact H]. cbv beta. intros x Hx.
  pose proof B_val as E. assert (256 < B) by (rewrite E; reflexivity). lia.
Qed.

(* the fields of a Reciprocal are words *)
Lemma reciprocal_word d : is_word (reciprocal d).
Proof.
  unfold reciprocal. cbv zeta. repeat (destruct (mulhilo _ _)). unfold wsub, wrap.
  apply Z.mod_pos_bound. apply B_pos.
Qed.
Lemma leading_zeros_word_word d : is_word d -> is_word (leading_zeros_word d).
Proof.
  intros [H0 H1]. unfold leading_zeros_word, bits_of, is_word. pose proof B_val as E.
  assert (64 < B) by (rewrite E; reflexivity).
  destruct (Z.leb_spec d 0); [lia|].
  pose proof (Z.log2_nonneg d). assert (Z.log2 d < 64) by (apply Z.log2_lt_pow2; lia). lia.
Qed.
Lemma g_recip_words d : is_word d ->
  is_word (r_d (g_recip d)) /\ is_word (r_shift (g_recip d)) /\ is_word (r_v (g_recip d)).
Proof.
  intros Hd. unfold g_recip. destruct (d =? 0); cbn [r_d r_shift r_v].
  - split; [apply maxw_is_word | split; [apply zero_is_word | apply one_is_word]].
  - unfold recip_new. cbn [r_d r_shift r_v]. split; [|split].
    + unfold wshl, wrap. apply Z.mod_pos_bound. apply B_pos.
    + apply leading_zeros_word_word. exact Hd.
    + apply reciprocal_word.
Qed.

(* serde of a Uint (copies of the two Conv facts, at the argument instead of the table entry) *)
Lemma ser_eq x : wf x ->
  uint_serde_ser x = sp_le_digits 256 8 (8 * Z.of_nat (length x)) ++ sp_le_digits 256 (8 * length x) (eval x).
Proof.
  intros Hw. unfold uint_serde_ser. cbv zeta. rewrite length_uint_to_le_bytes by exact Hw.
  rewrite uint_to_le_bytes_digits by exact Hw. rewrite !ConvTablesP.digits_le by reflexivity.
  rewrite Nat2Z.inj_mul. reflexivity.
Qed.
Lemma sp_bytes_arg_wfd bs o : wfd 256 bs -> sp_bytes_arg bs o = o.
Proof. intros H. unfold sp_bytes_arg. apply WrappersP.bytes_ok_wfd in H. rewrite H. reflexivity. Qed.
Lemma de_eq a rest : wf_args a -> wfd 256 rest -> gsp_uint_de (g_n 1 a) rest <> Unsupported ->
  uint_serde_de (g_n 1 a) rest = gsp_uint_de (g_n 1 a) rest.
Proof.
  intros Hwf Hb Hd.
  pose proof (ConvTablesP.tbl_uint_serde_de false [rest; arg 1 a]) as H.
  assert (Hwf' : wf_args [rest; arg 1 a]).
  { constructor; [apply wfd256_wf; exact Hb | constructor; [apply wf_arg; exact Hwf | constructor]]. }
  specialize (H Hwf' eq_refl). revert H. unfold run_tab.
  lazy beta iota delta [lookup ops_conv_model ops_conv_spec String.eqb Ascii.eqb Bool.eqb].
  change (cv_nat 1 [rest; arg 1 a]) with (g_n 1 a). change (arg 0 [rest; arg 1 a]) with rest. cbv zeta.
  change (sp_bytes_arg rest _) with (sp_bytes_arg rest (gsp_uint_de (g_n 1 a) rest)).
  rewrite sp_bytes_arg_wfd by exact Hb. intros H. apply H. exact Hd.
Qed.
Lemma limb_de_eq bs : wfd 256 bs -> gsp_limb_de bs <> Unsupported -> g_limb_de bs = gsp_limb_de bs.
Proof.
  intros Hb Hd. unfold g_limb_de, gsp_limb_de in *. destruct (Nat.ltb (length bs) 8) eqn:E1; [reflexivity|].
  destruct (Nat.eqb_spec (length bs) 8) as [Hl|]; [|contradiction Hd; reflexivity].
  rewrite firstn_all2 by lia. unfold word_from_le_bytes. rewrite ConvTablesP.horner_rev.
  rewrite WrappersP.to_limbs_1_word by (apply WrappersP.evalb8_word; assumption). reflexivity.
Qed.

(* ------------------------------------------------------------------ one lemma per key *)
Open Scope string_scope. Open Scope Z_scope.

Lemma tbl_zero : tbl_ok "glue.zero".
Proof. start. rewrite BitsTablesP.zeros_to_limbs. reflexivity. Qed.

Lemma tbl_one : tbl_ok "glue.one".
Proof.
  start. set (n := g_n 0 a) in *. destruct n as [|k]; [contradiction Hdom; reflexivity|].
  cbn [gsp_nonempty one_limbs]. rewrite to_limbs_S_word by apply one_is_word. reflexivity.
Qed.

Lemma tbl_max_boxed : tbl_ok "glue.max_boxed".
Proof.
  start. cbv zeta in *. destruct (Z.ltb_spec (sarg 0 a) 0) as [|Hp]; [contradiction Hdom; reflexivity|].
  unfold g_max_boxed.
  assert (E : Nat.max (limbs_for_precision (sarg 0 a)) 1 = Nat.max 1 (Z.to_nat ((sarg 0 a + 63) / 64))).
  { destruct (Z.eq_dec (sarg 0 a) 0) as [E0|Hn].
    - rewrite E0. vm_compute. reflexivity.
    - rewrite limbs_for_precision_ceil by lia. apply Nat.max_comm. }
  rewrite E. set (m := Nat.max 1 (Z.to_nat ((sarg 0 a + 63) / 64))).
  assert (Hm : m <> 0%nat) by (unfold m; lia).
  rewrite vec_into_boxed_nonempty.
  - rewrite BitsTablesP.maxs_to_limbs. reflexivity.
  - destruct m; [congruence | discriminate].
Qed.

Lemma tbl_nlimbs : tbl_ok "glue.nlimbs".
Proof. start. reflexivity. Qed.

Lemma tbl_bytes_precision : tbl_ok "glue.bytes_precision".
Proof.
  start. unfold lenZ, g_len. set (L := Z.of_nat (length (arg 0 a))).
  replace ((64 * L) / 8) with (L * 8) by (Z.div_mod_to_equations; lia). reflexivity.
Qed.

Lemma tbl_from_limb_like : tbl_ok "glue.from_limb_like".
Proof.
  start. set (n := g_len 1 a) in *. destruct n as [|k]; [contradiction Hdom; reflexivity|].
  cbn [gsp_nonempty g_from_limb]. rewrite to_limbs_S_word by (exact (sarg_word 0 a Hwf)). reflexivity.
Qed.

Lemma tbl_one_like : tbl_ok "glue.one_like".
Proof.
  start. set (n := g_len 0 a) in *. destruct n as [|k]; [contradiction Hdom; reflexivity|].
  cbn [gsp_nonempty g_from_limb]. rewrite to_limbs_S_word by apply one_is_word. reflexivity.
Qed.

Lemma tbl_zero_like : tbl_ok "glue.zero_like".
Proof. start. rewrite BitsTablesP.zeros_to_limbs. reflexivity. Qed.

Lemma tbl_zero_like_wrapping_boxed : tbl_ok "glue.zero_like_wrapping_boxed".
Proof. start. rewrite BitsTablesP.zeros_to_limbs. reflexivity. Qed.

Lemma tbl_recip_default : tbl_ok "glue.recip_default".
Proof. start. vm_compute. reflexivity. Qed.

Lemma tbl_recip_select : tbl_ok "glue.recip_select".
Proof.
  start. unfold carg, gsp_bool. set (c := negb (sarg 2 a =? 0)).
  destruct (g_recip_words (sarg 0 a) (sarg_word 0 a Hwf)) as (A1 & A2 & A3).
  destruct (g_recip_words (sarg 1 a) (sarg_word 1 a Hwf)) as (B1 & B2 & B3).
  unfold g_recip_select, g_recip_fields. cbn [r_d r_shift r_v].
  rewrite !st_select_spec by assumption. destruct c; reflexivity.
Qed.

Lemma tbl_cc_eq : tbl_ok "glue.cc_eq".
Proof.
  start. unfold ccarg, gsp_bool.
  destruct (negb (sarg 0 a =? 0)), (negb (sarg 1 a =? 0)); vm_compute; reflexivity.
Qed.

Lemma tbl_decode_error_text : tbl_ok "glue.decode_error_text".
Proof. start. reflexivity. Qed.
Lemma tbl_random_bits_error_text : tbl_ok "glue.random_bits_error_text".
Proof. start. reflexivity. Qed.
Lemma tbl_fmt_octal : tbl_ok "glue.fmt_octal".
Proof. start. reflexivity. Qed.

Lemma tbl_checked_ser : tbl_ok "glue.checked_ser".
Proof.
  start. unfold g_checked_ser, g_len. destruct (sarg 1 a =? 0); [reflexivity|].
  rewrite (ser_eq (arg 0 a)) by (apply wf_arg; exact Hwf). reflexivity.
Qed.

Lemma tbl_checked_ser_limb : tbl_ok "glue.checked_ser_limb".
Proof.
  start. unfold g_checked_ser, word_to_le_bytes. destruct (sarg 1 a =? 0); [reflexivity|].
  rewrite ConvTablesP.digits_le by reflexivity. reflexivity.
Qed.

Lemma checked_de_gen (inner sp : list Z -> outcome) bs :
  (forall rest, wfd 256 rest -> sp rest <> Unsupported -> inner rest = sp rest) ->
  gsp_checked_de sp bs <> Unsupported -> g_checked_de inner bs = gsp_checked_de sp bs.
Proof.
  intros Hin Hdom. unfold gsp_checked_de in *.
  destruct (ConvTablesP.bytes_dom' _ _ Hdom) as (Hb & E & Hd). rewrite E. clear E Hdom.
  unfold g_checked_de. destruct bs as [|t rest]; [reflexivity|].
  apply wfd_cons in Hb. destruct Hb as [_ Hb].
  destruct (t =? 0). { destruct rest; [reflexivity | contradiction Hd; reflexivity]. }
  destruct (t =? 1); [|reflexivity]. apply Hin; assumption.
Qed.

Lemma tbl_checked_de : tbl_ok "glue.checked_de".
Proof.
  start. apply checked_de_gen; [|exact Hdom]. intros rest Hb Hd. apply de_eq; assumption.
Qed.

Lemma tbl_checked_de_limb : tbl_ok "glue.checked_de_limb".
Proof. start. apply checked_de_gen; [|exact Hdom]. exact limb_de_eq. Qed.

Lemma tbl_pow_front : tbl_ok "glue.pow_front".
Proof. start. reflexivity. Qed.
Lemma tbl_multi_exp_front : tbl_ok "glue.multi_exp_front".
Proof. start. reflexivity. Qed.

Lemma g_expect_dom o : g_expect o <> Unsupported -> o <> Unsupported.
Proof. intros H E. apply H. rewrite E. reflexivity. Qed.

Lemma tbl_shl_wide_expect : tbl_ok "glue.shl_wide_expect".
Proof.
  start. apply g_expect_dom in Hdom.
  pose proof (BitsTablesP.tbl_uint_shl_vartime_wide dbg a Hwf Hty) as H. revert H. unfold run_tab.
  lazy beta iota delta [lookup Bits.ops_bits_model Bits.ops_bits_spec String.eqb Ascii.eqb Bool.eqb].
  intros H. rewrite (H Hdom). reflexivity.
Qed.

Lemma tbl_shr_wide_expect : tbl_ok "glue.shr_wide_expect".
Proof.
  start. apply g_expect_dom in Hdom.
  pose proof (BitsTablesP.tbl_uint_shr_vartime_wide dbg a Hwf Hty) as H. revert H. unfold run_tab.
  lazy beta iota delta [lookup Bits.ops_bits_model Bits.ops_bits_spec String.eqb Ascii.eqb Bool.eqb].
  intros H. rewrite (H Hdom). reflexivity.
Qed.
Close Scope string_scope.

(* ------------------------------------------------------------------ the area theorem *)
Create HintDb c15glue.
#[export] Hint Resolve tbl_zero tbl_one tbl_max_boxed tbl_nlimbs tbl_bytes_precision tbl_from_limb_like tbl_one_like
  tbl_zero_like tbl_zero_like_wrapping_boxed tbl_recip_default tbl_recip_select tbl_cc_eq tbl_decode_error_text
  tbl_random_bits_error_text tbl_fmt_octal tbl_checked_ser tbl_checked_ser_limb tbl_checked_de tbl_checked_de_limb
  tbl_pow_front tbl_multi_exp_front tbl_shl_wide_expect tbl_shr_wide_expect : c15glue.

Lemma glue_all_keys_ok : forall k, In k (map fst ops_glue_model) -> tbl_ok k.
Proof.
  intros k Hin. cbn [map fst ops_glue_model In] in Hin.
  repeat (destruct Hin as [<- | Hin]; [solve [eauto with nocore c15glue] |]); contradiction.
Qed.

Theorem glue_tables_agree : forall k dbg a,
  In k (map fst ops_glue_model) -> wf_args a -> gtypedb glue_tbl_ty k a = true ->
  run_tab ops_glue_spec k dbg a <> Unsupported ->
  run_tab ops_glue_model k dbg a = run_tab ops_glue_spec k dbg a.
Proof. intros k dbg a Hin. exact (glue_all_keys_ok k Hin dbg a). Qed.

Lemma glue_key_set :
  map fst ops_glue_spec = map fst ops_glue_model /\ length (map fst ops_glue_model) = 23%nat.
Proof. split; reflexivity. Qed.

(** "glue.zero_like_wrapping_boxed" needs no side condition any more: since the repair of finding F32 (/repo 526c7f5)
    Zero::zero_like on Wrapping<BoxedUint> keeps the operand's precision, e.g. on a two-limb operand: *)
Lemma zero_like_wrapping_boxed_keeps_precision :
  run_tab ops_glue_model "glue.zero_like_wrapping_boxed" false [[5; 6]] = Val [[0; 0]] /\
  run_tab ops_glue_spec "glue.zero_like_wrapping_boxed" false [[5; 6]] = Val [[0; 0]].
Proof. split; vm_compute; reflexivity. Qed.
