(** C02: exactness of the 64-bit Newton reciprocal (Moeller & Granlund 2011, Algorithm 3). *)
From CB Require Import Model.Limbs Model.Div Proofs.WordP Proofs.LimbsP Proofs.BitsP Proofs.DivP Proofs.RecipTableP.
From Coq Require Import ZArith Lia List.
Open Scope Z_scope.

(** * Pure integer error analysis *)

(** Stage 0/1: table seed [v0] and first Newton step.  x = d40. *)
Lemma recip_stage1 d9 v0 x q rm :
  256 <= d9 <= 511 ->
  v0 * d9 <= 2 ^ 19 - 3 * 2 ^ 8 < v0 * d9 + d9 ->
  d9 * 2 ^ 31 < x <= (d9 + 1) * 2 ^ 31 ->
  v0 * v0 * x = q * 2 ^ 40 + rm -> 0 <= rm < 2 ^ 40 ->
  let v1 := 2 ^ 11 * v0 - q - 1 in
  let T1 := 2 ^ 60 - v1 * x in
  0 < v0 <= 2045 /\ 0 <= q < 2 ^ 22 /\ 0 < v1 < 2 ^ 21 /\ 0 < T1 < 2 ^ 43.
Proof.
  intros Hd9 Hv0 Hx Ha Hrm v1 T1.
  assert (Hv0p : 0 < v0) by nia.
  assert (Hv0u : v0 <= 2045) by nia.
  assert (Hxl : 2 ^ 39 < x) by lia.
  assert (Hxu : x <= 2 ^ 40) by lia.
  set (C := 2 ^ 50 - v0 * x).
  assert (Hid : 2 ^ 40 * T1 = C * C + (2 ^ 40 - rm) * x).
  { unfold T1, v1, C. replace rm with (v0 * v0 * x - q * 2 ^ 40) by lia. ring. }
  assert (HC : - (1277 * 2 ^ 31) <= C <= 1279 * 2 ^ 31).
  { assert (v0 * (d9 * 2 ^ 31) <= v0 * x) by (apply Z.mul_le_mono_nonneg_l; lia).
    assert (v0 * x <= v0 * ((d9 + 1) * 2 ^ 31)) by (apply Z.mul_le_mono_nonneg_l; lia).
    unfold C. lia. }
  assert (HCC : 0 <= C * C <= 1279 * 1279 * 2 ^ 62) by nia.
  assert (Hrx : 0 < (2 ^ 40 - rm) * x <= 2 ^ 40 * 2 ^ 40).
  { split; [apply Z.mul_pos_pos; lia|]. apply Z.mul_le_mono_nonneg; lia. }
  assert (HT1 : 0 < T1 < 2 ^ 43) by lia.
  assert (Hq : 0 <= q < 2 ^ 22).
  { assert (0 <= v0 * v0 * x) by (apply Z.mul_nonneg_nonneg; nia).
    assert (v0 * v0 <= 2045 * 2045) by nia.
    assert (v0 * v0 * x <= 2045 * 2045 * 2 ^ 40) by (apply Z.mul_le_mono_nonneg; nia).
    lia. }
  assert (Hqv : q * 2 ^ 40 <= v0 * (2045 * 2 ^ 40)).
  { assert (v0 * v0 * x <= v0 * 2045 * 2 ^ 40) by (apply Z.mul_le_mono_nonneg; nia). lia. }
  assert (Hv1p : 0 < v1) by (unfold v1; lia).
  assert (Hv1u : v1 < 2 ^ 21).
  { destruct (Z_lt_ge_dec v1 (2 ^ 21)) as [|Hge]; [assumption|].
    assert (2 ^ 21 * x <= v1 * x) by (apply Z.mul_le_mono_nonneg_r; lia).
    unfold T1 in HT1. lia. }
  repeat split; lia.
Qed.

(** Stage 2: second Newton step (still on the truncated divisor x = d40). *)
Lemma recip_stage2 v1 x q2 rm2 :
  2 ^ 39 < x <= 2 ^ 40 -> 0 < v1 < 2 ^ 21 ->
  let T1 := 2 ^ 60 - v1 * x in
  0 < T1 < 2 ^ 43 ->
  v1 * T1 = q2 * 2 ^ 47 + rm2 -> 0 <= rm2 < 2 ^ 47 ->
  let v2 := 2 ^ 13 * v1 + q2 in
  let U2 := 2 ^ 73 - v2 * x in
  0 <= v1 * T1 < 2 ^ 64 /\ 0 <= q2 < 2 ^ 17 /\ 0 < v2 < 2 ^ 35 /\ 0 <= U2 < 2 ^ 39 + x.
Proof.
  intros Hx Hv1 T1 HT1 Hq2 Hrm2 v2 U2.
  assert (Hp : 0 <= v1 * T1 < 2 ^ 21 * 2 ^ 43).
  { split; [apply Z.mul_nonneg_nonneg; lia | apply Z.mul_lt_mono_nonneg; lia]. }
  assert (Hq2r : 0 <= q2 < 2 ^ 17) by lia.
  assert (Hid : 2 ^ 47 * U2 = T1 * T1 + rm2 * x).
  { unfold U2, v2. replace rm2 with (v1 * T1 - q2 * 2 ^ 47) by lia. unfold T1. ring. }
  assert (HTT : 0 < T1 * T1 < 2 ^ 43 * 2 ^ 43).
  { split; [apply Z.mul_pos_pos; lia | apply Z.mul_lt_mono_nonneg; lia]. }
  assert (Hrx : 0 <= rm2 * x < 2 ^ 47 * x).
  { split; [apply Z.mul_nonneg_nonneg; lia | apply Z.mul_lt_mono_pos_r; lia]. }
  repeat split; try lia; unfold v2; lia.
Qed.

(** Stage 3: passing from the truncated divisor d40 to the full divisor d. *)
Lemma recip_stage3 d x dl v2 :
  2 ^ 63 <= d < 2 ^ 64 -> d = 2 ^ 24 * (x - 1) + dl -> 0 <= dl < 2 ^ 24 ->
  0 < v2 < 2 ^ 35 -> 0 <= 2 ^ 73 - v2 * x < 2 ^ 39 + x ->
  0 < 2 ^ 97 - v2 * d < d + 2 ^ 63 + 2 ^ 60.
Proof.
  intros Hd Hdx Hdl Hv2 HU.
  assert (Hid : 2 ^ 97 - v2 * d = 2 ^ 24 * (2 ^ 73 - v2 * x) + v2 * (2 ^ 24 - dl)).
  { rewrite Hdx. ring. }
  assert (Hp : 0 < v2 * (2 ^ 24 - dl) <= 2 ^ 35 * 2 ^ 24).
  { split; [apply Z.mul_pos_pos; lia | apply Z.mul_le_mono_nonneg; lia]. }
  lia.
Qed.

(** Stage 4: the Newton step on the full divisor; V = v3 + 2^64 under-estimates 2^128/d by at most 2. *)
Lemma recip_stage4 d v2 e s q3 rm3 :
  2 ^ 63 <= d < 2 ^ 64 -> 0 < v2 < 2 ^ 35 ->
  let W := 2 ^ 97 - v2 * d in
  0 < W < d + 2 ^ 63 + 2 ^ 60 ->
  2 * e = W - s -> 0 <= s <= 1 ->
  v2 * e = q3 * 2 ^ 65 + rm3 -> 0 <= rm3 < 2 ^ 65 ->
  let V := 2 ^ 31 * v2 + q3 in
  0 <= e < 2 ^ 64 /\ 0 < 2 ^ 128 - V * d <= 2 * d.
Proof.
  intros Hd Hv2 W HW He Hs Hq3 Hrm3 V.
  assert (HWd : v2 * d = 2 ^ 97 - W) by (unfold W; lia).
  clearbody W.
  assert (Her : 0 <= e < 2 ^ 64) by lia.
  split; [exact Her|].
  assert (X1 : q3 * 2 ^ 65 * d = (v2 * e - rm3) * d) by (f_equal; lia).
  assert (X2 : v2 * d * (2 ^ 97 + 2 * e) = (2 ^ 97 - W) * (2 ^ 97 + 2 * e)) by (f_equal; lia).
  assert (X3 : s * (v2 * d) = s * (2 ^ 97 - W)) by (f_equal; lia).
  assert (Hid : 2 ^ 66 * (2 ^ 128 - V * d) = W * W + (v2 * s + 2 * rm3) * d).
  { unfold V. assert (HW2 : W = 2 * e + s) by lia. rewrite HW2 in *. clear HW2. nia. }
  assert (HWW : 0 < W * W <= (d + 2 ^ 63 + 2 ^ 60) * (d + 2 ^ 63 + 2 ^ 60)).
  { split; [apply Z.mul_pos_pos; lia | apply Z.mul_le_mono_nonneg; lia]. }
  assert (Hdd : d * d <= 2 ^ 64 * d) by (apply Z.mul_le_mono_nonneg_r; lia).
  assert (Hvs : 0 <= v2 * s <= 2 ^ 35) by nia.
  assert (Hsd : 0 <= (v2 * s + 2 * rm3) * d <= (2 ^ 35 + 2 ^ 66) * d).
  { split; [apply Z.mul_nonneg_nonneg; lia | apply Z.mul_le_mono_nonneg_r; lia]. }
  lia.
Qed.

(** Final adjustment step: an under-estimate within 2 is corrected to the exact floor. *)
Lemma recip_final_step d V :
  2 ^ 63 <= d < 2 ^ 64 -> 0 < 2 ^ 128 - V * d <= 2 * d ->
  2 ^ 64 <= V < 2 ^ 65 /\
  (V - 2 ^ 64 - ((V - 2 ^ 64 + 1) * d) / 2 ^ 64 - d) mod 2 ^ 64 = (2 ^ 128 - 1) / d - 2 ^ 64.
Proof.
  intros Hd HV.
  assert (HVl : 2 ^ 64 <= V).
  { destruct (Z_lt_ge_dec V (2 ^ 64)) as [Hlt|]; [|lia].
    assert ((V + 2) * d <= (2 ^ 64 + 1) * d) by (apply Z.mul_le_mono_nonneg_r; lia). lia. }
  assert (HVu : V < 2 ^ 65).
  { destruct (Z_lt_ge_dec V (2 ^ 65)) as [|Hge]; [assumption|].
    assert (2 ^ 65 * d <= V * d) by (apply Z.mul_le_mono_nonneg_r; lia). lia. }
  split; [lia|].
  set (r := 2 ^ 128 - (V + 1) * d).
  assert (Hr : - d < r <= d) by (unfold r; lia).
  assert (Hv3 : (V - 2 ^ 64 + 1) * d = 2 ^ 128 - r - 2 ^ 64 * d) by (unfold r; ring).
  destruct (Z_le_gt_dec r 0) as [Hr0|Hr0].
  - assert (HQ : (2 ^ 128 - 1) / d = V).
    { symmetry. apply (Z.div_unique_pos _ _ _ (2 ^ 128 - 1 - V * d)); unfold r in *; lia. }
    assert (Hh : ((V - 2 ^ 64 + 1) * d) / 2 ^ 64 = 2 ^ 64 - d).
    { symmetry. apply (Z.div_unique_pos _ _ _ (- r)); lia. }
    rewrite HQ, Hh.
    replace (V - 2 ^ 64 - (2 ^ 64 - d) - d) with (V - 2 ^ 64 + (-1) * 2 ^ 64) by ring.
    rewrite Z_mod_plus_full. apply Z.mod_small. lia.
  - assert (HVu' : V + 1 < 2 ^ 65).
    { destruct (Z_lt_ge_dec (V + 1) (2 ^ 65)) as [|Hge]; [assumption|].
      assert (2 ^ 65 * d <= (V + 1) * d) by (apply Z.mul_le_mono_nonneg_r; lia). unfold r in *; lia. }
    assert (HQ : (2 ^ 128 - 1) / d = V + 1).
    { symmetry. apply (Z.div_unique_pos _ _ _ (r - 1)); unfold r in *; lia. }
    assert (Hh : ((V - 2 ^ 64 + 1) * d) / 2 ^ 64 = 2 ^ 64 - d - 1).
    { symmetry. apply (Z.div_unique_pos _ _ _ (2 ^ 64 - r)); lia. }
    rewrite HQ, Hh.
    replace (V - 2 ^ 64 - (2 ^ 64 - d - 1) - d) with (V + 1 - 2 ^ 64 + (-1) * 2 ^ 64) by ring.
    rewrite Z_mod_plus_full. apply Z.mod_small. lia.
Qed.

(** * The model computes the exact-integer algorithm, hence the exact reciprocal *)
Theorem reciprocal_correct d : 2 ^ 63 <= d < 2 ^ 64 -> recip_ok d (reciprocal d).
Proof.
  intros Hd. unfold recip_ok.
  cbv beta zeta delta [reciprocal].
  rewrite (Z.land_ones d 1 ltac:(lia) : Z.land d 1 = d mod 2).
  (* d = 2 dh + d0 *)
  pose proof (Z.div_mod d 2 ltac:(lia)) as Hdm2.
  pose proof (Z.mod_pos_bound d 2 ltac:(lia)) as Hd0.
  set (d0 := d mod 2) in *. set (dh := d / 2) in *.
  (* d = 2^24 xm + dl *)
  pose proof (Z.div_mod d (2 ^ 24) ltac:(lia)) as Hdm24.
  pose proof (Z.mod_pos_bound d (2 ^ 24) ltac:(lia)) as Hdl.
  set (dl := d mod 2 ^ 24) in *. set (xm := d / 2 ^ 24) in *.
  set (x := xm + 1).
  (* d9 *)
  pose proof (Z.div_mod d (2 ^ 55) ltac:(lia)) as Hdm55.
  pose proof (Z.mod_pos_bound d (2 ^ 55) ltac:(lia)) as Hr9.
  set (r9 := d mod 2 ^ 55) in *. set (d9 := d / 2 ^ 55) in *.
  assert (Hd9 : 256 <= d9 <= 511) by lia.
  assert (Hx9 : d9 * 2 ^ 31 < x <= (d9 + 1) * 2 ^ 31) by (unfold x; lia).
  (* v0 *)
  rewrite (short_div_v0 d9 Hd9).
  pose proof (Z.div_mod (2 ^ 19 - 3 * 2 ^ 8) d9 ltac:(lia)) as Hv0dm.
  pose proof (Z.mod_pos_bound (2 ^ 19 - 3 * 2 ^ 8) d9 ltac:(lia)) as Hv0r.
  set (v0 := (2 ^ 19 - 3 * 2 ^ 8) / d9) in *.
  assert (Hv0 : v0 * d9 <= 2 ^ 19 - 3 * 2 ^ 8 < v0 * d9 + d9) by lia.
  clear Hv0dm Hv0r.
  (* v1 *)
  pose proof (Z.div_mod (v0 * v0 * x) (2 ^ 40) ltac:(lia)) as Hq1.
  pose proof (Z.mod_pos_bound (v0 * v0 * x) (2 ^ 40) ltac:(lia)) as Hrm1.
  rewrite (Z.mul_comm (2 ^ 40)) in Hq1.
  destruct (recip_stage1 d9 v0 x _ _ Hd9 Hv0 Hx9 Hq1 Hrm1) as (Hv0r & Hq1r & Hv1r & HT1r).
  set (q1 := v0 * v0 * x / 2 ^ 40) in *.
  set (v1 := 2 ^ 11 * v0 - q1 - 1) in *.
  assert (Hxr : 2 ^ 39 < x <= 2 ^ 40) by lia.
  assert (Ev1 : wrap (wrap (v0 * 2 ^ 11) - wrap (v0 * v0 * x) / 2 ^ 40 - 1) = v1).
  { unfold wrap. rewrite B_val.
    assert (0 <= v0 * v0 * x < 2 ^ 64) by lia.
    rewrite (Z.mod_small (v0 * 2 ^ 11)) by lia.
    rewrite (Z.mod_small (v0 * v0 * x)) by lia.
    fold q1. rewrite Z.mod_small by (unfold v1 in *; lia). unfold v1. ring. }
  rewrite Ev1. clear Ev1 Hq1 Hrm1.
  (* v2 *)
  set (T1 := 2 ^ 60 - v1 * x) in *.
  pose proof (Z.div_mod (v1 * T1) (2 ^ 47) ltac:(lia)) as Hq2.
  pose proof (Z.mod_pos_bound (v1 * T1) (2 ^ 47) ltac:(lia)) as Hrm2.
  rewrite (Z.mul_comm (2 ^ 47)) in Hq2.
  destruct (recip_stage2 v1 x _ _ Hxr Hv1r HT1r Hq2 Hrm2) as (Hp2 & Hq2r & Hv2r & HU2).
  set (q2 := v1 * T1 / 2 ^ 47) in *.
  set (v2 := 2 ^ 13 * v1 + q2) in *.
  assert (Ev2 : wrap (wrap (v1 * 2 ^ 13) + wrap (v1 * wrap (2 ^ 60 - wrap (v1 * x))) / 2 ^ 47) = v2).
  { unfold wrap. rewrite B_val.
    rewrite (Z.mod_small (v1 * 2 ^ 13)) by lia.
    rewrite (Z.mod_small (v1 * x)) by (unfold T1 in HT1r; lia).
    fold T1.
    rewrite (Z.mod_small T1) by lia.
    rewrite (Z.mod_small (v1 * T1)) by lia.
    fold q2. rewrite Z.mod_small by (unfold v2 in *; lia). unfold v2. ring. }
  rewrite Ev2. clear Ev2 Hq2 Hrm2.
  (* W, e *)
  assert (Hdx : d = 2 ^ 24 * (x - 1) + dl) by (unfold x; lia).
  pose proof (recip_stage3 d x dl v2 Hd Hdx Hdl Hv2r HU2) as HW.
  pose proof (Z.div_mod v2 2 ltac:(lia)) as Hvdm.
  pose proof (Z.mod_pos_bound v2 2 ltac:(lia)) as Hvl.
  set (vl := v2 mod 2) in *. set (vh := v2 / 2) in *.
  set (e := 2 ^ 96 - v2 * (dh + d0) + vh * d0).
  assert (Hvd : vh * d0 = (v2 * d0 - vl * d0) / 2 /\ 0 <= vl * d0 <= 1 /\ 0 <= vh * d0 < 2 ^ 35).
  { assert (0 <= vh * d0 <= vh * 1) by (split; [apply Z.mul_nonneg_nonneg; lia | apply Z.mul_le_mono_nonneg_l; lia]).
    assert (0 <= vl * d0 <= 1 * 1) by (split; [apply Z.mul_nonneg_nonneg; lia | apply Z.mul_le_mono_nonneg; lia]).
    repeat split; try lia. apply Z.div_unique_exact; [lia|]. rewrite Hvdm. ring. }
  destruct Hvd as (_ & Hs & Hvhd).
  assert (He2 : 2 * e = (2 ^ 97 - v2 * d) - vl * d0).
  { assert (X1 : v2 * d = v2 * (2 * dh + d0)) by (f_equal; exact Hdm2).
    assert (X2 : v2 * d0 = (2 * vh + vl) * d0) by (f_equal; exact Hvdm).
    unfold e. lia. }
  pose proof (Z.div_mod (v2 * e) (2 ^ 65) ltac:(lia)) as Hq3.
  pose proof (Z.mod_pos_bound (v2 * e) (2 ^ 65) ltac:(lia)) as Hrm3.
  rewrite (Z.mul_comm (2 ^ 65)) in Hq3.
  destruct (recip_stage4 d v2 e _ _ _ Hd Hv2r HW He2 Hs Hq3 Hrm3) as (Her & HV).
  set (q3 := v2 * e / 2 ^ 65) in *.
  set (V := 2 ^ 31 * v2 + q3) in *.
  assert (Ee : wrap (MAXW - wmul v2 (dh + d0) + 1 + wrap (vh * d0)) = e).
  { unfold wmul, wrap. rewrite MAXW_val, B_val.
    rewrite (Z.mod_small (vh * d0)) by lia.
    pose proof (Z.div_mod (v2 * (dh + d0)) (2 ^ 64) ltac:(lia)) as Hm.
    set (k := v2 * (dh + d0) / 2 ^ 64) in *.
    replace (2 ^ 64 - 1 - (v2 * (dh + d0)) mod 2 ^ 64 + 1 + vh * d0)
      with (e + (k + 1 - 2 ^ 32) * 2 ^ 64) by (unfold e; lia).
    rewrite Z_mod_plus_full. apply Z.mod_small. lia. }
  rewrite Ee. clear Ee.
  unfold mulhilo. cbv beta iota zeta.
  destruct (recip_final_step d V Hd HV) as (HVr & Hfin).
  assert (Ev3 : wadd (wshl v2 31) (v2 * e / B / 2) = V - 2 ^ 64).
  { unfold wadd, wshl, wrap. rewrite Z.div_div by (rewrite ?B_val; lia).
    rewrite Zplus_mod_idemp_l. rewrite B_val.
    replace (2 ^ 64 * 2) with (2 ^ 65) by lia. fold q3.
    replace (v2 * 2 ^ 31 + q3) with (V - 2 ^ 64 + 1 * 2 ^ 64) by (unfold V; ring).
    rewrite Z_mod_plus_full. apply Z.mod_small. lia. }
  rewrite Ev3. clear Ev3.
  set (v3 := V - 2 ^ 64) in *.
  assert (Ehi : (if wadd v3 1 =? 0 then d else wadd v3 1 * d / B) = (v3 + 1) * d / 2 ^ 64).
  { unfold wadd, wrap. rewrite B_val.
    destruct (Z.eq_dec v3 (2 ^ 64 - 1)) as [E|NE].
    - rewrite E. replace (2 ^ 64 - 1 + 1) with (2 ^ 64) by lia.
      rewrite Z_mod_same_full. rewrite Z.eqb_refl. rewrite Z.mul_comm, Z.div_mul by lia. reflexivity.
    - rewrite (Z.mod_small (v3 + 1)) by lia.
      destruct (Z.eqb_spec (v3 + 1) 0); [lia | reflexivity]. }
  rewrite Ehi. clear Ehi.
  unfold wsub, wrap. rewrite Zminus_mod_idemp_l. rewrite B_val.
  rewrite Hfin. replace (2 ^ 64 * 2 ^ 64) with (2 ^ 128) by lia. reflexivity.
Qed.

Print Assumptions reciprocal_correct.
