(** C02: the constant-time Uint::div_rem (fixed trip count, `done` masking, limb_div tail). *)
From CB Require Import Model.Limbs Model.Div Proofs.WordP Proofs.LimbsP Proofs.BitsP Proofs.DivP Proofs.Rem2kP
  Proofs.Div3by2P Proofs.KnuthStepP Proofs.DivShiftP Proofs.DivVtP Proofs.RemWideP.
From Coq Require Import ZArith Lia List.
Open Scope Z_scope.

Definition ct_body (xi' n : nat) (dwords : Z) (y : list Z) (rc : recip) (st : ctst) : ctst :=
  let xi := S xi' in
  let x := c_x st in
  let quo := div3by2 (c_xhi st) (c_xlo st) (nthz x xi') rc (nthz y (n - 2)) in
  let done := Z.of_nat xi <? dwords - 1 in
  let quo := sel done quo 0 in
  let '(x2, mask) := knuth_step x y (c_xhi st) 0 (n - xi - 1) (S xi) quo in
  let quo := sel mask quo (if quo =? 0 then 0 else quo - 1) in
  let xhi' := sel done (nthz x2 xi) (c_xhi st) in
  let x3 := upd x2 xi (sel done quo (nthz x2 xi)) in
  let xlo' := sel done (nthz x3 xi') (c_xlo st) in
  {| c_x := x3; c_xhi := xhi'; c_xlo := xlo' |}.

Lemma div_ct_loop_S xi' n dwords y rc st :
  div_ct_loop (S xi') n dwords y rc st = div_ct_loop xi' n dwords y rc (ct_body xi' n dwords y rc st).
Proof.
  cbn [div_ct_loop]. unfold ct_body.
  destruct (knuth_step (c_x st) y (c_xhi st) 0 (n - S xi' - 1) (S (S xi'))
    (sel (Z.of_nat (S xi') <? dwords - 1)
       (div3by2 (c_xhi st) (c_xlo st) (nthz (c_x st) xi') rc (nthz y (n - 2))) 0)) as [x2 mask].
  reflexivity.
Qed.

(** to_limbs of a multiple of B^a *)
Lemma to_limbs_shift a b v : to_limbs (a + b) (v * Bn a) = zeros a ++ to_limbs b v.
Proof.
  induction a as [|a IH]; cbn [Nat.add to_limbs zeros repeat app].
  - rewrite Bn_0, Z.mul_1_r. reflexivity.
  - rewrite Bn_S. pose proof B_pos.
    replace (v * (B * Bn a)) with ((v * Bn a) * B) by ring.
    rewrite Z.mod_mul, Z.div_mul by lia. f_equal. exact IH.
Qed.

Lemma skipn_zeros a b : skipn a (zeros b) = zeros (b - a).
Proof.
  revert a. induction b as [|b IH]; intros a; [destruct a; reflexivity|].
  destruct a as [|a]; [reflexivity|]. cbn [zeros repeat skipn Nat.sub]. apply IH.
Qed.

Lemma sel_false a b : sel false a b = a. Proof. reflexivity. Qed.
Lemma sel_true a b : sel true a b = b. Proof. reflexivity. Qed.

(** a masked (`done`) iteration changes nothing *)
Lemma ct_body_done xi' n dwords y rc st :
  wf (c_x st) -> length (c_x st) = n -> wf y -> length y = n -> is_word (c_xhi st) ->
  (S xi' < n)%nat -> Z.of_nat (S xi') < dwords - 1 ->
  ct_body xi' n dwords y rc st = st.
Proof.
  intros Hwx Hlx Hwy Hly Hxhi Hxi Hdone. unfold ct_body.
  assert (Z.of_nat (S xi') <? dwords - 1 = true) as -> by (apply Z.ltb_lt; assumption).
  unfold sel at 1.
  set (x := c_x st) in *.
  rewrite (knuth_step_zero x y (c_xhi st) 0 (n - S xi' - 1) (S (S xi'))
            [] (firstn (S (S xi')) x) (skipn (S (S xi')) x)
            (firstn (n - S xi' - 1) y) (skipn (n - S xi' - 1) y) []).
  - unfold sel. change (0 =? 0) with true. cbv iota.
    rewrite upd_self by lia. subst x. destruct st; reflexivity.
  - cbn [app]. rewrite firstn_skipn. reflexivity.
  - reflexivity.
  - apply firstn_length_le. lia.
  - rewrite app_nil_r, firstn_skipn. reflexivity.
  - apply firstn_length_le. lia.
  - rewrite skipn_length. lia.
  - apply wf_firstn. assumption.
  - apply wf_skipn. assumption.
  - assumption.
Qed.

Lemma div_ct_loop_done : forall c n dwords y rc st,
  wf (c_x st) -> length (c_x st) = n -> wf y -> length y = n -> is_word (c_xhi st) ->
  (c < n)%nat -> Z.of_nat c < dwords - 1 ->
  div_ct_loop c n dwords y rc st = st.
Proof.
  induction c as [|c IH]; intros n dwords y rc st Hwx Hlx Hwy Hly Hxhi Hc Hdone; [reflexivity|].
  rewrite div_ct_loop_S, ct_body_done by assumption. apply IH; auto; lia.
Qed.

Section Ct.
Variables (n dw : nat) (y yn : list Z) (rc : recip) (X' : Z).
Hypothesis Hdw : (1 <= dw <= n)%nat.
Hypothesis Hy : y = zeros (n - dw) ++ yn.
Hypothesis Hlyn : length yn = dw.
Hypothesis Hwyn : wf yn.
Hypothesis Hnorm : normalized (r_d rc).
Hypothesis Hrec : recip_ok (r_d rc) (r_v rc).
Hypothesis Htop : nthz y (n - 1) = r_d rc.
Let Yn := eval yn.
Let dwords := Z.of_nat dw.

(** M c = Yn * B^(c + 2 - dw): the bound on the window of the state at index c *)
Definition ctM (c : nat) : Z := Yn * Bn (c + 2 - dw).

Definition ct_inv (c : nat) (st : ctst) : Prop :=
  exists xw qs, c_x st = xw ++ qs /\ length xw = S c /\ length qs = (n - 1 - c)%nat /\ wf xw /\ wf qs /\
    is_word (c_xhi st) /\ c_xlo st = nthz (c_x st) c /\
    eval xw + Bn (S c) * c_xhi st < ctM c /\
    X' = (eval xw + Bn (S c) * c_xhi st) + ctM c * eval qs.

Lemma wf_y : wf y /\ length y = n.
Proof.
  rewrite Hy. split; [apply wf_app; split; [apply wf_zeros | assumption]|].
  rewrite app_length, length_zeros. lia.
Qed.

(** an active iteration (index S c >= dwords - 1) *)
Lemma ct_iter c st : (dw <= c + 2)%nat -> (S c < n)%nat -> ct_inv (S c) st ->
  ct_inv c (ct_body c n dwords y rc st).
Proof.
  intros Hact Hcn (xw & qs & Hx & Hlx & Hlq & Hwx & Hwq & Hxhi & Hxlo & HWM & HX).
  destruct wf_y as [Hwy Hlny].
  (* the divisor window *)
  set (yoff := (n - S c - 1)%nat).
  set (ya := firstn yoff y). set (yw := skipn yoff y).
  assert (Hya : length ya = yoff) by (unfold ya; apply firstn_length_le; lia).
  assert (Hlyw : length yw = S (S c)) by (unfold yw; rewrite skipn_length; lia).
  assert (Hwyw : wf yw) by (apply wf_skipn; assumption).
  assert (Eyw : yw = zeros (c + 2 - dw) ++ yn).
  { unfold yw. rewrite Hy. rewrite skipn_app, length_zeros.
    replace (yoff - (n - dw))%nat with 0%nat by lia. cbn [skipn]. f_equal.
    rewrite skipn_zeros. f_equal. lia. }
  assert (Heyw : eval yw = Yn * Bn (c + 2 - dw)).
  { rewrite Eyw, eval_app, eval_zeros, length_zeros. fold Yn. ring. }
  destruct (list_snoc yw (S c) Hlyw) as (yw' & d & Eyw1 & Hlyw').
  destruct (list_snoc yw' c Hlyw') as (yl & v0 & Eyw' & Hlyl).
  assert (Eyw2 : yw = yl ++ [v0; d]) by (rewrite Eyw1, Eyw', <- app_assoc; reflexivity).
  assert (Hwy3 : wf yl /\ is_word v0 /\ is_word d).
  { rewrite Eyw2 in Hwyw. apply wf_app in Hwyw. destruct Hwyw as [H1 H2].
    apply wf_cons in H2. destruct H2 as [H2 H3]. apply wf_cons in H3. tauto. }
  destruct Hwy3 as (Hwyl & Hv0 & Hdw').
  assert (Eyall : y = ya ++ yw ++ []) by (rewrite app_nil_r; unfold ya, yw; rewrite firstn_skipn; reflexivity).
  assert (Hd : nthz y (n - 1) = d).
  { rewrite Eyall, Eyw1, app_nil_r. replace (ya ++ yw' ++ [d]) with ((ya ++ yw') ++ d :: []) by (rewrite <- app_assoc; reflexivity).
    apply nthz_app_mid. rewrite app_length. lia. }
  assert (Hv : nthz y (n - 2) = v0).
  { rewrite Eyall, Eyw2, app_nil_r. replace (ya ++ yl ++ [v0; d]) with ((ya ++ yl) ++ v0 :: [d]) by (rewrite <- app_assoc; reflexivity).
    apply nthz_app_mid. rewrite app_length. lia. }
  rewrite Htop in Hd.
  (* the dividend window *)
  destruct (list_snoc xw (S c) Hlx) as (xw' & u1 & Exw1 & Hlxw').
  destruct (list_snoc xw' c Hlxw') as (xl & u0 & Exw' & Hlxl).
  assert (Exw2 : xw = xl ++ [u0; u1]) by (rewrite Exw1, Exw', <- app_assoc; reflexivity).
  assert (Hwx3 : wf xl /\ is_word u0 /\ is_word u1).
  { rewrite Exw2 in Hwx. apply wf_app in Hwx. destruct Hwx as [H1 H2].
    apply wf_cons in H2. destruct H2 as [H2 H3]. apply wf_cons in H3. tauto. }
  destruct Hwx3 as (Hwxl & Hu0 & Hu1).
  assert (Hn1 : nthz (c_x st) (S c) = u1).
  { rewrite Hx, Exw1. rewrite <- app_assoc. apply nthz_app_mid. lia. }
  assert (Hn0 : nthz (c_x st) c = u0).
  { rewrite Hx, Exw2. replace ((xl ++ [u0; u1]) ++ qs) with (xl ++ u0 :: u1 :: qs) by (rewrite <- app_assoc; reflexivity).
    apply nthz_app_mid. lia. }
  unfold ct_body. rewrite Hxlo, Hn1, Hn0, Hv.
  assert (Z.of_nat (S c) <? dwords - 1 = false) as -> by (apply Z.ltb_ge; unfold dwords; lia).
  rewrite !sel_false.
  (* digit estimate *)
  assert (HMS : ctM (S c) = eval yw * B).
  { unfold ctM. rewrite Heyw. replace (S c + 2 - dw)%nat with (S (c + 2 - dw)) by lia. rewrite Bn_S. ring. }
  assert (HWY : eval (xl ++ [u0; u1]) + Bn (S (S c)) * c_xhi st < eval (yl ++ [v0; d]) * B).
  { rewrite <- Exw2, <- Eyw2, <- HMS. exact HWM. }
  assert (Hnd : normalized d) by (rewrite <- Hd; assumption).
  assert (Hrcd : recip_ok d (r_v rc)) by (rewrite <- Hd; assumption).
  destruct (knuth_digit c xl u0 u1 (c_xhi st) yl v0 d rc Hlxl Hwxl Hu0 Hu1 Hxhi Hlyl Hwyl Hv0 Hd Hnd Hrcd HWY)
    as [Hest Hquo].
  set (quo := div3by2 (c_xhi st) u1 u0 rc v0) in *.
  rewrite <- Exw2, <- Eyw2 in Hest.
  destruct (knuth_step_exact (c_x st) y (c_xhi st) 0 yoff (S (S c)) quo [] xw qs ya yw []
              Hx eq_refl Hlx Eyall Hya Hlyw Hwx Hwyw Hxhi Hquo Hest)
    as (xw2 & mask & Hk & Hw2 & Hl2 & Hres).
  cbv zeta in Hres. destruct Hres as (HWq & Hrem & _ & _ & Hq0 & _ & Hsel).
  fold yoff. rewrite Hk. rewrite Hsel.
  set (q := if mask then quo - 1 else quo) in *.
  destruct (list_snoc xw2 (S c) Hl2) as (rl & rh & Exw3 & Hlrl).
  assert (Hwrl : wf rl /\ is_word rh).
  { rewrite Exw3 in Hw2. apply wf_app in Hw2. destruct Hw2 as [H1 H2]. apply wf_cons in H2. tauto. }
  destruct Hwrl as [Hwrl Hrh].
  cbn [app]. rewrite Exw3.
  replace ((rl ++ [rh]) ++ qs) with (rl ++ rh :: qs) by (rewrite <- app_assoc; reflexivity).
  rewrite (nthz_app_mid rl rh qs (S c)) by assumption. rewrite !sel_false.
  rewrite (upd_app_mid rl rh qs (S c) q) by assumption.
  assert (Hqw : is_word q).
  { unfold is_word in *. split; [assumption|]. unfold q. destruct mask; lia. }
  exists rl, (q :: qs). cbn [c_x c_xhi c_xlo].
  split; [reflexivity|]. split; [assumption|]. split; [simpl; lia|]. split; [assumption|].
  split; [apply wf_cons; split; assumption|]. split; [assumption|]. split; [reflexivity|].
  assert (HMc : ctM c = eval yw) by (unfold ctM; rewrite Heyw; reflexivity).
  rewrite Exw3, eval_snoc, Hlrl in HWq, Hrem. rewrite HMc. split; [lia|].
  rewrite HX, HMS. cbn [eval]. rewrite HWq. ring.
Qed.

(** the whole loop from index c down to 1 *)
Lemma div_ct_loop_correct : forall c st, (dw <= c + 2)%nat -> (c < n)%nat -> ct_inv c st ->
  ct_inv (dw - 2) (div_ct_loop c n dwords y rc st).
Proof.
  induction c as [|c IH]; intros st Hact Hcn Hinv.
  - cbn [div_ct_loop]. replace (dw - 2)%nat with 0%nat by lia. assumption.
  - destruct (le_lt_dec dw (c + 2)) as [Hle|Hgt].
    + rewrite div_ct_loop_S. apply IH; [assumption | lia|]. apply ct_iter; assumption.
    + (* every remaining iteration is masked *)
      assert (Edw : (dw - 2 = S c)%nat) by lia. rewrite Edw.
      destruct wf_y as [Hwy Hlny].
      destruct Hinv as (xw & qs & Hx & Hlx & Hlq & Hwx & Hwq & Hxhi & Hrest).
      rewrite div_ct_loop_done; try assumption.
      * exists xw, qs. tauto.
      * rewrite Hx. apply wf_app. split; assumption.
      * rewrite Hx, app_length. lia.
      * unfold dwords. lia.
Qed.
End Ct.

(* ---------- helpers for the tail ---------- *)
Lemma nth_map_seq_gen (f : nat -> Z) a m i : (i < m)%nat -> nth i (map f (seq a m)) 0 = f (a + i)%nat.
Proof.
  intros Hi. rewrite (nth_indep _ 0 (f 0%nat)) by (rewrite map_length, seq_length; assumption).
  rewrite map_nth, seq_nth by assumption. reflexivity.
Qed.

Lemma eval_map_zero (f : nat -> Z) l : (forall i, In i l -> f i = 0) -> eval (map f l) = 0.
Proof.
  induction l as [|a l IH]; intros H; [reflexivity|]. cbn [map eval].
  rewrite (H a) by (left; reflexivity). rewrite IH by (intros i Hi; apply H; right; assumption). lia.
Qed.

Lemma top_limb_normalized l d : wf l -> is_word d -> Bn (S (length l)) <= 2 * eval (l ++ [d]) -> normalized d.
Proof.
  intros Hw Hd Hlo. unfold normalized. unfold is_word in Hd. split; [|lia].
  pose proof (eval_bounds l Hw) as Hb. rewrite eval_snoc, Bn_S in Hlo.
  pose proof (Bn_pos (length l)) as Hp. pose proof B_half.
  destruct (Z_lt_ge_dec (2 * d) B) as [Hlt|]; [|lia]. exfalso.
  assert (2 * d + 2 <= B) by lia.
  assert (Bn (length l) * (2 * d + 2) <= Bn (length l) * B) by (apply Z.mul_le_mono_nonneg_l; lia). lia.
Qed.

(** the remainder read-out of the constant-time routine when the divisor has at least two limbs *)
Lemma ct_rem_list (xw qs : list Z) x_hi n dw :
  (2 <= dw <= n)%nat -> length xw = (dw - 1)%nat -> length (xw ++ qs) = n ->
  nthz (xw ++ qs) 0 ::
    map (fun i => sel (Z.of_nat i =? Z.of_nat dw - 1) (sel (Z.of_nat i <? Z.of_nat dw) 0 (nthz (xw ++ qs) i)) x_hi)
        (seq 1 (n - 1))
  = xw ++ [x_hi] ++ zeros (n - dw).
Proof.
  intros Hdw Hlx Hln. apply (nth_ext _ _ 0 0).
  - cbn [length]. rewrite map_length, seq_length, !app_length, length_zeros. simpl. lia.
  - intros i Hi. cbn [length] in Hi. rewrite map_length, seq_length in Hi.
    destruct i as [|i].
    + cbn [nth]. unfold nthz. rewrite !app_nth1 by lia. reflexivity.
    + cbn [nth]. rewrite nth_map_seq_gen by lia. cbv zeta. unfold sel.
      replace (1 + i)%nat with (S i) by lia.
      destruct (Z.of_nat (S i) =? Z.of_nat dw - 1) eqn:E1.
      * apply Z.eqb_eq in E1. rewrite app_nth2 by lia. replace (S i - length xw)%nat with 0%nat by lia. reflexivity.
      * apply Z.eqb_neq in E1. destruct (Z.of_nat (S i) <? Z.of_nat dw) eqn:E2.
        -- apply Z.ltb_lt in E2. unfold nthz. rewrite !app_nth1 by lia. reflexivity.
        -- apply Z.ltb_ge in E2. rewrite app_nth2 by lia. rewrite app_nth2 by (cbn [length]; lia).
           unfold zeros. rewrite nth_repeat. reflexivity.
Qed.

(* ---------- the constant-time core ---------- *)
Theorem div_rem_ct_core_correct x0 y0 :
  wf x0 -> wf y0 -> length y0 = length x0 -> (2 <= length x0)%nat -> 0 < eval y0 ->
  recip_ok (top64 (eval y0)) (reciprocal (top64 (eval y0))) ->
  let '(q, r) := div_rem_ct_core x0 y0 (bits_of (eval y0)) in
  eval x0 = eval q * eval y0 + eval r /\ 0 <= eval r < eval y0 /\
  length q = length x0 /\ length r = length x0 /\ wf q /\ wf r.
Proof.
  intros Hwx Hwy Hlen Hn2 Hyp Hrec.
  pose proof (eval_bounds x0 Hwx) as Hbx. pose proof (eval_bounds y0 Hwy) as Hby.
  destruct (nlimbs_spec _ Hyp) as (Hyc1 & Hsh & Hshe & [Hylo Hyhi] & Hnlo & Hnhi).
  pose proof (nlimbs_le_length y0 Hwy Hyp) as Hycm. rewrite Hlen in Hycm, Hby.
  destruct (bits_of_spec _ Hyp) as (Hb1 & _).
  unfold div_rem_ct_core. fold (nshift (eval y0)).
  set (n := length x0) in *. set (dw := nlimbs (eval y0)) in *. set (s := nshift (eval y0)) in *.
  assert (Hdwz : (bits_of (eval y0) + 63) / 64 = Z.of_nat dw).
  { unfold dw, nlimbs. rewrite Z2Nat.id; [reflexivity|]. apply Z.div_pos; lia. }
  rewrite Hdwz. set (dwords := Z.of_nat dw).
  pose proof B_gt1 as HB. pose proof (Bn_pos dw) as HBdw.
  assert (H2s : 0 < 2 ^ s) by (apply Z.pow_pos_nonneg; lia).
  set (Yn := eval y0 * 2 ^ s) in *.
  (* the top-aligned divisor *)
  assert (Ey : shl_val n y0 (64 * Z.of_nat n - bits_of (eval y0)) = zeros (n - dw) ++ to_limbs dw Yn).
  { unfold shl_val.
    replace (64 * Z.of_nat n - bits_of (eval y0)) with (s + 64 * Z.of_nat (n - dw)) by lia.
    rewrite Z.pow_add_r by lia. rewrite <- Bn_pow2. rewrite Z.mul_assoc. fold Yn.
    assert (HBn : Bn n = Bn (n - dw) * Bn dw) by (rewrite <- Bn_add; f_equal; lia).
    pose proof (Bn_pos (n - dw)).
    rewrite Z.mod_small.
    - replace n with ((n - dw) + dw)%nat at 1 by lia. apply to_limbs_shift.
    - split; [apply Z.mul_nonneg_nonneg; lia|]. rewrite HBn, (Z.mul_comm (Bn (n - dw))).
      apply Z.mul_lt_mono_pos_r; lia. }
  rewrite Ey. set (yn := to_limbs dw Yn). set (y := zeros (n - dw) ++ yn).
  assert (Hlyn : length yn = dw) by apply length_to_limbs.
  assert (Hwyn : wf yn) by apply wf_to_limbs.
  assert (Heyn : eval yn = Yn) by (apply to_limbs_small; unfold Yn; lia).
  (* top limb *)
  destruct (list_snoc yn (dw - 1)) as (yn' & d & Eyn & Hlyn'); [lia|].
  assert (Hwyn' : wf yn' /\ is_word d).
  { rewrite Eyn in Hwyn. apply wf_app in Hwyn. destruct Hwyn as [H1 H2]. apply wf_cons in H2. tauto. }
  destruct Hwyn' as [Hwyn' Hdw'].
  assert (Hnd : normalized d).
  { apply (top_limb_normalized yn'); auto. rewrite <- Eyn, Heyn, Hlyn'. replace (S (dw - 1)) with dw by lia. assumption. }
  assert (Htopd : nthz y (n - 1) = d).
  { unfold y. rewrite Eyn. replace (zeros (n - dw) ++ yn' ++ [d]) with ((zeros (n - dw) ++ yn') ++ d :: []) by (rewrite <- app_assoc; reflexivity).
    apply nthz_app_mid. rewrite app_length, length_zeros. lia. }
  assert (Hdtop : d = top64 (eval y0)).
  { assert (Hd2 : nthz yn (dw - 1) = d).
    { rewrite Eyn. replace (yn' ++ [d]) with (yn' ++ d :: []) by reflexivity. apply nthz_app_mid. assumption. }
    rewrite <- Hd2. apply top_limb_top64; auto. fold dw. lia. rewrite Hlyn. lia. }
  rewrite Htopd. rewrite (recip_new_normalized d Hnd).
  set (rc := {| r_d := d; r_shift := 0; r_v := reciprocal d |}).
  assert (Hrcd : recip_ok (r_d rc) (r_v rc)) by (cbn [r_d r_v rc]; rewrite Hdtop; assumption).
  (* the dividend *)
  pose proof (shl_limb_correct x0 s Hwx Hsh) as Hx. fold n in Hx.
  destruct (shl_limb x0 s) as [x x_hi]. destruct Hx as (Hxe & Hwxs & Hlxs & Hxhi).
  set (X' := eval x0 * 2 ^ s) in *.
  assert (Hxhiw : is_word x_hi).
  { unfold is_word. assert (2 ^ s <= 2 ^ 64) by (apply Z.pow_le_mono_r; lia). rewrite B_val. lia. }
  (* initial invariant *)
  set (st0 := {| c_x := x; c_xhi := x_hi; c_xlo := nthz x (n - 1) |}).
  assert (Hinv0 : ct_inv n dw yn X' (n - 1) st0).
  { exists x, []. cbn [c_x c_xhi c_xlo st0]. rewrite app_nil_r.
    split; [reflexivity|]. split; [lia|]. split; [simpl; lia|]. split; [assumption|]. split; [apply wf_nil|].
    split; [assumption|]. split; [reflexivity|].
    replace (S (n - 1)) with n by lia. cbn [eval]. unfold ctM. rewrite Heyn.
    split; [|lia].
    replace (n - 1 + 2 - dw)%nat with (S (n - dw)) by lia. rewrite Bn_S.
    assert (HBn : Bn n = Bn (n - dw) * Bn dw) by (rewrite <- Bn_add; f_equal; lia).
    pose proof (Bn_pos (n - dw)). pose proof B_half as Hh. pose proof p63_pos.
    assert (H63 : 2 ^ s <= 2 ^ 63) by (apply Z.pow_le_mono_r; lia).
    assert (X' < Bn n * 2 ^ s) by (unfold X'; apply Z.mul_lt_mono_pos_r; lia).
    assert (Bn n * 2 ^ s <= Bn n * 2 ^ 63) by (apply Z.mul_le_mono_nonneg_l; lia).
    assert (Bn (n - dw) * (Bn dw * 2 ^ 63) <= Bn (n - dw) * (Yn * B)).
    { apply Z.mul_le_mono_nonneg_l; [lia|]. rewrite Hh.
      assert (Bn dw * 2 ^ 63 <= (2 * Yn) * 2 ^ 63) by (apply Z.mul_le_mono_nonneg_r; lia). lia. }
    rewrite <- Hxe in *. rewrite HBn in *. lia. }
  pose proof (div_ct_loop_correct n dw y yn rc X' ltac:(lia) eq_refl Hlyn Hwyn
                ltac:(cbn [r_d rc]; assumption) Hrcd Htopd (n - 1)%nat st0 ltac:(lia) ltac:(lia) Hinv0) as Hfin.
  fold dwords in Hfin. set (st := div_ct_loop (n - 1) n dwords y rc st0) in *.
  destruct Hfin as (xw & qs & Hx & Hlxw & Hlqs & Hwxw & Hwqs & Hxhif & Hxlo & HWM & HX).
  unfold ctM in HWM, HX. rewrite Heyn in HWM, HX.
  assert (Hlenx : length (c_x st) = n) by (rewrite Hx, app_length; lia).
  pose proof (eval_bounds xw Hwxw) as Hbxw. pose proof (eval_bounds qs Hwqs) as Hbqs.
  unfold is_word in Hxhif.
  destruct (Nat.eq_dec dw 1) as [E1|E1].
  - (* single-limb divisor: the last digit comes from div2by1 *)
    assert (dwords =? 1 = true) as -> by (apply Z.eqb_eq; unfold dwords; lia).
    rewrite sel_true.
    assert (Hd1 : Yn = d).
    { rewrite <- Heyn, Eyn. destruct yn' as [|? ?]; [|simpl in Hlyn'; lia]. cbn [app eval]. lia. }
    rewrite E1 in *. replace (1 - 2)%nat with 0%nat in * by lia. replace (0 + 2 - 1)%nat with 1%nat in * by lia.
    rewrite Bn_1 in *.
    destruct xw as [|r0 [|? ?]]; try (simpl in Hlxw; lia). cbn [eval] in *.
    apply wf_cons in Hwxw. destruct Hwxw as [Hr0 _].
    assert (Hx0 : nthz (c_x st) 0 = r0) by (rewrite Hx; reflexivity).
    rewrite Hxlo, Hx0.
    assert (Hxhid : 0 <= c_xhi st < r_d rc).
    { cbn [r_d rc]. rewrite <- Hd1. split; [lia|]. unfold is_word in Hr0.
      destruct (Z_lt_ge_dec (c_xhi st) Yn); [assumption|]. exfalso.
      assert (B * Yn <= B * c_xhi st) by (apply Z.mul_le_mono_nonneg_l; lia). lia. }
    pose proof (div2by1_correct (c_xhi st) r0 rc Hr0 Hxhid ltac:(cbn [r_d rc]; assumption) Hrcd) as H21.
    destruct (div2by1 (c_xhi st) r0 rc) as [quo2 rem2]. cbn [r_d rc] in H21. destruct H21 as (He21 & Hrem2 & Hquo2).
    change (sel true (nthz (c_x st) 0) quo2) with quo2. rewrite !sel_true.
    rewrite Hx. cbn [app]. unfold upd. cbn [firstn skipn app].
    unfold shr_val.
    replace ((dwords - 1) * 64) with 0 by (unfold dwords; lia). rewrite Z.pow_0_r, Z.div_1_r.
    assert (Hwq : wf (quo2 :: qs)) by (apply wf_cons; split; [unfold is_word; lia | assumption]).
    pose proof (eval_bounds _ Hwq) as Hbq. cbn [length] in Hbq. replace (S (length qs)) with n in Hbq by lia.
    assert (Htail : eval (map (fun i : nat =>
               sel (Z.of_nat i =? dwords - 1) (sel (Z.of_nat i <? dwords) 0 (nthz (quo2 :: qs) i)) (c_xhi st))
               (seq 1 (n - 1))) = 0).
    { apply eval_map_zero. intros i Hi. apply in_seq in Hi. cbv zeta. unfold sel.
      assert (Z.of_nat i =? dwords - 1 = false) as -> by (apply Z.eqb_neq; unfold dwords; lia).
      assert (Z.of_nat i <? dwords = false) as -> by (apply Z.ltb_ge; unfold dwords; lia). reflexivity. }
    cbn [eval]. rewrite Htail. replace (rem2 + B * 0) with rem2 by lia.
    rewrite !eval_to_limbs, !length_to_limbs.
    cbn [eval] in Hbq. rewrite (Z.mod_small (quo2 + B * eval qs)) by lia.
    assert (HXn : eval x0 * 2 ^ s = rem2 + (eval y0 * 2 ^ s) * (quo2 + B * eval qs)).
    { fold X' Yn. rewrite HX, Hd1. lia. }
    destruct (denormalise (eval x0) (2 ^ s) rem2 (eval y0) (quo2 + B * eval qs) H2s HXn ltac:(fold Yn; lia)) as [Hf1 Hf2].
    rewrite (Z.mod_small (rem2 / 2 ^ s)) by lia.
    repeat split; auto using wf_to_limbs; lia.
  - (* at least two divisor limbs: the remainder sits in the low limbs and x_hi *)
    assert (dwords =? 1 = false) as -> by (apply Z.eqb_neq; unfold dwords; lia).
    rewrite sel_false.
    destruct (div2by1 0 (c_xlo st) rc) as [quo2 rem2].
    change (sel false (nthz (c_x st) 0) quo2) with (nthz (c_x st) 0). rewrite sel_false.
    replace (upd (c_x st) 0 (nthz (c_x st) 0)) with (c_x st) by (rewrite upd_self; [reflexivity | lia]).
    replace (dw - 2 + 2 - dw)%nat with 0%nat in * by lia. rewrite Bn_0, Z.mul_1_r in *.
    replace (S (dw - 2)) with (dw - 1)%nat in * by lia.
    rewrite Hx. unfold dwords. rewrite (ct_rem_list xw qs (c_xhi st) n dw) by (try rewrite <- Hx; lia).
    unfold shr_val.
    replace ((Z.of_nat dw - 1) * 64) with (64 * Z.of_nat (dw - 1)) by lia. rewrite <- Bn_pow2.
    assert (Hq : eval (xw ++ qs) / Bn (dw - 1) = eval qs).
    { rewrite eval_app, Hlxw. pose proof (Bn_pos (dw - 1)). rewrite Hlxw in Hbxw.
      apply (div_mod_unique_pos (Bn (dw - 1)) (eval qs) (eval xw)); lia. }
    rewrite Hq.
    assert (HeL : eval (xw ++ [c_xhi st] ++ zeros (n - dw)) = eval xw + Bn (dw - 1) * c_xhi st).
    { rewrite !eval_app, eval_zeros, Hlxw. cbn [eval length]. ring. }
    rewrite HeL. set (W := eval xw + Bn (dw - 1) * c_xhi st) in *.
    assert (HW0 : 0 <= W).
    { unfold W. pose proof (Bn_pos (dw - 1)). assert (0 <= Bn (dw - 1) * c_xhi st) by (apply Z.mul_nonneg_nonneg; lia). lia. }
    rewrite !eval_to_limbs, !length_to_limbs.
    assert (Hqs : eval qs < Bn n).
    { assert (Bn (length qs) <= Bn n) by (apply Bn_le; lia). lia. }
    rewrite (Z.mod_small (eval qs)) by lia.
    assert (HXn : eval x0 * 2 ^ s = W + (eval y0 * 2 ^ s) * eval qs) by (fold X' Yn; rewrite HX; ring).
    destruct (denormalise (eval x0) (2 ^ s) W (eval y0) (eval qs) H2s HXn ltac:(fold Yn; lia)) as [Hf1 Hf2].
    rewrite (Z.mod_small (W / 2 ^ s)) by lia.
    repeat split; auto using wf_to_limbs; lia.
Qed.

(* ---------- Uint::div_rem ---------- *)
Theorem uint_div_rem_correct x0 y0 :
  wf x0 -> wf y0 -> length y0 = length x0 -> eval y0 <> 0 ->
  recip_ok (top64 (eval y0)) (reciprocal (top64 (eval y0))) ->
  exists q r, uint_div_rem x0 y0 = Some (q, r) /\
  eval x0 = eval q * eval y0 + eval r /\ 0 <= eval r < eval y0 /\
  length q = length x0 /\ length r = length x0 /\ wf q /\ wf r.
Proof.
  intros Hwx Hwy Hlen Hnz Hrec.
  pose proof (eval_nonneg y0 Hwy) as Hy0. assert (Hyp : 0 < eval y0) by lia.
  unfold uint_div_rem. pose proof B_gt1 as HB.
  destruct (length x0 =? 1)%nat eqn:E1.
  - apply Nat.eqb_eq in E1. destruct y0 as [|d [|? ?]]; try (simpl in Hlen; lia).
    cbn [eval] in *. unfold nthz. cbn [nth]. apply wf_cons in Hwy. destruct Hwy as [Hd _]. unfold is_word in Hd.
    replace (d + B * 0) with d in * by lia.
    assert (d =? 0 = false) as -> by (apply Z.eqb_neq; lia).
    assert (Hfor : recip_for d (recip_new d)).
    { apply recip_new_for; [lia|]. rewrite recip_new_top64 by lia. assumption. }
    pose proof (div_rem_limb_correct x0 d (recip_new d) Hwx ltac:(lia) Hfor) as H.
    destruct (div_rem_limb_with_reciprocal x0 (recip_new d)) as [q1 r1].
    destruct H as (He & Hr & Hwq & Hlq). exists q1, [r1]. split; [reflexivity|].
    cbn [eval length]. repeat split; auto; try lia.
    apply wf_cons. split; [unfold is_word; lia | apply wf_nil].
  - apply Nat.eqb_neq in E1.
    destruct (bits_of_spec _ Hyp) as (Hb1 & _).
    assert (bits_of (eval y0) =? 0 = false) as -> by (apply Z.eqb_neq; lia).
    assert (Hn2 : (2 <= length x0)%nat).
    { destruct x0 as [|a [|b x0]]; cbn [length] in *; try lia.
      destruct y0; [simpl in Hyp; lia | simpl in Hlen; lia]. }
    pose proof (div_rem_ct_core_correct x0 y0 Hwx Hwy Hlen Hn2 Hyp Hrec) as H.
    destruct (div_rem_ct_core x0 y0 (bits_of (eval y0))) as [q r]. exists q, r. split; [reflexivity | exact H].
Qed.

Theorem uint_div_rem_zero x0 y0 : wf y0 -> length y0 = length x0 -> eval y0 = 0 -> uint_div_rem x0 y0 = None.
Proof.
  intros Hwy Hlen Hz. unfold uint_div_rem. destruct (length x0 =? 1)%nat eqn:E1.
  - apply Nat.eqb_eq in E1. destruct y0 as [|d [|? ?]]; try (simpl in Hlen; lia).
    cbn [eval] in Hz. unfold nthz. cbn [nth]. apply wf_cons in Hwy. destruct Hwy as [Hd _]. unfold is_word in Hd.
    assert (d = 0) by lia. subst d. reflexivity.
  - rewrite Hz. reflexivity.
Qed.
