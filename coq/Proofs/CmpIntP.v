(** C06 proofs, part 2: Int<N> — signed comparison by flipping the sign bit, sign tests, MIN / MAX tests,
    new_from_abs_sign. All statements for every non-zero limb count. *)
From CB Require Import Model.Limbs Model.AddSub Model.Cmp Proofs.WordP Proofs.LimbsP Proofs.AddSubP
  Proofs.CmpWordP Proofs.CmpP.
From Coq Require Import ZArith Lia List Bool.
Open Scope Z_scope.

Lemma combine_app2 {A C} (a1 a2 : list A) (b1 b2 : list C) : length a1 = length b1 ->
  combine (a1 ++ a2) (b1 ++ b2) = combine a1 b1 ++ combine a2 b2.
Proof.
  revert b1. induction a1 as [|x a1 IH]; intros [|y b1] H; try discriminate; [reflexivity|].
  simpl. f_equal. apply IH. simpl in H. lia.
Qed.

Lemma xor_limbs_zeros l : xor_limbs l (zeros (length l)) = l.
Proof.
  unfold xor_limbs, zeros. induction l as [|x l IH]; [reflexivity|].
  cbn [length repeat combine map fst snd]. unfold wxor at 1. rewrite Z.lxor_0_r. f_equal. exact IH.
Qed.

Lemma int_invert_msb_snoc l x : int_invert_msb (l ++ [x]) = l ++ [wxor x (2 ^ 63)].
Proof.
  unfold int_invert_msb. rewrite app_length. cbn [length]. rewrite Nat.add_1_r. cbn [sign_mask].
  unfold xor_limbs. rewrite combine_app2 by (rewrite length_zeros; reflexivity).
  rewrite map_app. fold (xor_limbs l (zeros (length l))). rewrite xor_limbs_zeros. reflexivity.
Qed.

Lemma half_S k : half (S k) = 2 ^ 63 * Bn k.
Proof.
  unfold half. rewrite Bn_S, B_half.
  replace (2 * 2 ^ 63 * Bn k) with (2 ^ 63 * Bn k * 2) by ring. apply Z.div_mul. lia.
Qed.
Lemma Bn_half_S k : Bn (S k) = 2 * half (S k).
Proof. rewrite half_S, Bn_S, B_half. ring. Qed.

Lemma half_pos (a : list Z) : a <> [] -> 0 < half (length a).
Proof.
  destruct a as [|x a]; [congruence|]. intros _. cbn [length]. rewrite half_S.
  word_facts. pose proof (Bn_pos (length a)). apply Z.mul_pos_pos; lia.
Qed.

Lemma seval_nil : seval [] = 0.
Proof. unfold seval. cbn [eval length]. rewrite Bn_0. reflexivity. Qed.

(** two's complement value in terms of the top limb *)
Lemma seval_snoc l x : wf l -> is_word x ->
  seval (l ++ [x]) = eval l + Bn (length l) * x - (if 2 ^ 63 <=? x then Bn (S (length l)) else 0).
Proof.
  intros Hl Hx. unfold seval. rewrite eval_app, app_length. cbn [eval length]. rewrite Nat.add_1_r.
  rewrite Z.mul_0_r, Z.add_0_r.
  pose proof (eval_bounds l Hl) as Bl. pose proof (Bn_pos (length l)) as Bp.
  rewrite Bn_S, B_half. unfold is_word in Hx. word_facts.
  set (K := Bn (length l)) in *. set (e := eval l) in *.
  destruct (Z.leb_spec (2 ^ 63) x) as [Hm|Hm].
  - assert (K * 2 ^ 63 <= K * x) by (apply Z.mul_le_mono_nonneg_l; lia).
    destruct (Z.ltb_spec (2 * (e + K * x)) (2 * 2 ^ 63 * K)); lia.
  - assert (K * x <= K * (2 ^ 63 - 1)) by (apply Z.mul_le_mono_nonneg_l; lia).
    destruct (Z.ltb_spec (2 * (e + K * x)) (2 * 2 ^ 63 * K)); lia.
Qed.

Lemma seval_range a : wf a -> a <> [] -> - half (length a) <= seval a < half (length a).
Proof.
  intros Ha Hn. destruct (exists_last Hn) as (l & x & ->).
  apply wf_app in Ha. destruct Ha as [Hl Hx]. apply wf_cons in Hx. destruct Hx as [Hx _].
  rewrite seval_snoc by assumption. rewrite app_length. cbn [length]. rewrite Nat.add_1_r.
  rewrite Bn_half_S, half_S.
  pose proof (eval_bounds l Hl). pose proof (Bn_pos (length l)). unfold is_word in Hx. word_facts.
  set (K := Bn (length l)) in *.
  destruct (Z.leb_spec (2 ^ 63) x).
  - assert (K * 2 ^ 63 <= K * x) by (apply Z.mul_le_mono_nonneg_l; lia).
    assert (K * x <= K * (2 * 2 ^ 63 - 1)) by (apply Z.mul_le_mono_nonneg_l; lia). lia.
  - assert (K * x <= K * (2 ^ 63 - 1)) by (apply Z.mul_le_mono_nonneg_l; lia).
    assert (0 <= K * x) by (apply Z.mul_nonneg_nonneg; lia). lia.
Qed.

(** eval and seval differ by the modulus exactly for negative values *)
Lemma seval_eval a : wf a -> a <> [] ->
  seval a = eval a - (if half (length a) <=? eval a then Bn (length a) else 0).
Proof.
  intros Ha Hn. unfold seval. destruct a as [|x0 a0]; [congruence|].
  cbn [length]. rewrite Bn_half_S.
  destruct (Z.ltb_spec (2 * eval (x0 :: a0)) (2 * half (S (length a0)))),
           (Z.leb_spec (half (S (length a0))) (eval (x0 :: a0))); lia.
Qed.

(** flipping the sign bit maps the signed order onto the unsigned order *)
Lemma invert_msb_facts a : wf a -> a <> [] ->
  eval (int_invert_msb a) = seval a + half (length a) /\ wf (int_invert_msb a) /\
  length (int_invert_msb a) = length a.
Proof.
  intros Ha Hn. destruct (exists_last Hn) as (l & x & ->).
  apply wf_app in Ha. destruct Ha as [Hl Hx]. apply wf_cons in Hx. destruct Hx as [Hx _].
  rewrite int_invert_msb_snoc, seval_snoc by assumption.
  rewrite eval_app, !app_length. cbn [eval length]. rewrite Nat.add_1_r, half_S, Bn_S, B_half.
  assert (Hw : is_word (wxor x (2 ^ 63))) by (apply is_word_lxor; [assumption | apply is_word_p63]).
  split; [|split; [apply wf_app; split; [assumption | apply wf_cons; split; [assumption | apply wf_nil]] | reflexivity]].
  unfold wxor. rewrite (lxor_p63 x Hx).
  destruct (Z.leb_spec (2 ^ 63) x); ring.
Qed.

Section SignedOrder.
  Variables a b : list Z.
  Hypothesis Ha : wf a.
  Hypothesis Hb : wf b.
  Hypothesis Hl : length a = length b.
  Hypothesis Hn : a <> [].

  Let Hnb : b <> [].
  Proof. destruct b; [destruct a; [congruence | discriminate] | discriminate]. Qed.

  Lemma int_lt_spec : int_lt a b = choice_of_bool (seval a <? seval b).
  Proof.
    destruct (invert_msb_facts a Ha Hn) as (Ea & Wa & La). destruct (invert_msb_facts b Hb Hnb) as (Eb & Wb & Lb).
    unfold int_lt. rewrite uint_lt_spec by (auto; congruence). rewrite Ea, Eb, Hl. f_equal.
    destruct (Z.ltb_spec (seval a + half (length b)) (seval b + half (length b))), (Z.ltb_spec (seval a) (seval b)); lia || reflexivity.
  Qed.
  Lemma int_gt_spec : int_gt a b = choice_of_bool (seval b <? seval a).
  Proof.
    destruct (invert_msb_facts a Ha Hn) as (Ea & Wa & La). destruct (invert_msb_facts b Hb Hnb) as (Eb & Wb & Lb).
    unfold int_gt. rewrite uint_gt_spec by (auto; congruence). rewrite Ea, Eb, Hl. f_equal.
    destruct (Z.ltb_spec (seval b + half (length b)) (seval a + half (length b))), (Z.ltb_spec (seval b) (seval a)); lia || reflexivity.
  Qed.
  Lemma int_cmp_spec : int_cmp a b = ordz (seval a) (seval b).
  Proof.
    destruct (invert_msb_facts a Ha Hn) as (Ea & Wa & La). destruct (invert_msb_facts b Hb Hnb) as (Eb & Wb & Lb).
    unfold int_cmp. rewrite uint_cmp_spec by (auto; congruence). rewrite Ea, Eb, Hl. apply ordz_shift.
  Qed.
  Lemma int_cmp_vartime_spec : int_cmp_vartime a b = ordz (seval a) (seval b).
  Proof.
    destruct (invert_msb_facts a Ha Hn) as (Ea & Wa & La). destruct (invert_msb_facts b Hb Hnb) as (Eb & Wb & Lb).
    unfold int_cmp_vartime. rewrite uint_cmp_vartime_spec by (auto; congruence). rewrite Ea, Eb, Hl. apply ordz_shift.
  Qed.
  (** Int::eq compares the bit patterns, which is equality of the signed values *)
  Lemma int_eq_spec : uint_eq a b = choice_of_bool (seval a =? seval b).
  Proof.
    rewrite uint_eq_spec by assumption. f_equal.
    rewrite (seval_eval a Ha Hn), (seval_eval b Hb Hnb), Hl.
    pose proof (eval_bounds a Ha). pose proof (eval_bounds b Hb). rewrite Hl in *.
    pose proof (Bn_pos (length b)).
    destruct (Z.leb_spec (half (length b)) (eval a)), (Z.leb_spec (half (length b)) (eval b)),
      (Z.eqb_spec (eval a) (eval b)); symmetry; try (apply Z.eqb_eq; lia); apply Z.eqb_neq; try lia.
    all: destruct b as [|y b0]; [congruence|]; cbn [length] in *; rewrite Bn_half_S in *; lia.
  Qed.
End SignedOrder.

(* ---------------------------------------------------------------- sign tests *)
Lemma cc_and_choice p q : cc_and (choice_of_bool p) (choice_of_bool q) = choice_of_bool (p && q).
Proof. destruct p, q; reflexivity. Qed.
Lemma cc_or_choice p q : cc_or (choice_of_bool p) (choice_of_bool q) = choice_of_bool (p || q).
Proof. destruct p, q; reflexivity. Qed.
Lemma cc_not_choice p : cc_not (choice_of_bool p) = choice_of_bool (negb p).
Proof. destruct p; reflexivity. Qed.

Lemma int_is_negative_spec a : wf a -> int_is_negative a = choice_of_bool (seval a <? 0).
Proof.
  intros Ha. destruct a as [|x0 a0] eqn:Ea.
  - rewrite seval_nil. reflexivity.
  - rewrite <- Ea in *. assert (Hn : a <> []) by (rewrite Ea; discriminate). clear Ea.
    destruct (exists_last Hn) as (l & x & ->).
    apply wf_app in Ha. destruct Ha as [Hl Hx]. apply wf_cons in Hx. destruct Hx as [Hx _].
    unfold int_is_negative. rewrite last_last, from_word_msb_spec by assumption. f_equal.
    rewrite seval_snoc by assumption. rewrite Bn_S.
    pose proof (eval_bounds l Hl). pose proof (Bn_pos (length l)). unfold is_word in Hx. word_facts.
    set (K := Bn (length l)) in *.
    destruct (Z.leb_spec (2 ^ 63) x).
    + assert (K * x <= K * (B - 1)) by (apply Z.mul_le_mono_nonneg_l; lia).
      symmetry. apply Z.ltb_lt. lia.
    + assert (0 <= K * x) by (apply Z.mul_nonneg_nonneg; lia). symmetry. apply Z.ltb_ge. lia.
Qed.

Lemma seval_zero_iff a : wf a -> (seval a = 0 <-> eval a = 0).
Proof.
  intros Ha. destruct a as [|x0 a0] eqn:Ea; [rewrite seval_nil; simpl; tauto|].
  rewrite <- Ea in *. assert (Hn : a <> []) by (rewrite Ea; discriminate).
  rewrite (seval_eval a Ha Hn). pose proof (eval_bounds a Ha). pose proof (half_pos a Hn).
  destruct (Z.leb_spec (half (length a)) (eval a)); lia.
Qed.

Lemma int_is_positive_spec a : wf a -> int_is_positive a = choice_of_bool (0 <? seval a).
Proof.
  intros Ha. unfold int_is_positive. rewrite int_is_negative_spec, uint_is_nonzero_spec by assumption.
  rewrite cc_not_choice, cc_and_choice. f_equal.
  pose proof (seval_zero_iff a Ha).
  destruct (Z.ltb_spec (seval a) 0), (Z.eqb_spec (eval a) 0), (Z.ltb_spec 0 (seval a)); simpl; try reflexivity; lia.
Qed.

Lemma eval_sign_mask k : eval (sign_mask (S k)) = half (S k).
Proof. cbn [sign_mask]. rewrite eval_app, eval_zeros, length_zeros, half_S. cbn [eval]. ring. Qed.
Lemma wf_sign_mask n : wf (sign_mask n).
Proof.
  destruct n; [apply wf_nil|]. cbn [sign_mask]. apply wf_app. split; [apply wf_zeros|].
  apply wf_cons. split; [apply is_word_p63 | apply wf_nil].
Qed.
Lemma length_sign_mask n : length (sign_mask n) = n.
Proof. destruct n; [reflexivity|]. cbn [sign_mask]. rewrite app_length, length_zeros. simpl. lia. Qed.
Lemma eval_int_max k : eval (int_max (S k)) = half (S k) - 1.
Proof.
  cbn [int_max]. rewrite eval_app, eval_maxs, length_maxs, half_S. cbn [eval]. ring.
Qed.
Lemma wf_int_max n : wf (int_max n).
Proof.
  destruct n; [apply wf_nil|]. cbn [int_max]. apply wf_app. split; [apply wf_maxs|].
  apply wf_cons. split; [|apply wf_nil]. unfold is_word. word_facts. lia.
Qed.
Lemma length_int_max n : length (int_max n) = n.
Proof. destruct n; [reflexivity|]. cbn [int_max]. rewrite app_length, length_maxs. simpl. lia. Qed.

Lemma int_is_min_spec a : wf a -> a <> [] -> int_is_min a = choice_of_bool (seval a =? - half (length a)).
Proof.
  intros Ha Hn. unfold int_is_min.
  rewrite uint_eq_spec by (auto using wf_sign_mask; rewrite length_sign_mask; reflexivity).
  f_equal. rewrite (seval_eval a Ha Hn). pose proof (eval_bounds a Ha).
  destruct a as [|x0 a0]; [congruence|]. cbn [length] in *. rewrite eval_sign_mask. rewrite Bn_half_S in *.
  destruct (Z.leb_spec (half (S (length a0))) (eval (x0 :: a0))),
    (Z.eqb_spec (eval (x0 :: a0)) (half (S (length a0)))); symmetry; try (apply Z.eqb_eq; lia); apply Z.eqb_neq; lia.
Qed.

Lemma int_is_max_spec a : wf a -> a <> [] -> int_is_max a = choice_of_bool (seval a =? half (length a) - 1).
Proof.
  intros Ha Hn. unfold int_is_max.
  rewrite uint_eq_spec by (auto using wf_int_max; rewrite length_int_max; reflexivity).
  f_equal. rewrite (seval_eval a Ha Hn). pose proof (eval_bounds a Ha).
  destruct a as [|x0 a0]; [congruence|]. cbn [length] in *. rewrite eval_int_max. rewrite Bn_half_S in *.
  destruct (Z.leb_spec (half (S (length a0))) (eval (x0 :: a0))),
    (Z.eqb_spec (eval (x0 :: a0)) (half (S (length a0)) - 1)); symmetry; try (apply Z.eqb_eq; lia); apply Z.eqb_neq; lia.
Qed.

(** to_nz / to_odd on Int test the bit pattern: zero-ness and parity of the signed value *)
Lemma int_to_nz_spec a : wf a -> uint_is_nonzero a = choice_of_bool (negb (seval a =? 0)).
Proof.
  intros Ha. rewrite uint_is_nonzero_spec by assumption. f_equal. f_equal.
  pose proof (seval_zero_iff a Ha).
  destruct (Z.eqb_spec (eval a) 0), (Z.eqb_spec (seval a) 0); try reflexivity; tauto.
Qed.

Lemma int_to_odd_spec a : wf a -> a <> [] -> uint_is_odd a = choice_of_bool (Z.odd (seval a)).
Proof.
  intros Ha Hn. rewrite uint_is_odd_spec by assumption. f_equal.
  rewrite (seval_eval a Ha Hn). destruct a as [|x0 a0]; [congruence|]. cbn [length].
  destruct (Z.leb_spec (half (S (length a0))) (eval (x0 :: a0))); [|rewrite Z.sub_0_r; reflexivity].
  rewrite Bn_S, B_half. rewrite <- Z.mul_assoc.
  replace (eval (x0 :: a0) - 2 * (2 ^ 63 * Bn (length a0))) with (eval (x0 :: a0) + 2 * (- (2 ^ 63 * Bn (length a0)))) by ring.
  symmetry. apply Z.odd_add_mul_2.
Qed.

(* ---------------------------------------------------------------- new_from_abs_sign *)
(** Some exactly when (+-)abs fits the signed range, and then the result is that value *)
Lemma int_new_from_abs_sign_spec ab (c : bool) v fits : wf ab -> ab <> [] ->
  int_new_from_abs_sign ab (choice_of_bool c) = (v, fits) ->
  let n := length ab in
  let s := if c then - eval ab else eval ab in
  fits = choice_of_bool ((- half n <=? s) && (s <? half n)) /\
  wf v /\ length v = n /\ eval v = s mod Bn n /\
  ((- half n <=? s) && (s <? half n) = true -> seval v = s).
Proof.
  intros Ha Hn E. cbv zeta. unfold int_new_from_abs_sign in E. inv_pair E.
  destruct (uint_neg_if_spec ab c Ha) as (Ev & Wv & Lv).
  rewrite uint_lte_spec by (auto using wf_int_max; rewrite length_int_max; reflexivity).
  rewrite uint_eq_spec by (auto using wf_sign_mask; rewrite length_sign_mask; reflexivity).
  rewrite cc_and_choice, cc_or_choice.
  pose proof (eval_bounds ab Ha) as Bab.
  assert (exists k, length ab = S k) as [k Ek] by (destruct ab; [congruence | eexists; reflexivity]).
  rewrite Ek in *.
  set (v := uint_neg_if ab (choice_of_bool c)) in *.
  set (s := if c then - eval ab else eval ab) in *.
  rewrite eval_int_max, eval_sign_mask.
  assert (Hh : 0 < half (S k)) by (rewrite half_S; word_facts; pose proof (Bn_pos k); nia).
  rewrite Bn_half_S in *.
  split.
  { f_equal. unfold s.
    destruct c; cbn [andb];
      destruct (Z.leb_spec (eval ab) (half (S k) - 1)), (Z.eqb_spec (eval ab) (half (S k)));
      cbn [orb];
      repeat match goal with |- context [?x <=? ?y] => destruct (Z.leb_spec x y) end;
      repeat match goal with |- context [?x <? ?y] => destruct (Z.ltb_spec x y) end;
      cbn [andb]; try reflexivity; lia. }
  split; [assumption|]. split; [assumption|]. split; [assumption|].
  intros Hf. apply andb_prop in Hf. destruct Hf as [H1 H2]. apply Z.leb_le in H1. apply Z.ltb_lt in H2.
  assert (Hvn : v <> []) by (destruct v; [discriminate | discriminate]).
  rewrite (seval_eval v Wv Hvn), Lv, Ev. rewrite Bn_half_S.
  destruct (Z_lt_ge_dec s 0).
  - assert (Em : s mod (2 * half (S k)) = s + 2 * half (S k)) by (symmetry; apply (Z.mod_unique_pos _ _ (-1)); lia).
    rewrite Em. destruct (Z.leb_spec (half (S k)) (s + 2 * half (S k))); lia.
  - rewrite Z.mod_small by lia. destruct (Z.leb_spec (half (S k)) s); lia.
Qed.

(* ---------------------------------------------------------------- abs_sign *)
(** the magnitude |value| (which always fits the unsigned width) and the sign *)
Lemma int_abs_sign_spec a m sg : wf a -> a <> [] -> int_abs_sign a = (m, sg) ->
  sg = choice_of_bool (seval a <? 0) /\ eval m = Z.abs (seval a) /\ wf m /\ length m = length a.
Proof.
  intros Ha Hn E. unfold int_abs_sign in E. cbv zeta in E. rewrite int_is_negative_spec in E by assumption.
  inv_pair E. destruct (uint_neg_if_spec a (seval a <? 0) Ha) as (Ev & Wv & Lv).
  split; [reflexivity|]. split; [|split; assumption]. rewrite Ev.
  rewrite (seval_eval a Ha Hn). pose proof (eval_bounds a Ha). pose proof (half_pos a Hn).
  assert (Hb : Bn (length a) = 2 * half (length a)).
  { destruct a as [|x0 a0]; [congruence|]. cbn [length]. apply Bn_half_S. }
  destruct (Z.leb_spec (half (length a)) (eval a)).
  - destruct (Z.ltb_spec (eval a - Bn (length a)) 0); [|lia].
    rewrite Z.abs_neq by lia. symmetry. apply (Z.mod_unique_pos _ _ (-1)); lia.
  - rewrite Z.sub_0_r. destruct (Z.ltb_spec (eval a) 0); [lia|].
    rewrite Z.abs_eq by lia. apply Z.mod_small. lia.
Qed.
