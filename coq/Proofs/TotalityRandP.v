(** C11, area rand (Model/Rand.v, owner C19): with the infallible RNG wrappers the only panic is the replay stream
    running out (the rejection samplers terminate iff the stream eventually offers an acceptable word); the try_* forms
    return every error, including the documented random_bits errors, and never panic. *)
From CB Require Import Model.Limbs Model.AddSub Model.Rand Proofs.WordP Proofs.LimbsP Proofs.RandBaseP Proofs.RandBitsP
  Proofs.RandModP Proofs.RandMiscP Proofs.TotalityP.
From Coq Require Import ZArith Lia List String Bool.
Open Scope Z_scope.
Notation length := List.length.

Lemma rand_cover : covers rand_keys ops_rand_model = true.
Proof. vm_compute. reflexivity. Qed.
Lemma rand_quiet : quiet_keys_ok ops_rand_model ops_rand_spec rand_quiet_keys.
Proof. unfold rand_quiet_keys. intros k dbg a []. Qed.

Local Ltac start := start_key ops_rand_model ops_rand_spec rand_ty.
Local Ltac ctor_iff := split; intros HP; try discriminate HP; try reflexivity.

(* the outcome wrappers: exhaustion panics exactly in the infallible form *)
Lemma rnd_out_iff f o s n :
  (o = None <-> s = SpExhausted) -> (rnd_out f o = PanicV <-> rnd_sp_out n f s = PanicV).
Proof.
  intros H. destruct o as [[v [ws nw nb]]|]; destruct s as [x k b|]; cbn [rnd_out rnd_sp_out];
    try (destruct H as [H1 H2]; first [specialize (H1 eq_refl) | specialize (H2 eq_refl)]; discriminate).
  - ctor_iff.
  - tauto.
Qed.
Lemma rnd_out1_iff f o s :
  (o = None <-> s = SpExhausted) -> (rnd_out1 f o = PanicV <-> rnd_sp_out 1 f s = PanicV).
Proof.
  intros H. destruct o as [[v [ws nw nb]]|]; destruct s as [x k b|]; cbn [rnd_out1 rnd_sp_out];
    try (destruct H as [H1 H2]; first [specialize (H1 eq_refl) | specialize (H2 eq_refl)]; discriminate).
  - ctor_iff.
  - tauto.
Qed.
Lemma agrees_none n ws base nw nb o s : rnd_agrees n ws base nw nb o s -> (o = None <-> s = SpExhausted).
Proof. destruct o as [[v [r nw' nb']]|]; destruct s; cbn; intros H; try contradiction; split; intros; try discriminate; reflexivity. Qed.
Lemma agrees1_none ws base nw nb o s : rnd_agrees1 ws base nw nb o s -> (o = None <-> s = SpExhausted).
Proof. destruct o as [[v [r nw' nb']]|]; destruct s; cbn; intros H; try contradiction; split; intros; try discriminate; reflexivity. Qed.

(* the domain test of the modulus argument *)
Lemma nonzero_arg_dom m : rnd_nonzero_arg m = true -> wf m /\ 0 < eval m.
Proof.
  unfold rnd_nonzero_arg. intros H. apply andb_prop in H. destruct H as [H1 H2].
  assert (Hw : wf m).
  { unfold wfb in H2. unfold wf. rewrite forallb_forall in H2. apply Forall_forall. intros x Hx. specialize (H2 x Hx).
    unfold is_wordb in H2. apply andb_prop in H2. destruct H2 as [A C]. apply Z.leb_le in A. apply Z.ltb_lt in C.
    unfold is_word. lia. }
  split; [assumption|]. rewrite rnd_all_zero_spec in H1 by assumption.
  apply negb_true_iff, Z.eqb_neq in H1. pose proof (eval_nonneg m Hw). lia.
Qed.

Lemma key_limb_random : key_ok ops_rand_model ops_rand_spec rand_ty "limb.random".
Proof.
  start. apply rnd_out1_iff. unfold rnd_of, limb_random, rnd_u64, sp_random.
  destruct (arg 0 a) as [|w ws]; cbn [length Nat.ltb Nat.leb]; split; intros; try discriminate; reflexivity.
Qed.
Lemma key_uint_random : key_ok ops_rand_model ops_rand_spec rand_ty "uint.random".
Proof.
  start. cbv zeta. apply rnd_out_iff. unfold rnd_of. rewrite uint_random_spec by (apply wf_arg; assumption).
  unfold sp_random. destruct (_ <? _)%nat; split; intros; try discriminate; reflexivity.
Qed.
Lemma key_uint_random_mod : key_ok ops_rand_model ops_rand_spec rand_ty "uint.random_mod".
Proof.
  start. destruct (rnd_nonzero_arg (arg 1 a)) eqn:E; [|contradiction Hdom; reflexivity].
  apply nonzero_arg_dom in E. destruct E as [Hm Hp]. apply rnd_out_iff. unfold rnd_of, ev.
  exact (agrees_none _ _ _ _ _ _ _ (uint_random_mod_spec (arg 1 a) (arg 0 a) 0 0 Hm (wf_arg 0 a Hwf) Hp)).
Qed.
Lemma key_boxed_random_mod : key_ok ops_rand_model ops_rand_spec rand_ty "boxed.random_mod".
Proof.
  start. destruct (rnd_nonzero_arg (arg 1 a)) eqn:E; [|contradiction Hdom; reflexivity].
  apply nonzero_arg_dom in E. destruct E as [Hm Hp]. apply rnd_out_iff. unfold rnd_of, ev.
  rewrite rnd_mod_fixed_eq_boxed by assumption.
  exact (agrees_none _ _ _ _ _ _ _ (uint_random_mod_spec (arg 1 a) (arg 0 a) 0 0 Hm (wf_arg 0 a Hwf) Hp)).
Qed.
Lemma key_limb_random_mod : key_ok ops_rand_model ops_rand_spec rand_ty "limb.random_mod".
Proof.
  start. destruct (rnd_nonzero_arg [sarg 1 a]) eqn:E; [|contradiction Hdom; reflexivity].
  apply nonzero_arg_dom in E. destruct E as [Hm Hp]. cbn [eval] in Hp. apply wf_cons in Hm. destruct Hm as [Hm _].
  unfold is_word in Hm. apply rnd_out1_iff. unfold rnd_of.
  exact (agrees1_none _ _ _ _ _ _ (limb_random_mod_spec (sarg 1 a) (arg 0 a) 0 0 ltac:(lia) (wf_arg 0 a Hwf))).
Qed.
Lemma key_nonzero_uint_random : key_ok ops_rand_model ops_rand_spec rand_ty "nonzero_uint.random".
Proof.
  start. cbv zeta in *. destruct (Z.ltb_spec 0 (sarg 1 a)) as [Hn|Hn]; [|contradiction Hdom; reflexivity].
  apply rnd_out_iff. unfold rnd_of.
  exact (agrees_none _ _ _ _ _ _ _ (nonzero_uint_random_spec (Z.to_nat (sarg 1 a)) (arg 0 a) 0 0 ltac:(lia) (wf_arg 0 a Hwf))).
Qed.
Lemma key_nonzero_monty_random : key_ok ops_rand_model ops_rand_spec rand_ty "nonzero_monty.random".
Proof.
  start. destruct (rnd_nonzero_arg (arg 1 a)) eqn:E; [|contradiction Hdom; reflexivity].
  apply nonzero_arg_dom in E. destruct E as [Hm Hp]. apply rnd_out_iff. unfold rnd_of, ev.
  exact (agrees_none _ _ _ _ _ _ _ (nonzero_mod_random_spec (arg 1 a) (arg 0 a) 0 0 Hm Hp (wf_arg 0 a Hwf))).
Qed.
Lemma key_odd_uint_random : key_ok ops_rand_model ops_rand_spec rand_ty "odd_uint.random".
Proof.
  start. cbv zeta in *. destruct (Z.ltb_spec 0 (sarg 1 a)) as [Hn|Hn]; [|contradiction Hdom; reflexivity].
  apply rnd_out_iff. unfold rnd_of.
  exact (agrees_none _ _ _ _ _ _ _ (odd_uint_random_spec (Z.to_nat (sarg 1 a)) (arg 0 a) 0 0 (wf_arg 0 a Hwf) ltac:(lia))).
Qed.

(* ---- RandomBits: the documented errors (precision mismatch, bit_length > precision) and the RNG error are returned by
        try_random_bits*, and make the panicking wrappers panic: the same three tests, in the same order ---- *)
Lemma rnd_err_iff mode c f1 f2 c' f1' f2' :
  rnd_out_bits mode (RErr c f1 f2) = PanicV <-> rnd_sp_err mode c' f1' f2' = PanicV.
Proof. unfold rnd_out_bits, rnd_sp_err. destruct (mode =? 0); [|destruct (mode =? 1)]; ctor_iff. Qed.
Lemma rnd_err_exh_iff mode c f1 f2 n :
  rnd_out_bits mode (RErr c f1 f2) = PanicV <-> rnd_sp_out_bits n mode SpExhausted = PanicV.
Proof. unfold rnd_out_bits, rnd_sp_out_bits. destruct (mode =? 0); [|destruct (mode =? 1)]; ctor_iff. Qed.
Lemma rnd_ok_iff mode v r n x k b :
  rnd_out_bits mode (ROk v r) = PanicV <-> rnd_sp_out_bits n mode (SpOk x k b) = PanicV.
Proof. unfold rnd_out_bits, rnd_sp_out_bits. destruct r. destruct (mode =? 2); ctor_iff. Qed.

Lemma key_uint_random_bits : key_ok ops_rand_model ops_rand_spec rand_ty "uint.random_bits".
Proof.
  start. cbv zeta in *. unfold rnd_of.
  pose proof (sarg_word 1 a Hwf) as [Hn _]. pose proof (sarg_word 2 a Hwf) as [Hbl _].
  pose proof (uint_random_bits_outcome (Z.to_nat (sarg 1 a)) (arg 0 a) 0 0 (sarg 2 a) (sarg 3 a) (wf_arg 0 a Hwf) Hbl) as H.
  cbv zeta in H. rewrite Z2Nat.id in H by assumption.
  destruct H as [(H1 & ->)|[(H1 & H2 & ->)|[(H1 & H2 & H3 & ->)|(H1 & H2 & H3 & v & -> & _)]]].
  - replace (sarg 3 a =? 64 * sarg 1 a) with false by (symmetry; apply Z.eqb_neq; assumption). cbn [negb].
    apply rnd_err_iff.
  - replace (sarg 3 a =? 64 * sarg 1 a) with true by (symmetry; apply Z.eqb_eq; assumption). cbn [negb].
    replace (sarg 3 a <? sarg 2 a) with true by (symmetry; apply Z.ltb_lt; lia). apply rnd_err_iff.
  - replace (sarg 3 a =? 64 * sarg 1 a) with true by (symmetry; apply Z.eqb_eq; assumption). cbn [negb].
    replace (sarg 3 a <? sarg 2 a) with false by (symmetry; apply Z.ltb_ge; lia).
    unfold sp_random_bits. cbv zeta.
    replace (Z.of_nat (length (arg 0 a)) <? rnd_ceil (sarg 2 a) 64) with true by (symmetry; apply Z.ltb_lt; assumption).
    apply rnd_err_exh_iff.
  - replace (sarg 3 a =? 64 * sarg 1 a) with true by (symmetry; apply Z.eqb_eq; assumption). cbn [negb].
    replace (sarg 3 a <? sarg 2 a) with false by (symmetry; apply Z.ltb_ge; lia).
    unfold sp_random_bits. cbv zeta.
    replace (Z.of_nat (length (arg 0 a)) <? rnd_ceil (sarg 2 a) 64) with false by (symmetry; apply Z.ltb_ge; assumption).
    apply rnd_ok_iff.
Qed.
Lemma key_boxed_random_bits : key_ok ops_rand_model ops_rand_spec rand_ty "boxed.random_bits".
Proof.
  start. cbv zeta in *. unfold rnd_of.
  pose proof (sarg_word 1 a Hwf) as [Hbl _].
  pose proof (boxed_random_bits_outcome (arg 0 a) 0 0 (sarg 1 a) (sarg 2 a) (wf_arg 0 a Hwf) Hbl) as H.
  cbv zeta in H.
  destruct H as [(H1 & ->)|[(H1 & H2 & ->)|(H1 & H2 & v & -> & _)]].
  - replace (sarg 2 a <? sarg 1 a) with true by (symmetry; apply Z.ltb_lt; lia). apply rnd_err_iff.
  - replace (sarg 2 a <? sarg 1 a) with false in * by (symmetry; apply Z.ltb_ge; lia).
    destruct (rnd_small (sarg 2 a)); [|contradiction Hdom; reflexivity].
    unfold sp_random_bits. cbv zeta.
    replace (Z.of_nat (length (arg 0 a)) <? rnd_ceil (sarg 1 a) 64) with true by (symmetry; apply Z.ltb_lt; assumption).
    apply rnd_err_exh_iff.
  - replace (sarg 2 a <? sarg 1 a) with false in * by (symmetry; apply Z.ltb_ge; lia).
    destruct (rnd_small (sarg 2 a)); [|contradiction Hdom; reflexivity].
    unfold sp_random_bits. cbv zeta.
    replace (Z.of_nat (length (arg 0 a)) <? rnd_ceil (sarg 1 a) 64) with false by (symmetry; apply Z.ltb_ge; assumption).
    apply rnd_ok_iff.
Qed.

(* Odd<BoxedUint>::random(rng, bit_length >= 1): every error panics; with precision = bit_length the only error is the RNG *)
Lemma key_odd_boxed_random : key_ok ops_rand_model ops_rand_spec rand_ty "odd_boxed.random".
Proof.
  start. cbv zeta in *. unfold rnd_of.
  destruct (Z.ltb_spec 0 (sarg 1 a)) as [Hbl|Hbl]; cbn [andb] in *; [|contradiction Hdom; reflexivity].
  destruct (rnd_small (sarg 1 a)); [|contradiction Hdom; reflexivity].
  unfold odd_boxed_random, boxed_random_bits.
  pose proof (boxed_random_bits_outcome (arg 0 a) 0 0 (sarg 1 a) (sarg 1 a) (wf_arg 0 a Hwf) ltac:(lia)) as H.
  cbv zeta in H.
  destruct H as [(H1 & _)|[(H1 & H2 & ->)|(H1 & H2 & v & -> & Hw & Hl & _)]]; [lia| |].
  - unfold sp_random_bits. cbv zeta.
    replace (Z.of_nat (length (arg 0 a)) <? rnd_ceil (sarg 1 a) 64) with true by (symmetry; apply Z.ltb_lt; assumption).
    cbn. tauto.
  - unfold sp_random_bits. cbv zeta.
    replace (Z.of_nat (length (arg 0 a)) <? rnd_ceil (sarg 1 a) 64) with false by (symmetry; apply Z.ltb_ge; assumption).
    destruct v as [|x t]; [cbn in Hl; unfold rnd_boxed_limbs in Hl; lia|]. cbn. ctor_iff.
Qed.

#[export] Hint Resolve key_limb_random key_uint_random key_uint_random_bits key_boxed_random_bits key_uint_random_mod
  key_boxed_random_mod key_limb_random_mod key_nonzero_uint_random key_nonzero_monty_random key_odd_uint_random
  key_odd_boxed_random : c11keys.

Theorem rand_panics_iff_documented : panics_iff_documented ops_rand_model ops_rand_spec rand_keys rand_ty.
Proof. apply panics_from_parts; [exact rand_quiet | unfold rand_panic_keys; by_keys]. Qed.

(** the try_* forms never panic, whatever the stream (empty included), the modulus (zero included: the table has no
    entry = Unsupported, not a panic), the bit length and the precision *)
Lemma rnd_out_fallible f o : f <> 0 -> rnd_out f o <> PanicV.
Proof. intros Hf. apply Z.eqb_neq in Hf. destruct o as [[v [ws nw nb]]|]; cbn; [|unfold rnd_exh; rewrite Hf]; discriminate. Qed.
Lemma rnd_out1_fallible f o : f <> 0 -> rnd_out1 f o <> PanicV.
Proof. intros Hf. apply Z.eqb_neq in Hf. destruct o as [[v [ws nw nb]]|]; cbn; [|unfold rnd_exh; rewrite Hf]; discriminate. Qed.
Lemma rnd_out_bits_mode m r : m <> 1 -> rnd_out_bits m r <> PanicV.
Proof.
  intros Hm. apply Z.eqb_neq in Hm. destruct r as [v [ws nw nb]|c f1 f2]; cbn.
  - destruct (m =? 2); discriminate.
  - rewrite Hm. destruct (m =? 0); discriminate.
Qed.
Theorem rand_total_forms_never_panic : total_forms_never_panic ops_rand_model rand_total_keys rand_total_ty.
Proof.
  intros k dbg a Hin Hty. cbn [In rand_total_keys] in Hin.
  repeat (destruct Hin as [<- | Hin];
    [ open_typed rand_total_ty Hty; open_tabs ops_rand_model ops_rand_spec;
      repeat match goal with |- (if ?c then _ else Unsupported) <> PanicV => destruct c; [|discriminate] end;
      first [ apply rnd_out_fallible; exact Hty | apply rnd_out1_fallible; exact Hty | apply rnd_out_bits_mode; exact Hty ] |]).
  contradiction.
Qed.
