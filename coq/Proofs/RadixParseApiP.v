(** C17 proofs, part 3: the parsing entry points (Uint::from_str_radix_vartime = num_traits::Num::from_str_radix,
    BoxedUint::from_str_radix_vartime, BoxedUint::from_str_radix_with_precision_vartime) against the
    specification, for every radix 2..=36, every width / precision and every string. *)
From CB Require Import Model.Limbs Model.Div Model.Conv Model.Radix Proofs.WordP Proofs.LimbsP Proofs.ConvDigitsP
  Proofs.ConvBytesP Proofs.ConvBoxedP Proofs.DivShiftP Proofs.DivBoxedP Proofs.RadixSpecP Proofs.RadixParseP.
From Coq Require Import ZArith Lia List Bool.
Import ListNotations.
Open Scope Z_scope.
Open Scope list_scope.

Lemma pad_to_limbs o n v : wf o -> (length o <= n)%nat -> eval o = v -> o ++ zeros (n - length o) = to_limbs n v.
Proof.
  intros Hw Hl He. apply to_limbs_unique.
  - apply wf_app. split; [assumption | apply wf_zeros].
  - rewrite app_length, length_zeros. lia.
  - rewrite eval_app, eval_zeros, Z.mul_0_r, Z.add_0_r, He. symmetry. apply Z.mod_small.
    pose proof (eval_bounds o Hw). pose proof (Bn_le (length o) n Hl). lia.
Qed.

Lemma well_formed_body r s : well_formed r s -> sp_body s <> [].
Proof. intros H. apply well_formedb_iff in H. destruct H as (c & b & E & _). rewrite E. discriminate. Qed.

Lemma wfb_dec r s : {well_formed r s} + {~ well_formed r s}.
Proof. unfold well_formed. destruct (well_formedb r s); [left; reflexivity | right; discriminate]. Qed.

(* ---------------- Uint<n> ---------------- *)
Theorem uint_parse_correct n r s x : 2 <= r <= 36 ->
  uint_from_str_radix n s r = Val [x] <->
  well_formed r s /\ value r s < Bn n /\ x = to_limbs n (value r s).
Proof.
  intros Hr. pose proof (radix_decode_str_spec r s (Some n) Hr) as H. unfold uint_from_str_radix.
  destruct (radix_decode_str s r (Some n)) as [o|c|].
  - destruct H as (Hwf & Hw & Hc & Hm & He). cbn [capfit] in Hc.
    pose proof (eval_bounds o Hw). pose proof (Bn_le (length o) n Hc).
    rewrite (pad_to_limbs o n (value r s)) by assumption. split.
    + intros E. inversion E. repeat split; [assumption | lia].
    + intros (_ & _ & ->). reflexivity.
  - split; [discriminate|]. intros (Hwf & Hlt & _). exfalso.
    destruct H as [[_ Hb]|[[_ [_ Hn]]|[_ [_ (n0 & Hn0 & Hge)]]]].
    + apply (well_formed_body r s Hwf Hb).
    + contradiction.
    + inversion Hn0; subst n0. specialize (Hge Hwf). lia.
  - contradiction.
Qed.

Theorem uint_parse_overflow_iff n r s : 2 <= r <= 36 -> well_formed r s ->
  (uint_from_str_radix n s r = ErrV E_InputSize <-> Bn n <= value r s).
Proof.
  intros Hr Hwf. pose proof (radix_decode_str_spec r s (Some n) Hr) as H. unfold uint_from_str_radix.
  destruct (radix_decode_str s r (Some n)) as [o|c|].
  - destruct H as (_ & Hw & Hc & _ & He). cbn [capfit] in Hc.
    pose proof (eval_bounds o Hw). pose proof (Bn_le (length o) n Hc). split; [discriminate | lia].
  - destruct H as [[-> Hb]|[[-> [_ Hn]]|[-> [_ (n0 & Hn0 & Hge)]]]].
    + exfalso. apply (well_formed_body r s Hwf Hb).
    + contradiction.
    + inversion Hn0; subst n0. split; [intros _; apply Hge; assumption | reflexivity].
  - contradiction.
Qed.

(** which error: Empty exactly for "" and "+"; InvalidDigit only for non-numerals; a non-numeral is always an error
    (InvalidDigit, or InputSize when the digits read before the offending character already overflow: F31);
    a supported radix never panics *)
Theorem uint_parse_errors n r s : 2 <= r <= 36 ->
  (uint_from_str_radix n s r = ErrV E_Empty <-> sp_body s = []) /\
  (uint_from_str_radix n s r = ErrV E_InvalidDigit -> sp_body s <> [] /\ ~ well_formed r s) /\
  (sp_body s <> [] -> ~ well_formed r s ->
     uint_from_str_radix n s r = ErrV E_InvalidDigit \/ uint_from_str_radix n s r = ErrV E_InputSize) /\
  uint_from_str_radix n s r <> PanicV /\ uint_from_str_radix n s r <> NoneV /\
  uint_from_str_radix n s r <> ErrV E_Precision.
Proof.
  intros Hr. pose proof (radix_decode_str_spec r s (Some n) Hr) as H. unfold uint_from_str_radix.
  unfold E_Empty, E_InvalidDigit, E_InputSize, E_Precision in *.
  destruct (radix_decode_str s r (Some n)) as [o|c|].
  - destruct H as (Hwf & _). pose proof (well_formed_body r s Hwf) as Hne.
    split; [split; [discriminate | intros E; contradiction]|].
    split; [discriminate|]. split; [intros _ Hn; contradiction|]. repeat split; discriminate.
  - destruct H as [[-> Hb]|[[-> [Hb Hn]]|[-> [Hb _]]]].
    + split; [split; [intros _; assumption | reflexivity]|].
      split; [discriminate|]. split; [intros Hne; contradiction|]. repeat split; discriminate.
    + split; [split; [discriminate | intros E; contradiction]|].
      split; [intros _; split; assumption|]. split; [intros _ _; left; reflexivity|]. repeat split; discriminate.
    + split; [split; [discriminate | intros E; contradiction]|].
      split; [discriminate|]. split; [intros _ _; right; reflexivity|]. repeat split; discriminate.
  - contradiction.
Qed.

Theorem parse_error_precedence_refuted :
  exists n r s, 2 <= r <= 36 /\ ~ well_formed r s /\ uint_from_str_radix n s r = ErrV E_InputSize.
Proof.
  exists 1%nat, 10, ([49] ++ repeat 48 37 ++ [103]). split; [lia|]. split; [|vm_compute; reflexivity].
  unfold well_formed. vm_compute. discriminate.
Qed.

Theorem parse_unsupported_radix_panics n r s : r < 2 \/ 36 < r -> uint_from_str_radix n s r = PanicV.
Proof. intros Hr. unfold uint_from_str_radix. rewrite radix_decode_unsupported by assumption. reflexivity. Qed.

(** the table entry against its specification; the only deviation is the F31 class *)
Lemma radix_ok_range r : sp_radix_ok r = true <-> 2 <= r <= 36.
Proof. unfold sp_radix_ok. rewrite andb_true_iff, !Z.leb_le. tauto. Qed.

Lemma uint_parse_table n r s : bytes_ok s = true ->
  uint_from_str_radix n s r = sp_parse r s (fun _ => n) (Bn n) (Bn n) \/
  (uint_from_str_radix n s r = ErrV E_InputSize /\ sp_parse r s (fun _ => n) (Bn n) (Bn n) = ErrV E_InvalidDigit /\
   2 <= r <= 36 /\ sp_body s <> [] /\ ~ well_formed r s).
Proof.
  intros Hb. unfold sp_parse. rewrite Hb. cbn [negb].
  destruct (sp_radix_ok r) eqn:Er; cbn [negb].
  2:{ left. apply parse_unsupported_radix_panics. unfold sp_radix_ok in Er. apply andb_false_iff in Er.
      destruct Er as [E|E]; apply Z.leb_gt in E; lia. }
  apply radix_ok_range in Er.
  pose proof (radix_decode_str_spec r s (Some n) Er) as H. unfold uint_from_str_radix.
  destruct (radix_decode_str s r (Some n)) as [o|c|].
  - left. destruct H as (Hwf & Hw & Hc & Hm & He). cbn [capfit] in Hc.
    pose proof (well_formed_body r s Hwf) as Hne. destruct (sp_body s) as [|c0 b']; [contradiction|].
    unfold well_formed in Hwf. rewrite Hwf. cbn [negb].
    pose proof (eval_bounds o Hw). pose proof (Bn_le (length o) n Hc).
    destruct (Z.leb_spec (Bn n) (value r s)); [lia|].
    rewrite (pad_to_limbs o n (value r s)) by assumption. reflexivity.
  - destruct H as [[-> Hbd]|[[-> [Hbd Hn]]|[-> [Hbd (n0 & Hn0 & Hge)]]]].
    + left. rewrite Hbd. reflexivity.
    + left. destruct (sp_body s); [contradiction|]. unfold well_formed in Hn.
      destruct (well_formedb r s); [contradiction | reflexivity].
    + inversion Hn0; subst n0. destruct (sp_body s) as [|c0 b'] eqn:Es; [contradiction|].
      destruct (well_formedb r s) eqn:Ew; cbn [negb].
      * left. specialize (Hge Ew). destruct (Z.leb_spec (Bn n) (value r s)); [reflexivity | lia].
      * right. repeat split; try assumption; try lia. unfold well_formed. rewrite Ew. discriminate.
  - contradiction.
Qed.

(* ---------------- BoxedUint, minimal width ---------------- *)
Lemma boxed_minimal o : wf o -> minimal o -> vec_into_boxed o = to_limbs (sp_nlimbs (eval o)) (eval o).
Proof.
  intros Hw Hm. destruct o as [|l o'] eqn:Eo.
  - reflexivity.
  - rewrite <- Eo in *. assert (Hne : o <> []) by (rewrite Eo; discriminate).
    specialize (Hm Hne). pose proof (eval_bounds o Hw) as Hb.
    pose proof (Bn_pos (length o - 1)).
    assert (Hlen : (1 <= length o)%nat) by (rewrite Eo; cbn [length]; lia).
    assert (Hn : nlimbs (eval o) = length o) by (apply nlimbs_unique; lia).
    unfold sp_nlimbs. fold (nlimbs (eval o)). rewrite Hn. rewrite Nat.max_r by lia.
    rewrite to_limbs_eval by assumption. rewrite Eo. reflexivity.
Qed.

Theorem boxed_parse_correct r s x : 2 <= r <= 36 ->
  boxed_from_str_radix s r = Val [x] <->
  well_formed r s /\ x = to_limbs (sp_nlimbs (value r s)) (value r s).
Proof.
  intros Hr. pose proof (radix_decode_str_spec r s None Hr) as H. unfold boxed_from_str_radix.
  destruct (radix_decode_str s r None) as [o|c|].
  - destruct H as (Hwf & Hw & _ & Hm & He). rewrite boxed_minimal, He by assumption. split.
    + intros E. inversion E. split; [assumption | reflexivity].
    + intros (_ & ->). reflexivity.
  - split; [discriminate|]. intros (Hwf & _). exfalso.
    destruct H as [[_ Hb]|[[_ [_ Hn]]|[_ [_ (n0 & Hn0 & _)]]]].
    + apply (well_formed_body r s Hwf Hb).
    + contradiction.
    + discriminate.
  - contradiction.
Qed.

(** the boxed parse without precision never reports a size error and never panics *)
Theorem boxed_parse_errors r s : 2 <= r <= 36 ->
  (boxed_from_str_radix s r = ErrV E_Empty <-> sp_body s = []) /\
  (boxed_from_str_radix s r = ErrV E_InvalidDigit <-> sp_body s <> [] /\ ~ well_formed r s) /\
  boxed_from_str_radix s r <> ErrV E_InputSize /\ boxed_from_str_radix s r <> ErrV E_Precision /\
  boxed_from_str_radix s r <> PanicV.
Proof.
  intros Hr. pose proof (radix_decode_str_spec r s None Hr) as H. unfold boxed_from_str_radix.
  unfold E_Empty, E_InvalidDigit, E_InputSize, E_Precision in *.
  destruct (radix_decode_str s r None) as [o|c|].
  - destruct H as (Hwf & _). pose proof (well_formed_body r s Hwf).
    repeat split; try discriminate; try (intros; contradiction). intros [_ Hn]. contradiction.
  - destruct H as [[-> Hb]|[[-> [Hb Hn]]|[-> [Hb (n0 & Hn0 & _)]]]]; try discriminate;
      repeat split; try discriminate; try assumption; try (intros; contradiction); try (intros; congruence); auto.
    intros [Hx _]. contradiction.
  - contradiction.
Qed.

Lemma boxed_parse_table r s : bytes_ok s = true ->
  boxed_from_str_radix s r = sp_parse r s sp_nlimbs (value r s + 1) (value r s + 1).
Proof.
  intros Hb. unfold sp_parse. rewrite Hb. cbn [negb].
  destruct (sp_radix_ok r) eqn:Er; cbn [negb].
  2:{ unfold boxed_from_str_radix. rewrite radix_decode_unsupported; [reflexivity|].
      unfold sp_radix_ok in Er. apply andb_false_iff in Er. destruct Er as [E|E]; apply Z.leb_gt in E; lia. }
  apply radix_ok_range in Er.
  pose proof (radix_decode_str_spec r s None Er) as H. unfold boxed_from_str_radix.
  destruct (radix_decode_str s r None) as [o|c|].
  - destruct H as (Hwf & Hw & _ & Hm & He).
    pose proof (well_formed_body r s Hwf) as Hne. destruct (sp_body s) as [|c0 b']; [contradiction|].
    unfold well_formed in Hwf. rewrite Hwf. cbn [negb].
    destruct (Z.leb_spec (value r s + 1) (value r s)); [lia|].
    rewrite boxed_minimal, He by assumption. reflexivity.
  - destruct H as [[-> Hbd]|[[-> [Hbd Hn]]|[-> [Hbd (n0 & Hn0 & _)]]]].
    + rewrite Hbd. reflexivity.
    + destruct (sp_body s); [contradiction|]. unfold well_formed in Hn.
      destruct (well_formedb r s); [contradiction | reflexivity].
    + discriminate.
  - contradiction.
Qed.

(* ---------------- BoxedUint with precision ---------------- *)
Lemma prec_limbs p : 0 <= p -> length (zero_with_precision p) = sp_prec_limbs p.
Proof.
  intros Hp. unfold zero_with_precision, sp_prec_limbs. rewrite limbs_for_precision_eq.
  destruct (Z.to_nat ((p + 63) / 64)) as [|k] eqn:E; [reflexivity|].
  cbn [zeros repeat vec_into_boxed]. cbn [length]. rewrite repeat_length. lia.
Qed.
Lemma prec_le_limbs p : 0 <= p -> 2 ^ p <= Bn (sp_prec_limbs p).
Proof.
  intros Hp. unfold sp_prec_limbs. rewrite Bn_2. apply Z.pow_le_mono_r; [lia|].
  pose proof (Z.div_mod (p + 63) 64 ltac:(lia)). pose proof (Z.mod_pos_bound (p + 63) 64 ltac:(lia)).
  assert (0 <= (p + 63) / 64) by (apply Z.div_pos; lia). lia.
Qed.

Theorem boxed_prec_parse_correct r s p x : 2 <= r <= 36 -> 0 <= p ->
  boxed_from_str_radix_prec s r p = Val [x] <->
  well_formed r s /\ value r s < 2 ^ p /\ x = to_limbs (sp_prec_limbs p) (value r s).
Proof.
  intros Hr Hp. unfold boxed_from_str_radix_prec. rewrite prec_limbs by assumption. set (n := sp_prec_limbs p).
  pose proof (prec_le_limbs p Hp) as Hpl. fold n in Hpl.
  pose proof (radix_decode_str_spec r s (Some n) Hr) as H.
  destruct (radix_decode_str s r (Some n)) as [o|c|].
  - destruct H as (Hwf & Hw & Hc & Hm & He). cbn [capfit] in Hc.
    pose proof (eval_bounds o Hw). pose proof (Bn_le (length o) n Hc).
    rewrite (pad_to_limbs o n (value r s)) by assumption.
    rewrite bits_spec by (apply wf_to_limbs || assumption). rewrite eval_to_limbs, Z.mod_small by lia.
    destruct (Z.leb_spec (2 ^ p) (value r s)).
    + split; [discriminate | lia].
    + split; [intros E; inversion E; repeat split; assumption | intros (_ & _ & ->); reflexivity].
  - split; [discriminate|]. intros (Hwf & Hlt & _). exfalso.
    destruct H as [[_ Hb]|[[_ [_ Hn]]|[_ [_ (n0 & Hn0 & Hge)]]]].
    + apply (well_formed_body r s Hwf Hb).
    + contradiction.
    + inversion Hn0; subst n0. specialize (Hge Hwf). lia.
  - contradiction.
Qed.

(** InputSize exactly beyond the limbs, Precision exactly between the precision and the limbs *)
Theorem boxed_prec_parse_overflow_iff r s p : 2 <= r <= 36 -> 0 <= p -> well_formed r s ->
  (boxed_from_str_radix_prec s r p = ErrV E_InputSize <-> Bn (sp_prec_limbs p) <= value r s) /\
  (boxed_from_str_radix_prec s r p = ErrV E_Precision <-> 2 ^ p <= value r s < Bn (sp_prec_limbs p)).
Proof.
  intros Hr Hp Hwf. unfold boxed_from_str_radix_prec. rewrite prec_limbs by assumption. set (n := sp_prec_limbs p).
  pose proof (prec_le_limbs p Hp) as Hpl. fold n in Hpl.
  pose proof (radix_decode_str_spec r s (Some n) Hr) as H. unfold E_InputSize, E_Precision in *.
  destruct (radix_decode_str s r (Some n)) as [o|c|].
  - destruct H as (_ & Hw & Hc & Hm & He). cbn [capfit] in Hc.
    pose proof (eval_bounds o Hw). pose proof (Bn_le (length o) n Hc).
    rewrite (pad_to_limbs o n (value r s)) by assumption.
    rewrite bits_spec by (apply wf_to_limbs || assumption). rewrite eval_to_limbs, Z.mod_small by lia.
    destruct (Z.leb_spec (2 ^ p) (value r s)); (split; split; try discriminate; try lia; try reflexivity).
  - destruct H as [[-> Hb]|[[-> [_ Hn]]|[-> [_ (n0 & Hn0 & Hge)]]]].
    + exfalso. apply (well_formed_body r s Hwf Hb).
    + contradiction.
    + inversion Hn0; subst n0. specialize (Hge Hwf). unfold E_InputSize. split; split; try discriminate; try lia; try reflexivity.
  - contradiction.
Qed.

Lemma boxed_prec_parse_table r s p : bytes_ok s = true -> 0 <= p ->
  let n := sp_prec_limbs p in
  boxed_from_str_radix_prec s r p = sp_parse r s (fun _ => n) (Bn n) (2 ^ p) \/
  (boxed_from_str_radix_prec s r p = ErrV E_InputSize /\ sp_parse r s (fun _ => n) (Bn n) (2 ^ p) = ErrV E_InvalidDigit /\
   2 <= r <= 36 /\ sp_body s <> [] /\ ~ well_formed r s).
Proof.
  intros Hb Hp n. unfold sp_parse. rewrite Hb. cbn [negb].
  unfold boxed_from_str_radix_prec. rewrite prec_limbs by assumption. fold n.
  pose proof (prec_le_limbs p Hp) as Hpl. fold n in Hpl.
  destruct (sp_radix_ok r) eqn:Er; cbn [negb].
  2:{ left. rewrite radix_decode_unsupported; [reflexivity|].
      unfold sp_radix_ok in Er. apply andb_false_iff in Er. destruct Er as [E|E]; apply Z.leb_gt in E; lia. }
  apply radix_ok_range in Er.
  pose proof (radix_decode_str_spec r s (Some n) Er) as H.
  destruct (radix_decode_str s r (Some n)) as [o|c|].
  - left. destruct H as (Hwf & Hw & Hc & Hm & He). cbn [capfit] in Hc.
    pose proof (well_formed_body r s Hwf) as Hne. destruct (sp_body s) as [|c0 b']; [contradiction|].
    unfold well_formed in Hwf. rewrite Hwf. cbn [negb].
    pose proof (eval_bounds o Hw). pose proof (Bn_le (length o) n Hc).
    destruct (Z.leb_spec (Bn n) (value r s)); [lia|].
    rewrite (pad_to_limbs o n (value r s)) by assumption.
    rewrite bits_spec by (apply wf_to_limbs || assumption). rewrite eval_to_limbs, Z.mod_small by lia.
    reflexivity.
  - destruct H as [[-> Hbd]|[[-> [Hbd Hn]]|[-> [Hbd (n0 & Hn0 & Hge)]]]].
    + left. rewrite Hbd. reflexivity.
    + left. destruct (sp_body s); [contradiction|]. unfold well_formed in Hn.
      destruct (well_formedb r s); [contradiction | reflexivity].
    + inversion Hn0; subst n0. destruct (sp_body s) as [|c0 b'] eqn:Es; [contradiction|].
      destruct (well_formedb r s) eqn:Ew; cbn [negb].
      * left. specialize (Hge Ew). destruct (Z.leb_spec (Bn n) (value r s)); [reflexivity | lia].
      * right. repeat split; try assumption; try lia. unfold well_formed. rewrite Ew. discriminate.
  - contradiction.
Qed.
