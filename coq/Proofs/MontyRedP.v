(** C08 proofs, part 1: montgomery_reduction_inner (HAC 14.32 with the meta-carry), sub_mod_with_carry and
    montgomery_reduction, for every limb count.
      Bn n * (upper' + Bn n * meta) = T + U * m   with 0 <= U < Bn n        (mred_inner_correct)
      T < m * R  ->  result < m  /\  result * R = T  (mod m)                   (mont_red_correct) *)
From CB Require Import Model.Limbs Model.AddSub Model.Mul Model.Div Model.ModArith Model.Monty
  Proofs.WordP Proofs.LimbsP Proofs.AddSubP Proofs.ModArithP.
From Coq Require Import ZArith Lia List Bool.
Open Scope Z_scope.

(* ------------------------------------------------------------------ *)
(** * small facts *)
Lemma eval_hd_tl l : eval l = hd 0 l + B * eval (tl l).
Proof. destruct l; cbn [eval hd tl]; lia. Qed.
Lemma wf_tl l : wf l -> wf (tl l).
Proof. destruct l; intros H; [exact H|]. apply wf_cons in H. apply H. Qed.
Lemma wf_hd l : wf l -> is_word (hd 0 l).
Proof. destruct l; intros H; [apply is_word_0|]. apply wf_cons in H. apply H. Qed.
Lemma length_tl (l : list Z) : length (tl l) = (length l - 1)%nat.
Proof. destruct l; simpl; lia. Qed.
Lemma is_word_wmul a b : is_word (wmul a b).
Proof. unfold wmul, wrap. apply is_word_mod. Qed.

(** k = -m0^-1 mod B makes the low word of t0 + m0 * (t0 * k mod B) vanish *)
Lemma neg_inv_kills_low m0 k t0 : (m0 * k + 1) mod B = 0 -> (t0 + m0 * wmul t0 k) mod B = 0.
Proof.
  intros Hk. unfold wmul, wrap. pose proof B_pos.
  rewrite Zplus_mod, Zmult_mod, Z.mod_mod, <- Zmult_mod, <- Zplus_mod by lia.
  replace (t0 + m0 * (t0 * k)) with (t0 * (m0 * k + 1)) by ring.
  rewrite Zmult_mod, Hk, Z.mul_0_r. apply Z.mod_0_l. lia.
Qed.

(** the low word of a carry chain result is the low word of the sum *)
Lemma low_word_of_sum row c N x : wf row -> row <> [] -> eval row + B * N * c = x -> hd 0 row = x mod B.
Proof.
  intros Hw Hne E. destruct row as [|r0 rt]; [contradiction|]. cbn [hd]. cbn [eval] in E.
  apply wf_cons in Hw. destruct Hw as [Hr _]. unfold is_word in Hr. pose proof B_pos.
  apply (Z.mod_unique_pos x B (eval rt + N * c) r0); lia.
Qed.

(* ------------------------------------------------------------------ *)
(** * the outer loop *)
Section Rows.
Variables (m : list Z) (k : Z).
Hypothesis Hm : wf m.
Hypothesis Hn : length m <> 0%nat.
Hypothesis Hk : (hd 0 m * k + 1) mod B = 0.

Lemma mred_rows_correct : forall cnt t meta t' meta',
  wf t -> length t = (length m + cnt)%nat -> 0 <= meta <= 1 ->
  mred_rows cnt t m k meta = (t', meta') ->
  wf t' /\ length t' = length m /\ 0 <= meta' <= 1 /\
  exists U, 0 <= U < Bn cnt /\
    Bn cnt * (eval t' + Bn (length m) * meta') = eval t + Bn (length m) * meta + U * eval m.
Proof.
  induction cnt as [|c IH]; intros t meta t' meta' Ht Hl Hmeta E.
  - cbn [mred_rows] in E. inv_pair E. repeat split; try lia; try assumption.
    exists 0. rewrite Bn_0. lia.
  - cbn [mred_rows] in E. set (n := length m) in *.
    set (u := wmul (hd 0 t) k) in *.
    destruct (mac_by_limb (firstn n t) m u 0) as [row carry] eqn:E1.
    destruct (adc (hd 0 (skipn n t)) carry meta) as [s meta1] eqn:E2.
    assert (HlF : length (firstn n t) = n) by (rewrite firstn_length; lia).
    assert (Hu : is_word u) by apply is_word_wmul.
    pose proof (mac_by_limb_correct (firstn n t) m u 0 row carry (wf_firstn n t Ht) Hm HlF Hu is_word_0 E1)
      as (Hrow & Hwrow & Hlrow & Hcarry).
    rewrite HlF in Hrow, Hlrow.
    assert (Hrest : wf (skipn n t)) by (apply wf_skipn; assumption).
    assert (Hlrest : length (skipn n t) = S c) by (rewrite skipn_length; lia).
    pose proof (adc_exact _ _ _ _ _ (wf_hd _ Hrest) Hcarry (is_word_01 _ Hmeta) E2) as (Hs & Hsw & _).
    pose proof (adc_carry_small _ _ _ _ _ (wf_hd _ Hrest) Hcarry Hmeta E2) as Hmeta1.
    (* the new list *)
    assert (Hwt1 : wf (tl row ++ s :: tl (skipn n t))).
    { apply wf_app. split; [apply wf_tl; assumption|]. apply wf_cons. split; [assumption | apply wf_tl; assumption]. }
    assert (Hlt1 : length (tl row ++ s :: tl (skipn n t)) = (n + c)%nat).
    { rewrite app_length. cbn [length]. rewrite !length_tl. lia. }
    specialize (IH _ _ _ _ Hwt1 Hlt1 Hmeta1 E). destruct IH as (Hwt' & Hlt' & Hmeta' & U' & HU' & HE').
    split; [assumption|]. split; [assumption|]. split; [assumption|].
    exists (u + B * U'). fold n in HE'.
    (* low word of the row is zero *)
    assert (Hrow0 : hd 0 row = 0).
    { destruct n as [|n'] eqn:En; [contradiction|].
      assert (Hne : row <> []) by (intros ->; discriminate).
      rewrite Bn_S in Hrow.
      rewrite (low_word_of_sum row carry (Bn n') _ Hwrow Hne Hrow).
      rewrite (eval_hd_tl (firstn (S n') t)), (eval_hd_tl m).
      assert (Hhd : hd 0 (firstn (S n') t) = hd 0 t) by (destruct t; reflexivity).
      rewrite Hhd. pose proof B_pos.
      replace (hd 0 t + B * eval (tl (firstn (S n') t)) + (hd 0 m + B * eval (tl m)) * u + 0)
        with (hd 0 t + hd 0 m * u + (eval (tl (firstn (S n') t)) + eval (tl m) * u) * B) by ring.
      rewrite Z.mod_add by lia. apply neg_inv_kills_low. assumption. }
    (* value bookkeeping *)
    pose proof (eval_firstn_skipn n t) as Et. rewrite HlF in Et.
    pose proof (eval_hd_tl (skipn n t)) as Er.
    pose proof (eval_hd_tl row) as Erow. rewrite Hrow0 in Erow.
    assert (Et1 : B * eval (tl row ++ s :: tl (skipn n t)) = eval row + Bn n * s + Bn n * (B * eval (tl (skipn n t)))).
    { rewrite eval_app. cbn [eval]. rewrite length_tl, Hlrow.
      destruct n as [|n']; [contradiction|]. replace (S n' - 1)%nat with n' by lia. rewrite Bn_S. lia. }
    unfold is_word in Hu. pose proof B_pos. pose proof (Bn_pos c). pose proof (Bn_pos n).
    rewrite Bn_S. split.
    + assert (B * U' <= B * (Bn c - 1)) by (apply Z.mul_le_mono_nonneg_l; lia).
      assert (0 <= B * U') by (apply Z.mul_nonneg_nonneg; lia). lia.
    + assert (HB : B * (Bn c * (eval t' + Bn n * meta')) =
                   B * eval (tl row ++ s :: tl (skipn n t)) + B * (Bn n * meta1) + B * (U' * eval m)) by (rewrite HE'; ring).
      assert (HX1 : Bn n * s + Bn n * (B * meta1) = Bn n * hd 0 (skipn n t) + Bn n * carry + Bn n * meta)
        by (rewrite <- !Z.mul_add_distr_l; f_equal; lia).
      assert (HX2 : Bn n * eval (skipn n t) = Bn n * hd 0 (skipn n t) + Bn n * (B * eval (tl (skipn n t))))
        by (rewrite <- Z.mul_add_distr_l; f_equal; lia).
      replace (B * Bn c * (eval t' + Bn n * meta')) with (B * (Bn c * (eval t' + Bn n * meta'))) by ring.
      rewrite HB, Et1, Et. lia.
Qed.
End Rows.

(** montgomery_reduction_inner: R * (upper' + R * meta_carry) = T + U * m *)
Theorem mred_inner_correct lower upper m k up meta :
  wf lower -> wf upper -> wf m -> length lower = length m -> length upper = length m -> length m <> 0%nat ->
  (hd 0 m * k + 1) mod B = 0 ->
  montgomery_reduction_inner lower upper m k = (up, meta) ->
  wf up /\ length up = length m /\ 0 <= meta <= 1 /\
  exists U, 0 <= U < Bn (length m) /\
    Bn (length m) * (eval up + Bn (length m) * meta) = eval lower + Bn (length m) * eval upper + U * eval m.
Proof.
  intros Hlo Hup Hm Hll Hlu Hn Hk E. unfold montgomery_reduction_inner in E.
  assert (Hw : wf (lower ++ upper)) by (apply wf_app; split; assumption).
  assert (Hl : length (lower ++ upper) = (length m + length m)%nat) by (rewrite app_length; lia).
  destruct (mred_rows_correct m k Hm Hn Hk _ _ 0 _ _ Hw Hl ltac:(lia) E) as (A & C & D & U & HU & HE).
  repeat split; try assumption; try lia. exists U. split; [assumption|].
  rewrite HE, eval_app, Hll. lia.
Qed.

(* ------------------------------------------------------------------ *)
(** * sub_mod_with_carry *)
Lemma carry_mask_0 borrow : is_word borrow -> wand (wnot (wneg 0)) borrow = borrow.
Proof. intros H. rewrite wneg_0. unfold wnot. rewrite Z.sub_0_r. apply wand_MAXW_l. assumption. Qed.
Lemma carry_mask_1 borrow : wand (wnot (wneg 1)) borrow = 0.
Proof. rewrite wneg_1. unfold wnot. rewrite Z.sub_diag. apply wand_0_l. Qed.

Theorem sub_mod_with_carry_correct a carry b p :
  wf a -> wf b -> wf p -> length a = length b -> length a = length p -> length a <> 0%nat -> 0 <= carry <= 1 ->
  - eval p <= eval a + Bn (length a) * carry - eval b < eval p ->
  eval (sub_mod_with_carry a carry b p) = (eval a + Bn (length a) * carry - eval b) mod eval p
  /\ wf (sub_mod_with_carry a carry b p) /\ length (sub_mod_with_carry a carry b p) = length a.
Proof.
  intros Ha Hb Hp Hlb Hlp Hn Hc HD. unfold sub_mod_with_carry.
  destruct (sbb_limbs a b 0) as [out borrow] eqn:E.
  pose proof (eval_bounds a Ha) as Ba. pose proof (eval_bounds b Hb) as Bb. pose proof (eval_bounds p Hp) as Bp.
  pose proof (sbb_limbs_correct a b 0 out borrow Ha Hb Hlb is_word_0 E) as (Hwo & Hlo & [(Hz & _)|(_ & Hib & He)]);
    [contradiction|].
  rewrite bin_0 in He. pose proof (eval_bounds out Hwo) as Bo. rewrite Hlo in Bo.
  rewrite <- Hlb in Bb. rewrite <- Hlp in Bp. set (N := Bn (length a)) in *.
  assert (carry = 0 \/ carry = 1) as [-> | ->] by lia.
  - rewrite carry_mask_0 by (apply is_borrow_word; assumption).
    pose proof (bitand_limb_borrow p borrow Hp Hib) as (Hpe & Hpw & Hpl).
    pose proof (wrapping_add_spec out (bitand_limb p borrow) Hwo Hpw ltac:(lia)) as (Hre & Hrw & Hrl).
    split; [|split; [assumption | lia]]. rewrite Hre, Hpe, Hlo. fold N.
    destruct Hib as [-> | ->]; rewrite ?bout_0, ?bout_MAXW in *.
    + replace (eval a + N * 0 - eval b) with (eval a - eval b) in * by lia.
      rewrite (Z.mod_small (eval a - eval b)) by lia. rewrite Z.mod_small by lia. lia.
    + replace (eval a + N * 0 - eval b) with (eval a - eval b) in * by lia.
      rewrite (mod_neg_once (eval a - eval b)) by lia. symmetry. apply (Z.mod_unique_pos _ N 1); lia.
  - rewrite carry_mask_1.
    pose proof (bitand_limb_borrow p 0 Hp (or_introl eq_refl)) as (Hpe & Hpw & Hpl).
    pose proof (wrapping_add_spec out (bitand_limb p 0) Hwo Hpw ltac:(lia)) as (Hre & Hrw & Hrl).
    split; [|split; [assumption | lia]]. rewrite Hre, Hpe, Hlo, bout_0. fold N.
    destruct Hib as [-> | ->]; rewrite ?bout_0, ?bout_MAXW in *.
    + lia.
    + rewrite (Z.mod_small (eval a + N * 1 - eval b)) by lia. rewrite Z.mod_small by lia. lia.
Qed.

(* ------------------------------------------------------------------ *)
(** * montgomery_reduction *)
(** for T < m * R the value before the final subtraction is below 2m, and the result is the canonical residue r with
    r * R = T (mod m) *)
Theorem mont_red_correct lower upper m k :
  wf lower -> wf upper -> wf m -> length lower = length m -> length upper = length m -> length m <> 0%nat ->
  (hd 0 m * k + 1) mod B = 0 ->
  eval lower + Bn (length m) * eval upper < eval m * Bn (length m) ->
  let r := montgomery_reduction lower upper m k in
  wf r /\ length r = length m /\ 0 <= eval r < eval m /\
  (eval r * Bn (length m)) mod eval m = (eval lower + Bn (length m) * eval upper) mod eval m.
Proof.
  intros Hlo Hup Hm Hll Hlu Hn Hk HT. cbv zeta. unfold montgomery_reduction.
  destruct (montgomery_reduction_inner lower upper m k) as [up meta] eqn:E.
  destruct (mred_inner_correct _ _ _ _ _ _ Hlo Hup Hm Hll Hlu Hn Hk E) as (Hwup & Hlup & Hmeta & U & HU & HE).
  set (N := Bn (length m)) in *. set (T := eval lower + N * eval upper) in *. set (M := eval m) in *.
  pose proof (Bn_pos (length m)) as HN. fold N in HN.
  pose proof (eval_nonneg lower Hlo). pose proof (eval_nonneg upper Hup). pose proof (eval_nonneg up Hwup).
  assert (HT0 : 0 <= T) by (unfold T; assert (0 <= N * eval upper) by (apply Z.mul_nonneg_nonneg; lia); lia).
  assert (HM : 0 < M).
  { destruct (Z_lt_ge_dec 0 M); [assumption|]. assert (M * N <= 0) by nia. lia. }
  set (W := eval up + N * meta) in *.
  assert (HW : 0 <= W < 2 * M).
  { split; [unfold W; assert (0 <= N * meta) by (apply Z.mul_nonneg_nonneg; lia); lia|].
    assert (U * M <= (N - 1) * M) by (apply Z.mul_le_mono_nonneg_r; lia).
    assert (N * W < N * (2 * M)) by lia.
    apply Z.mul_lt_mono_pos_l with (p := N); lia. }
  destruct (sub_mod_with_carry_correct up meta m m Hwup Hm Hm ltac:(lia) ltac:(lia) ltac:(lia) Hmeta) as (He & Hw & Hl).
  { rewrite Hlup. fold N M W. lia. }
  rewrite Hlup in He. fold N M W in He.
  split; [assumption|]. split; [lia|].
  pose proof (Z.mod_pos_bound (W - M) M HM). split; [lia|].
  rewrite He. rewrite Zmult_mod, Z.mod_mod, <- Zmult_mod by lia.
  replace ((W - M) * N) with (T + (U - N) * M) by lia.
  apply Z.mod_add. lia.
Qed.

(** the value before the final subtraction never exceeds R + m (any T < R * R): meta_carry <= 1 is enough room *)
Theorem mred_inner_bound lower upper m k up meta :
  wf lower -> wf upper -> wf m -> length lower = length m -> length upper = length m -> length m <> 0%nat ->
  (hd 0 m * k + 1) mod B = 0 ->
  montgomery_reduction_inner lower upper m k = (up, meta) ->
  eval up + Bn (length m) * meta < Bn (length m) + eval m.
Proof.
  intros Hlo Hup Hm Hll Hlu Hn Hk E.
  destruct (mred_inner_correct _ _ _ _ _ _ Hlo Hup Hm Hll Hlu Hn Hk E) as (Hwup & Hlup & Hmeta & U & HU & HE).
  set (N := Bn (length m)) in *. pose proof (Bn_pos (length m)) as HN. fold N in HN.
  pose proof (eval_bounds lower Hlo) as Bl. pose proof (eval_bounds upper Hup) as Bu. pose proof (eval_nonneg m Hm).
  rewrite Hll in Bl. rewrite Hlu in Bu. fold N in Bl, Bu.
  assert (U * eval m <= (N - 1) * eval m) by (apply Z.mul_le_mono_nonneg_r; lia).
  assert (N * eval upper <= N * (N - 1)) by (apply Z.mul_le_mono_nonneg_l; lia).
  apply Z.mul_lt_mono_pos_l with (p := N); lia.
Qed.
