(** C19, part 3: RandomBits (random_bits_core and its Uint / BoxedUint front ends), Random. *)
From CB Require Import Model.Limbs Model.AddSub Model.Rand Proofs.WordP Proofs.LimbsP Proofs.AddSubP Proofs.RandBaseP.
From Coq Require Import ZArith Lia List Bool.
Open Scope Z_scope. Open Scope list_scope.

(* ------------------------------------------------------------------ arithmetic of masks *)
Lemma rnd_mod_mod_pow w a b : 0 <= a <= b -> (w mod 2 ^ b) mod 2 ^ a = w mod 2 ^ a.
Proof.
  intros H. assert (Hp : 2 ^ b = 2 ^ (b - a) * 2 ^ a) by (rewrite <- rnd_pow_split by lia; f_equal; lia).
  pose proof (rnd_pow_pos a ltac:(lia)). pose proof (rnd_pow_pos b ltac:(lia)).
  pose proof (Z.div_mod w (2 ^ b) ltac:(lia)) as E1.
  pose proof (Z.div_mod (w mod 2 ^ b) (2 ^ a) ltac:(lia)) as E2.
  pose proof (Z.mod_pos_bound (w mod 2 ^ b) (2 ^ a) ltac:(lia)).
  apply (Z.mod_unique_pos _ _ (w / 2 ^ b * 2 ^ (b - a) + (w mod 2 ^ b) / 2 ^ a)); [lia|].
  rewrite E1 at 1. rewrite E2 at 1. rewrite Hp. ring.
Qed.

Lemma rnd_add_mul_mod x y a b : 0 <= a <= b -> (x * 2 ^ b + y) mod 2 ^ a = y mod 2 ^ a.
Proof.
  intros H. assert (Hp : 2 ^ b = 2 ^ (b - a) * 2 ^ a) by (rewrite <- rnd_pow_split by lia; f_equal; lia).
  pose proof (rnd_pow_pos a ltac:(lia)).
  rewrite Hp. replace (x * (2 ^ (b - a) * 2 ^ a) + y) with (y + (x * 2 ^ (b - a)) * 2 ^ a) by ring.
  apply Z.mod_add. lia.
Qed.

Lemma rnd_shr_ones s : 0 <= s <= 64 -> wshr MAXW s = 2 ^ (64 - s) - 1.
Proof.
  intros H. unfold wshr. rewrite MAXW_val, B_val.
  assert (Hp : 2 ^ 64 = 2 ^ (64 - s) * 2 ^ s) by (rewrite <- rnd_pow_split by lia; f_equal; lia).
  pose proof (rnd_pow_pos s ltac:(lia)). pose proof (rnd_pow_pos (64 - s) ltac:(lia)).
  destruct (div_mod_unique_pos (2 ^ s) (2 ^ (64 - s) - 1) (2 ^ s - 1) (2 ^ 64 - 1)) as [Hq _]; [lia | lia | exact Hq].
Qed.

(** the partial-limb mask:  Word::MAX >> ((64 - partial) % 64)  has [pl] ones, pl = 64 for a full limb *)
Lemma rnd_partial_mask partial : 0 <= partial < 64 ->
  wshr MAXW ((64 - partial) mod 64) = 2 ^ (if partial =? 0 then 64 else partial) - 1.
Proof.
  intros H. destruct (Z.eqb_spec partial 0) as [->|Hn].
  - change ((64 - 0) mod 64) with 0. rewrite rnd_shr_ones by lia. reflexivity.
  - rewrite Z.mod_small by lia. rewrite rnd_shr_ones by lia. f_equal. f_equal. lia.
Qed.

(* ------------------------------------------------------------------ list bookkeeping *)
Lemma rnd_split_at (ws : list Z) k w rest : skipn k ws = w :: rest ->
  ws = firstn k ws ++ w :: rest /\ length (firstn k ws) = k /\ nthz ws k = w /\ skipn (S k) ws = rest /\
  firstn (S k) ws = firstn k ws ++ [w].
Proof.
  intros E. pose proof (firstn_skipn k ws) as H. rewrite E in H.
  assert (Hl : length (firstn k ws) = k).
  { rewrite firstn_length. assert (length (skipn k ws) <> 0)%nat by (rewrite E; discriminate).
    rewrite skipn_length in *. lia. }
  repeat split; auto.
  - unfold nthz. rewrite <- H at 1. rewrite app_nth2 by lia. rewrite Hl, Nat.sub_diag. reflexivity.
  - rewrite <- H at 1. replace (S k) with (length (firstn k ws) + 1)%nat by lia. rewrite rnd_skipn_app_plus. reflexivity.
  - rewrite <- H at 1. replace (S k) with (length (firstn k ws) + 1)%nat by lia.
    rewrite firstn_app_2. reflexivity.
Qed.

(* ------------------------------------------------------------------ random_bits_core *)
Definition rnd_tail_bytes (bl : Z) : Z := if (0 <? bl mod 64) && (bl mod 64 <=? 32) then 4 else 8.

Lemma rnd_partial_len bl : 0 < bl -> let nz := (bl + 63) / 64 in
  (if bl mod 64 =? 0 then 64 else bl mod 64) = bl - 64 * (nz - 1) /\ 1 <= bl - 64 * (nz - 1) <= 64 /\ 0 <= bl mod 64 < 64.
Proof.
  intros Hbl nz. destruct (rnd_ceil64 bl Hbl) as [Hq1 Hq2]. fold nz in Hq1, Hq2.
  pose proof (Z.div_mod bl 64 ltac:(lia)) as Hdm. pose proof (Z.mod_pos_bound bl 64 ltac:(lia)) as Hm.
  destruct (Z.eqb_spec (bl mod 64) 0); lia.
Qed.

Lemma rnd_bits_core_spec ws nw nb bl : wf ws -> 0 < bl ->
  let nz := (bl + 63) / 64 in
  rnd_bits_core (Rng ws nw nb) bl =
    if Z.of_nat (length ws) <? nz then None
    else Some (firstn (Z.to_nat (nz - 1)) ws ++ [nthz ws (Z.to_nat (nz - 1)) mod 2 ^ (bl - 64 * (nz - 1))],
               Rng (skipn (Z.to_nat nz) ws) (nw + nz) (nb + (8 * (nz - 1) + rnd_tail_bytes bl))).
Proof.
  intros Hws Hbl nz. unfold rnd_bits_core, rnd_tail_bytes. destruct (Z.eqb_spec bl 0); [lia|]. fold nz.
  destruct (rnd_ceil64 bl Hbl) as [Hq1 Hq2]. fold nz in Hq1, Hq2.
  destruct (rnd_partial_len bl Hbl) as (Hpl & Hplr & Hpr). fold nz in Hpl, Hplr.
  set (pl := bl - 64 * (nz - 1)) in *. set (partial := bl mod 64) in *.
  set (k := Z.to_nat (nz - 1)).
  rewrite rnd_fill_full_spec. rewrite rnd_partial_mask by assumption. rewrite Hpl.
  destruct (Nat.ltb_spec (length ws) k) as [Hshort|Hlong].
  - destruct (Z.ltb_spec (Z.of_nat (length ws)) nz); [reflexivity | lia].
  - destruct (skipn k ws) as [|w rest] eqn:Esk.
    + assert (length ws = k).
      { assert (Hl : length (skipn k ws) = 0%nat) by (rewrite Esk; reflexivity). rewrite skipn_length in Hl. lia. }
      destruct (Z.ltb_spec (Z.of_nat (length ws)) nz); [|lia].
      destruct ((0 <? partial) && (partial <=? 32)); reflexivity.
    + destruct (rnd_split_at ws k w rest Esk) as (Hsplit & Hlk & Hnth & Hsk & _).
      assert (Hlen : (S k <= length ws)%nat).
      { rewrite Hsplit, app_length. cbn [length]. lia. }
      destruct (Z.ltb_spec (Z.of_nat (length ws)) nz); [lia|].
      rewrite rnd_map_mod_wf by (apply wf_firstn; assumption).
      replace (Z.to_nat nz) with (S k) by lia. rewrite Hsk, Hnth.
      assert (Hw : is_word w) by (rewrite <- Hnth; apply rnd_nthz_word; assumption).
      destruct ((0 <? partial) && (partial <=? 32)) eqn:Et.
      * apply andb_prop in Et. destruct Et as [Et1 Et2]. apply Z.ltb_lt in Et1. apply Z.leb_le in Et2.
        assert (Hpl32 : pl <= 32).
        { destruct (Z.eqb_spec partial 0); lia. }
        cbn [rnd_fill]. change (4 <? 4) with false. cbn iota. change (8 * 4) with 32.
        rewrite rnd_land_ones by lia. rewrite rnd_add_mul_mod by lia. rewrite !rnd_mod_mod_pow by lia.
        do 3 f_equal; lia.
      * cbn [rnd_fill]. change (4 <? 8) with true. cbn iota. change (8 * 8) with 64.
        rewrite rnd_land_ones by lia. rewrite rnd_mod_mod_pow by lia.
        do 3 f_equal; lia.
Qed.

(** value of the limbs written by random_bits_core: the next ceil(bl/64) words reduced modulo 2^bl *)
Lemma rnd_bits_core_value ws bl : wf ws -> 0 < bl ->
  let nz := (bl + 63) / 64 in (Z.to_nat nz <= length ws)%nat ->
  let ls := firstn (Z.to_nat (nz - 1)) ws ++ [nthz ws (Z.to_nat (nz - 1)) mod 2 ^ (bl - 64 * (nz - 1))] in
  wf ls /\ length ls = Z.to_nat nz /\ eval ls = eval (firstn (Z.to_nat nz) ws) mod 2 ^ bl.
Proof.
  intros Hws Hbl nz Hlen ls.
  destruct (rnd_ceil64 bl Hbl) as [Hq1 Hq2]. fold nz in Hq1, Hq2.
  set (k := Z.to_nat (nz - 1)) in *. set (pl := bl - 64 * (nz - 1)) in *.
  assert (Hnz : Z.to_nat nz = S k) by lia.
  destruct (skipn k ws) as [|w rest] eqn:Esk.
  { assert (Hl : length (skipn k ws) = 0%nat) by (rewrite Esk; reflexivity). rewrite skipn_length in Hl. lia. }
  destruct (rnd_split_at ws k w rest Esk) as (Hsplit & Hlk & Hnth & Hsk & Hfs).
  assert (Hwf : wf (firstn k ws)) by (apply wf_firstn; assumption).
  assert (Hw : is_word w) by (rewrite <- Hnth; apply rnd_nthz_word; assumption).
  subst ls. rewrite Hnth. split; [|split].
  - apply wf_app. split; [assumption|]. apply wf_cons. split; [apply rnd_mod_pow_word; lia | apply wf_nil].
  - rewrite app_length, Hlk. cbn [length]. lia.
  - rewrite Hnz, Hfs, !eval_app, Hlk. cbn [eval]. rewrite !Z.mul_0_r, !Z.add_0_r.
    pose proof (eval_bounds _ Hwf) as Hb. rewrite Hlk in Hb.
    rewrite rnd_Bn_pow in *. set (s := 64 * Z.of_nat k) in *.
    assert (Hs : s = 64 * (nz - 1)) by lia.
    assert (Hp : 2 ^ bl = 2 ^ s * 2 ^ pl) by (rewrite <- rnd_pow_split by lia; f_equal; lia).
    pose proof (rnd_pow_pos s ltac:(lia)). pose proof (rnd_pow_pos pl ltac:(lia)).
    pose proof (Z.div_mod w (2 ^ pl) ltac:(lia)) as Hdm. pose proof (Z.mod_pos_bound w (2 ^ pl) ltac:(lia)) as Hmb.
    apply (Z.mod_unique_pos _ _ (w / 2 ^ pl)).
    + assert (2 ^ s * (w mod 2 ^ pl) <= 2 ^ s * (2 ^ pl - 1)) by (apply Z.mul_le_mono_nonneg_l; lia).
      assert (0 <= 2 ^ s * (w mod 2 ^ pl)) by (apply Z.mul_nonneg_nonneg; lia). lia.
    + rewrite Hdm at 1. rewrite Hp. ring.
Qed.

(* ------------------------------------------------------------------ the RandomBits front ends *)
(** what the documentation promises once the length / precision checks have passed *)
Definition rnd_bits_expected (n : nat) (ws : list Z) (nw nb bl : Z) : rnd_res :=
  match sp_random_bits ws bl with
  | SpExhausted => RErr 9 0 0
  | SpOk v k b => ROk (to_limbs n v) (Rng (skipn (Z.to_nat k) ws) (nw + k) (nb + b))
  end.

Lemma rnd_to_limbs_0 n : to_limbs n 0 = zeros n.
Proof.
  symmetry. apply to_limbs_unique; [apply wf_zeros | apply length_zeros |].
  rewrite eval_zeros. symmetry. apply Z.mod_0_l. pose proof (Bn_pos n). lia.
Qed.

Lemma rnd_sp_ceil64 bl : rnd_ceil bl 64 = (bl + 63) / 64.
Proof. unfold rnd_ceil. f_equal. lia. Qed.

Lemma rnd_bits_front n ws nw nb bl : wf ws -> 0 <= bl -> bl <= 64 * Z.of_nat n ->
  match rnd_bits_core (Rng ws nw nb) bl with
  | None => RErr 9 0 0
  | Some (ls, r') => ROk (rnd_pad n ls) r'
  end = rnd_bits_expected n ws nw nb bl.
Proof.
  intros Hws Hbl Hfit. unfold rnd_bits_expected, sp_random_bits. rewrite rnd_sp_ceil64.
  destruct (Z.eq_dec bl 0) as [->|Hn].
  - cbn [rnd_bits_core Z.eqb]. change ((0 + 63) / 64) with 0.
    destruct (Z.ltb_spec (Z.of_nat (length ws)) 0); [lia|].
    cbn [Z.to_nat firstn eval skipn Z.eqb]. change (0 mod 2 ^ 0) with 0.
    rewrite rnd_to_limbs_0, !Z.add_0_r. unfold rnd_pad. cbn [app length]. rewrite Nat.sub_0_r. reflexivity.
  - rewrite rnd_bits_core_spec by (try assumption; lia).
    destruct (rnd_ceil64 bl ltac:(lia)) as [Hq1 Hq2]. set (nz := (bl + 63) / 64) in *.
    destruct (Z.ltb_spec (Z.of_nat (length ws)) nz) as [|Hlen]; [reflexivity|].
    destruct (rnd_bits_core_value ws bl Hws ltac:(lia) ltac:(fold nz; lia)) as (Hwl & Hll & Hev). fold nz in Hwl, Hll, Hev.
    set (ls := firstn (Z.to_nat (nz - 1)) ws ++ [nthz ws (Z.to_nat (nz - 1)) mod 2 ^ (bl - 64 * (nz - 1))]) in *.
    destruct (Z.eqb_spec bl 0); [lia|]. unfold rnd_tail_bytes. f_equal.
    apply to_limbs_unique.
    + unfold rnd_pad. apply wf_app. split; [assumption | apply wf_zeros].
    + unfold rnd_pad. rewrite app_length, length_zeros. lia.
    + unfold rnd_pad. rewrite eval_app, eval_zeros, Z.mul_0_r, Z.add_0_r, Hev.
      symmetry. apply Z.mod_small.
      pose proof (rnd_pow_pos bl ltac:(lia)). pose proof (Z.mod_pos_bound (eval (firstn (Z.to_nat nz) ws)) (2 ^ bl) ltac:(lia)).
      rewrite rnd_Bn_pow. pose proof (rnd_pow_le bl (64 * Z.of_nat n) ltac:(lia)). lia.
Qed.

(** Uint<N> / Int<N>: the complete behaviour of try_random_bits_with_precision *)
Theorem uint_random_bits_spec n ws nw nb bl prec : wf ws -> 0 <= bl ->
  uint_random_bits_prec n (Rng ws nw nb) bl prec =
    if negb (prec =? 64 * Z.of_nat n) then RErr 1 prec (64 * Z.of_nat n)
    else if 64 * Z.of_nat n <? bl then RErr 2 bl prec
    else rnd_bits_expected n ws nw nb bl.
Proof.
  intros Hws Hbl. unfold uint_random_bits_prec.
  destruct (negb (prec =? 64 * Z.of_nat n)); [reflexivity|].
  destruct (Z.ltb_spec (64 * Z.of_nat n) bl); [reflexivity|].
  apply rnd_bits_front; assumption.
Qed.

Lemma rnd_boxed_limbs_ge prec : 0 <= prec -> prec <= 64 * Z.of_nat (rnd_boxed_limbs prec).
Proof.
  intros H. unfold rnd_boxed_limbs. pose proof (Z.div_mod (prec + 63) 64 ltac:(lia)).
  pose proof (Z.mod_pos_bound (prec + 63) 64 ltac:(lia)). lia.
Qed.

(** BoxedUint: the complete behaviour of try_random_bits_with_precision *)
Theorem boxed_random_bits_spec ws nw nb bl prec : wf ws -> 0 <= bl ->
  boxed_random_bits_prec (Rng ws nw nb) bl prec =
    if prec <? bl then RErr 2 bl prec
    else rnd_bits_expected (rnd_boxed_limbs prec) ws nw nb bl.
Proof.
  intros Hws Hbl. unfold boxed_random_bits_prec.
  destruct (Z.ltb_spec prec bl); [reflexivity|].
  apply rnd_bits_front; try assumption. pose proof (rnd_boxed_limbs_ge prec ltac:(lia)). lia.
Qed.

(** fixed = boxed: same value, same consumption, same errors when the precision is the fixed type's BITS *)
Theorem rnd_bits_fixed_eq_boxed n ws nw nb bl : wf ws -> 0 <= bl -> (0 < n)%nat ->
  boxed_random_bits_prec (Rng ws nw nb) bl (64 * Z.of_nat n) = uint_random_bits_prec n (Rng ws nw nb) bl (64 * Z.of_nat n).
Proof.
  intros Hws Hbl Hn. rewrite uint_random_bits_spec, boxed_random_bits_spec by assumption.
  rewrite Z.eqb_refl. cbn [negb].
  replace (rnd_boxed_limbs (64 * Z.of_nat n)) with n; [reflexivity|].
  unfold rnd_boxed_limbs. replace ((64 * Z.of_nat n + 63) / 64) with (Z.of_nat n); [lia|].
  apply (Z.div_unique_pos _ _ _ 63); lia.
Qed.

(** the two outcomes of the documented behaviour: the RNG error exactly when the stream is shorter than
    ceil(bl/64) words, otherwise a value below 2^bl made of the next words, with the exact consumption *)
Lemma rnd_bits_expected_cases n ws nw nb bl : wf ws -> 0 <= bl -> bl <= 64 * Z.of_nat n ->
  let k := rnd_ceil bl 64 in
  (Z.of_nat (length ws) < k /\ rnd_bits_expected n ws nw nb bl = RErr 9 0 0) \/
  (k <= Z.of_nat (length ws) /\ exists v,
     rnd_bits_expected n ws nw nb bl =
       ROk v (Rng (skipn (Z.to_nat k) ws) (nw + k) (nb + (if bl =? 0 then 0 else 8 * (k - 1) + rnd_tail_bytes bl))) /\
     wf v /\ length v = n /\ eval v = eval (firstn (Z.to_nat k) ws) mod 2 ^ bl /\ 0 <= eval v < 2 ^ bl).
Proof.
  intros Hws Hbl Hfit k. unfold rnd_bits_expected, sp_random_bits. fold k.
  destruct (Z.ltb_spec (Z.of_nat (length ws)) k); [left; split; [assumption | reflexivity]|].
  right. split; [assumption|]. eexists. split; [reflexivity|].
  pose proof (rnd_pow_pos bl Hbl). set (x := eval (firstn (Z.to_nat k) ws)).
  pose proof (Z.mod_pos_bound x (2 ^ bl) ltac:(lia)) as Hm.
  split; [apply wf_to_limbs|]. split; [apply length_to_limbs|].
  assert (Hs : eval (to_limbs n (x mod 2 ^ bl)) = x mod 2 ^ bl).
  { apply to_limbs_small. rewrite rnd_Bn_pow. pose proof (rnd_pow_le bl (64 * Z.of_nat n) ltac:(lia)). lia. }
  rewrite Hs. split; [reflexivity | assumption].
Qed.

(** ERROR CONDITIONS, exactly as documented (Uint / Int). The four cases are mutually exclusive and
    exhaustive, so each outcome occurs exactly when its condition holds: precision mismatch first, then
    the length check, then the RNG; otherwise a value below 2^bit_length with the exact consumption. *)
Theorem uint_random_bits_outcome n ws nw nb bl prec : wf ws -> 0 <= bl ->
  let r := uint_random_bits_prec n (Rng ws nw nb) bl prec in
  let bits := 64 * Z.of_nat n in
  let k := rnd_ceil bl 64 in
  (prec <> bits /\ r = RErr 1 prec bits) \/
  (prec = bits /\ bits < bl /\ r = RErr 2 bl prec) \/
  (prec = bits /\ bl <= bits /\ Z.of_nat (length ws) < k /\ r = RErr 9 0 0) \/
  (prec = bits /\ bl <= bits /\ k <= Z.of_nat (length ws) /\ exists v,
     r = ROk v (Rng (skipn (Z.to_nat k) ws) (nw + k) (nb + (if bl =? 0 then 0 else 8 * (k - 1) + rnd_tail_bytes bl))) /\
     wf v /\ length v = n /\ eval v = eval (firstn (Z.to_nat k) ws) mod 2 ^ bl /\ 0 <= eval v < 2 ^ bl).
Proof.
  intros Hws Hbl r bits k. subst r. rewrite uint_random_bits_spec by assumption. fold bits.
  destruct (Z.eqb_spec prec bits) as [Hp|Hp]; cbn [negb]; [|left; split; [assumption | reflexivity]].
  right. destruct (Z.ltb_spec bits bl) as [Hl|Hl]; [left; repeat split; assumption|].
  right. destruct (rnd_bits_expected_cases n ws nw nb bl Hws Hbl Hl) as [(Hs & E)|(Hs & v & E & Hv)].
  - left. repeat split; assumption.
  - right. repeat split; try assumption. exists v. split; assumption.
Qed.

(** ERROR CONDITIONS (BoxedUint): only the length check and the RNG can fail *)
Theorem boxed_random_bits_outcome ws nw nb bl prec : wf ws -> 0 <= bl ->
  let r := boxed_random_bits_prec (Rng ws nw nb) bl prec in
  let k := rnd_ceil bl 64 in
  (prec < bl /\ r = RErr 2 bl prec) \/
  (bl <= prec /\ Z.of_nat (length ws) < k /\ r = RErr 9 0 0) \/
  (bl <= prec /\ k <= Z.of_nat (length ws) /\ exists v,
     r = ROk v (Rng (skipn (Z.to_nat k) ws) (nw + k) (nb + (if bl =? 0 then 0 else 8 * (k - 1) + rnd_tail_bytes bl))) /\
     wf v /\ length v = rnd_boxed_limbs prec /\ eval v = eval (firstn (Z.to_nat k) ws) mod 2 ^ bl /\ 0 <= eval v < 2 ^ bl).
Proof.
  intros Hws Hbl r k. subst r. rewrite boxed_random_bits_spec by assumption.
  destruct (Z.ltb_spec prec bl) as [Hl|Hl]; [left; split; [assumption | reflexivity]|].
  right. pose proof (rnd_boxed_limbs_ge prec ltac:(lia)) as Hge.
  destruct (rnd_bits_expected_cases (rnd_boxed_limbs prec) ws nw nb bl Hws Hbl ltac:(lia)) as [(Hs & E)|(Hs & v & E & Hv)].
  - left. repeat split; assumption.
  - right. repeat split; try assumption. exists v. split; assumption.
Qed.

(** RANGE of RandomBits for every stream: a returned value is below 2^bit_length *)
Theorem uint_random_bits_range n ws nw nb bl prec v r' : wf ws -> 0 <= bl ->
  uint_random_bits_prec n (Rng ws nw nb) bl prec = ROk v r' ->
  wf v /\ length v = n /\ 0 <= eval v < 2 ^ bl /\ eval v = eval (firstn (Z.to_nat (rnd_ceil bl 64)) ws) mod 2 ^ bl /\
  r' = Rng (skipn (Z.to_nat (rnd_ceil bl 64)) ws) (nw + rnd_ceil bl 64)
           (nb + (if bl =? 0 then 0 else 8 * (rnd_ceil bl 64 - 1) + rnd_tail_bytes bl)).
Proof.
  intros Hws Hbl E. rewrite uint_random_bits_spec in E by assumption.
  destruct (negb (prec =? 64 * Z.of_nat n)); [discriminate|].
  destruct (Z.ltb_spec (64 * Z.of_nat n) bl); [discriminate|].
  destruct (rnd_bits_expected_cases n ws nw nb bl Hws Hbl ltac:(lia)) as [(_ & E')|(_ & v' & E' & Hw & Hl & He & Hr)];
    rewrite E' in E; [discriminate|]. injection E as <- <-. auto.
Qed.

Theorem boxed_random_bits_range ws nw nb bl prec v r' : wf ws -> 0 <= bl ->
  boxed_random_bits_prec (Rng ws nw nb) bl prec = ROk v r' ->
  wf v /\ length v = rnd_boxed_limbs prec /\ 0 <= eval v < 2 ^ bl /\
  eval v = eval (firstn (Z.to_nat (rnd_ceil bl 64)) ws) mod 2 ^ bl /\
  r' = Rng (skipn (Z.to_nat (rnd_ceil bl 64)) ws) (nw + rnd_ceil bl 64)
           (nb + (if bl =? 0 then 0 else 8 * (rnd_ceil bl 64 - 1) + rnd_tail_bytes bl)).
Proof.
  intros Hws Hbl E. rewrite boxed_random_bits_spec in E by assumption.
  destruct (Z.ltb_spec prec bl); [discriminate|].
  pose proof (rnd_boxed_limbs_ge prec ltac:(lia)) as Hge.
  destruct (rnd_bits_expected_cases (rnd_boxed_limbs prec) ws nw nb bl Hws Hbl ltac:(lia)) as [(_ & E')|(_ & v' & E' & Hw & Hl & He & Hr)];
    rewrite E' in E; [discriminate|]. injection E as <- <-. auto.
Qed.
