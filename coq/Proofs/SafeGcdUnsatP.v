(** C10 proofs, part 4: the 62-bit unsaturated integers (UnsatInt / BoxedUnsatInt): add, mul by an i64, neg, shr,
    eq, is_negative as operations on the represented two's complement value, for every limb count. *)
From CB Require Import Model.Limbs Model.AddSub Model.SafeGcd Proofs.WordP Proofs.LimbsP Proofs.BitsP Proofs.SafeGcdArithP.
From Coq Require Import ZArith Lia List Bool Znumtheory Zdiv Setoid Morphisms.
Open Scope Z_scope.

Fixpoint uval (a : list Z) : Z := match a with [] => 0 | x :: r => x + P62 * uval r end.
Definition wf62 (a : list Z) : Prop := Forall (fun x => 0 <= x < P62) a.
Definition M62 (L : nat) : Z := P62 ^ Z.of_nat L.
(* the signed (two's complement) value *)
Definition sval (a : list Z) : Z :=
  let v := uval a in if 2 * v <? M62 (length a) then v else v - M62 (length a).

Lemma M62_0 : M62 0 = 1. Proof. reflexivity. Qed.
Lemma M62_S L : M62 (S L) = P62 * M62 L.
Proof. unfold M62. rewrite Nat2Z.inj_succ, Z.pow_succ_r by lia. reflexivity. Qed.
Lemma M62_pos L : 0 < M62 L.
Proof. unfold M62. apply Z.pow_pos_nonneg; [reflexivity | lia]. Qed.
Lemma M62_pow2 L : M62 L = 2 ^ (62 * Z.of_nat L).
Proof. unfold M62. rewrite P62_pow, <- Z.pow_mul_r by lia. reflexivity. Qed.
Lemma M62_add a b : M62 (a + b) = M62 a * M62 b.
Proof. unfold M62. rewrite Nat2Z.inj_add, Z.pow_add_r by lia. reflexivity. Qed.
Lemma M62_half L : (0 < L)%nat -> exists h, M62 L = 2 * h /\ 0 < h.
Proof.
  intros H. destruct L as [|L]; [lia|]. exists (2 ^ 61 * M62 L). rewrite M62_S.
  split; [unfold P62; ring|]. pose proof (M62_pos L). lia.
Qed.

Lemma wf62_cons x a : wf62 (x :: a) <-> 0 <= x < P62 /\ wf62 a.
Proof. unfold wf62. split; [intros H; inversion H; auto | intros [H1 H2]; constructor; assumption]. Qed.
Lemma wf62_nil : wf62 []. Proof. constructor. Qed.
Lemma wf62_app a b : wf62 (a ++ b) <-> wf62 a /\ wf62 b.
Proof. unfold wf62. apply Forall_app. Qed.
Lemma uval_bounds a : wf62 a -> 0 <= uval a < M62 (length a).
Proof.
  induction a as [|x a IH]; intros H; cbn [uval length].
  - rewrite M62_0. lia.
  - apply wf62_cons in H. destruct H as [Hx Ha]. specialize (IH Ha). rewrite M62_S. pfacts. nia.
Qed.
Lemma uval_app a b : uval (a ++ b) = uval a + M62 (length a) * uval b.
Proof.
  induction a as [|x a IH]; cbn [app uval length].
  - rewrite M62_0. lia.
  - rewrite IH, M62_S. ring.
Qed.
Lemma uval_zeros n : uval (zeros n) = 0.
Proof. unfold zeros. induction n as [|n IH]; cbn [repeat uval]; [reflexivity | rewrite IH; reflexivity]. Qed.
Lemma wf62_zeros n : wf62 (zeros n).
Proof. unfold zeros, wf62. apply Forall_forall. intros x Hx. apply repeat_spec in Hx. subst. pfacts. lia. Qed.
Lemma uval_inj a b : wf62 a -> wf62 b -> length a = length b -> uval a = uval b -> a = b.
Proof.
  revert b. induction a as [|x a IH]; intros [|y b] Ha Hb Hl E; try discriminate; [reflexivity|].
  apply wf62_cons in Ha. apply wf62_cons in Hb. destruct Ha as [Hx Ha]. destruct Hb as [Hy Hb].
  cbn [uval] in E. cbn [length] in Hl.
  assert (x = y /\ uval a = uval b) as [-> E'].
  { pfacts. assert (x mod P62 = y mod P62).
    { rewrite <- (Z.mod_small x P62), <- (Z.mod_small y P62) by lia.
      replace x with ((x + P62 * uval a) - uval a * P62) by ring. rewrite E.
      rewrite Zminus_mod, Z.mod_mul, Z.sub_0_r, Z.mod_mod by lia.
      replace ((y + P62 * uval b) mod P62) with (y mod P62) by (rewrite Z.mul_comm, Z.mod_add; lia).
      rewrite !Z.mod_mod by lia. reflexivity. }
    rewrite !Z.mod_small in H3 by lia. subst. split; [reflexivity|]. nia. }
  f_equal. apply IH; try assumption. lia.
Qed.

(* ---- the signed value is determined by the residue ---- *)
Lemma sval_range a : wf62 a -> (0 < length a)%nat -> - M62 (length a) <= 2 * sval a < M62 (length a).
Proof.
  intros H HL. pose proof (uval_bounds a H). unfold sval. cbv zeta.
  destruct (Z.ltb_spec (2 * uval a) (M62 (length a))); lia.
Qed.
Lemma sval_cg a : cg (M62 (length a)) (sval a) (uval a).
Proof.
  unfold sval. cbv zeta. destruct (2 * uval a <? M62 (length a)); [reflexivity|].
  apply cg_divide; [pose proof (M62_pos (length a)); lia|]. exists (-1). ring.
Qed.
Lemma sval_unique a X : wf62 a -> cg (M62 (length a)) (uval a) X -> - M62 (length a) <= 2 * X < M62 (length a) -> sval a = X.
Proof.
  intros H C R. pose proof (uval_bounds a H) as B. pose proof (M62_pos (length a)) as P.
  apply cg_divide in C; [|lia]. destruct C as [q Hq].
  unfold sval. cbv zeta. destruct (Z.ltb_spec (2 * uval a) (M62 (length a))).
  - assert (q = 0) by nia. subst q. lia.
  - assert (q = 1) by nia. subst q. lia.
Qed.
Lemma sval_inj a b : wf62 a -> wf62 b -> length a = length b -> sval a = sval b -> a = b.
Proof.
  intros Ha Hb Hl E. apply uval_inj; try assumption.
  pose proof (uval_bounds a Ha). pose proof (uval_bounds b Hb). rewrite <- Hl in *.
  pose proof (sval_cg a) as Ca. pose proof (sval_cg b) as Cb. rewrite <- Hl in Cb. rewrite E in Ca.
  assert (C : cg (M62 (length a)) (uval a) (uval b)) by (rewrite <- Ca, Cb; reflexivity).
  apply cg_iff in C. rewrite !Z.mod_small in C by lia. exact C.
Qed.
Lemma sval_nonneg_uval a : wf62 a -> 0 <= sval a -> sval a = uval a.
Proof.
  intros H S. pose proof (uval_bounds a H). unfold sval in *. cbv zeta in *.
  destruct (Z.ltb_spec (2 * uval a) (M62 (length a))); lia.
Qed.

(* ---- add ---- *)
Lemma u_add_c_spec a : forall b c, wf62 a -> wf62 b -> length a = length b -> 0 <= c <= 1 ->
  wf62 (u_add_c a b c) /\ length (u_add_c a b c) = length a /\
  exists co, uval (u_add_c a b c) + M62 (length a) * co = uval a + uval b + c.
Proof.
  induction a as [|x a IH]; intros [|y b] c Ha Hb Hl Hc; try discriminate; cbn [u_add_c uval length].
  - repeat split; [apply wf62_nil|]. exists c. rewrite M62_0. lia.
  - apply wf62_cons in Ha. apply wf62_cons in Hb. destruct Ha as [Hx Ha]. destruct Hb as [Hy Hb].
    cbn [length] in Hl. rewrite land_mask62.
    pfacts.
    assert (Hq : 0 <= (x + y + c) / P62 <= 1).
    { split; [apply Z.div_pos; lia|]. apply Z.lt_succ_r. apply Z.div_lt_upper_bound; lia. }
    destruct (IH b ((x + y + c) / P62) Ha Hb ltac:(lia) Hq) as (W & Ln & co & E).
    repeat split.
    + apply wf62_cons. split; [apply Z.mod_pos_bound; lia | assumption].
    + rewrite Ln. reflexivity.
    + exists co. rewrite M62_S. pose proof (Z.div_mod (x + y + c) P62 ltac:(lia)) as D.
      replace ((x + y + c) mod P62 + P62 * uval (u_add_c a b ((x + y + c) / P62)) + P62 * M62 (length a) * co)
        with ((x + y + c) mod P62 + P62 * (uval (u_add_c a b ((x + y + c) / P62)) + M62 (length a) * co)) by ring.
      rewrite E. lia.
Qed.
Lemma mod_from_carry X M r co : 0 < M -> 0 <= r < M -> r + M * co = X -> r = X mod M.
Proof. intros HM Hr E. apply (Z.mod_unique_pos X M co); lia. Qed.
Lemma u_add_spec a b : wf62 a -> wf62 b -> length a = length b ->
  wf62 (u_add a b) /\ length (u_add a b) = length a /\ uval (u_add a b) = (uval a + uval b) mod M62 (length a).
Proof.
  intros Ha Hb Hl. destruct (u_add_c_spec a b 0 Ha Hb Hl ltac:(lia)) as (W & Ln & co & E). fold (u_add a b) in *.
  repeat split; try assumption.
  apply (mod_from_carry _ _ _ co); [apply M62_pos | rewrite <- Ln; apply uval_bounds; assumption | lia].
Qed.

(* ---- complement ---- *)
Lemma lxor_mask62 x : 0 <= x < P62 -> Z.lxor x MASK62 = MASK62 - x.
Proof.
  intros Hx. rewrite MASK62_ones.
  assert (L : Z.ldiff x (Z.ones 62) = 0).
  { apply Z.bits_inj'. intros i Hi. rewrite Z.ldiff_spec, Z.bits_0.
    destruct (Z_lt_ge_dec i 62).
    - rewrite Z.ones_spec_low by lia. apply andb_false_r.
    - rewrite (testbit_small x 62 i) by (try rewrite <- P62_pow; lia). reflexivity. }
  rewrite (Z.sub_nocarry_ldiff _ _ L).
  apply Z.bits_inj'. intros i Hi. rewrite Z.lxor_spec, Z.ldiff_spec.
  destruct (Z_lt_ge_dec i 62).
  - rewrite Z.ones_spec_low by lia. destruct (Z.testbit x i); reflexivity.
  - rewrite Z.ones_spec_high by lia. rewrite (testbit_small x 62 i) by (try rewrite <- P62_pow; lia). reflexivity.
Qed.
Definition cmask (mask : Z) (a : list Z) : list Z := map (fun x => Z.lxor x mask) a.
Lemma cmask_0 a : cmask 0 a = a.
Proof. unfold cmask. induction a as [|x a IH]; [reflexivity|]. cbn [map]. rewrite Z.lxor_0_r, IH. reflexivity. Qed.
Lemma cmask_full a : wf62 a -> wf62 (cmask MASK62 a) /\ uval (cmask MASK62 a) = M62 (length a) - 1 - uval a.
Proof.
  induction a as [|x a IH]; intros H; cbn [cmask map uval length].
  - split; [apply wf62_nil | rewrite M62_0; lia].
  - apply wf62_cons in H. destruct H as [Hx Ha]. destruct (IH Ha) as [W E]. fold (cmask MASK62 a).
    rewrite lxor_mask62 by assumption. split.
    + apply wf62_cons. split; [rewrite MASK62_val; lia | assumption].
    + rewrite E, M62_S, MASK62_val. ring.
Qed.

(* ---- multiplication by a machine integer ---- *)
Lemma u_mul_c_spec a : forall other mask carry, wf62 (cmask mask a) -> 0 <= other < P63 -> 0 <= carry < P64 ->
  wf62 (u_mul_c a other mask carry) /\ length (u_mul_c a other mask carry) = length a /\
  exists co, uval (u_mul_c a other mask carry) + M62 (length a) * co = carry + uval (cmask mask a) * other.
Proof.
  induction a as [|x a IH]; intros other mask carry Hm Ho Hc; cbn [u_mul_c cmask map uval length] in *.
  - repeat split; [apply wf62_nil|]. exists carry. rewrite M62_0. lia.
  - fold (cmask mask a) in *. apply wf62_cons in Hm. destruct Hm as [Hx Ha].
    set (xm := Z.lxor x mask) in *. set (s := carry + xm * other).
    rewrite land_u64_mask62.
    pfacts.
    assert (Hs : 0 <= s < P64 + P62 * P63).
    { unfold s. assert (0 <= xm * other) by (apply Z.mul_nonneg_nonneg; lia).
      assert (xm * other <= P62 * other) by (apply Z.mul_le_mono_nonneg_r; lia).
      assert (P62 * other < P62 * P63) by (apply Z.mul_lt_mono_pos_l; lia). lia. }
    assert (Hq : 0 <= s / P62 < P64).
    { split; [apply Z.div_pos; lia|]. apply Z.div_lt_upper_bound; [lia|]. unfold P64, P63, P62 in *. lia. }
    rewrite (u64_small (s / P62)) by assumption.
    destruct (IH other mask (s / P62) Ha Ho Hq) as (W & Ln & co & E).
    repeat split.
    + apply wf62_cons. split; [apply Z.mod_pos_bound; lia | assumption].
    + rewrite Ln. reflexivity.
    + exists co. rewrite M62_S. pose proof (Z.div_mod s P62 ltac:(lia)) as D. unfold s in D |- *.
      replace ((carry + xm * other) mod P62 + P62 * uval (u_mul_c a other mask ((carry + xm * other) / P62)) + P62 * M62 (length a) * co)
        with ((carry + xm * other) mod P62 + P62 * (uval (u_mul_c a other mask ((carry + xm * other) / P62)) + M62 (length a) * co)) by ring.
      fold s in E. unfold s in E. rewrite E. lia.
Qed.
Lemma u_mul_spec a c : wf62 a -> - P63 < c < P63 ->
  wf62 (u_mul a c) /\ length (u_mul a c) = length a /\ uval (u_mul a c) = (uval a * c) mod M62 (length a).
Proof.
  intros Ha Hc. unfold u_mul. pfacts. pose proof (M62_pos (length a)) as PM.
  destruct (Z.ltb_spec c 0) as [Hn|Hp].
  - rewrite s64_id by lia. rewrite u64_small by (unfold P64, P63 in *; lia).
    destruct (cmask_full a Ha) as [Wm Em].
    destruct (u_mul_c_spec a (- c) MASK62 (- c) Wm ltac:(lia) ltac:(unfold P64, P63 in *; lia)) as (W & Ln & co & E).
    repeat split; try assumption.
    rewrite Em in E.
    apply (mod_from_carry _ _ _ (co + c)); [assumption | rewrite <- Ln; apply uval_bounds; assumption | lia].
  - assert (Wm : wf62 (cmask 0 a)) by (rewrite cmask_0; assumption).
    destruct (u_mul_c_spec a c 0 0 Wm ltac:(lia) ltac:(unfold P64; lia)) as (W & Ln & co & E).
    rewrite cmask_0 in E.
    repeat split; try assumption.
    apply (mod_from_carry _ _ _ co); [assumption | rewrite <- Ln; apply uval_bounds; assumption | lia].
Qed.

(* ---- negation ---- *)
Lemma u_neg_c_spec a : forall c, wf62 a -> 0 <= c <= 1 ->
  wf62 (u_neg_c a c) /\ length (u_neg_c a c) = length a /\
  exists co, uval (u_neg_c a c) + M62 (length a) * co = uval (cmask MASK62 a) + c.
Proof.
  induction a as [|x a IH]; intros c Ha Hc; cbn [u_neg_c cmask map uval length].
  - repeat split; [apply wf62_nil|]. exists c. rewrite M62_0. lia.
  - fold (cmask MASK62 a). apply wf62_cons in Ha. destruct Ha as [Hx Ha].
    rewrite land_mask62, lxor_mask62 by assumption. pfacts. pose proof MASK62_val as MV.
    assert (Hq : 0 <= (MASK62 - x + c) / P62 <= 1).
    { split; [apply Z.div_pos; lia|]. apply Z.lt_succ_r. apply Z.div_lt_upper_bound; lia. }
    destruct (IH ((MASK62 - x + c) / P62) Ha Hq) as (W & Ln & co & E).
    repeat split.
    + apply wf62_cons. split; [apply Z.mod_pos_bound; lia | assumption].
    + rewrite Ln. reflexivity.
    + exists co. rewrite M62_S. pose proof (Z.div_mod (MASK62 - x + c) P62 ltac:(lia)) as D.
      replace ((MASK62 - x + c) mod P62 + P62 * uval (u_neg_c a ((MASK62 - x + c) / P62)) + P62 * M62 (length a) * co)
        with ((MASK62 - x + c) mod P62 + P62 * (uval (u_neg_c a ((MASK62 - x + c) / P62)) + M62 (length a) * co)) by ring.
      rewrite E. lia.
Qed.
Lemma u_neg_spec a : wf62 a ->
  wf62 (u_neg a) /\ length (u_neg a) = length a /\ uval (u_neg a) = (- uval a) mod M62 (length a).
Proof.
  intros Ha. destruct (u_neg_c_spec a 1 Ha ltac:(lia)) as (W & Ln & co & E). fold (u_neg a) in *.
  destruct (cmask_full a Ha) as [_ Em]. rewrite Em in E.
  repeat split; try assumption.
  apply (mod_from_carry _ _ _ (co - 1)); [apply M62_pos | rewrite <- Ln; apply uval_bounds; assumption | lia].
Qed.

(* ---- sign ---- *)
Lemma uval_last a : a <> [] -> uval a = uval (removelast a) + M62 (length a - 1) * last a 0.
Proof.
  intros H. rewrite (app_removelast_last 0 H) at 1. rewrite uval_app.
  cbn [uval]. rewrite Z.mul_0_r, Z.add_0_r. f_equal. f_equal. f_equal.
  rewrite (app_removelast_last 0 H) at 2. rewrite app_length. cbn [length]. lia.
Qed.
Lemma wf62_last a : wf62 a -> a <> [] -> wf62 (removelast a) /\ 0 <= last a 0 < P62 /\ length (removelast a) = (length a - 1)%nat.
Proof.
  intros H Hn. rewrite (app_removelast_last 0 Hn) in H. apply wf62_app in H. destruct H as [H1 H2].
  apply wf62_cons in H2. destruct H2 as [H2 _]. repeat split; try assumption; try lia.
  rewrite (app_removelast_last 0 Hn) at 2. rewrite app_length. cbn [length]. lia.
Qed.
Lemma u_is_negative_spec a : wf62 a -> a <> [] -> u_is_negative a = (M62 (length a) <=? 2 * uval a).
Proof.
  intros H Hn. destruct (wf62_last a H Hn) as (W & Hl & Ln).
  pose proof (uval_bounds _ W) as B. rewrite Ln in B.
  rewrite (uval_last a Hn). unfold u_is_negative.
  assert (EL : M62 (length a) = P62 * M62 (length a - 1)).
  { rewrite <- M62_S. f_equal. destruct a; [contradiction | cbn [length]; lia]. }
  rewrite EL. pose proof (M62_pos (length a - 1)) as PM.
  change (MASK62 / 2) with (2 ^ 61 - 1).
  destruct (Z.ltb_spec (2 ^ 61 - 1) (last a 0)); destruct (Z.leb_spec (P62 * M62 (length a - 1)) (2 * (uval (removelast a) + M62 (length a - 1) * last a 0))); try reflexivity; exfalso; unfold P62 in *; nia.
Qed.
Lemma u_is_negative_sval a : wf62 a -> a <> [] -> u_is_negative a = (sval a <? 0).
Proof.
  intros H Hn. rewrite u_is_negative_spec by assumption. pose proof (uval_bounds a H) as B.
  unfold sval. cbv zeta.
  destruct (Z.leb_spec (M62 (length a)) (2 * uval a)); destruct (Z.ltb_spec (2 * uval a) (M62 (length a))); lia.
Qed.

(* ---- arithmetic shift right by one limb ---- *)
Lemma sval_cons x r : 0 <= x < P62 -> wf62 r -> r <> [] -> sval (x :: r) = x + P62 * sval r.
Proof.
  intros Hx Hr Hn. pose proof (uval_bounds r Hr) as B.
  destruct (M62_half (length r)) as (h & Eh & Hh); [destruct r; [contradiction | cbn; lia]|].
  unfold sval. cbv zeta. cbn [uval length]. rewrite M62_S. pfacts.
  destruct (Z.ltb_spec (2 * uval r) (M62 (length r))); destruct (Z.ltb_spec (2 * (x + P62 * uval r)) (P62 * M62 (length r))); try ring; exfalso.
  - assert (P62 * uval r <= P62 * (h - 1)) by (apply Z.mul_le_mono_nonneg_l; lia). rewrite Eh in *. lia.
  - assert (P62 * h <= P62 * uval r) by (apply Z.mul_le_mono_nonneg_l; lia). rewrite Eh in *. lia.
Qed.
Lemma sval_sign_ext r : wf62 r -> r <> [] ->
  sval (r ++ [if u_is_negative r then MASK62 else 0]) = sval r.
Proof.
  intros Hr Hn. pose proof (uval_bounds r Hr) as B. pose proof (M62_pos (length r)) as PM.
  rewrite u_is_negative_spec by assumption.
  unfold sval at 1. cbv zeta. rewrite uval_app, app_length. cbn [length uval].
  replace (length r + 1)%nat with (S (length r)) by lia. rewrite M62_S, Z.mul_0_r, Z.add_0_r. pfacts.
  unfold sval. cbv zeta.
  destruct (Z.leb_spec (M62 (length r)) (2 * uval r)); destruct (Z.ltb_spec (2 * uval r) (M62 (length r))); try lia.
  - rewrite MASK62_val.
    destruct (Z.ltb_spec (2 * (uval r + M62 (length r) * (P62 - 1))) (P62 * M62 (length r))); [exfalso; nia | ring].
  - rewrite Z.mul_0_r, Z.add_0_r.
    destruct (Z.ltb_spec (2 * uval r) (P62 * M62 (length r))); [reflexivity | exfalso; nia].
Qed.
Lemma u_shr_spec a : wf62 a -> (0 < length a)%nat ->
  wf62 (u_shr a) /\ length (u_shr a) = length a /\ sval (u_shr a) = sval a / P62.
Proof.
  intros H HL. destruct a as [|x r]; [cbn in HL; lia|].
  apply wf62_cons in H. destruct H as [Hx Hr]. pfacts.
  assert (Wfill : forall b : bool, 0 <= (if b then MASK62 else 0) < P62) by (intros []; rewrite ?MASK62_val; lia).
  unfold u_shr. cbn [tl]. split; [|split].
  - apply wf62_app. split; [assumption|]. apply wf62_cons. split; [apply Wfill | apply wf62_nil].
  - rewrite app_length. cbn [length]. lia.
  - destruct r as [|y r'].
    + (* a single limb *)
      cbn [app]. unfold u_is_negative. cbn [last]. change (MASK62 / 2) with (2 ^ 61 - 1).
      unfold sval. cbv zeta. cbn [uval length]. rewrite M62_S, M62_0, !Z.mul_0_r, !Z.add_0_r, Z.mul_1_r.
      destruct (Z.ltb_spec (2 ^ 61 - 1) x).
      * destruct (Z.ltb_spec (2 * MASK62) P62); [unfold MASK62, P62 in *; lia|].
        destruct (Z.ltb_spec (2 * x) P62); [unfold P62 in *; lia|].
        apply (Z.div_unique_pos _ _ _ x); [lia | unfold MASK62, P62; ring].
      * destruct (Z.ltb_spec (2 * 0) P62); [|lia].
        destruct (Z.ltb_spec (2 * x) P62); [|unfold P62 in *; lia].
        symmetry. apply Z.div_small. lia.
    + assert (Hn : y :: r' <> []) by discriminate.
      assert (EN : u_is_negative (x :: y :: r') = u_is_negative (y :: r')) by reflexivity.
      rewrite EN, sval_sign_ext by assumption.
      rewrite (sval_cons x (y :: r')) by assumption.
      apply (Z.div_unique_pos _ _ _ x); [lia | ring].
Qed.

(* ---- comparisons and constants ---- *)
Lemma list_eqb_eq a b : list_eqb a b = true <-> a = b.
Proof.
  revert b. induction a as [|x a IH]; intros [|y b]; cbn [list_eqb]; split; intros H; try discriminate; try reflexivity.
  - apply andb_true_iff in H. destruct H as [H1 H2]. apply Z.eqb_eq in H1. apply IH in H2. subst. reflexivity.
  - inversion H. subst. rewrite Z.eqb_refl. cbn. apply IH. reflexivity.
Qed.
Lemma wf62_one L : wf62 (u_one L).
Proof. destruct L; [apply wf62_nil|]. cbn. apply wf62_cons. split; [pfacts; lia | apply wf62_zeros]. Qed.
Lemma length_one L : length (u_one L) = L.
Proof. destruct L; [reflexivity|]. cbn. rewrite length_zeros. reflexivity. Qed.
Lemma uval_one L : (0 < L)%nat -> uval (u_one L) = 1.
Proof. destruct L; [lia|]. intros _. cbn. rewrite uval_zeros. reflexivity. Qed.
Lemma wf62_minus_one L : wf62 (u_minus_one L).
Proof. unfold u_minus_one, wf62. apply Forall_forall. intros x Hx. apply repeat_spec in Hx. subst. rewrite MASK62_val. pfacts. lia. Qed.
Lemma length_minus_one L : length (u_minus_one L) = L.
Proof. apply repeat_length. Qed.
Lemma uval_minus_one L : uval (u_minus_one L) = M62 L - 1.
Proof.
  unfold u_minus_one. induction L as [|L IH]; cbn [repeat uval]; [reflexivity|].
  rewrite IH, M62_S, MASK62_val. ring.
Qed.
Lemma M62_ge L : (0 < L)%nat -> P62 <= M62 L.
Proof. intros H. destruct L; [lia|]. rewrite M62_S. pose proof (M62_pos L). pfacts. nia. Qed.
Lemma sval_one L : (0 < L)%nat -> sval (u_one L) = 1.
Proof.
  intros H. apply sval_unique; [apply wf62_one | rewrite uval_one by assumption; reflexivity |].
  rewrite length_one. pose proof (M62_ge L H). pfacts. lia.
Qed.
Lemma sval_minus_one L : (0 < L)%nat -> sval (u_minus_one L) = -1.
Proof.
  intros H. apply sval_unique; [apply wf62_minus_one | |].
  - rewrite uval_minus_one, length_minus_one. apply cg_divide; [pose proof (M62_pos L); lia|]. exists 1. ring.
  - rewrite length_minus_one. pose proof (M62_ge L H). pfacts. lia.
Qed.
Lemma sval_zero L : sval (u_zero L) = 0.
Proof. unfold sval, u_zero. cbv zeta. rewrite uval_zeros. pose proof (M62_pos (length (zeros L))). destruct (Z.ltb_spec (2 * 0) (M62 (length (zeros L)))); lia. Qed.
Lemma u_eq_sval a b : wf62 a -> wf62 b -> length a = length b -> u_eq a b = (sval a =? sval b).
Proof.
  intros Ha Hb Hl. unfold u_eq. destruct (Z.eqb_spec (sval a) (sval b)) as [E|E].
  - apply list_eqb_eq. apply sval_inj; assumption.
  - destruct (list_eqb a b) eqn:Q; [|reflexivity]. apply list_eqb_eq in Q. subst. contradiction.
Qed.
Lemma u_is_zero_spec a : wf62 a -> u_is_zero a = (uval a =? 0).
Proof.
  induction a as [|x a IH]; intros H; cbn [u_is_zero forallb uval]; [reflexivity|].
  apply wf62_cons in H. destruct H as [Hx Ha]. fold (u_is_zero a). rewrite (IH Ha).
  pose proof (uval_bounds a Ha). pfacts.
  destruct (Z.eqb_spec x 0); destruct (Z.eqb_spec (uval a) 0); destruct (Z.eqb_spec (x + P62 * uval a) 0); cbn; try reflexivity; exfalso; nia.
Qed.
Lemma u_is_zero_sval a : wf62 a -> u_is_zero a = (sval a =? 0).
Proof.
  intros H. rewrite u_is_zero_spec by assumption. pose proof (uval_bounds a H). pose proof (M62_pos (length a)).
  unfold sval. cbv zeta. destruct (Z.ltb_spec (2 * uval a) (M62 (length a))); [reflexivity|].
  destruct (Z.eqb_spec (uval a) 0); destruct (Z.eqb_spec (uval a - M62 (length a)) 0); try reflexivity; lia.
Qed.
