(** C17 proofs, part 5: radix_encode_limbs_by_shifting (radix 2, 4, 8, 16, 32) writes the fixed-width
    big-endian digit string of the value; with the leading zeros stripped this is the canonical numeral. *)
From CB Require Import Model.Limbs Model.Conv Model.Radix Proofs.WordP Proofs.LimbsP Proofs.ConvDigitsP Proofs.BitsP
  Proofs.RadixSpecP Proofs.RadixParseP Proofs.RadixParamsP.
From Coq Require Import ZArith Znumtheory Lia List Bool.
Import ListNotations.
Open Scope Z_scope.
Open Scope list_scope.

Section Pow2.
Variable rb : Z.
Hypothesis Hrb : 1 <= rb <= 5.
Let r := 2 ^ rb.

Lemma r_ge2 : 2 <= r.
Proof. unfold r. assert (2 ^ 1 <= 2 ^ rb) by (apply Z.pow_le_mono_r; lia). lia. Qed.
Lemma r_pow (e : nat) : r ^ Z.of_nat e = 2 ^ (rb * Z.of_nat e).
Proof. unfold r. rewrite <- Z.pow_mul_r by lia. reflexivity. Qed.

Lemma land_mask dg : Z.land (dg mod 256) (r - 1) = dg mod r.
Proof.
  replace (r - 1) with (Z.ones rb) by (rewrite Z.ones_equiv; unfold r; lia).
  rewrite Z.land_ones by lia. fold r. symmetry. apply Zmod_div_mod; [pose proof r_ge2; lia | lia|].
  exists (2 ^ (8 - rb)). unfold r. rewrite <- Z.pow_add_r by lia. replace (8 - rb + rb) with 8 by lia. reflexivity.
Qed.

Lemma emit_shift_spec : forall cnt dg db w,
  emit_shift cnt rb (r - 1) dg db w =
  (dg / r ^ Z.of_nat cnt, db - rb * Z.of_nat cnt, map digit_char (rev (digits r cnt dg)) ++ w).
Proof.
  pose proof r_ge2 as Hr.
  induction cnt as [|c IH]; intros dg db w.
  - cbn [emit_shift digits rev map app]. change (Z.of_nat 0) with 0. rewrite Z.pow_0_r, Z.div_1_r. f_equal. f_equal. lia.
  - cbn [emit_shift digits rev]. rewrite IH, land_mask. fold r. rewrite map_app, <- app_assoc. cbn [map app].
    rewrite pow_S_nat, Z.div_div by (try apply pow_pos_nat; lia). f_equal. f_equal. lia.
Qed.

Lemma Bn_split (p e : nat) : rb * Z.of_nat e <= 64 * Z.of_nat p ->
  Bn p = r ^ Z.of_nat e * 2 ^ (64 * Z.of_nat p - rb * Z.of_nat e).
Proof.
  intros H. rewrite Bn_2, r_pow, <- Z.pow_add_r by lia. f_equal. lia.
Qed.

Lemma low_digits_ext (p e : nat) P l : rb * Z.of_nat e <= 64 * Z.of_nat p ->
  digits r e (P + Bn p * l) = digits r e P.
Proof.
  intros H. pose proof r_ge2. rewrite <- (digits_mod r e (P + Bn p * l)), <- (digits_mod r e P) by lia. f_equal.
  rewrite (Bn_split p e H).
  replace (P + r ^ Z.of_nat e * 2 ^ (64 * Z.of_nat p - rb * Z.of_nat e) * l)
    with (P + (2 ^ (64 * Z.of_nat p - rb * Z.of_nat e) * l) * r ^ Z.of_nat e) by ring.
  apply Z_mod_plus_full.
Qed.

Lemma shift_go_spec (size : nat) : forall ls pre dg db oi w,
  wf pre -> wf ls ->
  (oi + length w = size)%nat ->
  w = map digit_char (rev (digits r (length w) (eval pre))) ->
  rb * Z.of_nat (length w) <= 64 * Z.of_nat (length pre) ->
  (oi = 0%nat \/ (db = 64 * Z.of_nat (length pre) - rb * Z.of_nat (length w) /\ db < rb /\
                  dg = eval pre / r ^ Z.of_nat (length w))) ->
  forall oi' w', shift_go rb (r - 1) ls dg db oi w = (oi', w') ->
  (oi' + length w' = size)%nat /\ w' = map digit_char (rev (digits r (length w') (eval (pre ++ ls)))) /\
  rb * Z.of_nat (length w') <= 64 * Z.of_nat (length (pre ++ ls)) /\
  (oi' = 0%nat \/ 64 * Z.of_nat (length (pre ++ ls)) - rb * Z.of_nat (length w') < rb).
Proof.
  pose proof r_ge2 as Hr.
  induction ls as [|l t IH]; intros pre dg db oi w Hwp Hwl Hsz Hw Hle Hst oi' w' E.
  - cbn [shift_go] in E. inv_pair E. rewrite app_nil_r. repeat split; try assumption.
    destruct Hst as [H0|(Hdb & Hlt & _)]; [left; assumption | right; lia].
  - apply wf_cons in Hwl. destruct Hwl as [Hl Hwt]. cbn [shift_go] in E.
    set (p := length pre) in *. set (e := length w) in *. set (P := eval pre) in *.
    assert (Hpre' : wf (pre ++ [l])) by (apply wf_app; split; [assumption | apply wf_cons; split; [assumption | apply wf_nil]]).
    assert (HP' : eval (pre ++ [l]) = P + Bn p * l) by (apply eval_snoc').
    assert (Hlen' : length (pre ++ [l]) = S p) by (rewrite app_length; cbn [length]; lia).
    assert (Happ : (pre ++ [l]) ++ t = pre ++ l :: t) by (rewrite <- app_assoc; reflexivity).
    destruct Hst as [H0|(Hdb & Hlt & Hdg)].
    + (* the output is already full *)
      subst oi. rewrite Nat.min_0_r in E. cbn [emit_shift] in E. cbn [Nat.sub] in E.
      rewrite <- Happ. refine (IH (pre ++ [l]) _ _ _ _ Hpre' Hwt _ _ _ _ oi' w' E).
      * assumption.
      * rewrite HP'. fold e. rewrite low_digits_ext by assumption. assumption.
      * rewrite Hlen'. fold e. lia.
      * left. reflexivity.
    + unfold is_word in Hl. pose proof (eval_bounds pre Hwp) as HPb. fold P p in HPb.
      pose proof (pow_pos_nat r e ltac:(lia)) as Hre.
      assert (Hdb0 : 0 <= db) by lia.
      assert (H2db : 0 < 2 ^ db) by (apply Z.pow_pos_nonneg; lia).
      pose proof (Bn_split p e Hle) as HBs. rewrite <- Hdb in HBs.
      assert (Hdglt : 0 <= dg < 2 ^ db).
      { rewrite Hdg. split; [apply Z.div_pos; lia | apply Z.div_lt_upper_bound; lia]. }
      assert (Hmod : (db + 64) mod 64 = db).
      { replace (db + 64) with (db + 1 * 64) by lia. rewrite Z_mod_plus_full. apply Z.mod_small. lia. }
      assert (Hwr : wrap2 (l * 2 ^ db) = l * 2 ^ db).
      { unfold wrap2. apply Z.mod_small. rewrite BB_val. pose proof B_gt1.
        assert (2 ^ db <= 2 ^ 5) by (apply Z.pow_le_mono_r; lia). assert (2 ^ 5 < B) by (rewrite B_val; reflexivity). nia. }
      assert (Hdg1 : Z.lor dg (wrap2 (l * 2 ^ ((db + 64) mod 64))) = eval (pre ++ [l]) / r ^ Z.of_nat e).
      { rewrite Hmod, Hwr, Z.lor_comm, lor_disjoint by lia. rewrite HP', HBs.
        replace (P + r ^ Z.of_nat e * 2 ^ db * l) with (P + (l * 2 ^ db) * r ^ Z.of_nat e) by ring.
        rewrite Z.div_add by lia. rewrite Hdg. ring. }
      rewrite Hdg1 in E. set (P' := eval (pre ++ [l])) in *.
      set (cnt := Nat.min (Z.to_nat ((db + 64) / rb)) oi) in *.
      rewrite emit_shift_spec in E.
      assert (Havail : 0 <= (db + 64) / rb) by (apply Z.div_pos; lia).
      assert (Hcnt : rb * Z.of_nat cnt <= db + 64).
      { assert (Z.of_nat cnt <= (db + 64) / rb) by (unfold cnt; lia).
        pose proof (Z.mul_div_le (db + 64) rb ltac:(lia)). nia. }
      assert (Hlw2 : forall x, length (map digit_char (rev (digits r cnt x)) ++ w) = (cnt + e)%nat).
      { intros x. rewrite app_length, map_length, rev_length, length_digits. reflexivity. }
      rewrite <- Happ. refine (IH (pre ++ [l]) _ _ _ _ Hpre' Hwt _ _ _ _ oi' w' E).
      * rewrite Hlw2. unfold cnt. lia.
      * rewrite Hlw2. fold P'.
        rewrite (Nat.add_comm cnt e), digits_app by lia. rewrite rev_app_distr, map_app. f_equal.
        rewrite HP'. rewrite low_digits_ext by assumption. exact Hw.
      * rewrite Hlw2. rewrite Hlen'. lia.
      * rewrite Hlw2. rewrite Hlen'.
        destruct (Nat.eq_dec cnt oi) as [Heq|Hneq]; [left; lia|]. right.
        assert (Hc : Z.of_nat cnt = (db + 64) / rb) by (unfold cnt in *; lia).
        split; [lia|]. split.
        -- rewrite Hc. pose proof (Z.mod_pos_bound (db + 64) rb ltac:(lia)) as Hmb. rewrite Z.mod_eq in Hmb by lia. lia.
        -- fold P'. rewrite Z.div_div by (try apply pow_pos_nat; lia). rewrite <- pow_add_nat.
           rewrite (Nat.add_comm cnt e). reflexivity.
Qed.

Lemma by_shifting_correct limbs (size : nat) : wf limbs -> limbs <> [] ->
  64 * Z.of_nat (length limbs) <= rb * Z.of_nat size -> rb * Z.of_nat size < 64 * Z.of_nat (length limbs) + rb ->
  shift_go rb (r - 1) (limbs ++ [0]) 0 0 size [] = (0%nat, map digit_char (rev (digits r size (eval limbs)))).
Proof.
  intros Hw Hne Hlo Hhi. pose proof r_ge2 as Hr.
  destruct (shift_go rb (r - 1) (limbs ++ [0]) 0 0 size []) as [oi' w'] eqn:E.
  assert (Hwl : wf (limbs ++ [0])) by (apply wf_app; split; [assumption | apply wf_cons; split; [apply is_word_0 | apply wf_nil]]).
  pose proof (shift_go_spec size (limbs ++ [0]) [] 0 0 size [] wf_nil Hwl ltac:(cbn [length]; lia) eq_refl
                ltac:(cbn [length]; lia)
                ltac:(right; cbn [length eval]; change (Z.of_nat 0) with 0; rewrite Z.pow_0_r; repeat split; try lia; reflexivity)
                oi' w' E) as (H1 & H2 & H3 & H4).
  cbn [app] in H2, H3, H4. rewrite app_length in H3, H4. cbn [length] in H3, H4.
  assert (Hev : eval (limbs ++ [0]) = eval limbs) by (rewrite eval_snoc'; lia).
  rewrite Hev in H2.
  assert (oi' = 0%nat).
  { destruct H4 as [|H4]; [assumption|]. destruct oi'; [reflexivity|]. exfalso.
    assert (Z.of_nat (length w') <= Z.of_nat size - 1) by lia.
    assert (rb * Z.of_nat (length w') <= rb * (Z.of_nat size - 1)) by (apply Z.mul_le_mono_nonneg_l; lia). lia. }
  subst oi'. assert (length w' = size) by lia. rewrite H in H2. rewrite H2. reflexivity.
Qed.

End Pow2.

Lemma div_ceil_nat_spec a b : 0 <= a -> 0 < b ->
  a <= b * Z.of_nat (div_ceil_nat a b) /\ b * Z.of_nat (div_ceil_nat a b) < a + b.
Proof.
  intros Ha Hb. unfold div_ceil_nat. pose proof (Z.div_mod a b ltac:(lia)). pose proof (Z.mod_pos_bound a b Hb).
  assert (0 <= a / b) by (apply Z.div_pos; lia).
  destruct (Z.ltb_spec 0 (a mod b)); rewrite Z2Nat.id by lia; nia.
Qed.

(** power-of-two radixes: the formatter returns the canonical numeral *)
Theorem format_pow2_correct fixed r limbs : 2 <= r <= 36 -> is_power_of_two r = true -> wf limbs -> limbs <> [] ->
  radix_encode_limbs_to_string fixed r limbs = Some (numeral r (eval limbs)).
Proof.
  intros Hr Hp Hw Hne. destruct (pow2_facts r Hr Hp) as [Hrb Hrr].
  unfold radix_encode_limbs_to_string. destruct (Z.ltb_spec r 2); [lia|]. destruct (Z.ltb_spec 36 r); [lia|]. cbn [orb].
  rewrite Hp. f_equal. set (rb := trailing_zeros r) in *.
  assert (Hlen : (1 <= length limbs)%nat) by (destruct limbs; [contradiction | cbn [length]; lia]).
  unfold lenZ. destruct (div_ceil_nat_spec (Z.of_nat (length limbs) * 64) rb ltac:(lia) ltac:(lia)) as [Hlo Hhi].
  set (size := div_ceil_nat (Z.of_nat (length limbs) * 64) rb) in *.
  unfold radix_encode_limbs_by_shifting. fold rb.
  rewrite Hrr at 1.
  rewrite (by_shifting_correct rb Hrb limbs size Hw Hne ltac:(lia) ltac:(lia)). cbn [repeat app].
  rewrite <- Hrr.
  rewrite (map_ext digit_char sp_digit_char digit_char_sp).
  apply numeral_fixed; [assumption | |].
  - destruct size; [lia | lia].
  - pose proof (eval_bounds limbs Hw) as Hb. rewrite Bn_2 in Hb. split; [lia|].
    assert (2 ^ Z.of_nat (64 * length limbs) <= r ^ Z.of_nat size).
    { rewrite Hrr, <- Z.pow_mul_r by lia. apply Z.pow_le_mono_r; lia. }
    lia.
Qed.
