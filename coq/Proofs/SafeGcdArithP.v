(** C10 proofs, part 1: arithmetic helpers (congruences, machine integers, bit tricks),
    [inv_mod2_62_correct], trailing-zero counting, the specification function [modinv]. *)
From CB Require Import Model.Limbs Model.AddSub Model.SafeGcd Proofs.WordP Proofs.LimbsP Proofs.BitsP.
From Coq Require Import ZArith Lia List Bool Znumtheory Zdiv Zpow_facts Setoid Morphisms.
Open Scope Z_scope.

(* ------------------------------------------------------------------ *)
(** * Congruence as a setoid *)
Definition cg (N a b : Z) : Prop := a mod N = b mod N.
Global Instance cg_equiv N : Equivalence (cg N). Proof. exact (eqm_setoid N). Qed.
Global Instance cg_add N : Proper (cg N ==> cg N ==> cg N) Z.add. Proof. exact (Zplus_eqm N). Qed.
Global Instance cg_sub N : Proper (cg N ==> cg N ==> cg N) Z.sub. Proof. exact (Zminus_eqm N). Qed.
Global Instance cg_mul N : Proper (cg N ==> cg N ==> cg N) Z.mul. Proof. exact (Zmult_eqm N). Qed.
Global Instance cg_opp N : Proper (cg N ==> cg N) Z.opp. Proof. exact (Zopp_eqm N). Qed.
Lemma cg_mod N a : cg N (a mod N) a. Proof. exact (Zmod_eqm N a). Qed.
Lemma cg_iff N a b : cg N a b <-> a mod N = b mod N. Proof. reflexivity. Qed.
Lemma cg_divide N a b : N <> 0 -> (cg N a b <-> (N | a - b)).
Proof.
  intros HN. unfold cg. split; intros H.
  - apply Z.mod_divide; [assumption|]. rewrite Zminus_mod, H, Z.sub_diag. apply Z.mod_0_l. assumption.
  - apply Z.mod_divide in H; [|assumption].
    assert (E : a = b + (a - b)) by ring. rewrite E at 1. rewrite Zplus_mod, H, Z.add_0_r. apply Z.mod_mod. assumption.
Qed.
Lemma cg_weaken N M a b : N <> 0 -> M <> 0 -> (M | N) -> cg N a b -> cg M a b.
Proof.
  intros HN HM D H. apply cg_divide; [assumption|]. apply cg_divide in H; [|assumption].
  eapply Z.divide_trans; eassumption.
Qed.
Global Typeclasses Opaque cg.
Global Opaque cg.

(* ------------------------------------------------------------------ *)
(** * Constants and machine integers *)
Lemma B_P64 : B = P64. Proof. rewrite B_val. reflexivity. Qed.
Lemma P62_pow : P62 = 2 ^ 62. Proof. reflexivity. Qed.
Lemma P63_pow : P63 = 2 ^ 63. Proof. reflexivity. Qed.
Lemma P64_pow : P64 = 2 ^ 64. Proof. reflexivity. Qed.
Lemma P127_pow : P127 = 2 ^ 127. Proof. reflexivity. Qed.
Lemma P128_pow : P128 = 2 ^ 128. Proof. reflexivity. Qed.
Lemma MASK62_ones : MASK62 = Z.ones 62. Proof. reflexivity. Qed.
Lemma MASK62_val : MASK62 = P62 - 1. Proof. reflexivity. Qed.
Lemma P64_P62 : P64 = 4 * P62. Proof. reflexivity. Qed.

Lemma P63_2P62 : P63 = 2 * P62. Proof. reflexivity. Qed.
Lemma P62_pos : 0 < P62. Proof. reflexivity. Qed.
Lemma P62_ge64 : 64 <= P62. Proof. unfold P62. lia. Qed.
Lemma P127_big : 64 * P62 <= P127. Proof. unfold P62, P127. lia. Qed.
Ltac pfacts := pose proof P63_2P62; pose proof P62_pos; pose proof P127_big; pose proof P62_ge64.
Lemma s64_id x : - P63 <= x < P63 -> s64 x = x.
Proof. intros H. unfold s64. rewrite Z.mod_small by (unfold P63, P64 in *; lia). lia. Qed.
Lemma s128_id x : - P127 <= x < P127 -> s128 x = x.
Proof. intros H. unfold s128. rewrite Z.mod_small by (unfold P127, P128 in *; lia). lia. Qed.
Lemma u64_small x : 0 <= x < P64 -> u64 x = x.
Proof. intros H. unfold u64. apply Z.mod_small. assumption. Qed.
Lemma land_mask62 x : Z.land x MASK62 = x mod P62.
Proof. rewrite MASK62_ones, Z.land_ones by lia. reflexivity. Qed.
Lemma mod64_mod62 x : (x mod P64) mod P62 = x mod P62.
Proof. symmetry. apply Zmod_div_mod; [reflexivity | reflexivity |]. exists 4. reflexivity. Qed.
Lemma land_u64_mask62 x : Z.land (u64 x) MASK62 = x mod P62.
Proof. rewrite land_mask62. unfold u64. apply mod64_mod62. Qed.

Lemma pow2_pos n : 0 <= n -> 0 < 2 ^ n. Proof. intros. apply Z.pow_pos_nonneg; lia. Qed.
Lemma pow2_divide a b : 0 <= a <= b -> (2 ^ a | 2 ^ b).
Proof. intros H. exists (2 ^ (b - a)). rewrite <- Z.pow_add_r by lia. f_equal. lia. Qed.
Lemma mod_pow2_mod_pow2 x a b : 0 <= a <= b -> (x mod 2 ^ b) mod 2 ^ a = x mod 2 ^ a.
Proof.
  intros H. symmetry. apply Zmod_div_mod; [apply pow2_pos; lia | apply pow2_pos; lia | apply pow2_divide; assumption].
Qed.

Lemma lxor_mod_pow2 a b n : 0 <= n -> (Z.lxor a b) mod 2 ^ n = Z.lxor (a mod 2 ^ n) (b mod 2 ^ n).
Proof.
  intros Hn. apply Z.bits_inj'. intros i Hi. destruct (Z_lt_ge_dec i n).
  - rewrite Z.mod_pow2_bits_low, !Z.lxor_spec, !Z.mod_pow2_bits_low by lia. reflexivity.
  - rewrite Z.mod_pow2_bits_high, Z.lxor_spec, !Z.mod_pow2_bits_high by lia. reflexivity.
Qed.

(* bounded exhaustive check *)
Definition chk (f : Z -> bool) (n : nat) : bool := forallb f (map Z.of_nat (seq 0 n)).
Lemma chk_spec f n : chk f n = true -> forall r, 0 <= r < Z.of_nat n -> f r = true.
Proof.
  unfold chk. intros H r Hr. rewrite forallb_forall in H. apply H.
  apply in_map_iff. exists (Z.to_nat r). split; [lia|]. apply in_seq. lia.
Qed.

(** Montgomery's 5-bit seeds: (3 v) xor 2 = 1/v and (3 v) xor 28 = -1/v modulo 32, for odd v *)
Lemma seed_inv5 v : Z.odd v = true -> (Z.lxor ((v * 3) mod P64) 2 * v) mod 32 = 1.
Proof.
  intros Ho.
  assert (E32 : forall x, (x mod P64) mod 32 = x mod 32).
  { intros x. symmetry. apply Zmod_div_mod; [reflexivity | reflexivity |]. exists (2 ^ 59). reflexivity. }
  rewrite Zmult_mod. change 32 with (2 ^ 5) at 1. rewrite lxor_mod_pow2 by lia. change (2 ^ 5) with 32.
  rewrite E32. rewrite (Zmult_mod v 3 32).
  set (r := v mod 32).
  assert (Hr : 0 <= r < 32) by (apply Z.mod_pos_bound; lia).
  assert (Or : Z.odd r = true).
  { unfold r. rewrite <- Z.bit0_odd, <- (Z.mod_pow2_bits_low v 5 0), Z.bit0_odd in Ho by lia. exact Ho. }
  pose proof (chk_spec (fun r => negb (Z.odd r) || ((Z.lxor ((r * (3 mod 32)) mod 32) (2 mod 32) * r) mod 32 =? 1)) 32 eq_refl r Hr) as C.
  cbv beta in C. rewrite Or in C. cbn [negb orb] in C. apply Z.eqb_eq in C. exact C.
Qed.
Lemma seed_neginv5 v : Z.odd v = true -> (Z.lxor ((v * 3) mod P64) 28 * v) mod 32 = 31.
Proof.
  intros Ho.
  assert (E32 : forall x, (x mod P64) mod 32 = x mod 32).
  { intros x. symmetry. apply Zmod_div_mod; [reflexivity | reflexivity |]. exists (2 ^ 59). reflexivity. }
  rewrite Zmult_mod. change 32 with (2 ^ 5) at 1. rewrite lxor_mod_pow2 by lia. change (2 ^ 5) with 32.
  rewrite E32. rewrite (Zmult_mod v 3 32).
  set (r := v mod 32).
  assert (Hr : 0 <= r < 32) by (apply Z.mod_pos_bound; lia).
  assert (Or : Z.odd r = true).
  { unfold r. rewrite <- Z.bit0_odd, <- (Z.mod_pow2_bits_low v 5 0), Z.bit0_odd in Ho by lia. exact Ho. }
  pose proof (chk_spec (fun r => negb (Z.odd r) || ((Z.lxor ((r * (3 mod 32)) mod 32) (28 mod 32) * r) mod 32 =? 31)) 32 eq_refl r Hr) as C.
  cbv beta in C. rewrite Or in C. cbn [negb orb] in C. apply Z.eqb_eq in C. exact C.
Qed.

(* ------------------------------------------------------------------ *)
(** * inv_mod2_62: Newton/Hurchalla iteration from the 5-bit seed *)
Lemma newton_poly x0 v :
  let y0 := 1 - x0 * v in
  x0 * (y0 + 1) * (y0 * y0 + 1) * (y0 * y0 * (y0 * y0) + 1) * (y0 * y0 * (y0 * y0) * (y0 * y0 * (y0 * y0)) + 1) * v
  = 1 - y0 ^ 16.
Proof. intros y0. unfold y0. ring. Qed.

Theorem inv_mod2_62_correct v : 0 <= v < P64 -> Z.odd v = true ->
  0 <= inv_mod2_62 v < P62 /\ (v * inv_mod2_62 v) mod P62 = 1.
Proof.
  intros Hv Ho. unfold inv_mod2_62. rewrite land_mask62.
  split; [apply Z.mod_pos_bound; reflexivity|].
  rewrite Zmult_mod_idemp_r.
  unfold wmul, wadd, wsub, wxor, wrap. rewrite !B_P64.
  set (x0 := Z.lxor ((v * 3) mod P64) 2).
  assert (S : (32 | 1 - x0 * v)).
  { apply Z.mod_divide; [lia|]. rewrite Zminus_mod. unfold x0. rewrite (seed_inv5 v Ho). reflexivity. }
  destruct S as [q Hq].
  (* everything modulo 2^64 *)
  match goal with |- ?X mod P62 = 1 => assert (C : cg P64 X 1) end.
  { repeat (rewrite_strat (outermost cg_mod)).
    match goal with |- cg _ ?L _ => replace L with (1 - (1 - x0 * v) ^ 16) by ring end.
    rewrite Hq.
    apply cg_divide; [discriminate|]. exists (- (q ^ 16 * 2 ^ 16)).
    replace ((q * 32) ^ 16) with (q ^ 16 * 2 ^ 16 * P64) by (rewrite Z.pow_mul_l; change (32 ^ 16) with (2 ^ 16 * P64); ring).
    ring. }
  apply (cg_weaken P64 P62) in C; [| discriminate | discriminate | exists 4; reflexivity].
  apply cg_iff in C. rewrite C. reflexivity.
Qed.

(* ------------------------------------------------------------------ *)
(** * ctz_upto: min(n, trailing zeros) *)
Lemma ctz_upto_range n g : 0 <= ctz_upto n g <= Z.of_nat n.
Proof.
  revert g. induction n as [|n IH]; intros g; [cbn; lia|].
  cbn [ctz_upto]. destruct (Z.odd g); [lia|]. specialize (IH (g / 2)). lia.
Qed.
Lemma even_div2 g : Z.odd g = false -> g = 2 * (g / 2).
Proof. intros H. rewrite (Z.div_mod g 2) at 1 by lia. rewrite Zmod_odd, H. lia. Qed.
Lemma ctz_upto_divide n g : g = 2 ^ ctz_upto n g * (g / 2 ^ ctz_upto n g).
Proof.
  revert g. induction n as [|n IH]; intros g; cbn [ctz_upto].
  - rewrite Z.pow_0_r, Z.div_1_r. lia.
  - destruct (Z.odd g) eqn:O.
    + rewrite Z.pow_0_r, Z.div_1_r. lia.
    + pose proof (ctz_upto_range n (g / 2)) as R.
      rewrite Z.pow_add_r by lia. change (2 ^ 1) with 2.
      rewrite <- Z.div_div by (try apply pow2_pos; lia).
      rewrite <- Z.mul_assoc, <- IH. apply even_div2. assumption.
Qed.
Lemma ctz_upto_odd n g : ctz_upto n g < Z.of_nat n -> Z.odd (g / 2 ^ ctz_upto n g) = true.
Proof.
  revert g. induction n as [|n IH]; intros g; cbn [ctz_upto]; [lia|].
  destruct (Z.odd g) eqn:O.
  - intros _. rewrite Z.pow_0_r, Z.div_1_r. assumption.
  - intros H. pose proof (ctz_upto_range n (g / 2)) as R.
    rewrite Z.pow_add_r by lia. change (2 ^ 1) with 2.
    rewrite <- Z.div_div by (try apply pow2_pos; lia). apply IH. lia.
Qed.
Lemma ctz_upto_ge n g k : 0 <= k <= Z.of_nat n -> (2 ^ k | g) -> k <= ctz_upto n g.
Proof.
  revert g k. induction n as [|n IH]; intros g k Hk D; cbn [ctz_upto]; [lia|].
  destruct (Z.eq_dec k 0) as [->|Hk0]; [pose proof (ctz_upto_range n (g / 2)); destruct (Z.odd g); lia|].
  assert (E : Z.odd g = false).
  { destruct D as [c ->]. replace k with (1 + (k - 1)) by lia. rewrite Z.pow_add_r by lia.
    change (2 ^ 1) with 2. rewrite Z.mul_assoc, Z.odd_mul, (Z.odd_mul c 2). cbn. rewrite andb_false_r. reflexivity. }
  rewrite E. specialize (IH (g / 2) (k - 1)).
  assert (D' : (2 ^ (k - 1) | g / 2)).
  { destruct D as [c ->]. exists c. replace k with ((k - 1) + 1) at 1 by lia.
    rewrite Z.pow_add_r by lia. change (2 ^ 1) with 2. rewrite Z.mul_assoc. apply Z.div_mul. lia. }
  specialize (IH ltac:(lia) D'). lia.
Qed.
Lemma ctz_upto_zero n : ctz_upto n 0 = Z.of_nat n.
Proof. induction n as [|n IH]; [reflexivity|]. cbn [ctz_upto]. change (Z.odd 0) with false. cbv iota. change (0 / 2) with 0. rewrite IH. lia. Qed.

(* ------------------------------------------------------------------ *)
(** * Number theory for the specification *)
Lemma gauss_pow2 m k x : Z.odd m = true -> 0 <= k -> (m | 2 ^ k * x) -> (m | x).
Proof.
  intros Ho Hk D. apply (Gauss m (2 ^ k) x); [assumption|].
  apply Zpow_facts.rel_prime_Zpower_r; [assumption|].
  apply Zgcd_1_rel_prime.
  assert (G : 0 <= Z.gcd m 2) by apply Z.gcd_nonneg.
  assert (D2 : (Z.gcd m 2 | 2)) by apply Z.gcd_divide_r.
  assert (Dm : (Z.gcd m 2 | m)) by apply Z.gcd_divide_l.
  apply Z.divide_pos_le in D2; [|lia].
  assert (C : Z.gcd m 2 = 0 \/ Z.gcd m 2 = 1 \/ Z.gcd m 2 = 2) by lia.
  destruct C as [C|[C|C]]; [| assumption |].
  - apply Z.gcd_eq_0 in C. lia.
  - rewrite C in Dm. destruct Dm as [c ->]. rewrite Z.odd_mul in Ho. cbn in Ho. rewrite andb_false_r in Ho. discriminate.
Qed.

(* extended Euclid: invariant r0 = s0 a, r1 = s1 a (mod m), gcd preserved *)
Fixpoint egcd_ok (fuel : nat) (r0 r1 : Z) : Prop :=
  match fuel with
  | O => r1 = 0
  | S k => r1 = 0 \/ egcd_ok k r1 (r0 mod r1)
  end.
Lemma egcd_loop_inv fuel : forall a m r0 r1 s0 s1 g s,
  0 <= r0 -> 0 <= r1 -> cg m r0 (s0 * a) -> cg m r1 (s1 * a) -> egcd_ok fuel r0 r1 ->
  egcd_loop fuel r0 r1 s0 s1 = (g, s) ->
  0 <= g /\ cg m g (s * a) /\ g = Z.gcd r0 r1.
Proof.
  induction fuel as [|k IH]; intros a m r0 r1 s0 s1 g s H0 H1 C0 C1 OK E; cbn [egcd_loop egcd_ok] in *.
  - inv_pair E. subst r1. repeat split; [assumption | assumption |]. rewrite Z.gcd_0_r, Z.abs_eq; lia.
  - destruct (Z.eqb_spec r1 0) as [->|Hnz].
    + inv_pair E. repeat split; [assumption | assumption |]. rewrite Z.gcd_0_r, Z.abs_eq; lia.
    + destruct OK as [OK|OK]; [contradiction|].
      assert (Er : r0 - r0 / r1 * r1 = r0 mod r1) by (rewrite Z.mod_eq by assumption; ring).
      rewrite Er in E.
      assert (Hm : 0 <= r0 mod r1 < r1) by (apply Z.mod_pos_bound; lia).
      assert (C2 : cg m (r0 mod r1) ((s0 - r0 / r1 * s1) * a)).
      { rewrite <- Er. rewrite Z.mul_sub_distr_r, <- C0, <- Z.mul_assoc, <- C1. reflexivity. }
      destruct (IH a m r1 (r0 mod r1) s1 (s0 - r0 / r1 * s1) g s H1 ltac:(lia) C1 C2 OK E) as (G0 & G1 & G2).
      repeat split; [assumption | assumption |].
      rewrite G2. rewrite (Z.gcd_comm r0 r1). rewrite Z.gcd_comm. apply Z.gcd_mod. assumption.
Qed.

Lemma mod_half r0 r1 : 0 < r1 <= r0 -> 2 * (r0 mod r1) <= r0.
Proof.
  intros H. pose proof (Z.div_mod r0 r1 ltac:(lia)) as E.
  pose proof (Z.mod_pos_bound r0 r1 ltac:(lia)) as Hm.
  assert (Q : 1 <= r0 / r1) by (apply Z.div_le_lower_bound; lia).
  assert (P : r1 * 1 <= r1 * (r0 / r1)) by (apply Z.mul_le_mono_nonneg_l; lia).
  lia.
Qed.
(* the product of the pair at least halves in every step *)
Lemma egcd_ok_fuel k : forall r0 r1, 0 <= r1 <= r0 -> r0 * r1 < 2 ^ Z.of_nat k -> egcd_ok k r0 r1.
Proof.
  induction k as [|k IH]; intros r0 r1 H P.
  - cbn. change (2 ^ Z.of_nat 0) with 1 in P.
    destruct (Z.eq_dec r1 0) as [E|E]; [assumption|].
    assert (1 * 1 <= r0 * r1) by (apply Z.mul_le_mono_nonneg; lia). lia.
  - cbn [egcd_ok]. destruct (Z.eq_dec r1 0) as [E|E]; [left; assumption|]. right.
    pose proof (Z.mod_pos_bound r0 r1 ltac:(lia)) as Hm.
    apply IH; [lia|].
    pose proof (mod_half r0 r1 ltac:(lia)) as Hh.
    rewrite Nat2Z.inj_succ, Z.pow_succ_r in P by lia.
    assert (r1 * (2 * (r0 mod r1)) <= r1 * r0) by (apply Z.mul_le_mono_nonneg_l; lia).
    lia.
Qed.

Theorem modinv_spec a m : 0 < m ->
  0 <= modinv a m < m /\ (a * modinv a m) mod m = Z.gcd a m mod m.
Proof.
  intros Hm. unfold modinv.
  destruct (egcd_loop (2 * Z.to_nat (Z.log2 (Z.abs m)) + 4) (a mod m) m 1 0) as [g s] eqn:E.
  split; [apply Z.mod_pos_bound; assumption|].
  pose proof (Z.mod_pos_bound a m Hm) as Ha.
  assert (OK : egcd_ok (2 * Z.to_nat (Z.log2 (Z.abs m)) + 4) (a mod m) m).
  { replace (2 * Z.to_nat (Z.log2 (Z.abs m)) + 4)%nat with (S (2 * Z.to_nat (Z.log2 (Z.abs m)) + 3)) by lia.
    cbn [egcd_ok]. right. rewrite Z.mod_mod by lia.
    apply egcd_ok_fuel; [lia|].
    rewrite Z.abs_eq by lia.
    pose proof (Z.log2_nonneg m) as L0.
    destruct (Z.log2_spec m Hm) as [_ Lm].
    replace (Z.of_nat (2 * Z.to_nat (Z.log2 m) + 3)) with (Z.succ (Z.log2 m) + Z.succ (Z.log2 m) + 1) by lia.
    rewrite !Z.pow_add_r by lia. change (2 ^ 1) with 2.
    assert (m * (a mod m) <= m * m) by (apply Z.mul_le_mono_nonneg_l; lia).
    assert (m * m < 2 ^ Z.succ (Z.log2 m) * 2 ^ Z.succ (Z.log2 m)) by (apply Z.mul_lt_mono_nonneg; lia).
    lia. }
  assert (C0 : cg m (a mod m) (1 * a)) by (rewrite cg_mod, Z.mul_1_l; reflexivity).
  assert (C1 : cg m m (0 * a)).
  { apply cg_divide; [lia|]. exists 1. ring. }
  destruct (egcd_loop_inv _ a m (a mod m) m 1 0 g s ltac:(lia) ltac:(lia) C0 C1 OK E) as (G0 & G1 & G2).
  rewrite Zmult_mod_idemp_r. rewrite Z.mul_comm.
  apply cg_iff in G1. rewrite <- G1. rewrite G2.
  rewrite Z.gcd_mod by lia. rewrite Z.gcd_comm. reflexivity.
Qed.

Lemma inv_unique m a c x y : 0 < m -> Z.gcd a m = 1 ->
  (a * x) mod m = c mod m -> (a * y) mod m = c mod m -> 0 <= x < m -> 0 <= y < m -> x = y.
Proof.
  intros Hm G Hx Hy Rx Ry.
  assert (D : (m | a * (x - y))).
  { apply Z.mod_divide; [lia|]. rewrite Z.mul_sub_distr_l, Zminus_mod, Hx, Hy, Z.sub_diag. apply Z.mod_0_l. lia. }
  apply Gauss in D; [| apply rel_prime_sym; apply Zgcd_1_rel_prime; assumption].
  destruct D as [q Hq].
  assert (q = 0) by nia. subst q. lia.
Qed.
