(** C02: the 9-bit table seed of the Moeller-Granlund reciprocal: [short_div] computes the floor quotient. *)
From CB Require Import Model.Limbs Model.Div Proofs.WordP.
From Coq Require Import ZArith Lia List.
Open Scope Z_scope.

Definition v0_ok (n : nat) : bool :=
  short_div (2 ^ 19 - 3 * 2 ^ 8) 19 (Z.of_nat n) 9 =? (2 ^ 19 - 3 * 2 ^ 8) / Z.of_nat n.
(* unfold v0_ok first when converting: otherwise the kernel evaluates short_div on a symbolic argument *)
Strategy expand [v0_ok].

Lemma v0_table_check : forallb v0_ok (seq 256 256) = true.
Proof. vm_compute. reflexivity. Qed.

Lemma v0_ok_spec n : v0_ok n = true ->
  short_div (2 ^ 19 - 3 * 2 ^ 8) 19 (Z.of_nat n) 9 = (2 ^ 19 - 3 * 2 ^ 8) / Z.of_nat n.
Proof. intros H. apply Z.eqb_eq. exact H. Qed.

Lemma short_div_v0 d9 : 256 <= d9 <= 511 ->
  short_div (2 ^ 19 - 3 * 2 ^ 8) 19 d9 9 = (2 ^ 19 - 3 * 2 ^ 8) / d9.
Proof.
  intros H. pose proof v0_table_check as T. rewrite forallb_forall in T.
  specialize (T (Z.to_nat d9)).
  rewrite <- (Z2Nat.id d9) by lia. apply v0_ok_spec. apply T. apply in_seq. lia.
Qed.
