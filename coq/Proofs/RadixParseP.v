(** C17 proofs, part 2: the decoders.  radix_preprocess_str, radix_decode_str_digits (batches of
    ilog_radix(MAX) digits, multiply-accumulate, push_limb) and radix_decode_str_aligned_digits (radix 2/4/16)
    compute exactly the value of a numeral, report InputSize exactly when it does not fit, and never panic. *)
From CB Require Import Model.Limbs Model.Conv Model.Radix Proofs.WordP Proofs.LimbsP Proofs.ConvDigitsP
  Proofs.ConvBytesP Proofs.BitsP Proofs.DivShiftP Proofs.RadixSpecP.
From Coq Require Import ZArith Lia List Bool.
Import ListNotations.
Open Scope Z_scope.
Open Scope list_scope.

(* ---- characters ---- *)
Definition okc (r c : Z) : bool := (c =? 95) || is_digit_of r c.
(* Horner over characters, continuing from [acc]; characters that are no digit are skipped *)
Definition hv (r acc : Z) (cs : list Z) : Z :=
  fold_left (fun a c => match sp_char_val c with Some d => a * r + d | None => a end) cs acc.

Lemma sp_char_val_nonneg c d : sp_char_val c = Some d -> 0 <= d < 36.
Proof.
  unfold sp_char_val.
  repeat match goal with |- context [?a <=? ?b] => destruct (Z.leb_spec a b) end; cbn [andb]; intros E; inversion E; lia.
Qed.
Lemma sp_char_val_us : sp_char_val 95 = None. Proof. reflexivity. Qed.
Lemma sp_char_val_zero c : sp_char_val c = Some 0 -> c = 48.
Proof.
  unfold sp_char_val.
  repeat match goal with |- context [?a <=? ?b] => destruct (Z.leb_spec a b) end; cbn [andb]; intros E; inversion E; lia.
Qed.

Lemma hv_fold r cs acc : fold_left (fun a d => a * r + d) (sp_digit_vals cs) acc = hv r acc cs.
Proof.
  revert acc. induction cs as [|c cs IH]; intros acc; [reflexivity|].
  unfold sp_digit_vals, hv in *. cbn [flat_map fold_left]. rewrite fold_left_app.
  destruct (sp_char_val c); cbn [fold_left]; apply IH.
Qed.
Lemma value_hv r s : value r s = hv r 0 (sp_body s).
Proof. unfold value, horner. apply hv_fold. Qed.
Lemma hv_cons r acc c cs : hv r acc (c :: cs) = hv r (match sp_char_val c with Some d => acc * r + d | None => acc end) cs.
Proof. reflexivity. Qed.
Lemma hv_mono r cs : 1 <= r -> forall acc, 0 <= acc -> acc <= hv r acc cs.
Proof.
  intros Hr. induction cs as [|c cs IH]; intros acc Ha; [cbn; lia|]. rewrite hv_cons.
  destruct (sp_char_val c) as [d|] eqn:E; [|apply IH; assumption].
  apply sp_char_val_nonneg in E. assert (acc <= acc * r + d) by nia.
  specialize (IH (acc * r + d) ltac:(lia)). lia.
Qed.

(* the decoder's character match against the specification's character value *)
Lemma char_digit_spec r c : 2 <= r <= 36 -> c <> 95 ->
  (is_digit_of r c = true -> sp_char_val c = Some (char_digit r c) /\ 0 <= char_digit r c < r) /\
  (is_digit_of r c = false -> r <= char_digit r c).
Proof.
  intros Hr Hc. unfold is_digit_of, sp_char_val, char_digit.
  repeat match goal with |- context [?a <=? ?b] => destruct (Z.leb_spec a b) end; cbn [andb];
  (split; [intros Hdg; first [discriminate | apply Z.ltb_lt in Hdg; split; [f_equal; lia | lia]]
          | intros Hdg; try (apply Z.ltb_ge in Hdg); lia]).
Qed.

(* ---- multiply-accumulate over the limbs ---- *)
Lemma is_word_0 : is_word 0. Proof. unfold is_word. pose proof B_pos. lia. Qed.
Lemma mul_add_limbs_correct m : is_word m -> forall ls carry ls' c', wf ls -> is_word carry ->
  mul_add_limbs ls m carry = (ls', c') ->
  eval ls' + Bn (length ls) * c' = eval ls * m + carry /\ wf ls' /\ length ls' = length ls /\ is_word c'.
Proof.
  intros Hm. induction ls as [|l ls IH]; intros carry ls' c' Hw Hc E.
  - cbn in E. inv_pair E. cbn [eval length]. rewrite Bn_0. split; [lia|]. split; [apply wf_nil|]. split; [reflexivity | assumption].
  - cbn [mul_add_limbs] in E. apply wf_cons in Hw. destruct Hw as [Hl Hw].
    destruct (mac 0 l m carry) as [lo c] eqn:Em.
    destruct (mac_exact 0 l m carry lo c is_word_0 Hl Hm Hc Em) as (He & Hlo & Hcw).
    destruct (mul_add_limbs ls m c) as [t' c2] eqn:Er. inv_pair E.
    destruct (IH c t' c2 Hw Hcw Er) as (IHe & IHw & IHl & IHc).
    cbn [eval length]. rewrite Bn_S. split; [nia|]. split; [apply wf_cons; split; assumption|]. split; [lia | assumption].
Qed.

(* combining the digits of a buffer never wraps *)
Lemma fold_wrap_horner r : 1 <= r -> forall buf acc, wfd r buf -> 0 <= acc ->
  (acc + 1) * r ^ Z.of_nat (length buf) <= B ->
  fold_left (fun a c => wrap (a * r + c)) buf acc = fold_left (fun a c => a * r + c) buf acc.
Proof.
  intros Hr. induction buf as [|d buf IH]; intros acc Hw Ha Hb; [reflexivity|].
  apply wfd_cons in Hw. destruct Hw as [Hd Hw]. cbn [fold_left length] in *. rewrite pow_S_nat in Hb.
  pose proof (pow_pos_nat r (length buf) ltac:(lia)) as Hp.
  assert (Hs : (acc * r + d + 1) * r ^ Z.of_nat (length buf) <= (acc + 1) * (r * r ^ Z.of_nat (length buf))) by nia.
  assert (Hlt : acc * r + d < B) by nia.
  unfold wrap at 2. rewrite Z.mod_small by nia.
  apply IH; [assumption | nia | lia].
Qed.

Lemma horner_bound r buf : 1 <= r -> wfd r buf -> 0 <= horner r buf < r ^ Z.of_nat (length buf).
Proof.
  intros Hr Hw. rewrite horner_evalb. rewrite <- (rev_length buf). apply evalb_bounds; [lia | apply wfd_rev; assumption].
Qed.
Lemma horner_snoc r buf d : horner r (buf ++ [d]) = horner r buf * r + d.
Proof. unfold horner. rewrite fold_left_app. reflexivity. Qed.

(* ---- the decode target ---- *)
Definition capfit (cap : option nat) (n : nat) : Prop := match cap with None => True | Some c => (n <= c)%nat end.
Definition minimal (o : list Z) : Prop := o <> [] -> Bn (length o - 1) <= eval o.

Lemma minimal_nil : minimal []. Proof. intros H; contradiction. Qed.
Lemma eval_snoc' l a : eval (l ++ [a]) = eval l + Bn (length l) * a.
Proof. rewrite eval_app. cbn [eval]. lia. Qed.
Lemma minimal_snoc o c : wf o -> 0 < c -> minimal (o ++ [c]).
Proof.
  intros Hw Hc _. rewrite app_length, eval_snoc'. cbn [length]. replace (length o + 1 - 1)%nat with (length o) by lia.
  pose proof (eval_nonneg o Hw). pose proof (Bn_pos (length o)). nia.
Qed.

Lemma push_limb_spec cap out limb : wf out -> is_word limb -> capfit cap (length out) ->
  match push_limb cap out limb with
  | Some o' => o' = out ++ [limb] /\ capfit cap (length o')
  | None => cap = Some (length out)
  end.
Proof.
  intros Hw Hl Hc. unfold push_limb. destruct cap as [c|]; cbn [capfit] in *.
  - destruct (Nat.ltb_spec (length out) c).
    + split; [reflexivity|]. rewrite app_length. cbn [length]. lia.
    + f_equal. lia.
  - split; [reflexivity | exact I].
Qed.

Section Generic.
Variable r : Z.
Variable cap : option nat.
Variable ld : nat.
Hypothesis Hr : 2 <= r <= 36.
Hypothesis Hld : (1 <= ld)%nat.
Hypothesis Hmax : r ^ Z.of_nat ld <= MAXW.

Lemma pow_le_ld (k : nat) : (k <= ld)%nat -> 0 < r ^ Z.of_nat k <= MAXW.
Proof.
  intros Hk. split; [apply pow_pos_nat; lia|].
  assert (r ^ Z.of_nat k <= r ^ Z.of_nat ld) by (apply pow_le_mono_nat; lia). lia.
Qed.

Lemma flush_spec buf out : wf out -> capfit cap (length out) -> minimal out -> wfd r buf -> (length buf <= ld)%nat ->
  let acc' := eval out * r ^ Z.of_nat (length buf) + horner r buf in
  match flush_digits r cap buf (r ^ Z.of_nat (length buf)) out with
  | Some o' => wf o' /\ capfit cap (length o') /\ minimal o' /\ eval o' = acc'
  | None => exists n, cap = Some n /\ Bn n <= acc'
  end.
Proof.
  intros Hw Hcap Hmin Hb Hlen acc'. unfold flush_digits.
  pose proof (pow_le_ld (length buf) Hlen) as [Hp0 Hp1]. rewrite MAXW_val in Hp1.
  pose proof (horner_bound r buf ltac:(lia) Hb) as Hh.
  rewrite fold_wrap_horner by (lia || assumption). fold (horner r buf).
  assert (Hlm : is_word (r ^ Z.of_nat (length buf))) by (unfold is_word; lia).
  assert (Hcw : is_word (horner r buf)) by (unfold is_word; lia).
  destruct (mul_add_limbs out (r ^ Z.of_nat (length buf)) (horner r buf)) as [out' c'] eqn:E.
  destruct (mul_add_limbs_correct _ Hlm out _ out' c' Hw Hcw E) as (He & Hw' & Hl' & Hc').
  fold acc' in He. pose proof (eval_nonneg out Hw) as Hnn. pose proof (Bn_pos (length out)) as HBp.
  destruct (Z.eqb_spec c' 0) as [->|Hnz].
  - rewrite Z.mul_0_r, Z.add_0_r in He. repeat split; try assumption; [rewrite Hl'; assumption|].
    intros Hne. rewrite Hl'. assert (out <> []) by (intros ->; destruct out'; [contradiction | discriminate]).
    specialize (Hmin H). unfold acc' in He. nia.
  - unfold is_word in Hc'.
    pose proof (push_limb_spec cap out' c' Hw' ltac:(unfold is_word; lia) ltac:(rewrite Hl'; assumption)) as Hp.
    destruct (push_limb cap out' c') as [o'|].
    + destruct Hp as [-> Hcf]. split; [apply wf_app; split; [assumption | apply wf_cons; split; [unfold is_word; lia | apply wf_nil]]|].
      split; [assumption|]. split; [apply minimal_snoc; [assumption | lia]|].
      rewrite eval_snoc', Hl'. lia.
    + exists (length out). rewrite <- Hl'. split; [assumption|].
      pose proof (eval_nonneg out' Hw'). rewrite Hl'. nia.
Qed.

Definition allok (cs : list Z) : bool := forallb (okc r) cs.

Lemma last_cons_ne (c : Z) t : t <> [] -> last (c :: t) 0 = last t 0.
Proof. destruct t; [contradiction | reflexivity]. Qed.

Theorem dec_go_spec : forall ds buf out,
  ds <> [] -> last ds 0 <> 95 -> wf out -> capfit cap (length out) -> minimal out -> wfd r buf -> (length buf < ld)%nat ->
  let acc := eval out * r ^ Z.of_nat (length buf) + horner r buf in
  match dec_go r cap ld (wrap (r ^ Z.of_nat ld)) ds buf out with
  | DOk o => allok ds = true /\ wf o /\ capfit cap (length o) /\ minimal o /\ eval o = hv r acc ds
  | DErr c => (c = E_InvalidDigit /\ allok ds = false) \/
              (c = E_InputSize /\ exists n, cap = Some n /\ (allok ds = true -> Bn n <= hv r acc ds))
  | DPanic => False
  end.
Proof.
  induction ds as [|c t IH]; intros buf out Hne Hlast Hw Hcap Hmin Hb Hlen acc; [contradiction|].
  cbn [dec_go]. unfold allok in *. cbn [forallb]. rewrite hv_cons.
  destruct (Z.eqb_spec c 95) as [->|Hc95].
  - (* underscore *)
    assert (Ht : t <> []) by (intros ->; cbn in Hlast; lia).
    rewrite last_cons_ne in Hlast by assumption.
    rewrite sp_char_val_us. assert (Hok : okc r 95 = true) by reflexivity. rewrite !Hok. cbn [andb].
    apply IH; assumption.
  - destruct (char_digit_spec r c Hr Hc95) as [Hyes Hno].
    assert (Hok : okc r c = is_digit_of r c).
    { unfold okc. replace (c =? 95) with false by (symmetry; apply Z.eqb_neq; assumption). reflexivity. }
    rewrite !Hok.
    destruct (is_digit_of r c) eqn:Hdig; cbn [andb].
    + destruct (Hyes eq_refl) as [Hval Hrange]. set (d := char_digit r c) in *.
      destruct (Z.leb_spec r d) as [Hbad|_]; [lia|]. rewrite Hval.
      assert (Hb' : wfd r (buf ++ [d])) by (apply wfd_app; split; [assumption | apply wfd_cons; split; [lia | apply wfd_nil]]).
      assert (Hl' : length (buf ++ [d]) = S (length buf)) by (rewrite app_length; cbn [length]; lia).
      assert (Hacc : eval out * r ^ Z.of_nat (length (buf ++ [d])) + horner r (buf ++ [d]) = acc * r + d).
      { rewrite Hl', pow_S_nat, horner_snoc. unfold acc. ring. }
      set (fin := match t with [] => true | _ :: _ => false end).
      destruct (fin || Nat.eqb (length (buf ++ [d])) ld) eqn:Hflush.
      * (* flush *)
        assert (Hlm : (if Nat.ltb (length (buf ++ [d])) ld then wrap (r ^ Z.of_nat (length (buf ++ [d]))) else wrap (r ^ Z.of_nat ld))
                      = r ^ Z.of_nat (length (buf ++ [d]))).
        { destruct (Nat.ltb_spec (length (buf ++ [d])) ld) as [Hlt|Hge].
          - unfold wrap. apply Z.mod_small. pose proof (pow_le_ld (length (buf ++ [d])) ltac:(lia)). rewrite MAXW_val in *. lia.
          - assert (length (buf ++ [d]) = ld) by lia. rewrite H. unfold wrap. apply Z.mod_small.
            pose proof (pow_le_ld ld ltac:(lia)). rewrite MAXW_val in *. lia. }
        rewrite Hlm.
        pose proof (flush_spec (buf ++ [d]) out Hw Hcap Hmin Hb' ltac:(lia)) as Hf. cbv zeta in Hf. rewrite Hacc in Hf.
        destruct (flush_digits r cap (buf ++ [d]) (r ^ Z.of_nat (length (buf ++ [d]))) out) as [o'|].
        -- destruct Hf as (Hw' & Hcap' & Hmin' & He').
           destruct t as [|c2 t2] eqn:Et; cbn [fin].
           ++ cbn [forallb hv fold_left]. repeat split; assumption.
           ++ rewrite <- Et in *.
              assert (Ht : t <> []) by (rewrite Et; discriminate).
              rewrite last_cons_ne in Hlast by assumption.
              specialize (IH [] o' Ht Hlast Hw' Hcap' Hmin' (wfd_nil r) ltac:(cbn [length]; lia)).
              cbv zeta in IH. cbn [length] in IH. change (Z.of_nat 0) with 0 in IH. rewrite Z.pow_0_r in IH.
              unfold horner in IH. cbn [fold_left] in IH. rewrite Z.mul_1_r, Z.add_0_r, He' in IH. exact IH.
        -- destruct Hf as (n & Hn & Hge). right. split; [reflexivity|]. exists n. split; [assumption|].
           intros _. pose proof (hv_mono r t ltac:(lia) (acc * r + d) ltac:(pose proof (Bn_pos n); lia)). lia.
      * (* keep filling the buffer *)
        apply orb_false_iff in Hflush. destruct Hflush as [Hfin Hneq]. apply Nat.eqb_neq in Hneq.
        assert (Ht : t <> []) by (intros ->; cbn in Hfin; discriminate).
        rewrite last_cons_ne in Hlast by assumption.
        specialize (IH (buf ++ [d]) out Ht Hlast Hw Hcap Hmin Hb' ltac:(lia)). cbv zeta in IH. rewrite Hacc in IH. exact IH.
    + specialize (Hno eq_refl). destruct (Z.leb_spec r (char_digit r c)) as [_|Hbad]; [|lia].
      left. split; reflexivity.
Qed.

End Generic.

(* ---- radix 2 / 4 / 16: limb-aligned digits, least significant first ---- *)
(* little-endian value of a reversed character string *)
Definition cvr (r : Z) (rds : list Z) : Z := evalb r (sp_digit_vals rds).
Lemma cvr_cons r c t : cvr r (c :: t) = match sp_char_val c with Some d => d + r * cvr r t | None => cvr r t end.
Proof. unfold cvr, sp_digit_vals. cbn [flat_map]. destruct (sp_char_val c); reflexivity. Qed.
Lemma cvr_nonneg r t : 1 <= r -> 0 <= cvr r t.
Proof.
  intros Hr. induction t as [|c t IH]; [cbn; lia|]. rewrite cvr_cons.
  destruct (sp_char_val c) as [d|] eqn:E; [|assumption]. apply sp_char_val_nonneg in E. nia.
Qed.
Lemma hv_cvr r cs : hv r 0 cs = cvr r (rev cs).
Proof.
  rewrite <- hv_fold. fold (horner r (sp_digit_vals cs)). rewrite horner_evalb. unfold cvr, sp_digit_vals.
  rewrite flat_map_rev. f_equal. apply flat_map_ext. intros c. destruct (sp_char_val c); reflexivity.
Qed.

Section Aligned.
Variable r shift : Z.
Variable cap : option nat.
Variable ld : nat.
Hypothesis Hr : 2 <= r <= 36.
Hypothesis Hsh : 1 <= shift < 64.
Hypothesis Hrs : r = 2 ^ shift.
Hypothesis Hld : Z.of_nat ld * shift = 64.

Lemma r_ld : r ^ Z.of_nat ld = B.
Proof. rewrite Hrs, <- Z.pow_mul_r by lia. rewrite B_val. f_equal. lia. Qed.
Lemma ld_pos : (1 <= ld)%nat.
Proof. destruct ld; [cbn in Hld; lia | lia]. Qed.

Lemma fold_lor_horner : forall l acc, wfd r l -> 0 <= acc ->
  (acc + 1) * r ^ Z.of_nat (length l) <= B ->
  fold_left (fun w c => Z.lor (wshl w shift) c) l acc = fold_left (fun a c => a * r + c) l acc.
Proof.
  induction l as [|d l IH]; intros acc Hw Ha Hb; [reflexivity|].
  apply wfd_cons in Hw. destruct Hw as [Hd Hw]. cbn [fold_left length] in *. rewrite pow_S_nat in Hb.
  pose proof (pow_pos_nat r (length l) ltac:(lia)) as Hp.
  assert (Hlt : acc * r + d < B) by nia.
  assert (E : Z.lor (wshl acc shift) d = acc * r + d).
  { unfold wshl, wrap. rewrite <- Hrs. rewrite Z.mod_small by nia. rewrite Hrs. apply lor_disjoint; [lia | rewrite <- Hrs; lia]. }
  rewrite E. apply IH; [assumption | nia | nia].
Qed.

Lemma limb_of_buf buf : wfd r buf -> (length buf <= ld)%nat ->
  fold_left (fun w c => Z.lor (wshl w shift) c) (rev buf) 0 = evalb r buf /\ is_word (evalb r buf).
Proof.
  intros Hw Hl. pose proof (evalb_bounds r buf ltac:(lia) Hw) as Hb.
  assert (r ^ Z.of_nat (length buf) <= B) by (rewrite <- r_ld; apply pow_le_mono_nat; lia).
  split; [|unfold is_word; lia].
  rewrite fold_lor_horner by (try apply wfd_rev; try rewrite rev_length; try assumption; lia).
  fold (horner r (rev buf)). rewrite horner_evalb, rev_involutive. reflexivity.
Qed.

Lemma cvr_pos t : t <> [] -> forallb (okc r) t = true -> last t 0 <> 95 -> sp_char_val (last t 0) <> Some 0 ->
  1 <= cvr r t.
Proof.
  induction t as [|c t IH]; intros Hne Hok Hl95 Hl0; [contradiction|].
  cbn [forallb] in Hok. apply andb_true_iff in Hok. destruct Hok as [Hc Hok].
  rewrite cvr_cons. destruct t as [|c2 t2].
  - cbn [last] in *. unfold okc in Hc. replace (c =? 95) with false in Hc by (symmetry; apply Z.eqb_neq; assumption).
    cbn [orb] in Hc. unfold is_digit_of in Hc. destruct (sp_char_val c) as [d|] eqn:E; [|discriminate].
    pose proof (sp_char_val_nonneg c d E). cbn. assert (d <> 0) by (intros ->; contradiction). lia.
  - rewrite last_cons_ne in Hl95, Hl0 by discriminate.
    specialize (IH ltac:(discriminate) Hok Hl95 Hl0).
    destruct (sp_char_val c) as [d|] eqn:E; [|assumption]. apply sp_char_val_nonneg in E. nia.
Qed.

Theorem al_go_spec : forall rds buf out,
  rds <> [] -> last rds 0 <> 95 -> sp_char_val (last rds 0) <> Some 0 ->
  wf out -> capfit cap (length out) -> wfd r buf -> (length buf < ld)%nat ->
  let acc := eval out + Bn (length out) * evalb r buf in
  let np := Bn (length out) * r ^ Z.of_nat (length buf) in
  match al_go r shift cap ld rds buf out with
  | DOk o => forallb (okc r) rds = true /\ wf o /\ capfit cap (length o) /\ minimal o /\ eval o = acc + np * cvr r rds
  | DErr c => (c = E_InvalidDigit /\ forallb (okc r) rds = false) \/
              (c = E_InputSize /\ exists n, cap = Some n /\ (forallb (okc r) rds = true -> Bn n <= acc + np * cvr r rds))
  | DPanic => False
  end.
Proof.
  induction rds as [|c t IH]; intros buf out Hne Hlast Hnz Hw Hcap Hb Hlen acc np; [contradiction|].
  cbn [al_go forallb]. rewrite cvr_cons.
  destruct (Z.eqb_spec c 95) as [->|Hc95].
  - assert (Ht : t <> []) by (intros ->; cbn in Hlast; lia).
    rewrite last_cons_ne in Hlast, Hnz by assumption.
    rewrite sp_char_val_us. assert (Hok : okc r 95 = true) by reflexivity. rewrite !Hok. cbn [andb].
    apply IH; assumption.
  - destruct (char_digit_spec r c Hr Hc95) as [Hyes Hno].
    assert (Hok : okc r c = is_digit_of r c).
    { unfold okc. replace (c =? 95) with false by (symmetry; apply Z.eqb_neq; assumption). reflexivity. }
    rewrite !Hok.
    destruct (is_digit_of r c) eqn:Hdig; cbn [andb].
    + destruct (Hyes eq_refl) as [Hval Hrange]. set (d := char_digit r c) in *.
      destruct (Z.leb_spec r d) as [Hbad|_]; [lia|]. rewrite Hval.
      assert (Hb' : wfd r (buf ++ [d])) by (apply wfd_app; split; [assumption | apply wfd_cons; split; [lia | apply wfd_nil]]).
      assert (Hl' : length (buf ++ [d]) = S (length buf)) by (rewrite app_length; cbn [length]; lia).
      assert (Hev : evalb r (buf ++ [d]) = evalb r buf + r ^ Z.of_nat (length buf) * d).
      { rewrite evalb_app. cbn [evalb]. ring. }
      pose proof (Bn_pos (length out)) as HBp. pose proof (pow_pos_nat r (length buf) ltac:(lia)) as Hrp.
      pose proof (eval_nonneg out Hw) as Hnn.
      pose proof (evalb_bounds r buf ltac:(lia) Hb) as Hbb.
      set (fin := match t with [] => true | _ :: _ => false end).
      destruct (fin || Nat.eqb (length (buf ++ [d])) ld) eqn:Hflush.
      * destruct (limb_of_buf (buf ++ [d]) Hb' ltac:(lia)) as [Ew Hww]. rewrite Ew.
        pose proof (push_limb_spec cap out (evalb r (buf ++ [d])) Hw Hww Hcap) as Hp.
        destruct (push_limb cap out (evalb r (buf ++ [d]))) as [o'|].
        -- destruct Hp as [-> Hcf].
           assert (Hwo : wf (out ++ [evalb r (buf ++ [d])])).
           { apply wf_app; split; [assumption | apply wf_cons; split; [assumption | apply wf_nil]]. }
           assert (Hfull0 : fin = false -> length (buf ++ [d]) = ld).
           { intros Hf. rewrite Hf in Hflush. cbn [orb] in Hflush. apply Nat.eqb_eq; assumption. }
           destruct t as [|c2 t2] eqn:Et; cbn [fin] in *.
           ++ cbn [forallb last] in *. rewrite Hval in Hnz. assert (d <> 0) by (intros E0; apply Hnz; rewrite E0; reflexivity).
              split; [reflexivity|]. split; [assumption|]. split; [assumption|].
              split; [apply minimal_snoc; [assumption | rewrite Hev; nia]|].
              rewrite eval_snoc', Hev. unfold acc, np, cvr. cbn [sp_digit_vals flat_map evalb]. ring.
           ++ rewrite <- Et in *. assert (Ht : t <> []) by (rewrite Et; discriminate).
              rewrite last_cons_ne in Hlast, Hnz by assumption.
              specialize (Hfull0 eq_refl). rename Hfull0 into Hfull.
              specialize (IH [] (out ++ [evalb r (buf ++ [d])]) Ht Hlast Hnz Hwo Hcf (wfd_nil r) ltac:(cbn [length]; pose proof ld_pos; lia)).
              cbv zeta in IH. cbn [length evalb] in IH. change (Z.of_nat 0) with 0 in IH. rewrite Z.pow_0_r in IH.
              rewrite eval_snoc', app_length in IH. cbn [length] in IH. rewrite Nat.add_1_r, Bn_S in IH.
              assert (Eq : eval out + Bn (length out) * evalb r (buf ++ [d]) + Bn (length (out)) * 0 * 0 + B * Bn (length out) * 1 * cvr r t
                           = acc + np * (d + r * cvr r t)).
              { unfold acc, np. rewrite Hev. rewrite <- r_ld, <- Hfull, Hl', pow_S_nat. ring. }
              replace (eval out + Bn (length out) * evalb r (buf ++ [d]) + B * Bn (length out) * 0 + B * Bn (length out) * 1 * cvr r t)
                with (acc + np * (d + r * cvr r t)) in IH by (rewrite <- Eq; ring).
              exact IH.
        -- right. split; [reflexivity|]. exists (length out). split; [assumption|]. intros Hallok.
           pose proof (cvr_nonneg r t ltac:(lia)) as Hcn.
           assert (Hge : 1 <= d + r * cvr r t).
           { destruct t as [|c2 t2] eqn:Et.
             - cbn [last] in Hnz. rewrite Hval in Hnz. assert (d <> 0) by (intros E0; apply Hnz; rewrite E0; reflexivity).
               unfold cvr. cbn. lia.
             - rewrite <- Et in *. assert (Ht : t <> []) by (rewrite Et; discriminate).
               rewrite last_cons_ne in Hlast, Hnz by assumption.
               pose proof (cvr_pos t Ht Hallok Hlast Hnz). nia. }
           assert (H1 : 1 <= r ^ Z.of_nat (length buf) * (d + r * cvr r t)) by nia.
           assert (H2 : Bn (length out) * 1 <= Bn (length out) * (r ^ Z.of_nat (length buf) * (d + r * cvr r t))) by (apply Z.mul_le_mono_nonneg_l; lia).
           assert (H3 : 0 <= Bn (length out) * evalb r buf) by (apply Z.mul_nonneg_nonneg; lia).
           unfold acc, np. lia.
      * apply orb_false_iff in Hflush. destruct Hflush as [Hfin Hneq]. apply Nat.eqb_neq in Hneq.
        assert (Ht : t <> []) by (intros ->; cbn in Hfin; discriminate).
        rewrite last_cons_ne in Hlast, Hnz by assumption.
        specialize (IH (buf ++ [d]) out Ht Hlast Hnz Hw Hcap Hb' ltac:(lia)). cbv zeta in IH.
        rewrite Hev, Hl', pow_S_nat in IH.
        replace (eval out + Bn (length out) * (evalb r buf + r ^ Z.of_nat (length buf) * d) +
                 Bn (length out) * (r * r ^ Z.of_nat (length buf)) * cvr r t)
          with (acc + np * (d + r * cvr r t)) in IH by (unfold acc, np; ring).
        exact IH.
    + specialize (Hno eq_refl). destruct (Z.leb_spec r (char_digit r c)) as [_|Hbad]; [|lia].
      left. split; reflexivity.
Qed.

End Aligned.

(* ---- per-radix constants (finite sweep over the 35 supported radixes) ---- *)
Definition aligned_radix (r : Z) : bool := (r =? 2) || (r =? 4) || (r =? 16).
Definition radix_okb (r : Z) : bool :=
  if aligned_radix r then
    let sh := trailing_zeros r in
    (1 <=? sh) && (sh <? 64) && (r =? 2 ^ sh) && (Z.of_nat (Z.to_nat (64 / sh)) * sh =? 64)
  else (1 <=? ilog_max r)%nat && (r ^ Z.of_nat (ilog_max r) <=? MAXW).
Lemma radix_sweep : forallb radix_okb (map Z.of_nat (seq 2 35)) = true.
Proof. vm_compute. reflexivity. Qed.
Lemma radix_in_range r : 2 <= r <= 36 -> In r (map Z.of_nat (seq 2 35)).
Proof.
  intros Hr. apply in_map_iff. exists (Z.to_nat r). split; [apply Z2Nat.id; lia | apply in_seq; lia].
Qed.
Lemma radix_ok r : 2 <= r <= 36 -> radix_okb r = true.
Proof. intros Hr. pose proof radix_sweep as H. rewrite forallb_forall in H. apply H, radix_in_range, Hr. Qed.

(* ---- preprocessing ---- *)
Lemma preprocess_eq s : radix_preprocess_str s =
  match sp_body s with
  | [] => PreErr E_Empty
  | c0 :: _ => if (c0 =? 95) || (last (sp_body s) 0 =? 95) then PreErr E_InvalidDigit else PreOk (strip_lead (sp_body s))
  end.
Proof. reflexivity. Qed.

Lemma hv_strip r b : hv r 0 (strip_lead b) = hv r 0 b.
Proof.
  induction b as [|c b IH]; [reflexivity|]. cbn [strip_lead].
  destruct (Z.eqb_spec c 48) as [->|H48]; cbn [orb].
  - rewrite IH. reflexivity.
  - destruct (Z.eqb_spec c 95) as [->|H95]; [|reflexivity]. rewrite IH. reflexivity.
Qed.
Lemma okc_48 r : 1 <= r -> okc r 48 = true.
Proof. intros Hr. unfold okc, is_digit_of. cbn. apply Z.ltb_lt. lia. Qed.
Lemma allok_strip r b : 1 <= r -> forallb (okc r) (strip_lead b) = forallb (okc r) b.
Proof.
  intros Hr. induction b as [|c b IH]; [reflexivity|]. cbn [strip_lead].
  destruct (Z.eqb_spec c 48) as [->|H48]; cbn [orb].
  - cbn [forallb]. rewrite okc_48 by assumption. exact IH.
  - destruct (Z.eqb_spec c 95) as [->|H95]; [|reflexivity]. cbn [forallb]. exact IH.
Qed.
Lemma strip_props b c t : strip_lead b = c :: t -> c <> 48 /\ c <> 95 /\ last (c :: t) 0 = last b 0.
Proof.
  induction b as [|c' b IH]; intros E; [discriminate|]. cbn [strip_lead] in E.
  destruct (Z.eqb_spec c' 48) as [->|H48]; cbn [orb] in E.
  - destruct (IH E) as (H1 & H2 & H3). repeat split; try assumption. rewrite H3.
    destruct b; [discriminate | reflexivity].
  - destruct (Z.eqb_spec c' 95) as [->|H95].
    + destruct (IH E) as (H1 & H2 & H3). repeat split; try assumption. rewrite H3. destruct b; [discriminate | reflexivity].
    + inversion E; subst. repeat split; assumption.
Qed.

Lemma well_formedb_iff r s : well_formedb r s = true <->
  exists c0 b', sp_body s = c0 :: b' /\ c0 <> 95 /\ last (sp_body s) 0 <> 95 /\ forallb (okc r) (sp_body s) = true.
Proof.
  unfold well_formedb. destruct (sp_body s) as [|c0 b'] eqn:E.
  - split; [discriminate | intros (c & b & H & _); discriminate].
  - rewrite !andb_true_iff, !negb_true_iff, !Z.eqb_neq. split.
    + intros [[H1 H2] H3]. exists c0, b'. repeat split; assumption.
    + intros (c & b & H & H1 & H2 & H3). inversion H; subst. repeat split; assumption.
Qed.

Lemma forallb_rev {A} (f : A -> bool) l : forallb f (rev l) = forallb f l.
Proof.
  destruct (forallb f l) eqn:E.
  - apply forallb_forall. intros x Hx. rewrite forallb_forall in E. apply E, in_rev, Hx.
  - destruct (forallb f (rev l)) eqn:E2; [|reflexivity]. rewrite forallb_forall in E2.
    assert (forallb f l = true) by (apply forallb_forall; intros x Hx; apply E2; rewrite <- in_rev; assumption). congruence.
Qed.

(** the decoder, on every string and every supported radix *)
Theorem radix_decode_str_spec r s cap : 2 <= r <= 36 ->
  match radix_decode_str s r cap with
  | DOk o => well_formed r s /\ wf o /\ capfit cap (length o) /\ minimal o /\ eval o = value r s
  | DErr c => (c = E_Empty /\ sp_body s = []) \/
              (c = E_InvalidDigit /\ sp_body s <> [] /\ ~ well_formed r s) \/
              (c = E_InputSize /\ sp_body s <> [] /\ exists n, cap = Some n /\ (well_formed r s -> Bn n <= value r s))
  | DPanic => False
  end.
Proof.
  intros Hr. unfold radix_decode_str.
  destruct (Z.ltb_spec r 2); [lia|]. destruct (Z.ltb_spec 36 r); [lia|]. cbn [orb].
  rewrite preprocess_eq. unfold well_formed. rewrite value_hv.
  destruct (sp_body s) as [|c0 b'] eqn:Eb; [left; split; reflexivity|].
  destruct ((c0 =? 95) || (last (c0 :: b') 0 =? 95)) eqn:Ebad.
  { right; left. split; [reflexivity|]. split; [discriminate|]. intros Hwf. apply well_formedb_iff in Hwf.
    destruct Hwf as (c & b & Hq & Hq1 & Hq2 & _). rewrite Eb in *. inversion Hq; subst.
    apply orb_true_iff in Ebad. destruct Ebad as [E|E]; apply Z.eqb_eq in E; contradiction. }
  apply orb_false_iff in Ebad. destruct Ebad as [E1 E2]. apply Z.eqb_neq in E1, E2.
  assert (Hwfb : forall b, forallb (okc r) (c0 :: b') = b -> well_formedb r s = b).
  { intros b Hb. destruct b.
    - apply well_formedb_iff. exists c0, b'. rewrite Eb. repeat split; assumption.
    - destruct (well_formedb r s) eqn:Ew; [|reflexivity]. apply well_formedb_iff in Ew.
      destruct Ew as (c & bb & Hq & _ & _ & Hq3). rewrite Eb in Hq3. congruence. }
  pose proof (hv_strip r (c0 :: b')) as Hhv. pose proof (allok_strip r (c0 :: b') ltac:(lia)) as Hall.
  destruct (strip_lead (c0 :: b')) as [|c t] eqn:Es.
  - split; [apply Hwfb; rewrite <- Hall; reflexivity|]. split; [apply wf_nil|].
    split; [destruct cap; cbn; [lia | exact I]|]. split; [apply minimal_nil|]. rewrite <- Hhv. reflexivity.
  - destruct (strip_props _ _ _ Es) as (Hc48 & Hc95 & Hlast).
    pose proof (radix_ok r Hr) as Hok. unfold radix_okb in Hok. fold (aligned_radix r).
    destruct (aligned_radix r) eqn:Eal.
    + (* radix 2 / 4 / 16 *)
      cbv zeta in Hok. rewrite !andb_true_iff in Hok. destruct Hok as [[[H1 H2] H3] H4].
      apply Z.leb_le in H1. apply Z.ltb_lt in H2. apply Z.eqb_eq in H3, H4.
      assert (Hrev : rev (c :: t) <> []).
      { intros E. apply (f_equal (@length Z)) in E. rewrite rev_length in E. discriminate. }
      assert (Hl : last (rev (c :: t)) 0 = c) by (cbn [rev]; apply last_last).
      pose proof (al_go_spec r (trailing_zeros r) cap (Z.to_nat (64 / trailing_zeros r)) Hr ltac:(lia) H3 H4
                    (rev (c :: t)) [] [] Hrev ltac:(rewrite Hl; assumption)
                    ltac:(rewrite Hl; intros E; apply sp_char_val_zero in E; contradiction)
                    wf_nil ltac:(destruct cap; cbn; [lia | exact I]) (wfd_nil r)
                    ltac:(cbn [length]; pose proof (ld_pos (trailing_zeros r) (Z.to_nat (64 / trailing_zeros r)) H4); lia)) as Hsp.
      cbv zeta in Hsp. cbn [length eval evalb] in Hsp. rewrite Bn_0 in Hsp. change (Z.of_nat 0) with 0 in Hsp.
      rewrite Z.pow_0_r, forallb_rev, <- hv_cvr, Hall, Hhv in Hsp.
      destruct (al_go r (trailing_zeros r) cap (Z.to_nat (64 / trailing_zeros r)) (rev (c :: t)) [] []) as [o|code|].
      * destruct Hsp as (Ha & Hw & Hc & Hm & He). split; [apply Hwfb; assumption|]. repeat split; try assumption. lia.
      * destruct Hsp as [[-> Ha]|[-> (n & Hn & Hge)]].
        -- right; left. split; [reflexivity|]. split; [discriminate|]. rewrite (Hwfb false Ha). discriminate.
        -- right; right. split; [reflexivity|]. split; [discriminate|]. exists n. split; [assumption|].
           intros Hwf. destruct (forallb (okc r) (c0 :: b')) eqn:Ea; [specialize (Hge eq_refl); lia|].
           rewrite (Hwfb false eq_refl) in Hwf. discriminate.
      * contradiction.
    + (* generic radix *)
      rewrite andb_true_iff in Hok. destruct Hok as [H1 H2]. apply Nat.leb_le in H1. apply Z.leb_le in H2.
      pose proof (dec_go_spec r cap (ilog_max r) Hr H1 H2 (c :: t) [] [] ltac:(discriminate)
                    ltac:(rewrite Hlast; assumption) wf_nil ltac:(destruct cap; cbn; [lia | exact I])
                    minimal_nil (wfd_nil r) ltac:(cbn [length]; lia)) as Hsp.
      cbv zeta in Hsp. cbn [length eval] in Hsp. unfold horner in Hsp. cbn [fold_left] in Hsp.
      rewrite Z.mul_0_l, Z.add_0_l in Hsp. unfold allok in Hsp. rewrite Hall, Hhv in Hsp.
      destruct (dec_go r cap (ilog_max r) (wrap (r ^ Z.of_nat (ilog_max r))) (c :: t) [] []) as [o|code|].
      * destruct Hsp as (Ha & Hw & Hc & Hm & He). split; [apply Hwfb; assumption|]. repeat split; assumption.
      * destruct Hsp as [[-> Ha]|[-> (n & Hn & Hge)]].
        -- right; left. split; [reflexivity|]. split; [discriminate|]. rewrite (Hwfb false Ha). discriminate.
        -- right; right. split; [reflexivity|]. split; [discriminate|]. exists n. split; [assumption|].
           intros Hwf. destruct (forallb (okc r) (c0 :: b')) eqn:Ea; [exact (Hge eq_refl)|].
           rewrite (Hwfb false eq_refl) in Hwf. discriminate.
      * contradiction.
Qed.

Lemma radix_decode_unsupported r s cap : r < 2 \/ 36 < r -> radix_decode_str s r cap = DPanic.
Proof.
  intros Hr. unfold radix_decode_str.
  destruct (Z.ltb_spec r 2); [reflexivity|]. destruct (Z.ltb_spec 36 r); [reflexivity | lia].
Qed.
