(** C03 proofs, part 4: BoxedUint multiplication (recursive Karatsuba on the even overlap, trailing-limb
    paths, carry ripple) and squaring, for ALL pairs of lengths. *)
From CB Require Import Model.Limbs Model.AddSub Model.Mul Proofs.WordP Proofs.LimbsP Proofs.AddSubP
  Proofs.MulBaseP Proofs.MulSqP Proofs.MulKaraP.
From Coq Require Import ZArith Lia List.
Open Scope Z_scope.

(* ---------------- adc_into: add a source into a window of the buffer ---------------- *)
Lemma skipn_eq_mono {A} k k' (a b : list A) : skipn k a = skipn k b -> (k <= k')%nat -> skipn k' a = skipn k' b.
Proof.
  intros E Hk. replace k' with (k + (k' - k))%nat by lia. rewrite <- !skipn_skipn'. rewrite E. reflexivity.
Qed.

Lemma adc_into_correct out off src carry out' c k :
  wf out -> wf src -> 0 <= carry <= 4 -> (off + length src <= k)%nat -> (k <= length out)%nat ->
  adc_into out off src carry = (out', c) ->
  eval out' + Bn (off + length src) * c = eval out + Bn off * (eval src + carry) /\
  wf out' /\ length out' = length out /\ 0 <= c /\ (carry <= 1 -> c <= 1) /\ (carry <= 2 -> c <= 2) /\
  skipn k out' = skipn k out.
Proof.
  intros Ho Hs Hc Hk Hkl E. unfold adc_into in E.
  destruct (split3 out off (length src) ltac:(lia)) as (Hsp & Hl1 & Hl2).
  set (pre := firstn off out) in *. set (mid := slice out off (length src)) in *.
  set (post := skipn (off + length src) out) in *.
  clearbody pre mid post. subst out.
  apply wf_app3 in Ho. destruct Ho as (Hwp & Hwm & Hwq).
  destruct (adc_limbs mid src carry) as [r co] eqn:Ea.
  destruct (adc_h (length src) mid src carry r co Hwm Hs Hl2 eq_refl Hc Ea) as (A & W & L & P & Q1 & Q2).
  inv_pair E. subst off. rewrite splice_struct by lia.
  rewrite !eval3, L, Hl2, Bn_add.
  split; [|split; [|split; [|split; [|split; [|split]]]]]; auto.
  - assert (eval r = eval mid + eval src + carry - Bn (length src) * co) as -> by lia. ring.
  - apply wf_app3. auto.
  - rewrite !app_length. lia.
  - apply (skipn_eq_mono (length pre + length src)); [|assumption].
    rewrite !app_assoc. rewrite !skipn_exact' by (rewrite app_length; lia). reflexivity.
Qed.

(* ---------------- carry ripple ---------------- *)
Lemma ripple_correct l : forall c, wf l -> 0 <= c <= 1 ->
  exists c', 0 <= c' <= 1 /\ eval (ripple l c) + Bn (length l) * c' = eval l + c /\
    wf (ripple l c) /\ length (ripple l c) = length l.
Proof.
  induction l as [|wd l IH]; intros c Hl Hc.
  - exists c. cbn [ripple eval length]. rewrite Bn_0. split; [assumption|]. split; [lia|]. split; [apply wf_nil | reflexivity].
  - apply wf_cons in Hl. destruct Hl as [Hwd Hl]. cbn [ripple].
    destruct (adc wd 0 c) as [v c1] eqn:Ea.
    pose proof (adc_exact _ _ _ _ _ Hwd is_word_0 (is_word_01 _ Hc) Ea) as (Hv & Hvw & _).
    pose proof (adc_carry_small _ _ _ _ _ Hwd is_word_0 Hc Ea) as Hc1.
    destruct (IH c1 Hl Hc1) as (c' & Hc' & He & Hw & Hlen).
    exists c'. cbn [eval length]. rewrite Bn_S, Hlen.
    split; [assumption|]. split; [|split; [apply wf_cons; split; assumption | reflexivity]].
    assert (eval (ripple l c1) = eval l + c1 - Bn (length l) * c') as -> by lia.
    assert (v = wd + 0 + c - B * c1) as -> by lia. ring.
Qed.

(* ---------------- the six accumulating additions of the boxed recombination ---------------- *)
Lemma Bn_4 h : Bn (4 * h) = Bn h * Bn h * Bn h * Bn h.
Proof. replace (4 * h)%nat with (h + h + h + h)%nat by lia. rewrite !Bn_add. reflexivity. Qed.

Lemma recomb6_correct out z0 z2 half size cin o1 c1 o2 c2 o3 c3 o4 c4 o5 c5 o6 c6 :
  wf out -> wf z0 -> wf z2 -> size = (2 * half)%nat -> length z0 = size -> length z2 = size ->
  (4 * half <= length out)%nat -> 0 <= cin <= 1 ->
  adc_into out 0 z0 cin = (o1, c1) ->
  adc_into o1 half (firstn half z0) 0 = (o2, c2) ->
  adc_into o2 size (skipn half z0) (wadd c1 c2) = (o3, c3) ->
  adc_into o3 half z2 0 = (o4, c4) ->
  adc_into o4 size (firstn half z2) 0 = (o5, c5) ->
  adc_into o5 (size + half) (skipn half z2) (wadd (wadd c3 c4) c5) = (o6, c6) ->
  wf o6 /\ length o6 = length out /\ skipn (4 * half) o6 = skipn (4 * half) out /\ 0 <= c6 /\
  eval o6 + Bn half * Bn half * Bn half * Bn half * c6 =
    eval out + cin + eval z0 * (1 + Bn half) + eval z2 * (Bn half + Bn half * Bn half).
Proof.
  intros Ho Hz0 Hz2 Hsz Hl0 Hl2 Hlen Hcin E1 E2 E3 E4 E5 E6. pose proof B_gt4 as HB4.
  assert (Hw0l : wf (firstn half z0)) by (apply wf_firstn; assumption).
  assert (Hw0h : wf (skipn half z0)) by (apply wf_skipn; assumption).
  assert (Hw2l : wf (firstn half z2)) by (apply wf_firstn; assumption).
  assert (Hw2h : wf (skipn half z2)) by (apply wf_skipn; assumption).
  assert (Hl0l : length (firstn half z0) = half) by (apply firstn_length_le; lia).
  assert (Hl0h : length (skipn half z0) = half) by (rewrite skipn_length; lia).
  assert (Hl2l : length (firstn half z2) = half) by (apply firstn_length_le; lia).
  assert (Hl2h : length (skipn half z2) = half) by (rewrite skipn_length; lia).
  pose proof (eval_firstn_skipn half z0) as Hs0. rewrite Hl0l in Hs0.
  pose proof (eval_firstn_skipn half z2) as Hs2. rewrite Hl2l in Hs2.
  destruct (adc_into_correct out 0 z0 cin o1 c1 (4 * half) Ho Hz0 ltac:(lia) ltac:(lia) Hlen E1)
    as (A1 & W1 & L1 & P1 & Q1 & _ & S1).
  destruct (adc_into_correct o1 half _ 0 o2 c2 (4 * half) W1 Hw0l ltac:(lia) ltac:(lia) ltac:(lia) E2)
    as (A2 & W2 & L2 & P2 & Q2 & _ & S2).
  rewrite (wadd_small c1 c2) in E3 by lia.
  destruct (adc_into_correct o2 size _ (c1 + c2) o3 c3 (4 * half) W2 Hw0h ltac:(lia) ltac:(lia) ltac:(lia) E3)
    as (A3 & W3 & L3 & P3 & _ & Q3 & S3).
  destruct (adc_into_correct o3 half z2 0 o4 c4 (4 * half) W3 Hz2 ltac:(lia) ltac:(lia) ltac:(lia) E4)
    as (A4 & W4 & L4 & P4 & Q4 & _ & S4).
  destruct (adc_into_correct o4 size _ 0 o5 c5 (4 * half) W4 Hw2l ltac:(lia) ltac:(lia) ltac:(lia) E5)
    as (A5 & W5 & L5 & P5 & Q5 & _ & S5).
  rewrite (wadd_small c3 c4) in E6 by lia. rewrite (wadd_small (c3 + c4) c5) in E6 by lia.
  destruct (adc_into_correct o5 (size + half) _ (c3 + c4 + c5) o6 c6 (4 * half) W5 Hw2h ltac:(lia) ltac:(lia) ltac:(lia) E6)
    as (A6 & W6 & L6 & P6 & _ & _ & S6).
  split; [assumption|]. split; [lia|]. split; [congruence|]. split; [assumption|].
  rewrite Hl0 in A1. rewrite Hl0l in A2. rewrite Hl0h in A3. rewrite Hl2 in A4. rewrite Hl2l in A5. rewrite Hl2h in A6.
  subst size.
  replace (0 + 2 * half)%nat with (half + half)%nat in A1 by lia.
  replace (2 * half + half)%nat with (half + half + half)%nat in A3, A5, A6 by lia.
  replace (half + 2 * half)%nat with (half + half + half)%nat in A4 by lia.
  replace (2 * half)%nat with (half + half)%nat in A3, A5 by lia.
  replace (half + half + half + half)%nat with (half + half + (half + half))%nat in A6 by lia.
  rewrite ?Bn_add, ?Bn_0 in *.
  set (H := Bn half) in *. rewrite Hs0, Hs2.
  assert (eval o6 = eval o5 + H * H * H * (eval (skipn half z2) + (c3 + c4 + c5)) - H * H * (H * H) * c6) as -> by lia.
  assert (eval o5 = eval o4 + H * H * (eval (firstn half z2) + 0) - H * H * H * c5) as -> by lia.
  assert (eval o4 = eval o3 + H * (eval (firstn half z2) + H * eval (skipn half z2) + 0) - H * H * H * c4) as ->
    by (rewrite Hs2 in A4; lia).
  assert (eval o3 = eval o2 + H * H * (eval (skipn half z0) + (c1 + c2)) - H * H * H * c3) as -> by lia.
  assert (eval o2 = eval o1 + H * (eval (firstn half z0) + 0) - H * H * c2) as -> by lia.
  assert (eval o1 = eval out + 1 * (eval (firstn half z0) + H * eval (skipn half z0) + cin) - H * H * c1) as ->
    by (rewrite Hs0 in A1; lia).
  ring.
Qed.

(* ---------------- adc_mul_limbs into a cleared buffer is the product ---------------- *)
Lemma adc_mul_zero xs ys : wf xs -> wf ys ->
  eval (fst (adc_mul_limbs xs ys (zeros (length xs + length ys)))) = eval xs * eval ys /\
  wf (fst (adc_mul_limbs xs ys (zeros (length xs + length ys)))) /\
  length (fst (adc_mul_limbs xs ys (zeros (length xs + length ys)))) = (length xs + length ys)%nat.
Proof.
  intros Hx Hy. destruct (adc_mul_limbs xs ys (zeros (length xs + length ys))) as [o c] eqn:E. cbn [fst].
  destruct (adc_mul_limbs_correct xs ys _ o c Hx Hy (wf_zeros _) (length_zeros _) E) as (A & W & L & C).
  rewrite length_zeros in *. rewrite eval_zeros, Bn_add in A.
  pose proof (eval_bounds o W) as Bo. rewrite L, Bn_add in Bo.
  pose proof (prod_lt _ _ _ _ (eval_bounds xs Hx) (eval_bounds ys Hy)) as Hp.
  split; [|split; assumption].
  assert (c = 0 \/ c = 1) as [-> | ->] by lia; lia.
Qed.

(* ---------------- the trailing-limb paths ---------------- *)
Definition kb_xt (out : list Z) (size : nat) (xt rhs : list Z) : list Z :=
  match xt with
  | [] => out
  | _ => splice out size (fst (adc_mul_limbs xt rhs (skipn size out)))
  end.
Definition kb_yt (out : list Z) (size : nat) (yt x : list Z) : list Z :=
  match yt with
  | [] => out
  | _ => let end_pos := (2 * size + length yt)%nat in
         let '(seg, c) := adc_mul_limbs yt x (slice out size (end_pos - size)) in
         let out := splice out size seg in
         firstn end_pos out ++ ripple (skipn end_pos out) c
  end.

Lemma kb_xt_correct out size xt rhs : wf out -> wf xt -> wf rhs ->
  length out = (size + (length xt + length rhs))%nat ->
  exists c, 0 <= c <= 1 /\
    eval (kb_xt out size xt rhs) + Bn (length out) * c = eval out + Bn size * (eval xt * eval rhs) /\
    wf (kb_xt out size xt rhs) /\ length (kb_xt out size xt rhs) = length out.
Proof.
  intros Ho Hxt Hr Hl. destruct xt as [|t xt'] eqn:Ext.
  - exists 0. cbn [kb_xt eval]. split; [lia|]. split; [ring|]. auto.
  - rewrite <- Ext in *. assert (Hk : kb_xt out size xt rhs = splice out size (fst (adc_mul_limbs xt rhs (skipn size out))))
      by (rewrite Ext; reflexivity).
    rewrite Hk. clear Hk Ext t xt'.
    pose proof (firstn_skipn size out) as Hsp.
    assert (Hl1 : length (firstn size out) = size) by (apply firstn_length_le; lia).
    assert (Hl2 : length (skipn size out) = (length xt + length rhs)%nat) by (rewrite skipn_length; lia).
    set (lo := firstn size out) in *. set (hi := skipn size out) in *. clearbody lo hi. subst out.
    apply wf_app in Ho. destruct Ho as [Hwl Hwh].
    destruct (adc_mul_limbs xt rhs hi) as [seg c] eqn:E. cbn [fst].
    destruct (adc_mul_limbs_correct xt rhs hi seg c Hxt Hr Hwh Hl2 E) as (A & W & L & C).
    exists c. split; [assumption|].
    assert (Hspl : splice (lo ++ hi) size seg = lo ++ seg).
    { replace (lo ++ hi) with (lo ++ hi ++ []) by (rewrite app_nil_r; reflexivity).
      rewrite <- Hl1. rewrite splice_struct by assumption. rewrite app_nil_r. reflexivity. }
    rewrite !Hspl.
    rewrite !eval_app, !app_length, Hl1, L, Bn_add.
    split; [|split; [apply wf_app; auto | reflexivity]].
    assert (eval seg = eval hi + eval xt * eval rhs - Bn (length hi) * c) as -> by lia. ring.
Qed.

Lemma kb_yt_correct out size yt x : wf out -> wf yt -> wf x -> length x = size ->
  (2 * size + length yt <= length out)%nat ->
  exists c, 0 <= c <= 1 /\
    eval (kb_yt out size yt x) + Bn (length out) * c = eval out + Bn size * (eval yt * eval x) /\
    wf (kb_yt out size yt x) /\ length (kb_yt out size yt x) = length out.
Proof.
  intros Ho Hyt Hx Hlx Hl. destruct yt as [|t yt'] eqn:Eyt.
  - exists 0. cbn [kb_yt eval]. split; [lia|]. split; [ring|]. auto.
  - rewrite <- Eyt in *.
    assert (Hk : kb_yt out size yt x =
      let end_pos := (2 * size + length yt)%nat in
      let '(seg, c) := adc_mul_limbs yt x (slice out size (end_pos - size)) in
      let out := splice out size seg in
      firstn end_pos out ++ ripple (skipn end_pos out) c) by (rewrite Eyt; reflexivity).
    rewrite Hk. clear Hk Eyt t yt'. cbv zeta.
    replace (2 * size + length yt - size)%nat with (size + length yt)%nat by lia.
    destruct (split3 out size (size + length yt) ltac:(lia)) as (Hsp & Hl1 & Hl2).
    set (A := firstn size out) in *. set (Mid := slice out size (size + length yt)) in *.
    set (Zs := skipn (size + (size + length yt)) out) in *. clearbody A Mid Zs. subst out.
    apply wf_app3 in Ho. destruct Ho as (HwA & HwM & HwZ).
    destruct (adc_mul_limbs yt x Mid) as [seg c] eqn:E.
    destruct (adc_mul_limbs_correct yt x Mid seg c Hyt Hx HwM ltac:(lia) E) as (A1 & W & L & C).
    assert (Hspl : splice (A ++ Mid ++ Zs) size seg = A ++ seg ++ Zs)
      by (rewrite <- Hl1; apply splice_struct; assumption).
    rewrite !Hspl.
    assert (Hf : firstn (2 * size + length yt) (A ++ seg ++ Zs) = A ++ seg).
    { rewrite app_assoc. apply firstn_exact'. rewrite app_length. lia. }
    assert (Hs : skipn (2 * size + length yt) (A ++ seg ++ Zs) = Zs).
    { rewrite app_assoc. apply skipn_exact'. rewrite app_length. lia. }
    rewrite Hf, Hs.
    destruct (ripple_correct Zs c HwZ C) as (c' & C' & R & WR & LR).
    exists c'. split; [assumption|].
    rewrite !eval_app, !app_length, Hl1, L, Hl2, LR, !Bn_add.
    split; [|split; [rewrite <- app_assoc; apply wf_app3; auto | lia]].
    rewrite Hl2 in A1. rewrite Bn_add in A1.
    assert (eval seg = eval Mid + eval yt * eval x - Bn size * Bn (length yt) * c) as -> by lia.
    assert (eval (ripple Zs c) = eval Zs + c - Bn (length Zs) * c') as -> by lia. ring.
Qed.

(* ---------------- conditional two's-complement negation of the buffer ---------------- *)
Lemma cond_neg_sel l c : cond_neg l c = sel_limbs c l (uint_wrapping_neg l).
Proof. reflexivity. Qed.

Lemma cond_neg_correct W s : wf W ->
  exists co, 0 <= co <= 1 /\ wf (cond_neg W s) /\ length (cond_neg W s) = length W /\
    eval (cond_neg W s) = if s then Bn (length W) - eval W - Bn (length W) * co else eval W.
Proof.
  intros Hw. destruct s; cbn [cond_neg].
  - destruct (neg_limbs W 1) as [r co] eqn:E. cbn [fst].
    destruct (neg_limbs_correct W 1 r co Hw ltac:(lia) E) as (A & C & D & F).
    exists co. repeat split; auto; lia.
  - exists 0. repeat split; auto; lia.
Qed.

(** the cleared buffer with z1 written at offset half, seen as 4 half-blocks and a tail *)
Lemma init_buf L half size z1 : length z1 = size -> size = (2 * half)%nat -> (4 * half <= L)%nat ->
  splice (zeros L) half z1 = (zeros half ++ z1 ++ zeros half) ++ zeros (L - 4 * half).
Proof.
  intros Hz Hs HL.
  replace L with (half + (size + (half + (L - 4 * half))))%nat at 1 by lia.
  rewrite !zeros_app. rewrite <- (length_zeros half) at 4.
  rewrite splice_struct by (rewrite length_zeros; assumption).
  rewrite <- !app_assoc. reflexivity.
Qed.

Lemma splice_0_prefix (P Q N : list Z) : length N = length P -> splice (P ++ Q) 0 N = N ++ Q.
Proof.
  intros H. change (P ++ Q) with ([] ++ P ++ Q). change 0%nat with (length (@nil Z)).
  rewrite splice_struct by assumption. reflexivity.
Qed.

(* ---------------- kara_boxed ---------------- *)
Lemma kara_boxed_S f lhs rhs : kara_boxed (S f) lhs rhs =
  let n := length lhs in let m := length rhs in
  let overlap := Nat.min n m in
  let size := if Nat.odd overlap then (overlap - 1)%nat else overlap in
  if (size <=? 24)%nat then fst (adc_mul_limbs lhs rhs (zeros (n + m))) else
  let half := Nat.div2 size in
  let '(x, xt) := split_at size lhs in
  let '(y, yt) := split_at size rhs in
  let '(x0, x1) := split_at half x in
  let '(y0, y1) := split_at half y in
  let out := zeros (n + m) in
  let '(s0, b0) := sbb_limbs x0 x1 0 in
  let '(s1, b1) := sbb_limbs y1 y0 0 in
  let s0 := cond_neg s0 (is_mask b0) in
  let s1 := cond_neg s1 (is_mask b1) in
  let out := splice out half (kara_boxed f s0 s1) in
  let z1_neg := xorb (is_mask b0) (is_mask b1) in
  let out := splice out 0 (cond_neg (firstn (2 * size) out) z1_neg) in
  let z0 := kara_boxed f x0 y0 in
  let '(out, carry) := adc_into out 0 z0 0 in
  let '(out, carry2) := adc_into out half (firstn half z0) 0 in
  let carry := wadd carry carry2 in
  let '(out, carry) := adc_into out size (skipn half z0) carry in
  let z2 := kara_boxed f x1 y1 in
  let '(out, carry2) := adc_into out half z2 0 in
  let carry := wadd carry carry2 in
  let '(out, carry2) := adc_into out size (firstn half z2) 0 in
  let carry := wadd carry carry2 in
  let '(out, carry) := adc_into out (size + half) (skipn half z2) carry in
  kb_yt (kb_xt out size xt rhs) size yt x.
Proof. reflexivity. Qed.

Lemma even_size overlap :
  let size := if Nat.odd overlap then (overlap - 1)%nat else overlap in
  size = (2 * Nat.div2 size)%nat /\ (size <= overlap)%nat.
Proof.
  cbv zeta. pose proof (Nat.div2_odd overlap) as H. destruct (Nat.odd overlap); cbn [Nat.b2n] in H.
  - replace (overlap - 1)%nat with (2 * Nat.div2 overlap)%nat by lia. rewrite div2_double. lia.
  - rewrite Nat.add_0_r in H. rewrite <- H. lia.
Qed.

(** GOAL 7 *)
Theorem kara_boxed_correct f : forall lhs rhs, wf lhs -> wf rhs ->
  eval (kara_boxed f lhs rhs) = eval lhs * eval rhs /\ wf (kara_boxed f lhs rhs) /\
  length (kara_boxed f lhs rhs) = (length lhs + length rhs)%nat.
Proof.
  induction f as [|f IH]; intros lhs rhs Hl Hr.
  - cbn [kara_boxed]. apply adc_mul_zero; assumption.
  - rewrite kara_boxed_S. cbv zeta.
    set (n := length lhs). set (m := length rhs).
    destruct (even_size (Nat.min n m)) as [Hsz Hle]. cbv zeta in Hsz, Hle.
    set (size := if Nat.odd (Nat.min n m) then (Nat.min n m - 1)%nat else Nat.min n m) in *.
    destruct (size <=? 24)%nat; [apply adc_mul_zero; assumption|].
    set (half := Nat.div2 size) in *. clearbody half. clearbody size.
    destruct (split_at size lhs) as [x xt] eqn:Ex. destruct (split_at size rhs) as [y yt] eqn:Ey.
    destruct (split_at_eval size lhs x xt Hl ltac:(fold n; lia) Ex) as (Hle' & Hx & Hxt & Hlx & Hlxt).
    destruct (split_at_eval size rhs y yt Hr ltac:(fold m; lia) Ey) as (Hre & Hy & Hyt & Hly & Hlyt).
    fold n in Hlxt. fold m in Hlyt.
    destruct (split_at half x) as [x0 x1] eqn:Ex0. destruct (split_at half y) as [y0 y1] eqn:Ey0.
    destruct (split_halves half x x0 x1 Hx ltac:(lia) Ex0) as (Hxe & Hx0 & Hx1 & Hlx0 & Hlx1).
    destruct (split_halves half y y0 y1 Hy ltac:(lia) Ey0) as (Hye & Hy0 & Hy1 & Hly0 & Hly1).
    destruct (sbb_limbs x0 x1 0) as [s0 b0] eqn:Es0. destruct (sbb_limbs y1 y0 0) as [s1 b1] eqn:Es1.
    rewrite !cond_neg_sel with (l := s0). rewrite !cond_neg_sel with (l := s1).
    destruct (abs_diff x0 x1 s0 b0 Hx0 Hx1 ltac:(lia) Es0) as (Hwa0 & Hla0 & Hea0).
    destruct (abs_diff y1 y0 s1 b1 Hy1 Hy0 ltac:(lia) Es1) as (Hwa1 & Hla1 & Hea1).
    set (a0 := sel_limbs (is_mask b0) s0 (uint_wrapping_neg s0)) in *.
    set (a1 := sel_limbs (is_mask b1) s1 (uint_wrapping_neg s1)) in *.
    set (s := xorb (is_mask b0) (is_mask b1)) in *.
    destruct (IH a0 a1 Hwa0 Hwa1) as (Hz1 & Hwz1 & Hlz1).
    destruct (IH x0 y0 Hx0 Hy0) as (Hz0 & Hwz0 & Hlz0).
    destruct (IH x1 y1 Hx1 Hy1) as (Hz2 & Hwz2 & Hlz2).
    set (z1 := kara_boxed f a0 a1) in *. set (z0 := kara_boxed f x0 y0) in *. set (z2 := kara_boxed f x1 y1) in *.
    clearbody z1 z0 z2.
    (* the buffer after writing and conditionally negating z1 *)
    rewrite (init_buf (n + m) half size z1) by lia.
    set (T := (n + m - 4 * half)%nat).
    set (W := zeros half ++ z1 ++ zeros half).
    assert (HwW : wf W) by (apply wf_app3; auto using wf_zeros).
    assert (HlW : length W = (4 * half)%nat) by (unfold W; rewrite !app_length, !length_zeros; lia).
    assert (HeW : eval W = Bn half * eval z1).
    { unfold W. rewrite eval3, !eval_zeros, length_zeros. ring. }
    rewrite (firstn_exact' (2 * size) W (zeros T)) by lia.
    destruct (cond_neg_correct W s HwW) as (co & Hco & HwN & HlN & HeN).
    set (N := cond_neg W s) in *. clearbody N.
    rewrite splice_0_prefix by assumption.
    assert (Hw0 : wf (N ++ zeros T)) by (apply wf_app; auto using wf_zeros).
    assert (Hl0 : length (N ++ zeros T) = (n + m)%nat) by (rewrite app_length, length_zeros; unfold T; lia).
    assert (He0 : eval (N ++ zeros T) = eval N) by (rewrite eval_app, eval_zeros; ring).
    assert (Hs0 : skipn (4 * half) (N ++ zeros T) = zeros T) by (apply skipn_exact'; lia).
    set (out0 := N ++ zeros T) in *. clearbody out0.
    destruct (adc_into out0 0 z0 0) as [o1 c1] eqn:E1.
    destruct (adc_into o1 half (firstn half z0) 0) as [o2 c2] eqn:E2.
    destruct (adc_into o2 size (skipn half z0) (wadd c1 c2)) as [o3 c3] eqn:E3.
    destruct (adc_into o3 half z2 0) as [o4 c4] eqn:E4.
    destruct (adc_into o4 size (firstn half z2) 0) as [o5 c5] eqn:E5.
    destruct (adc_into o5 (size + half) (skipn half z2) (wadd (wadd c3 c4) c5)) as [o6 c6] eqn:E6.
    destruct (recomb6_correct out0 z0 z2 half size 0 o1 c1 o2 c2 o3 c3 o4 c4 o5 c5 o6 c6
                Hw0 Hwz0 Hwz2 Hsz ltac:(lia) ltac:(lia) ltac:(lia) ltac:(lia) E1 E2 E3 E4 E5 E6)
      as (W6 & L6 & S6 & P6 & A6).
    (* the Karatsuba phase leaves exactly x * y in the buffer *)
    assert (Hxy : eval o6 = eval x * eval y).
    { pose proof (eval_firstn_skipn (4 * half) o6) as Hfs. rewrite S6, Hs0, eval_zeros in Hfs.
      pose proof (eval_bounds _ (wf_firstn (4 * half) o6 W6)) as Hb.
      rewrite firstn_length_le in Hb by lia. rewrite Bn_4 in Hb.
      rewrite HlW, Bn_4 in HeN.
      pose proof (eval_bounds _ Hx) as Hbx. pose proof (eval_bounds _ Hy) as Hby.
      rewrite Hlx, Hsz, Bn_double in Hbx. rewrite Hly, Hsz, Bn_double in Hby.
      pose proof (prod_lt _ _ _ _ Hbx Hby) as Hprod.
      set (H := Bn half) in *.
      assert (Hmid : (eval x0 - eval x1) * (eval y1 - eval y0) = if s then - (eval a0 * eval a1) else eval a0 * eval a1).
      { rewrite Hea0, Hea1. unfold s. destruct (is_mask b0), (is_mask b1); cbn [xorb]; ring. }
      rewrite He0, HeN, HeW, Hz0, Hz2, Hz1 in A6.
      assert (Hprod' : eval x * eval y = eval x0 * eval y0
                + H * (eval x0 * eval y0 + eval x1 * eval y1 + (eval x0 - eval x1) * (eval y1 - eval y0))
                + H * H * (eval x1 * eval y1)) by (rewrite Hxe, Hye; ring).
      destruct s.
      - assert (Hu : c6 + co = 1 /\ eval o6 = eval x * eval y).
        { apply (divmod_uniq (H * H * H * H)); [lia | replace (H * H * H * H) with (H * H * (H * H)) by ring; lia|].
          apply Z.add_move_r in A6. rewrite A6, Hprod', Hmid. ring. }
        tauto.
      - assert (Hu : c6 = 0 /\ eval o6 = eval x * eval y).
        { apply (divmod_uniq (H * H * H * H)); [lia | replace (H * H * H * H) with (H * H * (H * H)) by ring; lia|].
          apply Z.add_move_r in A6. rewrite A6, Hprod', Hmid. ring. }
        tauto. }
    (* trailing limbs *)
    destruct (kb_xt_correct o6 size xt rhs W6 Hxt Hr ltac:(fold m; lia)) as (c7 & Hc7 & A7 & W7 & L7).
    set (o7 := kb_xt o6 size xt rhs) in *. clearbody o7.
    destruct (kb_yt_correct o7 size yt x W7 Hyt Hx Hlx ltac:(lia)) as (c8 & Hc8 & A8 & W8 & L8).
    set (o8 := kb_yt o7 size yt x) in *. clearbody o8.
    split; [|split; [assumption | lia]].
    rewrite L7, L6, Hl0 in *. 
    pose proof (eval_bounds _ W8) as Hb8. rewrite L8, Bn_add in Hb8. rewrite Bn_add in A7, A8.
    pose proof (prod_lt _ _ _ _ (eval_bounds _ Hl) (eval_bounds _ Hr)) as Hp. fold n m in Hp.
    assert (Hu : c7 + c8 = 0 /\ eval o8 = eval lhs * eval rhs).
    { apply (divmod_uniq (Bn n * Bn m)); [lia | lia|].
      rewrite <- Hre in A7. rewrite <- Hle', <- Hre.
      assert (eval o8 = eval o7 + Bn size * (eval yt * eval x) - Bn n * Bn m * c8) as -> by lia.
      assert (eval o7 = eval o6 + Bn size * (eval xt * (eval y + Bn size * eval yt)) - Bn n * Bn m * c7) as -> by lia.
      rewrite Hxy. ring. }
    tauto.
Qed.

Theorem boxed_mul_correct x y : wf x -> wf y ->
  eval (boxed_mul x y) = eval x * eval y /\ wf (boxed_mul x y) /\
  length (boxed_mul x y) = (length x + length y)%nat.
Proof.
  intros Hx Hy. unfold boxed_mul. destruct (32 <=? Nat.min (length x) (length y))%nat.
  - apply kara_boxed_correct; assumption.
  - apply schoolbook_mul_correct; assumption.
Qed.

(* ---------------- kara_sq_boxed ---------------- *)
Theorem kara_sq_boxed_correct f : forall x, wf x ->
  eval (kara_sq_boxed f x) = eval x * eval x /\ wf (kara_sq_boxed f x) /\
  length (kara_sq_boxed f x) = (2 * length x)%nat.
Proof.
  induction f as [|f IH]; intros x Hx.
  - cbn [kara_sq_boxed]. apply schoolbook_sq_correct; assumption.
  - cbn [kara_sq_boxed].
    destruct ((length x <=? 48)%nat || Nat.odd (length x)) eqn:Eb; [apply schoolbook_sq_correct; assumption|].
    apply orb_false_iff in Eb. destruct Eb as [_ Hodd].
    pose proof (Nat.div2_odd (length x)) as Hsz. rewrite Hodd in Hsz. cbn [Nat.b2n] in Hsz. rewrite Nat.add_0_r in Hsz.
    set (size := length x) in *. set (half := Nat.div2 size) in *. clearbody half.
    destruct (split_at half x) as [x0 x1] eqn:Ex0.
    destruct (split_halves half x x0 x1 Hx Hsz Ex0) as (Hxe & Hx0 & Hx1 & Hlx0 & Hlx1).
    destruct (sbb_limbs x0 x1 0) as [s0 b0] eqn:Es0.
    rewrite !cond_neg_sel.
    destruct (abs_diff x0 x1 s0 b0 Hx0 Hx1 ltac:(lia) Es0) as (Hwa0 & Hla0 & Hea0).
    set (a0 := sel_limbs (is_mask b0) s0 (uint_wrapping_neg s0)) in *.
    destruct (IH a0 Hwa0) as (Hz1 & Hwz1 & Hlz1).
    destruct (IH x0 Hx0) as (Hz0 & Hwz0 & Hlz0).
    destruct (IH x1 Hx1) as (Hz2 & Hwz2 & Hlz2).
    set (z1 := kara_sq_boxed f a0) in *. set (z0 := kara_sq_boxed f x0) in *. set (z2 := kara_sq_boxed f x1) in *.
    clearbody z1 z0 z2.
    rewrite (init_buf (2 * size) half size z1) by lia.
    replace (2 * size - 4 * half)%nat with 0%nat by lia. cbn [zeros repeat]. rewrite app_nil_r.
    set (W := zeros half ++ z1 ++ zeros half).
    assert (HwW : wf W) by (apply wf_app3; auto using wf_zeros).
    assert (HlW : length W = (4 * half)%nat) by (unfold W; rewrite !app_length, !length_zeros; lia).
    assert (HeW : eval W = Bn half * eval z1).
    { unfold W. rewrite eval3, !eval_zeros, length_zeros. ring. }
    destruct (lnot_limbs_correct W HwW) as (HeN & HwN & HlN).
    set (out0 := lnot_limbs W) in *. clearbody out0. clearbody W.
    destruct (adc_into out0 0 z0 1) as [o1 c1] eqn:E1.
    destruct (adc_into o1 half (firstn half z0) 0) as [o2 c2] eqn:E2.
    destruct (adc_into o2 size (skipn half z0) (wadd c1 c2)) as [o3 c3] eqn:E3.
    destruct (adc_into o3 half z2 0) as [o4 c4] eqn:E4.
    destruct (adc_into o4 size (firstn half z2) 0) as [o5 c5] eqn:E5.
    destruct (adc_into o5 (size + half) (skipn half z2) (wadd (wadd c3 c4) c5)) as [o6 c6] eqn:E6.
    destruct (recomb6_correct out0 z0 z2 half size 1 o1 c1 o2 c2 o3 c3 o4 c4 o5 c5 o6 c6
                HwN Hwz0 Hwz2 Hsz ltac:(lia) ltac:(lia) ltac:(lia) ltac:(lia) E1 E2 E3 E4 E5 E6)
      as (W6 & L6 & S6 & P6 & A6).
    split; [|split; [assumption | lia]].
    pose proof (eval_bounds _ W6) as Hb. rewrite L6, HlN, HlW, Bn_4 in Hb.
    rewrite HlW, Bn_4 in HeN.
    pose proof (eval_bounds _ Hx) as Hbx. fold size in Hbx. rewrite Hsz, Bn_double in Hbx.
    pose proof (prod_lt _ _ _ _ Hbx Hbx) as Hprod.
    set (H := Bn half) in *.
    assert (Hsq : eval a0 * eval a0 = (eval x0 - eval x1) * (eval x0 - eval x1)).
    { rewrite Hea0. destruct (is_mask b0); ring. }
    rewrite HeN, HeW, Hz0, Hz2, Hz1, Hsq in A6.
    assert (Hu : c6 = 1 /\ eval o6 = eval x * eval x).
    { apply (divmod_uniq (H * H * H * H)); [lia | replace (H * H * H * H) with (H * H * (H * H)) by ring; lia|].
      apply Z.add_move_r in A6. rewrite A6, Hxe. ring. }
    tauto.
Qed.

Theorem boxed_square_correct x : wf x ->
  eval (boxed_square x) = eval x * eval x /\ wf (boxed_square x) /\
  length (boxed_square x) = (2 * length x)%nat.
Proof.
  intros Hx. unfold boxed_square. destruct (64 <=? length x)%nat.
  - apply kara_sq_boxed_correct; assumption.
  - apply schoolbook_sq_correct; assumption.
Qed.
