(** C10 proofs, part 10: Uint::gcd / BoxedUint::gcd (common power of two, odd operand selection, zeros),
    Gcd::gcd_vartime, and Uint::inv_mod / BoxedUint::inv_mod for arbitrary moduli (CRT over s 2^k). *)
From CB Require Import Model.Limbs Model.AddSub Model.SafeGcd Proofs.WordP Proofs.LimbsP Proofs.BitsP
  Proofs.SafeGcdArithP Proofs.SafeGcdJumpP Proofs.SafeGcdUnsatP Proofs.SafeGcdStepP Proofs.SafeGcdDivstepsP
  Proofs.SafeGcdCoreP Proofs.InvMod2kP Proofs.LimbConvertP Proofs.SafeGcdInvP Proofs.SafeGcdConvP.
From Coq Require Import ZArith Lia List Bool Znumtheory Zdiv Setoid Morphisms.
Open Scope Z_scope.

(* ---- trailing zeros and shifts at value level ---- *)
Lemma bitsn_Bn n : Bn n = 2 ^ bitsn n. Proof. unfold bitsn. apply Bn_pow2. Qed.
Lemma vtz_spec n v : 0 < v < Bn n ->
  0 <= vtz n v < bitsn n /\ v = 2 ^ vtz n v * (v / 2 ^ vtz n v) /\ Z.odd (v / 2 ^ vtz n v) = true.
Proof.
  intros Hv. unfold vtz. destruct (Z.eqb_spec v 0); [lia|].
  assert (HN : 0 <= bitsn n) by (unfold bitsn; lia).
  pose proof (ctz_upto_range (Z.to_nat (bitsn n)) v) as R. rewrite Z2Nat.id in R by assumption.
  pose proof (ctz_upto_divide (Z.to_nat (bitsn n)) v) as D.
  set (c := ctz_upto (Z.to_nat (bitsn n)) v) in *.
  assert (Hc : c < bitsn n).
  { destruct (Z.eq_dec c (bitsn n)) as [E|E]; [|lia]. exfalso.
    rewrite E, <- bitsn_Bn in D. rewrite (Z.div_small v (Bn n)) in D by lia. lia. }
  split; [lia|]. split; [assumption|].
  apply ctz_upto_odd. rewrite Z2Nat.id by assumption. assumption.
Qed.
Lemma vtz_zero n : vtz n 0 = bitsn n. Proof. reflexivity. Qed.

Lemma gcd_lt_bound x y M : 0 <= x < M -> 0 <= y < M -> 0 <= Z.gcd x y < M.
Proof.
  intros Hx Hy. split; [apply Z.gcd_nonneg|].
  destruct (Z.eq_dec y 0) as [->|Hy0]; [rewrite Z.gcd_0_r, Z.abs_eq; lia|].
  pose proof (Z.gcd_divide_r x y) as D. apply Z.divide_pos_le in D; lia.
Qed.

(* ---- Uint::gcd ---- *)
Section UGcd.
  Context (a b : list Z) (n : nat).
  Context (Wa : wf a) (Wb : wf b) (La : length a = n) (Lb : length b = n) (Hn : (0 < n)%nat) (Hn32 : Z.of_nat n <= 2 ^ 32).
  Let av := eval a. Let bv := eval b.

  Lemma uint_gcd_pre_spec :
    exists k f g, uint_gcd_pre a b = (k, f, g) /\ wf f /\ wf g /\ length f = n /\ length g = n /\
      (Z.odd (eval g) = true \/ eval g = 0) /\ 0 <= k /\
      Z.gcd av bv = 2 ^ k * Z.gcd (eval f) (eval g) /\ (k < bitsn n \/ Z.gcd av bv = 0).
  Proof.
    pose proof (eval_bounds a Wa) as Ba. rewrite La in Ba. fold av in Ba.
    pose proof (eval_bounds b Wb) as Bb. rewrite Lb in Bb. fold bv in Bb.
    unfold uint_gcd_pre. rewrite La, Lb. fold av bv.
    set (k1 := vtz n av). set (k2 := vtz n bv). set (k := if k2 <? k1 then k2 else k1).
    set (s1 := vshr n av k). set (s2 := vshr n bv k).
    assert (HN : 0 < bitsn n) by (unfold bitsn; lia).
    (* facts about the two operands *)
    assert (F1 : av = 0 /\ k1 = bitsn n \/ 0 < av /\ 0 <= k1 < bitsn n /\ av = 2 ^ k1 * (av / 2 ^ k1) /\ Z.odd (av / 2 ^ k1) = true).
    { destruct (Z.eq_dec av 0) as [E|E]; [left; unfold k1; rewrite E; split; reflexivity|]. right.
      destruct (vtz_spec n av ltac:(lia)) as (X1 & X2 & X3). fold k1 in X1, X2, X3. repeat split; try assumption; lia. }
    assert (F2 : bv = 0 /\ k2 = bitsn n \/ 0 < bv /\ 0 <= k2 < bitsn n /\ bv = 2 ^ k2 * (bv / 2 ^ k2) /\ Z.odd (bv / 2 ^ k2) = true).
    { destruct (Z.eq_dec bv 0) as [E|E]; [left; unfold k2; rewrite E; split; reflexivity|]. right.
      destruct (vtz_spec n bv ltac:(lia)) as (X1 & X2 & X3). fold k2 in X1, X2, X3. repeat split; try assumption; lia. }
    assert (Hk : 0 <= k <= bitsn n /\ k <= k1 /\ k <= k2 /\ (k = k1 \/ k = k2)).
    { unfold k. destruct (Z.ltb_spec k2 k1); destruct F1 as [[? ?]|(? & ? & ? & ?)]; destruct F2 as [[? ?]|(? & ? & ? & ?)]; lia. }
    destruct Hk as (Hk0 & Hk1 & Hk2 & Hkk).
    assert (Pk : 0 < 2 ^ k) by (apply pow2_pos; lia).
    (* exact division by 2^k *)
    assert (E1 : av = 2 ^ k * s1 /\ 0 <= s1 < Bn n).
    { unfold s1, vshr. destruct (Z.ltb_spec k (bitsn n)).
      - destruct F1 as [[Z0 _]|(Hp & Hr & Ed & Ho)].
        + rewrite Z0. rewrite Z.div_0_l by lia. split; lia.
        + assert (D : (2 ^ k | av)).
          { rewrite Ed. apply Z.divide_mul_l. apply pow2_divide. lia. }
          destruct D as [q Hq]. rewrite Hq, Z.div_mul by lia. split; [ring|]. nia. 
      - destruct F1 as [[Z0 _]|(Hp & Hr & Ed & Ho)]; [rewrite Z0; split; lia | lia]. }
    assert (E2 : bv = 2 ^ k * s2 /\ 0 <= s2 < Bn n).
    { unfold s2, vshr. destruct (Z.ltb_spec k (bitsn n)).
      - destruct F2 as [[Z0 _]|(Hp & Hr & Ed & Ho)].
        + rewrite Z0. rewrite Z.div_0_l by lia. split; lia.
        + assert (D : (2 ^ k | bv)).
          { rewrite Ed. apply Z.divide_mul_l. apply pow2_divide. lia. }
          destruct D as [q Hq]. rewrite Hq, Z.div_mul by lia. split; [ring|]. nia.
      - destruct F2 as [[Z0 _]|(Hp & Hr & Ed & Ho)]; [rewrite Z0; split; lia | lia]. }
    destruct E1 as (E1 & R1). destruct E2 as (E2 & R2).
    (* one of the two is odd, or both are zero *)
    assert (OO : Z.odd s2 = true \/ Z.odd s1 = true \/ (s1 = 0 /\ s2 = 0)).
    { destruct F1 as [[Za Ka]|(Hpa & Hra & Eda & Hoa)]; destruct F2 as [[Zb Kb]|(Hpb & Hrb & Edb & Hob)].
      - right. right. split; nia.
      - left. assert (k = k2) by lia. unfold s2, vshr. destruct (Z.ltb_spec k (bitsn n)); [|lia]. rewrite H. assumption.
      - right. left. assert (k = k1) by lia. unfold s1, vshr. destruct (Z.ltb_spec k (bitsn n)); [|lia]. rewrite H. assumption.
      - destruct Hkk as [Hkk|Hkk].
        + right. left. unfold s1, vshr. destruct (Z.ltb_spec k (bitsn n)); [|lia]. rewrite Hkk. assumption.
        + left. unfold s2, vshr. destruct (Z.ltb_spec k (bitsn n)); [|lia]. rewrite Hkk. assumption. }
    assert (GG : Z.gcd av bv = 2 ^ k * Z.gcd s1 s2).
    { rewrite E1, E2. apply Z.gcd_mul_mono_l_nonneg. lia. }
    assert (KK : k < bitsn n \/ Z.gcd av bv = 0).
    { destruct (Z.ltb_spec k (bitsn n)); [left; assumption|]. right.
      assert (av = 0) by (destruct F1 as [[? ?]|(? & ? & ? & ?)]; lia).
      assert (bv = 0) by (destruct F2 as [[? ?]|(? & ? & ? & ?)]; lia).
      rewrite H0, H1. reflexivity. }
    assert (Ev : forall s, 0 <= s < Bn n -> eval (to_limbs n s) = s) by (intros s Hs; rewrite eval_to_limbs; apply Z.mod_small; assumption).
    destruct (Z.odd s2) eqn:O2.
    - exists k, (to_limbs n s1), (to_limbs n s2). rewrite !Ev by assumption.
      repeat split; try apply wf_to_limbs; try apply length_to_limbs; try lia; try assumption. left. assumption.
    - exists k, (to_limbs n s2), (to_limbs n s1). rewrite !Ev by assumption.
      repeat split; try apply wf_to_limbs; try apply length_to_limbs; try lia; try assumption.
      + destruct OO as [H|[H|[H _]]]; [discriminate | left; assumption | right; assumption].
      + rewrite (Z.gcd_comm s2 s1). assumption.
  Qed.

  (** Uint::gcd, BoxedUint::gcd *)
  Theorem uint_gcd_partial dbg boxed :
    uint_gcd_converged boxed a b = true ->
    uint_gcd dbg boxed a b = SgOk (to_limbs n (Z.gcd av bv)) true.
  Proof.
    intros Hc. unfold uint_gcd_converged in Hc. unfold uint_gcd.
    destruct uint_gcd_pre_spec as (k & f & g & EP & Wf & Wg & Lf & Lg & Og & Hk & GG & KK).
    rewrite EP in *. rewrite La in *.
    pose proof (sg_converged_conv boxed f g (unsat_nlimbs n) false (u_one (unsat_nlimbs n)) (inv_mod2_62 (hd 0 f)) Hc) as SC.
    rewrite (sg_gcd_partial f g n Wf Wg Lf Lg Hn Hn32 ltac:(tauto) dbg false boxed SC).
    f_equal. f_equal.
    pose proof (eval_bounds f Wf) as Bf. rewrite Lf in Bf. pose proof (eval_bounds g Wg) as Bg. rewrite Lg in Bg.
    pose proof (gcd_lt_bound _ _ _ Bf Bg) as BG.
    rewrite eval_to_limbs, (Z.mod_small _ _ BG).
    pose proof (eval_bounds a Wa) as Ba. rewrite La in Ba. fold av in Ba.
    pose proof (eval_bounds b Wb) as Bb. rewrite Lb in Bb. fold bv in Bb.
    pose proof (gcd_lt_bound _ _ _ Ba Bb) as BG2.
    unfold vshl. destruct (Z.ltb_spec k (bitsn n)).
    - rewrite Z.mul_comm, <- GG. apply Z.mod_small. assumption.
    - destruct KK as [?|Z0]; [lia|]. symmetry. assumption.
  Qed.
End UGcd.

(** Gcd::gcd_vartime for Uint / BoxedUint: the vartime driver when self is odd, else Uint::gcd *)
Theorem uint_gcd_vartime_partial a b n dbg boxed : wf a -> wf b -> length a = n -> length b = n -> (0 < n)%nat -> Z.of_nat n <= 2 ^ 32 ->
  (if Z.odd (eval a) then sg_converged boxed a b (unsat_nlimbs n) else uint_gcd_converged boxed a b) = true ->
  uint_gcd_vartime dbg boxed a b = SgOk (to_limbs n (Z.gcd (eval a) (eval b))) true.
Proof.
  intros Wa Wb La Lb Hn Hn32 Hc. unfold uint_gcd_vartime. destruct (Z.odd (eval a)) eqn:Oa.
  - apply (sg_gcd_partial a b n Wa Wb La Lb Hn Hn32 ltac:(left; assumption)).
    apply sg_converged_conv. assumption.
  - apply uint_gcd_partial; assumption.
Qed.

(* ---- number theory for the CRT recombination ---- *)
Lemma gcd1_mul_split a x y : Z.gcd a (x * y) = 1 <-> Z.gcd a x = 1 /\ Z.gcd a y = 1.
Proof.
  split.
  - intros H. apply Zgcd_1_rel_prime in H. apply rel_prime_sym in H. split; apply Zgcd_1_rel_prime; apply rel_prime_sym.
    + apply (rel_prime_div (x * y)); [assumption | exists y; ring].
    + apply (rel_prime_div (x * y)); [assumption | exists x; ring].
  - intros [H1 H2]. apply Zgcd_1_rel_prime. apply rel_prime_mult; apply Zgcd_1_rel_prime; assumption.
Qed.
Lemma odd_rel_prime_pow2 s k : Z.odd s = true -> 0 <= k -> rel_prime (2 ^ k) s.
Proof.
  intros Hs Hk. apply rel_prime_sym. apply Zgcd_1_rel_prime. apply Z.eqb_eq. rewrite gcd_pow2 by assumption. rewrite Hs. apply orb_true_r.
Qed.
Lemma crt_divide s k y : Z.odd s = true -> 0 <= k -> (s | y) -> (2 ^ k | y) -> (s * 2 ^ k | y).
Proof.
  intros Hs Hk [q ->] D2. rewrite Z.mul_comm in D2. apply Gauss in D2; [|apply odd_rel_prime_pow2; assumption].
  destruct D2 as [q' ->]. exists q'. ring.
Qed.

Lemma cg_mod_weaken N M y : N <> 0 -> M <> 0 -> (M | N) -> cg M (y mod N) y.
Proof. intros HN HM D. apply (cg_weaken N M); try assumption. apply cg_mod. Qed.

(** Garner recombination at value level *)
Lemma crt_value s k ai b mi av T mv :
  Z.odd s = true -> 0 < s -> 0 <= k -> mv = s * 2 ^ k -> 2 <= mv -> 0 <= ai <= s -> 0 <= T < 2 ^ k ->
  cg s (av * ai) 1 -> cg (2 ^ k) (av * b) 1 -> cg (2 ^ k) (s * mi) 1 -> cg (2 ^ k) T ((b - ai) * mi) ->
  0 <= ai + s * T < mv /\ cg mv (av * (ai + s * T)) 1.
Proof.
  intros Os Hs Hk Emv Hmv Hai HT Ca Cb Cm CT.
  assert (Pk : 0 < 2 ^ k) by (apply pow2_pos; assumption).
  assert (C1 : cg s (av * (ai + s * T)) 1).
  { rewrite <- Ca. apply cg_divide; [lia|]. exists (av * T). ring. }
  assert (C2 : cg (2 ^ k) (av * (ai + s * T)) 1).
  { rewrite CT. transitivity (av * (ai + (b - ai) * (s * mi))); [apply cg_of_eq; ring|].
    rewrite Cm. transitivity (av * b); [apply cg_of_eq; ring | assumption]. }
  assert (C : cg mv (av * (ai + s * T)) 1).
  { apply cg_divide; [lia|]. rewrite Emv. apply crt_divide; try assumption; apply cg_divide; try lia; assumption. }
  split; [|assumption].
  assert (ST : s * T <= s * (2 ^ k - 1)) by (apply Z.mul_le_mono_nonneg_l; lia).
  assert (ST0 : 0 <= s * T) by (apply Z.mul_nonneg_nonneg; lia).
  assert (LE : ai + s * T <= mv) by lia.
  split; [lia|]. destruct (Z.eq_dec (ai + s * T) mv) as [E|E]; [|lia]. exfalso.
  rewrite E in C. apply cg_divide in C; [|lia]. destruct C as [q Hq].
  assert (D : (mv | 1)) by (exists (av - q); lia).
  apply Z.divide_1_r_nonneg in D; lia.
Qed.

Section UInvMod.
  Context (a m : list Z) (n : nat).
  Context (Wa : wf a) (Wm : wf m) (La : length a = n) (Lm : length m = n) (Hn : (0 < n)%nat) (Hn32 : Z.of_nat n <= 2 ^ 32)
          (Hm : 0 < eval m).
  Let av := eval a. Let mv := eval m.
  Let k := vtz n mv. Let s := vshr n mv k.

  Lemma odd_part_facts : 0 <= k < bitsn n /\ mv = s * 2 ^ k /\ Z.odd s = true /\ 0 < s < Bn n /\ 2 ^ k < Bn n /\ 0 < 2 ^ k.
  Proof.
    pose proof (eval_bounds m Wm) as Bm. rewrite Lm in Bm. fold mv in Bm, Hm.
    destruct (vtz_spec n mv ltac:(lia)) as (X1 & X2 & X3). fold k in X1, X2, X3.
    assert (Es : s = mv / 2 ^ k) by (unfold s, vshr; destruct (Z.ltb_spec k (bitsn n)); [reflexivity | lia]).
    rewrite <- Es in X2, X3.
    assert (Pk : 0 < 2 ^ k) by (apply pow2_pos; lia).
    assert (Hs : 0 < s) by (destruct (Z.eq_dec s 0) as [Z0|Z0]; [rewrite Z0 in X3; discriminate | rewrite Es; pose proof (Z.div_pos mv (2 ^ k)); lia]).
    assert (Hle : s <= mv) by nia.
    assert (P2 : 2 ^ k < Bn n) by (rewrite bitsn_Bn; apply Z.pow_lt_mono_r; lia).
    repeat split; try assumption; try lia.
  Qed.

  (** Uint::inv_mod, BoxedUint::inv_mod for every modulus >= 1 *)
  Theorem uint_inv_mod_partial dbg boxed :
    sg_converged boxed (to_limbs n s) a (unsat_nlimbs n) = true ->
    exists X some, uint_inv_mod dbg boxed a m = SgOk (to_limbs n X) some /\
      (some = true <-> Z.gcd av mv = 1) /\ (some = true -> 2 <= mv -> X = modinv av mv).
  Proof.
    intros Hc.
    destruct odd_part_facts as (Hk & Emv & Os & Hs & P2 & Pk).
    pose proof (eval_bounds a Wa) as Ba. rewrite La in Ba. fold av in Ba.
    pose proof (eval_bounds m Wm) as Bm. rewrite Lm in Bm. fold mv in Bm.
    pose proof (Bn_pos n) as PB.
    (* the odd part *)
    assert (Esl : eval (to_limbs n s) = s) by (rewrite eval_to_limbs; apply Z.mod_small; lia).
    assert (Eone : eval (ones_limbs n) = 1) by (unfold ones_limbs; rewrite eval_to_limbs; apply Z.mod_small; lia).
    pose proof (sg_converged_conv boxed (to_limbs n s) a (unsat_nlimbs n) false (from_uint (unsat_nlimbs n) (ones_limbs n))
                  (inv_mod2_62 (hd 0 (to_limbs n s))) Hc) as SC.
    destruct (sg_inv_partial (to_limbs n s) a (ones_limbs n) n s (wf_to_limbs n s) Wa (wf_to_limbs n 1) (length_to_limbs n s) La
                (length_to_limbs n 1) Hn Hn32 ltac:(rewrite Esl; assumption) ltac:(rewrite Esl; lia) ltac:(rewrite Eone; lia) dbg false boxed SC)
      as (x0 & some0 & E0 & Wx0 & Lx0 & Rx0 & Hs0 & Hv0).
    rewrite Esl in Hs0, Hv0. rewrite Eone in Hv0. fold av in Hs0, Hv0.
    (* the two inverses modulo 2^k *)
    destruct (inv_mod2k_correct n av k Hn ltac:(lia) ltac:(unfold bitsn in Hk; lia)) as (B1 & _ & B3 & B4).
    rewrite <- B1 in B3, B4.
    destruct (inv_mod2k_correct n s k Hn ltac:(lia) ltac:(unfold bitsn in Hk; lia)) as (M1 & _ & M3 & M4).
    rewrite <- M1 in M3, M4.
    unfold uint_inv_mod. rewrite Lm. cbv zeta. fold av mv. fold k. fold s. rewrite E0.
    destruct (inv_mod2k_ct n av k) as [b bsome]. destruct (inv_mod2k_ct n s k) as [mi0 misome]. cbn [fst snd] in *.
    assert (Ms : misome = true).
    { apply M3. apply Z.eqb_eq. rewrite gcd_pow2 by lia. rewrite Os. apply orb_true_r. }
    subst misome. destruct (M4 eq_refl) as (Rmi & Cmi & _). clear M3 M4.
    eexists. eexists. split; [reflexivity|]. split.
    - rewrite Os, andb_true_r. rewrite andb_true_iff, Hs0, B3. rewrite Emv. symmetry. apply gcd1_mul_split.
    - rewrite Os, andb_true_r. intros Hsome Hmv2. apply andb_true_iff in Hsome. destruct Hsome as [H0 Hb].
      subst some0 bsome. cbv iota. destruct (B4 eq_refl) as (Rb & Cb & _). specialize (Hv0 eq_refl).
      (* the mask *)
      assert (Emask : (vshl n 1 k - 1) mod Bn n = Z.ones k).
      { unfold vshl. destruct (Z.ltb_spec k (bitsn n)); [|lia]. rewrite Z.mul_1_l, (Z.mod_small (2 ^ k)) by lia.
        rewrite Z.ones_equiv. apply Z.mod_small. lia. }
      rewrite Emask, Z.land_ones by lia.
      set (ai := eval x0) in *.
      set (T := ((b - ai) mod Bn n * mi0) mod Bn n mod 2 ^ k).
      assert (DB : (2 ^ k | Bn n)) by (rewrite bitsn_Bn; apply pow2_divide; lia).
      assert (HT : 0 <= T < 2 ^ k) by (apply Z.mod_pos_bound; assumption).
      assert (CT : cg (2 ^ k) T ((b - ai) * mi0)).
      { unfold T. rewrite cg_mod. rewrite (cg_mod_weaken (Bn n) (2 ^ k)) by (assumption || lia).
        rewrite (cg_mod_weaken (Bn n) (2 ^ k) (b - ai)) by (assumption || lia). reflexivity. }
      destruct (crt_value s k ai b mi0 av T mv Os ltac:(lia) ltac:(lia) Emv Hmv2 Rx0 HT) as (RX & CX).
      { apply cg_iff. assumption. }
      { apply cg_iff. assumption. }
      { apply cg_iff. assumption. }
      { assumption. }
      assert (ST0 : 0 <= s * T) by (apply Z.mul_nonneg_nonneg; lia).
      rewrite (Z.mod_small (s * T)) by lia. rewrite (Z.mod_small (ai + s * T)) by lia.
      destruct (modinv_spec av mv ltac:(lia)) as (RI & CI).
      assert (G : Z.gcd av mv = 1) by (rewrite Emv; apply gcd1_mul_split; split; [apply Hs0; reflexivity | apply B3; reflexivity]).
      apply (inv_unique mv av 1); try assumption; try lia; try (apply cg_iff; assumption). rewrite CI, G. reflexivity.
  Qed.
End UInvMod.
