(** C05 proofs, part 3: bitwise operators and bit queries agree with the binary expansion
    (Z.testbit / Z.land / Z.lor / Z.lxor / Z.log2) of the represented integer. *)
From CB Require Import Model.Limbs Model.AddSub Model.Bits Proofs.WordP Proofs.LimbsP Proofs.AddSubP
  Proofs.BitsWordP.
From Coq Require Import ZArith Lia List Bool.
Open Scope Z_scope.

Lemma land_1_mod2' x : Z.land x 1 = x mod 2.
Proof. change 1 with (Z.ones 1) at 1. rewrite Z.land_ones by lia. reflexivity. Qed.

(* ------------------------------------------------------------------ limb-wise binary operators *)
Section BitOp.
  Variable f : Z -> Z -> Z.
  Variable g : bool -> bool -> bool.
  Hypothesis f_spec : forall a b i, Z.testbit (f a b) i = g (Z.testbit a i) (Z.testbit b i).
  Hypothesis f_word : forall x y, is_word x -> is_word y -> is_word (f x y).
  Hypothesis f_00 : f 0 0 = 0.

  Lemma bitop_cons x y r s : is_word x -> is_word y -> f (x + B * r) (y + B * s) = f x y + B * f r s.
  Proof.
    intros Hx Hy. apply Z.bits_inj'. intros i Hi.
    rewrite f_spec, !testbit_word_cons by auto.
    destruct (i <? 64); rewrite f_spec; reflexivity.
  Qed.

  Lemma eval_map2 a : forall b, wf a -> wf b -> length a = length b ->
    let r := map (fun p => f (fst p) (snd p)) (combine a b) in
    wf r /\ length r = length a /\ eval r = f (eval a) (eval b).
  Proof.
    induction a as [|x a IH]; intros b Ha Hb Hl; cbn zeta.
    - destruct b; [|discriminate]. simpl. rewrite f_00. auto using wf_nil.
    - destruct b as [|y b]; [discriminate|].
      apply wf_cons in Ha. destruct Ha as [Hx Ha]. apply wf_cons in Hb. destruct Hb as [Hy Hb].
      simpl in Hl. specialize (IH b Ha Hb ltac:(lia)). cbn zeta in IH. destruct IH as (IHw & IHl & IHe).
      cbn [combine map fst snd eval length].
      split; [apply wf_cons; split; auto|]. split; [lia|].
      rewrite IHe. symmetry. apply bitop_cons; assumption.
  Qed.
End BitOp.

Lemma limbs_and_correct a b : wf a -> wf b -> length a = length b ->
  wf (limbs_and a b) /\ length (limbs_and a b) = length a /\ eval (limbs_and a b) = Z.land (eval a) (eval b).
Proof. apply (eval_map2 wand andb); [apply Z.land_spec | apply is_word_wand | reflexivity]. Qed.
Lemma limbs_or_correct a b : wf a -> wf b -> length a = length b ->
  wf (limbs_or a b) /\ length (limbs_or a b) = length a /\ eval (limbs_or a b) = Z.lor (eval a) (eval b).
Proof. apply (eval_map2 wor orb); [apply Z.lor_spec | apply is_word_wor | reflexivity]. Qed.
Lemma limbs_xor_correct a b : wf a -> wf b -> length a = length b ->
  wf (limbs_xor a b) /\ length (limbs_xor a b) = length a /\ eval (limbs_xor a b) = Z.lxor (eval a) (eval b).
Proof. apply (eval_map2 wxor xorb); [apply Z.lxor_spec | apply is_word_wxor | reflexivity]. Qed.

Lemma limbs_not_correct a : wf a ->
  wf (limbs_not a) /\ length (limbs_not a) = length a /\ eval (limbs_not a) = Bn (length a) - 1 - eval a.
Proof.
  induction a as [|x a IH]; intros Hw.
  - simpl. rewrite Bn_0. auto using wf_nil.
  - apply wf_cons in Hw. destruct Hw as [Hx Ha]. destruct (IH Ha) as (IHw & IHl & IHe).
    unfold limbs_not in *. cbn [map eval length]. rewrite Bn_S.
    split; [apply wf_cons; split; [apply is_word_wnot; assumption | assumption]|].
    split; [lia|]. rewrite IHe. unfold wnot. pose proof MAXW_val. lia.
Qed.

(** every bit of the result is the complement, within the width *)
Lemma limbs_not_testbit a i : wf a -> 0 <= i < 64 * Z.of_nat (length a) ->
  Z.testbit (eval (limbs_not a)) i = negb (Z.testbit (eval a) i).
Proof.
  intros Hw Hi. destruct (limbs_not_correct a Hw) as (_ & _ & E). rewrite E.
  replace (Bn (length a) - 1 - eval a) with (Z.lnot (eval a) + 1 * Bn (length a)) by (unfold Z.lnot; lia).
  rewrite Bn_pow. rewrite <- (Z.mod_pow2_bits_low _ (64 * Z.of_nat (length a))) by lia.
  pose proof (pow2_pos (64 * Z.of_nat (length a)) ltac:(lia)).
  rewrite Z.mod_add by lia. rewrite Z.mod_pow2_bits_low by lia. apply Z.lnot_spec. lia.
Qed.

Lemma limbs_and_limb_correct a l : wf a -> is_word l ->
  limbs_and_limb a l = limbs_and a (repeat l (length a)).
Proof.
  intros _ _. unfold limbs_and_limb, limbs_and. induction a as [|x a IH]; [reflexivity|].
  cbn [map length repeat combine fst snd]. rewrite IH. reflexivity.
Qed.

Lemma wf_repeat l n : is_word l -> wf (repeat l n).
Proof. intros Hl. unfold wf. apply Forall_forall. intros x Hx. apply repeat_spec in Hx. subst. exact Hl. Qed.

Theorem uint_and_limb_correct a l : wf a -> is_word l ->
  wf (limbs_and_limb a l) /\ length (limbs_and_limb a l) = length a /\
  eval (limbs_and_limb a l) = Z.land (eval a) (eval (repeat l (length a))).
Proof.
  intros Hw Hl. rewrite limbs_and_limb_correct by assumption.
  apply limbs_and_correct; auto using wf_repeat. rewrite repeat_length. reflexivity.
Qed.

(** BoxedUint: operands of different precisions are zero-extended to the wider one *)
Section BoxedOp.
  Variable fl : list Z -> list Z -> list Z.
  Variable fz : Z -> Z -> Z.
  Hypothesis fl_correct : forall a b, wf a -> wf b -> length a = length b ->
    wf (fl a b) /\ length (fl a b) = length a /\ eval (fl a b) = fz (eval a) (eval b).
  Lemma boxed_map2_correct a b : wf a -> wf b ->
    let n := Nat.max (length a) (length b) in
    wf (boxed_map2 fl a b) /\ length (boxed_map2 fl a b) = n /\ eval (boxed_map2 fl a b) = fz (eval a) (eval b).
  Proof.
    intros Ha Hb. cbn zeta. unfold boxed_map2. set (n := Nat.max (length a) (length b)).
    destruct (fl_correct (resize n a) (resize n b)) as (W & L & E);
      [apply wf_resize; assumption | apply wf_resize; assumption | rewrite !length_resize; reflexivity|].
    rewrite length_resize in L. rewrite !eval_resize_ge in E by (auto; unfold n; lia). auto.
  Qed.
End BoxedOp.

Definition boxed_and_correct := boxed_map2_correct limbs_and Z.land limbs_and_correct.
Definition boxed_or_correct := boxed_map2_correct limbs_or Z.lor limbs_or_correct.
Definition boxed_xor_correct := boxed_map2_correct limbs_xor Z.lxor limbs_xor_correct.

(** BoxedUint |= is `*self = self | rhs`: it widens to the larger precision exactly like | (and &=, ^=) *)
Theorem boxed_or_assign_correct a b : wf a -> wf b ->
  let n := Nat.max (length a) (length b) in
  boxed_or_assign a b = boxed_map2 limbs_or a b /\
  wf (boxed_or_assign a b) /\ length (boxed_or_assign a b) = n /\
  eval (boxed_or_assign a b) = Z.lor (eval a) (eval b).
Proof. intros Ha Hb. cbn zeta. split; [reflexivity|]. exact (boxed_or_correct a b Ha Hb). Qed.

(* ------------------------------------------------------------------ bit test *)
Lemma bit_loop_correct mask ln : is_word mask -> 0 <= ln < U32 -> forall ls i res,
  wf ls -> 0 <= i -> i + Z.of_nat (length ls) < U32 ->
  bit_loop ls i ln mask res =
  wor res (if (i <=? ln) && (ln <? i + Z.of_nat (length ls)) then wand (nthz ls (Z.to_nat (ln - i))) mask else 0).
Proof.
  intros Hm Hln. induction ls as [|x ls IH]; intros i res Hw Hi Hlen.
  - cbn [bit_loop length]. replace (ln <? i + Z.of_nat 0) with (ln <? i) by (f_equal; lia).
    destruct (Z.leb_spec i ln); destruct (Z.ltb_spec ln i); try lia; simpl; unfold wor; rewrite Z.lor_0_r; reflexivity.
  - apply wf_cons in Hw. destruct Hw as [Hx Hl]. cbn [bit_loop]. cbn [length] in Hlen |- *.
    rewrite Nat2Z.inj_succ in *.
    rewrite IH by (auto; lia).
    rewrite from_u32_eq_bool by lia.
    rewrite if_true_word_bool by (apply is_word_wand; assumption).
    unfold wor. rewrite <- Z.lor_assoc. f_equal.
    destruct (Z.eqb_spec i ln) as [->|Hne].
    + destruct (Z.leb_spec (ln + 1) ln); [lia|]. cbn [andb]. rewrite Z.lor_0_r.
      destruct (Z.leb_spec ln ln); [|lia]. destruct (Z.ltb_spec ln (ln + Z.succ (Z.of_nat (length ls)))); [|lia].
      cbn [andb]. replace (ln - ln) with 0 by lia. reflexivity.
    + rewrite Z.lor_0_l.
      destruct (Z.leb_spec (i + 1) ln); destruct (Z.leb_spec i ln); try lia; cbn [andb]; [|reflexivity].
      replace (ln <? i + 1 + Z.of_nat (length ls)) with (ln <? i + Z.succ (Z.of_nat (length ls))) by (f_equal; lia).
      destruct (ln <? i + Z.succ (Z.of_nat (length ls))); [|reflexivity].
      replace (Z.to_nat (ln - i)) with (S (Z.to_nat (ln - (i + 1)))) by lia. reflexivity.
Qed.

Theorem limbs_bit_correct ls index : wf ls -> Z.of_nat (length ls) < U32 -> 0 <= index < U32 ->
  limbs_bit ls index = choice_of_bool (Z.testbit (eval ls) index).
Proof.
  intros Hw Hlen Hi. unfold limbs_bit.
  pose proof (Z.div_mod index 64 ltac:(lia)) as Hdm. pose proof (Z.mod_pos_bound index 64 ltac:(lia)) as Hmb.
  assert (Hq : 0 <= index / 64 < U32).
  { split; [apply Z.div_pos; lia|]. apply Z.div_lt_upper_bound; unfold U32 in *; lia. }
  set (q := index / 64) in *. set (k := index mod 64) in *.
  rewrite wshl_1 by lia.
  assert (Hmk : is_word (2 ^ k)).
  { unfold is_word. rewrite B_val. pose proof (pow2_pos k ltac:(lia)). pose proof (pow2_lt k 64 ltac:(lia)). lia. }
  rewrite (bit_loop_correct (2 ^ k) q Hmk Hq ls 0 0 Hw ltac:(lia) ltac:(lia)).
  unfold wor. rewrite Z.lor_0_l. rewrite Z.sub_0_r, Z.add_0_l.
  destruct (Z.leb_spec 0 q); [|lia]. cbn [andb].
  destruct (Z.ltb_spec q (Z.of_nat (length ls))) as [Hin|Hout].
  - rewrite testbit_eval by (auto; lia). fold q k.
    unfold wand. rewrite land_pow2 by lia.
    pose proof (pow2_pos k ltac:(lia)).
    destruct (Z.testbit (nthz ls (Z.to_nat q)) k).
    + unfold wshr. rewrite Z.div_same by lia. reflexivity.
    + unfold wshr. rewrite Z.div_0_l by lia. reflexivity.
  - rewrite testbit_eval_high by (auto; lia). unfold wshr. pose proof (pow2_pos k ltac:(lia)).
    rewrite Z.div_0_l by lia. reflexivity.
Qed.

Theorem limbs_bit_vartime_correct ls index : wf ls -> 0 <= index ->
  limbs_bit_vartime ls index = Z.testbit (eval ls) index.
Proof.
  intros Hw Hi. unfold limbs_bit_vartime, lenZ.
  pose proof (Z.div_mod index 64 ltac:(lia)) as Hdm. pose proof (Z.mod_pos_bound index 64 ltac:(lia)) as Hmb.
  assert (Hq : 0 <= index / 64) by (apply Z.div_pos; lia).
  destruct (Z.leb_spec (Z.of_nat (length ls)) (index / 64)).
  - symmetry. apply testbit_eval_high; [assumption | lia].
  - rewrite testbit_eval by assumption.
    set (x := nthz ls (Z.to_nat (index / 64))). set (k := index mod 64) in *.
    unfold wshr. rewrite land_1_mod2'. rewrite <- (Z.testbit_spec' x k) by lia.
    destruct (Z.testbit x k); reflexivity.
Qed.

(* ------------------------------------------------------------------ leading zeros, bit length *)
Lemma eval_zero_cons x ls : is_word x -> wf ls -> (x + B * eval ls =? 0) = (eval ls =? 0) && (x =? 0).
Proof.
  unfold is_word. intros Hx Hl. pose proof (eval_nonneg ls Hl). pose proof B_pos.
  destruct (Z.eqb_spec (eval ls) 0) as [->|]; destruct (Z.eqb_spec x 0) as [->|]; simpl;
    apply Z.eqb_neq || apply Z.eqb_eq; nia.
Qed.

Lemma lz_scan_correct ls : wf ls ->
  lz_scan ls = (64 * Z.of_nat (length ls) - bitlen (eval ls), choice_of_bool (eval ls =? 0)).
Proof.
  induction ls as [|l ls IH]; intros Hw; [reflexivity|].
  apply wf_cons in Hw. destruct Hw as [Hl Hls]. cbn [lz_scan]. rewrite (IH Hls).
  pose proof (wlz_range l Hl).
  rewrite if_true_u32_bool by (unfold U32; lia).
  rewrite from_word_nonzero_bool by assumption. rewrite choice_not_bool, negb_involutive, choice_and_bool.
  cbn [eval length]. rewrite Nat2Z.inj_succ.
  rewrite bitlen_cons by (auto using eval_nonneg). rewrite eval_zero_cons by assumption.
  f_equal. destruct (Z.eqb_spec (eval ls) 0) as [E|]; [rewrite E, bitlen_0; unfold wlz|]; lia.
Qed.

Theorem limbs_leading_zeros_correct ls : wf ls ->
  limbs_leading_zeros ls = 64 * Z.of_nat (length ls) - spec_bits (eval ls).
Proof. intros Hw. unfold limbs_leading_zeros. rewrite lz_scan_correct by assumption. reflexivity. Qed.

Lemma top_nonzero_correct ls : wf ls -> forall i,
  match top_nonzero ls i with
  | None => eval ls = 0
  | Some (j, l) => is_word l /\ l <> 0 /\ i <= j /\ bitlen (eval ls) = 64 * (j - i) + bitlen l
  end.
Proof.
  induction ls as [|x ls IH]; intros Hw i; [reflexivity|].
  apply wf_cons in Hw. destruct Hw as [Hx Hl]. cbn [top_nonzero eval]. specialize (IH Hl (i + 1)).
  destruct (top_nonzero ls (i + 1)) as [[j l]|].
  - destruct IH as (Wl & Nz & Hj & Hb).
    assert (Hne : eval ls <> 0).
    { intros E. rewrite E, bitlen_0 in Hb. unfold is_word in Wl. pose proof (bitlen_spec l ltac:(lia)). lia. }
    rewrite bitlen_cons by (auto using eval_nonneg). destruct (Z.eqb_spec (eval ls) 0); [contradiction|].
    split; [exact Wl|]. split; [exact Nz|]. split; lia.
  - rewrite IH. destruct (Z.eqb_spec x 0) as [->|Hnz]; [lia|].
    split; [exact Hx|]. split; [exact Hnz|]. split; [lia|]. rewrite Z.sub_diag, Z.mul_0_r, Z.add_0_l. f_equal. lia.
Qed.

Theorem limbs_bits_vartime_correct ls : wf ls -> ls <> [] ->
  limbs_bits_vartime ls = Some (spec_bits (eval ls)).
Proof.
  intros Hw Hne. destruct ls as [|x0 r]; [congruence|].
  apply wf_cons in Hw. destruct Hw as [Hx Hr]. unfold limbs_bits_vartime.
  pose proof (top_nonzero_correct r Hr 1) as H. rewrite spec_bits_bitlen. cbn [eval].
  destruct (top_nonzero r 1) as [[i l]|].
  - destruct H as (Wl & Nz & Hi & Hb).
    assert (Hne' : eval r <> 0).
    { intros E. rewrite E, bitlen_0 in Hb. unfold is_word in Wl. pose proof (bitlen_spec l ltac:(lia)). lia. }
    rewrite bitlen_cons by (auto using eval_nonneg). destruct (Z.eqb_spec (eval r) 0); [contradiction|].
    f_equal. unfold wlz. lia.
  - rewrite H. f_equal. unfold wlz. replace (x0 + B * 0) with x0 by lia. lia.
Qed.

(** constant-time and variable-time bit length agree *)
Theorem bits_ct_eq_vartime ls : wf ls -> ls <> [] ->
  limbs_bits_vartime ls = Some (64 * Z.of_nat (length ls) - limbs_leading_zeros ls).
Proof.
  intros Hw Hne. rewrite limbs_bits_vartime_correct, limbs_leading_zeros_correct by assumption. f_equal. lia.
Qed.

(** [spec_bits] is the position of the highest set bit plus one *)
Lemma spec_bits_testbit v : 0 < v ->
  Z.testbit v (spec_bits v - 1) = true /\ forall i, spec_bits v <= i -> Z.testbit v i = false.
Proof.
  intros Hv. unfold spec_bits. destruct (Z.leb_spec v 0); [lia|].
  replace (Z.log2 v + 1 - 1) with (Z.log2 v) by lia.
  split; [apply Z.bit_log2; lia|]. intros i Hi. apply Z.bits_above_log2; lia.
Qed.

(* ------------------------------------------------------------------ trailing zeros / ones *)
Fixpoint tzm (ls : list Z) : Z :=
  match ls with [] => 0 | l :: r => if l =? 0 then 64 + tzm r else wtz l end.
Fixpoint tom (ls : list Z) : Z :=
  match ls with [] => 0 | l :: r => if l =? MAXW then 64 + tom r else wto l end.

Lemma tz_loop_correct ls : wf ls -> forall count b,
  tz_loop ls count (choice_of_bool b) = if b then count + tzm ls else count.
Proof.
  induction ls as [|l ls IH]; intros Hw count b.
  - simpl. destruct b; lia.
  - apply wf_cons in Hw. destruct Hw as [Hl Hls]. cbn [tz_loop tzm].
    pose proof (wtz_spec l Hl) as (Hr & Hz & _).
    rewrite if_true_u32_bool by (unfold U32; lia).
    rewrite from_word_nonzero_bool by assumption. rewrite choice_not_bool, negb_involutive, choice_and_bool.
    rewrite IH by assumption.
    destruct b; cbn [andb]; [|lia].
    destruct (Z.eqb_spec l 0) as [E|Hne]; [|reflexivity].
    assert (wtz l = 64) by (apply Hz; assumption). lia.
Qed.

Lemma tz_vartime_loop_correct ls : wf ls -> forall count, tz_vartime_loop ls count = count + tzm ls.
Proof.
  induction ls as [|l ls IH]; intros Hw count.
  - simpl. lia.
  - apply wf_cons in Hw. destruct Hw as [Hl Hls]. cbn [tz_vartime_loop tzm].
    pose proof (wtz_spec l Hl) as (Hr & Hz & _).
    destruct (Z.eqb_spec (wtz l) 64) as [E|Hne].
    + rewrite IH by assumption. assert (l = 0) by (apply Hz; assumption).
      destruct (Z.eqb_spec l 0); [lia|contradiction].
    + destruct (Z.eqb_spec l 0) as [E|]; [|reflexivity]. exfalso. apply Hne, Hz, E.
Qed.

Lemma to_loop_correct ls : wf ls -> forall count b,
  to_loop ls count (choice_of_bool b) = if b then count + tom ls else count.
Proof.
  induction ls as [|l ls IH]; intros Hw count b.
  - simpl. destruct b; lia.
  - apply wf_cons in Hw. destruct Hw as [Hl Hls]. cbn [to_loop tom].
    pose proof (wto_spec l Hl) as (Hr & Hz & _).
    rewrite if_true_u32_bool by (unfold U32; lia).
    rewrite from_word_eq_bool by (auto using is_word_MAXW). rewrite choice_and_bool.
    rewrite IH by assumption.
    destruct b; cbn [andb]; [|lia].
    destruct (Z.eqb_spec l MAXW) as [E|Hne]; [|reflexivity].
    assert (wto l = 64) by (apply Hz; assumption). lia.
Qed.

Lemma to_vartime_loop_correct ls : wf ls -> forall count, to_vartime_loop ls count = count + tom ls.
Proof.
  induction ls as [|l ls IH]; intros Hw count.
  - simpl. lia.
  - apply wf_cons in Hw. destruct Hw as [Hl Hls]. cbn [to_vartime_loop tom].
    pose proof (wto_spec l Hl) as (Hr & Hz & _).
    destruct (Z.eqb_spec (wto l) 64) as [E|Hne].
    + rewrite IH by assumption. assert (l = MAXW) by (apply Hz; assumption).
      destruct (Z.eqb_spec l MAXW); [lia|contradiction].
    + destruct (Z.eqb_spec l MAXW) as [E|]; [|reflexivity]. exfalso. apply Hne, Hz, E.
Qed.

(** [tzm] is the index of the lowest set bit of the value (or the width) *)
Lemma tzm_spec ls : wf ls ->
  0 <= tzm ls <= 64 * Z.of_nat (length ls) /\
  (forall i, 0 <= i < tzm ls -> Z.testbit (eval ls) i = false) /\
  (tzm ls < 64 * Z.of_nat (length ls) -> Z.testbit (eval ls) (tzm ls) = true).
Proof.
  induction ls as [|l ls IH]; intros Hw.
  - simpl. repeat split; try lia.
  - apply wf_cons in Hw. destruct Hw as [Hl Hls]. destruct (IH Hls) as (I1 & I2 & I3).
    pose proof (wtz_spec l Hl) as (Hr & Hz & Hb & Hlow).
    cbn [tzm eval length]. rewrite Nat2Z.inj_succ.
    destruct (Z.eqb_spec l 0) as [->|Hne].
    + repeat split; try lia.
      * intros i Hi. rewrite testbit_word_cons by (auto; lia).
        destruct (Z.ltb_spec i 64); [apply Z.bits_0 | apply I2; lia].
      * intros Hlt. rewrite testbit_word_cons by (auto; lia).
        destruct (Z.ltb_spec (64 + tzm ls) 64); [lia|]. replace (64 + tzm ls - 64) with (tzm ls) by lia.
        apply I3. lia.
    + assert (wtz l <> 64) by (intros E; apply Hne, Hz, E).
      repeat split; try lia.
      * intros i Hi. rewrite testbit_word_cons by (auto; lia).
        destruct (Z.ltb_spec i 64); [apply Hlow; lia | lia].
      * intros _. rewrite testbit_word_cons by (auto; lia).
        destruct (Z.ltb_spec (wtz l) 64); [apply Hb; assumption | lia].
Qed.

Lemma tom_spec ls : wf ls ->
  0 <= tom ls <= 64 * Z.of_nat (length ls) /\
  (forall i, 0 <= i < tom ls -> Z.testbit (eval ls) i = true) /\
  (tom ls < 64 * Z.of_nat (length ls) -> Z.testbit (eval ls) (tom ls) = false).
Proof.
  induction ls as [|l ls IH]; intros Hw.
  - simpl. repeat split; try lia.
  - apply wf_cons in Hw. destruct Hw as [Hl Hls]. destruct (IH Hls) as (I1 & I2 & I3).
    pose proof (wto_spec l Hl) as (Hr & Hz & Hb & Hlow).
    cbn [tom eval length]. rewrite Nat2Z.inj_succ.
    destruct (Z.eqb_spec l MAXW) as [E|Hne].
    + assert (wto l = 64) by (apply Hz; assumption).
      repeat split; try lia.
      * intros i Hi. rewrite testbit_word_cons by (auto; lia).
        destruct (Z.ltb_spec i 64); [apply Hlow; lia | apply I2; lia].
      * intros Hlt. rewrite testbit_word_cons by (auto; lia).
        destruct (Z.ltb_spec (64 + tom ls) 64); [lia|]. replace (64 + tom ls - 64) with (tom ls) by lia.
        apply I3. lia.
    + assert (wto l <> 64) by (intros E; apply Hne, Hz, E).
      repeat split; try lia.
      * intros i Hi. rewrite testbit_word_cons by (auto; lia).
        destruct (Z.ltb_spec i 64); [apply Hlow; lia | lia].
      * intros _. rewrite testbit_word_cons by (auto; lia).
        destruct (Z.ltb_spec (wto l) 64); [apply Hb; assumption | lia].
Qed.

Lemma first_bit_found b v k : forall i t, 0 <= i -> i <= t <= i + Z.of_nat k ->
  (forall j, i <= j < t -> Z.testbit v j = negb b) ->
  (t < i + Z.of_nat k -> Z.testbit v t = b) ->
  first_bit b k i v = t.
Proof.
  induction k as [|k IH]; intros i t Hi Ht Hlow Hat.
  - simpl in *. lia.
  - cbn [first_bit]. rewrite Nat2Z.inj_succ in *.
    destruct (Z.eq_dec t i) as [->|Hne].
    + rewrite Hat by lia. rewrite eqb_reflx. reflexivity.
    + rewrite Hlow by lia. destruct b; cbn [negb Bool.eqb]; apply IH; try lia;
        try (intros j Hj; apply Hlow; lia); intros; apply Hat; lia.
Qed.

Theorem limbs_trailing_zeros_correct ls : wf ls ->
  limbs_trailing_zeros ls = spec_trailing_zeros (64 * length ls) (eval ls).
Proof.
  intros Hw. unfold limbs_trailing_zeros, spec_trailing_zeros. change MAXW with (choice_of_bool true).
  rewrite tz_loop_correct by assumption. rewrite Z.add_0_l.
  destruct (tzm_spec ls Hw) as (H1 & H2 & H3). symmetry.
  apply first_bit_found; try lia; rewrite ?Nat2Z.inj_mul; try (change (Z.of_nat 64) with 64); auto; lia.
Qed.

Theorem limbs_trailing_zeros_vartime_correct ls : wf ls ->
  limbs_trailing_zeros_vartime ls = spec_trailing_zeros (64 * length ls) (eval ls).
Proof.
  intros Hw. rewrite <- limbs_trailing_zeros_correct by assumption.
  unfold limbs_trailing_zeros_vartime, limbs_trailing_zeros. change MAXW with (choice_of_bool true).
  rewrite tz_loop_correct, tz_vartime_loop_correct by assumption. reflexivity.
Qed.

Theorem limbs_trailing_ones_correct ls : wf ls ->
  limbs_trailing_ones ls = spec_trailing_ones (64 * length ls) (eval ls).
Proof.
  intros Hw. unfold limbs_trailing_ones, spec_trailing_ones. change MAXW with (choice_of_bool true) at 1.
  rewrite to_loop_correct by assumption. rewrite Z.add_0_l.
  destruct (tom_spec ls Hw) as (H1 & H2 & H3). symmetry.
  apply first_bit_found; try lia; rewrite ?Nat2Z.inj_mul; try (change (Z.of_nat 64) with 64); auto; lia.
Qed.

Theorem limbs_trailing_ones_vartime_correct ls : wf ls ->
  limbs_trailing_ones_vartime ls = spec_trailing_ones (64 * length ls) (eval ls).
Proof.
  intros Hw. rewrite <- limbs_trailing_ones_correct by assumption.
  unfold limbs_trailing_ones_vartime, limbs_trailing_ones. change MAXW with (choice_of_bool true) at 1.
  rewrite to_loop_correct, to_vartime_loop_correct by assumption. reflexivity.
Qed.

(** what [first_bit] computes: the least index in [0, k) whose bit equals b (k if there is none) *)
Lemma first_bit_spec b v k : forall i, 0 <= i ->
  let t := first_bit b k i v in
  i <= t <= i + Z.of_nat k /\ (forall j, i <= j < t -> Z.testbit v j = negb b) /\
  (t < i + Z.of_nat k -> Z.testbit v t = b).
Proof.
  induction k as [|k IH]; intros i Hi; cbn zeta.
  - simpl. repeat split; try lia.
  - cbn [first_bit]. rewrite Nat2Z.inj_succ.
    destruct (Bool.eqb (Z.testbit v i) b) eqn:E.
    + apply eqb_prop in E. repeat split; try lia. intros _. exact E.
    + specialize (IH (i + 1) ltac:(lia)). cbn zeta in IH. destruct IH as (I1 & I2 & I3).
      repeat split; try lia.
      * intros j Hj. destruct (Z.eq_dec j i) as [->|]; [|apply I2; lia].
        destruct (Z.testbit v i), b; simpl in E; try discriminate; reflexivity.
      * intros Hlt. apply I3. lia.
Qed.

(* ------------------------------------------------------------------ set_bit *)
Lemma set_bit_word_true x k : is_word x -> 0 <= k < 64 ->
  wor x (2 ^ k) = x + 2 ^ k * (1 - b2z (Z.testbit x k)).
Proof.
  intros Hx Hk. unfold wor. destruct (Z.testbit x k) eqn:E; cbn [b2z].
  - replace (x + 2 ^ k * (1 - 1)) with x by lia.
    apply Z.bits_inj'. intros i Hi. rewrite Z.lor_spec, Z.pow2_bits_eqb by lia.
    destruct (Z.eqb_spec k i) as [->|]; [rewrite E; reflexivity | apply orb_false_r].
  - assert (L : Z.land x (2 ^ k) = 0) by (rewrite land_pow2 by lia; rewrite E; reflexivity).
    rewrite <- (Z.lxor_lor _ _ L), <- (Z.add_nocarry_lxor _ _ L). lia.
Qed.

Lemma set_bit_word_false x k : is_word x -> 0 <= k < 64 ->
  wand x (wnot (2 ^ k)) = x - 2 ^ k * b2z (Z.testbit x k).
Proof.
  intros Hx Hk.
  assert (Hp : is_word (2 ^ k)).
  { unfold is_word. rewrite B_val. pose proof (pow2_pos k ltac:(lia)). pose proof (pow2_lt k 64 ltac:(lia)). lia. }
  set (A := wand x (wnot (2 ^ k))). set (m := Z.land x (2 ^ k)).
  assert (Hm : m = 2 ^ k * b2z (Z.testbit x k)).
  { unfold m. rewrite land_pow2 by lia. destruct (Z.testbit x k); simpl; lia. }
  assert (L : Z.land A m = 0).
  { apply Z.bits_inj'. intros i Hi. unfold A, m, wand. rewrite !Z.land_spec, Z.bits_0, Z.pow2_bits_eqb by lia.
    destruct (Z.eqb_spec k i) as [->|]; [|rewrite !andb_false_r; reflexivity].
    rewrite wnot_testbit by (auto; lia). rewrite Z.pow2_bits_true by lia. simpl. rewrite !andb_false_r. reflexivity. }
  assert (O : Z.lor A m = x).
  { apply Z.bits_inj'. intros i Hi. unfold A, m, wand. rewrite Z.lor_spec, !Z.land_spec, Z.pow2_bits_eqb by lia.
    destruct (Z_lt_ge_dec i 64).
    - rewrite wnot_testbit by (auto; lia). rewrite Z.pow2_bits_eqb by lia.
      destruct (Z.eqb_spec k i); destruct (Z.testbit x i); reflexivity.
    - unfold is_word in Hx. rewrite B_val in Hx. rewrite (high_bits_false x 64 i) by lia. reflexivity. }
  assert (Hx' : A + m = x) by (rewrite (Z.add_nocarry_lxor _ _ L), (Z.lxor_lor _ _ L); exact O).
  rewrite <- Hm. lia.
Qed.

Lemma eval_update_nth f : forall ls k, (k < length ls)%nat ->
  eval (update_nth ls k f) = eval ls + Bn k * (f (nthz ls k) - nthz ls k) /\
  length (update_nth ls k f) = length ls.
Proof.
  induction ls as [|x ls IH]; intros k Hk; [simpl in Hk; lia|].
  destruct k as [|k].
  - cbn [update_nth eval length]. unfold nthz. cbn [nth]. rewrite Bn_0. split; [lia | reflexivity].
  - cbn [update_nth eval length]. simpl in Hk. destruct (IH k ltac:(lia)) as (E & L).
    rewrite E, L, Bn_S. unfold nthz. cbn [nth]. split; [ring | reflexivity].
Qed.

Lemma wf_update_nth f : (forall x, is_word x -> is_word (f x)) -> forall ls k, wf ls -> wf (update_nth ls k f).
Proof.
  intros Hf. induction ls as [|x ls IH]; intros k Hw; [apply wf_nil|].
  apply wf_cons in Hw. destruct Hw as [Hx Hl]. destruct k; cbn [update_nth]; apply wf_cons; auto.
Qed.

Lemma wf_nthz ls k : wf ls -> is_word (nthz ls k).
Proof.
  intros Hw. unfold nthz. destruct (Nat.lt_ge_cases k (length ls)).
  - unfold wf in Hw. rewrite Forall_forall in Hw. apply Hw. apply nth_In. assumption.
  - rewrite nth_overflow by assumption. apply is_word_0'.
Qed.

Definition set_word (b : bool) (mask x : Z) : Z := if b then wor x mask else wand x (wnot mask).

Lemma is_word_set_word b mask x : is_word mask -> is_word x -> is_word (set_word b mask x).
Proof. intros. unfold set_word. destruct b; auto using is_word_wor, is_word_wand, is_word_wnot. Qed.

Lemma set_bit_loop_correct b mask ln : is_word mask -> 0 <= ln < U32 -> forall ls i,
  wf ls -> 0 <= i -> i + Z.of_nat (length ls) < U32 ->
  set_bit_loop ls i ln mask (choice_of_bool b) =
  if (i <=? ln) && (ln <? i + Z.of_nat (length ls)) then update_nth ls (Z.to_nat (ln - i)) (set_word b mask) else ls.
Proof.
  intros Hm Hln. induction ls as [|x ls IH]; intros i Hw Hi Hlen.
  - cbn [set_bit_loop]. destruct ((i <=? ln) && (ln <? i + Z.of_nat (length (@nil Z)))); reflexivity.
  - apply wf_cons in Hw. destruct Hw as [Hx Hl]. cbn [set_bit_loop]. cbn [length] in Hlen |- *.
    rewrite Nat2Z.inj_succ in *.
    rewrite IH by (auto; lia).
    rewrite from_u32_eq_bool by lia.
    rewrite (select_word_choice b) by (auto using is_word_wor, is_word_wand, is_word_wnot).
    fold (set_word b mask x).
    rewrite select_word_choice by (auto using is_word_set_word).
    destruct (Z.eqb_spec i ln) as [->|Hne].
    + destruct (Z.leb_spec (ln + 1) ln); [lia|]. cbn [andb].
      destruct (Z.leb_spec ln ln); [|lia]. destruct (Z.ltb_spec ln (ln + Z.succ (Z.of_nat (length ls)))); [|lia].
      cbn [andb]. replace (ln - ln) with 0 by lia. reflexivity.
    + destruct (Z.leb_spec (i + 1) ln); destruct (Z.leb_spec i ln); try lia; cbn [andb]; [|reflexivity].
      replace (ln <? i + 1 + Z.of_nat (length ls)) with (ln <? i + Z.succ (Z.of_nat (length ls))) by (f_equal; lia).
      destruct (ln <? i + Z.succ (Z.of_nat (length ls))); [|reflexivity].
      replace (Z.to_nat (ln - i)) with (S (Z.to_nat (ln - (i + 1)))) by lia. reflexivity.
Qed.

Lemma update_set_word_correct ls index b : wf ls -> 0 <= index < 64 * Z.of_nat (length ls) ->
  let r := update_nth ls (Z.to_nat (index / 64)) (set_word b (2 ^ (index mod 64))) in
  wf r /\ length r = length ls /\ eval r = spec_set_bit (eval ls) index b.
Proof.
  intros Hw Hi. cbn zeta.
  pose proof (Z.div_mod index 64 ltac:(lia)) as Hdm. pose proof (Z.mod_pos_bound index 64 ltac:(lia)) as Hmb.
  assert (Hq : 0 <= index / 64 < Z.of_nat (length ls)).
  { split; [apply Z.div_pos; lia|]. apply Z.div_lt_upper_bound; lia. }
  set (q := index / 64) in *. set (k := index mod 64) in *.
  assert (Hmk : is_word (2 ^ k)).
  { unfold is_word. rewrite B_val. pose proof (pow2_pos k ltac:(lia)). pose proof (pow2_lt k 64 ltac:(lia)). lia. }
  destruct (eval_update_nth (set_word b (2 ^ k)) ls (Z.to_nat q) ltac:(lia)) as (E & L).
  split; [apply wf_update_nth; auto using is_word_set_word|]. split; [exact L|].
  rewrite E. unfold spec_set_bit. rewrite testbit_eval by (auto; lia). fold q k.
  pose proof (wf_nthz ls (Z.to_nat q) Hw) as Hx. set (x := nthz ls (Z.to_nat q)) in *.
  assert (Hp : 2 ^ index = Bn (Z.to_nat q) * 2 ^ k).
  { rewrite Bn_pow, Z2Nat.id by lia. rewrite <- pow2_split by lia. f_equal. lia. }
  rewrite Hp. unfold set_word. destruct b.
  - rewrite set_bit_word_true by (auto; lia). cbn [b2z]. ring.
  - rewrite set_bit_word_false by (auto; lia). cbn [b2z]. ring.
Qed.

Theorem limbs_set_bit_correct ls index b :
  wf ls -> Z.of_nat (length ls) < U32 -> 0 <= index < 64 * Z.of_nat (length ls) ->
  let r := limbs_set_bit ls index (choice_of_bool b) in
  wf r /\ length r = length ls /\ eval r = spec_set_bit (eval ls) index b.
Proof.
  intros Hw Hlen Hi. cbn zeta. unfold limbs_set_bit.
  pose proof (Z.mod_pos_bound index 64 ltac:(lia)) as Hmb.
  assert (Hq : 0 <= index / 64 < Z.of_nat (length ls)).
  { split; [apply Z.div_pos; lia|]. apply Z.div_lt_upper_bound; lia. }
  rewrite wshl_1 by lia.
  assert (Hmk : is_word (2 ^ (index mod 64))).
  { unfold is_word. rewrite B_val. pose proof (pow2_pos (index mod 64) ltac:(lia)).
    pose proof (pow2_lt (index mod 64) 64 ltac:(lia)). lia. }
  rewrite set_bit_loop_correct by (auto; lia).
  destruct (Z.leb_spec 0 (index / 64)); [|lia]. destruct (Z.ltb_spec (index / 64) (0 + Z.of_nat (length ls))); [|lia].
  cbn [andb]. rewrite Z.sub_0_r. apply update_set_word_correct; assumption.
Qed.

(** an index outside the value leaves it unchanged (constant-time form) *)
Theorem limbs_set_bit_out_of_range ls index b :
  wf ls -> Z.of_nat (length ls) < U32 -> 64 * Z.of_nat (length ls) <= index < U32 ->
  limbs_set_bit ls index (choice_of_bool b) = ls.
Proof.
  intros Hw Hlen Hi. unfold limbs_set_bit.
  pose proof (Z.div_mod index 64 ltac:(lia)) as Hdm.
  pose proof (Z.mod_pos_bound index 64 ltac:(lia)) as Hmb.
  assert (Hq : Z.of_nat (length ls) <= index / 64 < U32).
  { split; [apply Z.div_le_lower_bound; lia|]. apply Z.div_lt_upper_bound; unfold U32 in *; lia. }
  rewrite wshl_1 by lia.
  assert (Hmk : is_word (2 ^ (index mod 64))).
  { unfold is_word. rewrite B_val. pose proof (pow2_pos (index mod 64) ltac:(lia)).
    pose proof (pow2_lt (index mod 64) 64 ltac:(lia)). lia. }
  rewrite set_bit_loop_correct by (auto; lia).
  destruct (Z.ltb_spec (index / 64) (0 + Z.of_nat (length ls))); [lia|]. rewrite andb_false_r. reflexivity.
Qed.

Theorem limbs_set_bit_vartime_correct ls index b : wf ls -> 0 <= index ->
  if index <? 64 * Z.of_nat (length ls)
  then exists r, limbs_set_bit_vartime ls index b = Some r /\ wf r /\ length r = length ls /\
                 eval r = spec_set_bit (eval ls) index b
  else limbs_set_bit_vartime ls index b = None.
Proof.
  intros Hw Hi. unfold limbs_set_bit_vartime, lenZ.
  pose proof (Z.div_mod index 64 ltac:(lia)) as Hdm. pose proof (Z.mod_pos_bound index 64 ltac:(lia)) as Hmb.
  destruct (Z.ltb_spec index (64 * Z.of_nat (length ls))) as [Hin|Hout].
  - destruct (Z.leb_spec (Z.of_nat (length ls)) (index / 64)); [lia|].
    rewrite wshl_1 by lia. eexists. split; [reflexivity|].
    apply (update_set_word_correct ls index b Hw). lia.
  - destruct (Z.leb_spec (Z.of_nat (length ls)) (index / 64)); [reflexivity|lia].
Qed.

Lemma testbit_split lo Y i j : 0 <= i -> 0 <= lo < 2 ^ i -> 0 <= j ->
  Z.testbit (lo + Y * 2 ^ i) j = if j <? i then Z.testbit lo j else Z.testbit Y (j - i).
Proof.
  intros Hi Hlo Hj. pose proof (pow2_pos i Hi).
  destruct (Z.ltb_spec j i).
  - rewrite <- (Z.mod_pow2_bits_low _ i j) by lia. rewrite Z.mod_add by lia.
    rewrite Z.mod_small by lia. reflexivity.
  - replace j with ((j - i) + i) at 1 by lia. rewrite <- Z.div_pow2_bits by lia.
    rewrite Z.div_add by lia. rewrite Z.div_small by lia. reflexivity.
Qed.

(** the meaning of [spec_set_bit]: bit [i] becomes [b], all other bits are unchanged *)
Lemma spec_set_bit_testbit v i b j : 0 <= v -> 0 <= i -> 0 <= j ->
  Z.testbit (spec_set_bit v i b) j = if j =? i then b else Z.testbit v j.
Proof.
  intros Hv Hi Hj. unfold spec_set_bit.
  pose proof (pow2_pos i Hi) as Hp.
  set (lo := v mod 2 ^ i). set (q := v / 2 ^ i).
  assert (Hv' : v = 2 ^ i * q + lo) by (apply Z.div_mod; lia).
  assert (Hlo : 0 <= lo < 2 ^ i) by (apply Z.mod_pos_bound; lia).
  assert (Hbit : b2z (Z.testbit v i) = q mod 2) by (apply Z.testbit_spec'; lia).
  pose proof (Z.div_mod q 2 ltac:(lia)) as Hq.
  assert (Hnew : v + 2 ^ i * (b2z b - b2z (Z.testbit v i)) = lo + (2 * (q / 2) + b2z b) * 2 ^ i).
  { rewrite Hbit. rewrite Hv' at 1. rewrite Hq at 1. ring. }
  rewrite Hnew.
  assert (Hold : v = lo + (2 * (q / 2) + b2z (Z.testbit v i)) * 2 ^ i).
  { rewrite Hbit. rewrite Hv' at 1. rewrite Hq at 1. ring. }
  rewrite testbit_split by lia.
  destruct (Z.eqb_spec j i) as [->|Hne].
  - destruct (Z.ltb_spec i i); [lia|]. rewrite Z.sub_diag. apply Z.testbit_0_r.
  - rewrite Hold. rewrite (testbit_split lo) by lia.
    destruct (Z.ltb_spec j i); [reflexivity|].
    replace (j - i) with (Z.succ (j - i - 1)) by lia.
    rewrite !Z.testbit_succ_r by lia. reflexivity.
Qed.

(* ------------------------------------------------------------------ Limb queries (u64 intrinsics) *)
Theorem limb_bits_correct x : is_word x -> 64 - wlz x = spec_bits x.
Proof. intros _. unfold wlz. change (spec_bits x) with (bitlen x). lia. Qed.

Theorem limb_trailing_zeros_correct x : is_word x -> wtz x = spec_trailing_zeros 64 x.
Proof.
  intros Hx. pose proof (wtz_spec x Hx) as (Hr & Hz & Hb & Hlow). unfold spec_trailing_zeros. symmetry.
  apply first_bit_found; try (change (Z.of_nat 64) with 64); try lia.
  - intros j Hj. apply Hlow. lia.
  - intros Hlt. apply Hb. intros E. assert (wtz x = 64) by (apply Hz; exact E). lia.
Qed.

Theorem limb_trailing_ones_correct x : is_word x -> wto x = spec_trailing_ones 64 x.
Proof.
  intros Hx. pose proof (wto_spec x Hx) as (Hr & Hz & Hb & Hlow). unfold spec_trailing_ones. symmetry.
  apply first_bit_found; try (change (Z.of_nat 64) with 64); try lia.
  - intros j Hj. apply Hlow. lia.
  - intros Hlt. apply Hb. intros E. assert (wto x = 64) by (apply Hz; exact E). lia.
Qed.

(** Limb shifts (inherent and every << >> <<= >>= form): the result for s < 64, a panic for every s >= 64,
    in both build profiles *)
Theorem limb_shift_correct lft dbg x s : is_word x -> 0 <= s ->
  limb_shift lft dbg x s =
  if s <? 64 then Val [[if lft then (x * 2 ^ s) mod B else x / 2 ^ s]] else PanicV.
Proof.
  intros Hx Hs. unfold limb_shift, fits_u32, U32.
  destruct (Z.ltb_spec s 64).
  - destruct (Z.leb_spec 0 s); [|lia]. destruct (Z.ltb_spec s (2 ^ 32)); [|lia]. cbn [andb negb].
    destruct (Z.leb_spec 64 s); [lia|]. reflexivity.
  - destruct ((0 <=? s) && (s <? 2 ^ 32)); cbn [negb]; [|reflexivity].
    destruct (Z.leb_spec 64 s); [reflexivity|lia].
Qed.

Theorem limb_shift_is_word (lft : bool) x s : is_word x -> 0 <= s < 64 ->
  is_word (if lft then (x * 2 ^ s) mod B else x / 2 ^ s).
Proof.
  intros Hx Hs. destruct lft.
  - apply is_word_mod.
  - apply (is_word_wshr x s Hx). lia.
Qed.
