(** C11, area conv (Model/Conv.v, owners C16 / C17 / C18 parts that exist): decoders and constructors.  The panics of
    the model are the length assertions of the fixed-size decoders (`copy_from_slice` / `assert_eq!` on the input size),
    the const-hex parser (wrong size or a non-hex character), the width assertions of from_u128 / from_i128 / widen /
    shorten, and `Odd::new(..).expect`. *)
From CB Require Import Model.Limbs Model.Conv Proofs.WordP Proofs.LimbsP Proofs.ConvDigitsP Proofs.ConvBytesP
  Proofs.ConvHexP Proofs.ConvBoxedP Proofs.ConvP Proofs.TotalityP.
From Coq Require Import ZArith Lia List String Bool.
Open Scope Z_scope.
Notation length := List.length.

Lemma conv_cover : covers conv_keys ops_conv_model = true.
Proof. vm_compute. reflexivity. Qed.
Lemma conv_quiet : quiet_keys_ok ops_conv_model ops_conv_spec conv_quiet_keys.
Proof. unfold conv_quiet_keys. quiet_tac ops_conv_model ops_conv_spec. Qed.

Local Ltac start := start_key ops_conv_model ops_conv_spec conv_ty.

Lemma bytes_ok_wfd bs : bytes_ok bs = true -> wfd 256 bs.
Proof.
  unfold bytes_ok, wfd. rewrite forallb_forall, Forall_forall. intros H x Hx. specialize (H x Hx).
  apply andb_prop in H. destruct H as [H1 H2]. apply Z.leb_le in H1. apply Z.ltb_lt in H2. lia.
Qed.
Lemma bytes_dom bs o : sp_bytes_arg bs o <> Unsupported -> wfd 256 bs /\ sp_bytes_arg bs o = o.
Proof.
  unfold sp_bytes_arg. destruct (bytes_ok bs) eqn:E; [|intros H; contradiction H; reflexivity].
  intros _. split; [apply bytes_ok_wfd; assumption | reflexivity].
Qed.
Local Ltac bdom := match goal with Hdom : sp_bytes_arg _ _ <> Unsupported |- _ =>
  let Hb := fresh "Hb" in let Hd := fresh "Hd" in
  apply bytes_dom in Hdom; destruct Hdom as [Hb Hd]; rewrite Hd; clear Hd end.
Lemma vpanic_iff o : vpanic o = PanicV <-> o = None.
Proof. destruct o; cbn; split; intros H; try discriminate; reflexivity. Qed.

Lemma from_be_slice_none n bs : uint_from_be_slice n bs = None <-> length bs <> (8 * n)%nat.
Proof. unfold uint_from_be_slice. destruct (Nat.eqb_spec (length bs) (8 * n)); split; intros H; try discriminate; tauto. Qed.
Lemma from_le_slice_none n bs : uint_from_le_slice n bs = None <-> length bs <> (8 * n)%nat.
Proof. unfold uint_from_le_slice. destruct (Nat.eqb_spec (length bs) (8 * n)); split; intros H; try discriminate; tauto. Qed.
Lemma if_eqb_panic_iff (x y : nat) v : (if Nat.eqb x y then Val v else PanicV) = PanicV <-> x <> y.
Proof. destruct (Nat.eqb_spec x y); split; intros H; try discriminate; tauto. Qed.

(* ---- fixed-size slice decoders ---- *)
Lemma key_uint_from_be_slice : key_ok ops_conv_model ops_conv_spec conv_ty "uint.from_be_slice".
Proof. start. bdom. rewrite vpanic_iff, from_be_slice_none, if_eqb_panic_iff. unfold cv_ln. tauto. Qed.
Lemma key_uint_from_le_slice : key_ok ops_conv_model ops_conv_spec conv_ty "uint.from_le_slice".
Proof. start. bdom. rewrite vpanic_iff, from_le_slice_none, if_eqb_panic_iff. unfold cv_ln. tauto. Qed.

(* ---- strict hex decoders (const-hex parsing): panic exactly on a wrong size or a non-hex character ---- *)
Lemma sp_hex_value_none le m cs : sp_hex_value le m cs = None <-> length cs <> m \/ hexvals cs = None.
Proof.
  unfold sp_hex_value. destruct (Nat.eqb_spec (length cs) m) as [E|E].
  - destruct (hexvals cs); split; intros H; try discriminate; try tauto. destruct H as [H|H]; [contradiction|discriminate].
  - tauto.
Qed.
Lemma hexres_panic_iff (h : hexres) n cs :
  match h with
  | HexLen => length cs <> n
  | HexInvalid => length cs = n /\ hexvals cs = None
  | HexOk r => length cs = n /\ exists ds, hexvals cs = Some ds /\ wf r /\ length r = (n / 16)%nat /\ True
  end -> (hex_fixed h = PanicV <-> length cs <> n \/ hexvals cs = None).
Proof.
  destruct h as [r| |]; cbn [hex_fixed].
  - intros (Hl & ds & Hd & _). split; [discriminate|]. intros [H|H]; [contradiction | rewrite Hd in H; discriminate].
  - intros (Hl & Hd). tauto.
  - intros Hl. tauto.
Qed.
Lemma hex_fixed_be_iff n cs : wfd 256 cs ->
  (hex_fixed (uint_from_be_hex n cs) = PanicV <-> length cs <> (16 * n)%nat \/ hexvals cs = None).
Proof.
  intros Hw. pose proof (from_be_hex_spec n cs Hw) as H. destruct (uint_from_be_hex n cs) as [r| |]; cbn [hex_fixed].
  - destruct H as (Hl & ds & Hd & _). split; [discriminate|]. intros [H|H]; [contradiction | rewrite Hd in H; discriminate].
  - tauto.
  - tauto.
Qed.
Lemma hex_fixed_le_iff n cs : wfd 256 cs ->
  (hex_fixed (uint_from_le_hex n cs) = PanicV <-> length cs <> (16 * n)%nat \/ hexvals cs = None).
Proof.
  intros Hw. pose proof (from_le_hex_spec n cs Hw) as H. destruct (uint_from_le_hex n cs) as [r| |]; cbn [hex_fixed].
  - destruct H as (Hl & ds & Hd & _). split; [discriminate|]. intros [H|H]; [contradiction | rewrite Hd in H; discriminate].
  - tauto.
  - tauto.
Qed.
Lemma match_opt_panic_iff {A} (o : option A) f : (match o with Some v => Val (f v) | None => PanicV end) = PanicV <-> o = None.
Proof. destruct o; split; intros H; try discriminate; reflexivity. Qed.

Lemma key_uint_from_be_hex : key_ok ops_conv_model ops_conv_spec conv_ty "uint.from_be_hex".
Proof.
  start. unfold sp_hex_fixed in *. bdom.
  rewrite (match_opt_panic_iff _ (fun v => [to_limbs (cv_nat 1 a) v])), sp_hex_value_none. apply hex_fixed_be_iff. assumption.
Qed.
Lemma key_uint_from_le_hex : key_ok ops_conv_model ops_conv_spec conv_ty "uint.from_le_hex".
Proof.
  start. unfold sp_hex_fixed in *. bdom.
  rewrite (match_opt_panic_iff _ (fun v => [to_limbs (cv_nat 1 a) v])), sp_hex_value_none. apply hex_fixed_le_iff. assumption.
Qed.

Lemma key_boxed_from_be_hex : key_ok ops_conv_model ops_conv_spec conv_ty "boxed.from_be_hex".
Proof.
  start. cbv zeta in *. bdom.
  pose proof (boxed_from_be_hex_spec (sarg 1 a) (arg 0 a) Hb) as H. cbv zeta in H.
  destruct (boxed_from_be_hex (sarg 1 a) (arg 0 a)) as [r| |]; cbn [hex_boxed].
  - destruct H as (Hl & ds & Hd & _). rewrite Hl, Nat.eqb_refl. cbn [negb].
    unfold sp_hex_value. rewrite Hl, Nat.eqb_refl, Hd. destruct (Nat.eqb _ 0); split; discriminate.
  - destruct H as (Hl & Hd). rewrite Hl, Nat.eqb_refl. cbn [negb].
    unfold sp_hex_value. rewrite Hl, Nat.eqb_refl, Hd. split; discriminate.
  - apply Nat.eqb_neq in H. rewrite H. cbn [negb]. tauto.
Qed.

(* ---- NonZero / Odd decoders ---- *)
Lemma nonzero_new_panic_iff o : nonzero_new o = PanicV <-> o = None.
Proof. destruct o; cbn; [destruct (is_zero_limbs l)|]; split; intros H; try discriminate; reflexivity. Qed.
Local Ltac nonzero_key lem :=
  start; unfold sp_nonzero, nonzero_from_be, nonzero_from_le in *; bdom;
  rewrite nonzero_new_panic_iff, lem;
  match goal with |- context[Nat.eqb ?x ?y] => destruct (Nat.eqb_spec x y) as [E|E] end; cbv zeta;
  [ match goal with |- context[if ?c then NoneV else _] => destruct c end;
    split; intros HP; try discriminate HP; contradiction
  | tauto ].
Lemma key_nonzero_from_be_bytes : key_ok ops_conv_model ops_conv_spec conv_ty "nonzero.from_be_bytes".
Proof. nonzero_key from_be_slice_none. Qed.
Lemma key_nonzero_from_le_bytes : key_ok ops_conv_model ops_conv_spec conv_ty "nonzero.from_le_bytes".
Proof. nonzero_key from_le_slice_none. Qed.
Lemma key_nonzero_from_le_byte_array : key_ok ops_conv_model ops_conv_spec conv_ty "nonzero.from_le_byte_array".
Proof. nonzero_key from_le_slice_none. Qed.

Lemma sp_odd_be n cs ds : length cs = (16 * n)%nat -> hexvals cs = Some ds ->
  (match sp_hex_value false (16 * n) cs with
   | Some v => if Z.odd v then Val [to_limbs n v] else PanicV | None => PanicV end) =
  (if Z.odd (evalb 16 (rev ds)) then Val [to_limbs n (evalb 16 (rev ds))] else PanicV).
Proof. intros Hl Hd. unfold sp_hex_value. rewrite Hl, Nat.eqb_refl, Hd, horner_evalb. reflexivity. Qed.
Lemma sp_odd_le n cs ds : length cs = (16 * n)%nat -> hexvals cs = Some ds ->
  (match sp_hex_value true (16 * n) cs with
   | Some v => if Z.odd v then Val [to_limbs n v] else PanicV | None => PanicV end) =
  (if Z.odd (evalb 256 (nib_pairs ds)) then Val [to_limbs n (evalb 256 (nib_pairs ds))] else PanicV).
Proof. intros Hl Hd. unfold sp_hex_value. rewrite Hl, Nat.eqb_refl, Hd, horner_evalb, rev_involutive. reflexivity. Qed.
Lemma sp_odd_bad le n cs : length cs <> (16 * n)%nat \/ hexvals cs = None ->
  (match sp_hex_value le (16 * n) cs with
   | Some v => if Z.odd v then Val [to_limbs n v] else PanicV | None => PanicV end) = PanicV.
Proof. intros H. apply (proj2 (sp_hex_value_none le (16 * n) cs)) in H. rewrite H. reflexivity. Qed.

Lemma key_odd_from_be_hex : key_ok ops_conv_model ops_conv_spec conv_ty "odd.from_be_hex".
Proof.
  start. unfold sp_odd in *. bdom. pose proof (odd_from_be_hex_spec (cv_nat 1 a) (arg 0 a) Hb) as H.
  destruct (odd_from_be_hex (cv_nat 1 a) (arg 0 a)) as [vs| | | |]; try contradiction.
  - destruct vs as [|r [|? ?]]; try contradiction. destruct H as (Hl & ds & Hd & _ & _ & He & Ho).
    rewrite (sp_odd_be _ _ ds Hl Hd), <- He, Ho. split; discriminate.
  - split; [intros _|reflexivity]. destruct H as [H|[H|(ds & Hd & Ho)]].
    + apply sp_odd_bad. tauto.
    + apply sp_odd_bad. tauto.
    + destruct (Nat.eq_dec (length (arg 0 a)) (16 * cv_nat 1 a)) as [Hl|Hl]; [|apply sp_odd_bad; tauto].
      rewrite (sp_odd_be _ _ ds Hl Hd), Ho. reflexivity.
Qed.
Lemma key_odd_from_le_hex : key_ok ops_conv_model ops_conv_spec conv_ty "odd.from_le_hex".
Proof.
  start. unfold sp_odd in *. bdom. pose proof (odd_from_le_hex_spec (cv_nat 1 a) (arg 0 a) Hb) as H.
  destruct (odd_from_le_hex (cv_nat 1 a) (arg 0 a)) as [vs| | | |]; try contradiction.
  - destruct vs as [|r [|? ?]]; try contradiction. destruct H as (Hl & ds & Hd & _ & _ & He & Ho).
    rewrite (sp_odd_le _ _ ds Hl Hd), <- He, Ho. split; discriminate.
  - split; [intros _|reflexivity]. destruct H as [H|[H|(ds & Hd & Ho)]].
    + apply sp_odd_bad. tauto.
    + apply sp_odd_bad. tauto.
    + destruct (Nat.eq_dec (length (arg 0 a)) (16 * cv_nat 1 a)) as [Hl|Hl]; [|apply sp_odd_bad; tauto].
      rewrite (sp_odd_le _ _ ds Hl Hd), Ho. reflexivity.
Qed.

(* ---- conversions from primitives: the width assertions ---- *)
Lemma ltb_panic_iff (x y : nat) v : (if Nat.ltb x y then PanicV else Val v) = PanicV <-> (x < y)%nat.
Proof. destruct (Nat.ltb_spec x y); split; intros H'; try discriminate; try lia; reflexivity. Qed.
Lemma uint_from_small_none n v : uint_from_small n v = None <-> (n < 1)%nat.
Proof. destruct n; cbn; split; intros H; try discriminate; try lia; reflexivity. Qed.
Lemma uint_from_wide_none n v : uint_from_wide_word n v = None <-> (n < 2)%nat.
Proof. unfold uint_from_wide_word. destruct (Nat.ltb_spec n 2); split; intros H'; try discriminate; try lia; reflexivity. Qed.
Lemma uint_from_u128_none n v : uint_from_u128 n v = None <-> (n < 2)%nat.
Proof. unfold uint_from_u128. destruct (Nat.ltb_spec n 2); split; intros H'; try discriminate; try lia; reflexivity. Qed.
Lemma int_from_small_none k n v : int_from_small k n v = None <-> (n < 1)%nat.
Proof. destruct n; cbn; split; intros H; try discriminate; try lia; reflexivity. Qed.
Lemma int_from_i128_none n v : int_from_i128 n v = None <-> (n < 2)%nat.
Proof. unfold int_from_i128. destruct (Nat.ltb_spec n 2); split; intros H'; try discriminate; try lia; reflexivity. Qed.

Lemma key_uint_from_prim : key_ok ops_conv_model ops_conv_spec conv_ty "uint.from_prim".
Proof.
  start. cbv zeta in *. destruct (negb (sp_prim_fits _ _)); [contradiction Hdom; reflexivity|].
  rewrite ltb_panic_iff. unfold m_uint_from_prim.
  destruct (sarg 1 a =? 128); cbn [orb].
  - rewrite vpanic_iff, uint_from_u128_none. tauto.
  - destruct (sarg 1 a =? 129).
    + rewrite vpanic_iff, uint_from_wide_none. tauto.
    + rewrite vpanic_iff, uint_from_small_none. tauto.
Qed.
Lemma key_int_from_prim : key_ok ops_conv_model ops_conv_spec conv_ty "int.from_prim".
Proof.
  start. cbv zeta in *. destruct (negb (sp_prim_fits _ _)); [contradiction Hdom; reflexivity|].
  rewrite ltb_panic_iff. unfold m_int_from_prim.
  destruct (sarg 1 a =? 128).
  - rewrite vpanic_iff, int_from_i128_none. tauto.
  - rewrite vpanic_iff, int_from_small_none. tauto.
Qed.
Lemma key_boxed_from_prim : key_ok ops_conv_model ops_conv_spec conv_ty "boxed.from_prim".
Proof.
  start. cbv zeta in *. destruct (negb (sp_prim_fits _ _)); [contradiction Hdom; reflexivity|].
  destruct (sarg 1 a =? 128); split; intros HP; discriminate.
Qed.

(* ---- BoxedUint::widen / shorten: the documented precision assertions ---- *)
Lemma key_boxed_widen : key_ok ops_conv_model ops_conv_spec conv_ty "boxed.widen".
Proof.
  start. cbv zeta in *. unfold cv_ln in *.
  destruct (Nat.eqb_spec (length (arg 0 a)) 0) as [E|E]; [contradiction Hdom; reflexivity|].
  rewrite vpanic_iff, (boxed_widen_panics (arg 0 a) (sarg 1 a) ltac:(lia)).
  destruct (Z.ltb_spec (sarg 1 a) (64 * Z.of_nat (length (arg 0 a)))); split; intros H'; try discriminate; try lia; reflexivity.
Qed.
Lemma key_boxed_shorten : key_ok ops_conv_model ops_conv_spec conv_ty "boxed.shorten".
Proof.
  start. cbv zeta in *. unfold cv_ln in *.
  destruct (Nat.eqb_spec (length (arg 0 a)) 0) as [E|E]; [contradiction Hdom; reflexivity|].
  pose proof (sarg_word 1 a Hwf) as [Hp _]. rewrite vpanic_iff.
  destruct (Z.eq_dec (sarg 1 a) 0) as [E0|E0].
  - rewrite E0. unfold boxed_shorten, lenZ.
    replace (64 * Z.of_nat (length (arg 0 a)) <? 0) with false by (symmetry; apply Z.ltb_ge; lia).
    change (length (zero_with_precision 0)) with 1%nat.
    replace (Nat.ltb (length (arg 0 a)) 1) with false by (symmetry; apply Nat.ltb_ge; lia).
    split; discriminate.
  - rewrite (boxed_shorten_panics (arg 0 a) (sarg 1 a) ltac:(lia)).
    destruct (Z.ltb_spec (64 * Z.of_nat (length (arg 0 a))) (sarg 1 a)); split; intros H'; try discriminate; try lia; reflexivity.
Qed.

(* ---- serde: the inner fixed-size decoder is only reached with exactly 8n bytes ---- *)
Lemma uint_serde_de_never_panics n bs : uint_serde_de n bs <> PanicV.
Proof.
  unfold uint_serde_de. destruct (Nat.ltb _ 8); [discriminate|]. cbv zeta.
  destruct (Z.ltb_spec (Z.of_nat (length (skipn 8 bs))) (word_from_le_bytes (firstn 8 bs))) as [|Hge]; [discriminate|].
  destruct (Z.eqb_spec (word_from_le_bytes (firstn 8 bs)) (Z.of_nat (8 * n))) as [E|E]; cbn [negb]; [|discriminate].
  destruct (uint_from_le_slice n (firstn (8 * n) (skipn 8 bs))) eqn:F; [discriminate|].
  exfalso. apply from_le_slice_none in F. apply F. rewrite firstn_length. lia.
Qed.
Lemma key_uint_serde_de : key_ok ops_conv_model ops_conv_spec conv_ty "uint.serde_de".
Proof.
  start. cbv zeta in *. bdom.
  match goal with |- _ <-> ?X = PanicV => assert (Hs : X <> PanicV) by np end.
  split; intros HP; exfalso; [exact (uint_serde_de_never_panics _ _ HP) | exact (Hs HP)].
Qed.

#[export] Hint Resolve key_uint_from_be_slice key_uint_from_le_slice key_uint_from_be_hex key_uint_from_le_hex
  key_boxed_from_be_hex key_nonzero_from_be_bytes key_nonzero_from_le_bytes key_nonzero_from_le_byte_array
  key_odd_from_be_hex key_odd_from_le_hex key_uint_from_prim key_int_from_prim key_boxed_from_prim key_boxed_widen
  key_boxed_shorten key_uint_serde_de : c11keys.

Theorem conv_panics_iff_documented : panics_iff_documented ops_conv_model ops_conv_spec conv_keys conv_ty.
Proof. apply panics_from_parts; [exact conv_quiet | unfold conv_panic_keys; by_keys]. Qed.

(** the Result-returning decoders never panic, whatever the bytes and the precision (empty, oversized, garbage) *)
Theorem conv_total_forms_never_panic : total_forms_never_panic ops_conv_model conv_total_keys conv_total_ty.
Proof.
  intros k dbg a Hin _. cbn [In conv_total_keys] in Hin. destruct Hin as [<-|[<-|[<-|[]]]].
  - open_tabs ops_conv_model ops_conv_spec. unfold boxed_from_slice. np.
  - open_tabs ops_conv_model ops_conv_spec. unfold boxed_from_slice. np.
  - open_tabs ops_conv_model ops_conv_spec. apply uint_serde_de_never_panics.
Qed.
