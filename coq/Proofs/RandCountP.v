(** C19, part 5: uniformity as COUNTING theorems. For one acceptance round the map from raw RNG words to
    the candidate value has, for every admissible value, the same number of preimages (an explicit
    bijection with an index set that does not depend on the value); rejected rounds restart the sampler
    on the rest of the stream. *)
From CB Require Import Model.Limbs Model.AddSub Model.Rand Proofs.WordP Proofs.LimbsP Proofs.AddSubP
  Proofs.RandBaseP Proofs.RandModP Proofs.RandBitsP.
From Coq Require Import ZArith Lia List Bool.
Open Scope Z_scope. Open Scope list_scope.

(** [0, 2^N) is in bijection with [0, 2^k) x [0, 2^(N-k)) through  x |-> (x mod 2^k, x / 2^k) *)
Lemma rnd_split_bij N k : 0 <= k <= N ->
  (forall v j, 0 <= v < 2 ^ k -> 0 <= j < 2 ^ (N - k) ->
     0 <= v + j * 2 ^ k < 2 ^ N /\ (v + j * 2 ^ k) mod 2 ^ k = v /\ (v + j * 2 ^ k) / 2 ^ k = j) /\
  (forall x, 0 <= x < 2 ^ N ->
     x = x mod 2 ^ k + (x / 2 ^ k) * 2 ^ k /\ 0 <= x mod 2 ^ k < 2 ^ k /\ 0 <= x / 2 ^ k < 2 ^ (N - k)).
Proof.
  intros Hk. assert (Hp : 2 ^ N = 2 ^ (N - k) * 2 ^ k) by (rewrite <- rnd_pow_split by lia; f_equal; lia).
  pose proof (rnd_pow_pos k ltac:(lia)). pose proof (rnd_pow_pos (N - k) ltac:(lia)).
  split.
  - intros v j Hv Hj.
    assert (j * 2 ^ k <= (2 ^ (N - k) - 1) * 2 ^ k) by (apply Z.mul_le_mono_nonneg_r; lia).
    assert (0 <= j * 2 ^ k) by (apply Z.mul_nonneg_nonneg; lia).
    split; [lia|].
    destruct (div_mod_unique_pos (2 ^ k) j v (v + j * 2 ^ k)) as [Hq Hr]; [lia | ring | auto].
  - intros x Hx. pose proof (Z.div_mod x (2 ^ k) ltac:(lia)). pose proof (Z.mod_pos_bound x (2 ^ k) ltac:(lia)).
    split; [lia|]. split; [assumption|]. split; [apply Z.div_pos; lia|].
    apply Z.div_lt_upper_bound; lia.
Qed.

(* ------------------------------------------------------------------ RandomBits *)
(** every value below 2^bl has exactly 2^(64 nz - bl) preimages among the nz-word inputs, namely the
    words of  v + j * 2^bl  for the 2^(64 nz - bl) indices j *)
Theorem sp_random_bits_counting bl nz : 0 <= bl <= 64 * Z.of_nat nz ->
  forall v, 0 <= v < 2 ^ bl ->
  (forall j, 0 <= j < 2 ^ (64 * Z.of_nat nz - bl) ->
     let ws := to_limbs nz (v + j * 2 ^ bl) in
     wf ws /\ length ws = nz /\ eval ws mod 2 ^ bl = v /\ eval ws / 2 ^ bl = j) /\
  (forall ws, wf ws -> length ws = nz -> eval ws mod 2 ^ bl = v ->
     ws = to_limbs nz (v + (eval ws / 2 ^ bl) * 2 ^ bl) /\ 0 <= eval ws / 2 ^ bl < 2 ^ (64 * Z.of_nat nz - bl)).
Proof.
  intros Hbl v Hv. destruct (rnd_split_bij (64 * Z.of_nat nz) bl Hbl) as [Hfwd Hbwd]. split.
  - intros j Hj ws. destruct (Hfwd v j Hv Hj) as (Hr & Hm & Hd).
    assert (He : eval ws = v + j * 2 ^ bl) by (apply to_limbs_small; rewrite rnd_Bn_pow; assumption).
    rewrite He. subst ws. split; [apply wf_to_limbs|]. split; [apply length_to_limbs|]. split; assumption.
  - intros ws Hw Hl Hm. pose proof (eval_bounds ws Hw) as Hb. rewrite Hl, rnd_Bn_pow in Hb.
    destruct (Hbwd _ Hb) as (Hx & _ & Hq). split; [|assumption].
    rewrite <- Hm, <- Hx. rewrite <- Hl. symmetry. apply to_limbs_eval. assumption.
Qed.

(* ------------------------------------------------------------------ Limb::random_mod *)
(** one attempt maps the word w to  w mod 2^k  (k = bit length of the modulus): every value below the
    modulus has exactly 2^(64-k) preimages *)
Theorem sp_limb_mod_counting m : 0 < m < B -> let k := rnd_bitlen m in
  forall v, 0 <= v < m ->
  (forall j, 0 <= j < 2 ^ (64 - k) -> let w := v + j * 2 ^ k in is_word w /\ w mod 2 ^ k = v /\ w / 2 ^ k = j) /\
  (forall w, is_word w -> w mod 2 ^ k = v -> w = v + (w / 2 ^ k) * 2 ^ k /\ 0 <= w / 2 ^ k < 2 ^ (64 - k)).
Proof.
  intros Hm k v Hv. pose proof (rnd_bitlen_spec m ltac:(lia)) as [_ Hub]. fold k in Hub.
  assert (Hk : 0 <= k <= 64).
  { split; [apply rnd_bitlen_nonneg | apply rnd_bitlen_lt; [lia | rewrite <- B_val; lia]]. }
  destruct (rnd_split_bij 64 k Hk) as [Hfwd Hbwd]. split.
  - intros j Hj w. destruct (Hfwd v j ltac:(lia) Hj) as (Hr & Hmo & Hd).
    split; [apply rnd_lt_word; assumption | auto].
  - intros w Hw Hmo. apply rnd_word_lt in Hw. destruct (Hbwd w Hw) as (Hx & _ & Hq).
    rewrite Hmo in Hx. auto.
Qed.

(* ------------------------------------------------------------------ RandomMod *)
(** integer-level shape of a positive modulus: p + 1 significant words, top word h with tb bits *)
Lemma sp_shape_of M : 0 < M ->
  exists p h tb, Z.to_nat (rnd_ceil (rnd_bitlen M) 64) = S p /\ tb = rnd_bitlen M - 64 * Z.of_nat p /\
    Bn p <= M < Bn (S p) /\ h = M / Bn p /\ 0 < h < B /\ tb = rnd_bitlen h /\ 1 <= tb <= 64.
Proof.
  intros HM. set (n := Z.to_nat (rnd_bitlen M)).
  pose proof (rnd_bitlen_spec M HM) as [_ Hub]. pose proof (rnd_bitlen_nonneg M).
  assert (Hfit : 0 <= M < Bn n).
  { split; [lia|]. rewrite rnd_Bn_pow. eapply Z.lt_le_trans; [exact Hub|]. apply rnd_pow_le. lia. }
  set (m := to_limbs n M). assert (He : eval m = M) by (apply to_limbs_small; assumption).
  destruct (rnd_shape_of m (wf_to_limbs n M) ltac:(lia)) as (p & h & tb & Hnl & Hsh).
  rewrite He in *. destruct Hsh as [? ? ? ? ? ? ? ? Hbits]. rewrite He in *.
  exists p, h, tb. rewrite rnd_sp_ceil64. repeat split; try assumption; lia.
Qed.

Theorem sp_random_mod_counting M : 0 < M ->
  let k := rnd_bitlen M in
  let p := (Z.to_nat (rnd_ceil k 64) - 1)%nat in
  let tb := k - 64 * Z.of_nat p in
  1 <= tb <= 64 /\
  forall v, 0 <= v < M ->
  (* each index j < 2^(64 - tb) gives a raw candidate (top word, p low words) that is accepted with value v *)
  (forall j, 0 <= j < 2 ^ (64 - tb) ->
     let w0 := v / Bn p + j * 2 ^ tb in
     is_word w0 /\ wf (to_limbs p v) /\ length (to_limbs p v) = p /\
     sp_mod_candidate tb p w0 (to_limbs p v) = v /\ w0 / 2 ^ tb = j /\ w0 mod 2 ^ tb <= M / Bn p) /\
  (* and these are all the raw candidates with value v *)
  (forall w0 lows, is_word w0 -> wf lows -> length lows = p -> sp_mod_candidate tb p w0 lows = v ->
     lows = to_limbs p v /\ w0 = v / Bn p + (w0 / 2 ^ tb) * 2 ^ tb /\ 0 <= w0 / 2 ^ tb < 2 ^ (64 - tb)).
Proof.
  intros HM k p tb. destruct (sp_shape_of M HM) as (p' & h & tb' & Hnl & Htb' & HB & Hh & Hhw & Htbh & Htbr).
  assert (Hp : p = p') by (unfold p, k; lia). subst p'. assert (Ht : tb = tb') by (unfold tb, k; lia). subst tb'.
  split; [assumption|]. intros v Hv.
  pose proof (Bn_pos p) as HBp. pose proof (rnd_bitlen_spec h ltac:(lia)) as [_ Hhub]. rewrite <- Htbh in Hhub.
  assert (Hvh : 0 <= v / Bn p <= h).
  { split; [apply Z.div_pos; lia | rewrite Hh; apply Z.div_le_mono; lia]. }
  pose proof (Z.div_mod v (Bn p) ltac:(lia)) as Hdm. pose proof (Z.mod_pos_bound v (Bn p) ltac:(lia)) as Hmb.
  destruct (rnd_split_bij 64 tb ltac:(lia)) as [Hfwd Hbwd].
  assert (Hvr : 0 <= v / Bn p < 2 ^ tb) by (destruct Hvh; split; [assumption|]; eapply Z.le_lt_trans; eassumption).
  split.
  - intros j Hj w0. destruct (Hfwd (v / Bn p) j Hvr Hj) as (Hr & Hmo & Hd).
    split; [apply rnd_lt_word; assumption|]. split; [apply wf_to_limbs|]. split; [apply length_to_limbs|].
    unfold sp_mod_candidate. fold w0 in Hmo, Hd. rewrite Hmo, eval_to_limbs. repeat split; try assumption; lia.
  - intros w0 lows Hw0 Hwl Hll Hc. unfold sp_mod_candidate in Hc.
    pose proof (eval_bounds lows Hwl) as Hb. rewrite Hll in Hb.
    destruct (div_mod_unique_pos (Bn p) (w0 mod 2 ^ tb) (eval lows) v) as [Hq Hr]; [lia | lia |].
    apply rnd_word_lt in Hw0. destruct (Hbwd w0 Hw0) as (Hx & _ & Hqb).
    split; [apply to_limbs_unique; auto|]. split; [lia | assumption].
Qed.

(** early rejection never discards an acceptable candidate: a top word above the modulus' top limb makes
    the candidate at least the modulus whatever the low words are *)
Theorem sp_random_mod_early_sound M : 0 < M ->
  let k := rnd_bitlen M in
  let p := (Z.to_nat (rnd_ceil k 64) - 1)%nat in
  let tb := k - 64 * Z.of_nat p in
  forall w0 lows, wf lows -> w0 mod 2 ^ tb > M / Bn p -> M <= sp_mod_candidate tb p w0 lows.
Proof.
  intros HM k p tb w0 lows Hwl Hgt. unfold sp_mod_candidate.
  pose proof (Bn_pos p) as HBp. pose proof (eval_nonneg lows Hwl).
  pose proof (Z.div_mod M (Bn p) ltac:(lia)) as Hdm. pose proof (Z.mod_pos_bound M (Bn p) ltac:(lia)) as Hmb.
  assert ((M / Bn p + 1) * Bn p <= w0 mod 2 ^ tb * Bn p) by (apply Z.mul_le_mono_nonneg_r; lia). lia.
Qed.

(* ------------------------------------------------------------------ rounds restart the sampler *)
Definition rnd_sp_shift (d : Z) (s : rnd_sp) : rnd_sp :=
  match s with SpOk v k b => SpOk v (k + d) (b + 8 * d) | SpExhausted => SpExhausted end.

Lemma sp_mod_loop_fuel M nl tb : forall f1 f2 ws cnt, (length ws <= f1)%nat -> (length ws <= f2)%nat ->
  sp_mod_loop f1 M nl tb ws cnt = sp_mod_loop f2 M nl tb ws cnt.
Proof.
  induction f1 as [|f1 IH]; intros f2 ws cnt H1 H2.
  - destruct ws; [|cbn in H1; lia]. destruct f2; reflexivity.
  - destruct f2 as [|f2]; [destruct ws; [reflexivity | cbn in H2; lia]|].
    cbn [sp_mod_loop]. destruct ws as [|w ws]; [reflexivity|]. cbn [length] in H1, H2.
    destruct (w mod 2 ^ tb >? M / Bn (nl - 1)); [apply IH; lia|].
    destruct (length ws <? nl - 1)%nat; [reflexivity|].
    destruct (_ <? M); [reflexivity|]. apply IH; rewrite skipn_length; lia.
Qed.

Lemma sp_mod_loop_shift M nl tb d : forall f ws cnt,
  sp_mod_loop f M nl tb ws (cnt + d) = rnd_sp_shift d (sp_mod_loop f M nl tb ws cnt).
Proof.
  induction f as [|f IH]; intros ws cnt; [reflexivity|].
  cbn [sp_mod_loop]. destruct ws as [|w ws]; [reflexivity|].
  destruct (w mod 2 ^ tb >? M / Bn (nl - 1)).
  - replace (cnt + d + 1) with (cnt + 1 + d) by lia. apply IH.
  - destruct (length ws <? nl - 1)%nat; [reflexivity|].
    destruct (_ <? M).
    + cbn [rnd_sp_shift]. f_equal; lia.
    + replace (cnt + d + Z.of_nat nl) with (cnt + Z.of_nat nl + d) by lia. apply IH.
Qed.

(** The sampler is "rounds until acceptance": an early-rejected top word costs one word, a complete
    candidate p + 1 words; an accepted candidate is returned, a rejected one restarts the sampler on the
    rest of the stream (only the consumption counters are carried over). *)
Theorem sp_random_mod_rounds M : 0 < M ->
  let k := rnd_bitlen M in
  let p := (Z.to_nat (rnd_ceil k 64) - 1)%nat in
  let tb := k - 64 * Z.of_nat p in
  (forall w0 rest, w0 mod 2 ^ tb > M / Bn p ->
     sp_random_mod M (w0 :: rest) = rnd_sp_shift 1 (sp_random_mod M rest)) /\
  (forall w0 lows rest, length lows = p -> w0 mod 2 ^ tb <= M / Bn p ->
     sp_random_mod M (w0 :: lows ++ rest) =
       if sp_mod_candidate tb p w0 lows <? M
       then SpOk (sp_mod_candidate tb p w0 lows) (Z.of_nat (S p)) (8 * Z.of_nat (S p))
       else rnd_sp_shift (Z.of_nat (S p)) (sp_random_mod M rest)).
Proof.
  intros HM k p tb. destruct (sp_shape_of M HM) as (p' & h & tb' & Hnl & Htb' & _).
  assert (Hp : p = p') by (unfold p, k; lia). subst p'. assert (Ht : tb = tb') by (unfold tb, k; lia). subst tb'.
  unfold sp_random_mod. rewrite Hnl.
  replace (Z.of_nat (S p) - 1) with (Z.of_nat p) by lia. change (rnd_bitlen M - 64 * Z.of_nat p) with tb. split.
  - intros w0 rest Hgt. cbn [length sp_mod_loop]. replace (S p - 1)%nat with p by lia.
    destruct (Z.gtb_spec (w0 mod 2 ^ tb) (M / Bn p)); [|lia].
    change (0 + 1) with (0 + 1). rewrite (sp_mod_loop_shift M (S p) tb 1 (length rest) rest 0). reflexivity.
  - intros w0 lows rest Hl Hle. cbn [length sp_mod_loop]. replace (S p - 1)%nat with p by lia.
    destruct (Z.gtb_spec (w0 mod 2 ^ tb) (M / Bn p)); [lia|].
    rewrite app_length. destruct (Nat.ltb_spec (length lows + length rest) p); [lia|].
    assert (Hf : firstn p (lows ++ rest) = lows).
    { rewrite <- Hl. rewrite firstn_app, Nat.sub_diag, firstn_all, firstn_O, app_nil_r. reflexivity. }
    assert (Hs : skipn p (lows ++ rest) = rest).
    { rewrite <- Hl. rewrite skipn_app, Nat.sub_diag, skipn_all. reflexivity. }
    rewrite Hf, Hs.
    unfold sp_mod_candidate. destruct (_ <? M); [f_equal; lia|].
    rewrite (sp_mod_loop_shift M (S p) tb (Z.of_nat (S p)) _ rest 0).
    f_equal. apply sp_mod_loop_fuel; lia.
Qed.
