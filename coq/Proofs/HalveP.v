(** Modular halving (Model/Halve.v): for an odd modulus m and a < m the result h satisfies h < m and 2 h = a (mod m),
    for every limb count; the boxed in-place variant returns the same limbs as the fixed one. *)
From CB Require Import Model.Limbs Model.AddSub Model.Bits Model.Sqrt Model.Cmp Model.Halve
  Proofs.WordP Proofs.LimbsP Proofs.AddSubP Proofs.BitsWordP Proofs.BitQueryP Proofs.BitsAllP Proofs.SqrtLimbsP Proofs.CmpP.
From Coq Require Import ZArith List Lia Bool.
Open Scope Z_scope.
Notation length := List.length.

Lemma testbit_small v i : 0 <= v < 2 ^ i -> 0 <= i -> Z.testbit v i = false.
Proof.
  intros Hv Hi. destruct (Z.eq_dec v 0) as [->|Hn]; [apply Z.testbit_0_l|].
  apply Z.bits_above_log2; [lia|]. apply Z.log2_lt_pow2; lia.
Qed.

Lemma spec_set_bit_top v i b : 0 <= v < 2 ^ i -> 0 <= i -> spec_set_bit v i b = v + 2 ^ i * b2z b.
Proof. intros Hv Hi. unfold spec_set_bit. rewrite (testbit_small v i Hv Hi). cbn [b2z]. lia. Qed.

Lemma Bn_top n : n <> 0%nat -> Bn n = 2 * 2 ^ (64 * Z.of_nat n - 1) /\ 0 <= 64 * Z.of_nat n - 1.
Proof.
  intros Hn. rewrite Bn_pow. split; [|lia].
  replace (64 * Z.of_nat n) with (1 + (64 * Z.of_nat n - 1)) at 1 by lia.
  rewrite Z.pow_add_r by lia. reflexivity.
Qed.

(** the arithmetic core: shifting the (BITS+1)-bit sum s + Bn*c right by one *)
Lemma half_with_carry n s c : n <> 0%nat -> 0 <= s < Bn n -> 0 <= c <= 1 ->
  s / 2 + 2 ^ (64 * Z.of_nat n - 1) * c = (s + Bn n * c) / 2.
Proof.
  intros Hn Hs Hc. destruct (Bn_top n Hn) as [E _]. rewrite E.
  replace (s + 2 * 2 ^ (64 * Z.of_nat n - 1) * c) with (s + (2 ^ (64 * Z.of_nat n - 1) * c) * 2) by lia.
  rewrite Z.div_add by lia. reflexivity.
Qed.

Lemma spec_half_props a m : 0 <= a < m -> Z.odd m = true ->
  0 <= spec_half a m < m /\ 2 * spec_half a m = (if Z.odd a then a + m else a).
Proof.
  intros Ha Hm. unfold spec_half.
  destruct (Z.odd a) eqn:Eo.
  - assert (Ev : Z.even (a + m) = true).
    { rewrite Z.even_add, <- !Z.negb_odd, Eo, Hm. reflexivity. }
    apply Z.even_spec in Ev. destruct Ev as [k Hk]. rewrite Hk.
    rewrite Z.mul_comm, Z.div_mul by lia. lia.
  - assert (Ev : Z.even a = true) by (rewrite <- Z.negb_odd, Eo; reflexivity).
    apply Z.even_spec in Ev. destruct Ev as [k Hk]. rewrite Hk.
    rewrite Z.mul_comm, Z.div_mul by lia. lia.
Qed.

Lemma div_by_2_correct a m :
  wf a -> wf m -> length m = length a -> a <> [] -> Z.of_nat (length a) < U32 ->
  let r := div_by_2 a m in
  wf r /\ length r = length a /\
  (eval a + eval m < 2 * Bn (length a) -> eval r = spec_half (eval a) (eval m)).
Proof.
  intros Ha Hm Hl Hne Hu. unfold div_by_2.
  assert (Hn : length a <> 0%nat) by (destruct a; [congruence | discriminate]).
  rewrite (uint_is_odd_spec a Ha).
  unfold uint_adc. destruct (adc_limbs a m 0) as [s c] eqn:E.
  destruct (adc_limbs_correct a m 0 s c Ha Hm (eq_sym Hl) ltac:(unfold is_word; pose proof B_gt1; lia) E)
    as (Ev & Ws & Ls & Wc & Hc1).
  specialize (Hc1 ltac:(lia)).
  assert (Hcw : is_word (select_word (choice_of_bool (Z.odd (eval a))) 0 c)).
  { rewrite select_word_choice by (auto; unfold is_word; pose proof B_gt1; lia).
    destruct (Z.odd (eval a)); [assumption | unfold is_word; pose proof B_gt1; lia]. }
  rewrite (from_word_nonzero_bool _ Hcw).
  rewrite select_limbs_choice by auto.
  set (sel := if Z.odd (eval a) then s else a).
  assert (Wsel : wf sel) by (unfold sel; destruct (Z.odd (eval a)); assumption).
  assert (Lsel : length sel = length a) by (unfold sel; destruct (Z.odd (eval a)); congruence).
  destruct (shr1_limbs_spec sel Wsel) as (Esh & Wsh & Lsh).
  destruct (Bn_top (length a) Hn) as [Etop Hi].
  destruct set_bit_all as (SB & _).
  unfold lenZ.
  destruct (SB (shr1_limbs sel) (64 * Z.of_nat (length a) - 1)
              (negb (select_word (choice_of_bool (Z.odd (eval a))) 0 c =? 0)) Wsh
              ltac:(rewrite Lsh, Lsel; exact Hu) ltac:(rewrite Lsh, Lsel; lia)) as (Wr & Lr & Er).
  split; [exact Wr|]. split; [congruence|].
  intros Hsum. rewrite Er, Esh.
  pose proof (eval_bounds sel Wsel) as Bsel. rewrite Lsel in Bsel.
  rewrite spec_set_bit_top; [|rewrite Etop in Bsel; split; [apply Z.div_pos; lia | apply Z.div_lt_upper_bound; lia] | lia].
  pose proof (eval_bounds a Ha) as Ba. pose proof (eval_bounds m Hm) as Bm.
  pose proof (eval_bounds s Ws) as Bs. rewrite Ls in Bs. rewrite Hl in Bm.
  unfold spec_half, sel. rewrite select_word_choice by (auto; unfold is_word; pose proof B_gt1; lia).
  destruct (Z.odd (eval a)) eqn:Eo.
  - assert (Hb : b2z (negb (c =? 0)) = c).
    { destruct (Z.eqb_spec c 0); cbn [negb b2z]; unfold is_word in Wc; lia. }
    rewrite Hb, half_with_carry by (auto; unfold is_word in Wc; lia).
    f_equal. lia.
  - cbn [Z.eqb negb b2z]. lia.
Qed.

(** the boxed in-place variant computes the same limbs *)
Lemma map_wand_MAXW l : wf l -> map (fun w => wand w MAXW) l = l.
Proof.
  induction 1 as [|x l Hx Hl IH]; [reflexivity|]. cbn [map]. rewrite IH. f_equal. unfold wand. rewrite Z.land_comm. apply land_MAXW. exact Hx.
Qed.
Lemma map_wand_0 l : map (fun w => wand w 0) l = zeros (length l).
Proof. induction l as [|x l IH]; [reflexivity|]. cbn [map length]. rewrite IH. unfold wand. rewrite Z.land_0_r. reflexivity. Qed.

Lemma adc_zeros a : wf a -> adc_limbs a (zeros (length a)) 0 = (a, 0).
Proof.
  intros Ha. destruct (adc_limbs a (zeros (length a)) 0) as [s c] eqn:E.
  destruct (adc_limbs_correct a (zeros (length a)) 0 s c Ha (wf_zeros _) (eq_sym (length_zeros _))
              ltac:(unfold is_word; pose proof B_gt1; lia) E) as (Ev & Ws & Ls & Wc & Hc1).
  rewrite eval_zeros in Ev. pose proof (eval_bounds a Ha). pose proof (eval_bounds s Ws) as Bs. rewrite Ls in Bs.
  pose proof (Bn_pos (length a)). unfold is_word in Wc.
  assert (c = 0) by nia. subst c. f_equal. apply eval_inj; auto. lia.
Qed.

Lemma div_by_2_boxed_eq a m :
  wf a -> wf m -> length m = length a -> a <> [] -> Z.of_nat (length a) < U32 ->
  div_by_2_boxed a m = div_by_2 a m.
Proof.
  intros Ha Hm Hl Hne Hu. unfold div_by_2_boxed, div_by_2.
  rewrite (integer_is_odd_spec a Ha), (uint_is_odd_spec a Ha).
  replace (resize (length a) m) with m by (rewrite <- Hl; symmetry; apply resize_same).
  unfold uint_adc.
  destruct (adc_limbs a m 0) as [s c] eqn:E.
  destruct (adc_limbs_correct a m 0 s c Ha Hm (eq_sym Hl) ltac:(unfold is_word; pose proof B_gt1; lia) E)
    as (Ev & Ws & Ls & Wc & Hc1).
  specialize (Hc1 ltac:(lia)).
  assert (W0 : is_word 0) by (unfold is_word; pose proof B_gt1; lia).
  assert (WM : is_word MAXW) by (unfold is_word; pose proof B_gt1; rewrite MAXW_val; lia).
  destruct (Z.odd (eval a)) eqn:Eo; cbn [b2z].
  - rewrite wneg_1, select_word_MAXW by assumption.
    rewrite map_wand_MAXW by assumption. rewrite E.
    rewrite (select_word_choice true 0 c W0 Wc).
    rewrite (select_limbs_choice true a s Ha Ws (eq_sym Ls)).
    f_equal. rewrite (from_word_nonzero_bool c Wc).
    unfold is_word in Wc. assert (Hc : c = 0 \/ c = 1) by lia. destruct Hc as [-> | ->]; reflexivity.
  - rewrite wneg_0, select_word_0. rewrite map_wand_0, Hl, adc_zeros by assumption.
    rewrite (select_word_choice false 0 c W0 Wc).
    rewrite (select_limbs_choice false a s Ha Ws (eq_sym Ls)).
    reflexivity.
Qed.

(** statement in the property's words: canonical and congruent *)
Lemma div_by_2_halves a m :
  wf a -> wf m -> length m = length a -> a <> [] -> Z.of_nat (length a) < U32 ->
  Z.odd (eval m) = true -> eval a < eval m ->
  let r := div_by_2 a m in
  wf r /\ length r = length a /\ 0 <= eval r < eval m /\ (2 * eval r) mod eval m = eval a.
Proof.
  intros Ha Hm Hl Hne Hu Ho Hlt.
  destruct (div_by_2_correct a m Ha Hm Hl Hne Hu) as (Wr & Lr & Er).
  pose proof (eval_bounds a Ha) as Ba. pose proof (eval_bounds m Hm) as Bm. rewrite Hl in Bm.
  specialize (Er ltac:(lia)).
  destruct (spec_half_props (eval a) (eval m) ltac:(lia) Ho) as (Hr & H2).
  cbv zeta. rewrite Er. repeat split; auto; try lia.
  rewrite H2. destruct (Z.odd (eval a)).
  - replace (eval a + eval m) with (eval a + 1 * eval m) by lia. rewrite Z.mod_add by lia. apply Z.mod_small. lia.
  - apply Z.mod_small. lia.
Qed.

(** the model table equals the spec table on the documented domain *)
Lemma halve_tables_agree dbg k a : Forall wf a -> In k ["uint.div_by_2"; "boxed.div_by_2"]%string ->
  Z.of_nat (ln 0 a) < U32 ->
  match lookup k ops_halve_spec with Some f => f dbg a | None => Unsupported end <> Unsupported ->
  match lookup k ops_halve_model with Some f => f dbg a | None => Unsupported end =
  match lookup k ops_halve_spec with Some f => f dbg a | None => Unsupported end.
Proof.
  intros Hwf Hk Hu.
  assert (W0 : wf (arg 0 a)).
  { unfold arg. destruct (nth_in_or_default 0 a []) as [Hin | ->]; [|apply wf_nil].
    rewrite Forall_forall in Hwf. apply Hwf. exact Hin. }
  assert (W1 : wf (arg 1 a)).
  { unfold arg. destruct (nth_in_or_default 1 a []) as [Hin | ->]; [|apply wf_nil].
    rewrite Forall_forall in Hwf. apply Hwf. exact Hin. }
  cbn in Hk.
  assert (Core : halve_dom a = true ->
    div_by_2 (arg 0 a) (arg 1 a) = to_limbs (ln 0 a) (spec_half (ev 0 a) (ev 1 a)) /\
    div_by_2_boxed (arg 0 a) (arg 1 a) = to_limbs (ln 0 a) (spec_half (ev 0 a) (ev 1 a)) /\
    ln 0 a = ln 1 a).
  { unfold halve_dom. intros D.
    apply andb_prop in D. destruct D as [D D4]. apply andb_prop in D. destruct D as [D D3].
    apply andb_prop in D. destruct D as [D1 D2].
    apply Nat.eqb_eq in D1. apply negb_true_iff in D2. apply Nat.eqb_neq in D2. apply Z.ltb_lt in D4.
    unfold ln, ev in *.
    assert (Hne : arg 0 a <> []) by (intros E; rewrite E in D2; apply D2; reflexivity).
    destruct (div_by_2_halves (arg 0 a) (arg 1 a) W0 W1 (eq_sym D1) Hne Hu D3 D4) as (Wr & Lr & Rr & _).
    destruct (div_by_2_correct (arg 0 a) (arg 1 a) W0 W1 (eq_sym D1) Hne Hu) as (_ & _ & Er).
    pose proof (eval_bounds (arg 0 a) W0) as Ba. pose proof (eval_bounds (arg 1 a) W1) as Bm. rewrite <- D1 in Bm.
    specialize (Er ltac:(lia)).
    assert (E1 : div_by_2 (arg 0 a) (arg 1 a) = to_limbs (length (arg 0 a)) (spec_half (eval (arg 0 a)) (eval (arg 1 a)))).
    { apply to_limbs_unique; auto. rewrite Er. symmetry. apply Z.mod_small. rewrite <- Er. lia. }
    split; [exact E1|]. split; [|exact D1].
    rewrite div_by_2_boxed_eq; auto. }
  destruct Hk as [<- | [<- | []]]; cbn [lookup String.eqb Ascii.eqb Bool.eqb ops_halve_model ops_halve_spec];
    destruct (halve_dom a) eqn:D; try congruence; intros _;
    destruct (Core eq_refl) as (E1 & E2 & E3); unfold sp_val.
  - rewrite E1. reflexivity.
  - unfold div_by_2_boxed_op. unfold ln in E3. rewrite E3, Nat.eqb_refl, andb_false_r, E2. reflexivity.
Qed.
