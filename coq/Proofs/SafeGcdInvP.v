(** C10 proofs, part 8: the safegcd entry points on Uint / BoxedUint values: [sg_inv] (SafeGcdInverter::inv,
    inv_vartime, BoxedSafeGcdInverter::invert, invert_vartime) and [sg_gcd].  Convergence of the divsteps iteration
    within the iteration count (Bernstein-Yang, Theorem 11.2) is the named hypothesis [sg_conv]. *)
From CB Require Import Model.Limbs Model.AddSub Model.SafeGcd Proofs.WordP Proofs.LimbsP Proofs.BitsP
  Proofs.SafeGcdArithP Proofs.SafeGcdJumpP Proofs.SafeGcdUnsatP Proofs.SafeGcdStepP Proofs.SafeGcdDivstepsP
  Proofs.SafeGcdCoreP Proofs.InvMod2kP Proofs.LimbConvertP.
From Coq Require Import ZArith Lia List Bool Znumtheory Zdiv Setoid Morphisms.
Open Scope Z_scope.

(* ---- sizes ---- *)
Lemma unsat_nlimbs_ge n : 64 * Z.of_nat n + 64 <= 62 * Z.of_nat (unsat_nlimbs n).
Proof.
  unfold unsat_nlimbs. set (x := 64 * Z.of_nat n + 64).
  assert (0 <= (x + 61) / 62) by (apply Z.div_pos; unfold x; lia).
  rewrite Z2Nat.id by assumption. pose proof (Z.div_mod (x + 61) 62 ltac:(lia)). pose proof (Z.mod_pos_bound (x + 61) 62 ltac:(lia)). lia.
Qed.
Lemma unsat_nlimbs_le n : Z.of_nat (unsat_nlimbs n) <= 2 * Z.of_nat n + 3.
Proof.
  unfold unsat_nlimbs. set (x := 64 * Z.of_nat n + 64).
  assert (0 <= (x + 61) / 62) by (apply Z.div_pos; unfold x; lia).
  rewrite Z2Nat.id by assumption. apply Z.lt_succ_r. apply Z.div_lt_upper_bound; unfold x; lia.
Qed.
Lemma unsat_nlimbs_pos n : (0 < unsat_nlimbs n)%nat.
Proof. pose proof (unsat_nlimbs_ge n). lia. Qed.
Lemma small_L_unsat n : Z.of_nat n <= 2 ^ 32 -> small_L (unsat_nlimbs n).
Proof. intros H. unfold small_L. pose proof (unsat_nlimbs_le n). change (2 ^ 32) with 4294967296 in H. unfold P62. lia. Qed.
Lemma M62_ge_Bn n L : 64 * Z.of_nat n + 64 <= 62 * Z.of_nat L -> Bn n * P64 <= M62 L.
Proof.
  intros H. rewrite M62_pow2, Bn_pow2, P64_pow, <- Z.pow_add_r by lia. apply Z.pow_le_mono_r; lia.
Qed.

Lemma from_uint_sval L x : wf x -> 64 * lenZ x + 64 <= 62 * Z.of_nat L ->
  wf62 (from_uint L x) /\ length (from_uint L x) = L /\ sval (from_uint L x) = eval x.
Proof.
  intros W H. destruct (from_uint_spec L x W ltac:(lia)) as (W1 & L1 & E1).
  repeat split; [assumption | assumption |].
  pose proof (eval_bounds x W) as Bx. pose proof (M62_ge_Bn (length x) L H) as HM. pose proof (Bn_pos (length x)).
  unfold sval. cbv zeta. rewrite L1, E1.
  destruct (Z.ltb_spec (2 * eval x) (M62 L)); [reflexivity|]. unfold P64 in HM. lia.
Qed.

Lemma eval_cg_P62 m : wf m -> cg P62 (eval m) (hd 0 m).
Proof.
  destruct m as [|x r]; intros W; cbn [eval hd]; [reflexivity|].
  apply cg_divide; [pfacts; lia|]. exists (4 * eval r). rewrite B_P64, P64_P62. ring.
Qed.
Lemma odd_eval_hd m : wf m -> Z.odd (eval m) = Z.odd (hd 0 m).
Proof.
  destruct m as [|x r]; intros W; cbn [eval hd]; [reflexivity|].
  rewrite odd_add_even; [reflexivity|]. rewrite B_P64. apply even_mul_l. reflexivity.
Qed.
Lemma hd_word m : wf m -> 0 <= hd 0 m < P64.
Proof.
  destruct m as [|x r]; intros W; cbn [hd]; [unfold P64; lia|].
  inversion W as [|? ? Hx _]; subst. unfold is_word in Hx. rewrite B_P64 in Hx. assumption.
Qed.

(* ---- the inverter ---- *)
Section Inv.
  Context (m a adj : list Z) (n : nat) (ub : Z).
  Context (Wm : wf m) (Wa : wf a) (Wadj : wf adj) (Lm : length m = n) (La : length a = n) (Ladj : length adj = n)
          (Hn : (0 < n)%nat) (Hn32 : Z.of_nat n <= 2 ^ 32) (Om : Z.odd (eval m) = true)
          (Hub : eval m - 1 <= ub <= eval m) (HA : eval adj <= ub).
  Let L := unsat_nlimbs n.
  Let mv := eval m. Let av := eval a. Let A := eval adj.

  Lemma sg_inv_body vartime boxed d f conv :
    sg_core vartime boxed (from_uint L adj) (from_uint L m) (from_uint L a) (inv_mod2_62 (hd 0 m)) = Some (d, f, conv) ->
    let antiunit := u_eq f (u_minus_one L) in
    let ret := sg_norm (from_uint L m) d antiunit in
    let is_some := u_eq f (u_one L) || antiunit in
    u_is_negative ret = false /\ wf (to_uint n ret) /\ length (to_uint n ret) = n /\
    0 <= eval (to_uint n ret) <= ub /\
    (is_some = true -> Z.gcd av mv = 1 /\ (av * eval (to_uint n ret)) mod mv = A mod mv) /\
    (conv = true -> Z.gcd av mv = 1 -> is_some = true).
  Proof.
    intros E antiunit ret is_some.
    pose proof (unsat_nlimbs_ge n) as HLn. fold L in HLn. pose proof (unsat_nlimbs_pos n) as HL. fold L in HL.
    pose proof (small_L_unsat n Hn32) as HS. fold L in HS.
    destruct (from_uint_sval L m Wm ltac:(unfold lenZ; rewrite Lm; lia)) as (Wf0 & Lf0 & Sf0).
    destruct (from_uint_sval L a Wa ltac:(unfold lenZ; rewrite La; lia)) as (Wg & Lg & Sg).
    destruct (from_uint_sval L adj Wadj ltac:(unfold lenZ; rewrite Ladj; lia)) as (We & Le & Se).
    fold mv in Sf0. fold av in Sg. fold A in Se.
    pose proof (eval_bounds m Wm) as Bm. rewrite Lm in Bm. fold mv in Bm.
    pose proof (eval_bounds a Wa) as Ba. rewrite La in Ba. fold av in Ba.
    pose proof (eval_bounds adj Wadj) as BA. rewrite Ladj in BA. fold A in BA.
    pose proof (M62_ge_Bn n L HLn) as HM. pose proof P64_P62 as P4. pfacts.
    assert (Hm : 0 < mv) by (destruct (Z.eq_dec mv 0) as [Z0|Z0]; [unfold mv in Z0; rewrite Z0 in Om; discriminate | lia]).
    fold mv in Hub, Om. fold A in HA.
    assert (HM2 : 2 * P62 * (Bn n - 1) < M62 L) by (clear - HM; pose proof (Bn_pos n); unfold P64, P62 in *; lia).
    assert (Fit : 4 * P62 * mv <= M62 L).
    { assert (HH : P64 * mv <= P64 * Bn n) by (apply Z.mul_le_mono_nonneg_l; lia). clear - HH HM. unfold P64, P62 in *. lia. }
    assert (Hinv : (hd 0 (from_uint L m) * inv_mod2_62 (hd 0 m)) mod P62 = 1).
    { destruct (inv_mod2_62_correct (hd 0 m) (hd_word m Wm)) as (_ & EI); [rewrite <- odd_eval_hd by assumption; assumption|].
      assert (EI' : cg P62 (hd 0 m * inv_mod2_62 (hd 0 m)) 1) by (apply cg_iff; rewrite EI; reflexivity).
      pose proof (sval_cg_P62 (from_uint L m) Wf0 ltac:(lia)) as C1. rewrite Sf0 in C1.
      pose proof (eval_cg_P62 m Wm) as C2. fold mv in C2.
      assert (C : cg P62 (hd 0 (from_uint L m) * inv_mod2_62 (hd 0 m)) 1).
      { rewrite <- C1, C2. exact EI'. }
      apply cg_iff in C. rewrite C. reflexivity. }
    destruct (sg_core_fg vartime boxed _ _ _ _ d f conv L (Bn n - 1) Wf0 Wg Lf0 Lg HL HS ltac:(lia) ltac:(lia) HM2
                ltac:(unfold PRE; left; rewrite Sf0; assumption) E) as (Wf & Lf & Bf & G' & GC & HG').
    rewrite Sf0, Sg in GC.
    destruct (sg_core_de (from_uint L m) (inv_mod2_62 (hd 0 m)) mv A ub L Wf0 Lf0 HL HS Sf0 Hm Om Fit Hinv Hub
                vartime boxed _ _ d f conv (Bn n - 1) Wg Lg We Le Se ltac:(lia) ltac:(lia) ltac:(lia) HM2 E) as (Wd & Ld & Rd & Cd).
    rewrite Sg in Cd.
    (* the flags *)
    assert (Eau : antiunit = (sval f =? -1)).
    { unfold antiunit. rewrite u_eq_sval by (try apply wf62_minus_one; try rewrite length_minus_one; assumption).
      rewrite sval_minus_one by assumption. reflexivity. }
    assert (Eone : u_eq f (u_one L) = (sval f =? 1)).
    { rewrite u_eq_sval by (try apply wf62_one; try rewrite length_one; assumption).
      rewrite sval_one by assumption. reflexivity. }
    (* the normalisation *)
    assert (Fit8 : 8 * mv <= M62 (length (from_uint L m))) by (rewrite Lf0; clear - Fit Hm; unfold P62 in *; lia).
    destruct (sg_norm_spec (from_uint L m) d antiunit mv ub Wf0 Wd ltac:(congruence) ltac:(lia) Sf0 Hm Fit8 Hub Rd)
      as (Wr & Lr & Rr & Nr & Cr). fold ret in Wr, Lr, Rr, Nr, Cr.
    destruct (to_uint_spec n ret Wr ltac:(unfold lenZ; rewrite Lr, Lf0; lia)) as (Wx & Lx & Ex).
    assert (Ex' : eval (to_uint n ret) = sval ret).
    { rewrite Ex, <- (sval_nonneg_uval ret Wr) by lia. apply Z.mod_small. lia. }
    split; [assumption|]. split; [assumption|]. split; [assumption|]. split; [lia|]. split.
    - intros Hs. unfold is_some in Hs. rewrite Eone, Eau in Hs.
      assert (Hf : sval f = 1 \/ sval f = -1).
      { apply orb_true_iff in Hs. destruct Hs as [Hs|Hs]; apply Z.eqb_eq in Hs; lia. }
      assert (G1 : Z.gcd av mv = 1).
      { rewrite Z.gcd_comm, <- GC. destruct Hf as [-> | ->]; [apply Z.gcd_1_l | rewrite (Z.gcd_opp_l 1 G' : Z.gcd (-1) G' = Z.gcd 1 G'); apply Z.gcd_1_l]. }
      split; [assumption|]. apply cg_iff. rewrite Ex', Cr.
      destruct Hf as [Hf|Hf]; rewrite Eau, Hf in *; cbn [Z.eqb Pos.eqb] in *.
      + rewrite Z.mul_comm, Cd. apply cg_of_eq. ring.
      + transitivity (- (sval d * av)); [apply cg_of_eq; ring|]. rewrite Cd. apply cg_of_eq. ring.
    - intros Hc G1. specialize (HG' Hc). subst G'. rewrite Z.gcd_0_r in GC.
      rewrite Z.gcd_comm in G1. unfold is_some. rewrite Eone, Eau.
      apply orb_true_iff. destruct (Z.eqb_spec (sval f) 1); [left; reflexivity|]. right. apply Z.eqb_eq. lia.
  Qed.

  (** SafeGcdInverter::inv / inv_vartime, BoxedSafeGcdInverter::invert / invert_vartime under convergence *)
  Theorem sg_inv_partial dbg vartime boxed :
    sg_conv vartime boxed (from_uint L adj) (from_uint L m) (from_uint L a) (inv_mod2_62 (hd 0 m)) ->
    exists x some, sg_inv dbg vartime boxed adj m a = SgOk x some /\ wf x /\ length x = n /\ 0 <= eval x <= ub /\
      (some = true <-> Z.gcd av mv = 1) /\ (some = true -> (av * eval x) mod mv = A mod mv).
  Proof.
    intros (d & f & E). destruct (sg_inv_body vartime boxed d f true E) as (Nr & Wx & Lx & Rx & Hs & Hc). cbv zeta in Nr, Wx, Lx, Rx, Hs, Hc.
    unfold sg_inv. rewrite Lm. fold L. rewrite E. cbn [negb]. rewrite !andb_false_r. rewrite Nr. cbn [andb].
    eexists. eexists. split; [reflexivity|]. split; [assumption|]. split; [assumption|]. split; [assumption|]. split.
    - split; [intros H; apply Hs; assumption | intros H; apply Hc; [reflexivity | assumption]].
    - intros H. apply Hs. assumption.
  Qed.

  (** without any convergence assumption: a returned inverse is an inverse *)
  Theorem sg_inv_sound dbg vartime boxed x :
    sg_inv dbg vartime boxed adj m a = SgOk x true ->
    wf x /\ length x = n /\ 0 <= eval x <= ub /\ Z.gcd av mv = 1 /\ (av * eval x) mod mv = A mod mv.
  Proof.
    unfold sg_inv. rewrite Lm. fold L.
    destruct (sg_core vartime boxed (from_uint L adj) (from_uint L m) (from_uint L a) (inv_mod2_62 (hd 0 m))) as [[[d f] conv]|] eqn:E; [|discriminate].
    destruct (sg_inv_body vartime boxed d f conv E) as (Nr & Wx & Lx & Rx & Hs & Hc). cbv zeta in Nr, Wx, Lx, Rx, Hs, Hc.
    destruct (dbg && negb vartime && negb boxed && negb conv); [discriminate|].
    rewrite Nr. cbn [andb]. intros H. inversion H as [[H1 H2]]. rewrite H2 in *. specialize (Hs eq_refl).
    repeat split; try assumption; try lia; apply Hs.
  Qed.
End Inv.

(* ---- gcd ---- *)
Section Gcd.
  Context (f g : list Z) (n : nat).
  Context (Wf : wf f) (Wg : wf g) (Lf : length f = n) (Lg : length g = n)
          (Hn : (0 < n)%nat) (Hn32 : Z.of_nat n <= 2 ^ 32)
          (Hpre : Z.odd (eval f) = true \/ Z.odd (eval g) = true \/ eval g = 0).
  Let L := unsat_nlimbs n.

  Lemma sg_gcd_body vartime boxed e inverse d f' conv :
    sg_core vartime boxed e (from_uint L f) (from_uint L g) inverse = Some (d, f', conv) ->
    let r := if u_is_negative f' then u_neg f' else f' in
    u_is_negative r = false /\ wf (to_uint n r) /\ length (to_uint n r) = n /\
    (conv = true -> eval (to_uint n r) = Z.gcd (eval f) (eval g)).
  Proof.
    intros E r.
    pose proof (unsat_nlimbs_ge n) as HLn. fold L in HLn. pose proof (unsat_nlimbs_pos n) as HL. fold L in HL.
    pose proof (small_L_unsat n Hn32) as HS. fold L in HS.
    destruct (from_uint_sval L f Wf ltac:(unfold lenZ; rewrite Lf; lia)) as (Wf0 & Lf0 & Sf0).
    destruct (from_uint_sval L g Wg ltac:(unfold lenZ; rewrite Lg; lia)) as (Wg0 & Lg0 & Sg0).
    pose proof (eval_bounds f Wf) as Bf. rewrite Lf in Bf.
    pose proof (eval_bounds g Wg) as Bg. rewrite Lg in Bg.
    pose proof (M62_ge_Bn n L HLn) as HM.
    assert (HM2 : 2 * P62 * (Bn n - 1) < M62 L) by (clear - HM; pose proof (Bn_pos n); unfold P64, P62 in *; lia).
    assert (HM3 : 4 * Bn n <= M62 L) by (clear - HM; pose proof (Bn_pos n); unfold P64 in *; lia).
    assert (HP : PRE (sval (from_uint L f)) (sval (from_uint L g)) 1).
    { rewrite Sf0, Sg0. unfold PRE. destruct Hpre as [H|[H|H]]; [left; assumption | right; left; split; [lia | assumption] | right; right; assumption]. }
    destruct (sg_core_fg vartime boxed _ _ _ _ d f' conv L (Bn n - 1) Wf0 Wg0 Lf0 Lg0 HL HS ltac:(lia) ltac:(lia) HM2 HP E)
      as (Wf' & Lf' & Bf' & G' & GC & HG').
    rewrite Sf0, Sg0 in GC.
    assert (R : wf62 r /\ length r = L /\ sval r = Z.abs (sval f')).
    { unfold r. rewrite u_is_negative_sval by (try apply nonempty_len; (assumption || lia)).
      destruct (Z.ltb_spec (sval f') 0).
      - destruct (u_neg_sval f' Wf') as (W & Ln & E1); [rewrite Lf'; lia|]. rewrite E1. repeat split; try assumption; lia.
      - repeat split; try assumption; lia. }
    destruct R as (Wr & Lr & Sr).
    destruct (to_uint_spec n r Wr ltac:(unfold lenZ; rewrite Lr; lia)) as (Wx & Lx & Ex).
    assert (Ex' : eval (to_uint n r) = Z.abs (sval f')).
    { rewrite Ex, <- (sval_nonneg_uval r Wr) by lia. rewrite Sr. apply Z.mod_small. lia. }
    split; [|split; [assumption | split; [assumption|]]].
    - rewrite u_is_negative_sval by (try apply nonempty_len; (assumption || lia)). apply Z.ltb_ge. lia.
    - intros Hc. specialize (HG' Hc). subst G'. rewrite Z.gcd_0_r in GC. rewrite Ex'. assumption.
  Qed.

  (** SafeGcdInverter::gcd / gcd_vartime and the boxed twins under convergence *)
  Theorem sg_gcd_partial dbg vartime boxed :
    sg_conv vartime boxed (u_one L) (from_uint L f) (from_uint L g) (inv_mod2_62 (hd 0 f)) ->
    sg_gcd dbg vartime boxed f g = SgOk (to_limbs n (Z.gcd (eval f) (eval g))) true.
  Proof.
    intros (d & f' & E). destruct (sg_gcd_body vartime boxed _ _ d f' true E) as (Nr & Wx & Lx & Ex). cbv zeta in Nr, Wx, Lx, Ex.
    unfold sg_gcd. rewrite Lf, Lg, Nat.max_id.
    replace (unsat_nlimbs (if boxed then n else n)) with L by (destruct boxed; reflexivity).
    rewrite E. cbn [negb]. rewrite !andb_false_r. rewrite Nr. cbn [andb].
    fold L. rewrite Nat.eqb_refl. cbn [negb]. rewrite !andb_false_r.
    f_equal. set (x := to_uint n (if u_is_negative f' then u_neg f' else f')) in *.
    transitivity (to_limbs (length x) (eval x)); [symmetry; apply to_limbs_eval; assumption | rewrite Lx, (Ex eq_refl); reflexivity].
  Qed.
End Gcd.
