(** C08 proofs, part 3: the arithmetic of Z/mZ for odd m used by the specification:
    cancellation of powers of two, the halving map, x * R^-1 as 64n halvings (redc_spec) and its uniqueness,
    the two computations of m^-1 mod 2^64 (bit-serial loop of inv_mod2k_vartime, Hensel lifting of the spec). *)
From CB Require Import Model.Limbs Model.AddSub Model.Mul Model.Div Model.ModArith Model.Monty
  Proofs.WordP Proofs.LimbsP.
From Coq Require Import ZArith Znumtheory Zpow_facts Lia List Bool.
Open Scope Z_scope.

(* ------------------------------------------------------------------ *)
(** * odd numbers are units modulo powers of two, and conversely *)
Lemma odd_mod2 m : Z.odd m = true -> m mod 2 = 1.
Proof. intros H. rewrite Zmod_odd, H. reflexivity. Qed.

Lemma odd_rel_prime_2 m : Z.odd m = true -> rel_prime m 2.
Proof.
  intros H. apply rel_prime_sym. apply prime_rel_prime; [apply prime_2|].
  intros D. apply Zdivide_mod in D. rewrite (odd_mod2 m H) in D. discriminate.
Qed.
Lemma odd_rel_prime_pow2 m e : Z.odd m = true -> 0 <= e -> rel_prime m (2 ^ e).
Proof. intros H He. apply rel_prime_Zpower_r; [assumption | apply odd_rel_prime_2; assumption]. Qed.
Lemma odd_rel_prime_B m : Z.odd m = true -> rel_prime m B.
Proof. intros H. rewrite B_val. apply odd_rel_prime_pow2; [assumption | lia]. Qed.
Lemma Bn_pow2 n : Bn n = 2 ^ (64 * Z.of_nat n).
Proof.
  induction n as [|n IH]; [rewrite Bn_0; reflexivity|].
  rewrite Bn_S, IH, B_val, <- Z.pow_add_r by lia. f_equal. lia.
Qed.
Lemma odd_rel_prime_Bn m n : Z.odd m = true -> rel_prime m (Bn n).
Proof. intros H. rewrite Bn_pow2. apply odd_rel_prime_pow2; [assumption | lia]. Qed.

(** cancellation of a unit *)
Lemma cancel_mod c m x y : 0 < m -> rel_prime m c -> (c * x) mod m = (c * y) mod m -> x mod m = y mod m.
Proof.
  intros Hm Hrp E.
  assert (D : (m | c * (x - y))).
  { apply Z.mod_divide; [lia|]. rewrite Z.mul_sub_distr_l, Zminus_mod, E, Z.sub_diag. apply Z.mod_0_l. lia. }
  apply Gauss in D; [|assumption]. destruct D as [q Hq].
  replace x with (y + q * m) by lia. apply Z.mod_add. lia.
Qed.
Lemma cancel_mod_r c m x y : 0 < m -> rel_prime m c -> (x * c) mod m = (y * c) mod m -> x mod m = y mod m.
Proof. intros Hm Hrp E. apply (cancel_mod c m); auto. rewrite !(Z.mul_comm c). exact E. Qed.

Lemma residue_unique m r s : 0 <= r < m -> 0 <= s < m -> r mod m = s mod m -> r = s.
Proof. intros Hr Hs E. rewrite !Z.mod_small in E by lia. exact E. Qed.

(* ------------------------------------------------------------------ *)
(** * halving modulo an odd m *)
Lemma half_mod_correct m x : Z.odd m = true -> 0 < m -> 0 <= x < m ->
  0 <= half_mod m x < m /\ (2 * half_mod m x = x \/ 2 * half_mod m x = x + m).
Proof.
  intros Ho Hm Hx. unfold half_mod. destruct (Z.even x) eqn:Ex.
  - pose proof (Zmod_even x) as Hp. rewrite Ex in Hp. cbv iota in Hp.
    pose proof (Z.div_mod x 2 ltac:(lia)). split; [|left]; lia.
  - pose proof (Zmod_even (x + m)) as Hp. rewrite Z.even_add, Ex in Hp.
    rewrite <- Z.negb_odd, Ho in Hp. cbn in Hp.
    pose proof (Z.div_mod (x + m) 2 ltac:(lia)). split; [|right]; lia.
Qed.
Lemma half_mod_congr m x : Z.odd m = true -> 0 < m -> 0 <= x < m -> (2 * half_mod m x) mod m = x mod m.
Proof.
  intros Ho Hm Hx. destruct (half_mod_correct m x Ho Hm Hx) as (_ & [-> | ->]); [reflexivity|].
  replace (x + m) with (x + 1 * m) by lia. apply Z.mod_add. lia.
Qed.

Lemma iter_half_correct m : Z.odd m = true -> 0 < m -> forall k y, 0 <= y < m ->
  0 <= Nat.iter k (half_mod m) y < m /\ (2 ^ Z.of_nat k * Nat.iter k (half_mod m) y) mod m = y mod m.
Proof.
  intros Ho Hm. induction k as [|k IH]; intros y Hy.
  - change (Nat.iter 0 (half_mod m) y) with y. split; [assumption|]. change (Z.of_nat 0) with 0. rewrite Z.pow_0_r, Z.mul_1_l. reflexivity.
  - change (Nat.iter (S k) (half_mod m) y) with (half_mod m (Nat.iter k (half_mod m) y)). destruct (IH y Hy) as (Hb & Hc). set (r := Nat.iter k (half_mod m) y) in *.
    destruct (half_mod_correct m r Ho Hm Hb) as (Hb' & _). split; [assumption|].
    rewrite Nat2Z.inj_succ, Z.pow_succ_r by lia.
    replace (2 * 2 ^ Z.of_nat k * half_mod m r) with (2 ^ Z.of_nat k * (2 * half_mod m r)) by ring.
    rewrite Zmult_mod, (half_mod_congr m r Ho Hm Hb), <- Zmult_mod. exact Hc.
Qed.

(** redc_spec n m x is THE r in [0, m) with r * R = x (mod m) *)
Theorem redc_spec_char n m x : Z.odd m = true -> 0 < m ->
  0 <= redc_spec n m x < m /\ (redc_spec n m x * Bn n) mod m = x mod m.
Proof.
  intros Ho Hm. unfold redc_spec.
  destruct (iter_half_correct m Ho Hm (64 * n) (x mod m) (Z.mod_pos_bound x m Hm)) as (Hb & Hc).
  split; [assumption|]. rewrite Bn_pow2, Z.mul_comm.
  replace (64 * Z.of_nat n) with (Z.of_nat (64 * n)) by lia. rewrite Hc. apply Z.mod_mod. lia.
Qed.
Theorem redc_spec_unique n m x r : Z.odd m = true -> 0 < m ->
  0 <= r < m -> (r * Bn n) mod m = x mod m -> r = redc_spec n m x.
Proof.
  intros Ho Hm Hr E. destruct (redc_spec_char n m x Ho Hm) as (Hb & Hc).
  apply (residue_unique m); try assumption.
  apply (cancel_mod_r (Bn n) m); [assumption | apply odd_rel_prime_Bn; assumption | congruence].
Qed.

(** values in Montgomery form: r = (v * R) mod m is retrieved as v *)
Lemma redc_of_form n m v : Z.odd m = true -> 0 < m -> 0 <= v < m -> redc_spec n m ((v * Bn n) mod m) = v.
Proof.
  intros Ho Hm Hv. symmetry. apply redc_spec_unique; try assumption. rewrite Z.mod_mod by lia. reflexivity.
Qed.

(* ------------------------------------------------------------------ *)
(** * m^-1 mod 2^64 : the bit-serial loop of inv_mod2k_vartime *)
Lemma inv2k_loop_correct a : Z.odd a = true -> 0 <= a < B -> forall cnt i x b,
  0 <= i -> 0 <= x < 2 ^ i -> 0 <= b < B -> (a * x + 2 ^ i * b) mod B = 1 ->
  let r := inv2k_loop cnt i a x b in
  0 <= r < 2 ^ (i + Z.of_nat cnt) /\ exists b', 0 <= b' < B /\ (a * r + 2 ^ (i + Z.of_nat cnt) * b') mod B = 1.
Proof.
  intros Ho Ha. induction cnt as [|c IH]; intros i x b Hi Hx Hb Hinv.
  - cbn [inv2k_loop]. rewrite Z.add_0_r. split; [assumption|]. exists b. split; assumption.
  - cbn [inv2k_loop]. cbv zeta.
    replace (i + Z.of_nat (S c)) with ((i + 1) + Z.of_nat c) by lia.
    pose proof B_pos. pose proof (Z.pow_pos_nonneg 2 i ltac:(lia) Hi) as Hp.
    assert (Hp1 : 2 ^ (i + 1) = 2 * 2 ^ i) by (rewrite Z.pow_add_r by lia; lia).
    assert (Beven : B mod 2 = 0) by (rewrite B_val; reflexivity).
    pose proof (Z.mod_pos_bound b 2 ltac:(lia)) as Hb2.
    pose proof (odd_mod2 a Ho) as Ha2.
    apply IH; try lia.
    + destruct (b mod 2 =? 1) eqn:Eb; [apply Z.eqb_eq in Eb; rewrite Eb | apply Z.eqb_neq in Eb; replace (b mod 2) with 0 by lia]; lia.
    + destruct (b mod 2 =? 1) eqn:Eb.
      * unfold wsub, wrap. pose proof (Z.mod_pos_bound (b - a) B ltac:(lia)).
        split; [apply Z.div_pos; lia | apply Z.div_lt_upper_bound; lia].
      * split; [apply Z.div_pos; lia | apply Z.div_lt_upper_bound; lia].
    + destruct (b mod 2 =? 1) eqn:Eb.
      * apply Z.eqb_eq in Eb. rewrite Eb. unfold wsub, wrap.
        (* (b - a) mod B is even *)
        set (d := (b - a) mod B).
        assert (Hd : exists e, d = b - a + e * B).
        { exists (- ((b - a) / B)). unfold d. rewrite Z.mod_eq by lia. ring. }
        destruct Hd as [e He].
        assert (Hd2 : d mod 2 = 0).
        { rewrite He. rewrite Zplus_mod, Zmult_mod, Beven, Z.mul_0_r, Zmod_0_l, Z.add_0_r, Z.mod_mod by lia.
          rewrite Zminus_mod, Eb, Ha2. reflexivity. }
        pose proof (Z.div_mod d 2 ltac:(lia)) as Dd. rewrite Hd2 in Dd.
        replace (a * (x + 1 * 2 ^ i) + 2 ^ (i + 1) * (d / 2)) with (a * x + 2 ^ i * b + (2 ^ i * e) * B) by (rewrite Hp1; nia).
        rewrite Z.mod_add by lia. exact Hinv.
      * apply Z.eqb_neq in Eb. assert (Hb0 : b mod 2 = 0) by lia. rewrite Hb0.
        pose proof (Z.div_mod b 2 ltac:(lia)) as Db. rewrite Hb0 in Db.
        replace (a * (x + 0 * 2 ^ i) + 2 ^ (i + 1) * (b / 2)) with (a * x + 2 ^ i * b) by (rewrite Hp1; nia).
        exact Hinv.
Qed.

Theorem inv_mod2k_word_correct a : Z.odd a = true -> 0 <= a < B ->
  0 <= inv_mod2k_word a < B /\ (a * inv_mod2k_word a) mod B = 1.
Proof.
  intros Ho Ha. unfold inv_mod2k_word. pose proof B_gt1.
  destruct (inv2k_loop_correct a Ho Ha 64 0 0 1 ltac:(lia) ltac:(cbn; lia) ltac:(lia)) as (Hr & b' & Hb' & Hinv).
  { replace (a * 0 + 2 ^ 0 * 1) with 1 by (cbn; lia). apply Z.mod_small. lia. }
  cbv zeta in *. change (0 + Z.of_nat 64) with 64 in *. rewrite <- B_val in *.
  split; [assumption|]. rewrite <- (Z.mod_add (a * inv2k_loop 64 0 a 0 1) b' B) by lia. rewrite (Z.mul_comm b' B). exact Hinv.
Qed.

(** mod_neg_inv = -(m^-1) mod 2^64 *)
Lemma neg_of_inverse m0 x : (m0 * x) mod B = 1 -> (m0 * ((0 - x) mod B) + 1) mod B = 0.
Proof.
  intros Hinv. pose proof B_gt1.
  rewrite Z.sub_0_l. rewrite Zplus_mod, Zmult_mod, Z.mod_mod, <- Zmult_mod, <- Zplus_mod by lia.
  replace (m0 * - x + 1) with (1 - m0 * x) by ring.
  rewrite Zminus_mod, Hinv. rewrite Z.mod_1_l by lia. rewrite Z.sub_diag. apply Z.mod_0_l. lia.
Qed.
Theorem mod_neg_inv_of_correct m0 : Z.odd m0 = true -> 0 <= m0 < B ->
  is_word (wsub 0 (inv_mod2k_word m0)) /\ (m0 * wsub 0 (inv_mod2k_word m0) + 1) mod B = 0.
Proof.
  intros Ho Hm0. destruct (inv_mod2k_word_correct m0 Ho Hm0) as (Hx & Hinv).
  split; [apply is_word_mod | apply neg_of_inverse; exact Hinv].
Qed.

(** at most one word k satisfies m0 * k = -1 (mod 2^64) *)
Lemma neg_inv_unique m0 k1 k2 : Z.odd m0 = true -> is_word k1 -> is_word k2 ->
  (m0 * k1 + 1) mod B = 0 -> (m0 * k2 + 1) mod B = 0 -> k1 = k2.
Proof.
  intros Ho H1 H2 E1 E2. pose proof B_pos. apply (residue_unique B); try assumption.
  apply (cancel_mod m0 B); [lia | apply rel_prime_sym; apply odd_rel_prime_B; assumption|].
  assert (F : forall k, (m0 * k + 1) mod B = 0 -> (m0 * k) mod B = (-1) mod B).
  { intros k E. apply Z.mod_divide in E; [|lia]. destruct E as [q Hq].
    replace (m0 * k) with (-1 + q * B) by lia. apply Z.mod_add. lia. }
  rewrite (F k1 E1), (F k2 E2). reflexivity.
Qed.

(* ------------------------------------------------------------------ *)
(** * m^-1 mod 2^64 : Hensel lifting (the specification's computation) *)
Lemma hensel_step a x e : 0 <= e -> 2 * e <= 64 -> (2 ^ e | 1 - a * x) ->
  (2 ^ (2 * e) | 1 - a * ((x * (2 - a * x)) mod B)).
Proof.
  intros He He2 [q Hq]. pose proof B_pos.
  assert (HB : (2 ^ (2 * e) | B)).
  { rewrite B_val. exists (2 ^ (64 - 2 * e)). rewrite <- Z.pow_add_r by lia. f_equal. lia. }
  rewrite Z.mod_eq by lia.
  replace (1 - a * (x * (2 - a * x) - B * (x * (2 - a * x) / B)))
    with ((1 - a * x) * (1 - a * x) + (a * (x * (2 - a * x) / B)) * B) by ring.
  apply Z.divide_add_r; [|apply Z.divide_mul_r; assumption].
  rewrite Hq. exists (q * q). replace (2 * e) with (e + e) by lia. rewrite Z.pow_add_r by lia. ring.
Qed.

Lemma inverse_of_divides a x : (B | 1 - a * x) -> (a * x) mod B = 1.
Proof.
  intros [q Hq]. pose proof B_gt1. replace (a * x) with (1 + (- q) * B) by lia.
  rewrite Z.mod_add by lia. apply Z.mod_1_l. lia.
Qed.
Theorem hensel_inv_correct a : Z.odd a = true -> (a * hensel_inv a) mod B = 1.
Proof.
  intros Ho. apply inverse_of_divides. rewrite B_val.
  unfold hensel_inv. cbv [Nat.iter nat_rect].
  assert (H1 : (2 ^ 1 | 1 - a * 1)).
  { apply Z.mod_divide; [lia|]. change (2 ^ 1) with 2. rewrite Zminus_mod, Z.mul_1_r, (odd_mod2 a Ho). reflexivity. }
  apply (hensel_step a 1 1) in H1; try lia. change (2 * 1) with 2 in H1.
  apply (hensel_step a _ 2) in H1; try lia. change (2 * 2) with 4 in H1.
  apply (hensel_step a _ 4) in H1; try lia. change (2 * 4) with 8 in H1.
  apply (hensel_step a _ 8) in H1; try lia. change (2 * 8) with 16 in H1.
  apply (hensel_step a _ 16) in H1; try lia. change (2 * 16) with 32 in H1.
  apply (hensel_step a _ 32) in H1; try lia. change (2 * 32) with 64 in H1.
  exact H1.
Qed.

Theorem spec_neg_inv_correct m0 : Z.odd m0 = true -> is_word (spec_neg_inv m0) /\ (m0 * spec_neg_inv m0 + 1) mod B = 0.
Proof.
  intros Ho. unfold spec_neg_inv. split; [apply is_word_mod|].
  rewrite <- Z.sub_0_l. apply neg_of_inverse. apply hensel_inv_correct. exact Ho.
Qed.

(** the two computations agree *)
Theorem neg_inv_model_eq_spec m0 : Z.odd m0 = true -> 0 <= m0 < B ->
  wsub 0 (inv_mod2k_word m0) = spec_neg_inv m0.
Proof.
  intros Ho Hm0. destruct (mod_neg_inv_of_correct m0 Ho Hm0) as (A & C). destruct (spec_neg_inv_correct m0 Ho) as (D & E).
  apply (neg_inv_unique m0); assumption.
Qed.
