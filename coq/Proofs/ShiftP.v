(** C05 proofs, part 1: the variable-time limb shifts (Uint, BoxedUint) equal multiplication / floor
    division by 2^s on the represented integer. *)
From CB Require Import Model.Limbs Model.AddSub Model.Bits Proofs.WordP Proofs.LimbsP Proofs.AddSubP Proofs.BitsWordP.
From Coq Require Import ZArith Lia List Bool.
Open Scope Z_scope.

(* ------------------------------------------------------------------ arithmetic helpers *)
Lemma mod_cons K h Y M : 0 <= h < K -> 0 < M -> (h + K * Y) mod (K * M) = h + K * (Y mod M).
Proof.
  intros Hh HM. assert (0 < K) by lia.
  rewrite Z.rem_mul_r by lia.
  assert (Hq : (h + K * Y) / K = Y /\ (h + K * Y) mod K = h) by (apply div_mod_unique_pos; lia).
  destruct Hq as [-> ->]. reflexivity.
Qed.

(** x * 2^r over a window of w bits: the part that stays and the part shifted out *)
Lemma shl_split_gen x r w : 0 <= x -> 0 <= r <= w ->
  x * 2 ^ r = 2 ^ w * (x / 2 ^ (w - r)) + (x * 2 ^ r) mod 2 ^ w /\
  (x * 2 ^ r) mod 2 ^ w = (x mod 2 ^ (w - r)) * 2 ^ r.
Proof.
  intros Hx Hr.
  pose proof (pow2_pos r ltac:(lia)). pose proof (pow2_pos (w - r) ltac:(lia)).
  assert (HB : 2 ^ w = 2 ^ r * 2 ^ (w - r)) by (rewrite <- pow2_split by lia; f_equal; lia).
  pose proof (Z.div_mod x (2 ^ (w - r)) ltac:(lia)) as Hdm.
  pose proof (Z.mod_pos_bound x (2 ^ (w - r)) ltac:(lia)) as Hmb.
  set (q := x / 2 ^ (w - r)) in *. set (m := x mod 2 ^ (w - r)) in *.
  assert (Hlt : 0 <= m * 2 ^ r < 2 ^ w).
  { split; [apply Z.mul_nonneg_nonneg; lia|]. rewrite HB, (Z.mul_comm (2 ^ r)).
    apply Z.mul_lt_mono_pos_r; lia. }
  assert (Hq : (x * 2 ^ r) / 2 ^ w = q /\ (x * 2 ^ r) mod 2 ^ w = m * 2 ^ r).
  { apply div_mod_unique_pos; [lia|]. rewrite Hdm at 1. rewrite HB. ring. }
  destruct Hq as [Hq1 Hq2]. rewrite Hq2. split; [|reflexivity].
  rewrite Hdm at 1. rewrite HB. ring.
Qed.

Lemma eval_repeat_zeros_app n X : eval (zeros n ++ X) = Bn n * eval X.
Proof. rewrite eval_app, eval_zeros, length_zeros. lia. Qed.

Lemma eval_app_zeros X n : eval (X ++ zeros n) = eval X.
Proof. rewrite eval_app, eval_zeros. lia. Qed.

Lemma eval_skipn n ls : wf ls -> (n <= length ls)%nat -> eval (skipn n ls) = eval ls / Bn n.
Proof.
  intros Hw Hn. pose proof (eval_firstn_skipn n ls) as E. rewrite firstn_length_le in E by assumption.
  pose proof (eval_bounds _ (wf_firstn n ls Hw)) as Hb. rewrite firstn_length_le in Hb by assumption.
  pose proof (Bn_pos n).
  assert (Hq : eval ls / Bn n = eval (skipn n ls) /\ eval ls mod Bn n = eval (firstn n ls)).
  { apply div_mod_unique_pos; lia. }
  symmetry. tauto.
Qed.

Lemma Bn_split n k : (k <= n)%nat -> Bn n = Bn k * Bn (n - k).
Proof. intros. rewrite <- Bn_add. f_equal. lia. Qed.

(** shift amount s = 64 * sn + rem *)
Lemma shift_decomp s : 0 <= s ->
  let sn := Z.to_nat (s / 64) in let rem := s mod 64 in
  s = 64 * Z.of_nat sn + rem /\ 0 <= rem < 64 /\ 2 ^ s = Bn sn * 2 ^ rem.
Proof.
  intros Hs. cbn zeta.
  pose proof (Z.div_mod s 64 ltac:(lia)). pose proof (Z.mod_pos_bound s 64 ltac:(lia)).
  assert (0 <= s / 64) by (apply Z.div_pos; lia).
  rewrite Z2Nat.id by lia. repeat split; try lia.
  rewrite Bn_pow, Z2Nat.id by lia. rewrite <- pow2_split by lia. f_equal. lia.
Qed.

(* ------------------------------------------------------------------ shl_carry *)
Lemma shl_carry_correct rem : 0 < rem < 64 -> forall ls c, wf ls -> 0 <= c < 2 ^ rem ->
  wf (shl_carry ls rem c) /\ length (shl_carry ls rem c) = length ls /\
  eval (shl_carry ls rem c) = (eval ls * 2 ^ rem + c) mod Bn (length ls).
Proof.
  intros Hrem. induction ls as [|x ls IH]; intros c Hw Hc.
  - simpl. rewrite Bn_0, Z.mod_1_r. auto using wf_nil.
  - apply wf_cons in Hw. destruct Hw as [Hx Hl]. unfold is_word in Hx.
    cbn [shl_carry].
    pose proof (wshl_split x rem ltac:(lia) ltac:(lia)) as (Hs1 & Hs2 & Hs3).
    pose proof (wshr_bound x (64 - rem) Hx ltac:(lia)) as Hcb.
    replace (64 - (64 - rem)) with rem in Hcb by lia.
    specialize (IH (wshr x (64 - rem)) Hl Hcb). destruct IH as (IHw & IHl & IHe).
    (* the head limb *)
    assert (Hh : wor (wshl x rem) c = wshl x rem + c).
    { unfold wor. rewrite Hs3. apply lor_add_disjoint; lia. }
    pose proof (pow2_pos rem ltac:(lia)). pose proof (pow2_pos (64 - rem) ltac:(lia)).
    pose proof (B_split rem ltac:(lia)) as HB.
    pose proof (Z.mod_pos_bound x (2 ^ (64 - rem)) ltac:(lia)) as Hmb.
    assert (Hhb : 0 <= wshl x rem + c < B).
    { rewrite Hs3.
      assert (x mod 2 ^ (64 - rem) * 2 ^ rem <= (2 ^ (64 - rem) - 1) * 2 ^ rem)
        by (apply Z.mul_le_mono_nonneg_r; lia).
      assert (0 <= x mod 2 ^ (64 - rem) * 2 ^ rem) by (apply Z.mul_nonneg_nonneg; lia).
      lia. }
    split; [apply wf_cons; split; [unfold is_word; rewrite Hh; exact Hhb | exact IHw]|].
    split; [cbn [length]; rewrite IHl; reflexivity|].
    cbn [eval length]. rewrite IHe, Hh, Bn_S.
    rewrite <- (mod_cons B) by (auto using Bn_pos). f_equal.
    unfold wshr in *. lia.
Qed.

(* ------------------------------------------------------------------ overflowing_shl_vartime *)
Definition bitsZ' (a : list Z) : Z := 64 * Z.of_nat (length a).

Lemma shl_vartime_correct a s : wf a -> 0 <= s ->
  let r := uint_overflowing_shl_vartime a s in
  snd r = choice_of_bool (s <? bitsZ' a) /\ wf (fst r) /\ length (fst r) = length a /\
  eval (fst r) = if s <? bitsZ' a then (eval a * 2 ^ s) mod Bn (length a) else 0.
Proof.
  intros Hw Hs. cbn zeta. unfold uint_overflowing_shl_vartime, bitsZ'.
  set (n := length a).
  destruct (Z.leb_spec (64 * Z.of_nat n) s) as [Hov|Hin].
  - destruct (Z.ltb_spec s (64 * Z.of_nat n)); [lia|]. cbn [fst snd ct_none].
    rewrite eval_zeros, length_zeros. auto using wf_zeros.
  - destruct (Z.ltb_spec s (64 * Z.of_nat n)); [|lia].
    pose proof (shift_decomp s Hs) as (Hd & Hr & Hp). cbn zeta in Hd, Hr, Hp.
    set (sn := Z.to_nat (s / 64)) in *. set (rem := s mod 64) in *.
    assert (Hsn : (sn < n)%nat) by lia.
    set (moved := firstn (n - sn) a).
    assert (Hmw : wf moved) by (apply wf_firstn; assumption).
    assert (Hml : length moved = (n - sn)%nat) by (unfold moved; rewrite firstn_length_le; unfold n; lia).
    assert (Hme : eval moved = eval a mod Bn (n - sn)) by (apply eval_firstn; [assumption | unfold n; lia]).
    pose proof (Bn_split n sn ltac:(lia)) as HBn. pose proof (Bn_pos sn). pose proof (Bn_pos (n - sn)%nat).
    destruct (Z.eqb_spec rem 0) as [Hz|Hnz]; cbn [fst snd ct_some].
    + split; [reflexivity|]. split; [apply wf_app; split; [apply wf_zeros|assumption]|].
      split; [rewrite app_length, length_zeros; lia|].
      rewrite eval_repeat_zeros_app, Hme, Hp, Hz, Z.pow_0_r, Z.mul_1_r, HBn.
      rewrite (Z.mul_comm (eval a)). symmetry. apply Z.mul_mod_distr_l; lia.
    + pose proof (shl_carry_correct rem ltac:(lia) moved 0 Hmw ltac:(pose proof (pow2_pos rem); lia)) as (Cw & Cl & Ce).
      split; [reflexivity|]. split; [apply wf_app; split; [apply wf_zeros|assumption]|].
      split; [rewrite app_length, length_zeros; lia|].
      rewrite eval_repeat_zeros_app, Ce, Hml, Hme, Z.add_0_r, Hp, HBn.
      rewrite Z.mul_mod_idemp_l by lia.
      replace (eval a * (Bn sn * 2 ^ rem)) with (Bn sn * (eval a * 2 ^ rem)) by ring.
      symmetry. apply Z.mul_mod_distr_l; lia.
Qed.

(* ------------------------------------------------------------------ shr_carry *)
Lemma shr_carry_correct rem : 0 < rem < 64 -> forall ls t, wf ls -> 0 <= t < 2 ^ rem ->
  let c0 := t * 2 ^ (64 - rem) in
  let V := eval ls + Bn (length ls) * t in
  wf (fst (shr_carry ls rem c0)) /\ length (fst (shr_carry ls rem c0)) = length ls /\
  eval (fst (shr_carry ls rem c0)) = V / 2 ^ rem /\
  snd (shr_carry ls rem c0) = (V mod 2 ^ rem) * 2 ^ (64 - rem).
Proof.
  intros Hrem. induction ls as [|x ls IH]; intros t Hw Ht; cbn zeta.
  - simpl. rewrite Bn_0, Z.mul_1_l. rewrite Z.div_small, Z.mod_small by lia. auto using wf_nil.
  - apply wf_cons in Hw. destruct Hw as [Hx Hl]. unfold is_word in Hx.
    specialize (IH t Hl Ht). cbn zeta in IH. destruct IH as (IHw & IHl & IHe & IHc).
    cbn [shr_carry]. destruct (shr_carry ls rem (t * 2 ^ (64 - rem))) as [r' c] eqn:E.
    cbn [fst snd] in *.
    set (V := eval ls + Bn (length ls) * t) in *.
    pose proof (pow2_pos rem ltac:(lia)). pose proof (pow2_pos (64 - rem) ltac:(lia)).
    pose proof (B_split rem ltac:(lia)) as HB.
    pose proof (Z.mod_pos_bound V (2 ^ rem) ltac:(lia)) as Hvm.
    pose proof (Z.div_mod V (2 ^ rem) ltac:(lia)) as Hvd.
    pose proof (wshr_bound x rem Hx ltac:(lia)) as Hsb.
    (* head limb *)
    assert (Hh : wor (wshr x rem) c = c + wshr x rem).
    { unfold wor. rewrite IHc, Z.lor_comm. apply lor_add_disjoint; lia. }
    assert (Hcb : 0 <= c <= (2 ^ rem - 1) * 2 ^ (64 - rem)).
    { rewrite IHc. split; [apply Z.mul_nonneg_nonneg; lia | apply Z.mul_le_mono_nonneg_r; lia]. }
    split; [apply wf_cons; split; [unfold is_word; rewrite Hh; lia | exact IHw]|].
    split; [cbn [length]; rewrite IHl; reflexivity|].
    cbn [eval length]. rewrite Bn_S.
    pose proof (wshl_split x (64 - rem) ltac:(lia) ltac:(lia)) as (_ & _ & Hs3).
    replace (64 - (64 - rem)) with rem in Hs3 by lia.
    replace (x + B * eval ls + B * Bn (length ls) * t) with (x + B * V) by (unfold V; ring).
    split.
    + rewrite Hh, IHc, IHe. unfold wshr.
      rewrite HB at 2. replace (x + 2 ^ rem * 2 ^ (64 - rem) * V) with (x + (2 ^ (64 - rem) * V) * 2 ^ rem) by ring.
      rewrite Z.div_add by lia. rewrite HB.
      set (q := V / 2 ^ rem) in *. set (m := V mod 2 ^ rem) in *. rewrite Hvd. ring.
    + rewrite Hs3. f_equal. rewrite HB.
      replace (x + 2 ^ rem * 2 ^ (64 - rem) * V) with (x + (2 ^ (64 - rem) * V) * 2 ^ rem) by ring.
      symmetry. apply Z.mod_add. lia.
Qed.

Lemma shr_carry_zero rem ls : 0 < rem < 64 -> wf ls ->
  wf (fst (shr_carry ls rem 0)) /\ length (fst (shr_carry ls rem 0)) = length ls /\
  eval (fst (shr_carry ls rem 0)) = eval ls / 2 ^ rem.
Proof.
  intros Hrem Hw. pose proof (shr_carry_correct rem Hrem ls 0 Hw ltac:(pose proof (pow2_pos rem); lia)) as H.
  cbn zeta in H. rewrite Z.mul_0_l, Z.mul_0_r, Z.add_0_r in H. tauto.
Qed.

(* ------------------------------------------------------------------ overflowing_shr_vartime *)
Lemma shr_vartime_correct a s : wf a -> 0 <= s ->
  let r := uint_overflowing_shr_vartime a s in
  snd r = choice_of_bool (s <? bitsZ' a) /\ wf (fst r) /\ length (fst r) = length a /\
  eval (fst r) = if s <? bitsZ' a then eval a / 2 ^ s else 0.
Proof.
  intros Hw Hs. cbn zeta. unfold uint_overflowing_shr_vartime, bitsZ'.
  set (n := length a).
  destruct (Z.leb_spec (64 * Z.of_nat n) s) as [Hov|Hin].
  - destruct (Z.ltb_spec s (64 * Z.of_nat n)); [lia|]. cbn [fst snd ct_none].
    rewrite eval_zeros, length_zeros. auto using wf_zeros.
  - destruct (Z.ltb_spec s (64 * Z.of_nat n)); [|lia].
    pose proof (shift_decomp s Hs) as (Hd & Hr & Hp). cbn zeta in Hd, Hr, Hp.
    set (sn := Z.to_nat (s / 64)) in *. set (rem := s mod 64) in *.
    assert (Hsn : (sn < n)%nat) by lia.
    set (moved := skipn sn a).
    assert (Hmw : wf moved) by (apply wf_skipn; assumption).
    assert (Hml : length moved = (n - sn)%nat) by (unfold moved; rewrite skipn_length; reflexivity).
    assert (Hme : eval moved = eval a / Bn sn) by (apply eval_skipn; [assumption | unfold n in *; lia]).
    pose proof (Bn_pos sn). pose proof (pow2_pos rem ltac:(lia)).
    destruct (Z.eqb_spec rem 0) as [Hz|Hnz]; cbn [fst snd ct_some].
    + split; [reflexivity|]. split; [apply wf_app; split; [assumption|apply wf_zeros]|].
      split; [rewrite app_length, length_zeros; lia|].
      rewrite eval_app_zeros, Hme, Hp, Hz, Z.pow_0_r, Z.mul_1_r. reflexivity.
    + pose proof (shr_carry_zero rem moved ltac:(lia) Hmw) as (Cw & Cl & Ce).
      split; [reflexivity|]. split; [apply wf_app; split; [assumption|apply wf_zeros]|].
      split; [rewrite app_length, length_zeros; lia|].
      rewrite eval_app_zeros, Ce, Hme, Hp. apply Z.div_div; lia.
Qed.

(* ------------------------------------------------------------------ BoxedUint::shr_vartime_into *)
Lemma shr_carry_snd_cons x ls rem c0 : snd (shr_carry (x :: ls) rem c0) = wshl x (64 - rem).
Proof. cbn [shr_carry]. destruct (shr_carry ls rem c0). reflexivity. Qed.

Lemma shr_pairs_carry rem ls : shr_pairs ls rem = fst (shr_carry ls rem 0).
Proof.
  induction ls as [|x ls IH]; [reflexivity|].
  cbn [shr_pairs shr_carry]. destruct ls as [|y ls'].
  - simpl. unfold wor. rewrite Z.lor_0_r. reflexivity.
  - rewrite IH. pose proof (shr_carry_snd_cons y ls' rem 0) as Hs.
    destruct (shr_carry (y :: ls') rem 0) as [r' c]. cbn [fst snd] in *. rewrite Hs. reflexivity.
Qed.

Lemma boxed_shr_vartime_into_eq a s : boxed_shr_vartime_into a s = uint_overflowing_shr_vartime a s.
Proof.
  unfold boxed_shr_vartime_into, uint_overflowing_shr_vartime. rewrite shr_pairs_carry. reflexivity.
Qed.
