(** C09 proofs, part 3: the powers table, pow / multi-exponentiation of MontyForm and ConstMontyForm
    (abstract Montgomery multiplication, then the value-level instance), array front = slice front,
    Pow = PowBoundedExp at full width. *)
From CB Require Import Model.Limbs Model.AddSub Model.ModArith Model.Cmp Model.Pow
  Proofs.WordP Proofs.LimbsP Proofs.AddSubP Proofs.PowMathP Proofs.PowLadderP.
From Coq Require Import ZArith Lia List Bool.
Open Scope Z_scope.
Notation length := List.length.

(** a canonical n-limb residue *)
Definition Mf (n : nat) (m : Z) (x : list Z) : Prop := wf x /\ length x = n /\ eval x < m.

Lemma nth_S_cons {A} i (x : A) l d : nth (S i) (x :: l) d = nth i l d.
Proof. reflexivity. Qed.

(* ------------------------------------------------------------------ *)
(** * the powers table (for any notion of "good" entries closed under multiplication by the base) *)

Section Table.
Variables (m rinv : Z).
Hypothesis Hm : 0 < m.
Variable mmul : list Z -> list Z -> list Z.
Variable TG : list Z -> Prop.
Variable x : list Z.
Notation V := (V m rinv).
Hypothesis Hstep : forall p, TG p -> TG (mmul p x) /\ V (mmul p x) = (V p * V x) mod m.

Lemma powers_loop_spec : forall cnt prev j, TG prev -> 0 <= j -> V prev = (V x ^ j) mod m ->
  length (powers_loop mmul x prev cnt) = cnt /\
  forall i, (i < cnt)%nat -> TG (nth i (powers_loop mmul x prev cnt) []) /\
                            V (nth i (powers_loop mmul x prev cnt) []) = (V x ^ (j + 1 + Z.of_nat i)) mod m.
Proof.
  induction cnt as [|c IH]; intros prev j Tp Hj Vp.
  - cbn [powers_loop length]. split; [reflexivity | intros i Hi; lia].
  - cbn [powers_loop]. cbv zeta. destruct (Hstep prev Tp) as [T1 V1].
    assert (V1' : V (mmul prev x) = (V x ^ (j + 1)) mod m).
    { rewrite V1, Vp, mulmod_l. f_equal. rewrite Z.pow_add_r, Z.pow_1_r by lia. reflexivity. }
    destruct (IH (mmul prev x) (j + 1) T1 ltac:(lia) V1') as [Hl Hi].
    split; [cbn [length]; rewrite Hl; reflexivity|].
    intros [|i] Hlt.
    + cbn [nth]. split; [assumption|]. rewrite V1'. f_equal. f_equal. lia.
    + rewrite nth_S_cons. destruct (Hi i ltac:(lia)) as [T2 V2]. split; [assumption|].
      rewrite V2. f_equal. f_equal. lia.
Qed.

Lemma compute_powers_spec one : TG one -> TG x -> V one = 1 mod m ->
  length (compute_powers mmul one x) = 16%nat /\
  nth 1 (compute_powers mmul one x) [] = x /\
  forall i, (i < 16)%nat -> TG (nth i (compute_powers mmul one x) []) /\
                           V (nth i (compute_powers mmul one x) []) = (V x ^ Z.of_nat i) mod m.
Proof.
  intros T1 Tx V1. unfold compute_powers.
  assert (Vx : V x = (V x ^ 1) mod m) by (rewrite Z.pow_1_r; symmetry; apply V_mod; assumption).
  destruct (powers_loop_spec 14 x 1 Tx ltac:(lia) Vx) as [Hl Hi].
  split; [cbn [length]; rewrite Hl; reflexivity|]. split; [reflexivity|].
  intros [|[|i]] Hlt.
  - cbn [nth]. split; [assumption|]. rewrite V1. reflexivity.
  - cbn [nth]. split; [assumption|]. exact Vx.
  - rewrite !nth_S_cons. destruct (Hi i ltac:(lia)) as [T2 V2]. split; [assumption|].
    rewrite V2. f_equal. f_equal. lia.
Qed.
End Table.

(* ------------------------------------------------------------------ *)
(** * MontyForm / ConstMontyForm: canonical values, abstract mul_montgomery_form / square_montgomery_form *)

Section Fixed.
Variables (n : nat) (m rinv : Z).
Hypothesis Hm : 0 < m.
Variable mmul : list Z -> list Z -> list Z.
Variable msq : list Z -> list Z.
Notation V := (V m rinv).
Notation Mf := (Mf n m).

(** the hypotheses that characterise Montgomery multiplication and squaring (limb-level proof: C08) *)
Hypothesis Hmul : forall x y, Mf x -> Mf y -> Mf (mmul x y) /\ eval (mmul x y) mod m = (eval x * eval y * rinv) mod m.
Hypothesis Hsq : forall x, Mf x -> Mf (msq x) /\ eval (msq x) mod m = (eval x * eval x * rinv) mod m.

Lemma V_mmul x y : Mf x -> Mf y -> Mf (mmul x y) /\ V (mmul x y) = (V x * V y) mod m.
Proof.
  intros Hx Hy. destruct (Hmul x y Hx Hy) as [H1 H2]. split; [assumption|].
  unfold PowLadderP.V. rewrite <- mulmod_l, H2, mulmod_l, mulmod_both. f_equal. ring.
Qed.
Lemma V_msq x : Mf x -> Mf (msq x) /\ V (msq x) = (V x * V x) mod m.
Proof.
  intros Hx. destruct (Hsq x Hx) as [H1 H2]. split; [assumption|].
  unfold PowLadderP.V. rewrite <- mulmod_l, H2, mulmod_l, mulmod_both. f_equal. ring.
Qed.
Lemma Mf_wf x : Mf x -> wf x /\ length x = n.
Proof. intros (H1 & H2 & _). split; assumption. Qed.

Definition be_ok (be : list Z * list Z) : Prop := Mf (fst be) /\ wf (snd be).

(** product of the individual powers, over the integers *)
Fixpoint prod_pow (bes : list (list Z * list Z)) (k : Z) : Z :=
  match bes with
  | [] => 1
  | be :: r => V (fst be) ^ (eval (snd be) mod 2 ^ k) * prod_pow r k
  end.

Variable one : list Z.
Hypothesis Hone : Mf one.
Hypothesis Vone : V one = 1 mod m.

Lemma powers_array_ok bes : Forall be_ok bes ->
  Forall (pe_ok m rinv Mf) (powers_array mmul one bes).
Proof.
  induction bes as [|[b e] r IH]; intros H; [constructor|].
  inversion H as [|be' r' [Hb He] Hr]; subst. cbn [fst snd] in *. cbn [powers_array].
  constructor; [|apply IH; assumption].
  destruct (compute_powers_spec m rinv Hm mmul Mf b (fun p Hp => V_mmul p b Hp Hb) one Hone Hb Vone) as (Hl & H1 & Hi).
  split; [|assumption]. cbn [fst]. split; [assumption|]. intros i Hlt. rewrite H1. apply Hi. assumption.
Qed.

Lemma Pw_powers_array bes k : Forall be_ok bes ->
  Pw m rinv k (powers_array mmul one bes) 0 = prod_pow bes k.
Proof.
  induction bes as [|[b e] r IH]; intros H; [reflexivity|].
  inversion H as [|be' r' [Hb He] Hr]; subst. cbn [fst snd] in *.
  cbn [powers_array Pw prod_pow fst snd]. rewrite IH by assumption. f_equal.
  unfold vbase, ebits. cbn [fst snd]. change (2 ^ 0) with 1. rewrite Z.div_1_r.
  unfold compute_powers. cbn [nth]. reflexivity.
Qed.

(** MultiExponentiateBoundedExp on arrays: the product of the powers, canonical; exponent_bits = 0 gives one *)
Theorem multi_exp_array_correct bes k : 0 <= k -> Forall be_ok bes ->
  let r := multi_exp_array mmul msq one bes k in
  Mf r /\ V r = prod_pow bes k mod m.
Proof.
  intros Hk Hbes. unfold multi_exp_array. destruct (Z.eqb_spec k 0) as [->|Hk0].
  - split; [assumption|]. rewrite Vone. f_equal.
    clear Hbes. induction bes as [|be r IH]; [reflexivity|]. cbn [prod_pow]. rewrite <- IH.
    change (2 ^ 0) with 1. rewrite Z.mod_1_r. reflexivity.
  - pose proof (multi_exp_internal_spec n m rinv Hm mmul msq Mf Mf Mf (fun z H => H) Mf_wf V_mmul V_msq k ltac:(lia)
                  (powers_array mmul one bes) (powers_array_ok bes Hbes) (or_intror (fun z H => H)) one Hone Vone) as [H1 H2].
    split; [exact H1|]. rewrite H2, Pw_powers_array by assumption. reflexivity.
Qed.

(** the slice front builds the same tables *)
Lemma slice_is_array bes k : multi_exp_slice mmul msq one bes k = multi_exp_array mmul msq one bes k.
Proof.
  unfold multi_exp_slice, multi_exp_array. destruct (k =? 0); [reflexivity|]. f_equal.
  induction bes as [|[b e] r IH]; [reflexivity|]. cbn [map powers_array fst snd]. rewrite IH. reflexivity.
Qed.

Theorem multi_exp_slice_correct bes k : 0 <= k -> Forall be_ok bes ->
  let r := multi_exp_slice mmul msq one bes k in
  Mf r /\ V r = prod_pow bes k mod m.
Proof. intros Hk Hb. rewrite slice_is_array. apply multi_exp_array_correct; assumption. Qed.

(** pow_bounded_exp: base^(exponent mod 2^k), canonical *)
Theorem pow_ladder_correct x e k : 0 <= k -> Mf x -> wf e ->
  let r := pow_montgomery_form mmul msq one x e k in
  Mf r /\ V r = (V x ^ (eval e mod 2 ^ k)) mod m.
Proof.
  intros Hk Hx He. unfold pow_montgomery_form.
  destruct (multi_exp_array_correct [(x, e)] k Hk) as [H1 H2].
  { constructor; [split; assumption | constructor]. }
  split; [exact H1|]. rewrite H2. cbn [prod_pow fst snd]. rewrite Z.mul_1_r. reflexivity.
Qed.

Corollary pow_zero_bits x e : pow_montgomery_form mmul msq one x e 0 = one.
Proof. reflexivity. Qed.

(** inherent pow and the Pow blanket impl: pow_bounded_exp with exponent_bits = BITS, i.e. the full exponent *)
Theorem pow_full_correct x e : Mf x -> wf e ->
  let r := pow_full mmul msq one x e in
  Mf r /\ V r = (V x ^ eval e) mod m.
Proof.
  intros Hx He. unfold pow_full.
  destruct (pow_ladder_correct x e (bitsZ e) ltac:(unfold bitsZ, lenZ; lia) Hx He) as [H1 H2].
  split; [exact H1|]. rewrite H2. f_equal. f_equal. apply Z.mod_small.
  pose proof (eval_bounds e He) as Hb. rewrite pw_Bn_pow in Hb. unfold bitsZ, lenZ. exact Hb.
Qed.
End Fixed.

(* ------------------------------------------------------------------ *)
(** * the value-level instance x*y*R^-1 mod m satisfies the hypotheses *)

Lemma to_limbs_Mf n m v : 0 < m <= Bn n -> Mf n m (to_limbs n (v mod m)) /\ eval (to_limbs n (v mod m)) = v mod m.
Proof.
  intros Hm. pose proof (Z.mod_pos_bound v m ltac:(lia)) as Hb.
  assert (E : eval (to_limbs n (v mod m)) = v mod m) by (apply to_limbs_small; lia).
  split; [|exact E]. split; [apply wf_to_limbs|]. split; [apply length_to_limbs | lia].
Qed.

Lemma mmul_v_ok n m rinv x y : 0 < m <= Bn n ->
  Mf n m (mmul_v n m rinv x y) /\ eval (mmul_v n m rinv x y) mod m = (eval x * eval y * rinv) mod m.
Proof.
  intros Hm. unfold mmul_v. destruct (to_limbs_Mf n m (eval x * eval y * rinv) Hm) as [H1 H2].
  split; [exact H1|]. rewrite H2. apply Z.mod_mod. lia.
Qed.

Section ValueLevel.
Variables (n : nat) (m : Z).
Hypothesis Hm : 0 < m <= Bn n.
Hypothesis Hodd : Z.odd m = true.
Let rinv := mg_rinv n m.
Notation V := (V m rinv).

Lemma V_one : Mf n m (to_limbs n (mg_one n m)) /\ V (to_limbs n (mg_one n m)) = 1 mod m.
Proof.
  unfold mg_one. destruct (to_limbs_Mf n m (Bn n) Hm) as [H1 H2]. split; [exact H1|].
  unfold PowLadderP.V. rewrite H2, mulmod_l. apply mg_rinv_spec; [lia | assumption].
Qed.

Lemma V_to_monty x : Mf n m (to_monty_v n m x) /\ V (to_monty_v n m x) = eval x mod m.
Proof.
  unfold to_monty_v. destruct (to_limbs_Mf n m (eval x * Bn n) Hm) as [H1 H2]. split; [exact H1|].
  unfold PowLadderP.V. rewrite H2, mulmod_l. rewrite <- Z.mul_assoc, <- mulmod_r.
  destruct (mg_rinv_spec n m ltac:(lia) Hodd) as [_ Hr]. fold rinv in Hr. rewrite Hr.
  rewrite mulmod_r, Z.mul_1_r. reflexivity.
Qed.

(** a canonical representative with known value is THE limb list of the specification *)
Lemma canonical_out z v : Mf n m z -> V z = v mod m ->
  z = to_limbs n ((v mod m * Bn n) mod m) /\ retrieve_v n m rinv z = to_limbs n (v mod m).
Proof.
  intros (Hw & Hl & Hlt) Hv. pose proof (eval_nonneg z Hw) as H0.
  destruct (mg_rinv_spec n m ltac:(lia) Hodd) as [_ Hr]. fold rinv in Hr.
  split.
  - apply to_limbs_unique; try assumption.
    assert (E : eval z = (v mod m * Bn n) mod m).
    { apply (rep_unique (Bn n) rinv m); try assumption; try lia. unfold PowLadderP.V in Hv. rewrite Hv. symmetry. apply Z.mod_mod. lia. }
    rewrite E. symmetry. apply Z.mod_small.
    pose proof (Z.mod_pos_bound (v mod m * Bn n) m ltac:(lia)). lia.
  - unfold retrieve_v. unfold PowLadderP.V in Hv. rewrite Hv. reflexivity.
Qed.
End ValueLevel.
