(** C11, area cmp (Model/Cmp.v, owner C06): the debug assertions inside Ord::cmp (Limb, BoxedUint) never fire; the
    unwrapping forms panic exactly on `none`. *)
From CB Require Import Model.Limbs Model.AddSub Model.Cmp Proofs.WordP Proofs.WordPredP Proofs.LimbsP
  Proofs.CmpWordP Proofs.CmpP Proofs.CmpIntP Proofs.CmpBoxedP Proofs.CmpAllP Proofs.TotalityP.
From Coq Require Import ZArith Lia List String Bool.
Open Scope Z_scope.
Notation length := List.length.

Lemma cmp_cover : covers cmp_keys ops_cmp_model = true.
Proof. vm_compute. reflexivity. Qed.
Lemma cmp_quiet : quiet_keys_ok ops_cmp_model ops_cmp_spec cmp_quiet_keys.
Proof. unfold cmp_quiet_keys. quiet_tac ops_cmp_model ops_cmp_spec. Qed.

Local Ltac start := start_key ops_cmp_model ops_cmp_spec cmp_ty.

(* ---- Ord on Limb / BoxedUint: the debug assertion inside cmp never fires (anchor const_choice.rs / cmp.rs) ---- *)
Lemma limb_cmp_some dbg a : wf_args a -> limb_cmp dbg (sarg 0 a) (sarg 1 a) = Some (ordz (sarg 0 a) (sarg 1 a)).
Proof. intros Hwf. apply limb_cmp_spec; apply sarg_word; assumption. Qed.
Lemma boxed_cmp_some dbg a : wf_args a ->
  boxed_cmp dbg (arg 0 a) (arg 1 a) = Some (ordz (eval (arg 0 a)) (eval (arg 1 a))).
Proof. intros Hwf. apply boxed_order_spec; apply wf_arg; assumption. Qed.

Local Ltac ord_key lem :=
  start; rewrite (lem _ _ ltac:(eassumption)); unfold sp_ord, sp_bool, vordo, vrel, vord; split; discriminate.
Lemma key_limb_cmp : key_ok ops_cmp_model ops_cmp_spec cmp_ty "limb.cmp". Proof. ord_key limb_cmp_some. Qed.
Lemma key_limb_lt : key_ok ops_cmp_model ops_cmp_spec cmp_ty "limb.lt". Proof. ord_key limb_cmp_some. Qed.
Lemma key_limb_le : key_ok ops_cmp_model ops_cmp_spec cmp_ty "limb.le". Proof. ord_key limb_cmp_some. Qed.
Lemma key_limb_gt : key_ok ops_cmp_model ops_cmp_spec cmp_ty "limb.gt". Proof. ord_key limb_cmp_some. Qed.
Lemma key_limb_ge : key_ok ops_cmp_model ops_cmp_spec cmp_ty "limb.ge". Proof. ord_key limb_cmp_some. Qed.
Lemma key_boxed_cmp : key_ok ops_cmp_model ops_cmp_spec cmp_ty "boxed.cmp". Proof. ord_key boxed_cmp_some. Qed.
Lemma key_boxed_lt : key_ok ops_cmp_model ops_cmp_spec cmp_ty "boxed.lt". Proof. ord_key boxed_cmp_some. Qed.
Lemma key_boxed_le : key_ok ops_cmp_model ops_cmp_spec cmp_ty "boxed.le". Proof. ord_key boxed_cmp_some. Qed.
Lemma key_boxed_gt : key_ok ops_cmp_model ops_cmp_spec cmp_ty "boxed.gt". Proof. ord_key boxed_cmp_some. Qed.
Lemma key_boxed_ge : key_ok ops_cmp_model ops_cmp_spec cmp_ty "boxed.ge". Proof. ord_key boxed_cmp_some. Qed.

(* ---- unwrapping forms ---- *)
Lemma cc_true_choice b : cc_true (choice_of_bool b) = b.
Proof. destruct b; reflexivity. Qed.

Lemma key_limb_nz_new_unwrap : key_ok ops_cmp_model ops_cmp_spec cmp_ty "limb.nz_new_unwrap".
Proof.
  start. unfold limb1, ln in Hty. unfold ev. rewrite (arg_single 0 a Hty) at 2. cbn [eval].
  rewrite Z.mul_0_r, Z.add_0_r. unfold limb_is_nonzero.
  rewrite from_word_nonzero_spec by (apply sarg_word; assumption). rewrite cc_true_choice.
  destruct (sarg 0 a =? 0); cbn [negb]; [tauto | split; discriminate].
Qed.
Lemma key_uint_ctopt_expect : key_ok ops_cmp_model ops_cmp_spec cmp_ty "uint.ctopt_expect".
Proof.
  start. unfold ccarg, cbit. rewrite cc_true_choice. destruct (negb (sarg 1 a =? 0)); [split; discriminate | tauto].
Qed.
Lemma key_int_new_from_abs_sign_expect : key_ok ops_cmp_model ops_cmp_spec cmp_ty "int.new_from_abs_sign_expect".
Proof.
  start. unfold ccarg, cbit, ev, ln.
  destruct (int_new_from_abs_sign (arg 0 a) (choice_of_bool (negb (sarg 1 a =? 0)))) as [v fits] eqn:E.
  pose proof (int_new_from_abs_sign_spec _ _ _ _ (wf_arg 0 a Hwf) Hty E) as (Hf & _).
  cbv zeta in Hf. rewrite Hf, cc_true_choice.
  destruct (_ && _)%bool; [split; discriminate | tauto].
Qed.
Lemma key_boxed_select : key_ok ops_cmp_model ops_cmp_spec cmp_ty "boxed.select".
Proof.
  start. unfold carg.
  destruct (boxed_select_swap_partial dbg (arg 0 a) (arg 1 a) (negb (sarg 2 a =? 0))
              (wf_arg 0 a Hwf) (wf_arg 1 a Hwf) Hty) as [-> _].
  unfold sp_sel. cbn. split; discriminate.
Qed.
Lemma key_boxed_swap : key_ok ops_cmp_model ops_cmp_spec cmp_ty "boxed.swap".
Proof.
  start. unfold carg.
  destruct (boxed_select_swap_partial dbg (arg 0 a) (arg 1 a) (negb (sarg 2 a =? 0))
              (wf_arg 0 a Hwf) (wf_arg 1 a Hwf) Hty) as [_ ->].
  unfold sp_swap. cbn. split; discriminate.
Qed.
#[export] Hint Resolve key_limb_cmp key_limb_lt key_limb_le key_limb_gt key_limb_ge key_boxed_cmp key_boxed_lt
  key_boxed_le key_boxed_gt key_boxed_ge key_limb_nz_new_unwrap key_uint_ctopt_expect
  key_int_new_from_abs_sign_expect key_boxed_select key_boxed_swap : c11keys.

Theorem cmp_panics_iff_documented : panics_iff_documented ops_cmp_model ops_cmp_spec cmp_keys cmp_ty.
Proof. apply panics_from_parts; [exact cmp_quiet | unfold cmp_panic_keys; by_keys]. Qed.
Theorem cmp_total_forms_never_panic : total_forms_never_panic ops_cmp_model cmp_total_keys cmp_total_ty.
Proof.
  apply (quiet_total _ ops_cmp_spec cmp_quiet_keys); [exact cmp_quiet|]. apply sublist_In. vm_compute. reflexivity.
Qed.

(** the debug-only assertions of Ord::cmp (Limb: `ret == Less` agrees with ct_lt; BoxedUint: Equal implies ct_eq) and of
    BoxedUint::ct_select / ct_swap (equal precision) hold on every well-formed input: the debug profile returns what
    the release profile returns *)
Theorem cmp_debug_assertions_never_fire : forall a, wf_args a ->
  limb_cmp true (sarg 0 a) (sarg 1 a) = limb_cmp false (sarg 0 a) (sarg 1 a) /\
  boxed_cmp true (arg 0 a) (arg 1 a) = boxed_cmp false (arg 0 a) (arg 1 a) /\
  (ln 0 a = ln 1 a -> forall c,
     boxed_ct_select true (arg 0 a) (arg 1 a) c = boxed_ct_select false (arg 0 a) (arg 1 a) c /\
     boxed_ct_swap true (arg 0 a) (arg 1 a) c = boxed_ct_swap false (arg 0 a) (arg 1 a) c).
Proof.
  intros a Hwf. rewrite !limb_cmp_some, !boxed_cmp_some by assumption. repeat split.
  all: unfold boxed_ct_select, boxed_ct_swap, boxed_guard; unfold ln in H; rewrite H, Nat.eqb_refl; reflexivity.
Qed.
