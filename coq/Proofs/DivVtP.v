(** C02: the variable-time Knuth loop (div_vt_loop) and Uint::div_rem_vartime. *)
From CB Require Import Model.Limbs Model.Div Proofs.WordP Proofs.LimbsP Proofs.BitsP Proofs.DivP Proofs.Rem2kP
  Proofs.Div3by2P Proofs.KnuthStepP Proofs.DivShiftP.
From Coq Require Import ZArith Lia List.
Open Scope Z_scope.

Definition vt_body (xi yc : nat) (y : list Z) (rc : recip) (st : vtst) : vtst :=
  let x := v_x st in
  let quo := div3by2 (v_xhi st) (nthz x xi) (nthz x (xi - 1)) rc (nthz y (yc - 2)) in
  let '(x2, mask) := knuth_step x y (v_xhi st) (xi + 1 - yc) 0 yc quo in
  let quo := sel mask quo (wsub quo 1) in
  {| v_x := upd x2 xi quo; v_xhi := nthz x2 xi |}.

Lemma div_vt_loop_S c xi yc y rc st :
  div_vt_loop (S c) xi yc y rc st = div_vt_loop c (xi - 1) yc y rc (vt_body xi yc y rc st).
Proof.
  cbn [div_vt_loop]. unfold vt_body.
  destruct (knuth_step (v_x st) y (v_xhi st) (xi + 1 - yc) 0 yc
    (div3by2 (v_xhi st) (nthz (v_x st) xi) (nthz (v_x st) (xi - 1)) rc (nthz y (yc - 2)))) as [x2 mask].
  reflexivity.
Qed.

(** the digit selection of one Knuth iteration: the top three window limbs over the top two divisor limbs
    give the true digit or one more; used by every loop variant *)
Lemma knuth_digit k xl u0 u1 x_hi yl v0 d rc :
  length xl = k -> wf xl -> is_word u0 -> is_word u1 -> is_word x_hi ->
  length yl = k -> wf yl -> is_word v0 -> r_d rc = d -> normalized d -> recip_ok d (r_v rc) ->
  let Y := eval (yl ++ [v0; d]) in
  let W := eval (xl ++ [u0; u1]) + Bn (S (S k)) * x_hi in
  W < Y * B ->
  let quo := div3by2 x_hi u1 u0 rc v0 in
  (quo - 1) * Y <= W < (quo + 1) * Y /\ is_word quo.
Proof.
  intros Hlx Hwx Hu0 Hu1 Hxhi Hly Hwy Hv0 Hrd Hn Hrec Y W HWY quo.
  pose proof B_gt1 as HB. pose proof (Bn_pos k) as HK.
  pose proof (eval_bounds xl Hwx) as Hbx. rewrite Hlx in Hbx.
  pose proof (eval_bounds yl Hwy) as Hby. rewrite Hly in Hby.
  assert (Hd : 0 < d < B) by (destruct Hn; lia).
  set (U := U3 x_hi u1 u0). set (V := d * B + v0).
  assert (HW : W = eval xl + Bn k * U).
  { unfold W, U, U3. rewrite eval_app, Hlx. cbn [eval]. rewrite !Bn_S. ring. }
  assert (HY : Y = eval yl + Bn k * V).
  { unfold Y, V. rewrite eval_app, Hly. cbn [eval]. ring. }
  unfold is_word in Hu0, Hu1, Hxhi, Hv0.
  assert (HU0 : 0 <= U) by (unfold U, U3; assert (0 <= x_hi * B * B) by (apply Z.mul_nonneg_nonneg; nia); nia).
  assert (HVB : B <= V) by (unfold V; assert (1 * B <= d * B) by (apply Z.mul_le_mono_nonneg_r; lia); lia).
  assert (Hxd : x_hi <= d).
  { destruct (Z_le_gt_dec x_hi d) as [|Hgt]; [assumption|]. exfalso.
    assert (H1 : (d + 1) * (B * B) <= x_hi * (B * B)) by (apply Z.mul_le_mono_nonneg_r; nia).
    assert (H2 : (d + 1) * (B * B) <= U) by (unfold U, U3; nia).
    assert (H3 : Bn k * ((d + 1) * (B * B)) <= Bn k * U) by (apply Z.mul_le_mono_nonneg_l; lia).
    assert (H4 : V + 1 <= (d + 1) * B) by (unfold V; lia).
    assert (H5 : Bn k * (V + 1) <= Bn k * ((d + 1) * B)) by (apply Z.mul_le_mono_nonneg_l; lia).
    assert (H6 : Y * B <= (Bn k * (V + 1)) * B) by (apply Z.mul_le_mono_nonneg_r; lia).
    assert (H7 : Bn k * (V + 1) * B <= Bn k * ((d + 1) * B) * B) by (apply Z.mul_le_mono_nonneg_r; lia).
    replace (Bn k * ((d + 1) * B) * B) with (Bn k * ((d + 1) * (B * B))) in H7 by ring.
    lia. }
  assert (Hq : quo = Z.min (U / V) (B - 1)).
  { unfold quo, U, V. rewrite <- Hrd. apply div3by2_correct; unfold is_word; rewrite ?Hrd; auto; lia. }
  destruct (knuth_estimate (Bn k) (eval xl) (eval yl) U V W Y quo HK Hbx Hby HU0 HVB HW HY HWY Hq) as [H1 H2].
  split; [assumption | exact H2].
Qed.

(** digit selection + multiply-subtract + add-back of one iteration, on the decomposed buffer x = lo ++ xw ++ qs *)
Lemma knuth_iter k y yl v0 d yb rc lo xw qs x_hi :
  y = (yl ++ [v0; d]) ++ yb -> length yl = k -> wf yl -> is_word v0 ->
  r_d rc = d -> normalized d -> recip_ok d (r_v rc) ->
  length xw = S (S k) -> wf xw -> is_word x_hi ->
  let Y := eval (yl ++ [v0; d]) in
  let W := eval xw + Bn (S (S k)) * x_hi in
  W < Y * B ->
  let x := lo ++ xw ++ qs in
  let xi := (length lo + S k)%nat in
  let quo := div3by2 x_hi (nthz x xi) (nthz x (xi - 1)) rc (nthz y (S (S k) - 2)) in
  exists rl rh q mask,
    knuth_step x y x_hi (xi + 1 - S (S k)) 0 (S (S k)) quo = (lo ++ rl ++ rh :: qs, mask) /\
    sel mask quo (wsub quo 1) = q /\
    length rl = S k /\ wf rl /\ is_word rh /\ is_word q /\
    W = q * Y + eval (rl ++ [rh]) /\ 0 <= eval (rl ++ [rh]) < Y.
Proof.
  intros Hy Hly Hwy Hv0 Hrd Hn Hrec Hlx Hwx Hxhi Y W HWY x xi quo0. subst x xi quo0.
  destruct (list_snoc xw (S k) Hlx) as (xw' & u1 & Hxw & Hlx').
  destruct (list_snoc xw' k Hlx') as (xl & u0 & Hxw' & Hlxl).
  assert (Exw : xw = xl ++ [u0; u1]) by (rewrite Hxw, Hxw', <- app_assoc; reflexivity).
  assert (Hwxl : wf xl /\ is_word u0 /\ is_word u1).
  { rewrite Exw in Hwx. apply wf_app in Hwx. destruct Hwx as [H1 H2].
    apply wf_cons in H2. destruct H2 as [H2 H3]. apply wf_cons in H3. tauto. }
  destruct Hwxl as (Hwxl & Hu0 & Hu1).
  assert (Hwyw : wf (yl ++ [v0; d])).
  { apply wf_app. split; [assumption|]. apply wf_cons. split; [assumption|]. apply wf_cons. split; [|apply wf_nil].
    unfold is_word. destruct Hn. lia. }
  (* the three limbs read by div3by2 *)
  assert (En1 : nthz (lo ++ xw ++ qs) (length lo + S k) = u1).
  { rewrite Exw. replace (lo ++ (xl ++ [u0; u1]) ++ qs) with ((lo ++ xl ++ [u0]) ++ u1 :: qs)
      by (rewrite <- !app_assoc; reflexivity).
    apply nthz_app_mid. rewrite !app_length. simpl. lia. }
  assert (En0 : nthz (lo ++ xw ++ qs) (length lo + S k - 1) = u0).
  { rewrite Exw. replace (lo ++ (xl ++ [u0; u1]) ++ qs) with ((lo ++ xl) ++ u0 :: u1 :: qs)
      by (rewrite <- !app_assoc; reflexivity).
    apply nthz_app_mid. rewrite !app_length. lia. }
  assert (Env : nthz y (S (S k) - 2) = v0).
  { rewrite Hy. replace ((yl ++ [v0; d]) ++ yb) with (yl ++ v0 :: d :: yb) by (rewrite <- app_assoc; reflexivity).
    apply nthz_app_mid. lia. }
  rewrite En1, En0, Env.
  replace (length lo + S k + 1 - S (S k))%nat with (length lo) by lia.
  assert (HW' : eval (xl ++ [u0; u1]) + Bn (S (S k)) * x_hi < eval (yl ++ [v0; d]) * B) by (rewrite <- Exw; exact HWY).
  destruct (knuth_digit k xl u0 u1 x_hi yl v0 d rc Hlxl Hwxl Hu0 Hu1 Hxhi Hly Hwy Hv0 Hrd Hn Hrec HW') as [Hest Hquo].
  set (quo := div3by2 x_hi u1 u0 rc v0) in *.
  rewrite <- Exw in Hest. fold Y W in Hest.
  destruct (knuth_step_exact (lo ++ xw ++ qs) y x_hi (length lo) 0 (S (S k)) quo lo xw qs [] (yl ++ [v0; d]) yb
              eq_refl eq_refl Hlx Hy eq_refl ltac:(rewrite app_length; simpl; lia) Hwx Hwyw Hxhi Hquo Hest)
    as (xw2 & mask & Hk & Hw2 & Hl2 & Hres).
  cbv zeta in Hres. fold Y W in Hres. destruct Hres as (HWq & Hrem & _ & _ & Hq0 & Hsel & _).
  set (q := if mask then quo - 1 else quo) in *.
  destruct (list_snoc xw2 (S k) Hl2) as (rl & rh & Exw2 & Hlrl).
  assert (Hwrl : wf rl /\ is_word rh).
  { rewrite Exw2 in Hw2. apply wf_app in Hw2. destruct Hw2 as [H1 H2]. apply wf_cons in H2. tauto. }
  exists rl, rh, q, mask. rewrite <- Exw2.
  assert (Ex2 : lo ++ xw2 ++ qs = lo ++ rl ++ rh :: qs) by (rewrite Exw2, <- !app_assoc; reflexivity).
  rewrite <- Ex2.
  split; [assumption|]. split; [assumption|]. split; [assumption|]. split; [tauto|]. split; [tauto|].
  split; [|split; assumption].
  unfold is_word in *. split; [assumption|]. unfold q. destruct mask; lia.
Qed.

(** one iteration of the vartime loop *)
Lemma vt_iter k y yl v0 d yb rc lo xw qs x_hi :
  y = (yl ++ [v0; d]) ++ yb -> length yl = k -> wf yl -> is_word v0 ->
  r_d rc = d -> normalized d -> recip_ok d (r_v rc) ->
  length xw = S (S k) -> wf xw -> is_word x_hi ->
  let Y := eval (yl ++ [v0; d]) in
  let W := eval xw + Bn (S (S k)) * x_hi in
  W < Y * B ->
  exists rl rh q,
    vt_body (length lo + S k) (S (S k)) y rc {| v_x := lo ++ xw ++ qs; v_xhi := x_hi |}
      = {| v_x := lo ++ rl ++ q :: qs; v_xhi := rh |} /\
    length rl = S k /\ wf rl /\ is_word rh /\ is_word q /\
    W = q * Y + eval (rl ++ [rh]) /\ 0 <= eval (rl ++ [rh]) < Y.
Proof.
  intros Hy Hly Hwy Hv0 Hrd Hn Hrec Hlx Hwx Hxhi Y W HWY.
  destruct (knuth_iter k y yl v0 d yb rc lo xw qs x_hi Hy Hly Hwy Hv0 Hrd Hn Hrec Hlx Hwx Hxhi HWY)
    as (rl & rh & q & mask & Hk & Hsel & Hlrl & Hrest).
  exists rl, rh, q. split; [|exact (conj Hlrl Hrest)].
  unfold vt_body. cbn [v_x v_xhi]. cbv zeta in Hk, Hsel. rewrite Hk, Hsel.
  replace (lo ++ rl ++ rh :: qs) with ((lo ++ rl) ++ rh :: qs) by (rewrite <- app_assoc; reflexivity).
  rewrite (nthz_app_mid (lo ++ rl) rh qs) by (rewrite app_length; lia).
  rewrite (upd_app_mid (lo ++ rl) rh qs _ q) by (rewrite app_length; lia).
  rewrite <- app_assoc. reflexivity.
Qed.

(** the whole loop: [S (length lo)] iterations bring down the limbs of lo one by one *)
Lemma div_vt_loop_correct k y yl v0 d yb rc :
  y = (yl ++ [v0; d]) ++ yb -> length yl = k -> wf yl -> is_word v0 ->
  r_d rc = d -> normalized d -> recip_ok d (r_v rc) ->
  let Y := eval (yl ++ [v0; d]) in
  forall lo xw qs x_hi,
  wf lo -> length xw = S (S k) -> wf xw -> is_word x_hi ->
  eval xw + Bn (S (S k)) * x_hi < Y * B ->
  exists rl Qs rh,
    div_vt_loop (S (length lo)) (length lo + S k) (S (S k)) y rc {| v_x := lo ++ xw ++ qs; v_xhi := x_hi |}
      = {| v_x := rl ++ Qs ++ qs; v_xhi := rh |} /\
    length rl = S k /\ wf rl /\ is_word rh /\ wf Qs /\ length Qs = S (length lo) /\
    eval lo + Bn (length lo) * (eval xw + Bn (S (S k)) * x_hi) = eval (rl ++ [rh]) + Y * eval Qs /\
    0 <= eval (rl ++ [rh]) < Y.
Proof.
  intros Hy Hly Hwy Hv0 Hrd Hn Hrec Y lo.
  induction lo as [|l lo' IH] using rev_ind; intros xw qs x_hi Hwlo Hlx Hwx Hxhi HWY.
  - destruct (vt_iter k y yl v0 d yb rc [] xw qs x_hi Hy Hly Hwy Hv0 Hrd Hn Hrec Hlx Hwx Hxhi HWY)
      as (rl & rh & q & Hb & Hlrl & Hwrl & Hrh & Hq & HWq & Hrem).
    exists rl, [q], rh. rewrite div_vt_loop_S. cbn [length Nat.add app] in *. rewrite Hb.
    cbn [div_vt_loop app eval length]. rewrite Bn_0. fold Y in HWq, Hrem.
    split; [reflexivity|]. split; [assumption|]. split; [assumption|]. split; [assumption|].
    split; [apply wf_cons; split; [assumption | apply wf_nil]|]. split; [reflexivity|].
    split; [lia | assumption].
  - apply wf_app in Hwlo. destruct Hwlo as [Hwlo' Hl]. apply wf_cons in Hl. destruct Hl as [Hl _].
    destruct (vt_iter k y yl v0 d yb rc (lo' ++ [l]) xw qs x_hi Hy Hly Hwy Hv0 Hrd Hn Hrec Hlx Hwx Hxhi HWY)
      as (rl & rh & q & Hb & Hlrl & Hwrl & Hrh & Hq & HWq & Hrem).
    fold Y in HWq, Hrem.
    rewrite div_vt_loop_S, Hb.
    assert (Hlen : length (lo' ++ [l]) = S (length lo')) by (rewrite app_length; simpl; lia).
    rewrite Hlen.
    replace (S (length lo') + S k - 1)%nat with (length lo' + S k)%nat by lia.
    replace ((lo' ++ [l]) ++ rl ++ q :: qs) with (lo' ++ (l :: rl) ++ (q :: qs)) by (rewrite <- !app_assoc; reflexivity).
    assert (Hrle : eval (rl ++ [rh]) = eval rl + Bn (S k) * rh) by (rewrite eval_snoc, Hlrl; reflexivity).
    assert (HW' : eval (l :: rl) + Bn (S (S k)) * rh < Y * B).
    { cbn [eval]. rewrite (Bn_S (S k)). unfold is_word in Hl. pose proof B_gt1.
      assert (B * (eval rl + Bn (S k) * rh) <= B * (Y - 1)) by (apply Z.mul_le_mono_nonneg_l; lia). lia. }
    destruct (IH (l :: rl) (q :: qs) rh Hwlo' ltac:(simpl; lia) ltac:(apply wf_cons; split; assumption) Hrh HW')
      as (rl' & Qs' & rh' & Hloop & Hlrl' & Hwrl' & Hrh' & HwQ & HlQ & Heq & Hrem').
    exists rl', (Qs' ++ [q]), rh'. rewrite Hloop.
    split; [rewrite <- !app_assoc; reflexivity|]. split; [assumption|]. split; [assumption|]. split; [assumption|].
    split; [apply wf_app; split; [assumption | apply wf_cons; split; [assumption | apply wf_nil]]|].
    split; [rewrite app_length; simpl; lia|]. split; [|assumption].
    set (E := eval (rl' ++ [rh'])) in *.
    rewrite (eval_snoc lo' l), (eval_snoc Qs' q), HlQ. rewrite (Bn_S (length lo')).
    cbn [eval] in Heq. rewrite (Bn_S (S k)) in Heq.
    set (a := Bn (length lo')) in *.
    set (W := eval xw + Bn (S (S k)) * x_hi) in *.
    rewrite Hrle in HWq.
    assert (Hmul : B * a * W = B * a * (q * Y + (eval rl + Bn (S k) * rh))) by (rewrite HWq; reflexivity).
    lia.
Qed.

(* ---------- the quotient read-out ---------- *)
Lemma nth_map_seq (f : nat -> Z) n i : (i < n)%nat -> nth i (map f (seq 0 n)) 0 = f i.
Proof.
  intros Hi. rewrite (nth_indep _ 0 (f 0%nat)) by (rewrite map_length, seq_length; assumption).
  rewrite map_nth, seq_nth by assumption. reflexivity.
Qed.

Lemma quotient_readout (rl Qs : list Z) n yc :
  length rl = (yc - 1)%nat -> length Qs = (n - yc + 1)%nat -> (1 <= yc <= n)%nat ->
  map (fun i => if (i <=? n - yc)%nat then nthz (rl ++ Qs) (i + yc - 1) else 0) (seq 0 n) = Qs ++ zeros (yc - 1).
Proof.
  intros Hrl HQ Hyc. apply (nth_ext _ _ 0 0).
  - rewrite map_length, seq_length, app_length, length_zeros. lia.
  - intros i Hi. rewrite map_length, seq_length in Hi. rewrite nth_map_seq by assumption.
    destruct (i <=? n - yc)%nat eqn:E.
    + apply Nat.leb_le in E. unfold nthz. rewrite app_nth2 by lia. rewrite app_nth1 by lia. f_equal. lia.
    + apply Nat.leb_gt in E. rewrite app_nth2 by lia. unfold zeros. rewrite nth_repeat. reflexivity.
Qed.

Lemma eval_single_limb y : wf y -> eval y < B -> eval y = nthz y 0.
Proof.
  intros Hw Hlt. destruct y as [|a r]; [reflexivity|]. apply wf_cons in Hw. destruct Hw as [Ha Hr].
  cbn [eval] in *. unfold nthz. cbn [nth]. pose proof (eval_nonneg r Hr). unfold is_word in Ha. pose proof B_gt1.
  destruct (Z.eq_dec (eval r) 0) as [->|]; [lia|]. assert (B * 1 <= B * eval r) by (apply Z.mul_le_mono_nonneg_l; lia). lia.
Qed.

(** exact division from the normalised equation  X * S = R + (Y0 * S) * Q,  0 <= R < Y0 * S *)
Lemma denormalise X S R Y0 Q : 0 < S -> X * S = R + (Y0 * S) * Q -> 0 <= R < Y0 * S ->
  X = Q * Y0 + R / S /\ 0 <= R / S < Y0.
Proof.
  intros HS He HR. assert (Hm : R = (X - Q * Y0) * S) by lia.
  assert (Hd : R / S = X - Q * Y0) by (rewrite Hm; apply Z.div_mul; lia).
  rewrite Hd. set (t := X - Q * Y0) in *. split; [lia|]. split.
  - destruct (Z_lt_ge_dec t 0); [|lia]. assert (t * S <= (-1) * S) by (apply Z.mul_le_mono_nonneg_r; lia). lia.
  - destruct (Z_lt_ge_dec t Y0); [assumption|]. assert (Y0 * S <= t * S) by (apply Z.mul_le_mono_nonneg_r; lia). lia.
Qed.

(* ---------- the normalised Knuth loop, shared by Uint::div_rem_vartime and the boxed in-place division ---------- *)
Lemma vt_core k x0 xs x_hi yw yb s Y0 :
  wf xs -> length xs = length x0 -> eval xs + Bn (length x0) * x_hi = eval x0 * 2 ^ s -> 0 <= x_hi < 2 ^ s ->
  0 <= s < 64 -> (S (S k) <= length x0)%nat ->
  wf yw -> length yw = S (S k) -> eval yw = Y0 * 2 ^ s -> Bn (S (S k)) <= 2 * eval yw ->
  recip_ok (nthz yw (S k)) (reciprocal (nthz yw (S k))) ->
  let n := length x0 in
  let st := div_vt_loop (n - S (S k) + 1) (n - 1) (S (S k)) (yw ++ yb) (recip_new (nthz (yw ++ yb) (S (S k) - 1)))
              {| v_x := xs; v_xhi := x_hi |} in
  exists rl Qs, v_x st = rl ++ Qs /\ length rl = S k /\ length Qs = (n - S (S k) + 1)%nat /\
    wf rl /\ wf Qs /\ is_word (v_xhi st) /\
    let R := eval (rl ++ [v_xhi st]) in
    eval x0 = eval Qs * Y0 + R / 2 ^ s /\ 0 <= R / 2 ^ s < Y0.
Proof.
  intros Hwxs Hlxs Hxe Hxhi Hsh E2 Hwyw Hlyw Heyw Hnlo Hrec n st. subst st. fold n in Hxe, Hlxs, E2.
  pose proof B_gt1 as HB.
  (* divisor decomposition: yw = yl ++ [v0; d] *)
  destruct (list_snoc yw (S k) Hlyw) as (yw' & d & Eyw & Hlyw').
  destruct (list_snoc yw' k Hlyw') as (yl & v0 & Eyw' & Hlyl).
  assert (Eyw2 : yw = yl ++ [v0; d]) by (rewrite Eyw, Eyw', <- app_assoc; reflexivity).
  assert (Hwy3 : wf yl /\ is_word v0 /\ is_word d).
  { rewrite Eyw2 in Hwyw. apply wf_app in Hwyw. destruct Hwyw as [H1 H2].
    apply wf_cons in H2. destruct H2 as [H2 H3]. apply wf_cons in H3. tauto. }
  destruct Hwy3 as (Hwyl & Hv0 & Hdw).
  assert (Hwyw' : wf yw') by (rewrite Eyw in Hwyw; apply wf_app in Hwyw; tauto).
  assert (Htop : nthz (yw ++ yb) (S (S k) - 1) = d).
  { rewrite Eyw, <- app_assoc. apply nthz_app_mid. lia. }
  assert (Htop' : nthz yw (S k) = d).
  { rewrite Eyw. replace (yw' ++ [d]) with (yw' ++ d :: []) by reflexivity. apply nthz_app_mid. lia. }
  rewrite Htop' in Hrec.
  assert (Hnd : normalized d).
  { unfold normalized. unfold is_word in Hdw. split; [|lia].
    pose proof (eval_bounds yw' Hwyw') as Hb'. rewrite Hlyw' in Hb'.
    rewrite Eyw, eval_snoc, Hlyw' in Hnlo. rewrite (Bn_S (S k)) in Hnlo.
    pose proof (Bn_pos (S k)) as Hp. pose proof B_half.
    destruct (Z_lt_ge_dec (2 * d) B) as [Hlt|]; [|lia]. exfalso.
    assert (2 * d + 2 <= B) by lia.
    assert (Bn (S k) * (2 * d + 2) <= Bn (S k) * B) by (apply Z.mul_le_mono_nonneg_l; lia). lia. }
  rewrite Htop. rewrite recip_new_normalized by assumption.
  set (rc := {| r_d := d; r_shift := 0; r_v := reciprocal d |}) in *.
  (* dividend decomposition: xs = lo ++ xw *)
  set (lo := firstn (n - S (S k)) xs). set (xw := skipn (n - S (S k)) xs).
  assert (Exs : xs = lo ++ xw ++ []) by (rewrite app_nil_r; unfold lo, xw; rewrite firstn_skipn; reflexivity).
  assert (Hllo : length lo = (n - S (S k))%nat) by (unfold lo; rewrite firstn_length_le; lia).
  assert (Hlxw : length xw = S (S k)) by (unfold xw; rewrite skipn_length; lia).
  assert (Hwlo : wf lo) by (apply wf_firstn; assumption).
  assert (Hwxw : wf xw) by (apply wf_skipn; assumption).
  assert (Hxhiw : is_word x_hi).
  { unfold is_word. assert (2 ^ s <= 2 ^ 64) by (apply Z.pow_le_mono_r; lia). rewrite B_val. lia. }
  pose proof (eval_bounds xw Hwxw) as Hbxw. rewrite Hlxw in Hbxw.
  set (Y := eval (yl ++ [v0; d])) in *.
  assert (HY : Y = Y0 * 2 ^ s) by (unfold Y; rewrite <- Eyw2; assumption).
  assert (HY' : eval yw = Y) by (unfold Y; rewrite Eyw2; reflexivity).
  assert (HWY : eval xw + Bn (S (S k)) * x_hi < Y * B).
  { pose proof (Bn_pos (S (S k))) as HBp. pose proof B_half as Hh. pose proof p63_pos.
    assert (Hx63 : x_hi + 1 <= 2 ^ 63).
    { assert (2 ^ s <= 2 ^ 63) by (apply Z.pow_le_mono_r; lia). lia. }
    assert (Bn (S (S k)) * (x_hi + 1) <= Bn (S (S k)) * 2 ^ 63) by (apply Z.mul_le_mono_nonneg_l; lia).
    assert (Bn (S (S k)) * 2 ^ 63 <= Y * B).
    { rewrite Hh. assert (Bn (S (S k)) * 2 ^ 63 <= (2 * Y) * 2 ^ 63) by (apply Z.mul_le_mono_nonneg_r; lia). lia. }
    lia. }
  assert (Hrcd : recip_ok d (r_v rc)) by (cbn [r_v rc]; assumption).
  assert (Eyy : yw ++ yb = (yl ++ [v0; d]) ++ yb) by (rewrite Eyw2; reflexivity).
  destruct (div_vt_loop_correct k (yw ++ yb) yl v0 d yb rc Eyy Hlyl Hwyl Hv0 eq_refl Hnd Hrcd
              lo xw [] x_hi Hwlo Hlxw Hwxw Hxhiw HWY)
    as (rl & Qs & rh & Hloop & Hlrl & Hwrl & Hrh & HwQ & HlQ & Heq & Hrem).
  fold Y in Heq, Hrem.
  replace (n - S (S k) + 1)%nat with (S (length lo)) by lia.
  replace (n - 1)%nat with (length lo + S k)%nat by lia.
  rewrite Exs. rewrite Hloop. cbn [v_x v_xhi]. rewrite app_nil_r.
  exists rl, Qs. split; [reflexivity|]. split; [assumption|]. split; [lia|].
  split; [assumption|]. split; [assumption|]. split; [assumption|].
  assert (HX : eval x0 * 2 ^ s = eval (rl ++ [rh]) + (Y0 * 2 ^ s) * eval Qs).
  { rewrite <- HY, <- Heq, <- Hxe. rewrite Exs, app_nil_r, eval_app, Hllo.
    replace n with ((n - S (S k)) + S (S k))%nat at 2 by lia. rewrite Bn_add. ring. }
  assert (H2s : 0 < 2 ^ s) by (apply Z.pow_pos_nonneg; lia).
  rewrite HY in Hrem.
  destruct (denormalise (eval x0) (2 ^ s) (eval (rl ++ [rh])) Y0 (eval Qs) H2s HX Hrem) as [Hfin Hfin2].
  cbv zeta. split; assumption.
Qed.

(* ---------- Uint::div_rem_vartime ---------- *)
Theorem div_rem_vartime_correct x0 y0 q r :
  wf x0 -> wf y0 -> eval y0 <> 0 ->
  recip_ok (top64 (eval y0)) (reciprocal (top64 (eval y0))) ->
  div_rem_vartime x0 y0 = (q, r) ->
  eval x0 = eval q * eval y0 + eval r /\ 0 <= eval r < eval y0 /\
  length q = length x0 /\ length r = length y0 /\ wf q /\ wf r.
Proof.
  intros Hwx Hwy Hnz Hrec E.
  pose proof (eval_nonneg y0 Hwy) as Hy0. assert (Hyp : 0 < eval y0) by lia.
  pose proof (eval_bounds x0 Hwx) as Hbx. pose proof (eval_bounds y0 Hwy) as Hby.
  destruct (nlimbs_spec _ Hyp) as (Hyc1 & Hsh & Hshe & [Hylo Hyhi] & Hnlo & Hnhi).
  pose proof (nlimbs_le_length y0 Hwy Hyp) as Hycm.
  pose proof (top64_normalized _ Hyp) as Hnorm.
  unfold div_rem_vartime in E. fold (nlimbs (eval y0)) in E. fold (nshift (eval y0)) in E.
  set (yc := nlimbs (eval y0)) in *. set (s := nshift (eval y0)) in *.
  set (n := length x0) in *. set (m := length y0) in *.
  pose proof B_gt1 as HB.
  destruct (yc =? 1)%nat eqn:E1.
  - (* one significant limb *)
    apply Nat.eqb_eq in E1. rewrite E1 in *. rewrite Bn_1 in Hyhi.
    pose proof (eval_single_limb y0 Hwy Hyhi) as Hd. set (d := nthz y0 0) in *.
    assert (Hfor : recip_for d (recip_new d)).
    { apply recip_new_for; [lia|]. rewrite recip_new_top64 by lia. rewrite <- Hd. assumption. }
    pose proof (div_rem_limb_correct x0 d (recip_new d) Hwx ltac:(lia) Hfor) as H.
    destruct (div_rem_limb_with_reciprocal x0 (recip_new d)) as [q1 r1]. inv_pair E.
    destruct H as (He & Hr & Hwq & Hlq).
    assert (Hwr : wf [r1]) by (apply wf_cons; split; [unfold is_word; lia | apply wf_nil]).
    assert (Hev : eval (resize m [r1]) = r1).
    { rewrite eval_resize_ge by (auto; simpl; lia). cbn [eval]. lia. }
    rewrite Hev, Hd. repeat split; auto using length_resize, wf_resize; lia.
  - apply Nat.eqb_neq in E1. destruct (n <? yc)%nat eqn:E2.
    + (* divisor longer than dividend *)
      apply Nat.ltb_lt in E2. inv_pair E.
      assert (Bn n <= Bn (yc - 1)) by (apply Bn_le; lia).
      assert (Hev : eval (resize m x0) = eval x0).
      { rewrite eval_resize by assumption. apply Z.mod_small. lia. }
      rewrite Hev, eval_zeros. repeat split; auto using length_zeros, length_resize, wf_zeros, wf_resize; lia.
    + apply Nat.ltb_ge in E2.
      (* normalisation *)
      pose proof (shl_limb_vartime_full x0 s Hwx Hsh) as Hx. fold n in Hx.
      destruct (shl_limb_vartime x0 s n) as [xs x_hi] eqn:Eshx. destruct Hx as (Hxe & Hwxs & Hlxs & Hxhi).
      destruct (shl_limb_vartime_low y0 s yc Hwy Hsh Hycm Hnhi) as (yw & yb & Hyw & Hlyw & Hwyw & Hwyb & Heyw & Heyb & Hlyy).
      destruct (shl_limb_vartime y0 s yc) as [y cy]. cbn [fst] in Hyw. subst y.
      destruct yc as [|[|k]] eqn:Eyc; [lia | lia |]. clear E1 Hyc1.
      assert (Hdtop : nthz yw (S k) = top64 (eval y0)).
      { rewrite top64_shifted by assumption. fold s. change (nlimbs (eval y0)) with yc. rewrite Eyc.
        destruct (list_snoc yw (S k) Hlyw) as (yw' & d & Eyw & Hlyw').
        assert (Hwyw' : wf yw') by (rewrite Eyw in Hwyw; apply wf_app in Hwyw; tauto).
        rewrite <- Heyw, Eyw. replace (S (S k) - 1)%nat with (length yw') by lia.
        rewrite top_limb_div by assumption.
        replace (yw' ++ [d]) with (yw' ++ d :: []) by reflexivity. apply nthz_app_mid. lia. }
      assert (Hrec' : recip_ok (nthz yw (S k)) (reciprocal (nthz yw (S k)))) by (rewrite Hdtop; assumption).
      assert (Hnlo' : Bn (S (S k)) <= 2 * eval yw) by (rewrite Heyw; assumption).
      destruct (vt_core k x0 xs x_hi yw yb s (eval y0) Hwxs Hlxs Hxe Hxhi Hsh E2 Hwyw Hlyw Heyw Hnlo' Hrec')
        as (rl & Qs & Hvx & Hlrl & HlQ & Hwrl & HwQ & Hrh & Hfin & Hfin2).
      fold n in Hvx, HlQ, Hrh, Hfin, Hfin2.
      set (st := div_vt_loop (n - S (S k) + 1) (n - 1) (S (S k)) (yw ++ yb)
                   (recip_new (nthz (yw ++ yb) (S (S k) - 1))) {| v_x := xs; v_xhi := x_hi |}) in *.
      rewrite Hvx in E. set (rh := v_xhi st) in *. inv_pair E.
      (* quotient *)
      rewrite (quotient_readout rl Qs n (S (S k))) by lia.
      (* remainder *)
      replace (S (S k) - 1)%nat with (length rl) by lia.
      rewrite firstn_app, Nat.sub_diag, firstn_all. cbn [firstn]. rewrite app_nil_r.
      replace (skipn (S (S k)) (yw ++ yb)) with yb
        by (rewrite skipn_app, skipn_all2, Hlyw, Nat.sub_diag by lia; reflexivity).
      replace (rl ++ [rh] ++ yb) with ((rl ++ [rh]) ++ yb) by (rewrite <- app_assoc; reflexivity).
      assert (Hlr1 : length (rl ++ [rh]) = S (S k)) by (rewrite app_length; simpl; lia).
      assert (Hwr1 : wf (rl ++ [rh])) by (apply wf_app; split; [assumption | apply wf_cons; split; [assumption | apply wf_nil]]).
      pose proof (shr_limb_vartime_correct (rl ++ [rh]) yb s Hwr1 Hwyb Heyb Hsh) as Hshr.
      rewrite Hlr1 in Hshr. cbv zeta in Hshr. destruct Hshr as (Hre & Hwr & Hlr).
      set (rr := shr_limb_vartime ((rl ++ [rh]) ++ yb) s (S (S k))) in *.
      rewrite eval_app, eval_zeros, Hre. cbv zeta in Hfin, Hfin2.
      split; [lia|]. split; [assumption|].
      split; [rewrite app_length, length_zeros; lia|].
      split; [rewrite Hlr, !app_length; simpl; rewrite app_length in Hlyy; lia|].
      split; [apply wf_app; split; [assumption | apply wf_zeros] | assumption].
Qed.
