(** C06 proofs, part 3: BoxedUint — comparison of operands of equal or different precision, zero / one tests,
    select / assign / swap, and the refutations (Hash vs Eq, cmp_vartime and ct_swap on different precisions). *)
From CB Require Import Model.Limbs Model.AddSub Model.Cmp Proofs.WordP Proofs.LimbsP Proofs.AddSubP
  Proofs.CmpWordP Proofs.CmpP.
From Coq Require Import ZArith Lia List Bool.
Open Scope Z_scope.

Lemma wfb_wf ls : wfb ls = true -> wf ls.
Proof.
  unfold wfb, wf. intros H. apply Forall_forall. intros x Hx.
  rewrite forallb_forall in H. specialize (H x Hx). unfold is_wordb in H.
  apply andb_prop in H. destruct H as [H1 H2]. apply Z.leb_le in H1. apply Z.ltb_lt in H2.
  unfold is_word. lia.
Qed.
Ltac wf_by_compute := apply wfb_wf; vm_compute; reflexivity.

(* ---------------------------------------------------------------- ct_eq with zero padding *)
Lemma fold_cteq a : forall b (p : bool), wf a -> wf b -> length a = length b ->
  fold_left (fun r q => ch_and r (limb_ct_eq (fst q) (snd q))) (combine a b) (b2z p) = b2z (p && list_eqb a b).
Proof.
  induction a as [|x a IH]; intros [|y b] p Ha Hb Hl; try discriminate.
  - simpl. rewrite andb_true_r. reflexivity.
  - apply wf_cons in Ha. destruct Ha as [Hx Ha]. apply wf_cons in Hb. destruct Hb as [Hy Hb].
    simpl in Hl. cbn [combine fold_left fst snd list_eqb].
    rewrite limb_ct_eq_spec, ch_and_b2z by assumption. rewrite IH by (auto; lia).
    rewrite andb_assoc. reflexivity.
Qed.

(** ct_eq / == on BoxedUint: equality of the represented integers, whatever the two precisions *)
Lemma boxed_ct_eq_spec a b : wf a -> wf b -> boxed_ct_eq a b = b2z (eval a =? eval b).
Proof.
  intros Ha Hb. unfold boxed_ct_eq. set (n := Nat.max (length a) (length b)).
  change 1 with (b2z true).
  rewrite fold_cteq by (auto using wf_resize; rewrite !length_resize; reflexivity).
  rewrite <- eqb_eval_list by (auto using wf_resize; rewrite !length_resize; reflexivity).
  rewrite !eval_resize_ge by (auto; unfold n; lia). reflexivity.
Qed.

(* ---------------------------------------------------------------- ct_lt / ct_gt from the borrow of the padded subtraction *)
Lemma boxed_ct_lt_spec a b : wf a -> wf b -> boxed_ct_lt a b = b2z (eval a <? eval b).
Proof.
  intros Ha Hb. unfold boxed_ct_lt, boxed_sbb. set (n := Nat.max (length a) (length b)).
  destruct (sbb_limbs (resize n a) (resize n b) 0) as [r bo] eqn:E. cbn [snd].
  destruct (sbb_limbs_borrow _ _ r bo (wf_resize n a Ha) (wf_resize n b Hb)
              ltac:(rewrite !length_resize; reflexivity) E) as (-> & _).
  rewrite !eval_resize_ge by (auto; unfold n; lia). apply to_choice_choice.
Qed.
Lemma boxed_ct_gt_spec a b : wf a -> wf b -> boxed_ct_gt a b = b2z (eval b <? eval a).
Proof. intros. unfold boxed_ct_gt. fold (boxed_ct_lt b a). apply boxed_ct_lt_spec; assumption. Qed.

(** Ord::cmp on BoxedUint: the mathematical order for any two precisions; the debug assertion never fires *)
Lemma boxed_cmp_spec dbg a b : wf a -> wf b -> boxed_cmp dbg a b = Some (ordz (eval a) (eval b)).
Proof.
  intros Ha Hb. unfold boxed_cmp. rewrite boxed_ct_gt_spec, boxed_ct_lt_spec, boxed_ct_eq_spec by assumption.
  unfold ord_assign, ordz.
  destruct (Z.ltb_spec (eval b) (eval a)), (Z.ltb_spec (eval a) (eval b)), (Z.eqb_spec (eval a) (eval b));
    try lia; cbn; rewrite ?andb_false_r; reflexivity.
Qed.

(** cmp_vartime (zero-padding both operands): the mathematical order for any two precisions *)
Lemma boxed_cmp_vartime_spec a b : wf a -> wf b -> boxed_cmp_vartime a b = ordz (eval a) (eval b).
Proof.
  intros Ha Hb. unfold boxed_cmp_vartime. set (n := Nat.max (length a) (length b)).
  fold (uint_cmp_vartime (resize n a) (resize n b)).
  rewrite uint_cmp_vartime_spec by (auto using wf_resize; rewrite !length_resize; reflexivity).
  rewrite !eval_resize_ge by (auto; unfold n; lia). reflexivity.
Qed.

(* ---------------------------------------------------------------- zero / one / parity *)
Lemma eval_cons_zero x a : is_word x -> wf a -> (eval (x :: a) =? 0) = (x =? 0) && (eval a =? 0).
Proof.
  intros Hx Ha. cbn [eval]. pose proof (eval_nonneg a Ha). unfold is_word in Hx. pose proof B_pos.
  destruct (Z.eqb_spec x 0), (Z.eqb_spec (eval a) 0); simpl; try (apply Z.eqb_eq; subst; lia); apply Z.eqb_neq; timeout 20 nia.
Qed.

Lemma fold_is_zero a : forall (p : bool), wf a ->
  fold_left (fun acc x => ch_and acc (limb_is_zero x)) a (b2z p) = b2z (p && (eval a =? 0)).
Proof.
  induction a as [|x a IH]; intros p Ha.
  - simpl. rewrite andb_true_r. reflexivity.
  - apply wf_cons in Ha. destruct Ha as [Hx Ha]. cbn [fold_left].
    rewrite limb_is_zero_spec, ch_and_b2z by assumption. rewrite IH by assumption.
    rewrite eval_cons_zero by assumption. rewrite andb_assoc. reflexivity.
Qed.

Lemma boxed_is_zero_spec a : wf a -> boxed_is_zero a = b2z (eval a =? 0).
Proof. intros Ha. unfold boxed_is_zero. change 1 with (b2z true). rewrite fold_is_zero by assumption. reflexivity. Qed.
Lemma boxed_is_nonzero_spec a : wf a -> boxed_is_nonzero a = b2z (negb (eval a =? 0)).
Proof. intros Ha. unfold boxed_is_nonzero. rewrite boxed_is_zero_spec by assumption. apply ch_not_b2z. Qed.

Lemma boxed_is_one_spec a : wf a -> boxed_is_one a = b2z (eval a =? 1).
Proof.
  intros Ha. destruct a as [|x a]; [reflexivity|].
  apply wf_cons in Ha. destruct Ha as [Hx Ha]. cbn [boxed_is_one].
  rewrite limb_ct_eq_spec by (auto using is_word_1). rewrite fold_is_zero by assumption. f_equal.
  cbn [eval]. pose proof (eval_nonneg a Ha). unfold is_word in Hx. pose proof B_gt1.
  destruct (Z.eqb_spec x 1), (Z.eqb_spec (eval a) 0); simpl; symmetry; try (apply Z.eqb_eq; subst; lia); apply Z.eqb_neq; timeout 20 nia.
Qed.

(* ---------------------------------------------------------------- select / assign / swap *)
Lemma boxed_guard_same {A} dbg a b (k : A) : length a = length b -> boxed_guard dbg a b k = Some k.
Proof.
  intros Hl. unfold boxed_guard. rewrite Hl, Nat.eqb_refl, Nat.ltb_irrefl, andb_false_r. reflexivity.
Qed.

(** ct_select / ct_assign: exactly the chosen operand, for both choice values (operands of equal precision) *)
Lemma boxed_ct_select_partial dbg a b (c : bool) : wf a -> wf b -> length a = length b ->
  boxed_ct_select dbg a b (b2z c) = Some (spec_select c a b).
Proof.
  intros Ha Hb Hl. unfold boxed_ct_select. rewrite boxed_guard_same by assumption.
  rewrite ct_select_limbs_spec by assumption. reflexivity.
Qed.

Lemma boxed_ct_swap_partial dbg a b (c : bool) : wf a -> wf b -> length a = length b ->
  boxed_ct_swap dbg a b (b2z c) = Some (spec_select c a b, spec_select c b a).
Proof.
  intros Ha Hb Hl. unfold boxed_ct_swap. rewrite boxed_guard_same by assumption.
  rewrite Hl, firstn_all, skipn_all. rewrite ct_swap_limbs_spec by assumption.
  rewrite app_nil_r. reflexivity.
Qed.

(** release builds, different precisions: ct_swap leaves a mixture of both operands in the wider one,
    ct_select returns a truncated operand *)
Lemma boxed_ct_swap_refuted :
  exists a b a' b', wf a /\ wf b /\ boxed_ct_swap false a b 1 = Some (a', b') /\ b' <> a /\ b' <> b.
Proof.
  exists [1], [2; 3], [2], [1; 3]. split; [wf_by_compute|]. split; [wf_by_compute|].
  split; [vm_compute; reflexivity|]. split; discriminate.
Qed.
Lemma boxed_ct_select_refuted :
  exists a b r, wf a /\ wf b /\ boxed_ct_select false a b 1 = Some r /\ r <> b.
Proof.
  exists [1], [2; 3], [2]. split; [wf_by_compute|]. split; [wf_by_compute|].
  split; [vm_compute; reflexivity | discriminate].
Qed.

(** conditional_negate on BoxedUint *)
Lemma boxed_conditional_negate_spec a (c : bool) : wf a ->
  let r := boxed_conditional_negate a (b2z c) in
  eval r = (if c then - eval a else eval a) mod Bn (length a) /\ wf r /\ length r = length a.
Proof. intros Ha. apply conditional_negate_spec. assumption. Qed.

(* ---------------------------------------------------------------- Hash vs Eq *)
(** the manual Hash feeds the limbs below the most significant non-zero one: a canonical form of the value *)
Definition canon (l : list Z) : Prop := match l with [] => True | x :: _ => x <> 0 end.

Lemma canon_drop_zeros ra : canon (drop_zeros ra).
Proof.
  induction ra as [|x r IH]; [exact I|]. cbn [drop_zeros].
  destruct (Z.eqb_spec x 0) as [->|Hx]; [exact IH | exact Hx].
Qed.
Lemma wf_drop_zeros ra : wf ra -> wf (drop_zeros ra).
Proof.
  induction ra as [|x r IH]; intros H; [exact H|]. cbn [drop_zeros].
  destruct (x =? 0); [|exact H]. apply wf_cons in H. apply IH. tauto.
Qed.
Lemma eval_rev_drop_zeros ra : eval (rev (drop_zeros ra)) = eval (rev ra).
Proof.
  induction ra as [|x r IH]; [reflexivity|]. cbn [drop_zeros].
  destruct (Z.eqb_spec x 0) as [->|]; [|reflexivity].
  rewrite IH. cbn [rev]. rewrite eval_app. cbn [eval]. lia.
Qed.
Lemma wf_rev l : wf l -> wf (rev l).
Proof. unfold wf. apply Forall_rev. Qed.

Lemma canon_bounds x r : wf (x :: r) -> x <> 0 ->
  Bn (length r) <= eval (rev (x :: r)) < Bn (S (length r)).
Proof.
  intros H Hx. pose proof (eval_bounds _ (wf_rev _ H)) as Hb. rewrite rev_length in Hb. cbn [length] in Hb.
  split; [|apply Hb]. apply wf_cons in H. destruct H as [Hw Hr].
  cbn [rev]. rewrite eval_app, rev_length. cbn [eval].
  pose proof (eval_nonneg _ (wf_rev _ Hr)). pose proof (Bn_pos (length r)). unfold is_word in Hw.
  assert (Bn (length r) * 1 <= Bn (length r) * x) by (apply Z.mul_le_mono_nonneg_l; lia). lia.
Qed.

Lemma canon_length l1 l2 : wf l1 -> wf l2 -> canon l1 -> canon l2 ->
  eval (rev l1) = eval (rev l2) -> (length l1 <= length l2)%nat.
Proof.
  intros H1 H2 C1 C2 E. destruct l1 as [|x1 r1]; [simpl; lia|]. destruct l2 as [|x2 r2].
  - pose proof (canon_bounds x1 r1 H1 C1). pose proof (Bn_pos (length r1)). cbn [rev eval] in E. cbn [rev] in H. lia.
  - cbn [length]. destruct (le_lt_dec (length r1) (length r2)) as [|Hlt]; [lia|exfalso].
    pose proof (canon_bounds x1 r1 H1 C1). pose proof (canon_bounds x2 r2 H2 C2).
    assert (Bn (S (length r2)) <= Bn (length r1)) by (apply Bn_le; lia). lia.
Qed.

Lemma canon_inj l1 l2 : wf l1 -> wf l2 -> canon l1 -> canon l2 -> eval (rev l1) = eval (rev l2) -> l1 = l2.
Proof.
  intros H1 H2 C1 C2 E.
  assert (Hl : length l1 = length l2).
  { apply Nat.le_antisymm; [apply canon_length | apply canon_length]; auto. }
  assert (R : rev l1 = rev l2) by (apply eval_inj; auto using wf_rev; rewrite !rev_length; assumption).
  rewrite <- (rev_involutive l1), <- (rev_involutive l2), R. reflexivity.
Qed.

Lemma eval_boxed_hash_limbs a : eval (boxed_hash_limbs a) = eval a.
Proof. unfold boxed_hash_limbs. rewrite eval_rev_drop_zeros, rev_involutive. reflexivity. Qed.

(** Hash vs Eq for ANY two precisions: values compare equal exactly when the hasher is fed identical data *)
Lemma boxed_eq_iff_hash a b : wf a -> wf b ->
  (boxed_ct_eq a b = 1 <-> boxed_hash_input a = boxed_hash_input b).
Proof.
  intros Ha Hb. rewrite boxed_ct_eq_spec by assumption. split.
  - intros E. destruct (Z.eqb_spec (eval a) (eval b)) as [Ev|]; [|discriminate].
    unfold boxed_hash_input, boxed_hash_limbs. f_equal. f_equal.
    apply canon_inj; auto using wf_drop_zeros, wf_rev, canon_drop_zeros.
    fold (boxed_hash_limbs a). fold (boxed_hash_limbs b). rewrite !eval_boxed_hash_limbs. assumption.
  - intros E. unfold boxed_hash_input, hash_input in E. injection E as _ El.
    assert (Ev : eval a = eval b) by (rewrite <- (eval_boxed_hash_limbs a), <- (eval_boxed_hash_limbs b), El; reflexivity).
    rewrite Ev, Z.eqb_refl. reflexivity.
Qed.
