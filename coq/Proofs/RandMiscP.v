(** C19, part 4: Random for Limb / Uint, Limb::random_mod, NonZero and Odd samplers. *)
From CB Require Import Model.Limbs Model.AddSub Model.Rand Proofs.WordP Proofs.LimbsP Proofs.AddSubP
  Proofs.RandBaseP Proofs.RandModP Proofs.RandBitsP.
From Coq Require Import ZArith Lia List Bool.
Open Scope Z_scope. Open Scope list_scope.

(* ------------------------------------------------------------------ Random *)
(** Uint::random / Int::random / Wrapping::random: the next n words are the limbs, low limb first *)
Theorem uint_random_spec n ws nw nb : wf ws ->
  uint_random n (Rng ws nw nb) =
    if (length ws <? n)%nat then None
    else Some (firstn n ws, Rng (skipn n ws) (nw + Z.of_nat n) (nb + 8 * Z.of_nat n)).
Proof. intros _. apply rnd_words_spec. Qed.

Theorem uint_random_agrees n ws nw nb : wf ws -> (0 < n)%nat ->
  rnd_agrees n ws 0 nw nb (uint_random n (Rng ws nw nb)) (sp_random n ws).
Proof.
  intros Hws Hn. rewrite uint_random_spec by assumption. unfold sp_random.
  destruct (Nat.ltb_spec (length ws) n); [exact I|].
  assert (Hwf : wf (firstn n ws)) by (apply wf_firstn; assumption).
  assert (Hl : length (firstn n ws) = n) by (rewrite firstn_length; lia).
  pose proof (eval_bounds _ Hwf) as Hb. rewrite Hl in Hb.
  unfold rnd_agrees. repeat split; try lia.
  - pose proof (to_limbs_eval _ Hwf) as Ht. rewrite Hl in Ht. symmetry. exact Ht.
  - rewrite Z.sub_0_r, Nat2Z.id. reflexivity.
Qed.

(* ------------------------------------------------------------------ Limb::random_mod *)
Definition rnd_agrees1 (ws0 : list Z) (base nw0 nb0 : Z) (o : option (Z * rnd_rng)) (s : rnd_sp) : Prop :=
  match o, s with
  | Some (v, Rng rest nw nb), SpOk x k b =>
      v = x /\ nw = nw0 + k /\ nb = nb0 + b /\ base < k /\ rest = skipn (Z.to_nat (k - base)) ws0
  | None, SpExhausted => True
  | _, _ => False
  end.

(** bytes of one attempt: ceil(bits/8) bytes, the top one masked to the modulus' bit length *)
Lemma rnd_limb_attempt m w : 0 < m < B -> is_word w ->
  let nbits := 64 - rnd_lz m in
  let nbytes := (nbits + 7) / 8 in
  let mask := 255 / 2 ^ (8 * nbytes - nbits) in
  let sh := 2 ^ (8 * (nbytes - 1)) in
  let v := (if 4 <? nbytes then w else w mod 2 ^ 32) mod 2 ^ (8 * nbytes) in
  nbits = rnd_bitlen m /\ 1 <= nbits <= 64 /\ 1 <= nbytes <= 8 /\ nbytes = rnd_ceil (rnd_bitlen m) 8 /\
  v mod sh + wand (v / sh) mask * sh = w mod 2 ^ rnd_bitlen m.
Proof.
  intros Hm Hw nbits nbytes mask sh v.
  assert (Hmw : is_word m) by (unfold is_word; lia).
  destruct (rnd_lz_word m Hmw) as [Hlz Hsb]. specialize (Hsb ltac:(lia)).
  assert (Hnb : nbits = rnd_bitlen m) by (unfold nbits; lia).
  assert (Hk : 1 <= nbits <= 64).
  { pose proof (rnd_bitlen_pos m ltac:(lia)). pose proof (Z.log2_nonneg m). unfold nbits in *. lia. }
  pose proof (Z.div_mod (nbits + 7) 8 ltac:(lia)) as Hdm. pose proof (Z.mod_pos_bound (nbits + 7) 8 ltac:(lia)).
  fold nbytes in Hdm.
  assert (Hby : 1 <= nbytes <= 8) by lia.
  split; [assumption|]. split; [assumption|]. split; [assumption|]. split.
  { unfold nbytes, rnd_ceil. rewrite Hnb. f_equal. lia. }
  set (t := nbits - 8 * (nbytes - 1)). assert (Ht : 1 <= t <= 8) by (unfold t; lia).
  assert (Hv : v = w mod 2 ^ (8 * nbytes)).
  { unfold v. destruct (Z.ltb_spec 4 nbytes); [reflexivity|]. apply rnd_mod_mod_pow. lia. }
  assert (Hmask : mask = 2 ^ t - 1).
  { unfold mask. replace (8 * nbytes - nbits) with (8 - t) by (unfold t; lia).
    assert (Hp : 2 ^ 8 = 2 ^ t * 2 ^ (8 - t)) by (rewrite <- rnd_pow_split by lia; f_equal; lia).
    pose proof (rnd_pow_pos t ltac:(lia)). pose proof (rnd_pow_pos (8 - t) ltac:(lia)).
    change 255 with (2 ^ 8 - 1).
    destruct (div_mod_unique_pos (2 ^ (8 - t)) (2 ^ t - 1) (2 ^ (8 - t) - 1) (2 ^ 8 - 1)) as [Hq _]; [lia | lia | exact Hq]. }
  rewrite Hmask, rnd_land_ones by lia.
  assert (Hsplit : 2 ^ nbits = sh * 2 ^ t).
  { unfold sh. rewrite <- rnd_pow_split by lia. f_equal. unfold t. lia. }
  pose proof (rnd_pow_pos (8 * (nbytes - 1)) ltac:(lia)) as Hshp. fold sh in Hshp.
  pose proof (rnd_pow_pos t ltac:(lia)).
  rewrite <- Hnb, Hsplit.
  replace (w mod (sh * 2 ^ t)) with (v mod (sh * 2 ^ t)).
  - rewrite Z.rem_mul_r by lia. ring.
  - rewrite Hv, <- Hsplit. apply rnd_mod_mod_pow. lia.
Qed.

Lemma limb_mod_loop_agrees m nw0 nb0 : 0 < m < B ->
  let nbits := 64 - rnd_lz m in
  let nbytes := (nbits + 7) / 8 in
  let mask := 255 / 2 ^ (8 * nbytes - nbits) in
  forall ws f cnt, wf ws -> (length ws <= f)%nat ->
  rnd_agrees1 ws cnt nw0 nb0
    (limb_mod_loop f m nbytes mask (Rng ws (nw0 + cnt) (nb0 + nbytes * cnt)))
    (sp_limb_mod_loop m (rnd_bitlen m) ws cnt).
Proof.
  intros Hm nbits nbytes mask. induction ws as [|w ws IH]; intros f cnt Hws Hf.
  - destruct f; exact I.
  - destruct f as [|f]; [cbn in Hf; lia|]. apply wf_cons in Hws. destruct Hws as [Hw Hws].
    cbn [limb_mod_loop sp_limb_mod_loop rnd_fill].
    destruct (rnd_limb_attempt m w Hm Hw) as (Hnb & Hkr & Hby & Hceil & Hval).
    fold nbits nbytes mask in Hnb, Hkr, Hby, Hceil, Hval. rewrite Hval.
    assert (Hvw : is_word (w mod 2 ^ rnd_bitlen m)) by (apply rnd_mod_pow_word; lia).
    rewrite rnd_from_word_lt by (try assumption; unfold is_word; lia).
    destruct (Z.ltb_spec (w mod 2 ^ rnd_bitlen m) m).
    + unfold rnd_agrees1. repeat split; try lia; try (rewrite <- Hceil; ring).
      replace (Z.to_nat (cnt + 1 - cnt)) with 1%nat by lia. reflexivity.
    + specialize (IH f (cnt + 1) Hws ltac:(cbn in Hf; lia)).
      replace (nw0 + cnt + 1) with (nw0 + (cnt + 1)) by lia.
      replace (nb0 + nbytes * cnt + nbytes) with (nb0 + nbytes * (cnt + 1)) by ring.
      destruct (limb_mod_loop f m nbytes mask _) as [[v [rest nw nb]]|];
        destruct (sp_limb_mod_loop m (rnd_bitlen m) ws (cnt + 1)) as [x k b|]; cbn in IH |- *; auto.
      destruct IH as (Hv & Hnw & Hnb' & Hk & Hr). repeat split; try assumption; try lia.
      rewrite Hr. replace (Z.to_nat (k - cnt)) with (S (Z.to_nat (k - (cnt + 1)))) by lia. reflexivity.
Qed.

(** Limb::random_mod is the specified byte-wise rejection sampler *)
Theorem limb_random_mod_spec m ws nw0 nb0 : 0 < m < B -> wf ws ->
  rnd_agrees1 ws 0 nw0 nb0 (limb_random_mod m (Rng ws nw0 nb0)) (sp_limb_random_mod m ws).
Proof.
  intros Hm Hws. unfold limb_random_mod, sp_limb_random_mod. cbn [rnd_left].
  pose proof (limb_mod_loop_agrees m nw0 nb0 Hm ws (length ws) 0 Hws ltac:(lia)) as H.
  cbn zeta in H. rewrite !Z.mul_0_r, !Z.add_0_r in H. exact H.
Qed.

Lemma sp_limb_mod_loop_range m k : 0 <= k -> forall ws cnt x c b,
  sp_limb_mod_loop m k ws cnt = SpOk x c b -> 0 <= x < m /\ cnt < c /\ b = rnd_ceil k 8 * c.
Proof.
  intros Hk. induction ws as [|w ws IH]; intros cnt x c b E; [discriminate|].
  cbn [sp_limb_mod_loop] in E. destruct (Z.ltb_spec (w mod 2 ^ k) m) as [Hlt|].
  - injection E as E1 E2 E3. subst x c b. split; [|lia].
    split; [|assumption]. apply Z.mod_pos_bound. apply rnd_pow_pos. assumption.
  - apply IH in E. lia.
Qed.

(** RANGE for Limb::random_mod, for every stream *)
Theorem limb_random_mod_range m ws nw0 nb0 v r' : 0 < m < B -> wf ws ->
  limb_random_mod m (Rng ws nw0 nb0) = Some (v, r') ->
  0 <= v < m /\ exists k, 0 < k /\ r' = Rng (skipn (Z.to_nat k) ws) (nw0 + k) (nb0 + rnd_ceil (rnd_bitlen m) 8 * k).
Proof.
  intros Hm Hws E. pose proof (limb_random_mod_spec m ws nw0 nb0 Hm Hws) as H. rewrite E in H.
  unfold rnd_agrees1 in H. destruct r' as [rest nw nb].
  destruct (sp_limb_random_mod m ws) as [x k b|] eqn:Es; [|contradiction].
  destruct H as (Hv & Hnw & Hnb & Hk & Hr). unfold sp_limb_random_mod in Es.
  apply sp_limb_mod_loop_range in Es; [|apply rnd_bitlen_nonneg]. destruct Es as (Hx & _ & Hb).
  subst v. split; [assumption|]. exists k. split; [lia|]. rewrite Z.sub_0_r in Hr. subst. reflexivity.
Qed.

(* ------------------------------------------------------------------ NonZero<Uint<N>> *)
Lemma nonzero_uint_loop_agrees n nw0 nb0 : (0 < n)%nat -> forall f1 f2 ws cnt,
  wf ws -> (length ws < f1)%nat -> (length ws < f2)%nat ->
  rnd_agrees n ws cnt nw0 nb0
    (nonzero_uint_loop f1 n (Rng ws (nw0 + cnt) (nb0 + 8 * cnt)))
    (sp_nonzero_loop f2 n ws cnt).
Proof.
  intros Hn. induction f1 as [|f1 IH]; intros f2 ws cnt Hws Hf1 Hf2; [lia|].
  destruct f2 as [|f2]; [lia|].
  cbn [nonzero_uint_loop sp_nonzero_loop]. rewrite uint_random_spec by assumption.
  destruct (Nat.ltb_spec (length ws) n) as [|Hlen]; [exact I|].
  assert (Hwf : wf (firstn n ws)) by (apply wf_firstn; assumption).
  assert (Hl : length (firstn n ws) = n) by (rewrite firstn_length; lia).
  rewrite rnd_all_zero_spec by assumption.
  destruct (Z.eqb_spec (eval (firstn n ws)) 0) as [Hz|Hnz].
  - rewrite <- (firstn_skipn n ws) at 1. apply rnd_agrees_shift. rewrite Hl.
    replace (nw0 + cnt + Z.of_nat n) with (nw0 + (cnt + Z.of_nat n)) by lia.
    replace (nb0 + 8 * cnt + 8 * Z.of_nat n) with (nb0 + 8 * (cnt + Z.of_nat n)) by lia.
    apply IH; [apply wf_skipn; assumption | rewrite skipn_length; lia | rewrite skipn_length; lia].
  - pose proof (eval_bounds _ Hwf) as Hb. rewrite Hl in Hb.
    unfold rnd_agrees. repeat split; try lia.
    + pose proof (to_limbs_eval _ Hwf) as Ht. rewrite Hl in Ht. symmetry. exact Ht.
    + replace (Z.to_nat (cnt + Z.of_nat n - cnt)) with n by lia. reflexivity.
Qed.

Theorem nonzero_uint_random_spec n ws nw0 nb0 : (0 < n)%nat -> wf ws ->
  rnd_agrees n ws 0 nw0 nb0 (nonzero_uint_random n (Rng ws nw0 nb0)) (sp_nonzero_random n ws).
Proof.
  intros Hn Hws. unfold nonzero_uint_random, sp_nonzero_random. cbn [rnd_left].
  pose proof (nonzero_uint_loop_agrees n nw0 nb0 Hn (S (length ws)) (S (length ws)) ws 0 Hws ltac:(lia) ltac:(lia)) as H.
  rewrite !Z.mul_0_r, !Z.add_0_r in H. exact H.
Qed.

Lemma sp_nonzero_loop_nz f : forall n ws cnt x k b, sp_nonzero_loop f n ws cnt = SpOk x k b -> x <> 0.
Proof.
  induction f as [|f IH]; intros n ws cnt x k b E; [discriminate|].
  cbn [sp_nonzero_loop] in E. destruct (length ws <? n)%nat; [discriminate|].
  destruct (Z.eqb_spec (eval (firstn n ws)) 0).
  - eapply IH; eassumption.
  - injection E as E1 _ _. lia.
Qed.

(** VALIDITY of NonZero::random for every stream: a returned value is never zero *)
Theorem nonzero_uint_random_valid n ws nw0 nb0 v r' : (0 < n)%nat -> wf ws ->
  nonzero_uint_random n (Rng ws nw0 nb0) = Some (v, r') -> wf v /\ length v = n /\ 0 < eval v.
Proof.
  intros Hn Hws E. pose proof (nonzero_uint_random_spec n ws nw0 nb0 Hn Hws) as H. rewrite E in H.
  unfold rnd_agrees in H. destruct r' as [rest nw nb].
  destruct (sp_nonzero_random n ws) as [x k b|] eqn:Es; [|contradiction].
  destruct H as (Hv & Hx & _). apply sp_nonzero_loop_nz in Es. subst v.
  split; [apply wf_to_limbs|]. split; [apply length_to_limbs|]. rewrite to_limbs_small by assumption. lia.
Qed.

(* ------------------------------------------------------------------ Odd<Uint<N>> *)
Lemma rnd_lor_1 x : 0 <= x -> Z.lor x 1 = if Z.odd x then x else x + 1.
Proof.
  intros Hx. pose proof (Z.div2_odd x) as Hd. set (q := Z.div2 x) in *.
  assert (Hdis : Z.lor (2 * q) 1 = 2 * q + 1).
  { assert (Hl : Z.land (2 * q) 1 = 0).
    { apply Z.bits_inj'. intros i Hi. rewrite Z.land_spec, Z.bits_0.
      destruct (Z.eq_dec i 0) as [->|Hn].
      - rewrite Z.testbit_even_0. reflexivity.
      - replace (Z.testbit 1 i) with false; [apply andb_false_r|].
        symmetry. apply Z.bits_above_log2; cbn; lia. }
    rewrite <- Z.lxor_lor by assumption. symmetry. apply Z.add_nocarry_lxor. assumption. }
  destruct (Z.odd x); cbn [Z.b2z] in Hd.
  - rewrite Hd at 1. rewrite <- Hdis, <- Z.lor_assoc. cbn [Z.lor Pos.lor]. rewrite Hdis. lia.
  - rewrite Z.add_0_r in Hd. rewrite Hd at 1. rewrite Hdis. lia.
Qed.

Lemma rnd_odd_B_mul x e : Z.odd (x + B * e) = Z.odd x.
Proof. rewrite B_half. replace (x + 2 * 2 ^ 63 * e) with (x + 2 * (2 ^ 63 * e)) by ring. apply Z.odd_add_mul_2. Qed.

Lemma rnd_set_lsb_spec ls : wf ls -> ls <> [] ->
  exists ls', rnd_set_lsb ls = Some ls' /\ wf ls' /\ length ls' = length ls /\ eval ls' = sp_force_odd (eval ls) /\
              Z.odd (eval ls') = true.
Proof.
  intros Hw Hn. destruct ls as [|x t]; [contradiction|]. apply wf_cons in Hw. destruct Hw as [Hx Ht].
  eexists. split; [reflexivity|]. unfold wor. unfold is_word in Hx. rewrite rnd_lor_1 by lia.
  cbn [eval length]. unfold sp_force_odd. rewrite !rnd_odd_B_mul.
  destruct (Z.odd x) eqn:Eo.
  - repeat split; try assumption; try lia. apply wf_cons. split; [unfold is_word; lia | assumption].
  - repeat split; try lia.
    + apply wf_cons. split; [|assumption]. unfold is_word. split; [lia|].
      (* x is even and below the even number B, so x + 1 < B *)
      assert (Z.odd (B - 1) = true) by (rewrite <- MAXW_val; apply rnd_odd_MAXW).
      destruct (Z.eq_dec x (B - 1)) as [->|]; [congruence | lia].
    + rewrite Z.odd_add. rewrite Eo. reflexivity.
Qed.

(** Odd::random: the uniform sample with its lowest bit forced to one; VALIDITY: the result is odd *)
Theorem odd_uint_random_spec n ws nw nb : wf ws -> (0 < n)%nat ->
  rnd_agrees n ws 0 nw nb (odd_uint_random n (Rng ws nw nb)) (sp_odd_sample (sp_random n ws)).
Proof.
  intros Hws Hn. unfold odd_uint_random. rewrite uint_random_spec by assumption. unfold sp_random.
  destruct (Nat.ltb_spec (length ws) n); [exact I|].
  assert (Hwf : wf (firstn n ws)) by (apply wf_firstn; assumption).
  assert (Hl : length (firstn n ws) = n) by (rewrite firstn_length; lia).
  assert (Hne : firstn n ws <> []) by (intros E; rewrite E in Hl; cbn in Hl; lia).
  destruct (rnd_set_lsb_spec _ Hwf Hne) as (ls' & E & Hw' & Hl' & He & Hodd). rewrite E.
  pose proof (eval_bounds _ Hw') as Hb. rewrite Hl', Hl in Hb.
  cbn [sp_odd_sample]. unfold rnd_agrees. rewrite <- He. repeat split; try lia.
  - apply to_limbs_unique; try assumption; [lia|]. symmetry. apply Z.mod_small. assumption.
  - rewrite Z.sub_0_r, Nat2Z.id. reflexivity.
Qed.

Theorem odd_uint_random_valid n ws nw nb v r' : wf ws -> (0 < n)%nat ->
  odd_uint_random n (Rng ws nw nb) = Some (v, r') -> wf v /\ length v = n /\ Z.odd (eval v) = true.
Proof.
  intros Hws Hn E. unfold odd_uint_random in E. rewrite uint_random_spec in E by assumption.
  destruct (Nat.ltb_spec (length ws) n); [discriminate|].
  assert (Hwf : wf (firstn n ws)) by (apply wf_firstn; assumption).
  assert (Hl : length (firstn n ws) = n) by (rewrite firstn_length; lia).
  assert (Hne : firstn n ws <> []) by (intros E'; rewrite E' in Hl; cbn in Hl; lia).
  destruct (rnd_set_lsb_spec _ Hwf Hne) as (ls' & E' & Hw' & Hl' & He & Hodd). rewrite E' in E.
  injection E as <- _. repeat split; try assumption; lia.
Qed.

(** counting: every odd value has exactly the two preimages v and v - 1 *)
Lemma sp_force_odd_preimages x v : Z.odd v = true -> (sp_force_odd x = v <-> x = v \/ x = v - 1).
Proof.
  intros Hv. unfold sp_force_odd. destruct (Z.odd x) eqn:Ex.
  - split; [auto|]. intros [->| ->]; [reflexivity|].
    exfalso. replace v with (v - 1 + 1) in Hv by lia. rewrite Z.odd_add, Ex in Hv. discriminate.
  - split; [lia|]. intros [->| ->]; [congruence | lia].
Qed.

(* ------------------------------------------------------------------ NonZero<ConstMontyForm> *)
Lemma nonzero_mod_loop_agrees m nw0 nb0 : wf m -> 0 < eval m -> forall f1 f2 ws cnt,
  wf ws -> (length ws < f1)%nat -> (length ws < f2)%nat ->
  rnd_agrees (length m) ws cnt nw0 nb0
    (nonzero_mod_loop f1 m (Rng ws (nw0 + cnt) (nb0 + 8 * cnt)))
    (sp_nonzero_mod_loop f2 (eval m) ws cnt).
Proof.
  intros Hwm Hpos. induction f1 as [|f1 IH]; intros f2 ws cnt Hws Hf1 Hf2; [lia|].
  destruct f2 as [|f2]; [lia|].
  cbn [nonzero_mod_loop sp_nonzero_mod_loop].
  pose proof (uint_random_mod_spec m ws (nw0 + cnt) (nb0 + 8 * cnt) Hwm Hws Hpos) as H.
  destruct (uint_random_mod m _) as [[v [rest nw nb]]|]; destruct (sp_random_mod (eval m) ws) as [x k b|] eqn:Es;
    unfold rnd_agrees in H; try contradiction; [|exact I].
  destruct H as (Hv & Hx & Hnw & Hnb & Hk & Hr). rewrite Z.sub_0_r in Hr.
  unfold sp_random_mod in Es. apply sp_mod_loop_range in Es; [|apply rnd_nl_pos; assumption].
  destruct Es as (Hlt & Hb & Hkr).
  assert (Hev : eval v = x) by (subst v; apply to_limbs_small; assumption).
  rewrite rnd_all_zero_spec by (subst v; apply wf_to_limbs). rewrite Hev.
  destruct (Z.eqb_spec x 0) as [Hz|Hnz].
  - set (kk := Z.to_nat k) in *. assert (Hkk : (kk <= length ws)%nat) by lia.
    assert (Hl : length (firstn kk ws) = kk) by (rewrite firstn_length; lia).
    rewrite <- (firstn_skipn kk ws) at 1. apply rnd_agrees_shift. rewrite Hl.
    subst rest nw nb b. replace (Z.of_nat kk) with k by lia.
    replace (nw0 + cnt + k) with (nw0 + (cnt + k)) by lia.
    replace (nb0 + 8 * cnt + 8 * k) with (nb0 + 8 * (cnt + k)) by lia.
    apply IH; [apply wf_skipn; assumption | rewrite skipn_length; lia | rewrite skipn_length; lia].
  - unfold rnd_agrees. subst b. repeat split; try assumption; try lia.
    rewrite Hr. f_equal. lia.
Qed.

Theorem nonzero_mod_random_spec m ws nw0 nb0 : wf m -> 0 < eval m -> wf ws ->
  rnd_agrees (length m) ws 0 nw0 nb0 (nonzero_mod_random m (Rng ws nw0 nb0)) (sp_nonzero_mod_random (eval m) ws).
Proof.
  intros Hwm Hpos Hws. unfold nonzero_mod_random, sp_nonzero_mod_random. cbn [rnd_left].
  pose proof (nonzero_mod_loop_agrees m nw0 nb0 Hwm Hpos (S (length ws)) (S (length ws)) ws 0 Hws ltac:(lia) ltac:(lia)) as H.
  rewrite !Z.mul_0_r, !Z.add_0_r in H. exact H.
Qed.

Lemma sp_nonzero_mod_loop_range f : forall M ws cnt x k b,
  0 < M -> sp_nonzero_mod_loop f M ws cnt = SpOk x k b -> x <> 0 /\ x < M.
Proof.
  induction f as [|f IH]; intros M ws cnt x k b HM E; [discriminate|].
  cbn [sp_nonzero_mod_loop] in E. destruct (sp_random_mod M ws) as [y j c|] eqn:Es; [|discriminate].
  destruct (Z.eqb_spec y 0).
  - eapply IH; eassumption.
  - injection E as E1 _ _. subst y. split; [assumption|].
    unfold sp_random_mod in Es. apply sp_mod_loop_range in Es; [lia | apply rnd_nl_pos; assumption].
Qed.

(** VALIDITY of NonZero<ConstMontyForm>::random: a non-zero residue below the modulus *)
Theorem nonzero_mod_random_valid m ws nw0 nb0 v r' : wf m -> 0 < eval m -> wf ws ->
  nonzero_mod_random m (Rng ws nw0 nb0) = Some (v, r') -> wf v /\ length v = length m /\ 0 < eval v < eval m.
Proof.
  intros Hwm Hpos Hws E. pose proof (nonzero_mod_random_spec m ws nw0 nb0 Hwm Hpos Hws) as H. rewrite E in H.
  unfold rnd_agrees in H. destruct r' as [rest nw nb].
  destruct (sp_nonzero_mod_random (eval m) ws) as [x k b|] eqn:Es; [|contradiction].
  destruct H as (Hv & Hx & _). apply sp_nonzero_mod_loop_range in Es; [|assumption]. subst v.
  split; [apply wf_to_limbs|]. split; [apply length_to_limbs|]. rewrite to_limbs_small by assumption. lia.
Qed.

(* ------------------------------------------------------------------ Odd<BoxedUint>::random *)
(** for bit_length >= 1 the result is odd, below 2^bit_length, and is the RandomBits sample with its lowest
    bit forced to one (same consumption) *)
Theorem odd_boxed_random_valid ws nw nb bl v r' : wf ws -> 1 <= bl ->
  odd_boxed_random (Rng ws nw nb) bl = Some (v, r') ->
  wf v /\ length v = rnd_boxed_limbs bl /\ Z.odd (eval v) = true /\ 0 <= eval v < 2 ^ bl /\
  eval v = sp_force_odd (eval (firstn (Z.to_nat (rnd_ceil bl 64)) ws) mod 2 ^ bl) /\
  r' = Rng (skipn (Z.to_nat (rnd_ceil bl 64)) ws) (nw + rnd_ceil bl 64) (nb + (8 * (rnd_ceil bl 64 - 1) + rnd_tail_bytes bl)).
Proof.
  intros Hws Hbl E. unfold odd_boxed_random, boxed_random_bits in E.
  destruct (boxed_random_bits_prec (Rng ws nw nb) bl bl) as [v0 r0|] eqn:Eb; [|discriminate].
  destruct (boxed_random_bits_range ws nw nb bl bl v0 r0 Hws ltac:(lia) Eb) as (Hw0 & Hl0 & Hr0 & He0 & Hrng).
  assert (Hne : v0 <> []).
  { intros ->. cbn in Hl0. unfold rnd_boxed_limbs in Hl0. lia. }
  destruct (rnd_set_lsb_spec v0 Hw0 Hne) as (v' & Es & Hw' & Hl' & He' & Hodd). rewrite Es in E.
  injection E as <- <-. destruct (Z.eqb_spec bl 0); [lia|].
  repeat split; try assumption; try lia.
  - rewrite He'. unfold sp_force_odd. destruct (Z.odd (eval v0)); lia.
  - rewrite He'. unfold sp_force_odd. destruct (Z.odd (eval v0)) eqn:Eo; [lia|].
    (* eval v0 is even and below the even number 2^bl *)
    assert (Hev : Z.odd (2 ^ bl) = false).
    { replace bl with (1 + (bl - 1)) by lia. rewrite rnd_pow_split by lia. change (2 ^ 1) with 2. apply Z.odd_mul. }
    destruct (Z.eq_dec (eval v0 + 1) (2 ^ bl)) as [Heq|]; [|lia].
    rewrite <- Heq, Z.odd_add, Eo in Hev. discriminate.
  - rewrite He', He0. reflexivity.
Qed.
