(** C20, part 2: the limb-level helpers used by the square root models
    (bits / leading_zeros, the shift cascades, shr1, is_nonzero, gt, cmp_vartime, eq). *)
From CB Require Import Model.Limbs Model.AddSub Model.Sqrt Proofs.WordP Proofs.LimbsP Proofs.AddSubP Proofs.SqrtMathP.
From Coq Require Import ZArith Lia List.
Open Scope Z_scope.

(* ================= words ================= *)
Lemma Bn_pow n : Bn n = 2 ^ (64 * Z.of_nat n).
Proof.
  induction n.
  - rewrite Bn_0. reflexivity.
  - rewrite Bn_S, IHn, B_val, <- Z.pow_add_r by lia. f_equal. lia.
Qed.

Lemma is_word_bound x : is_word x <-> 0 <= x < 2 ^ 64.
Proof. unfold is_word. rewrite B_val. tauto. Qed.

Lemma lt_pow2_log2 x k : 0 <= k -> 0 <= x -> (x < 2 ^ k <-> x = 0 \/ Z.log2 x < k).
Proof.
  intros Hk Hx. destruct (Z.eq_dec x 0) as [->|Hne].
  - split; [auto|]. intros _. apply Z.pow_pos_nonneg; lia.
  - split; intros H.
    + right. apply Z.log2_lt_pow2; lia.
    + destruct H as [H|H]; [lia|]. apply Z.log2_lt_pow2; lia.
Qed.

Lemma log2_lt_pow2' a k : 0 < k -> 0 <= a < 2 ^ k -> Z.log2 a < k.
Proof.
  intros Hk Ha. destruct (Z.eq_dec a 0) as [->|]; [simpl; lia|]. apply Z.log2_lt_pow2; lia.
Qed.

Lemma lor_bound a b k : 0 <= k -> 0 <= a < 2 ^ k -> 0 <= b < 2 ^ k -> 0 <= Z.lor a b < 2 ^ k.
Proof.
  intros Hk Ha Hb. assert (H0 : 0 <= Z.lor a b) by (apply Z.lor_nonneg; lia).
  split; [assumption|].
  destruct (Z.eq_dec k 0) as [->|Hk0].
  { simpl in *. assert (a = 0) by lia. assert (b = 0) by lia. subst. simpl. lia. }
  apply lt_pow2_log2; try lia.
  destruct (Z.eq_dec (Z.lor a b) 0); [auto|right].
  rewrite Z.log2_lor by lia.
  apply Z.max_lub_lt; apply log2_lt_pow2'; lia.
Qed.

Lemma land_ldiff_sum a b : Z.land a b + Z.ldiff a b = a.
Proof.
  assert (H : Z.land (Z.land a b) (Z.ldiff a b) = 0).
  { apply Z.bits_inj'. intros i Hi. rewrite !Z.land_spec, Z.ldiff_spec, Z.bits_0.
    destruct (Z.testbit a i), (Z.testbit b i); reflexivity. }
  rewrite Z.add_nocarry_lxor by assumption. rewrite Z.lxor_lor by assumption.
  apply Z.bits_inj'. intros i Hi. rewrite Z.lor_spec, Z.land_spec, Z.ldiff_spec.
  destruct (Z.testbit a i), (Z.testbit b i); reflexivity.
Qed.

Lemma land_le_l a b : 0 <= a -> Z.land a b <= a.
Proof.
  intros Ha. pose proof (land_ldiff_sum a b). pose proof (Z.ldiff_nonneg a b). lia.
Qed.

Lemma land_bound a b k : 0 <= a < 2 ^ k -> 0 <= Z.land a b < 2 ^ k.
Proof.
  intros Ha. pose proof (land_le_l a b ltac:(lia)).
  assert (0 <= Z.land a b) by (apply Z.land_nonneg; lia). lia.
Qed.

Lemma is_word_lor a b : is_word a -> is_word b -> is_word (Z.lor a b).
Proof. rewrite !is_word_bound. intros. apply lor_bound; lia. Qed.
Lemma is_word_land a b : is_word a -> is_word (Z.land a b).
Proof. rewrite !is_word_bound. intros. apply land_bound; lia. Qed.

(* disjoint bit ranges: or = plus *)
Lemma lor_add_shift y c k : 0 <= k -> 0 <= c < 2 ^ k -> Z.lor (y * 2 ^ k) c = y * 2 ^ k + c.
Proof.
  intros Hk Hc.
  assert (H : Z.land (y * 2 ^ k) c = 0).
  { apply Z.bits_inj'. intros i Hi. rewrite Z.land_spec, Z.bits_0.
    destruct (Z_lt_le_dec i k).
    - rewrite Z.mul_pow2_bits_low by lia. reflexivity.
    - replace c with (c mod 2 ^ k) by (apply Z.mod_small; lia).
      rewrite Z.mod_pow2_bits_high by lia. apply andb_false_r. }
  rewrite Z.add_nocarry_lxor by assumption. rewrite Z.lxor_lor by assumption. reflexivity.
Qed.

(* top bit of a word *)
Lemma msb_cases x : is_word x -> (x < 2 ^ 63 /\ x / 2 ^ 63 = 0) \/ (2 ^ 63 <= x /\ x / 2 ^ 63 = 1).
Proof.
  intros Hx. apply (proj1 (is_word_bound x)) in Hx. destruct (Z_lt_le_dec x (2 ^ 63)).
  - left. split; [assumption|]. apply Z.div_small. lia.
  - right. split; [assumption|].
    destruct (div_mod_unique_pos (2 ^ 63) 1 (x - 2 ^ 63) x) as [Hq _]; try lia.
Qed.

Lemma lor_ge_l a b : 0 <= a -> 0 <= b -> a <= Z.lor a b.
Proof.
  intros Ha Hb.
  (* lor a b = a + ldiff b a *)
  assert (H : Z.land a (Z.ldiff b a) = 0).
  { apply Z.bits_inj'. intros i Hi. rewrite Z.land_spec, Z.ldiff_spec, Z.bits_0.
    destruct (Z.testbit a i), (Z.testbit b i); reflexivity. }
  assert (E : Z.lor a b = a + Z.ldiff b a).
  { rewrite Z.add_nocarry_lxor by assumption. rewrite Z.lxor_lor by assumption.
    apply Z.bits_inj'. intros i Hi. rewrite !Z.lor_spec, Z.ldiff_spec.
    destruct (Z.testbit a i), (Z.testbit b i); reflexivity. }
  pose proof (Z.ldiff_nonneg b a). lia.
Qed.

Lemma choice_of_bool_word c : is_word (choice_of_bool c).
Proof. unfold is_word. destruct c; simpl; pose proof MAXW_val; pose proof B_gt1; lia. Qed.

Lemma from_word_nonzero_spec v : is_word v -> from_word_nonzero v = choice_of_bool (negb (v =? 0)).
Proof.
  intros Hv. unfold from_word_nonzero, wor.
  destruct (Z.eqb_spec v 0) as [->|Hne]; cbn [negb choice_of_bool].
  - rewrite wneg_0. reflexivity.
  - assert (Hw : is_word (wneg v)) by apply is_word_mod.
    assert (Hwv : wneg v = B - v).
    { unfold wneg, wrap. unfold is_word in Hv.
      destruct (div_mod_unique_pos B (-1) (B - v) (- v)) as [_ Hm]; try lia. }
    pose proof (is_word_lor v (wneg v) Hv Hw) as Hl.
    destruct (msb_cases _ Hl) as [[Hlt _]|[_ ->]]; [exfalso|apply wneg_1].
    unfold is_word in *. pose proof B_half.
    pose proof (lor_ge_l v (wneg v) ltac:(lia) ltac:(lia)).
    assert (wneg v <= Z.lor v (wneg v)) by (rewrite Z.lor_comm; apply lor_ge_l; lia).
    lia.
Qed.

Lemma wand_MAXW_r x : is_word x -> wand x MAXW = x.
Proof. intros. unfold wand. rewrite Z.land_comm. apply land_MAXW. assumption. Qed.
Lemma wand_0_r x : wand x 0 = 0.
Proof. unfold wand. apply Z.land_0_r. Qed.
Lemma wnot_0 : wnot 0 = MAXW. Proof. unfold wnot. lia. Qed.
Lemma wnot_MAXW : wnot MAXW = 0. Proof. unfold wnot. lia. Qed.
Lemma is_word_MAXW : is_word MAXW.
Proof. unfold is_word. pose proof MAXW_val. pose proof B_gt1. lia. Qed.

(* ================= bits / leading_zeros ================= *)
Lemma bitlen_shift m l k : 0 <= k -> 0 <= m < 2 ^ k -> 0 < l -> bitlen (m + 2 ^ k * l) = k + bitlen l.
Proof.
  intros Hk Hm Hl. unfold bitlen.
  assert (0 < 2 ^ k) by (apply Z.pow_pos_nonneg; lia).
  assert (2 ^ k * 1 <= 2 ^ k * l) by (apply Z.mul_le_mono_nonneg_l; lia).
  destruct (Z.eqb_spec (m + 2 ^ k * l) 0); [lia|]. destruct (Z.eqb_spec l 0); [lia|].
  pose proof (Z.log2_spec l Hl) as [Hlo Hhi]. pose proof (Z.log2_nonneg l).
  assert (Z.log2 (m + 2 ^ k * l) = k + Z.log2 l); [|lia].
  apply Z.log2_unique; [lia|]. unfold Z.succ in *.
  rewrite !Z.pow_add_r by lia. rewrite Z.pow_add_r in Hhi by lia. change (2 ^ 1) with 2 in *.
  assert (2 ^ k * 2 ^ Z.log2 l <= 2 ^ k * l) by (apply Z.mul_le_mono_nonneg_l; lia).
  assert (2 ^ k * (l + 1) <= 2 ^ k * (2 ^ Z.log2 l * 2)) by (apply Z.mul_le_mono_nonneg_l; lia).
  lia.
Qed.

Lemma word_lz_spec l : is_word l -> word_lz l = 64 - bitlen l /\ 0 <= word_lz l <= 64.
Proof.
  intros Hl. apply (proj1 (is_word_bound l)) in Hl. unfold word_lz, bitlen.
  destruct (Z.eqb_spec l 0); [lia|].
  pose proof (Z.log2_nonneg l). assert (Z.log2 l < 64) by (apply Z.log2_lt_pow2; lia). lia.
Qed.

Lemma lz_loop_spec rl : forall c, wf rl ->
  lz_loop rl c 0 = c /\
  lz_loop rl c MAXW = c + (64 * Z.of_nat (length rl) - bitlen (eval (rev rl))).
Proof.
  induction rl as [|l r IH]; intros c Hw.
  - simpl. split; [reflexivity|]. unfold bitlen. simpl. lia.
  - apply wf_cons in Hw. destruct Hw as [Hl Hr].
    pose proof (word_lz_spec l Hl) as [Hz Hzr].
    assert (Hzw : is_word (word_lz l)). { unfold is_word. pose proof B_val. assert (64 < 2 ^ 64) by reflexivity. lia. }
    cbn [lz_loop]. unfold if_true_word.
    split.
    + rewrite wand_0_r. unfold wand at 1. rewrite Z.land_0_l. rewrite Z.add_0_r. apply IH. assumption.
    + rewrite wand_MAXW_r by assumption.
      rewrite from_word_nonzero_spec by assumption.
      cbn [rev]. rewrite eval_app, rev_length. cbn [eval]. rewrite Z.mul_0_r, Z.add_0_r.
      cbn [length]. rewrite Nat2Z.inj_succ.
      assert (Hwr : wf (rev r)). { unfold wf in *. apply Forall_rev. assumption. }
      pose proof (eval_bounds (rev r) Hwr) as Hb. rewrite rev_length, Bn_pow in Hb.
      destruct (Z.eqb_spec l 0) as [->|Hne]; cbn [negb choice_of_bool].
      * rewrite wnot_0. rewrite wand_MAXW_r by apply is_word_MAXW.
        destruct (IH (c + word_lz 0) Hr) as [_ ->]. rewrite Z.mul_0_r, Z.add_0_r.
        replace (word_lz 0) with 64 by reflexivity. lia.
      * rewrite wnot_MAXW, wand_0_r.
        destruct (IH (c + word_lz l) Hr) as [-> _].
        rewrite Bn_pow, bitlen_shift; try lia. unfold is_word in Hl. lia.
Qed.

Lemma bits_limbs_spec a : wf a -> bits_limbs a = bitlen (eval a).
Proof.
  intros Hw. unfold bits_limbs, leading_zeros_limbs, lenZ.
  assert (Hwr : wf (rev a)). { unfold wf in *. apply Forall_rev. assumption. }
  destruct (lz_loop_spec (rev a) 0 Hwr) as [_ ->]. rewrite rev_involutive, rev_length. lia.
Qed.

(* ================= shr1 ================= *)
Lemma wshl_63 y : wshl y 63 = (y mod 2) * 2 ^ 63.
Proof.
  unfold wshl, wrap. rewrite B_half.
  rewrite Z.mul_mod_distr_r by lia. reflexivity.
Qed.

Lemma eval_mod2 r : wf r -> eval r mod 2 = hd 0 r mod 2.
Proof.
  destruct r as [|y r]; intros H; [reflexivity|]. cbn [eval hd].
  rewrite B_half. replace (y + 2 * 2 ^ 63 * eval r) with (y + (2 ^ 63 * eval r) * 2) by ring.
  apply Z.mod_add. lia.
Qed.

Lemma shr1_limbs_spec a : wf a ->
  eval (shr1_limbs a) = eval a / 2 /\ wf (shr1_limbs a) /\ length (shr1_limbs a) = length a.
Proof.
  induction a as [|x r IH]; intros Hw.
  - simpl. repeat split; auto using wf_nil.
  - apply wf_cons in Hw. destruct Hw as [Hx Hr]. destruct (IH Hr) as (He & Hwf & Hlen).
    cbn [shr1_limbs eval length]. rewrite He.
    unfold wor, wshr. change (2 ^ 1) with 2. rewrite wshl_63.
    assert (Hx2 : 0 <= x / 2 < 2 ^ 63).
    { unfold is_word in Hx. rewrite B_half in Hx. split; [apply Z.div_pos; lia|apply Z.div_lt_upper_bound; lia]. }
    pose proof (Z.mod_pos_bound (hd 0 r) 2 ltac:(lia)) as Hm.
    rewrite Z.lor_comm, lor_add_shift by lia.
    split; [|split].
    + rewrite <- (eval_mod2 r Hr).
      pose proof (Z.div_mod (eval r) 2 ltac:(lia)) as Hd.
      pose proof (Z.div_mod x 2 ltac:(lia)) as Hdx. pose proof (Z.mod_pos_bound x 2 ltac:(lia)).
      pose proof (Z.mod_pos_bound (eval r) 2 ltac:(lia)).
      symmetry. rewrite B_half.
      destruct (div_mod_unique_pos 2 (eval r mod 2 * 2 ^ 63 + x / 2 + 2 * 2 ^ 63 * (eval r / 2)) (x mod 2)
                  (x + 2 * 2 ^ 63 * eval r)) as [Hq _]; try lia.
    + apply wf_cons. split; [|assumption]. unfold is_word. rewrite B_half. lia.
    + lia.
Qed.

(* ================= is_nonzero ================= *)
Lemma fold_wor_zero l : forall acc, 0 <= acc -> (forall x, In x l -> 0 <= x) ->
  (fold_left wor l acc = 0 <-> acc = 0 /\ forall x, In x l -> x = 0).
Proof.
  induction l as [|y l IH]; intros acc Ha Hl; cbn [fold_left].
  - split; [intros ->; split; [reflexivity|intros x []]|tauto].
  - assert (Hy : 0 <= y) by (apply Hl; left; reflexivity).
    rewrite IH; [|apply Z.lor_nonneg; lia|intros; apply Hl; right; assumption].
    unfold wor. rewrite Z.lor_eq_0_iff. split.
    + intros [[-> ->] H]. split; [reflexivity|]. intros x [<-|Hx]; auto.
    + intros [-> H]. split; [split; [reflexivity|apply H; left; reflexivity]|]. intros; apply H; right; assumption.
Qed.

Lemma fold_wor_word l : forall acc, is_word acc -> wf l -> is_word (fold_left wor l acc).
Proof.
  induction l as [|y l IH]; intros acc Ha Hl; cbn [fold_left]; [assumption|].
  apply wf_cons in Hl. destruct Hl. apply IH; [apply is_word_lor|]; assumption.
Qed.

Lemma wf_In a x : wf a -> In x a -> is_word x.
Proof. unfold wf. rewrite Forall_forall. auto. Qed.

Lemma eval_zero_iff a : wf a -> (eval a = 0 <-> forall x, In x a -> x = 0).
Proof.
  induction a as [|y a IH]; intros Hw.
  - simpl. split; [intros _ x []|reflexivity].
  - apply wf_cons in Hw. destruct Hw as [Hy Ha]. cbn [eval].
    pose proof (eval_nonneg a Ha). unfold is_word in Hy. pose proof B_pos.
    assert (0 <= B * eval a) by (apply Z.mul_nonneg_nonneg; lia).
    split.
    + intros Hsum. assert (Hy0 : y = 0) by lia. assert (Hea : eval a = 0) by nia.
      intros x [<-|Hx]; [assumption|]. apply IH; assumption.
    + intros Hall. rewrite (Hall y) by (left; reflexivity).
      rewrite (proj2 (IH Ha)); [lia|]. intros; apply Hall; right; assumption.
Qed.

Lemma is_nonzero_limbs_spec a : wf a -> is_nonzero_limbs a = choice_of_bool (negb (eval a =? 0)).
Proof.
  intros Hw. unfold is_nonzero_limbs.
  rewrite from_word_nonzero_spec by (apply fold_wor_word; [apply is_word_0|assumption]).
  f_equal. f_equal.
  assert (Hnn : forall x, In x a -> 0 <= x) by (intros x Hx; pose proof (wf_In a x Hw Hx) as Hx'; unfold is_word in Hx'; lia).
  pose proof (fold_wor_zero a 0 ltac:(lia) Hnn) as H1. pose proof (eval_zero_iff a Hw) as H2.
  destruct (Z.eqb_spec (fold_left wor a 0) 0) as [E|E], (Z.eqb_spec (eval a) 0) as [E2|E2]; try reflexivity; exfalso.
  - apply E2, H2, H1, E.
  - apply E, H1. split; [reflexivity|]. apply H2, E2.
Qed.

Lemma boxed_is_nonzero_fold a : forall c : bool, wf a ->
  fold_left (fun acc l => wand acc (wnot (from_word_nonzero l))) a (choice_of_bool c)
  = choice_of_bool (c && (eval a =? 0)).
Proof.
  induction a as [|y a IH]; intros c Hw; cbn [fold_left].
  - simpl. rewrite andb_true_r. reflexivity.
  - apply wf_cons in Hw. destruct Hw as [Hy Ha].
    rewrite from_word_nonzero_spec by assumption.
    assert (E : wand (choice_of_bool c) (wnot (choice_of_bool (negb (y =? 0)))) = choice_of_bool (c && (y =? 0))).
    { destruct c, (y =? 0); cbn [negb choice_of_bool andb]; rewrite ?wnot_0, ?wnot_MAXW, ?wand_0_r;
        try reflexivity; try (apply wand_MAXW_r, is_word_MAXW); unfold wand; apply Z.land_0_l. }
    rewrite E, IH by assumption. f_equal. cbn [eval].
    pose proof (eval_nonneg a Ha). unfold is_word in Hy. pose proof B_pos.
    assert (0 <= B * eval a) by (apply Z.mul_nonneg_nonneg; lia).
    destruct c; cbn [andb]; [|reflexivity].
    destruct (Z.eqb_spec y 0), (Z.eqb_spec (eval a) 0), (Z.eqb_spec (y + B * eval a) 0); cbn [andb]; try reflexivity; try lia; nia.
Qed.

Lemma boxed_is_nonzero_limbs_spec a : wf a ->
  boxed_is_nonzero_limbs a = choice_of_bool (negb (eval a =? 0)).
Proof.
  intros Hw. unfold boxed_is_nonzero_limbs. change MAXW with (choice_of_bool true).
  rewrite boxed_is_nonzero_fold by assumption. cbn [andb].
  destruct (eval a =? 0); cbn [negb choice_of_bool]; [apply wnot_MAXW|apply wnot_0].
Qed.

(* ================= gt ================= *)
Lemma gt_limbs_spec a b : wf a -> wf b -> length a = length b -> length a <> 0%nat ->
  gt_limbs a b = choice_of_bool (eval b <? eval a).
Proof.
  intros Ha Hb Hl Hn. unfold gt_limbs.
  destruct (sbb_limbs b a 0) as [r bo] eqn:E. cbn [snd].
  pose proof (sbb_limbs_correct b a 0 r bo Hb Ha ltac:(lia) is_word_0 E) as (Hwr & Hlr & [(Hz & _)|(_ & Hib & He)]); [lia|].
  rewrite bin_0 in He. pose proof (eval_bounds r Hwr) as Hr. rewrite Hlr in Hr.
  pose proof (eval_bounds a Ha). pose proof (eval_bounds b Hb). rewrite <- Hl in *.
  destruct Hib as [-> | ->]; rewrite ?bout_0, ?bout_MAXW in He.
  - destruct (Z.ltb_spec (eval b) (eval a)); [lia|reflexivity].
  - destruct (Z.ltb_spec (eval b) (eval a)); [reflexivity|lia].
Qed.

(* ================= cmp_vartime ================= *)
Definition cmp_code (x y : Z) : Z := match x ?= y with Lt => 0 | Eq => 1 | Gt => 2 end.

Lemma wf_rev a : wf a -> wf (rev a).
Proof. unfold wf. apply Forall_rev. Qed.

Lemma cmp_vartime_rev_spec ra : forall rb, wf ra -> wf rb -> length ra = length rb ->
  cmp_vartime_rev ra rb = cmp_code (eval (rev ra)) (eval (rev rb)).
Proof.
  induction ra as [|x ra IH]; intros rb Ha Hb Hl.
  - destruct rb; [|discriminate]. reflexivity.
  - destruct rb as [|y rb]; [discriminate|]. simpl in Hl.
    apply wf_cons in Ha. destruct Ha as [Hx Ha]. apply wf_cons in Hb. destruct Hb as [Hy Hb].
    cbn [cmp_vartime_rev rev]. rewrite !eval_app, !rev_length. cbn [eval]. rewrite !Z.mul_0_r, !Z.add_0_r.
    destruct (sbb x y 0) as [v bo] eqn:E.
    pose proof (sbb_exact x y 0 v bo Hx Hy is_word_0 E) as (Hv & Hcase). rewrite bin_0 in Hcase.
    pose proof (eval_bounds (rev ra) (wf_rev _ Ha)) as Hra. pose proof (eval_bounds (rev rb) (wf_rev _ Hb)) as Hrb.
    assert (Hl' : length rb = length ra) by lia.
    rewrite rev_length in Hra, Hrb. rewrite Hl' in Hrb. rewrite Hl'.
    pose proof (Bn_pos (length ra)) as HBn. unfold is_word in *.
    unfold cmp_code.
    destruct (Z.eqb_spec v 0) as [->|Hv0].
    + assert (x = y) by (destruct Hcase as [[_ H]|[_ H]]; lia). subst y.
      rewrite IH by (auto; lia). unfold cmp_code.
      destruct (Z.compare_spec (eval (rev ra)) (eval (rev rb))),
               (Z.compare_spec (eval (rev ra) + Bn (length ra) * x) (eval (rev rb) + Bn (length ra) * x)); try reflexivity; lia.
    + destruct Hcase as [[-> H]|[-> H]].
      * assert (y + 1 <= x) by lia.
        assert (Bn (length ra) * (y + 1) <= Bn (length ra) * x) by (apply Z.mul_le_mono_nonneg_l; lia).
        cbn [Z.eqb].
        destruct (Z.compare_spec (eval (rev ra) + Bn (length ra) * x) (eval (rev rb) + Bn (length ra) * y)); try reflexivity; lia.
      * assert (x + 1 <= y) by lia.
        assert (Bn (length ra) * (x + 1) <= Bn (length ra) * y) by (apply Z.mul_le_mono_nonneg_l; lia).
        assert (MAXW =? 0 = false) as -> by reflexivity.
        destruct (Z.compare_spec (eval (rev ra) + Bn (length ra) * x) (eval (rev rb) + Bn (length ra) * y)); try reflexivity; lia.
Qed.

Lemma cmp_vartime_limbs_spec a b : wf a -> wf b -> length a = length b ->
  cmp_vartime_limbs a b = cmp_code (eval a) (eval b).
Proof.
  intros Ha Hb Hl. unfold cmp_vartime_limbs.
  rewrite cmp_vartime_rev_spec by (auto using wf_rev; rewrite !rev_length; assumption).
  rewrite !rev_involutive. reflexivity.
Qed.

Lemma cmp_code_eq x y : (cmp_code x y =? 1) = (x =? y).
Proof. unfold cmp_code. destruct (Z.compare_spec x y), (Z.eqb_spec x y); try reflexivity; lia. Qed.
Lemma cmp_code_gt x y : (cmp_code x y =? 2) = (y <? x).
Proof. unfold cmp_code. destruct (Z.compare_spec x y), (Z.ltb_spec y x); try reflexivity; lia. Qed.

(* ================= eq ================= *)
Lemma lxor_zero_iff x y : Z.lxor x y = 0 <-> x = y.
Proof. split; [apply Z.lxor_eq|intros ->; apply Z.lxor_nilpotent]. Qed.

Lemma is_word_lxor a b : is_word a -> is_word b -> is_word (Z.lxor a b).
Proof.
  rewrite !is_word_bound. intros Ha Hb.
  assert (0 <= Z.lxor a b) by (apply Z.lxor_nonneg; lia). split; [assumption|].
  apply lt_pow2_log2; try lia.
  destruct (Z.eq_dec (Z.lxor a b) 0); [auto|right].
  eapply Z.le_lt_trans; [apply Z.log2_lxor; lia|].
  apply Z.max_lub_lt; apply log2_lt_pow2'; lia.
Qed.

Lemma eq_limbs_spec a : forall b, wf a -> wf b -> length a = length b ->
  eq_limbs a b = choice_of_bool (eval a =? eval b).
Proof.
  intros b Ha Hb Hl. unfold eq_limbs.
  set (xs := map (fun p => wxor (fst p) (snd p)) (combine a b)).
  assert (Hxs : wf xs /\ ((forall x, In x xs -> x = 0) <-> a = b)).
  { subst xs. clear - Ha Hb Hl. revert b Hb Hl. induction a as [|x a IH]; intros b Hb Hl.
    - destruct b; [|discriminate]. simpl. split; [apply wf_nil|]. split; [reflexivity|intros _ x []].
    - destruct b as [|y b]; [discriminate|]. simpl in Hl.
      apply wf_cons in Ha. destruct Ha as [Hx Ha]. apply wf_cons in Hb. destruct Hb as [Hy Hb].
      destruct (IH Ha b Hb ltac:(lia)) as [Hw Hiff]. cbn [combine map fst snd].
      split; [apply wf_cons; split; [apply is_word_lxor; assumption|assumption]|].
      split.
      + intros H. f_equal.
        * apply lxor_zero_iff. apply H. left. reflexivity.
        * apply Hiff. intros; apply H; right; assumption.
      + intros E. injection E as -> ->. intros z [<-|Hz]; [apply Z.lxor_nilpotent|]. apply (proj2 Hiff eq_refl). assumption. }
  destruct Hxs as [Hw Hiff].
  rewrite from_word_nonzero_spec by (apply fold_wor_word; [apply is_word_0|assumption]).
  assert (Hnn : forall x, In x xs -> 0 <= x) by (intros x Hx; pose proof (wf_In xs x Hw Hx) as Hx'; unfold is_word in Hx'; lia).
  pose proof (fold_wor_zero xs 0 ltac:(lia) Hnn) as H1.
  destruct (Z.eqb_spec (fold_left wor xs 0) 0) as [E|E], (Z.eqb_spec (eval a) (eval b)) as [E2|E2];
    cbn [negb choice_of_bool]; rewrite ?wnot_0, ?wnot_MAXW; try reflexivity; exfalso.
  - apply E2. f_equal. apply Hiff. apply H1. assumption.
  - apply E. apply H1. split; [reflexivity|]. apply Hiff. apply eval_inj; assumption.
Qed.

Lemma from_word_eq_spec x y : is_word x -> is_word y -> from_word_eq x y = choice_of_bool (x =? y).
Proof.
  intros Hx Hy. unfold from_word_eq, wxor. rewrite from_word_nonzero_spec by (apply is_word_lxor; assumption).
  destruct (Z.eqb_spec (Z.lxor x y) 0) as [E|E], (Z.eqb_spec x y) as [E2|E2];
    cbn [negb choice_of_bool]; rewrite ?wnot_0, ?wnot_MAXW; try reflexivity; exfalso.
  - apply E2, lxor_zero_iff, E.
  - apply E, lxor_zero_iff, E2.
Qed.

Lemma boxed_eq_fold a : forall b (c : bool), wf a -> wf b -> length a = length b ->
  fold_left (fun acc p => wand acc (from_word_eq (fst p) (snd p))) (combine a b) (choice_of_bool c)
  = choice_of_bool (c && (eval a =? eval b)).
Proof.
  induction a as [|x a IH]; intros b c Ha Hb Hl.
  - destruct b; [|discriminate]. simpl. rewrite andb_true_r. reflexivity.
  - destruct b as [|y b]; [discriminate|]. simpl in Hl.
    apply wf_cons in Ha. destruct Ha as [Hx Ha]. apply wf_cons in Hb. destruct Hb as [Hy Hb].
    cbn [combine fold_left fst snd]. rewrite from_word_eq_spec by assumption.
    assert (E : wand (choice_of_bool c) (choice_of_bool (x =? y)) = choice_of_bool (c && (x =? y))).
    { destruct c, (x =? y); cbn [choice_of_bool andb]; rewrite ?wand_0_r; try reflexivity;
        try (apply wand_MAXW_r, is_word_MAXW); unfold wand; apply Z.land_0_l. }
    rewrite E, IH by (auto; lia). f_equal. cbn [eval].
    pose proof (eval_bounds a Ha). pose proof (eval_bounds b Hb). replace (length b) with (length a) in * by lia.
    unfold is_word in *. pose proof B_pos.
    destruct c; cbn [andb]; [|reflexivity].
    destruct (Z.eqb_spec x y) as [->|Hne]; cbn [andb].
    + destruct (Z.eqb_spec (eval a) (eval b)), (Z.eqb_spec (y + B * eval a) (y + B * eval b)); try reflexivity; nia.
    + destruct (Z.eqb_spec (x + B * eval a) (y + B * eval b)) as [E2|]; [exfalso|reflexivity].
      assert (x mod B = y mod B).
      { replace (x + B * eval a) with (x + eval a * B) in E2 by ring. replace (y + B * eval b) with (y + eval b * B) in E2 by ring.
        rewrite <- (Z.mod_add x (eval a) B), <- (Z.mod_add y (eval b) B) by lia. rewrite E2. reflexivity. }
      rewrite !Z.mod_small in * by lia. lia.
Qed.

Lemma boxed_eq_limbs_spec a b : wf a -> wf b -> length a = length b ->
  boxed_eq_limbs a b = choice_of_bool (eval a =? eval b).
Proof.
  intros. unfold boxed_eq_limbs. change MAXW with (choice_of_bool true). rewrite boxed_eq_fold by assumption. reflexivity.
Qed.

(* ================= shifts left ================= *)
Lemma mod_split_lo lo t M : 0 <= lo < B -> 0 < M -> (lo + B * t) mod (B * M) = lo + B * (t mod M).
Proof.
  intros Hlo HM. pose proof B_pos.
  pose proof (Z.div_mod t M ltac:(lia)) as Hd. pose proof (Z.mod_pos_bound t M HM) as Hm.
  assert (B * (t mod M) <= B * (M - 1)) by (apply Z.mul_le_mono_nonneg_l; lia).
  assert (0 <= B * (t mod M)) by (apply Z.mul_nonneg_nonneg; lia).
  destruct (div_mod_unique_pos (B * M) (t / M) (lo + B * (t mod M)) (lo + B * t)) as [_ Hr]; try lia.
Qed.

Lemma shl_bits_loop_spec rem ls : 0 < rem < 64 -> forall c, wf ls -> 0 <= c < 2 ^ rem ->
  eval (shl_bits_loop ls rem c) = (eval ls * 2 ^ rem + c) mod Bn (length ls) /\
  wf (shl_bits_loop ls rem c) /\ length (shl_bits_loop ls rem c) = length ls.
Proof.
  intros Hrem. induction ls as [|x r IH]; intros c Hw Hc.
  - simpl. rewrite Bn_0, Z.mod_1_r. repeat split; auto using wf_nil.
  - apply wf_cons in Hw. destruct Hw as [Hx Hr].
    set (K := 2 ^ (64 - rem)). set (R := 2 ^ rem) in *.
    assert (HK : 0 < K) by (apply Z.pow_pos_nonneg; lia).
    assert (HR : 0 < R) by (apply Z.pow_pos_nonneg; lia).
    assert (HB : B = K * R). { subst K R. rewrite <- Z.pow_add_r, B_val by lia. f_equal. lia. }
    pose proof (Z.div_mod x K ltac:(lia)) as Hdx. pose proof (Z.mod_pos_bound x K HK) as Hmx.
    assert (Hxh : 0 <= x / K < R).
    { unfold is_word in Hx. split; [apply Z.div_pos; lia|apply Z.div_lt_upper_bound; lia]. }
    destruct (IH (wshr x (64 - rem)) Hr Hxh) as (He & Hwf & Hlen).
    cbn [shl_bits_loop eval length]. rewrite He, Hlen. fold K.
    assert (Hhead : wor (wshl x rem) c = (x mod K) * R + c).
    { unfold wor, wshl, wrap. fold R. rewrite HB, Z.mul_mod_distr_r by lia. apply lor_add_shift; lia. }
    rewrite Hhead.
    assert (Hlo : 0 <= x mod K * R + c < B).
    { assert (x mod K * R <= (K - 1) * R) by (apply Z.mul_le_mono_nonneg_r; lia).
      assert (0 <= x mod K * R) by (apply Z.mul_nonneg_nonneg; lia). lia. }
    split; [|split].
    + rewrite Bn_S. unfold wshr. fold K.
      rewrite <- mod_split_lo by (auto using Bn_pos). f_equal.
      set (q := x / K) in *. set (m := x mod K) in *. clearbody q m. rewrite HB, Hdx. ring.
    + apply wf_cons. split; [exact Hlo|assumption].
    + reflexivity.
Qed.

Lemma firstn_length_le' {A} n (l : list A) : (n <= length l)%nat -> length (firstn n l) = n.
Proof. apply firstn_length_le. Qed.

Lemma shl_vartime_limbs_spec a shift : wf a -> 0 <= shift < 64 * Z.of_nat (length a) ->
  exists r, shl_vartime_limbs a shift = Some r /\ wf r /\ length r = length a /\
            eval r = (eval a * 2 ^ shift) mod Bn (length a).
Proof.
  intros Hw Hs. unfold shl_vartime_limbs.
  destruct (Z.leb_spec (64 * Z.of_nat (length a)) shift); [lia|].
  set (n := length a). set (sn := Z.to_nat (shift / 64)). set (rem := shift mod 64).
  pose proof (Z.div_mod shift 64 ltac:(lia)) as Hd. pose proof (Z.mod_pos_bound shift 64 ltac:(lia)) as Hm. fold rem in Hd, Hm.
  assert (Hq : 0 <= shift / 64) by (apply Z.div_pos; lia).
  assert (Hsn : Z.of_nat sn = shift / 64) by (subst sn; rewrite Z2Nat.id; lia).
  assert (Hsnn : (sn < n)%nat) by (subst n; lia).
  set (moved := firstn (n - sn) a).
  assert (Hlm : length moved = (n - sn)%nat) by (subst moved; apply firstn_length_le; subst n; lia).
  assert (Hwm : wf moved) by (apply wf_firstn; assumption).
  assert (Hem : eval moved = eval a mod Bn (n - sn)) by (subst moved; apply eval_firstn; [assumption|subst n; lia]).
  assert (HBn : Bn n = Bn sn * Bn (n - sn)) by (rewrite <- Bn_add; f_equal; lia).
  assert (H2s : 2 ^ shift = Bn sn * 2 ^ rem).
  { rewrite Bn_pow, <- Z.pow_add_r by lia. f_equal. lia. }
  pose proof (Bn_pos sn). pose proof (Bn_pos (n - sn)).
  assert (Hgoal : forall body, wf body -> length body = (n - sn)%nat ->
            eval body = (eval moved * 2 ^ rem) mod Bn (n - sn) ->
            wf (zeros sn ++ body) /\ length (zeros sn ++ body) = n /\
            eval (zeros sn ++ body) = (eval a * 2 ^ shift) mod Bn n).
  { intros body Hwb Hlb Heb. split; [apply wf_app; split; [apply wf_zeros|assumption]|].
    split; [rewrite app_length, length_zeros; lia|].
    rewrite eval_app, eval_zeros, length_zeros, Heb, Hem, H2s, HBn.
    rewrite Z.mul_mod_idemp_l by lia.
    replace (eval a * (Bn sn * 2 ^ rem)) with (Bn sn * (eval a * 2 ^ rem)) by ring.
    rewrite Z.mul_mod_distr_l by lia. lia. }
  destruct (Z.eqb_spec rem 0) as [E0|E0].
  - exists (zeros sn ++ moved). split; [reflexivity|].
    destruct (Hgoal moved Hwm Hlm) as (G1 & G2 & G3).
    { rewrite E0. change (2 ^ 0) with 1. rewrite Z.mul_1_r. rewrite Hem, Z.mod_mod by lia. reflexivity. }
    tauto.
  - destruct (shl_bits_loop_spec rem moved ltac:(lia) 0 Hwm) as (He & Hwf & Hlen).
    { split; [lia|apply Z.pow_pos_nonneg; lia]. }
    exists (zeros sn ++ shl_bits_loop moved rem 0). split; [reflexivity|].
    destruct (Hgoal (shl_bits_loop moved rem 0) Hwf ltac:(lia)) as (G1 & G2 & G3).
    { rewrite He, Z.add_0_r, Hlm. reflexivity. }
    tauto.
Qed.

Lemma pow2_mul_mod x a b M : 0 < M -> 0 <= a -> 0 <= b ->
  ((x * 2 ^ a) mod M * 2 ^ b) mod M = (x * 2 ^ (a + b)) mod M.
Proof.
  intros HM Ha Hb. rewrite Z.mul_mod_idemp_l by lia. rewrite Z.pow_add_r by lia. f_equal. ring.
Qed.

(* after k rounds starting at bit i the value has been shifted by the bits i .. i+k-1 of [shift] *)
Lemma shl_ct_loop_spec k : forall i shift res, wf res -> 0 <= i -> 0 <= shift ->
  2 ^ (i + Z.of_nat k) <= 2 * (64 * Z.of_nat (length res)) - 1 ->
  exists r, shl_ct_loop k i shift res = Some r /\ wf r /\ length r = length res /\
            eval r = (eval res * 2 ^ (((shift / 2 ^ i) mod 2 ^ Z.of_nat k) * 2 ^ i)) mod Bn (length res).
Proof.
  induction k as [|k IH]; intros i shift res Hw Hi Hs Hk.
  - exists res. split; [reflexivity|]. split; [assumption|]. split; [reflexivity|].
    change (2 ^ Z.of_nat 0) with 1. rewrite Z.mod_1_r, Z.mul_0_l. change (2 ^ 0) with 1. rewrite Z.mul_1_r.
    symmetry. apply Z.mod_small. apply eval_bounds. assumption.
  - rewrite Nat2Z.inj_succ in Hk |- *.
    assert (Hpi : 0 < 2 ^ i) by (apply Z.pow_pos_nonneg; lia).
    assert (Hrange : 2 ^ i < 64 * Z.of_nat (length res)).
    { assert (2 * 2 ^ i <= 2 ^ (i + Z.succ (Z.of_nat k))); [|lia].
      replace (2 * 2 ^ i) with (2 ^ (i + 1)) by (rewrite Z.pow_add_r by lia; change (2 ^ 1) with 2; ring).
      apply Z.pow_le_mono_r; lia. }
    destruct (shl_vartime_limbs_spec res (2 ^ i) Hw ltac:(lia)) as (sh & Esh & Hwsh & Hlsh & Hesh).
    cbn [shl_ct_loop]. rewrite Esh.
    set (t := shift / 2 ^ i).
    assert (Ht0 : 0 <= t) by (subst t; apply Z.div_pos; lia).
    pose proof (Z.mod_pos_bound t 2 ltac:(lia)) as Hbit.
    assert (Hlsb : from_word_lsb (t mod 2) = choice_of_bool (t mod 2 =? 1)).
    { assert (t mod 2 = 0 \/ t mod 2 = 1) as [-> | ->] by lia; reflexivity. }
    rewrite Hlsb, select_limbs_choice by (auto; lia).
    set (res' := if t mod 2 =? 1 then sh else res).
    assert (Hres' : wf res' /\ length res' = length res /\
                    eval res' = (eval res * 2 ^ ((t mod 2) * 2 ^ i)) mod Bn (length res)).
    { subst res'. destruct (Z.eqb_spec (t mod 2) 1) as [E|E].
      - rewrite E, Z.mul_1_l. tauto.
      - assert (t mod 2 = 0) as -> by lia. rewrite Z.mul_0_l. change (2 ^ 0) with 1. rewrite Z.mul_1_r.
        split; [assumption|]. split; [reflexivity|]. symmetry. apply Z.mod_small. apply eval_bounds. assumption. }
    destruct Hres' as (Hw' & Hl' & He').
    destruct (IH (i + 1) shift res' Hw' ltac:(lia) Hs) as (r & Er & Hwr & Hlr & Her).
    { rewrite Hl'. replace (i + 1 + Z.of_nat k) with (i + Z.succ (Z.of_nat k)) by lia. assumption. }
    exists r. split; [exact Er|]. split; [assumption|]. split; [lia|].
    rewrite Her, Hl', He'.
    assert (Hdd : shift / 2 ^ (i + 1) = t / 2).
    { subst t. rewrite Z.pow_add_r by lia. change (2 ^ 1) with 2. rewrite Z.div_div by lia. reflexivity. }
    rewrite Hdd.
    set (u := (t / 2) mod 2 ^ Z.of_nat k).
    assert (Hu : 0 <= u) by (subst u; apply Z.mod_pos_bound; apply Z.pow_pos_nonneg; lia).
    rewrite pow2_mul_mod; [| apply Bn_pos | apply Z.mul_nonneg_nonneg; lia | apply Z.mul_nonneg_nonneg; [lia|apply Z.pow_nonneg; lia] ].
    f_equal. f_equal. f_equal.
    (* t mod 2^(k+1) = t mod 2 + 2 * ((t/2) mod 2^k) *)
    rewrite Z.pow_succ_r by lia. rewrite Z.rem_mul_r by (try lia; apply Z.pow_nonzero; lia).
    fold u. rewrite Z.pow_add_r by lia. change (2 ^ 1) with 2. ring.
Qed.

Lemma log2_bits_bound m : 2 <= m -> 2 ^ (Z.log2 (m - 1) + 1) <= 2 * m - 1 /\ m <= 2 ^ (Z.log2 (m - 1) + 1).
Proof.
  intros Hm.
  pose proof (Z.log2_spec (m - 1) ltac:(lia)) as [Hlo Hhi]. pose proof (Z.log2_nonneg (m - 1)).
  unfold Z.succ in Hhi. rewrite Z.pow_add_r by lia. change (2 ^ 1) with 2. rewrite Z.pow_add_r in Hhi by lia. change (2 ^ 1) with 2 in Hhi. lia.
Qed.

Lemma overflowing_shl_limbs_spec a shift : wf a -> length a <> 0%nat -> 0 <= shift < 64 * Z.of_nat (length a) ->
  exists r, overflowing_shl_limbs a shift = Some (r, 0) /\ wf r /\ length r = length a /\
            eval r = (eval a * 2 ^ shift) mod Bn (length a).
Proof.
  intros Hw Hn Hs. unfold overflowing_shl_limbs, lenZ.
  set (bits := 64 * Z.of_nat (length a)) in *.
  assert (Hb : 2 <= bits) by (subst bits; lia).
  destruct (log2_bits_bound bits Hb) as [Hb1 Hb2].
  pose proof (Z.log2_nonneg (bits - 1)) as Hl0.
  rewrite (Z.mod_small shift bits) by lia.
  destruct (shl_ct_loop_spec (Z.to_nat (Z.log2 (bits - 1) + 1)) 0 shift a Hw ltac:(lia) ltac:(lia)) as (r & Er & Hwr & Hlr & Her).
  { rewrite Z2Nat.id by lia. rewrite Z.add_0_l. fold bits. lia. }
  rewrite Er. destruct (Z.leb_spec bits shift); [lia|]. cbn [choice_of_bool].
  change 0 with (choice_of_bool false) at 1. rewrite select_limbs_choice by (auto using wf_zeros; rewrite length_zeros; assumption).
  exists r. split; [reflexivity|]. split; [assumption|]. split; [assumption|].
  rewrite Her. rewrite Z2Nat.id by lia. change (2 ^ 0) with 1. rewrite Z.div_1_r, Z.mul_1_r.
  rewrite (Z.mod_small shift) by lia. reflexivity.
Qed.
