(** C16 proofs, part 1: positional digit lists in an arbitrary base; limbs <-> bytes <-> nibbles. *)
From CB Require Import Model.Limbs Model.Conv Proofs.WordP Proofs.LimbsP.
From Coq Require Import ZArith Lia List.
Import ListNotations.
Open Scope Z_scope.
Open Scope list_scope.

Definition wfd (b : Z) (ds : list Z) : Prop := Forall (fun d => 0 <= d < b) ds.

Lemma wfd_cons b d ds : wfd b (d :: ds) <-> 0 <= d < b /\ wfd b ds.
Proof. unfold wfd. split; [intros H; inversion H; auto | intros [? ?]; constructor; auto]. Qed.
Lemma wfd_nil b : wfd b []. Proof. constructor. Qed.
Lemma wfd_app b x y : wfd b (x ++ y) <-> wfd b x /\ wfd b y.
Proof. unfold wfd. apply Forall_app. Qed.
Lemma wfd_rev b x : wfd b x -> wfd b (rev x).
Proof. unfold wfd. intros H. apply Forall_forall. intros d Hd. apply in_rev in Hd.
  rewrite Forall_forall in H. auto. Qed.
Lemma wfd_firstn b k x : wfd b x -> wfd b (firstn k x).
Proof. intros H. rewrite <- (firstn_skipn k x) in H. apply wfd_app in H. tauto. Qed.
Lemma wfd_skipn b k x : wfd b x -> wfd b (skipn k x).
Proof. intros H. rewrite <- (firstn_skipn k x) in H. apply wfd_app in H. tauto. Qed.
Lemma wfd_wf ls : wfd B ls <-> wf ls.
Proof. unfold wfd, wf, is_word. tauto. Qed.

Lemma pow_pos_nat b (k : nat) : 0 < b -> 0 < b ^ Z.of_nat k.
Proof. intros. apply Z.pow_pos_nonneg; lia. Qed.
Lemma pow_S_nat b (k : nat) : b ^ Z.of_nat (S k) = b * b ^ Z.of_nat k.
Proof. rewrite Nat2Z.inj_succ, Z.pow_succ_r by lia. reflexivity. Qed.
Lemma pow_add_nat b (k m : nat) : b ^ Z.of_nat (k + m) = b ^ Z.of_nat k * b ^ Z.of_nat m.
Proof. rewrite Nat2Z.inj_add, Z.pow_add_r by lia. reflexivity. Qed.
Lemma pow_mul_nat b (k m : nat) : b ^ Z.of_nat (k * m) = (b ^ Z.of_nat k) ^ Z.of_nat m.
Proof. rewrite Nat2Z.inj_mul, Z.pow_mul_r by lia. reflexivity. Qed.

(* ---- evalb ---- *)
Lemma evalb_app b x y : evalb b (x ++ y) = evalb b x + b ^ Z.of_nat (length x) * evalb b y.
Proof.
  induction x as [|d x IH]; cbn [evalb app length].
  - change (Z.of_nat 0) with 0. rewrite Z.pow_0_r. lia.
  - rewrite IH, pow_S_nat. ring.
Qed.

Lemma evalb_bounds b ds : 0 < b -> wfd b ds -> 0 <= evalb b ds < b ^ Z.of_nat (length ds).
Proof.
  intros Hb. induction ds as [|d ds IH]; intros H; cbn [evalb length].
  - change (Z.of_nat 0) with 0. rewrite Z.pow_0_r. lia.
  - apply wfd_cons in H. destruct H as [Hd Hw]. specialize (IH Hw). rewrite pow_S_nat.
    pose proof (pow_pos_nat b (length ds) Hb). nia.
Qed.

Lemma evalb_repeat0 b k : evalb b (repeat 0 k) = 0.
Proof. induction k; cbn [repeat evalb]; [reflexivity | rewrite IHk; lia]. Qed.

(* ---- digits ---- *)
Lemma length_digits b k x : length (digits b k x) = k.
Proof. revert x; induction k; intros; cbn [digits length]; [reflexivity | rewrite IHk; reflexivity]. Qed.

Lemma wfd_digits b k x : 0 < b -> wfd b (digits b k x).
Proof.
  intros Hb. revert x; induction k; intros; cbn [digits]; [apply wfd_nil|].
  apply wfd_cons. split; [apply Z.mod_pos_bound; lia | apply IHk].
Qed.

Lemma evalb_digits b k x : 0 < b -> evalb b (digits b k x) = x mod b ^ Z.of_nat k.
Proof.
  intros Hb. revert x; induction k; intros x; cbn [digits evalb].
  - change (Z.of_nat 0) with 0. rewrite Z.pow_0_r, Z.mod_1_r. reflexivity.
  - rewrite IHk, pow_S_nat. pose proof (pow_pos_nat b k Hb). rewrite Z.rem_mul_r by lia. reflexivity.
Qed.

Lemma digits_evalb b ds : 0 < b -> wfd b ds -> digits b (length ds) (evalb b ds) = ds.
Proof.
  intros Hb. induction ds as [|d ds IH]; intros H; cbn [digits evalb length]; [reflexivity|].
  apply wfd_cons in H. destruct H as [Hd Hw].
  assert (Hq : (d + b * evalb b ds) / b = evalb b ds /\ (d + b * evalb b ds) mod b = d).
  { apply div_mod_unique_pos; lia. }
  destruct Hq as [-> ->]. rewrite IH by assumption. reflexivity.
Qed.

Lemma mod_pow_S b (k : nat) x : 0 < b ->
  (x mod b ^ Z.of_nat (S k)) mod b = x mod b /\ (x mod b ^ Z.of_nat (S k)) / b = (x / b) mod b ^ Z.of_nat k.
Proof.
  intros Hb. rewrite pow_S_nat. pose proof (pow_pos_nat b k Hb) as Hp.
  rewrite Z.rem_mul_r by lia.
  pose proof (Z.mod_pos_bound x b Hb).
  assert (Hq : (x mod b + b * ((x / b) mod b ^ Z.of_nat k)) / b = (x / b) mod b ^ Z.of_nat k /\
               (x mod b + b * ((x / b) mod b ^ Z.of_nat k)) mod b = x mod b).
  { apply div_mod_unique_pos; lia. }
  tauto.
Qed.

Lemma digits_mod b k x : 0 < b -> digits b k (x mod b ^ Z.of_nat k) = digits b k x.
Proof.
  intros Hb. revert x; induction k; intros x; cbn [digits]; [reflexivity|].
  destruct (mod_pow_S b k x Hb) as [-> ->]. rewrite IHk. reflexivity.
Qed.

Lemma digits_app b k m x : 0 < b ->
  digits b (k + m) x = digits b k x ++ digits b m (x / b ^ Z.of_nat k).
Proof.
  intros Hb. revert x; induction k; intros x.
  - cbn [Nat.add digits app]. change (Z.of_nat 0) with 0. rewrite Z.pow_0_r, Z.div_1_r. reflexivity.
  - cbn [Nat.add digits app]. rewrite IHk. f_equal. f_equal. f_equal.
    rewrite pow_S_nat. pose proof (pow_pos_nat b k Hb). rewrite Z.div_div by lia. reflexivity.
Qed.

Lemma nth_digits b k x i : 0 < b -> (i < k)%nat ->
  nth i (digits b k x) 0 = (x / b ^ Z.of_nat i) mod b.
Proof.
  intros Hb. revert x i; induction k; intros x i Hi; [lia|].
  cbn [digits]. destruct i as [|i].
  - cbn [nth]. change (Z.of_nat 0) with 0. rewrite Z.pow_0_r, Z.div_1_r. reflexivity.
  - cbn [nth]. rewrite IHk by lia. rewrite pow_S_nat. pose proof (pow_pos_nat b i Hb).
    rewrite Z.div_div by lia. reflexivity.
Qed.

(** regrouping: k base-b digits make one base-b^k digit *)
Lemma digits_group b k n x : 0 < b ->
  flat_map (digits b k) (digits (b ^ Z.of_nat k) n x) = digits b (k * n) x.
Proof.
  intros Hb. revert x; induction n; intros x.
  - rewrite Nat.mul_0_r. reflexivity.
  - cbn [digits flat_map]. rewrite IHn, digits_mod by assumption.
    rewrite Nat.mul_succ_r, Nat.add_comm. rewrite digits_app by assumption. reflexivity.
Qed.

Lemma evalb_concat b k css : 0 < b -> Forall (fun c => length c = k) css ->
  evalb (b ^ Z.of_nat k) (map (evalb b) css) = evalb b (concat css).
Proof.
  intros Hb H. induction css as [|c css IH]; cbn [map evalb concat]; [reflexivity|].
  inversion H as [|? ? Hc Hr]; subst. rewrite evalb_app, IH by assumption. reflexivity.
Qed.

Lemma wfd_evalb_chunks b k css : 0 < b -> Forall (fun c => length c = k) css -> Forall (wfd b) css ->
  wfd (b ^ Z.of_nat k) (map (evalb b) css).
Proof.
  intros Hb Hl Hw. induction css as [|c css IH]; cbn [map]; [apply wfd_nil|].
  inversion Hl; inversion Hw; subst. apply wfd_cons. split; [|auto].
  pose proof (evalb_bounds b c Hb ltac:(assumption)). lia.
Qed.

(* ---- chunks ---- *)
Lemma chunks_spec k n bs : length bs = (k * n)%nat ->
  concat (chunks k n bs) = bs /\ Forall (fun c => length c = k) (chunks k n bs) /\ length (chunks k n bs) = n.
Proof.
  revert bs; induction n; intros bs Hl.
  - rewrite Nat.mul_0_r in Hl. destruct bs; [|discriminate]. cbn. repeat split; constructor.
  - rewrite Nat.mul_succ_r in Hl. cbn [chunks concat length].
    assert (Hs : length (skipn k bs) = (k * n)%nat) by (rewrite skipn_length; lia).
    destruct (IHn _ Hs) as (Hc & Hf & Hn). rewrite Hc, firstn_skipn. repeat split; [|lia].
    constructor; [rewrite firstn_length; lia | assumption].
Qed.

Lemma wfd_chunks b k n bs : wfd b bs -> Forall (wfd b) (chunks k n bs).
Proof.
  revert bs; induction n; intros bs H; cbn [chunks]; constructor.
  - apply wfd_firstn; assumption.
  - apply IHn. apply wfd_skipn; assumption.
Qed.

(* ---- list helpers ---- *)
Lemma flat_map_rev {A C} (f : A -> list C) l :
  rev (flat_map f l) = flat_map (fun x => rev (f x)) (rev l).
Proof.
  induction l as [|a l IH]; cbn [flat_map rev]; [reflexivity|].
  rewrite rev_app_distr, IH, flat_map_app. cbn [flat_map]. rewrite app_nil_r. reflexivity.
Qed.
Lemma flat_map_map_out {A C D} (h : C -> D) (g : A -> list C) l :
  flat_map (fun x => map h (g x)) l = map h (flat_map g l).
Proof. induction l as [|a l IH]; cbn [flat_map]; [reflexivity|]. rewrite map_app, IH. reflexivity. Qed.
Lemma concat_map_rev {A} (css : list (list A)) : concat (map (@rev A) (rev css)) = rev (concat css).
Proof.
  induction css as [|c css IH]; cbn [concat rev map]; [reflexivity|].
  rewrite map_app, concat_app, IH, rev_app_distr. cbn [map concat]. rewrite app_nil_r. reflexivity.
Qed.
Lemma nth_rev_lt {A} (l : list A) d i : (i < length l)%nat -> nth i (rev l) d = nth (length l - 1 - i) l d.
Proof. intros H. rewrite rev_nth by assumption. f_equal. lia. Qed.

(* ---- limbs as base-B digits; B as a power of 256 / 16 / 2 ---- *)
Lemma eval_evalb ls : eval ls = evalb B ls.
Proof. induction ls as [|x ls IH]; cbn [eval evalb]; [reflexivity | rewrite IH; reflexivity]. Qed.
Lemma to_limbs_digits n x : to_limbs n x = digits B n x.
Proof. revert x; induction n; intros; cbn [to_limbs digits]; [reflexivity | rewrite IHn; reflexivity]. Qed.
Lemma B_256 : B = 256 ^ Z.of_nat 8. Proof. rewrite B_val. reflexivity. Qed.
Lemma B_16 : B = 16 ^ Z.of_nat 16. Proof. rewrite B_val. reflexivity. Qed.
Lemma B_2 : B = 2 ^ Z.of_nat 64. Proof. rewrite B_val. reflexivity. Qed.
Lemma Bn_pow n : Bn n = B ^ Z.of_nat n.
Proof. induction n; [rewrite Bn_0; reflexivity | rewrite Bn_S, IHn, pow_S_nat; reflexivity]. Qed.
Lemma Bn_256 n : Bn n = 256 ^ Z.of_nat (8 * n).
Proof. rewrite Bn_pow, pow_mul_nat, <- B_256. reflexivity. Qed.
Lemma Bn_16 n : Bn n = 16 ^ Z.of_nat (16 * n).
Proof. rewrite Bn_pow, pow_mul_nat, <- B_16. reflexivity. Qed.
Lemma Bn_2 n : Bn n = 2 ^ Z.of_nat (64 * n).
Proof. rewrite Bn_pow, pow_mul_nat, <- B_2. reflexivity. Qed.

(** the limbs of a value, regrouped into digits of a base b with b^k = B *)
Lemma limbs_regroup b k ls : 0 < b -> B = b ^ Z.of_nat k -> wf ls ->
  flat_map (digits b k) ls = digits b (k * length ls) (eval ls).
Proof.
  intros Hb HB Hw. rewrite <- (to_limbs_eval ls Hw) at 1. rewrite to_limbs_digits, HB.
  apply digits_group. assumption.
Qed.
