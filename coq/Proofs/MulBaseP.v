(** C03 proofs, part 1: list surgery, one multiply-accumulate row, schoolbook multiplication,
    adc_mul_limbs (out += xs * ys with final carry). All statements for arbitrary lengths. *)
From CB Require Import Model.Limbs Model.AddSub Model.Mul Proofs.WordP Proofs.LimbsP Proofs.AddSubP.
From Coq Require Import ZArith Lia List.
Open Scope Z_scope.

(* ---------------- list surgery ---------------- *)
Lemma skipn_skipn' {A} (a b : nat) (l : list A) : skipn a (skipn b l) = skipn (b + a) l.
Proof.
  revert l. induction b as [|b IH]; intros l; [reflexivity|].
  destruct l as [|x l]; [rewrite !skipn_nil; reflexivity|]. cbn [Nat.add skipn]. apply IH.
Qed.

Lemma nthz_mid pre m post : nthz (pre ++ m :: post) (length pre) = m.
Proof. unfold nthz. apply nth_middle. Qed.

Lemma firstn_exact {A} (pre post : list A) : firstn (length pre) (pre ++ post) = pre.
Proof. rewrite firstn_app, Nat.sub_diag, firstn_all. cbn [firstn]. apply app_nil_r. Qed.

Lemma skipn_exact {A} (pre post : list A) : skipn (length pre) (pre ++ post) = post.
Proof. rewrite skipn_app, Nat.sub_diag, skipn_all. reflexivity. Qed.

Lemma firstn_exact' {A} n (pre post : list A) : n = length pre -> firstn n (pre ++ post) = pre.
Proof. intros ->. apply firstn_exact. Qed.
Lemma skipn_exact' {A} n (pre post : list A) : n = length pre -> skipn n (pre ++ post) = post.
Proof. intros ->. apply skipn_exact. Qed.

Lemma upd_mid (pre : list Z) m post v :
  firstn (length pre) (pre ++ m :: post) ++ v :: skipn (S (length pre)) (pre ++ m :: post) = pre ++ v :: post.
Proof.
  rewrite firstn_exact. f_equal. f_equal.
  replace (S (length pre)) with (length pre + 1)%nat by lia. rewrite <- skipn_skipn', skipn_exact. reflexivity.
Qed.

Lemma upd_mid' k (pre : list Z) m post v : k = length pre ->
  firstn k (pre ++ m :: post) ++ v :: skipn (S k) (pre ++ m :: post) = pre ++ v :: post.
Proof. intros ->. apply upd_mid. Qed.

Lemma nthz_mid' k pre m post : k = length pre -> nthz (pre ++ m :: post) k = m.
Proof. intros ->. apply nthz_mid. Qed.

(** every list splits as prefix ++ window ++ suffix *)
Lemma split3 (l : list Z) off len : (off + len <= length l)%nat ->
  l = firstn off l ++ slice l off len ++ skipn (off + len) l /\
  length (firstn off l) = off /\ length (slice l off len) = len.
Proof.
  intros H. unfold slice. split; [|split].
  - rewrite <- skipn_skipn'. rewrite firstn_skipn, firstn_skipn. reflexivity.
  - apply firstn_length_le. lia.
  - rewrite firstn_length_le; [reflexivity|]. rewrite skipn_length. lia.
Qed.

Lemma length_splice out off seg : (off + length seg <= length out)%nat ->
  length (splice out off seg) = length out.
Proof.
  intros H. unfold splice. rewrite !app_length, firstn_length_le, skipn_length by lia. lia.
Qed.

Lemma splice_struct pre mid post seg : length seg = length mid ->
  splice (pre ++ mid ++ post) (length pre) seg = pre ++ seg ++ post.
Proof.
  intros H. unfold splice. rewrite firstn_exact. f_equal. f_equal.
  rewrite <- skipn_skipn', skipn_exact, H, skipn_exact. reflexivity.
Qed.

Lemma slice_struct pre mid post : slice (pre ++ mid ++ post) (length pre) (length mid) = mid.
Proof. unfold slice. rewrite skipn_exact, firstn_exact. reflexivity. Qed.

Lemma eval3 pre mid post :
  eval (pre ++ mid ++ post) = eval pre + Bn (length pre) * (eval mid + Bn (length mid) * eval post).
Proof. rewrite !eval_app. reflexivity. Qed.

Lemma wf_app3 a b c : wf (a ++ b ++ c) <-> wf a /\ wf b /\ wf c.
Proof. rewrite !wf_app. tauto. Qed.

Lemma is_word_01 c : 0 <= c <= 1 -> is_word c.
Proof. unfold is_word. pose proof B_gt1. lia. Qed.

(** [q1 * b + r1 = q2 * b + r2] with both remainders in range *)
Lemma divmod_uniq b q1 r1 q2 r2 :
  0 <= r1 < b -> 0 <= r2 < b -> q1 * b + r1 = q2 * b + r2 -> q1 = q2 /\ r1 = r2.
Proof.
  intros H1 H2 E.
  destruct (div_mod_unique_pos b q1 r1 (q1 * b + r1) H1 eq_refl) as [A1 A2].
  destruct (div_mod_unique_pos b q2 r2 (q1 * b + r1) H2 E) as [C1 C2].
  split; congruence.
Qed.

(* ---------------- one row: the window version ---------------- *)
Fixpoint mac_seg (mid : list Z) (xi : Z) (ys : list Z) (carry : Z) : list Z * Z :=
  match mid, ys with
  | m :: mid', y :: ys' =>
      let '(v, c) := mac m xi y carry in
      let '(r, c') := mac_seg mid' xi ys' c in (v :: r, c')
  | _, _ => ([], carry)
  end.

Lemma mac_row_seg ys : forall pre mid post xi carry, length mid = length ys ->
  mac_row (pre ++ mid ++ post) (length pre) xi ys carry =
  (pre ++ fst (mac_seg mid xi ys carry) ++ post, snd (mac_seg mid xi ys carry)).
Proof.
  induction ys as [|y ys IH]; intros pre mid post xi carry Hl; destruct mid as [|m mid]; try discriminate.
  - reflexivity.
  - cbn [mac_row mac_seg]. cbn [app]. rewrite nthz_mid.
    destruct (mac m xi y carry) as [v c]. rewrite upd_mid.
    replace (pre ++ v :: mid ++ post) with ((pre ++ [v]) ++ mid ++ post)
      by (rewrite <- app_assoc; reflexivity).
    replace (S (length pre)) with (length (pre ++ [v])) by (rewrite app_length; simpl; lia).
    rewrite IH by (simpl in Hl; lia).
    destruct (mac_seg mid xi ys c) as [r c']. cbn [fst snd]. rewrite <- app_assoc. reflexivity.
Qed.

Lemma mac_seg_correct mid : forall ys xi carry r c,
  wf mid -> wf ys -> length mid = length ys -> is_word xi -> is_word carry ->
  mac_seg mid xi ys carry = (r, c) ->
  eval r + Bn (length ys) * c = eval mid + xi * eval ys + carry /\ wf r /\ length r = length mid /\ is_word c.
Proof.
  induction mid as [|m mid IH]; intros ys xi carry r c Hm Hy Hl Hxi Hc E.
  - destruct ys; [|discriminate]. simpl in E. inv_pair E. simpl. rewrite Bn_0.
    split; [lia|]. split; [apply wf_nil|]. split; [reflexivity|assumption].
  - destruct ys as [|y ys]; [discriminate|].
    apply wf_cons in Hm. destruct Hm as [Hm0 Hm]. apply wf_cons in Hy. destruct Hy as [Hy0 Hy].
    cbn [mac_seg] in E. destruct (mac m xi y carry) as [v c1] eqn:E1.
    destruct (mac_seg mid xi ys c1) as [r' c'] eqn:E2. inv_pair E.
    pose proof (mac_exact _ _ _ _ _ _ Hm0 Hxi Hy0 Hc E1) as (H1 & Hv & Hc1).
    simpl in Hl.
    specialize (IH ys xi c1 r' c' Hm Hy ltac:(lia) Hxi Hc1 E2). destruct IH as (H2 & Hw & Hlr & Hc').
    cbn [eval length]. rewrite Bn_S.
    split; [|split; [|split]]; auto.
    + assert (eval r' = eval mid + xi * eval ys + c1 - Bn (length ys) * c') as -> by lia.
      assert (v = m + xi * y + carry - B * c1) as -> by lia. ring.
    + apply wf_cons. split; assumption.
Qed.

(** structural form: the window is rewritten, prefix and suffix are untouched *)
Lemma mac_row_struct pre mid post xi ys carry :
  wf mid -> wf ys -> length mid = length ys -> is_word xi -> is_word carry ->
  exists r c, mac_row (pre ++ mid ++ post) (length pre) xi ys carry = (pre ++ r ++ post, c) /\
    eval r + Bn (length ys) * c = eval mid + xi * eval ys + carry /\ wf r /\ length r = length mid /\ is_word c.
Proof.
  intros Hm Hy Hl Hxi Hc. rewrite mac_row_seg by assumption.
  destruct (mac_seg mid xi ys carry) as [r c] eqn:E. exists r, c. cbn [fst snd]. split; [reflexivity|].
  eapply mac_seg_correct; eauto.
Qed.

(** GOAL 1 *)
Theorem mac_row_correct out off xi ys carry out' c :
  wf out -> wf ys -> is_word xi -> is_word carry -> (off + length ys <= length out)%nat ->
  mac_row out off xi ys carry = (out', c) ->
  eval out' + Bn (off + length ys) * c = eval out + Bn off * (xi * eval ys + carry) /\
  wf out' /\ length out' = length out /\ is_word c /\
  firstn off out' = firstn off out /\ skipn (off + length ys) out' = skipn (off + length ys) out.
Proof.
  intros Ho Hy Hxi Hc Hlen E.
  destruct (split3 out off (length ys) Hlen) as (Hsp & Hl1 & Hl2).
  set (pre := firstn off out) in *. set (mid := slice out off (length ys)) in *.
  set (post := skipn (off + length ys) out) in *.
  clearbody pre mid post. subst out.
  apply wf_app3 in Ho. destruct Ho as (Hwp & Hwm & Hwq).
  destruct (mac_row_struct pre mid post xi ys carry Hwm Hy Hl2 Hxi Hc) as (r & c0 & Er & Hev & Hwr & Hlr & Hc0).
  rewrite Hl1 in Er. rewrite Er in E. inv_pair E.
  rewrite !eval3, Hl1, Hlr, Hl2, Bn_add.
  split; [|split; [|split; [|split; [|split]]]].
  - assert (eval r = eval mid + xi * eval ys + carry - Bn (length ys) * c0) as -> by lia. ring.
  - apply wf_app3. auto.
  - rewrite !app_length. lia.
  - assumption.
  - rewrite !firstn_exact' by (symmetry; exact Hl1). reflexivity.
  - rewrite !app_assoc. rewrite !skipn_exact' by (rewrite app_length; lia). reflexivity.
Qed.

(* ---------------- schoolbook multiplication ---------------- *)
Lemma schoolbook_rows_correct xs : forall acc i ys,
  wf acc -> wf xs -> wf ys -> length acc = (i + length ys)%nat ->
  let r := schoolbook_rows (acc ++ zeros (length xs)) i xs ys in
  eval r = eval acc + Bn i * (eval xs * eval ys) /\ wf r /\ length r = (length acc + length xs)%nat.
Proof.
  induction xs as [|xi xs IH]; intros acc i ys Ha Hx Hy Hl r.
  - subst r. cbn [schoolbook_rows length zeros repeat eval]. rewrite app_nil_r.
    repeat split; auto; lia.
  - apply wf_cons in Hx. destruct Hx as [Hxi Hx]. subst r.
    cbn [schoolbook_rows].
    destruct (split3 acc i (length ys) ltac:(lia)) as (Hsp & Hl1 & Hl2).
    set (pre := firstn i acc) in *. set (mid := slice acc i (length ys)) in *.
    rewrite skipn_all2 in Hsp by lia. rewrite app_nil_r in Hsp.
    clearbody pre mid. subst acc.
    apply wf_app in Ha. destruct Ha as [Hwp Hwm].
    destruct (mac_row_struct pre mid (zeros (length (xi :: xs))) xi ys 0 Hwm Hy Hl2 Hxi is_word_0)
      as (r & c & Er & Hev & Hwr & Hlr & Hc).
    rewrite Hl1 in Er. rewrite <- app_assoc. rewrite Er.
    cbn [length zeros repeat]. fold (zeros (length xs)).
    replace (pre ++ r ++ 0 :: zeros (length xs)) with ((pre ++ r) ++ 0 :: zeros (length xs))
      by (rewrite <- app_assoc; reflexivity).
    rewrite upd_mid' by (rewrite app_length; lia).
    replace ((pre ++ r) ++ c :: zeros (length xs)) with ((pre ++ r ++ [c]) ++ zeros (length xs))
      by (rewrite <- !app_assoc; reflexivity).
    assert (Hwa : wf (pre ++ r ++ [c])).
    { apply wf_app3. repeat split; auto. apply wf_cons. split; [assumption | apply wf_nil]. }
    assert (Hla : length (pre ++ r ++ [c]) = (S i + length ys)%nat).
    { rewrite !app_length. simpl. lia. }
    specialize (IH (pre ++ r ++ [c]) (S i) ys Hwa Hx Hy Hla). cbv zeta in IH.
    destruct IH as (IH1 & IH2 & IH3).
    split; [|split].
    + rewrite IH1. rewrite eval3, Hl1, Hlr, Hl2. rewrite eval_app, Hl1.
      cbn [eval]. rewrite Bn_S.
      assert (eval r = eval mid + xi * eval ys + 0 - Bn (length ys) * c) as -> by lia. ring.
    + assumption.
    + rewrite IH3, Hla, Hl. simpl. lia.
Qed.

(** GOAL 2 *)
Theorem schoolbook_mul_correct xs ys : wf xs -> wf ys ->
  eval (schoolbook_mul xs ys) = eval xs * eval ys /\ wf (schoolbook_mul xs ys) /\
  length (schoolbook_mul xs ys) = (length xs + length ys)%nat.
Proof.
  intros Hx Hy. unfold schoolbook_mul.
  replace (zeros (length xs + length ys)) with (zeros (length ys) ++ zeros (length xs)).
  2:{ unfold zeros. rewrite <- repeat_app. f_equal. lia. }
  pose proof (schoolbook_rows_correct xs (zeros (length ys)) 0 ys (wf_zeros _) Hx Hy
                ltac:(rewrite length_zeros; reflexivity)) as H.
  cbv zeta in H. destruct H as (H1 & H2 & H3).
  rewrite H1, H3, eval_zeros, Bn_0, length_zeros. repeat split; auto; lia.
Qed.

(** (lo, hi) halves of a wide product *)
Lemma split_at_eval n l lo hi : wf l -> (n <= length l)%nat -> split_at n l = (lo, hi) ->
  eval lo + Bn n * eval hi = eval l /\ wf lo /\ wf hi /\ length lo = n /\ length hi = (length l - n)%nat.
Proof.
  intros Hw Hn E. unfold split_at in E. inv_pair E.
  pose proof (eval_firstn_skipn n l) as Hev. rewrite firstn_length_le in Hev by assumption.
  repeat split; auto using wf_firstn, wf_skipn.
  - apply firstn_length_le. assumption.
  - apply skipn_length.
Qed.

Theorem schoolbook_split_correct xs ys lo hi : wf xs -> wf ys ->
  split_at (length xs) (schoolbook_mul xs ys) = (lo, hi) ->
  eval lo + Bn (length xs) * eval hi = eval xs * eval ys /\ wf lo /\ wf hi /\
  length lo = length xs /\ length hi = length ys.
Proof.
  intros Hx Hy E. destruct (schoolbook_mul_correct xs ys Hx Hy) as (H1 & H2 & H3).
  assert (Hn : (length xs <= length (schoolbook_mul xs ys))%nat) by lia.
  destruct (split_at_eval _ _ _ _ H2 Hn E) as (A & C & D & F & G).
  repeat split; auto; lia.
Qed.

(* ---------------- adc_mul_limbs: out += xs * ys, any incoming accumulator ---------------- *)
Lemma adc_mul_rows_correct xs : forall lo hi i ys carry out' c,
  wf lo -> wf hi -> wf xs -> wf ys -> length lo = (i + length ys)%nat -> length hi = length xs ->
  0 <= carry <= 1 ->
  adc_mul_rows (lo ++ hi) i xs ys carry = (out', c) ->
  eval out' + Bn (length lo + length hi) * c =
    eval lo + Bn (length lo) * eval hi + Bn i * (eval xs * eval ys) + Bn (length lo) * carry /\
  wf out' /\ length out' = (length lo + length hi)%nat /\ 0 <= c <= 1.
Proof.
  induction xs as [|xi xs IH]; intros lo hi i ys carry out' c Hlo Hhi Hx Hy Hl Hlh Hc E.
  - destruct hi; [|discriminate]. cbn [adc_mul_rows] in E. inv_pair E.
    rewrite app_nil_r. cbn [eval length]. rewrite Nat.add_0_r.
    repeat split; auto; lia.
  - destruct hi as [|h0 hi]; [discriminate|].
    apply wf_cons in Hx. destruct Hx as [Hxi Hx]. apply wf_cons in Hhi. destruct Hhi as [Hh0 Hhi].
    cbn [adc_mul_rows] in E.
    destruct (split3 lo i (length ys) ltac:(lia)) as (Hsp & Hl1 & Hl2).
    set (pre := firstn i lo) in *. set (mid := slice lo i (length ys)) in *.
    rewrite skipn_all2 in Hsp by lia. rewrite app_nil_r in Hsp.
    clearbody pre mid. subst lo.
    apply wf_app in Hlo. destruct Hlo as [Hwp Hwm].
    destruct (mac_row_struct pre mid (h0 :: hi) xi ys 0 Hwm Hy Hl2 Hxi is_word_0)
      as (r & c2 & Er & Hev & Hwr & Hlr & Hc2).
    rewrite Hl1 in Er. rewrite <- app_assoc in E. rewrite Er in E.
    replace (pre ++ r ++ h0 :: hi) with ((pre ++ r) ++ h0 :: hi) in E
      by (rewrite <- app_assoc; reflexivity).
    rewrite nthz_mid' in E by (rewrite app_length; lia).
    destruct (adc h0 c2 carry) as [v c1] eqn:Ea.
    rewrite upd_mid' in E by (rewrite app_length; lia).
    replace ((pre ++ r) ++ v :: hi) with ((pre ++ r ++ [v]) ++ hi) in E
      by (rewrite <- !app_assoc; reflexivity).
    pose proof (adc_exact _ _ _ _ _ Hh0 Hc2 (is_word_01 _ Hc) Ea) as (Hv1 & Hvw & _).
    pose proof (adc_carry_small _ _ _ _ _ Hh0 Hc2 Hc Ea) as Hc1.
    assert (Hwa : wf (pre ++ r ++ [v])).
    { apply wf_app3. repeat split; auto. apply wf_cons. split; [assumption | apply wf_nil]. }
    assert (Hla : length (pre ++ r ++ [v]) = (S i + length ys)%nat).
    { rewrite !app_length. simpl. lia. }
    simpl in Hlh.
    specialize (IH (pre ++ r ++ [v]) hi (S i) ys c1 out' c Hwa Hhi Hx Hy Hla ltac:(lia) Hc1 E).
    destruct IH as (IH1 & IH2 & IH3 & IH4).
    split; [|split; [|split]]; auto.
    + cbn [length eval]. rewrite Hla in IH1. rewrite Hl.
      replace (i + length ys + S (length hi))%nat with (S i + length ys + length hi)%nat by lia.
      rewrite IH1. rewrite eval3, Hl1, Hlr, Hl2. rewrite eval_app, Hl1.
      cbn [Nat.add eval]. rewrite !Bn_S, !Bn_add.
      assert (eval r = eval mid + xi * eval ys + 0 - Bn (length ys) * c2) as -> by lia.
      assert (v = h0 + c2 + carry - B * c1) as -> by lia. ring.
    + rewrite IH3, Hla, Hl. simpl. lia.
Qed.

(** GOAL 6 *)
Theorem adc_mul_limbs_correct xs ys out out' c :
  wf xs -> wf ys -> wf out -> length out = (length xs + length ys)%nat ->
  adc_mul_limbs xs ys out = (out', c) ->
  eval out' + Bn (length out) * c = eval out + eval xs * eval ys /\
  wf out' /\ length out' = length out /\ 0 <= c <= 1.
Proof.
  intros Hx Hy Ho Hl E. unfold adc_mul_limbs in E.
  pose proof (firstn_skipn (length ys) out) as Hsp.
  set (lo := firstn (length ys) out) in *. set (hi := skipn (length ys) out) in *.
  assert (Hw2 : wf lo /\ wf hi) by (apply wf_app; rewrite Hsp; exact Ho). destruct Hw2 as [Hwl Hwh].
  assert (Hll : length lo = (0 + length ys)%nat) by (unfold lo; rewrite firstn_length_le; lia).
  assert (Hlh : length hi = length xs) by (unfold hi; rewrite skipn_length; lia).
  rewrite <- Hsp in E.
  destruct (adc_mul_rows_correct xs lo hi 0 ys 0 out' c Hwl Hwh Hx Hy Hll Hlh ltac:(lia) E) as (H1 & H2 & H3 & H4).
  rewrite <- Hsp. rewrite app_length, eval_app.
  repeat split; auto; try lia. rewrite H1, Bn_0. ring.
Qed.
