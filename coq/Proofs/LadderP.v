(** C05 proofs, part 2: the constant-time shift ladder (Uint::overflowing_shl / shr, BoxedUint::overflowing_shl / shr)
    and the wrapping / panicking forms derived from it. *)
From CB Require Import Model.Limbs Model.AddSub Model.Bits Proofs.WordP Proofs.LimbsP Proofs.AddSubP
  Proofs.BitsWordP Proofs.ShiftP.
From Coq Require Import ZArith Lia List Bool.
Open Scope Z_scope.

Lemma land_1_mod2 x : Z.land x 1 = x mod 2.
Proof. change 1 with (Z.ones 1) at 1. rewrite Z.land_ones by lia. reflexivity. Qed.

Lemma ct_expect_some v : ct_expect (v, MAXW) = Some v.
Proof. unfold ct_expect. cbn [fst snd]. rewrite Z.eqb_refl. reflexivity. Qed.

Lemma ct_expect_choice v b : ct_expect (v, choice_of_bool b) = if b then Some v else None.
Proof. unfold ct_expect. cbn [fst snd]. rewrite choice_MAXW_iff. reflexivity. Qed.

Section Ladder.
  Variable step : list Z -> Z -> ctopt.
  Variable n : nat.
  Variable bits : Z.
  Variable P : Z -> list Z -> Prop.    (* [P acc r]: r is the input shifted by acc *)
  Hypothesis P_wf : forall acc r, P acc r -> wf r /\ length r = n.
  Hypothesis step_ok : forall acc r d, P acc r -> 0 <= acc -> 0 <= d < bits ->
    exists v, ct_expect (step r d) = Some v /\ P (acc + d) v.

  Lemma ladder_correct k : forall i shift acc r,
    0 <= i -> 0 <= shift -> 0 <= acc -> P acc r ->
    (k = O \/ 2 ^ (i + Z.of_nat k - 1) < bits) ->
    exists r', ladder step k i shift r = Some r' /\
               P (acc + ((shift / 2 ^ i) mod 2 ^ Z.of_nat k) * 2 ^ i) r'.
  Proof.
    induction k as [|k IH]; intros i shift acc r Hi Hs Hacc HP Hb.
    - exists r. split; [reflexivity|]. simpl. rewrite Z.mod_1_r, Z.mul_0_l, Z.add_0_r. exact HP.
    - destruct Hb as [Hb|Hb]; [discriminate|].
      rewrite Nat2Z.inj_succ in *. replace (i + Z.succ (Z.of_nat k) - 1) with (i + Z.of_nat k) in Hb by lia.
      pose proof (pow2_pos i Hi) as Hpi.
      assert (Hd : 0 <= 2 ^ i < bits).
      { pose proof (pow2_le i (i + Z.of_nat k) ltac:(lia)). lia. }
      destruct (step_ok acc r (2 ^ i) HP Hacc Hd) as (v & Ev & Pv).
      cbn [ladder]. rewrite Ev.
      set (X := shift / 2 ^ i).
      assert (HX : 0 <= X) by (apply Z.div_pos; lia).
      rewrite land_1_mod2.
      pose proof (Z.mod_pos_bound X 2 ltac:(lia)) as Hb2.
      assert (Eb : from_u32_lsb (X mod 2) = choice_of_bool (X mod 2 =? 1)).
      { rewrite <- from_u32_lsb_bool. f_equal.
        destruct (Z.eqb_spec (X mod 2) 1) as [->|]; simpl; lia. }
      rewrite Eb.
      destruct (P_wf _ _ HP) as [Wr Lr]. destruct (P_wf _ _ Pv) as [Wv Lv].
      rewrite select_limbs_choice by (auto; lia).
      set (b := X mod 2) in *.
      assert (HPn : P (acc + b * 2 ^ i) (if b =? 1 then v else r)).
      { destruct (Z.eqb_spec b 1) as [->|Hne].
        - rewrite Z.mul_1_l. exact Pv.
        - replace b with 0 by lia. rewrite Z.mul_0_l, Z.add_0_r. exact HP. }
      assert (Hacc' : 0 <= acc + b * 2 ^ i) by (assert (0 <= b * 2 ^ i) by (apply Z.mul_nonneg_nonneg; lia); lia).
      destruct (IH (i + 1) shift (acc + b * 2 ^ i) _ ltac:(lia) Hs Hacc' HPn) as (r' & Er & Pr).
      { destruct k; [left; reflexivity|right].
        replace (i + 1 + Z.of_nat (S k) - 1) with (i + Z.of_nat (S k)) by lia. exact Hb. }
      exists r'. split; [exact Er|].
      (* index arithmetic *)
      assert (E2 : shift / 2 ^ (i + 1) = X / 2).
      { unfold X. rewrite pow2_split by lia. rewrite Z.pow_1_r. symmetry. apply Z.div_div; lia. }
      assert (E3 : X mod 2 ^ Z.succ (Z.of_nat k) = b + 2 * ((X / 2) mod 2 ^ Z.of_nat k)).
      { rewrite Z.pow_succ_r by lia. pose proof (pow2_pos (Z.of_nat k) ltac:(lia)).
        rewrite Z.rem_mul_r by lia. reflexivity. }
      rewrite E2 in Pr. rewrite E3.
      replace (acc + (b + 2 * ((X / 2) mod 2 ^ Z.of_nat k)) * 2 ^ i)
        with (acc + b * 2 ^ i + (X / 2) mod 2 ^ Z.of_nat k * 2 ^ (i + 1)); [exact Pr|].
      rewrite pow2_split by lia. rewrite Z.pow_1_r. ring.
  Qed.

  (** the whole ladder: k = shift_bits, starting from the unshifted input *)
  Lemma ladder_full a sh : 64 <= bits -> P 0 a -> 0 <= sh < bits ->
    exists r', ladder step (Z.to_nat (shift_bits bits)) 0 sh a = Some r' /\ P sh r'.
  Proof.
    intros Hbits HP Hsh.
    unfold shift_bits, u32_lz. replace (32 - (32 - bitlen (bits - 1))) with (bitlen (bits - 1)) by lia.
    pose proof (bitlen_spec (bits - 1) ltac:(lia)) as [[K1 K2] K3].
    set (kz := bitlen (bits - 1)) in *.
    destruct (ladder_correct (Z.to_nat kz) 0 sh 0 a ltac:(lia) ltac:(lia) ltac:(lia) HP) as (r' & Er & Pr).
    { right. rewrite Z2Nat.id by lia. replace (0 + kz - 1) with (kz - 1) by lia. lia. }
    exists r'. split; [exact Er|].
    rewrite Z2Nat.id in Pr by lia. rewrite Z.pow_0_r, Z.div_1_r, Z.mul_1_r, Z.add_0_l in Pr.
    rewrite Z.mod_small in Pr by lia. exact Pr.
  Qed.
End Ladder.

(* ------------------------------------------------------------------ instances *)
Definition P_shl (a : list Z) (acc : Z) (r : list Z) : Prop :=
  wf r /\ length r = length a /\ eval r = (eval a * 2 ^ acc) mod Bn (length a).
Definition P_shr (a : list Z) (acc : Z) (r : list Z) : Prop :=
  wf r /\ length r = length a /\ eval r = eval a / 2 ^ acc.

Lemma P_shl_step a acc r d : P_shl a acc r -> 0 <= acc -> 0 <= d < bitsZ' a ->
  exists v, ct_expect (uint_overflowing_shl_vartime r d) = Some v /\ P_shl a (acc + d) v.
Proof.
  intros (Wr & Lr & Er) Hacc Hd.
  pose proof (shl_vartime_correct r d Wr ltac:(lia)) as H. cbn zeta in H.
  unfold bitsZ' in *. rewrite Lr in H.
  destruct (Z.ltb_spec d (64 * Z.of_nat (length a))); [|lia].
  destruct H as (Hc & Wv & Lv & Ev).
  destruct (uint_overflowing_shl_vartime r d) as [v c]. cbn [fst snd] in *. subst c.
  exists v. split; [apply ct_expect_some|].
  split; [exact Wv|]. split; [lia|].
  rewrite Ev, Er. pose proof (Bn_pos (length a)).
  rewrite Z.mul_mod_idemp_l by lia. rewrite pow2_split by lia. f_equal. ring.
Qed.

Lemma P_shr_step a acc r d : P_shr a acc r -> 0 <= acc -> 0 <= d < bitsZ' a ->
  exists v, ct_expect (uint_overflowing_shr_vartime r d) = Some v /\ P_shr a (acc + d) v.
Proof.
  intros (Wr & Lr & Er) Hacc Hd.
  pose proof (shr_vartime_correct r d Wr ltac:(lia)) as H. cbn zeta in H.
  unfold bitsZ' in *. rewrite Lr in H.
  destruct (Z.ltb_spec d (64 * Z.of_nat (length a))); [|lia].
  destruct H as (Hc & Wv & Lv & Ev).
  destruct (uint_overflowing_shr_vartime r d) as [v c]. cbn [fst snd] in *. subst c.
  exists v. split; [apply ct_expect_some|].
  split; [exact Wv|]. split; [lia|].
  rewrite Ev, Er. rewrite pow2_split by lia.
  pose proof (pow2_pos acc Hacc). pose proof (pow2_pos d ltac:(lia)). apply Z.div_div; lia.
Qed.

Lemma P_shl_0 a : wf a -> P_shl a 0 a.
Proof.
  intros Hw. split; [exact Hw|]. split; [reflexivity|].
  rewrite Z.pow_0_r, Z.mul_1_r. symmetry. apply Z.mod_small. apply eval_bounds. exact Hw.
Qed.
Lemma P_shr_0 a : wf a -> P_shr a 0 a.
Proof. intros Hw. split; [exact Hw|]. split; [reflexivity|]. rewrite Z.pow_0_r, Z.div_1_r. reflexivity. Qed.

Lemma bits_ge_64 a : a <> [] -> 64 <= bitsZ' a.
Proof. unfold bitsZ'. destruct a; [congruence|]. simpl length. lia. Qed.

Lemma select_zeros_choice b r n : wf r -> length r = n ->
  select_limbs (choice_of_bool b) r (zeros n) = if b then zeros n else r.
Proof. intros. apply select_limbs_choice; auto using wf_zeros. rewrite length_zeros. assumption. Qed.

(* ------------------------------------------------------------------ Uint::overflowing_shl / shr *)
Theorem uint_overflowing_shl_correct a s :
  wf a -> a <> [] -> bitsZ' a < U32 -> 0 <= s < U32 ->
  exists v, uint_overflowing_shl a s = Some (v, choice_of_bool (s <? bitsZ' a)) /\
            wf v /\ length v = length a /\
            eval v = if s <? bitsZ' a then (eval a * 2 ^ s) mod Bn (length a) else 0.
Proof.
  intros Hw Hne Hbits Hs. pose proof (bits_ge_64 a Hne) as H64.
  unfold uint_overflowing_shl. fold (bitsZ' a). unfold lenZ. fold (bitsZ' a).
  rewrite from_u32_lt_bool by lia. rewrite choice_not_bool.
  pose proof (Z.mod_pos_bound s (bitsZ' a) ltac:(lia)) as Hsh.
  destruct (ladder_full uint_overflowing_shl_vartime (length a) (bitsZ' a) (P_shl a)
              ltac:(intros ? ? (? & ? & ?); auto) (P_shl_step a) a (s mod bitsZ' a) H64 (P_shl_0 a Hw) Hsh)
    as (r' & Er & (Wr & Lr & Ee)).
  rewrite Er. rewrite choice_not_bool, negb_involutive.
  rewrite select_zeros_choice by assumption.
  eexists. split; [reflexivity|].
  destruct (Z.ltb_spec s (bitsZ' a)); cbn [negb].
  - rewrite (Z.mod_small s) in Ee by lia. auto.
  - rewrite eval_zeros, length_zeros. auto using wf_zeros.
Qed.

Theorem uint_overflowing_shr_correct a s :
  wf a -> a <> [] -> bitsZ' a < U32 -> 0 <= s < U32 ->
  exists v, uint_overflowing_shr a s = Some (v, choice_of_bool (s <? bitsZ' a)) /\
            wf v /\ length v = length a /\
            eval v = if s <? bitsZ' a then eval a / 2 ^ s else 0.
Proof.
  intros Hw Hne Hbits Hs. pose proof (bits_ge_64 a Hne) as H64.
  unfold uint_overflowing_shr. fold (bitsZ' a). unfold lenZ. fold (bitsZ' a).
  rewrite from_u32_lt_bool by lia. rewrite choice_not_bool.
  pose proof (Z.mod_pos_bound s (bitsZ' a) ltac:(lia)) as Hsh.
  destruct (ladder_full uint_overflowing_shr_vartime (length a) (bitsZ' a) (P_shr a)
              ltac:(intros ? ? (? & ? & ?); auto) (P_shr_step a) a (s mod bitsZ' a) H64 (P_shr_0 a Hw) Hsh)
    as (r' & Er & (Wr & Lr & Ee)).
  rewrite Er. rewrite choice_not_bool, negb_involutive.
  rewrite select_zeros_choice by assumption.
  eexists. split; [reflexivity|].
  destruct (Z.ltb_spec s (bitsZ' a)); cbn [negb].
  - rewrite (Z.mod_small s) in Ee by lia. auto.
  - rewrite eval_zeros, length_zeros. auto using wf_zeros.
Qed.

(** the constant-time and the variable-time forms return identical results *)
Theorem uint_shl_ct_eq_vartime a s :
  wf a -> a <> [] -> bitsZ' a < U32 -> 0 <= s < U32 ->
  uint_overflowing_shl a s = Some (uint_overflowing_shl_vartime a s).
Proof.
  intros Hw Hne Hb Hs.
  destruct (uint_overflowing_shl_correct a s Hw Hne Hb Hs) as (v & E & Wv & Lv & Ev).
  pose proof (shl_vartime_correct a s Hw ltac:(lia)) as H. cbn zeta in H. destruct H as (Hc & Wr & Lr & Er).
  rewrite E. destruct (uint_overflowing_shl_vartime a s) as [v' c']. cbn [fst snd] in *. subst c'.
  assert (Hv : v = v') by (apply eval_inj; auto; congruence). rewrite Hv. reflexivity.
Qed.

Theorem uint_shr_ct_eq_vartime a s :
  wf a -> a <> [] -> bitsZ' a < U32 -> 0 <= s < U32 ->
  uint_overflowing_shr a s = Some (uint_overflowing_shr_vartime a s).
Proof.
  intros Hw Hne Hb Hs.
  destruct (uint_overflowing_shr_correct a s Hw Hne Hb Hs) as (v & E & Wv & Lv & Ev).
  pose proof (shr_vartime_correct a s Hw ltac:(lia)) as H. cbn zeta in H. destruct H as (Hc & Wr & Lr & Er).
  rewrite E. destruct (uint_overflowing_shr_vartime a s) as [v' c']. cbn [fst snd] in *. subst c'.
  assert (Hv : v = v') by (apply eval_inj; auto; congruence). rewrite Hv. reflexivity.
Qed.

(* ------------------------------------------------------------------ wrapping / panicking forms *)
Lemma ct_unwrap_or_choice v b def : wf v -> wf def -> length def = length v ->
  ct_unwrap_or (v, choice_of_bool b) def = if b then v else def.
Proof. intros. unfold ct_unwrap_or. cbn [fst snd]. apply select_limbs_choice; auto. Qed.

(** wrapping_shl / wrapping_shl_vartime: zero when s >= BITS *)
Theorem uint_wrapping_shl_vartime_correct a s : wf a -> 0 <= s ->
  let r := ct_unwrap_or (uint_overflowing_shl_vartime a s) (zeros (length a)) in
  wf r /\ length r = length a /\
  eval r = if s <? bitsZ' a then (eval a * 2 ^ s) mod Bn (length a) else 0.
Proof.
  intros Hw Hs. cbn zeta.
  pose proof (shl_vartime_correct a s Hw Hs) as H. cbn zeta in H. destruct H as (Hc & Wr & Lr & Er).
  destruct (uint_overflowing_shl_vartime a s) as [v c]. cbn [fst snd] in *. subst c.
  rewrite ct_unwrap_or_choice by (auto using wf_zeros; rewrite length_zeros; lia).
  destruct (s <? bitsZ' a); [auto|]. rewrite eval_zeros, length_zeros. auto using wf_zeros.
Qed.

Theorem uint_wrapping_shr_vartime_correct a s : wf a -> 0 <= s ->
  let r := ct_unwrap_or (uint_overflowing_shr_vartime a s) (zeros (length a)) in
  wf r /\ length r = length a /\
  eval r = if s <? bitsZ' a then eval a / 2 ^ s else 0.
Proof.
  intros Hw Hs. cbn zeta.
  pose proof (shr_vartime_correct a s Hw Hs) as H. cbn zeta in H. destruct H as (Hc & Wr & Lr & Er).
  destruct (uint_overflowing_shr_vartime a s) as [v c]. cbn [fst snd] in *. subst c.
  rewrite ct_unwrap_or_choice by (auto using wf_zeros; rewrite length_zeros; lia).
  destruct (s <? bitsZ' a); [auto|]. rewrite eval_zeros, length_zeros. auto using wf_zeros.
Qed.

(** op-level statements: what the API forms return (Some / None / panic), cf. the op table of Model/Bits.v *)
Theorem uint_shl_forms a s : wf a -> a <> [] -> bitsZ' a < U32 -> 0 <= s < U32 ->
  let spec := to_limbs (length a) ((eval a * 2 ^ s) mod Bn (length a)) in
  let inr := s <? bitsZ' a in
  out_ctopt (uint_overflowing_shl a s) = (if inr then Val [spec] else NoneV) /\
  out_ctopt (Some (uint_overflowing_shl_vartime a s)) = (if inr then Val [spec] else NoneV) /\
  out_expect (uint_overflowing_shl a s) = (if inr then Val [spec] else PanicV) /\
  out_expect (Some (uint_overflowing_shl_vartime a s)) = (if inr then Val [spec] else PanicV) /\
  out_unwrap_or (uint_overflowing_shl a s) (zeros (length a)) = Val [if inr then spec else zeros (length a)] /\
  out_unwrap_or (Some (uint_overflowing_shl_vartime a s)) (zeros (length a)) = Val [if inr then spec else zeros (length a)].
Proof.
  intros Hw Hne Hb Hs. cbn zeta.
  rewrite (uint_shl_ct_eq_vartime a s Hw Hne Hb Hs).
  pose proof (shl_vartime_correct a s Hw ltac:(lia)) as H. cbn zeta in H. destruct H as (Hc & Wr & Lr & Er).
  destruct (uint_overflowing_shl_vartime a s) as [v c]. cbn [fst snd] in *. subst c.
  unfold out_ctopt, out_expect, out_unwrap_or, ct_is_some. cbn [fst snd].
  rewrite ct_expect_choice, choice_to_bool_of_bool.
  rewrite ct_unwrap_or_choice by (auto using wf_zeros; rewrite length_zeros; lia).
  destruct (s <? bitsZ' a).
  - assert (E : v = to_limbs (length a) ((eval a * 2 ^ s) mod Bn (length a))).
    { apply to_limbs_unique; auto. rewrite Er. pose proof (Bn_pos (length a)). rewrite Z.mod_mod by lia. reflexivity. }
    rewrite <- E. repeat split; reflexivity.
  - repeat split; reflexivity.
Qed.

Theorem uint_shr_forms a s : wf a -> a <> [] -> bitsZ' a < U32 -> 0 <= s < U32 ->
  let spec := to_limbs (length a) (eval a / 2 ^ s) in
  let inr := s <? bitsZ' a in
  out_ctopt (uint_overflowing_shr a s) = (if inr then Val [spec] else NoneV) /\
  out_ctopt (Some (uint_overflowing_shr_vartime a s)) = (if inr then Val [spec] else NoneV) /\
  out_expect (uint_overflowing_shr a s) = (if inr then Val [spec] else PanicV) /\
  out_expect (Some (uint_overflowing_shr_vartime a s)) = (if inr then Val [spec] else PanicV) /\
  out_unwrap_or (uint_overflowing_shr a s) (zeros (length a)) = Val [if inr then spec else zeros (length a)] /\
  out_unwrap_or (Some (uint_overflowing_shr_vartime a s)) (zeros (length a)) = Val [if inr then spec else zeros (length a)].
Proof.
  intros Hw Hne Hb Hs. cbn zeta.
  rewrite (uint_shr_ct_eq_vartime a s Hw Hne Hb Hs).
  pose proof (shr_vartime_correct a s Hw ltac:(lia)) as H. cbn zeta in H. destruct H as (Hc & Wr & Lr & Er).
  destruct (uint_overflowing_shr_vartime a s) as [v c]. cbn [fst snd] in *. subst c.
  unfold out_ctopt, out_expect, out_unwrap_or, ct_is_some. cbn [fst snd].
  rewrite ct_expect_choice, choice_to_bool_of_bool.
  rewrite ct_unwrap_or_choice by (auto using wf_zeros; rewrite length_zeros; lia).
  destruct (s <? bitsZ' a).
  - assert (E : v = to_limbs (length a) (eval a / 2 ^ s)).
    { apply to_limbs_unique; auto. rewrite Er. symmetry. apply Z.mod_small.
      pose proof (eval_bounds a Hw). pose proof (pow2_pos s ltac:(lia)).
      split; [apply Z.div_pos; lia|].
      apply Z.div_lt_upper_bound; [lia|]. assert (Bn (length a) * 1 <= 2 ^ s * Bn (length a)); [|lia].
      rewrite Z.mul_comm. apply Z.mul_le_mono_nonneg_r; lia. }
    rewrite <- E. repeat split; reflexivity.
  - repeat split; reflexivity.
Qed.

(* ------------------------------------------------------------------ BoxedUint::overflowing_shl / shr *)
Lemma P_shr_step_boxed a acc r d : P_shr a acc r -> 0 <= acc -> 0 <= d < bitsZ' a ->
  exists v, ct_expect (boxed_shr_vartime_into r d) = Some v /\ P_shr a (acc + d) v.
Proof. rewrite boxed_shr_vartime_into_eq. apply P_shr_step. Qed.

Theorem boxed_overflowing_shl_correct a s : wf a -> a <> [] -> 0 <= s ->
  exists v, boxed_overflowing_shl a s = Some (v, negb (s <? bitsZ' a)) /\ wf v /\ length v = length a /\
            eval v = if s <? bitsZ' a then (eval a * 2 ^ s) mod Bn (length a) else 0.
Proof.
  intros Hw Hne Hs. pose proof (bits_ge_64 a Hne) as H64.
  unfold boxed_overflowing_shl, boxed_overflowing_shift. unfold lenZ. fold (bitsZ' a).
  pose proof (Z.mod_pos_bound s (bitsZ' a) ltac:(lia)) as Hsh.
  destruct (ladder_full boxed_shl_vartime_into (length a) (bitsZ' a) (P_shl a)
              ltac:(intros ? ? (? & ? & ?); auto) (P_shl_step a) a (s mod bitsZ' a) H64 (P_shl_0 a Hw) Hsh)
    as (r' & Er & (Wr & Lr & Ee)).
  rewrite Er. rewrite select_zeros_choice by assumption.
  eexists. split; [reflexivity|].
  destruct (Z.ltb_spec s (bitsZ' a)); cbn [negb].
  - rewrite (Z.mod_small s) in Ee by lia. auto.
  - rewrite eval_zeros, length_zeros. auto using wf_zeros.
Qed.

Theorem boxed_overflowing_shr_correct a s : wf a -> a <> [] -> 0 <= s ->
  exists v, boxed_overflowing_shr a s = Some (v, negb (s <? bitsZ' a)) /\ wf v /\ length v = length a /\
            eval v = if s <? bitsZ' a then eval a / 2 ^ s else 0.
Proof.
  intros Hw Hne Hs. pose proof (bits_ge_64 a Hne) as H64.
  unfold boxed_overflowing_shr, boxed_overflowing_shift. unfold lenZ. fold (bitsZ' a).
  pose proof (Z.mod_pos_bound s (bitsZ' a) ltac:(lia)) as Hsh.
  destruct (ladder_full boxed_shr_vartime_into (length a) (bitsZ' a) (P_shr a)
              ltac:(intros ? ? (? & ? & ?); auto) (P_shr_step_boxed a) a (s mod bitsZ' a) H64 (P_shr_0 a Hw) Hsh)
    as (r' & Er & (Wr & Lr & Ee)).
  rewrite Er. rewrite select_zeros_choice by assumption.
  eexists. split; [reflexivity|].
  destruct (Z.ltb_spec s (bitsZ' a)); cbn [negb].
  - rewrite (Z.mod_small s) in Ee by lia. auto.
  - rewrite eval_zeros, length_zeros. auto using wf_zeros.
Qed.

(** BoxedUint::shl_vartime / shr_vartime / wrapping_*_vartime use the same limb loops as Uint *)
Theorem boxed_shl_vartime_correct a s : wf a -> 0 <= s ->
  let r := boxed_shl_vartime_into a s in
  snd r = choice_of_bool (s <? bitsZ' a) /\ wf (fst r) /\ length (fst r) = length a /\
  eval (fst r) = if s <? bitsZ' a then (eval a * 2 ^ s) mod Bn (length a) else 0.
Proof. exact (shl_vartime_correct a s). Qed.

Theorem boxed_shr_vartime_correct a s : wf a -> 0 <= s ->
  let r := boxed_shr_vartime_into a s in
  snd r = choice_of_bool (s <? bitsZ' a) /\ wf (fst r) /\ length (fst r) = length a /\
  eval (fst r) = if s <? bitsZ' a then eval a / 2 ^ s else 0.
Proof. rewrite boxed_shr_vartime_into_eq. exact (shr_vartime_correct a s). Qed.
