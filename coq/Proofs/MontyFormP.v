(** C08 proofs, part 4: one operation on values in Montgomery form.
    [repr m a v] : the limb list a is the canonical (< m) Montgomery form of the residue v, eval a = v * R mod m.
    Every operation of the fixed-width forms (MontyForm / ConstMontyForm) and of BoxedMontyForm maps representatives
    to the representative of the Z/mZ result ([backend_ok]); the parameter constructors produce the defined values. *)
From CB Require Import Model.Limbs Model.AddSub Model.Mul Model.Div Model.ModArith Model.Monty
  Proofs.WordP Proofs.LimbsP Proofs.AddSubP Proofs.ModArithP Proofs.MulApiP Proofs.CmpP
  Proofs.MontyRedP Proofs.MontyAmmP Proofs.MontyNumP.
From Coq Require Import ZArith Znumtheory Lia List Bool.
Open Scope Z_scope.

Definition canon (m a : list Z) : Prop := wf a /\ length a = length m /\ 0 <= eval a < eval m.
Definition repr (m a : list Z) (v : Z) : Prop :=
  canon m a /\ 0 <= v < eval m /\ eval a = (v * Bn (length m)) mod eval m.

(** what a representation has to provide; [be_select] is applied to the low bit of the route word *)
Record backend_ok (m : list Z) (be : backend) : Prop := {
  ok_new : forall x, wf x -> length x = length m -> repr m (be_new be x) (eval x mod eval m);
  ok_retrieve : forall a v, repr m a v -> be_retrieve be a = to_limbs (length m) v;
  ok_mul : forall a b va vb, repr m a va -> repr m b vb -> repr m (be_mul be a b) ((va * vb) mod eval m);
  ok_square : forall a va, repr m a va -> repr m (be_square be a) ((va * va) mod eval m);
  ok_sub_assign : forall a b va vb, repr m a va -> repr m b vb -> repr m (be_sub_assign be a b) ((va - vb) mod eval m);
  ok_half : forall a va, repr m a va -> repr m (be_half be a) (half_mod (eval m) va);
  ok_select : forall c a b va vb, repr m a va -> repr m b vb -> repr m (be_select be c a b) (if c =? 0 then va else vb)
}.

Lemma hd_eval_mod l : wf l -> hd 0 l = eval l mod B.
Proof.
  intros H. rewrite (eval_hd_tl l). pose proof B_pos. rewrite Z.mul_comm, Z.mod_add by lia.
  symmetry. apply Z.mod_small. apply (wf_hd l H).
Qed.
Lemma B_even : B mod 2 = 0. Proof. rewrite B_val. reflexivity. Qed.
Lemma hd_parity l : wf l -> hd 0 l mod 2 = eval l mod 2.
Proof.
  intros H. rewrite (eval_hd_tl l). rewrite (Zplus_mod (hd 0 l)), Zmult_mod, B_even, Z.mul_0_l, Zmod_0_l, Z.add_0_r, Z.mod_mod by lia.
  reflexivity.
Qed.
Lemma hd_odd l : wf l -> Z.odd (hd 0 l) = Z.odd (eval l).
Proof.
  intros H. pose proof (hd_parity l H) as E. rewrite !Zmod_odd in E.
  destruct (Z.odd (hd 0 l)), (Z.odd (eval l)); try reflexivity; discriminate.
Qed.
Lemma land_1 x : Z.land x 1 = x mod 2.
Proof. change 1 with (Z.ones 1) at 1. rewrite Z.land_ones by lia. reflexivity. Qed.
Lemma Bn_even n : n <> 0%nat -> Bn n = 2 * top_bit n.
Proof.
  intros Hn. unfold top_bit. destruct n as [|n']; [contradiction|]. rewrite Bn_S, B_half.
  replace (2 * 2 ^ 63 * Bn n') with ((2 ^ 63 * Bn n') * 2) by ring. rewrite Z.div_mul by lia. ring.
Qed.

Section Forms.
Variables (m : list Z) (k : Z).
Hypothesis Hm : wf m.
Hypothesis Hn : length m <> 0%nat.
Hypothesis Hodd : Z.odd (eval m) = true.
Hypothesis Hk : (hd 0 m * k + 1) mod B = 0.
Let n := length m.
Let N := Bn (length m).
Let M := eval m.
Ltac nrm := repeat match goal with
  | H : context [Bn n] |- _ => progress change (Bn n) with N in H
  | H : context [Bn (length m)] |- _ => progress change (Bn (length m)) with N in H
  | H : context [eval m] |- _ => progress change (eval m) with M in H
  | H : context [length m] |- _ => progress change (length m) with n in H
  end; try change (Bn n) with N; try change (Bn (length m)) with N; try change (eval m) with M;
  try change (length m) with n.

Lemma M_pos : 0 < M.
Proof.
  pose proof (eval_nonneg m Hm) as H. fold M in H. destruct (Z.eq_dec M 0) as [E|]; [|lia].
  subst M. rewrite E in Hodd. discriminate.
Qed.
Lemma M_lt_N : M < N.
Proof. pose proof (eval_bounds m Hm). nrm. lia. Qed.
Lemma N_pos : 0 < N. Proof. apply Bn_pos. Qed.
Lemma rp_MN : rel_prime M N. Proof. apply odd_rel_prime_Bn. exact Hodd. Qed.
Lemma rp_M2 : rel_prime M 2. Proof. apply odd_rel_prime_2. exact Hodd. Qed.

(** from a congruence to a representation *)
Lemma repr_intro a v : canon m a -> eval a mod M = (v * N) mod M -> repr m a (v mod M).
Proof.
  intros Hc E. pose proof M_pos. split; [assumption|]. split; [apply Z.mod_pos_bound; assumption|].
  destruct Hc as (_ & _ & Hb). nrm. rewrite Zmult_mod_idemp_l. rewrite <- E. symmetry. apply Z.mod_small. assumption.
Qed.
Lemma repr_small a v : repr m a v -> v mod M = v.
Proof. intros (_ & Hv & _). apply Z.mod_small. exact Hv. Qed.
Lemma repr_canon a v : repr m a v -> canon m a. Proof. intros H. apply H. Qed.

(** a canonical r with r * R = a * b (mod m) represents the product *)
Lemma mul_repr r a b va vb : repr m a va -> repr m b vb -> canon m r ->
  (eval r * N) mod M = (eval a * eval b) mod M -> repr m r ((va * vb) mod M).
Proof.
  intros (Ca & Hva & Ea) (Cb & Hvb & Eb) Cr E. pose proof M_pos. apply repr_intro; [assumption|].
  apply (cancel_mod_r N M); [assumption | apply rp_MN|]. rewrite E. nrm. rewrite Ea, Eb, <- Zmult_mod. f_equal. ring.
Qed.
Lemma new_repr r x r2 : canon m r -> eval r2 = (N * N) mod M ->
  (eval r * N) mod M = (eval x * eval r2) mod M -> repr m r (eval x mod M).
Proof.
  intros Cr E2 E. pose proof M_pos. apply repr_intro; [assumption|].
  apply (cancel_mod_r N M); [assumption | apply rp_MN|]. rewrite E, E2, Zmult_mod_idemp_r. f_equal. ring.
Qed.
Lemma retrieve_val r a v : repr m a v -> 0 <= eval r < M -> (eval r * N) mod M = eval a mod M -> eval r = v.
Proof.
  intros (Ca & Hv & Ea) Hr E. pose proof M_pos. apply (residue_unique M); try assumption.
  apply (cancel_mod_r N M); [assumption | apply rp_MN|]. rewrite E. nrm. rewrite Ea. apply Z.mod_mod. lia.
Qed.
Lemma limbs_of_value r v : wf r -> length r = n -> eval r = v -> 0 <= v < M -> r = to_limbs n v.
Proof.
  intros Hw Hl E Hv. apply to_limbs_unique; try assumption. rewrite E. symmetry. apply Z.mod_small.
  pose proof M_lt_N. nrm. lia.
Qed.

(** additive operations (C07 lemmas) on representatives *)
Lemma add_repr a b va vb : repr m a va -> repr m b vb -> repr m (add_mod a b m) ((va + vb) mod M).
Proof.
  intros (Ca & Hva & Ea) (Cb & Hvb & Eb). destruct Ca as (Wa & La & Ba). destruct Cb as (Wb & Lb & Bb). pose proof M_pos.
  destruct (add_mod_correct a b m Wa Wb Hm ltac:(lia) ltac:(lia) ltac:(lia) ltac:(lia)) as (He & Hw & Hl).
  apply repr_intro.
  - split; [assumption|]. split; [lia|]. rewrite He. apply Z.mod_pos_bound. assumption.
  - rewrite He. nrm. rewrite Z.mod_mod by lia. rewrite Ea, Eb, <- Zplus_mod. f_equal. ring.
Qed.
Lemma sub_repr a b va vb : repr m a va -> repr m b vb -> repr m (sub_mod a b m) ((va - vb) mod M).
Proof.
  intros (Ca & Hva & Ea) (Cb & Hvb & Eb). destruct Ca as (Wa & La & Ba). destruct Cb as (Wb & Lb & Bb). pose proof M_pos.
  destruct (sub_mod_correct a b m Wa Wb Hm ltac:(lia) ltac:(lia) ltac:(lia) ltac:(lia)) as (He & Hw & Hl).
  apply repr_intro.
  - split; [assumption|]. split; [lia|]. rewrite He. apply Z.mod_pos_bound. assumption.
  - rewrite He. nrm. rewrite Z.mod_mod by lia. rewrite Ea, Eb, <- Zminus_mod. f_equal. ring.
Qed.
Lemma neg_repr a va : repr m a va -> repr m (neg_mod a m) ((- va) mod M).
Proof.
  intros (Ca & Hva & Ea). destruct Ca as (Wa & La & Ba). pose proof M_pos.
  destruct (neg_mod_correct a m Wa Hm ltac:(lia) ltac:(lia)) as (He & Hw & Hl).
  apply repr_intro.
  - split; [assumption|]. split; [lia|]. rewrite He. apply Z.mod_pos_bound. assumption.
  - rewrite He. nrm. rewrite Z.mod_mod by lia. rewrite Ea.
    replace (- ((va * N) mod M)) with (0 - (va * N) mod M) by lia.
    rewrite <- (Z.mod_0_l M) at 1 by lia. rewrite <- Zminus_mod. f_equal. ring.
Qed.
Lemma double_repr a va : repr m a va -> repr m (double_mod a m) ((2 * va) mod M).
Proof.
  intros (Ca & Hva & Ea). destruct Ca as (Wa & La & Ba). pose proof M_pos.
  destruct (double_mod_correct a m Wa Hm ltac:(lia) ltac:(lia)) as (He & Hw & Hl).
  apply repr_intro.
  - split; [assumption|]. split; [lia|]. rewrite He. apply Z.mod_pos_bound. assumption.
  - rewrite He. nrm. rewrite Z.mod_mod by lia. rewrite Ea, Zmult_mod_idemp_r. f_equal. ring.
Qed.

(** halving: any canonical h with 2h = a (mod m) represents half of the value *)
Lemma half_repr h a va : repr m a va -> canon m h -> eval h = half_mod M (eval a) -> repr m h (half_mod M va).
Proof.
  intros (Ca & Hva & Ea) Ch Eh. pose proof M_pos as HM. destruct Ca as (Wa & La & Ba). nrm.
  destruct (half_mod_correct M va Hodd HM Hva) as (Hb & _).
  rewrite <- (Z.mod_small (half_mod M va) M) by assumption. apply repr_intro; [assumption|].
  apply (cancel_mod 2 M); [assumption | apply rp_M2|].
  rewrite Eh, (half_mod_congr M (eval a) Hodd HM Ba).
  replace (2 * (half_mod M va * N)) with ((2 * half_mod M va) * N) by ring.
  rewrite Zmult_mod, (half_mod_congr M va Hodd HM Hva), <- Zmult_mod. rewrite Ea. apply Z.mod_mod. lia.
Qed.

(* ---------------- fixed width ---------------- *)
Lemma fixed_mul_canon a b : wf a -> wf b -> length a = n -> length b = n -> eval a * eval b < M * N ->
  let r := mul_montgomery_form a b m k in canon m r /\ (eval r * N) mod M = (eval a * eval b) mod M.
Proof.
  intros Wa Wb La Lb HT. cbv zeta. unfold mul_montgomery_form.
  destruct (uint_split_mul a b) as [lo hi] eqn:E.
  destruct (uint_split_mul_eval a b lo hi Wa Wb E) as (He & Wlo & Whi & Llo & Lhi).
  rewrite La in He. nrm.
  destruct (mont_red_correct lo hi m k Wlo Whi Hm ltac:(lia) ltac:(lia) Hn Hk) as (Wr & Lr & Br & Er).
  { nrm. lia. }
  nrm. split; [split; [assumption | split; [assumption | exact Br]]|]. rewrite Er, He. reflexivity.
Qed.
Lemma fixed_square_canon a : wf a -> length a = n -> eval a * eval a < M * N ->
  let r := square_montgomery_form a m k in canon m r /\ (eval r * N) mod M = (eval a * eval a) mod M.
Proof.
  intros Wa La HT. cbv zeta. unfold square_montgomery_form.
  destruct (uint_square_wide a) as [lo hi] eqn:E.
  destruct (uint_square_wide_eval a lo hi Wa E) as (He & Wlo & Whi & Llo & Lhi).
  rewrite La in He. nrm.
  destruct (mont_red_correct lo hi m k Wlo Whi Hm ltac:(lia) ltac:(lia) Hn Hk) as (Wr & Lr & Br & Er).
  { nrm. lia. }
  nrm. split; [split; [assumption | split; [assumption | exact Br]]|]. rewrite Er, He. reflexivity.
Qed.
Lemma prod_lt a b : 0 <= a < M -> 0 <= b < N -> a * b < M * N.
Proof. intros Ha Hb. pose proof M_pos. pose proof N_pos. assert (a * b <= (M - 1) * (N - 1)) by (apply Z.mul_le_mono_nonneg; lia). nia. Qed.

Lemma fixed_retrieve_canon a : canon m a ->
  let r := monty_retrieve a m k in wf r /\ length r = n /\ 0 <= eval r < M /\ (eval r * N) mod M = eval a mod M.
Proof.
  intros (Wa & La & Ba). cbv zeta. unfold monty_retrieve. pose proof M_pos. pose proof N_pos. nrm.
  destruct (mont_red_correct a (zeros (length a)) m k Wa (wf_zeros _) Hm La ltac:(rewrite length_zeros; exact La) Hn Hk) as (Wr & Lr & Br & Er).
  { rewrite eval_zeros. nrm. nia. }
  rewrite eval_zeros in Er. nrm. repeat split; try assumption; try lia. rewrite Er. f_equal. lia.
Qed.

(** div_by_2: adc, two selects, shr1, set_bit(BITS-1) compute (a even ? a/2 : (a+m)/2) *)
Lemma div_by_2_val a : canon m a ->
  let h := div_by_2 a m in canon m h /\ eval h = half_mod M (eval a).
Proof.
  intros (Wa & La & Ba). cbv zeta. unfold div_by_2. pose proof M_pos as HM. pose proof M_lt_N as HMN. nrm.
  destruct (half_mod_correct M (eval a) Hodd HM Ba) as (Hb & Hh).
  rewrite land_1, (hd_parity a Wa).
  pose proof (Z.mod_pos_bound (eval a) 2 ltac:(lia)) as Hp.
  rewrite from_word_lsb_01 by lia.
  destruct (adc_limbs a m 0) as [if_odd carry] eqn:E.
  pose proof (adc_limbs_correct a m 0 if_odd carry Wa Hm La is_word_0 E) as (He & Wi & Li & Hco & Hsm).
  specialize (Hsm ltac:(lia)). unfold is_word in Hco. rewrite La in He. nrm.
  rewrite select_word_choice by (try apply is_word_0; unfold is_word; pose proof B_gt4; lia).
  rewrite select_limbs_choice by (auto; lia).
  pose proof (Bn_even (length m) Hn) as HN2. nrm.
  assert (Hval : eval (if eval a mod 2 =? 1 then if_odd else a) / 2 +
                 (if (if eval a mod 2 =? 1 then carry else 0) =? 0 then 0 else top_bit (length a)) = half_mod M (eval a)).
  { rewrite La. unfold half_mod. rewrite Zmod_even in *. destruct (Z.even (eval a)) eqn:Ev.
    - change (0 =? 1) with false. cbv iota. change (0 =? 0) with true. cbv iota. lia.
    - change (1 =? 1) with true. cbv iota.
      pose proof (Zmod_even (eval a + M)) as Hpe. rewrite Z.even_add, Ev, <- Z.negb_odd in Hpe.
      change (eval m) with M in Hodd. rewrite Hodd in Hpe. cbn in Hpe.
      pose proof (Z.div_mod (eval a + M) 2 ltac:(lia)) as D1.
      assert (carry = 0 \/ carry = 1) as [-> | ->] by lia.
      + change (0 =? 0) with true. cbv iota. rewrite Z.add_0_r. f_equal. lia.
      + change (1 =? 0) with false. cbv iota.
        pose proof (Z.div_mod (eval if_odd) 2 ltac:(lia)) as D2.
        assert (eval if_odd mod 2 = 0).
        { replace (eval if_odd) with (eval a + M + (- top_bit n) * 2) by lia. rewrite Z.mod_add by lia. exact Hpe. }
        apply Z.mul_cancel_l with (p := 2); lia. }
  rewrite Hval. pose proof (eval_to_limbs (length a) (half_mod M (eval a))) as Et.
  rewrite La in *. nrm. rewrite Z.mod_small in Et by lia.
  split; [|exact Et]. split; [apply wf_to_limbs|]. split; [apply length_to_limbs|]. rewrite Et. exact Hb.
Qed.

Theorem backend_fixed_ok p : mp_m p = m -> mp_k p = k ->
  canon m (mp_r2 p) -> eval (mp_r2 p) = (N * N) mod M -> backend_ok m (backend_fixed p).
Proof.
  intros Em Ek C2 E2. pose proof M_pos as HM. pose proof M_lt_N as HMN.
  constructor; cbn [backend_fixed be_new be_retrieve be_mul be_square be_sub_assign be_half be_select]; rewrite ?Em, ?Ek.
  - intros x Wx Lx. unfold monty_new. destruct C2 as (W2 & L2 & B2).
    destruct (fixed_mul_canon x (mp_r2 p) Wx W2 Lx L2) as (Cr & Er).
    { rewrite Z.mul_comm. apply prod_lt; [exact B2|]. pose proof (eval_bounds x Wx) as Bx. rewrite Lx in Bx. exact Bx. }
    apply (new_repr _ x (mp_r2 p)); assumption.
  - intros a v Ha. destruct (fixed_retrieve_canon a (repr_canon a v Ha)) as (Wr & Lr & Br & Er).
    apply limbs_of_value; try assumption; [|apply Ha]. apply (retrieve_val _ a v); assumption.
  - intros a b va vb Ha Hb. pose proof Ha as (Ca & _). pose proof Hb as (Cb & _).
    destruct Ca as (Wa & La & Ba). destruct Cb as (Wb & Lb & Bb).
    destruct (fixed_mul_canon a b Wa Wb La Lb) as (Cr & Er). { apply prod_lt; [exact Ba | nrm; lia]. }
    apply (mul_repr _ a b); assumption.
  - intros a va Ha. pose proof Ha as (Ca & _). destruct Ca as (Wa & La & Ba).
    destruct (fixed_square_canon a Wa La) as (Cr & Er). { apply prod_lt; [exact Ba | nrm; lia]. }
    apply (mul_repr _ a a); assumption.
  - intros a b va vb Ha Hb. apply sub_repr; assumption.
  - intros a va Ha. destruct (div_by_2_val a (repr_canon a va Ha)) as (Ch & Eh). apply (half_repr _ a); assumption.
  - intros c a b va vb Ha Hb. pose proof Ha as ((Wa & La & _) & _). pose proof Hb as ((Wb & Lb & _) & _).
    rewrite select_limbs_choice by (auto; lia). destruct (c =? 0); assumption.
Qed.

(* ---------------- boxed ---------------- *)
Lemma boxed_div_by_2_val a : canon m a ->
  let h := boxed_div_by_2 a m in canon m h /\ eval h = half_mod M (eval a).
Proof.
  intros (Wa & La & Ba). cbv zeta. unfold boxed_div_by_2. pose proof M_pos as HM. pose proof M_lt_N as HMN. nrm.
  destruct (half_mod_correct M (eval a) Hodd HM Ba) as (Hb & Hh).
  unfold conditional_adc_assign.
  replace (resize (length a) m) with m by (rewrite La; symmetry; apply resize_same).
  set (odd := Z.odd (hd 0 a)).
  assert (Hbm : is_borrow (if odd then MAXW else 0)) by (destruct odd; [right | left]; reflexivity).
  pose proof (bitand_limb_borrow m _ Hm Hbm) as (Hpe & Hpw & Hpl).
  destruct (adc_limbs a (bitand_limb m (if odd then MAXW else 0)) 0) as [s carry] eqn:E.
  pose proof (adc_limbs_correct a _ 0 s carry Wa Hpw ltac:(lia) is_word_0 E) as (He & Ws & Ls & Hco & Hsm).
  specialize (Hsm ltac:(lia)). unfold is_word in Hco. rewrite La, Hpe in He. nrm.
  assert (Hw1 : wand carry 1 = carry).
  { assert (carry = 0 \/ carry = 1) as [-> | ->] by lia; reflexivity. }
  rewrite Hw1.
  assert (Hbo : bout (if odd then MAXW else 0) = if odd then 1 else 0) by (destruct odd; [apply bout_MAXW | apply bout_0]).
  rewrite Hbo in He.
  assert (Hodd_a : odd = Z.odd (eval a)) by (apply hd_odd; assumption).
  pose proof (Bn_even (length m) Hn) as HN2. nrm.
  assert (Hval : eval s / 2 + (if carry =? 0 then 0 else top_bit (length a)) = half_mod M (eval a)).
  { rewrite La. unfold half_mod. rewrite <- Z.negb_odd, <- Hodd_a. destruct odd; cbn [negb].
    - pose proof (Zmod_odd (eval a + M)) as Hpe2. rewrite Z.odd_add, <- Hodd_a in Hpe2.
      change (eval m) with M in Hodd. rewrite Hodd in Hpe2. cbn in Hpe2.
      pose proof (Z.div_mod (eval a + M) 2 ltac:(lia)) as D1.
      assert (carry = 0 \/ carry = 1) as [-> | ->] by lia.
      + change (0 =? 0) with true. cbv iota. rewrite Z.add_0_r. f_equal. lia.
      + change (1 =? 0) with false. cbv iota.
        pose proof (Z.div_mod (eval s) 2 ltac:(lia)) as D2.
        assert (eval s mod 2 = 0).
        { replace (eval s) with (eval a + M + (- top_bit n) * 2) by lia. rewrite Z.mod_add by lia. exact Hpe2. }
        apply Z.mul_cancel_l with (p := 2); lia.
    - pose proof (eval_nonneg s Ws). assert (carry = 0 \/ carry = 1) as [-> | ->] by lia; [|lia].
      change (0 =? 0) with true. cbv iota. rewrite Z.add_0_r. f_equal. lia. }
  rewrite Hval. pose proof (eval_to_limbs (length a) (half_mod M (eval a))) as Et.
  rewrite La in *. nrm. rewrite Z.mod_small in Et by lia.
  split; [|exact Et]. split; [apply wf_to_limbs|]. split; [apply length_to_limbs|]. rewrite Et. exact Hb.
Qed.

Theorem backend_boxed_ok p : mp_m p = m -> mp_k p = k ->
  canon m (mp_r2 p) -> eval (mp_r2 p) = (N * N) mod M -> backend_ok m (backend_boxed p).
Proof.
  intros Em Ek C2 E2. pose proof M_pos as HM. pose proof M_lt_N as HMN.
  constructor; cbn [backend_boxed be_new be_retrieve be_mul be_square be_sub_assign be_half be_select]; rewrite ?Em, ?Ek.
  - intros x Wx Lx. unfold boxed_monty_new. destruct C2 as (W2 & L2 & B2).
    destruct (boxed_monty_mul_correct m k Hm Hn Hk x (mp_r2 p) Wx W2 Lx L2 HM ltac:(right; nrm; lia)) as (Wr & Lr & Br & Er).
    apply (new_repr _ x (mp_r2 p)); try assumption. split; [assumption | split; assumption].
  - intros a v Ha. pose proof Ha as ((Wa & La & Ba) & _). unfold boxed_monty_retrieve.
    destruct (amm_by_one_reduced m k Hm Hn Hk a Wa La ltac:(nrm; lia)) as (Wr & Lr & Br & Er).
    apply limbs_of_value; try assumption; [|apply Ha]. apply (retrieve_val _ a v); assumption.
  - intros a b va vb Ha Hb. pose proof Ha as ((Wa & La & Ba) & _). pose proof Hb as ((Wb & Lb & Bb) & _).
    destruct (boxed_monty_mul_correct m k Hm Hn Hk a b Wa Wb La Lb HM ltac:(left; nrm; lia)) as (Wr & Lr & Br & Er).
    apply (mul_repr _ a b); try assumption. split; [assumption | split; assumption].
  - intros a va Ha. pose proof Ha as ((Wa & La & Ba) & _).
    change (boxed_monty_square a m k) with (boxed_monty_mul a a m k).
    destruct (boxed_monty_mul_correct m k Hm Hn Hk a a Wa Wa La La HM ltac:(left; nrm; lia)) as (Wr & Lr & Br & Er).
    apply (mul_repr _ a a); try assumption. split; [assumption | split; assumption].
  - intros a b va vb Ha Hb. pose proof Ha as ((Wa & La & Ba) & Hva & Ea). pose proof Hb as ((Wb & Lb & Bb) & Hvb & Eb).
    destruct (boxed_sub_assign_mod_with_carry_correct m Hm Hn a b Wa Wb La Lb ltac:(nrm; lia)) as (Wr & Lr & Er).
    apply repr_intro.
    + split; [assumption|]. split; [assumption|]. rewrite Er. apply Z.mod_pos_bound. assumption.
    + rewrite Er. nrm. rewrite Z.mod_mod by lia. rewrite Ea, Eb, <- Zminus_mod. f_equal. ring.
  - intros a va Ha. destruct (boxed_div_by_2_val a (repr_canon a va Ha)) as (Ch & Eh). apply (half_repr _ a); assumption.
  - intros c a b va vb Ha Hb. destruct (c =? 0); assumption.
Qed.

(* ---------------- parameters ---------------- *)
Lemma params_one_correct : canon m (params_one m) /\ eval (params_one m) = N mod M.
Proof.
  pose proof M_pos as HM. pose proof M_lt_N as HMN. unfold params_one.
  destruct (wrapping_neg_facts m Hm) as (_ & _ & He). rewrite He. nrm.
  assert (E1 : (- M) mod N = N - M).
  { symmetry. apply (Z.mod_unique_pos _ N (-1)); lia. }
  rewrite E1. assert (E2 : (N - M) mod M = N mod M).
  { replace (N - M) with (N + (-1) * M) by ring. apply Z.mod_add. lia. }
  rewrite E2. pose proof (Z.mod_pos_bound N M HM).
  assert (Et : eval (to_limbs n (N mod M)) = N mod M) by (rewrite eval_to_limbs; apply Z.mod_small; nrm; lia).
  split; [|exact Et]. split; [apply wf_to_limbs|]. split; [apply length_to_limbs|]. rewrite Et. nrm. lia.
Qed.
Lemma params_r2_correct one : eval one = N mod M ->
  canon m (params_r2 one m) /\ eval (params_r2 one m) = (N * N) mod M.
Proof.
  intros E1. pose proof M_pos as HM. pose proof M_lt_N as HMN. unfold params_r2. rewrite E1, <- Zmult_mod. nrm.
  pose proof (Z.mod_pos_bound (N * N) M HM).
  assert (Et : eval (to_limbs n ((N * N) mod M)) = (N * N) mod M) by (rewrite eval_to_limbs; apply Z.mod_small; nrm; lia).
  split; [|exact Et]. split; [apply wf_to_limbs|]. split; [apply length_to_limbs|]. rewrite Et. nrm. lia.
Qed.
(** a canonical r with r * R = r2 * r2 (mod m) is R^3 mod m *)
Lemma r3_value r r2 : canon m r -> eval r2 = (N * N) mod M -> (eval r * N) mod M = (eval r2 * eval r2) mod M ->
  r = to_limbs n ((N * N * N) mod M).
Proof.
  intros (Wr & Lr & Br) E2 E. pose proof M_pos as HM. pose proof M_lt_N as HMN.
  apply limbs_of_value; try assumption; [|apply Z.mod_pos_bound; assumption].
  rewrite <- (Z.mod_small (eval r) M) by (nrm; lia).
  apply (cancel_mod_r N M); [assumption | apply rp_MN|]. rewrite E, E2, <- Zmult_mod. f_equal. ring.
Qed.
End Forms.

(** the derived word, stated on [mod_neg_inv_of] (never let conversion unfold the 64-step loop) *)
Lemma mod_neg_inv_of_ok m : Z.odd (hd 0 m) = true -> is_word (hd 0 m) ->
  is_word (mod_neg_inv_of m) /\ (hd 0 m * mod_neg_inv_of m + 1) mod B = 0.
Proof. intros Ho Hh. unfold mod_neg_inv_of. apply mod_neg_inv_of_correct; assumption. Qed.

(** the parameter sets of the constructors equal their definitions *)
Theorem params_fixed_correct m : wf m -> length m <> 0%nat -> Z.odd (eval m) = true ->
  let n := length m in let N := Bn n in let M := eval m in
  params_fixed m = {| mp_m := m; mp_one := to_limbs n (N mod M); mp_r2 := to_limbs n ((N * N) mod M);
                      mp_r3 := to_limbs n ((N * N * N) mod M); mp_k := spec_neg_inv (M mod B);
                      mp_lz := Z.min (64 * Z.of_nat n - mt_bitlen M) 63 |}
  /\ (hd 0 m * mp_k (params_fixed m) + 1) mod B = 0.
Proof.
  intros Hm Hn Hodd. cbv zeta. unfold params_fixed.
  pose proof (wf_hd m Hm) as Hh. pose proof (hd_odd m Hm) as Ho. rewrite Hodd in Ho.
  destruct (mod_neg_inv_of_ok m Ho Hh) as (Hkw & Hk).
  destruct (params_one_correct m Hm Hn Hodd) as (C1 & E1).
  destruct (params_r2_correct m Hm Hn Hodd (params_one m) E1) as (C2 & E2).
  pose proof C2 as (W2 & L2 & B2).
  destruct (fixed_square_canon m (mod_neg_inv_of m) Hm Hn Hk (params_r2 (params_one m) m) W2 L2) as (C3 & E3).
  { apply (prod_lt m Hm Hn Hodd); [exact B2|]. pose proof (M_lt_N m Hm Hn). lia. }
  cbn [mp_k]. split; [|exact Hk]. f_equal.
  - destruct C1 as (W1 & L1 & B1). apply (limbs_of_value m Hm); try assumption. rewrite <- E1. exact B1.
  - apply (limbs_of_value m Hm); try assumption. rewrite <- E2. exact B2.
  - apply (r3_value m Hm Hn Hodd _ (params_r2 (params_one m) m)); assumption.
  - unfold mod_neg_inv_of. rewrite <- (hd_eval_mod m Hm). apply neg_inv_model_eq_spec; assumption.
  - unfold mod_leading_zeros_of, lenZ. destruct (_ <? 63) eqn:E; [apply Z.ltb_lt in E | apply Z.ltb_ge in E]; lia.
Qed.

Theorem params_boxed_correct m : wf m -> length m <> 0%nat -> Z.odd (eval m) = true ->
  let n := length m in let N := Bn n in let M := eval m in
  params_boxed m = {| mp_m := m; mp_one := to_limbs n (N mod M); mp_r2 := to_limbs n ((N * N) mod M);
                      mp_r3 := to_limbs n ((N * N * N) mod M); mp_k := spec_neg_inv (M mod B);
                      mp_lz := Z.min (64 * Z.of_nat n - mt_bitlen M) 63 |}
  /\ (hd 0 m * mp_k (params_boxed m) + 1) mod B = 0.
Proof.
  intros Hm Hn Hodd. cbv zeta. unfold params_boxed.
  pose proof (wf_hd m Hm) as Hh. pose proof (hd_odd m Hm) as Ho. rewrite Hodd in Ho.
  destruct (mod_neg_inv_of_ok m Ho Hh) as (Hkw & Hk).
  destruct (params_one_correct m Hm Hn Hodd) as (C1 & E1).
  destruct (params_r2_correct m Hm Hn Hodd (params_one m) E1) as (C2 & E2).
  pose proof C2 as (W2 & L2 & B2). pose proof (M_pos m Hm Hn Hodd) as HM.
  set (r2 := params_r2 (params_one m) m) in *.
  change (boxed_monty_square r2 m (mod_neg_inv_of m)) with (boxed_monty_mul r2 r2 m (mod_neg_inv_of m)).
  destruct (boxed_monty_mul_correct m (mod_neg_inv_of m) Hm Hn Hk r2 r2 W2 W2 L2 L2 HM ltac:(left; lia)) as (W3 & L3 & B3 & E3).
  cbn [mp_k]. split; [|exact Hk]. f_equal.
  - destruct C1 as (W1 & L1 & B1). apply (limbs_of_value m Hm); try assumption. rewrite <- E1. exact B1.
  - apply (limbs_of_value m Hm); try assumption. rewrite <- E2. exact B2.
  - apply (r3_value m Hm Hn Hodd _ r2); try assumption. split; [assumption | split; assumption].
  - unfold mod_neg_inv_of. rewrite <- (hd_eval_mod m Hm). apply neg_inv_model_eq_spec; assumption.
  - unfold mod_leading_zeros_of, lenZ. destruct (_ <? 63) eqn:E; [apply Z.ltb_lt in E | apply Z.ltb_ge in E]; lia.
Qed.

(** F6: the expression of the unrepaired tree, Uint::MAX.rem(m).wrapping_add(ONE), is not R mod m at m = 1 *)
Theorem params_one_head_refuted :
  exists m, wf m /\ Z.odd (eval m) = true /\ eval (params_one_head m) <> Bn (length m) mod eval m
            /\ ~ eval (params_one_head m) < eval m.
Proof.
  exists [1]. split; [constructor; [unfold is_word; rewrite B_val; lia | constructor]|].
  split; [reflexivity|]. split; vm_compute; intro H; discriminate H.
Qed.
