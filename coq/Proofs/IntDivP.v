(** C14 proofs: signed division.  The unsigned division is the value-level [ux_div_rem]
    (Z.div / Z.modulo on eval); what is proved here is that the sign handling, the floor adjustment
    and the fit test of the Int code turn it into Z.quot / Z.rem (truncating) resp. Z.div / Z.modulo
    (flooring) of the signed values, for every width (also mixed). *)
From CB Require Import Model.Limbs Model.AddSub Model.IntArith Model.IntDiv
  Proofs.WordP Proofs.LimbsP Proofs.AddSubP Proofs.IntArithP.
From Coq Require Import ZArith Lia List Bool.
Open Scope Z_scope.

(* ------------------------------------------------------------------ integer facts *)
Lemma quot_sign N D : D <> 0 ->
  (if xorb (N <? 0) (D <? 0) then - (Z.abs N / Z.abs D) else Z.abs N / Z.abs D) = Z.quot N D.
Proof.
  intros HD. rewrite Z.quot_div by assumption.
  destruct (Z.ltb_spec N 0), (Z.ltb_spec D 0); cbn [xorb].
  - rewrite (Z.sgn_neg N), (Z.sgn_neg D) by lia. lia.
  - rewrite (Z.sgn_neg N), (Z.sgn_pos D) by lia. lia.
  - destruct (Z.eq_dec N 0) as [->|]; [cbn [Z.sgn Z.abs Z.ltb Z.compare]; rewrite ?Z.div_0_l by lia; lia|].
    rewrite (Z.sgn_pos N), (Z.sgn_neg D) by lia. lia.
  - destruct (Z.eq_dec N 0) as [->|]; [cbn [Z.sgn Z.abs Z.ltb Z.compare]; rewrite ?Z.div_0_l by lia; lia|].
    rewrite (Z.sgn_pos N), (Z.sgn_pos D) by lia. lia.
Qed.

Lemma rem_sign N D : D <> 0 ->
  (if N <? 0 then - (Z.abs N mod Z.abs D) else Z.abs N mod Z.abs D) = Z.rem N D.
Proof.
  intros HD. rewrite Z.rem_mod by assumption.
  destruct (Z.ltb_spec N 0).
  - rewrite (Z.sgn_neg N) by lia. lia.
  - destruct (Z.eq_dec N 0) as [->|]; [cbn [Z.sgn Z.abs Z.ltb Z.compare]; rewrite ?Z.mod_0_l by lia; lia|].
    rewrite (Z.sgn_pos N) by lia. lia.
Qed.

(* flooring quotient and remainder from the quotient / remainder of the magnitudes *)
Lemma floor_qr N D : D <> 0 ->
  let q0 := Z.abs N / Z.abs D in let r0 := Z.abs N mod Z.abs D in
  let opp := xorb (N <? 0) (D <? 0) in
  let m := negb (r0 =? 0) && opp in
  let q' := if m then q0 + 1 else q0 in
  let r' := if m then Z.abs D - r0 else r0 in
  (if opp then - q' else q') = N / D /\ (if D <? 0 then - r' else r') = N mod D.
Proof.
  intros HD q0 r0 opp m q' r'.
  assert (Hd : 0 < Z.abs D) by lia.
  pose proof (Z.div_mod (Z.abs N) (Z.abs D) ltac:(lia)) as Hdm. fold q0 r0 in Hdm.
  pose proof (Z.mod_pos_bound (Z.abs N) (Z.abs D) Hd) as Hr. fold r0 in Hr.
  assert (Huniq : forall q r, (0 <= r < D \/ D < r <= 0) -> N = D * q + r -> q = N / D /\ r = N mod D).
  { intros q r H1 H2. split; [apply (Z.div_unique N D q r) | apply (Z.mod_unique N D q r)]; assumption. }
  unfold q', r', m, opp.
  destruct (Z.ltb_spec N 0), (Z.ltb_spec D 0), (Z.eqb_spec r0 0); cbn [xorb negb andb];
    match goal with |- ?q = _ /\ ?r = _ => apply (Huniq q r) end; lia.
Qed.

Lemma quot_abs_le N D : D <> 0 -> Z.abs (Z.quot N D) <= Z.abs N.
Proof.
  intros HD. rewrite Z.quot_div by assumption. rewrite !Z.abs_mul.
  assert (0 <= Z.abs N / Z.abs D <= Z.abs N).
  { split; [apply Z.div_pos; lia|]. apply Z.div_le_upper_bound; [lia|].
    assert (1 * Z.abs N <= Z.abs D * Z.abs N) by (apply Z.mul_le_mono_nonneg_r; lia). lia. }
  rewrite (Z.abs_eq (Z.abs N / Z.abs D)) by lia.
  assert (Z.abs (Z.sgn N) <= 1) by (destruct (Z.sgn_spec N) as [[_ ->]|[[_ ->]|[_ ->]]]; cbn; lia).
  assert (Z.abs (Z.sgn D) <= 1) by (destruct (Z.sgn_spec D) as [[_ ->]|[[_ ->]|[_ ->]]]; cbn; lia).
  assert (0 <= Z.abs (Z.sgn N) * Z.abs (Z.sgn D) <= 1) by nia.
  nia.
Qed.

(* ------------------------------------------------------------------ helpers on encodings *)
Lemma nonempty_len (a : list Z) : a <> [] -> length a <> 0%nat.
Proof. destruct a; [congruence | discriminate]. Qed.

Lemma seval_nonzero_nonempty d : seval d <> 0 -> d <> [].
Proof. intros H ->. apply H. reflexivity. Qed.

Lemma abs_lt_Bn a : wf a -> 0 <= Z.abs (seval a) < Bn (length a).
Proof. intros H. apply abs_bound. assumption. Qed.

Lemma half_ge (a : list Z) : a <> [] -> 2 ^ 63 <= halfB (length a).
Proof.
  intros Hne. unfold halfB. pose proof (Bn_pos (pred (length a))). word_facts.
  assert (2 ^ 63 * 1 <= 2 ^ 63 * Bn (pred (length a))) by (apply Z.mul_le_mono_nonneg_l; lia). lia.
Qed.

(* q + 1 on an encoding *)
Lemma add_one_to_limbs n q : n <> 0%nat -> 0 <= q -> q + 1 < Bn n ->
  uint_wrapping_add (to_limbs n q) (one_limbs n) = to_limbs n (q + 1).
Proof.
  intros Hn Hq Hb. destruct (one_limbs_spec n Hn) as (E1 & W1 & L1).
  destruct (wrapping_add_spec (to_limbs n q) (one_limbs n) (wf_to_limbs n q) W1
              ltac:(rewrite length_to_limbs, L1; reflexivity)) as (He & Hw & Hl).
  rewrite length_to_limbs in *. apply to_limbs_unique; auto.
  rewrite He, E1, eval_to_limbs. rewrite (Z.mod_small q) by lia. reflexivity.
Qed.

Lemma sub_to_limbs d r : wf d -> 0 <= r <= eval d ->
  uint_wrapping_sub d (to_limbs (length d) r) = to_limbs (length d) (eval d - r).
Proof.
  intros Hd Hr. pose proof (eval_bounds d Hd).
  destruct (wrapping_sub_spec d (to_limbs (length d) r) Hd (wf_to_limbs _ r)
              ltac:(rewrite length_to_limbs; reflexivity)) as (He & Hw & Hl).
  apply to_limbs_unique; auto. rewrite He, eval_to_limbs. rewrite (Z.mod_small r) by lia. reflexivity.
Qed.

Lemma select_to_limbs n (m : bool) x y :
  select_limbs (choice_of_bool m) (to_limbs n x) (to_limbs n y) = to_limbs n (if m then y else x).
Proof.
  rewrite select_limbs_choice; auto using wf_to_limbs; [destruct m; reflexivity|].
  rewrite !length_to_limbs. reflexivity.
Qed.

Lemma neg_if_to_limbs n x (b : bool) : 0 <= x < Bn n ->
  int_wrapping_neg_if (to_limbs n x) (choice_of_bool b) = to_limbs_s n (if b then - x else x).
Proof.
  intros Hx. unfold int_wrapping_neg_if.
  rewrite <- (length_to_limbs n x) at 2. apply neg_if_encodes; [apply wf_to_limbs|].
  rewrite length_to_limbs. apply eval_to_limbs.
Qed.

Lemma new_from_abs_sign_to_limbs n x (b : bool) : 0 <= x < Bn n ->
  int_new_from_abs_sign (to_limbs n x) (choice_of_bool b) =
    if isp_fits n (if b then - x else x) then Some (to_limbs_s n (if b then - x else x)) else None.
Proof.
  intros Hx. pose proof (int_new_from_abs_sign_spec (to_limbs n x) b (wf_to_limbs n x)) as E. cbv zeta in E.
  rewrite length_to_limbs, eval_to_limbs, Z.mod_small in E by assumption. exact E.
Qed.

Lemma nz_is_zero d : wf d -> seval d <> 0 -> choice_to_bool (ux_is_zero d) = false.
Proof.
  intros Hd Hnz. rewrite ux_is_zero_spec, choice_to_of_bool by assumption. apply Z.eqb_neq.
  intros E. apply Hnz. unfold seval. rewrite E. pose proof (Bn_pos (length d)).
  replace (2 * 0 <? Bn (length d)) with true; [reflexivity|]. symmetry. apply Z.ltb_lt. lia.
Qed.

(* ------------------------------------------------------------------ truncating division by an Int *)
Section Trunc.
Variables n d : list Z.
Hypothesis Hn : wf n.
Hypothesis Hd : wf d.
Hypothesis Hnz : seval d <> 0.
Let N := seval n. Let D := seval d.

Lemma div_mag_bounds :
  0 <= Z.abs N / Z.abs D <= Z.abs N /\ 0 <= Z.abs N mod Z.abs D < Z.abs D.
Proof.
  assert (0 < Z.abs D) by (unfold D; lia). split; [split|].
  - apply Z.div_pos; lia.
  - apply Z.div_le_upper_bound; [lia|].
    assert (1 * Z.abs N <= Z.abs D * Z.abs N) by (apply Z.mul_le_mono_nonneg_r; lia). lia.
  - apply Z.mod_pos_bound. lia.
Qed.

Lemma int_checked_div_rem_spec :
  int_checked_div_rem n d =
    (if isp_fits (length n) (Z.quot N D) then Some (to_limbs_s (length n) (Z.quot N D)) else None,
     to_limbs_s (length d) (Z.rem N D)).
Proof.
  unfold int_checked_div_rem, int_div_rem_base. rewrite !int_abs_sign_spec by assumption.
  unfold ux_div_rem. rewrite !length_to_limbs, !eval_abs by assumption. fold N D.
  destruct div_mag_bounds as [Hq Hr]. pose proof (abs_lt_Bn n Hn) as Bn'. pose proof (abs_lt_Bn d Hd) as Bd'.
  fold N in Bn'. fold D in Bd'.
  rewrite cc_ne_bool.
  rewrite new_from_abs_sign_to_limbs by lia. rewrite neg_if_to_limbs by lia.
  rewrite quot_sign, rem_sign by assumption. reflexivity.
Qed.

Lemma int_rem_spec : int_rem n d = to_limbs_s (length d) (Z.rem N D).
Proof. unfold int_rem. rewrite int_checked_div_rem_spec. reflexivity. Qed.

Lemma int_checked_div_spec :
  int_checked_div n d =
    if isp_fits (length n) (Z.quot N D) then Some (to_limbs_s (length n) (Z.quot N D)) else None.
Proof.
  unfold int_checked_div, nz_and_then. rewrite (nz_is_zero d Hd Hnz), int_checked_div_rem_spec. reflexivity.
Qed.

(* the remainder always fits the divisor's width; the quotient fails to fit exactly for MIN / -1 *)
Lemma trunc_rem_fits : - Bn (length d) <= 2 * Z.rem N D < Bn (length d).
Proof.
  pose proof (seval_range d Hd) as Rd. fold D in Rd.
  assert (Z.abs (Z.rem N D) < Z.abs D) by (apply Z.rem_bound_abs; assumption). lia.
Qed.

Lemma trunc_quot_fits_iff : n <> [] ->
  (isp_fits (length n) (Z.quot N D) = false <-> (2 * N = - Bn (length n) /\ D = -1)).
Proof.
  intros Hne. destruct (Bn_half _ (nonempty_len n Hne)) as [HM HH].
  pose proof (seval_range n Hn) as Rn. fold N in Rn. rewrite HM in *.
  pose proof (quot_abs_le N D Hnz) as Hle.
  rewrite isp_fits_false. split.
  - intros Hbad.
    assert (Hq : Z.quot N D = halfB (length n)) by lia.
    assert (HN : N = - halfB (length n)) by lia.
    split; [lia|].
    (* |D| >= 2 would make the quotient too small *)
    pose proof (Z.quot_rem' N D) as Hqr.
    assert (Z.abs (Z.rem N D) < Z.abs D) by (apply Z.rem_bound_abs; assumption).
    destruct (Z.eq_dec D (-1)); [assumption|]. exfalso.
    set (r := Z.rem N D) in *.
    rewrite Hq, HN in Hqr. pose proof (half_ge n Hne) as Hh2. word_facts.
    set (h := halfB (length n)) in *.
    destruct (Z_lt_ge_dec D 0) as [Dneg|Dpos].
    + assert (D <= -2) by lia. set (k := - D - 1).
      assert (r = h * k) by (unfold k; lia).
      assert (2 * k <= h * k) by (apply Z.mul_le_mono_nonneg_r; unfold k; lia).
      unfold k in *. lia.
    + assert (D * 1 <= D * h) by (apply Z.mul_le_mono_nonneg_l; lia). lia.
  - intros [HN HD]. rewrite HD.
    assert (E : Z.quot N (-1) = - N).
    { change (-1) with (- (1)). rewrite Z.quot_opp_r, Z.quot_1_r by lia. reflexivity. }
    rewrite E. lia.
Qed.
End Trunc.

(* ------------------------------------------------------------------ flooring division by an Int *)
Section Floor.
Variables n d : list Z.
Hypothesis Hn : wf n.
Hypothesis Hd : wf d.
Hypothesis Hne : n <> [].
Hypothesis Hnz : seval d <> 0.
Let N := seval n. Let D := seval d.

(* quotient = floor(n / d); remainder = n mod d (sign of the divisor) *)
Lemma int_checked_div_rem_floor_spec :
  int_checked_div_rem_floor n d =
    (if isp_fits (length n) (N / D) then Some (to_limbs_s (length n) (N / D)) else None,
     to_limbs_s (length d) (N mod D)).
Proof.
  unfold int_checked_div_rem_floor. rewrite !int_abs_sign_spec by assumption.
  unfold ux_div_rem. rewrite !length_to_limbs, !eval_abs by assumption. fold N D.
  destruct (div_mag_bounds n d Hnz) as [Hq Hr]. fold N D in Hq, Hr.
  pose proof (abs_lt_Bn n Hn) as Bn'. pose proof (abs_lt_Bn d Hd) as Bd'. fold N in Bn'. fold D in Bd'.
  destruct (Bn_half _ (nonempty_len n Hne)) as [HM HH]. pose proof (half_ge n Hne) as Hh2.
  pose proof (seval_range n Hn) as Rn. fold N in Rn. word_facts.
  set (q0 := Z.abs N / Z.abs D) in *. set (r0 := Z.abs N mod Z.abs D) in *.
  rewrite cc_xor_bool. set (opp := xorb (N <? 0) (D <? 0)).
  rewrite ux_is_nonzero_spec by apply wf_to_limbs. rewrite eval_to_limbs, (Z.mod_small r0) by lia.
  rewrite cc_and_bool.
  rewrite add_one_to_limbs by (try apply nonempty_len; try assumption; lia).
  rewrite select_to_limbs.
  pose proof (sub_to_limbs (to_limbs (length d) (Z.abs D)) r0 (wf_to_limbs _ _)) as Es.
  rewrite length_to_limbs, eval_to_limbs, (Z.mod_small (Z.abs D)) in Es by lia.
  rewrite Es by lia. rewrite select_to_limbs.
  set (m := negb (r0 =? 0) && opp) in *.
  assert (Hq' : 0 <= (if m then q0 + 1 else q0) < Bn (length n)) by (destruct m; lia).
  assert (Hr' : 0 <= (if m then Z.abs D - r0 else r0) < Bn (length d)) by (destruct m; lia).
  rewrite new_from_abs_sign_to_limbs by assumption.
  rewrite neg_if_to_limbs by assumption.
  destruct (floor_qr N D Hnz) as [Eq Er]. cbv zeta in Eq, Er. fold q0 r0 opp m in Eq, Er. rewrite Eq, Er.
  reflexivity.
Qed.

Lemma floor_quotient_spec :
  fst (int_checked_div_rem_floor n d) =
    if isp_fits (length n) (N / D) then Some (to_limbs_s (length n) (N / D)) else None.
Proof. rewrite int_checked_div_rem_floor_spec. reflexivity. Qed.

Lemma floor_remainder_spec :
  snd (int_checked_div_rem_floor n d) = to_limbs_s (length d) (N mod D).
Proof. rewrite int_checked_div_rem_floor_spec. reflexivity. Qed.

Lemma int_checked_div_floor_spec :
  int_checked_div_floor n d =
    if isp_fits (length n) (N / D) then Some (to_limbs_s (length n) (N / D)) else None.
Proof.
  unfold int_checked_div_floor, nz_and_then. rewrite (nz_is_zero d Hd Hnz). apply floor_quotient_spec.
Qed.

Lemma floor_rem_fits : - Bn (length d) <= 2 * (N mod D) < Bn (length d).
Proof.
  pose proof (seval_range d Hd) as Rd. fold D in Rd.
  destruct (Z_lt_ge_dec D 0).
  - pose proof (Z.mod_neg_bound N D ltac:(lia)). lia.
  - pose proof (Z.mod_pos_bound N D ltac:(lia)). lia.
Qed.
End Floor.

Lemma floor_quot_fits_iff n d : wf n -> wf d -> n <> [] -> seval d <> 0 ->
  (isp_fits (length n) (seval n / seval d) = false <-> (2 * seval n = - Bn (length n) /\ seval d = -1)).
Proof.
  intros Hn Hd Hne Hnz. set (N := seval n). set (D := seval d).
  destruct (Bn_half _ (nonempty_len n Hne)) as [HM HH]. pose proof (half_ge n Hne) as Hh2. word_facts.
  pose proof (seval_range n Hn) as Rn. fold N in Rn. rewrite HM in *. set (h := halfB (length n)) in *.
  rewrite isp_fits_false. rewrite HM. split.
  - intros Hbad.
    (* |N / D| <= |N| whenever |D| >= 1; the only way out of range is N = -h, D = -1 *)
    destruct (Z_lt_ge_dec D 0) as [Dneg|Dpos].
    + pose proof (Z.div_mod N D ltac:(lia)) as Hdm. pose proof (Z.mod_neg_bound N D Dneg) as Hmb.
      set (q := N / D) in *. set (r := N mod D) in *.
      destruct Hbad as [Hlo|Hhi].
      * exfalso. assert (q + 1 <= - h) by lia.
        assert (D * (- h) <= D * (q + 1)) by (apply Z.mul_le_mono_nonpos_l; lia).
        assert ((-1) * (- h) <= D * (- h)) by (apply Z.mul_le_mono_nonpos_r; lia).
        lia.
      * assert (h <= q) by lia.
        assert (D * q <= D * h) by (apply Z.mul_le_mono_nonpos_l; lia).
        destruct (Z.eq_dec D (-1)) as [->|]; [split; [lia | reflexivity]|]. exfalso.
        assert (D * h <= (-2) * h) by (apply Z.mul_le_mono_nonneg_r; lia). lia.
    + assert (0 < D) by (unfold D in *; lia).
      pose proof (Z.div_mod N D ltac:(lia)) as Hdm. pose proof (Z.mod_pos_bound N D ltac:(lia)) as Hmb.
      set (q := N / D) in *. set (r := N mod D) in *. exfalso.
      destruct Hbad as [Hlo|Hhi].
      * assert (q + 1 <= - h) by lia.
        assert (D * (q + 1) <= D * (- h)) by (apply Z.mul_le_mono_nonneg_l; lia).
        assert (D * (- h) <= 1 * (- h)) by (apply Z.mul_le_mono_nonpos_r; lia).
        lia.
      * assert (h <= q) by lia.
        assert (D * h <= D * q) by (apply Z.mul_le_mono_nonneg_l; lia).
        assert (1 * h <= D * h) by (apply Z.mul_le_mono_nonneg_r; lia). lia.
  - intros [HN HD]. fold D in HD. rewrite HD.
    assert (E : N / (-1) = - N).
    { symmetry. apply (Z.div_unique N (-1) (- N) 0); lia. }
    rewrite E. lia.
Qed.

(* ------------------------------------------------------------------ division by a Uint *)
Section ByUint.
Variables n d : list Z.
Hypothesis Hn : wf n.
Hypothesis Hd : wf d.
Hypothesis Hne : n <> [].
Hypothesis Hnz : eval d <> 0.
Let N := seval n. Let D := eval d.

Lemma umag_bounds : 0 < D /\ 0 <= Z.abs N / D <= Z.abs N /\ 0 <= Z.abs N mod D < D.
Proof.
  pose proof (eval_bounds d Hd) as Bd. fold D in Bd. assert (0 < D) by (unfold D in *; lia).
  split; [assumption|]. split; [split|].
  - apply Z.div_pos; lia.
  - apply Z.div_le_upper_bound; [lia|].
    assert (1 * Z.abs N <= D * Z.abs N) by (apply Z.mul_le_mono_nonneg_r; lia). lia.
  - apply Z.mod_pos_bound. lia.
Qed.

Lemma uquot_sign : (if N <? 0 then - (Z.abs N / D) else Z.abs N / D) = Z.quot N D.
Proof.
  destruct umag_bounds as (HD & _ & _).
  pose proof (quot_sign N D ltac:(lia)) as E.
  replace (D <? 0) with false in E by (symmetry; apply Z.ltb_ge; lia).
  rewrite (Z.abs_eq D) in E by lia. rewrite <- E. destruct (N <? 0); reflexivity.
Qed.

Lemma urem_sign : (if N <? 0 then - (Z.abs N mod D) else Z.abs N mod D) = Z.rem N D.
Proof.
  destruct umag_bounds as (HD & _ & _).
  pose proof (rem_sign N D ltac:(lia)) as E. rewrite (Z.abs_eq D) in E by lia. exact E.
Qed.

Lemma int_div_rem_uint_spec :
  int_div_rem_uint n d = (to_limbs_s (length n) (Z.quot N D), to_limbs_s (length d) (Z.rem N D)).
Proof.
  unfold int_div_rem_uint. rewrite int_abs_sign_spec by assumption.
  unfold ux_div_rem. rewrite length_to_limbs, eval_abs by assumption. fold N D.
  destruct umag_bounds as (HD & Hq & Hr).
  pose proof (abs_lt_Bn n Hn) as Bn'. fold N in Bn'. pose proof (eval_bounds d Hd) as Bd. fold D in Bd.
  rewrite !neg_if_to_limbs by lia. rewrite uquot_sign, urem_sign. reflexivity.
Qed.

(* the truncated quotient by an unsigned divisor always fits *)
Lemma uquot_fits : - Bn (length n) <= 2 * Z.quot N D < Bn (length n).
Proof.
  destruct umag_bounds as (HD & Hq & Hr). pose proof (seval_range n Hn) as Rn. fold N in Rn.
  rewrite <- uquot_sign. destruct (Z.ltb_spec N 0); lia.
Qed.

(* the remainder fits the divisor's width whenever that width is at least the dividend's *)
Lemma urem_fits : (length n <= length d)%nat -> - Bn (length d) <= 2 * Z.rem N D < Bn (length d).
Proof.
  intros Hle. destruct umag_bounds as (HD & Hq & Hr). pose proof (seval_range n Hn) as Rn. fold N in Rn.
  pose proof (Bn_le _ _ Hle).
  assert (Z.abs N mod D <= Z.abs N) by (apply Z.mod_le; lia).
  rewrite <- urem_sign. destruct (Z.ltb_spec N 0); lia.
Qed.

Lemma floor_uqr :
  let q0 := Z.abs N / D in let r0 := Z.abs N mod D in
  let m := negb (r0 =? 0) && (N <? 0) in
  (if N <? 0 then - (if m then q0 + 1 else q0) else (if m then q0 + 1 else q0)) = N / D /\
  (if m then D - r0 else r0) = N mod D.
Proof.
  destruct umag_bounds as (HD & _ & _).
  destruct (floor_qr N D ltac:(lia)) as [Eq Er]. cbv zeta in Eq, Er.
  replace (D <? 0) with false in * by (symmetry; apply Z.ltb_ge; lia).
  rewrite (Z.abs_eq D) in * by lia.
  replace (xorb (N <? 0) false) with (N <? 0) in * by (destruct (N <? 0); reflexivity).
  split; assumption.
Qed.

Lemma int_div_rem_floor_uint_spec :
  int_div_rem_floor_uint n d = (to_limbs_s (length n) (N / D), to_limbs (length d) (N mod D)).
Proof.
  unfold int_div_rem_floor_uint. rewrite int_abs_sign_spec by assumption.
  unfold ux_div_rem. rewrite !length_to_limbs, eval_abs by assumption. fold N D.
  destruct umag_bounds as (HD & Hq & Hr).
  pose proof (abs_lt_Bn n Hn) as Bn'. fold N in Bn'. pose proof (eval_bounds d Hd) as Bd. fold D in Bd.
  destruct (Bn_half _ (nonempty_len n Hne)) as [HM HH]. pose proof (half_ge n Hne) as Hh2.
  pose proof (seval_range n Hn) as Rn. fold N in Rn. word_facts.
  set (q0 := Z.abs N / D) in *. set (r0 := Z.abs N mod D) in *.
  rewrite ux_is_nonzero_spec by apply wf_to_limbs. rewrite eval_to_limbs, (Z.mod_small r0) by lia.
  rewrite cc_and_bool.
  rewrite add_one_to_limbs by (try apply nonempty_len; try assumption; lia).
  rewrite select_to_limbs.
  rewrite sub_to_limbs by (try assumption; fold D; lia). fold D. rewrite select_to_limbs.
  set (m := negb (r0 =? 0) && (N <? 0)).
  assert (Hq' : 0 <= (if m then q0 + 1 else q0) < Bn (length n)) by (destruct m; lia).
  rewrite neg_if_to_limbs by assumption.
  destruct floor_uqr as [Eq Er]. cbv zeta in Eq, Er. fold q0 r0 m in Eq, Er. rewrite Eq, Er. reflexivity.
Qed.

Lemma ufloor_fits : - Bn (length n) <= 2 * (N / D) < Bn (length n).
Proof.
  destruct umag_bounds as (HD & Hq & Hr). pose proof (seval_range n Hn) as Rn. fold N in Rn.
  pose proof (Z.div_mod N D ltac:(lia)) as Hdm. pose proof (Z.mod_pos_bound N D HD) as Hmb.
  set (q := N / D) in *. set (r := N mod D) in *.
  destruct (Z_lt_ge_dec q 0).
  - (* q <= -1: D q >= N - r > N - D  so  q >= ... use D >= 1 *)
    assert (D * (q + 1) <= 1 * (q + 1)) by (apply Z.mul_le_mono_nonpos_r; lia). lia.
  - assert (1 * q <= D * q) by (apply Z.mul_le_mono_nonneg_r; lia). lia.
Qed.

Lemma normalized_rem_range : 0 <= N mod D < D.
Proof. destruct umag_bounds as (HD & _). apply Z.mod_pos_bound. assumption. Qed.
End ByUint.

(* ------------------------------------------------------------------ refutation (open defect of /repo) *)
Lemma wf1 x : 0 <= x < 2 ^ 64 -> wf [x].
Proof. intros H. apply wf_cons. split; [unfold is_word; rewrite B_val; assumption | apply wf_nil]. Qed.
Lemma wf2 x y : 0 <= x < 2 ^ 64 -> 0 <= y < 2 ^ 64 -> wf [x; y].
Proof. intros Hx Hy. apply wf_cons. split; [unfold is_word; rewrite B_val; assumption | apply wf1; assumption]. Qed.

(* Int<2> (2^64 - 2) rem Uint<1> (2^64 - 1): the remainder does not fit Int<1> and reads back as -2 *)
Lemma rem_uint_mixed_refuted :
  exists n d, wf n /\ wf d /\ eval d <> 0 /\
    seval (snd (int_div_rem_uint n d)) <> Z.rem (seval n) (eval d).
Proof.
  exists [2 ^ 64 - 2; 0], [2 ^ 64 - 1].
  split; [apply wf2; lia|]. split; [apply wf1; lia|].
  vm_compute. repeat split; discriminate.
Qed.

(* ------------------------------------------------------------------ zero divisor; the identities in Z *)
Lemma checked_div_zero n d : wf d -> eval d = 0 ->
  int_checked_div n d = None /\ int_checked_div_floor n d = None.
Proof.
  intros Hd Hz. unfold int_checked_div, int_checked_div_floor, nz_and_then.
  rewrite ux_is_zero_spec, choice_to_of_bool, Hz by assumption. split; reflexivity.
Qed.

Lemma trunc_identity N D : D <> 0 ->
  N = Z.quot N D * D + Z.rem N D /\ Z.abs (Z.rem N D) < Z.abs D /\
  (Z.rem N D = 0 \/ Z.sgn (Z.rem N D) = Z.sgn N).
Proof.
  intros HD. split; [|split].
  - rewrite Z.mul_comm. apply Z.quot_rem'.
  - apply Z.rem_bound_abs. assumption.
  - destruct (Z.eq_dec (Z.rem N D) 0); [left; assumption | right; apply Z.rem_sign_nz; assumption].
Qed.

Lemma floor_identity N D : D <> 0 ->
  N = (N / D) * D + N mod D /\ Z.abs (N mod D) < Z.abs D /\
  (N mod D = 0 \/ Z.sgn (N mod D) = Z.sgn D).
Proof.
  intros HD. split; [|split].
  - rewrite Z.mul_comm. apply Z.div_mod. assumption.
  - destruct (Z_lt_ge_dec D 0).
    + pose proof (Z.mod_neg_bound N D ltac:(lia)). lia.
    + pose proof (Z.mod_pos_bound N D ltac:(lia)). lia.
  - destruct (Z.eq_dec (N mod D) 0); [left; assumption | right].
    destruct (Z_lt_ge_dec D 0).
    + pose proof (Z.mod_neg_bound N D ltac:(lia)). rewrite !Z.sgn_neg by lia. reflexivity.
    + pose proof (Z.mod_pos_bound N D ltac:(lia)). rewrite !Z.sgn_pos by lia. reflexivity.
Qed.
