(** C10 proofs, part 2: the bit-serial inverse modulo 2^k (src/uint/inv_mod.rs:14-123 and the boxed twin).
    All three variants return the same pair; it is exact for every limb count n >= 1 and every k in 0..=BITS. *)
From CB Require Import Model.Limbs Model.AddSub Model.SafeGcd Proofs.WordP Proofs.LimbsP Proofs.BitsP Proofs.SafeGcdArithP.
From Coq Require Import ZArith Lia List Bool Znumtheory Zdiv Setoid Morphisms.
Open Scope Z_scope.

Lemma Bn_pow2 n : Bn n = 2 ^ (64 * Z.of_nat n).
Proof.
  induction n as [|n IH]; [reflexivity|].
  rewrite Bn_S, IH, B_val, <- Z.pow_add_r by lia. f_equal. lia.
Qed.
Lemma Bn_even n : (0 < n)%nat -> exists h, Bn n = 2 * h /\ 0 < h.
Proof.
  intros Hn. exists (2 ^ (64 * Z.of_nat n - 1)). rewrite Bn_pow2. split.
  - replace (64 * Z.of_nat n) with (1 + (64 * Z.of_nat n - 1)) at 1 by lia. rewrite Z.pow_add_r by lia. reflexivity.
  - apply pow2_pos. lia.
Qed.

Lemma mod2_cases b : b mod 2 = 0 \/ b mod 2 = 1.
Proof. pose proof (Z.mod_pos_bound b 2 ltac:(lia)). lia. Qed.
Lemma odd_mod2 a : Z.odd a = true -> a mod 2 = 1.
Proof. intros H. rewrite Zmod_odd, H. reflexivity. Qed.

(* one step: b' = ((b - a x_i) mod W) / 2 is exact *)
Lemma inv2k_step n a b : (0 < n)%nat -> Z.odd a = true -> 0 <= b < Bn n ->
  let xi := b mod 2 in
  let b' := (if xi =? 0 then b else (b - a) mod Bn n) / 2 in
  0 <= b' < Bn n /\ cg (Bn n) (2 * b') (b - a * xi).
Proof.
  intros Hn Ha Hb xi b'.
  destruct (Bn_even n Hn) as (h & Eh & Hh).
  pose proof (Bn_pos n) as HW.
  destruct (mod2_cases b) as [E|E]; unfold b', xi; rewrite E; cbn [Z.eqb].
  - (* even b *)
    pose proof (Z.div_mod b 2 ltac:(lia)) as D. rewrite E in D.
    split; [lia|]. replace (2 * (b / 2)) with b by lia. rewrite Z.mul_0_r, Z.sub_0_r. reflexivity.
  - set (c := (b - a) mod Bn n).
    assert (Hc : 0 <= c < Bn n) by (apply Z.mod_pos_bound; lia).
    assert (Ec : c mod 2 = 0).
    { assert (Ec0 : c = (b - a) + (- (h * ((b - a) / Bn n))) * 2).
      { unfold c. rewrite (Z.mod_eq (b - a) (Bn n)) by lia. rewrite Eh at 1. ring. }
      rewrite Ec0, Z_mod_plus_full, Zminus_mod, E, (odd_mod2 a Ha). reflexivity. }
    pose proof (Z.div_mod c 2 ltac:(lia)) as D. rewrite Ec in D.
    split; [lia|]. replace (2 * (c / 2)) with c by lia. unfold c. rewrite cg_mod, Z.mul_1_r. reflexivity.
Qed.

Lemma lor_bit x i xi : 0 <= i -> 0 <= x < 2 ^ i -> 0 <= xi <= 1 -> Z.lor x (xi * 2 ^ i) = x + xi * 2 ^ i.
Proof. intros Hi Hx Hxi. rewrite Z.lor_comm, lor_disjoint by assumption. lia. Qed.

Lemma inv2k_loop_inv cnt : forall n a i x b, (0 < n)%nat -> Z.odd a = true -> 0 <= i ->
  0 <= b < Bn n -> 0 <= x < 2 ^ i -> cg (Bn n) (a * x + 2 ^ i * b) 1 ->
  let r := inv2k_loop cnt n a i x b in
  0 <= r < 2 ^ (i + Z.of_nat cnt) /\ exists b', cg (Bn n) (a * r + 2 ^ (i + Z.of_nat cnt) * b') 1.
Proof.
  induction cnt as [|cnt IH]; intros n a i x b Hn Ha Hi Hb Hx C; cbn [inv2k_loop].
  - rewrite Z.add_0_r. split; [assumption|]. exists b. assumption.
  - cbv zeta.
    destruct (inv2k_step n a b Hn Ha Hb) as (Hb' & Cb). cbv zeta in Hb', Cb.
    set (xi := b mod 2) in *.
    set (b' := (if xi =? 0 then b else (b - a) mod Bn n) / 2) in *.
    assert (Hxi : 0 <= xi <= 1) by (unfold xi; pose proof (Z.mod_pos_bound b 2 ltac:(lia)); lia).
    rewrite lor_bit by assumption.
    assert (P : 0 < 2 ^ i) by (apply pow2_pos; assumption).
    assert (Hx' : 0 <= x + xi * 2 ^ i < 2 ^ (i + 1)).
    { rewrite Z.pow_add_r by lia. change (2 ^ 1) with 2. nia. }
    assert (C' : cg (Bn n) (a * (x + xi * 2 ^ i) + 2 ^ (i + 1) * b') 1).
    { etransitivity; [|exact C]. rewrite Z.pow_add_r by lia. change (2 ^ 1) with 2.
      replace (a * (x + xi * 2 ^ i) + 2 ^ i * 2 * b') with (a * x + a * xi * 2 ^ i + 2 ^ i * (2 * b')) by ring.
      rewrite Cb. apply eq_subrelation; [typeclasses eauto | ring]. }
    specialize (IH n a (i + 1) (x + xi * 2 ^ i) b' Hn Ha ltac:(lia) Hb' Hx' C').
    cbv zeta in IH. replace (i + Z.of_nat (S cnt)) with (i + 1 + Z.of_nat cnt) by lia. exact IH.
Qed.

Lemma inv2k_loop_correct n a k : (0 < n)%nat -> Z.odd a = true -> 0 <= k <= 64 * Z.of_nat n ->
  let r := inv2k_loop (Z.to_nat k) n a 0 0 1 in
  0 <= r < 2 ^ k /\ (a * r) mod 2 ^ k = 1 mod 2 ^ k.
Proof.
  intros Hn Ha Hk r.
  destruct (Bn_even n Hn) as (h & Eh & Hh).
  assert (C : cg (Bn n) (a * 0 + 2 ^ 0 * 1) 1) by (apply eq_subrelation; [typeclasses eauto | ring]).
  destruct (inv2k_loop_inv (Z.to_nat k) n a 0 0 1 Hn Ha ltac:(lia) ltac:(lia) ltac:(cbn; lia) C) as (R & b' & Cb).
  fold r in R, Cb. rewrite Z2Nat.id, Z.add_0_l in R, Cb by lia.
  split; [assumption|].
  assert (P : 0 < 2 ^ k) by (apply pow2_pos; lia).
  apply (cg_weaken (Bn n) (2 ^ k)) in Cb; [| pose proof (Bn_pos n); lia | lia | rewrite Bn_pow2; apply pow2_divide; lia].
  apply cg_iff. rewrite <- Cb.
  apply cg_divide; [lia|]. exists (- b'). ring.
Qed.

(* the constant-time loop: BITS iterations, bits stored only while i < k *)
Lemma inv2k_ct_past cnt : forall n a k i x b, k <= i -> inv2k_ct_loop cnt n a k i x b = x.
Proof.
  induction cnt as [|cnt IH]; intros n a k i x b H; cbn [inv2k_ct_loop]; [reflexivity|].
  cbv zeta. destruct (Z.ltb_spec i k); [lia|]. cbn [andb]. apply IH. lia.
Qed.
Lemma inv2k_ct_eq cnt : forall n a k i x b, 0 <= i <= k -> k - i <= Z.of_nat cnt -> 0 <= x < 2 ^ i ->
  inv2k_ct_loop cnt n a k i x b = inv2k_loop (Z.to_nat (k - i)) n a i x b.
Proof.
  induction cnt as [|cnt IH]; intros n a k i x b Hi Hc Hx.
  - replace (k - i) with 0 by lia. reflexivity.
  - destruct (Z.eq_dec i k) as [->|Hne].
    + rewrite Z.sub_diag. cbn [Z.to_nat inv2k_loop]. apply inv2k_ct_past. lia.
    + replace (Z.to_nat (k - i)) with (S (Z.to_nat (k - (i + 1)))) by lia.
      cbn [inv2k_ct_loop inv2k_loop]. cbv zeta.
      destruct (Z.ltb_spec i k); [|lia]. cbn [andb].
      assert (P : 0 < 2 ^ i) by (apply pow2_pos; lia).
      assert (Hx' : forall xi, 0 <= xi <= 1 -> 0 <= x + xi * 2 ^ i < 2 ^ (i + 1)).
      { intros xi Hxi. rewrite Z.pow_add_r by lia. change (2 ^ 1) with 2. nia. }
      destruct (mod2_cases b) as [E|E]; rewrite E; cbn [Z.eqb].
      * rewrite Z.mul_0_l, Z.lor_0_r. apply IH; [lia | lia |]. specialize (Hx' 0). lia.
      * rewrite Z.mul_1_l. rewrite <- (Z.mul_1_l (2 ^ i)) at 1 2. rewrite lor_bit by lia.
        apply IH; [lia | lia |]. apply (Hx' 1). lia.
Qed.

Lemma gcd_pow2 a k : 0 <= k -> (Z.gcd a (2 ^ k) =? 1) = ((k =? 0) || Z.odd a).
Proof.
  intros Hk. destruct (Z.eqb_spec k 0) as [->|Hk0]; cbn [orb].
  - rewrite Z.pow_0_r, Z.gcd_1_r. reflexivity.
  - destruct (Z.odd a) eqn:O.
    + apply Z.eqb_eq. apply Zgcd_1_rel_prime. apply Zpow_facts.rel_prime_Zpower_r; [assumption|].
      apply Zgcd_1_rel_prime.
      assert (G : 0 <= Z.gcd a 2) by apply Z.gcd_nonneg.
      assert (D2 : (Z.gcd a 2 | 2)) by apply Z.gcd_divide_r.
      assert (Dm : (Z.gcd a 2 | a)) by apply Z.gcd_divide_l.
      apply Z.divide_pos_le in D2; [|lia].
      assert (C : Z.gcd a 2 = 0 \/ Z.gcd a 2 = 1 \/ Z.gcd a 2 = 2) by lia.
      destruct C as [C|[C|C]]; [| assumption |].
      * apply Z.gcd_eq_0 in C. lia.
      * rewrite C in Dm. destruct Dm as [c ->]. rewrite Z.odd_mul in O. cbn in O. rewrite andb_false_r in O. discriminate.
    + apply Z.eqb_neq. intros G.
      assert (D : (2 | Z.gcd a (2 ^ k))).
      { apply Z.gcd_greatest.
        - exists (a / 2). rewrite Z.mul_comm. apply even_div2. assumption.
        - exists (2 ^ (k - 1)). replace k with ((k - 1) + 1) at 1 by lia. rewrite Z.pow_add_r by lia. reflexivity. }
      rewrite G in D. destruct D as [c Hc]. lia.
Qed.

(** inv_mod2k, inv_mod2k_vartime and inv_mod2k_full_vartime agree, decide invertibility exactly and return the
    canonical inverse: for every limb count n >= 1, every a >= 0 and every k in 0..=BITS. No hypothesis. *)
Theorem inv_mod2k_correct n a k : (0 < n)%nat -> 0 <= a -> 0 <= k <= 64 * Z.of_nat n ->
  inv_mod2k_ct n a k = inv_mod2k_vartime n a k /\
  inv_mod2k_full_vartime n a k = (if snd (inv_mod2k_vartime n a k) then Some (fst (inv_mod2k_vartime n a k)) else None) /\
  (snd (inv_mod2k_vartime n a k) = true <-> Z.gcd a (2 ^ k) = 1) /\
  (snd (inv_mod2k_vartime n a k) = true ->
     let x := fst (inv_mod2k_vartime n a k) in
     0 <= x < 2 ^ k /\ (a * x) mod 2 ^ k = 1 mod 2 ^ k /\ x = modinv a (2 ^ k)).
Proof.
  intros Hn Ha Hk. unfold inv_mod2k_ct, inv_mod2k_vartime, inv_mod2k_full_vartime, inv2k_is_some. cbn [fst snd].
  assert (P : 0 < 2 ^ k) by (apply pow2_pos; lia).
  split; [|split; [|split]].
  - f_equal. unfold bitsn. rewrite (inv2k_ct_eq _ n a k 0 0 1); [rewrite Z.sub_0_r; reflexivity | lia | lia | change (2 ^ 0) with 1; lia].
  - destruct (Z.eqb_spec k 0) as [->|Hk0]; cbn [negb andb orb]; [reflexivity|].
    rewrite <- Z.negb_odd. destruct (Z.odd a); reflexivity.
  - rewrite <- (gcd_pow2 a k) by lia. rewrite Z.eqb_eq. reflexivity.
  - intros S. cbv zeta.
    assert (X : 0 <= inv2k_loop (Z.to_nat k) n a 0 0 1 < 2 ^ k /\ (a * inv2k_loop (Z.to_nat k) n a 0 0 1) mod 2 ^ k = 1 mod 2 ^ k).
    { destruct (Z.eqb_spec k 0) as [->|Hk0].
      - cbn [Z.to_nat inv2k_loop]. change (2 ^ 0) with 1. rewrite !Z.mod_1_r. split; [lia | reflexivity].
      - cbn [orb] in S. apply (inv2k_loop_correct n a k Hn S Hk). }
    destruct X as (R & E). split; [assumption|]. split; [assumption|].
    assert (G : Z.gcd a (2 ^ k) = 1) by (apply Z.eqb_eq; rewrite gcd_pow2 by lia; exact S).
    destruct (modinv_spec a (2 ^ k) P) as (R2 & E2). rewrite G in E2.
    apply (inv_unique (2 ^ k) a 1); assumption.
Qed.
