(** C10: the model table and the spec table of Model/SafeGcd.v agree, key by key, wherever the spec is defined, for
    all well-formed argument lists, under the convergence flag that the model itself reports for that key and those
    arguments ([conv_ok]: the op "conv:<key>" returns 1; ./check evaluates it on every generated case). *)
From CB Require Import Model.Limbs Model.AddSub Model.SafeGcd Proofs.WordP Proofs.LimbsP Proofs.BitsP
  Proofs.SafeGcdArithP Proofs.SafeGcdUnsatP Proofs.SafeGcdCoreP Proofs.InvMod2kP Proofs.SafeGcdInvP Proofs.SafeGcdConvP
  Proofs.SafeGcdUintP Proofs.SafeGcdWrapP.
From Coq Require Import ZArith Lia List Bool String.
Open Scope Z_scope.
Notation length := List.length.

Definition run10 (t : list (string * opfn)) (k : string) (dbg : bool) (args : list (list Z)) : outcome :=
  match lookup k t with Some f => f dbg args | None => Unsupported end.
Notation M10 := (run10 ops_safegcd_model).
Notation S10 := (run10 ops_safegcd_spec).
(** the reported convergence flag of key k on arguments a *)
Definition conv_ok (k : string) (a : list (list Z)) : Prop :=
  run10 ops_safegcdconv_model (String.append "conv:" k) false a = Val [[1]].
(** Rust's types: limb counts fit u32 bit lengths *)
Definition typed10 (a : list (list Z)) : Prop := Z.of_nat (ln 0 a) <= 2 ^ 32.
(** the property's domain is m >= 1; the spec table also records inv_mod(x, 0) = none (F4) - not covered by the proof *)
Definition modulus_nonzero (k : string) (a : list (list Z)) : Prop :=
  (k = "uint.inv_mod" \/ k = "boxed.inv_mod")%string -> ev 1 a <> 0.
Definition safegcd_keys : list string := map fst ops_safegcd_model.

Definition wf_args (a : list (list Z)) : Prop := Forall wf a.
Lemma wf_arg i a : wf_args a -> wf (arg i a).
Proof.
  unfold wf_args, arg. intros H. revert i. induction H as [|x l Hx Hl IH]; intros i.
  - destruct i; constructor.
  - destruct i; [exact Hx | apply IH].
Qed.

Lemma cv_true b : cv b = Val [[1]] -> b = true.
Proof. unfold cv, vbool. destruct b; [reflexivity | discriminate]. Qed.

Ltac dom_hyps H :=
  repeat match type of H with
  | (_ && _)%bool = true => let H1 := fresh H in apply andb_prop in H; destruct H as [H H1]; try dom_hyps H1
  end.
Ltac dom_conv :=
  repeat match goal with
  | H : (_ <? _) = true |- _ => apply Z.ltb_lt in H
  | H : (_ <=? _) = true |- _ => apply Z.leb_le in H
  | H : (_ =? _)%nat = true |- _ => apply Nat.eqb_eq in H
  | H : (_ <? _)%nat = true |- _ => apply Nat.ltb_lt in H
  | H : negb _ = true |- _ => apply negb_true_iff in H
  | H : (_ =? _) = false |- _ => apply Z.eqb_neq in H
  | H : (_ =? _) = true |- _ => apply Z.eqb_eq in H
  end.
(* open `okdom c o <> Unsupported` *)
Ltac open_dom D :=
  match goal with
  | |- okdom ?c _ <> Unsupported -> _ => destruct c eqn:D; [cbn [okdom]; intros Hdom | intros Hdom; contradiction Hdom; reflexivity]
  end.

Section Entries.
  Context (a : list (list Z)) (Hwf : wf_args a) (Hty : typed10 a).

  Lemma same_len_facts : same_len a = true -> ln 1 a = ln 0 a /\ (0 < ln 0 a)%nat /\ length (arg 1 a) = ln 0 a /\ length (arg 0 a) = ln 0 a.
  Proof. unfold same_len, ln. intros H. dom_hyps H. dom_conv. repeat split; lia. Qed.
  Lemma odd_pos i : Z.odd (ev i a) = true -> 0 < ev i a.
  Proof.
    intros O. pose proof (eval_bounds _ (wf_arg i a Hwf)). unfold ev in *.
    destruct (Z.eq_dec (eval (arg i a)) 0) as [E|E]; [rewrite E in O; discriminate | lia].
  Qed.

  (* -- odd modulus -- *)
  Lemma entry_inv_odd dbg vartime boxed : conv_inv boxed (arg 1 a) (arg 0 a) = true ->
    dom_odd a (sp_inv a (ev 0 a)) <> Unsupported ->
    okdom (same_len a && odd1 a) (out_sg (sg_inv dbg vartime boxed (ones_limbs (ln 1 a)) (arg 1 a) (arg 0 a))) = dom_odd a (sp_inv a (ev 0 a)).
  Proof.
    intros Hc. unfold dom_odd. open_dom D. cbn [okdom]. dom_hyps D. destruct (same_len_facts D) as (L1 & Hn & La1 & La0).
    unfold sp_inv in *. destruct (Z.eqb_spec (ev 1 a) 1) as [E1|E1]; [contradiction Hdom; reflexivity|].
    unfold odd1 in D0. pose proof (odd_pos 1 D0). rewrite L1. unfold ev in *.
    apply out_sg_inv_one; try apply wf_arg; try assumption; try lia.
  Qed.
  Lemma entry_inv_adj dbg vartime : conv_inv false (arg 1 a) (arg 0 a) = true ->
    okdom (same_len a && odd1 a && (ev 2 a <? ev 1 a) && (ln 2 a =? ln 1 a)%nat) (spec_inv_adj (ln 1 a) (ev 0 a) (ev 1 a) (ev 2 a)) <> Unsupported ->
    okdom (same_len a && odd1 a) (out_sg (sg_inv dbg vartime false (arg 2 a) (arg 1 a) (arg 0 a))) =
    okdom (same_len a && odd1 a && (ev 2 a <? ev 1 a) && (ln 2 a =? ln 1 a)%nat) (spec_inv_adj (ln 1 a) (ev 0 a) (ev 1 a) (ev 2 a)).
  Proof.
    intros Hc. open_dom D. dom_hyps D. rewrite D, D2. cbn [okdom andb]. dom_conv. destruct (same_len_facts D) as (L1 & Hn & La1 & La0).
    unfold odd1 in D2. rewrite L1 in *. unfold ev, ln in *.
    apply out_sg_inv_adj; try apply wf_arg; try assumption; try lia.
  Qed.
  Lemma entry_inv_odd_some dbg boxed : conv_inv boxed (arg 1 a) (arg 0 a) = true ->
    okdom (same_len a && odd1 a) (sp_is_some a (ev 0 a)) <> Unsupported ->
    okdom (same_len a && odd1 a) (out_some (sg_inv dbg false boxed (ones_limbs (ln 1 a)) (arg 1 a) (arg 0 a))) =
    okdom (same_len a && odd1 a) (sp_is_some a (ev 0 a)).
  Proof.
    intros Hc. open_dom D. dom_hyps D. destruct (same_len_facts D) as (L1 & Hn & La1 & La0).
    unfold odd1 in D0. rewrite L1. unfold sp_is_some, ev in *.
    apply out_some_sg_inv_one; try apply wf_arg; try assumption; try lia.
  Qed.

  (* -- general modulus -- *)
  Lemma entry_inv_mod dbg boxed : ev 1 a <> 0 -> conv_inv boxed (odd_part (arg 1 a)) (arg 0 a) = true ->
    okdom (same_len a) (if ev 1 a =? 0 then (if ev 0 a =? 1 then Unsupported else NoneV) else sp_inv a (ev 0 a)) <> Unsupported ->
    okdom (same_len a) (out_sg (uint_inv_mod dbg boxed (arg 0 a) (arg 1 a))) =
    okdom (same_len a) (if ev 1 a =? 0 then (if ev 0 a =? 1 then Unsupported else NoneV) else sp_inv a (ev 0 a)).
  Proof.
    intros Hnz Hc. open_dom D. destruct (same_len_facts D) as (L1 & Hn & La1 & La0).
    destruct (Z.eqb_spec (ev 1 a) 0) as [E0|E0]; [contradiction|].
    unfold sp_inv in *. destruct (Z.eqb_spec (ev 1 a) 1) as [E1|E1]; [contradiction Hdom; reflexivity|].
    pose proof (eval_bounds _ (wf_arg 1 a Hwf)). rewrite L1. unfold ev in *.
    apply out_sg_inv_mod; try apply wf_arg; try assumption; try lia.
  Qed.
  Lemma entry_inv_some dbg boxed : conv_inv boxed (odd_part (arg 1 a)) (arg 0 a) = true ->
    okdom (same_len a && negb (ev 1 a =? 0)) (sp_is_some a (ev 0 a)) <> Unsupported ->
    okdom (same_len a) (out_some (uint_inv_mod dbg boxed (arg 0 a) (arg 1 a))) =
    okdom (same_len a && negb (ev 1 a =? 0)) (sp_is_some a (ev 0 a)).
  Proof.
    intros Hc. open_dom D. dom_hyps D. rewrite D. cbn [okdom]. dom_conv. destruct (same_len_facts D) as (L1 & Hn & La1 & La0).
    pose proof (eval_bounds _ (wf_arg 1 a Hwf)). unfold sp_is_some, ev in *.
    apply (out_some_inv_mod dbg boxed _ _ (ln 0 a)); try apply wf_arg; try assumption; try lia.
  Qed.

  (* -- Int wrappers -- *)
  Lemma int_abs_arg : same_len a = true ->
    wf (int_abs (arg 0 a)) /\ length (int_abs (arg 0 a)) = ln 0 a /\ eval (int_abs (arg 0 a)) = Z.abs (sev 0 a).
  Proof. intros D. destruct (same_len_facts D) as (L1 & Hn & La1 & La0). apply int_abs_spec; try apply wf_arg; assumption. Qed.
  Lemma int_abs_arg1 : same_len a = true ->
    wf (int_abs (arg 1 a)) /\ length (int_abs (arg 1 a)) = ln 0 a /\ eval (int_abs (arg 1 a)) = Z.abs (sev 1 a).
  Proof. intros D. destruct (same_len_facts D) as (L1 & Hn & La1 & La0). apply int_abs_spec; try apply wf_arg; assumption. Qed.

  Lemma entry_int_inv_odd_some dbg : conv_inv false (arg 1 a) (int_abs (arg 0 a)) = true ->
    okdom (same_len a && odd1 a) (sp_is_some a (sev 0 a)) <> Unsupported ->
    okdom (same_len a && odd1 a)
      (out_some (int_fix_sign (int_neg (arg 0 a)) (arg 1 a) (sg_inv dbg false false (ones_limbs (ln 1 a)) (arg 1 a) (int_abs (arg 0 a))))) =
    okdom (same_len a && odd1 a) (sp_is_some a (sev 0 a)).
  Proof.
    intros Hc. open_dom D. dom_hyps D. destruct (same_len_facts D) as (L1 & Hn & La1 & La0).
    destruct (int_abs_arg D) as (Wx & Lx & Ex). unfold odd1 in D0. rewrite L1. unfold sp_is_some, sev, ev in *.
    apply out_some_int_fix. rewrite <- Ex.
    apply out_some_sg_inv_one; try apply wf_arg; try assumption; try lia.
  Qed.
  Lemma entry_int_inv_some dbg : conv_inv false (odd_part (arg 1 a)) (int_abs (arg 0 a)) = true ->
    okdom (same_len a && negb (ev 1 a =? 0)) (sp_is_some a (sev 0 a)) <> Unsupported ->
    okdom (same_len a) (if ev 1 a =? 0 then Unsupported else
      out_some (int_fix_sign (int_neg (arg 0 a)) (arg 1 a) (uint_inv_mod dbg false (int_abs (arg 0 a)) (arg 1 a)))) =
    okdom (same_len a && negb (ev 1 a =? 0)) (sp_is_some a (sev 0 a)).
  Proof.
    intros Hc. open_dom D. dom_hyps D. rewrite D. cbn [okdom]. rewrite (proj1 (negb_true_iff _) D0). dom_conv.
    destruct (same_len_facts D) as (L1 & Hn & La1 & La0). destruct (int_abs_arg D) as (Wx & Lx & Ex).
    pose proof (eval_bounds _ (wf_arg 1 a Hwf)). unfold sp_is_some, sev, ev in *.
    apply out_some_int_fix. rewrite <- Ex.
    apply (out_some_inv_mod dbg false _ _ (ln 0 a)); try apply wf_arg; try assumption; try lia.
  Qed.
  Lemma entry_int_inv_odd dbg : conv_inv false (arg 1 a) (int_abs (arg 0 a)) = true ->
    dom_odd a (sp_inv a (sev 0 a)) <> Unsupported ->
    okdom (same_len a && odd1 a)
      (out_sg (int_fix_sign (int_neg (arg 0 a)) (arg 1 a) (sg_inv dbg false false (ones_limbs (ln 1 a)) (arg 1 a) (int_abs (arg 0 a))))) =
    dom_odd a (sp_inv a (sev 0 a)).
  Proof.
    intros Hc. unfold dom_odd. open_dom D. cbn [okdom]. dom_hyps D. destruct (same_len_facts D) as (L1 & Hn & La1 & La0).
    destruct (int_abs_arg D) as (Wx & Lx & Ex).
    unfold sp_inv in *. destruct (Z.eqb_spec (ev 1 a) 1) as [E1|E1]; [contradiction Hdom; reflexivity|].
    unfold odd1 in D0. pose proof (odd_pos 1 D0). rewrite L1. unfold sev, ev in *. rewrite int_neg_eq.
    apply out_int_fix; try apply wf_arg; try assumption; try lia. rewrite <- Ex.
    apply out_sg_inv_one; try apply wf_arg; try assumption; try lia.
  Qed.
  Lemma entry_int_inv_mod dbg : conv_inv false (odd_part (arg 1 a)) (int_abs (arg 0 a)) = true ->
    okdom (same_len a && negb (ev 1 a =? 0)) (sp_inv a (sev 0 a)) <> Unsupported ->
    okdom (same_len a) (if ev 1 a =? 0 then Unsupported else
      out_sg (int_fix_sign (int_neg (arg 0 a)) (arg 1 a) (uint_inv_mod dbg false (int_abs (arg 0 a)) (arg 1 a)))) =
    okdom (same_len a && negb (ev 1 a =? 0)) (sp_inv a (sev 0 a)).
  Proof.
    intros Hc. open_dom D. dom_hyps D. rewrite D. cbn [okdom]. rewrite (proj1 (negb_true_iff _) D0). dom_conv.
    destruct (same_len_facts D) as (L1 & Hn & La1 & La0). destruct (int_abs_arg D) as (Wx & Lx & Ex).
    unfold sp_inv in *. destruct (Z.eqb_spec (ev 1 a) 1) as [E1|E1]; [contradiction Hdom; reflexivity|].
    pose proof (eval_bounds _ (wf_arg 1 a Hwf)). rewrite L1. unfold sev, ev in *. rewrite int_neg_eq.
    apply out_int_fix; try apply wf_arg; try assumption; try lia. rewrite <- Ex.
    apply out_sg_inv_mod; try apply wf_arg; try assumption; try lia.
  Qed.

  (* -- inverse modulo 2^k -- *)
  Lemma inv2k_pair n av k : (0 < n)%nat -> 0 <= av -> 0 <= k <= bitsn n ->
    inv_mod2k_ct n av k = inv_mod2k_vartime n av k /\ out_pair n (inv_mod2k_vartime n av k) = spec_inv n av (2 ^ k).
  Proof.
    intros Hn Ha Hk. unfold bitsn in Hk. destruct (inv_mod2k_correct n av k Hn Ha Hk) as (E1 & _ & E3 & E4).
    split; [assumption|]. unfold out_pair, spec_inv. destruct (snd (inv_mod2k_vartime n av k)) eqn:S.
    - rewrite (proj1 E3 eq_refl). cbn [Z.eqb Pos.eqb]. destruct (E4 eq_refl) as (_ & _ & ->). reflexivity.
    - destruct (Z.eqb_spec (Z.gcd av (2 ^ k)) 1) as [G|G]; [apply E3 in G; discriminate | reflexivity].
  Qed.
  Lemma entry_inv2k_ct : sp_inv2k a <> Unsupported ->
    out_pair (ln 0 a) (inv_mod2k_ct (ln 0 a) (ev 0 a) (sarg 1 a)) = sp_inv2k a.
  Proof.
    unfold sp_inv2k. cbv zeta. destruct (_ && _)%bool eqn:D; [intros _ | intros H; contradiction H; reflexivity].
    dom_hyps D. dom_conv. pose proof (eval_bounds _ (wf_arg 0 a Hwf)).
    destruct (inv2k_pair (ln 0 a) (ev 0 a) (sarg 1 a) ltac:(assumption) ltac:(unfold ev; lia) ltac:(lia)) as (E1 & E2). rewrite E1. assumption.
  Qed.
  Lemma entry_inv2k_vt_uint : sp_inv2k a <> Unsupported ->
    (if bitsn (ln 0 a) <? sarg 1 a then PanicV else out_pair (ln 0 a) (inv_mod2k_vartime (ln 0 a) (ev 0 a) (sarg 1 a))) = sp_inv2k a.
  Proof.
    unfold sp_inv2k. cbv zeta. destruct (_ && _)%bool eqn:D; [intros _ | intros H; contradiction H; reflexivity].
    dom_hyps D. dom_conv. pose proof (eval_bounds _ (wf_arg 0 a Hwf)).
    destruct (Z.ltb_spec (bitsn (ln 0 a)) (sarg 1 a)); [lia|].
    apply (inv2k_pair (ln 0 a) (ev 0 a) (sarg 1 a) ltac:(assumption) ltac:(unfold ev; lia) ltac:(lia)).
  Qed.
  Lemma entry_inv2k_vt_boxed : sp_inv2k a <> Unsupported ->
    okdom (sarg 1 a <=? bitsn (ln 0 a)) (out_pair (ln 0 a) (inv_mod2k_vartime (ln 0 a) (ev 0 a) (sarg 1 a))) = sp_inv2k a.
  Proof.
    unfold sp_inv2k. cbv zeta. destruct (_ && _)%bool eqn:D; [intros _ | intros H; contradiction H; reflexivity].
    dom_hyps D. rewrite D1. cbn [okdom]. dom_conv. pose proof (eval_bounds _ (wf_arg 0 a Hwf)).
    apply (inv2k_pair (ln 0 a) (ev 0 a) (sarg 1 a) ltac:(assumption) ltac:(unfold ev; lia) ltac:(lia)).
  Qed.
  Lemma entry_inv2k_full64 : okdom (Z.odd (ev 0 a)) (Val [[modinv (ev 0 a) B]]) <> Unsupported ->
    match inv_mod2k_full_vartime (ln 0 a) (ev 0 a) 64 with Some x => Val [[x mod B]] | None => PanicV end =
    okdom (Z.odd (ev 0 a)) (Val [[modinv (ev 0 a) B]]).
  Proof.
    open_dom D. pose proof (eval_bounds _ (wf_arg 0 a Hwf)) as Ba.
    assert (Hn : (0 < ln 0 a)%nat).
    { unfold ln, ev in *. destruct (arg 0 a); [cbn in D; discriminate | cbn; lia]. }
    destruct (inv_mod2k_correct (ln 0 a) (ev 0 a) 64 Hn ltac:(unfold ev; lia) ltac:(lia)) as (_ & E2 & E3 & E4).
    assert (S : snd (inv_mod2k_vartime (ln 0 a) (ev 0 a) 64) = true).
    { apply E3. apply Z.eqb_eq. rewrite gcd_pow2 by lia. rewrite D. apply orb_true_r. }
    rewrite E2, S. destruct (E4 S) as (R & _ & Ex). rewrite Ex in *. rewrite B_val. rewrite Z.mod_small by assumption. reflexivity.
  Qed.

  (* -- gcd -- *)
  Lemma entry_gcd dbg boxed : uint_gcd_converged boxed (arg 0 a) (arg 1 a) = true ->
    okdom (same_len a) (sp_gcd (ln 0 a) (ev 0 a) (ev 1 a)) <> Unsupported ->
    okdom (same_len a) (out_sg (uint_gcd dbg boxed (arg 0 a) (arg 1 a))) = okdom (same_len a) (sp_gcd (ln 0 a) (ev 0 a) (ev 1 a)).
  Proof.
    intros Hc. open_dom D. destruct (same_len_facts D) as (L1 & Hn & La1 & La0). unfold ev.
    apply out_uint_gcd; try apply wf_arg; assumption.
  Qed.
  Lemma entry_gcd_vt dbg boxed : conv_gcd_vt boxed (arg 0 a) (arg 1 a) = true ->
    okdom (same_len a) (sp_gcd (ln 0 a) (ev 0 a) (ev 1 a)) <> Unsupported ->
    okdom (same_len a) (out_sg (uint_gcd_vartime dbg boxed (arg 0 a) (arg 1 a))) = okdom (same_len a) (sp_gcd (ln 0 a) (ev 0 a) (ev 1 a)).
  Proof.
    intros Hc. open_dom D. destruct (same_len_facts D) as (L1 & Hn & La1 & La0). unfold ev.
    apply out_uint_gcd_vt; try apply wf_arg; assumption.
  Qed.
  Lemma entry_sg_gcd dbg vartime boxed : sg_converged boxed (arg 0 a) (arg 1 a) (unsat_nlimbs (ln 0 a)) = true ->
    okdom (same_len a && Z.odd (ev 0 a)) (sp_gcd (ln 0 a) (ev 0 a) (ev 1 a)) <> Unsupported ->
    okdom (same_len a && Z.odd (ev 0 a)) (out_sg (sg_gcd dbg vartime boxed (arg 0 a) (arg 1 a))) =
    okdom (same_len a && Z.odd (ev 0 a)) (sp_gcd (ln 0 a) (ev 0 a) (ev 1 a)).
  Proof.
    intros Hc. open_dom D. dom_hyps D. destruct (same_len_facts D) as (L1 & Hn & La1 & La0). unfold ev in *.
    apply out_sg_gcd; try apply wf_arg; assumption.
  Qed.
  (* signed operands: s0 / s1 say whether operand 0 / 1 is an Int *)
  Definition gop (s : bool) (i : nat) : list Z := if s then int_abs (arg i a) else arg i a.
  Definition gval (s : bool) (i : nat) : Z := if s then sev i a else ev i a.
  Lemma gop_facts s0 s1 : same_len a = true ->
    wf (gop s0 0) /\ wf (gop s1 1) /\ length (gop s0 0) = ln 0 a /\ length (gop s1 1) = ln 0 a /\
    Z.gcd (eval (gop s0 0)) (eval (gop s1 1)) = Z.gcd (gval s0 0) (gval s1 1).
  Proof.
    intros D. destruct (same_len_facts D) as (L1 & Hn & La1 & La0).
    destruct (int_abs_arg D) as (W0 & L0 & E0). destruct (int_abs_arg1 D) as (W1 & Lx1 & E1).
    unfold gop, gval. destruct s0, s1; rewrite ?E0, ?E1, ?Z.gcd_abs_l, ?Z.gcd_abs_r; repeat split; try apply wf_arg; assumption.
  Qed.
  Lemma entry_gcd_signed dbg s0 s1 : uint_gcd_converged false (gop s0 0) (gop s1 1) = true ->
    okdom (same_len a) (sp_gcd (ln 0 a) (gval s0 0) (gval s1 1)) <> Unsupported ->
    okdom (same_len a) (out_sg (uint_gcd dbg false (gop s0 0) (gop s1 1))) = okdom (same_len a) (sp_gcd (ln 0 a) (gval s0 0) (gval s1 1)).
  Proof.
    intros Hc. open_dom D. destruct (same_len_facts D) as (L1 & Hn & La1 & La0).
    destruct (gop_facts s0 s1 D) as (W0 & W1 & L0 & Lx1 & G).
    rewrite (out_uint_gcd dbg false _ _ (ln 0 a) W0 W1 L0 Lx1 Hn Hty Hc). unfold sp_gcd. rewrite G. reflexivity.
  Qed.
  Lemma entry_gcd_vt_signed dbg s0 s1 : conv_gcd_vt false (gop s0 0) (gop s1 1) = true ->
    okdom (same_len a) (sp_gcd (ln 0 a) (gval s0 0) (gval s1 1)) <> Unsupported ->
    okdom (same_len a) (out_sg (uint_gcd_vartime dbg false (gop s0 0) (gop s1 1))) = okdom (same_len a) (sp_gcd (ln 0 a) (gval s0 0) (gval s1 1)).
  Proof.
    intros Hc. open_dom D. destruct (same_len_facts D) as (L1 & Hn & La1 & La0).
    destruct (gop_facts s0 s1 D) as (W0 & W1 & L0 & Lx1 & G).
    rewrite (out_uint_gcd_vt dbg false _ _ (ln 0 a) W0 W1 L0 Lx1 Hn Hty Hc). unfold sp_gcd. rewrite G. reflexivity.
  Qed.

  (* -- the convergence reports themselves -- *)
  Lemma entry_conv b : b = true -> sp_conv a <> Unsupported -> okdom (same_len a) (Val [vbool b]) = sp_conv a.
  Proof. intros -> _. reflexivity. Qed.

  (* -- Montgomery forms -- *)
  Lemma entry_monty dbg vartime boxed : conv_inv boxed (arg 1 a) (monty_arg (arg 0 a) (arg 1 a)) = true ->
    okdom (same_len a && odd1 a && (1 <? ev 1 a)) (sp_inv a (ev 0 a)) <> Unsupported ->
    okdom (same_len a && odd1 a) (out_sg (monty_inv dbg vartime boxed (arg 0 a) (arg 1 a))) =
    okdom (same_len a && odd1 a && (1 <? ev 1 a)) (sp_inv a (ev 0 a)).
  Proof.
    intros Hc. open_dom D. dom_hyps D. rewrite D, D1. cbn [okdom andb]. dom_conv. destruct (same_len_facts D) as (L1 & Hn & La1 & La0).
    unfold sp_inv in *. destruct (Z.eqb_spec (ev 1 a) 1) as [E1|E1]; [lia|].
    unfold odd1 in D1. rewrite L1. unfold ev in *.
    apply out_monty_inv; try apply wf_arg; try assumption; try lia.
  Qed.
End Entries.

Lemma safegcd_keys_eq : safegcd_keys = [
  "uint.inv_odd_mod"; "uint.inv_odd_mod_vartime"; "uint.inv_adj"; "uint.inv_adj_vartime"; "uint.inv_mod"; "uint.inv_odd_is_some";
  "uint.inv_is_some"; "boxed.inv_odd_is_some"; "boxed.inv_is_some"; "int.inv_odd_is_some"; "int.inv_is_some"; "uint.inv_mod2k";
  "uint.inv_mod2k_vartime"; "uint.inv_mod2k_full64"; "uint.gcd"; "uint.gcd_vartime"; "odd.gcd_vartime"; "uint.safegcd_converged";
  "uint.gcd_converged"; "boxed.gcd_converged"; "int.inv_odd_mod"; "int.inv_mod"; "int.gcd"; "int.gcd_vartime"; "int.gcd_uint";
  "int.gcd_uint_vartime"; "uint.gcd_int"; "uint.gcd_int_vartime"; "boxed.inv_odd_mod"; "boxed.inv_odd_mod_vartime"; "boxed.inv_mod";
  "boxed.inv_mod2k"; "boxed.inv_mod2k_vartime"; "boxed.inv_mod2k_full64"; "boxed.gcd"; "boxed.gcd_vartime"; "boxed_odd.gcd";
  "boxed_odd.gcd_vartime"; "boxed.safegcd_converged"; "monty.inv"; "monty.inv_vartime"; "boxedmonty.inv"; "boxedmonty.inv_vartime"]%string.
Proof. reflexivity. Qed.
Lemma safegcd_spec_keys_eq : map fst ops_safegcd_spec = safegcd_keys.
Proof. reflexivity. Qed.
Lemma safegcd_conv_keys_eq : map fst ops_safegcdconv_model = map (String.append "conv:") safegcd_keys.
Proof. reflexivity. Qed.

Ltac table_open10 :=
  unfold conv_ok, run10 in *;
  lazy beta iota zeta delta [lookup ops_safegcd_model ops_safegcd_spec ops_safegcdconv_model String.eqb Ascii.eqb Bool.eqb String.append] in *.

Ltac entry10 Hnz :=
  first
  [ eapply entry_inv_odd; eassumption
  | eapply entry_inv_adj; eassumption
  | eapply entry_inv_odd_some; eassumption
  | eapply entry_inv_mod; [eassumption | apply Hnz; auto | eassumption | eassumption]
  | eapply entry_inv_some; eassumption
  | eapply entry_int_inv_odd_some; eassumption
  | eapply entry_int_inv_some; eassumption
  | eapply entry_int_inv_odd; eassumption
  | eapply entry_int_inv_mod; eassumption
  | eapply entry_inv2k_ct; eassumption
  | eapply entry_inv2k_vt_uint; eassumption
  | eapply entry_inv2k_vt_boxed; eassumption
  | eapply entry_inv2k_full64; eassumption
  | eapply entry_gcd; eassumption
  | eapply entry_gcd_vt; eassumption
  | eapply entry_sg_gcd; eassumption
  | eapply entry_conv; eassumption ].

(** THE TABLE THEOREM: every entry of ops_safegcd_model equals the entry of ops_safegcd_spec wherever the latter is defined *)
Theorem safegcd_tables_agree_partial k dbg a :
  In k safegcd_keys -> wf_args a -> typed10 a -> modulus_nonzero k a ->
  conv_ok k a ->                                   (* named hypothesis: the iteration converged (reported by the model) *)
  S10 k dbg a <> Unsupported -> M10 k dbg a = S10 k dbg a.
Proof.
  intros Hk Hwf Hty Hnz Hc Hdom. rewrite safegcd_keys_eq in Hk.
  repeat (destruct Hk as [<-|Hk]); try contradiction; table_open10; try apply cv_true in Hc.
  all: try (entry10 Hnz).
  all: try (eapply (entry_gcd_signed _ Hwf Hty dbg true true); eassumption).
  all: try (eapply (entry_gcd_vt_signed _ Hwf Hty dbg true true); eassumption).
  all: try (eapply (entry_gcd_signed _ Hwf Hty dbg true false); eassumption).
  all: try (eapply (entry_gcd_vt_signed _ Hwf Hty dbg true false); eassumption).
  all: try (eapply (entry_gcd_signed _ Hwf Hty dbg false true); eassumption).
  all: try (eapply (entry_gcd_vt_signed _ Hwf Hty dbg false true); eassumption).
  all: try (eapply entry_monty; eassumption).
  all: eapply entry_inv_mod; try eassumption; apply Hnz; auto.
Qed.
