(** C08 proofs, part 7: the constructors agree with each other; the modulus 1; two remarks of the source comment of
    almost_montgomery_mul ("discovered via randomized tests, not proven") that are false as stated and not needed. *)
From CB Require Import Model.Limbs Model.AddSub Model.Mul Model.Div Model.ModArith Model.Monty
  Proofs.WordP Proofs.LimbsP Proofs.AddSubP Proofs.ModArithP
  Proofs.MontyRedP Proofs.MontyAmmP Proofs.MontyNumP Proofs.MontyFormP Proofs.MontyHistP.
From Coq Require Import ZArith Lia List Bool.
Open Scope Z_scope.
Notation length := List.length.

(** MontyParams::new / new_vartime / impl_modulus! (one model: they differ only in which remainder routine is called)
    and BoxedMontyParams::new / new_vartime (r3 through the almost-Montgomery square) produce the same parameter set *)
Theorem params_constructors_agree m : wf m -> length m <> 0%nat -> Z.odd (eval m) = true ->
  params_fixed m = params_boxed m.
Proof.
  intros Hm Hn Hodd. destruct (params_fixed_correct m Hm Hn Hodd) as (E1 & _).
  destruct (params_boxed_correct m Hm Hn Hodd) as (E2 & _). cbv zeta in E1, E2. rewrite E1, E2. reflexivity.
Qed.

Lemma to_limbs_0_zeros n : to_limbs n 0 = zeros n.
Proof.
  induction n as [|n IH]; [reflexivity|]. cbn [to_limbs]. pose proof B_pos.
  rewrite Z.mod_0_l, Z.div_0_l by lia. rewrite IH. reflexivity.
Qed.

(** the modulus 1 (finding F6, repaired): one = r2 = r3 = 0 at every width *)
Theorem params_modulus_one m : wf m -> length m <> 0%nat -> eval m = 1 ->
  let z := zeros (length m) in
  mp_one (params_fixed m) = z /\ mp_r2 (params_fixed m) = z /\ mp_r3 (params_fixed m) = z /\
  mp_one (params_boxed m) = z /\ mp_r2 (params_boxed m) = z /\ mp_r3 (params_boxed m) = z.
Proof.
  intros Hm Hn E. assert (Hodd : Z.odd (eval m) = true) by (rewrite E; reflexivity).
  destruct (params_fixed_correct m Hm Hn Hodd) as (E1 & _).
  destruct (params_boxed_correct m Hm Hn Hodd) as (E2 & _). cbv zeta in *. rewrite E1, E2, E.
  cbn [mp_one mp_r2 mp_r3]. rewrite !Z.mod_1_r, to_limbs_0_zeros. repeat split; reflexivity.
Qed.

(** remark 2 of the source comment, "f(AMM(x, 1)) = 0 regardless of f(x)", fails at x = m (AMM(m, 1) = m); retrieve is
    only ever applied to canonical values (the history invariant), where [amm_by_one_reduced] applies *)
Theorem amm_by_one_remark_refuted :
  exists m x, wf m /\ wf x /\ length x = length m /\ Z.odd (eval m) = true /\
              ~ eval (almost_montgomery_mul_by_one x m (mod_neg_inv_of m)) < eval m.
Proof.
  exists [3], [3].
  assert (W : wf [3]) by (constructor; [unfold is_word; rewrite B_val; lia | constructor]).
  split; [exact W|]. split; [exact W|]. split; [reflexivity|]. split; [reflexivity|].
  vm_compute. intro H; discriminate H.
Qed.

(** remark 3, "f(AMM(x, x)) <= 1 regardless of f(x)", fails at m = (2^64 - 1) / 3, x = 2^64 - 1: AMM(x, x) = 3 m;
    no caller relies on it (every product is followed by the conditional subtraction and has a canonical operand) *)
Theorem amm_square_remark_refuted :
  exists m x, wf m /\ wf x /\ length x = length m /\ Z.odd (eval m) = true /\
              ~ eval (almost_montgomery_mul x x m (mod_neg_inv_of m)) / eval m <= 1.
Proof.
  exists [6148914691236517205], [MAXW].
  assert (W1 : wf [6148914691236517205]) by (constructor; [unfold is_word; rewrite B_val; lia | constructor]).
  assert (W2 : wf [MAXW]) by (constructor; [unfold is_word; rewrite MAXW_val; pose proof B_gt1; lia | constructor]).
  split; [exact W1|]. split; [exact W2|]. split; [reflexivity|]. split; [reflexivity|].
  vm_compute. intro H; apply H; reflexivity.
Qed.
