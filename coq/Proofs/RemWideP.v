(** C02: Uint::rem_wide_vartime (remainder of a double-width dividend). *)
From CB Require Import Model.Limbs Model.Div Proofs.WordP Proofs.LimbsP Proofs.BitsP Proofs.DivP Proofs.Rem2kP
  Proofs.Div3by2P Proofs.KnuthStepP Proofs.DivShiftP Proofs.DivVtP.
From Coq Require Import ZArith Lia List.
Open Scope Z_scope.

Definition wide_body (n yc : nat) (xlo y : list Z) (rc : recip) (st : wst) : wst :=
  let x := w_x st in let xi := w_xi st in
  let quo := div3by2 (w_xhi st) (nthz x xi) (nthz x (xi - 1)) rc (nthz y (yc - 2)) in
  let '(x2, _) := knuth_step x y (w_xhi st) (xi + 1 - yc) 0 yc quo in
  let xhi' := nthz x2 xi in
  if (0 <? w_extra st)%nat then
    let e := (w_extra st - 1)%nat in
    {| w_x := nthz xlo e :: firstn (n - 1) x2; w_xhi := xhi'; w_xi := xi; w_extra := e; w_done := false |}
  else if (xi =? yc - 1)%nat then
    {| w_x := x2; w_xhi := xhi'; w_xi := xi; w_extra := 0; w_done := true |}
  else
    {| w_x := upd x2 xi 0; w_xhi := xhi'; w_xi := (xi - 1)%nat; w_extra := 0; w_done := false |}.

Lemma rem_wide_loop_S f n yc xlo y rc st : w_done st = false ->
  rem_wide_loop (S f) n yc xlo y rc st = rem_wide_loop f n yc xlo y rc (wide_body n yc xlo y rc st).
Proof.
  intros Hd. cbn [rem_wide_loop]. rewrite Hd. unfold wide_body.
  destruct (knuth_step (w_x st) y (w_xhi st) (w_xi st + 1 - yc) 0 yc
    (div3by2 (w_xhi st) (nthz (w_x st) (w_xi st)) (nthz (w_x st) (w_xi st - 1)) rc (nthz y (yc - 2)))) as [x2 mask].
  reflexivity.
Qed.

Lemma rem_wide_loop_done f n yc xlo y rc st : w_done st = true -> rem_wide_loop f n yc xlo y rc st = st.
Proof. intros Hd. destruct f; cbn [rem_wide_loop]; [reflexivity | rewrite Hd; reflexivity]. Qed.

Section Wide.
Variables (k n : nat) (xlo y yl : list Z) (v0 d : Z) (yb : list Z) (rc : recip).
Hypothesis Hy : y = (yl ++ [v0; d]) ++ yb.
Hypothesis Hly : length yl = k.
Hypothesis Hwy : wf yl.
Hypothesis Hv0 : is_word v0.
Hypothesis Hrd : r_d rc = d.
Hypothesis Hn : normalized d.
Hypothesis Hrec : recip_ok d (r_v rc).
Let Y := eval (yl ++ [v0; d]).
Let yc := S (S k).

Lemma wide_iter lo xw qs x_hi e :
  length xw = yc -> wf xw -> is_word x_hi -> eval xw + Bn yc * x_hi < Y * B ->
  exists rl rh q,
    length rl = S k /\ wf rl /\ is_word rh /\ 0 <= q /\
    eval xw + Bn yc * x_hi = q * Y + eval (rl ++ [rh]) /\ 0 <= eval (rl ++ [rh]) < Y /\
    wide_body n yc xlo y rc {| w_x := lo ++ xw ++ qs; w_xhi := x_hi; w_xi := length lo + S k; w_extra := e; w_done := false |} =
      if (0 <? e)%nat then
        {| w_x := nthz xlo (e - 1) :: firstn (n - 1) (lo ++ rl ++ rh :: qs); w_xhi := rh;
           w_xi := length lo + S k; w_extra := e - 1; w_done := false |}
      else if (length lo + S k =? yc - 1)%nat then
        {| w_x := lo ++ rl ++ rh :: qs; w_xhi := rh; w_xi := length lo + S k; w_extra := 0; w_done := true |}
      else
        {| w_x := lo ++ rl ++ 0 :: qs; w_xhi := rh; w_xi := length lo + S k - 1; w_extra := 0; w_done := false |}.
Proof.
  intros Hlx Hwx Hxhi HWY.
  destruct (knuth_iter k y yl v0 d yb rc lo xw qs x_hi Hy Hly Hwy Hv0 Hrd Hn Hrec Hlx Hwx Hxhi HWY)
    as (rl & rh & q & mask & Hk & Hsel & Hlrl & Hwrl & Hrh & Hq & HWq & Hrem).
  exists rl, rh, q. split; [assumption|]. split; [assumption|]. split; [assumption|].
  split; [unfold is_word in Hq; lia|]. split; [exact HWq|]. split; [exact Hrem|].
  unfold wide_body. cbn [w_x w_xhi w_xi w_extra]. cbv zeta in Hk. unfold yc. rewrite Hk.
  replace (lo ++ rl ++ rh :: qs) with ((lo ++ rl) ++ rh :: qs) by (rewrite <- app_assoc; reflexivity).
  rewrite (nthz_app_mid (lo ++ rl) rh qs) by (rewrite app_length; lia).
  rewrite (upd_app_mid (lo ++ rl) rh qs _ 0) by (rewrite app_length; lia).
  rewrite <- !app_assoc. reflexivity.
Qed.

(** phase 2: no limbs of the low half remain outside the buffer *)
Lemma wide_phase2 : forall P xw x_hi z fuel,
  wf P -> length xw = yc -> wf xw -> is_word x_hi -> eval xw + Bn yc * x_hi < Y * B ->
  (length P + 1 <= fuel)%nat ->
  exists R, length R = yc /\ wf R /\
    eval R = (eval P + Bn (length P) * (eval xw + Bn yc * x_hi)) mod Y /\
    w_x (rem_wide_loop fuel n yc xlo y rc
          {| w_x := P ++ xw ++ zeros z; w_xhi := x_hi; w_xi := length P + S k; w_extra := 0; w_done := false |})
      = R ++ zeros (length P + z).
Proof.
  induction P as [|l P' IH] using rev_ind; intros xw x_hi z fuel HwP Hlx Hwx Hxhi HWY Hfuel.
  - destruct fuel as [|f]; [simpl in Hfuel; lia|].
    destruct (wide_iter [] xw (zeros z) x_hi 0%nat Hlx Hwx Hxhi HWY)
      as (rl & rh & q & Hlrl & Hwrl & Hrh & Hq & HWq & Hrem & Hb).
    rewrite rem_wide_loop_S by reflexivity. cbn [length Nat.add app] in *. rewrite Hb.
    change (0 <? 0)%nat with false. cbv iota.
    assert ((S k =? yc - 1)%nat = true) as -> by (apply Nat.eqb_eq; unfold yc; lia).
    rewrite rem_wide_loop_done by reflexivity. cbn [w_x].
    exists (rl ++ [rh]). split; [rewrite app_length; simpl; unfold yc; lia|].
    split; [apply wf_app; split; [assumption | apply wf_cons; split; [assumption | apply wf_nil]]|].
    split; [|rewrite <- app_assoc; reflexivity].
    cbn [eval]. rewrite Bn_0. apply (Z.mod_unique_pos _ _ q); lia.
  - apply wf_app in HwP. destruct HwP as [HwP' Hl]. apply wf_cons in Hl. destruct Hl as [Hl _].
    destruct fuel as [|f]; [lia|].
    destruct (wide_iter (P' ++ [l]) xw (zeros z) x_hi 0%nat Hlx Hwx Hxhi HWY)
      as (rl & rh & q & Hlrl & Hwrl & Hrh & Hq & HWq & Hrem & Hb).
    rewrite rem_wide_loop_S by reflexivity. rewrite Hb.
    change (0 <? 0)%nat with false. cbv iota.
    assert (Hlen : length (P' ++ [l]) = S (length P')) by (rewrite app_length; simpl; lia).
    rewrite Hlen in *.
    assert ((S (length P') + S k =? yc - 1)%nat = false) as -> by (apply Nat.eqb_neq; unfold yc; lia).
    replace (S (length P') + S k - 1)%nat with (length P' + S k)%nat by lia.
    replace ((P' ++ [l]) ++ rl ++ 0 :: zeros z) with (P' ++ (l :: rl) ++ zeros (S z)) by (rewrite <- !app_assoc; reflexivity).
    assert (Hrle : eval (rl ++ [rh]) = eval rl + Bn (S k) * rh) by (rewrite eval_snoc, Hlrl; reflexivity).
    assert (HW' : eval (l :: rl) + Bn yc * rh < Y * B).
    { cbn [eval]. unfold yc. rewrite (Bn_S (S k)). unfold is_word in Hl. pose proof B_gt1.
      assert (B * (eval rl + Bn (S k) * rh) <= B * (Y - 1)) by (apply Z.mul_le_mono_nonneg_l; lia). lia. }
    destruct (IH (l :: rl) rh (S z) f HwP' ltac:(simpl; unfold yc; lia) ltac:(apply wf_cons; split; assumption) Hrh HW' ltac:(lia))
      as (R & HlR & HwR & HeR & Hres).
    exists R. split; [assumption|]. split; [assumption|].
    split; [|rewrite Hres; f_equal; f_equal; lia].
    set (W := eval xw + Bn yc * x_hi) in *.
    rewrite HeR. rewrite eval_snoc. rewrite (Bn_S (length P')).
    cbn [eval]. unfold yc. rewrite (Bn_S (S k)).
    set (a := Bn (length P')) in *.
    rewrite Hrle in HWq.
    assert (Hmul : B * a * W = B * a * (q * Y + (eval rl + Bn (S k) * rh))) by (rewrite HWq; reflexivity).
    assert (HYp : 0 < Y) by lia.
    replace (eval P' + a * l + B * a * W) with ((eval P' + a * (l + B * eval rl + B * Bn (S k) * rh)) + (B * a * q) * Y) by lia.
    rewrite Z.mod_add by lia. reflexivity.
Qed.

(** phase 1: e limbs of the low half are still outside the buffer; P = all pending limbs below the window *)
Lemma wide_phase1 : forall e P xw x_hi fuel,
  wf P -> length P = (e + (n - yc))%nat -> (yc <= n)%nat -> firstn e P = firstn e xlo -> (e <= length xlo)%nat ->
  length xw = yc -> wf xw -> is_word x_hi -> eval xw + Bn yc * x_hi < Y * B ->
  (length P + 1 <= fuel)%nat ->
  exists R, length R = yc /\ wf R /\
    eval R = (eval P + Bn (length P) * (eval xw + Bn yc * x_hi)) mod Y /\
    w_x (rem_wide_loop fuel n yc xlo y rc
          {| w_x := skipn e P ++ xw; w_xhi := x_hi; w_xi := (n - 1)%nat; w_extra := e; w_done := false |})
      = R ++ zeros (n - yc).
Proof.
  induction e as [|e IH]; intros P xw x_hi fuel HwP HlP Hycn Hfst Hexlo Hlx Hwx Hxhi HWY Hfuel.
  - cbn [skipn]. destruct (wide_phase2 P xw x_hi 0%nat fuel HwP Hlx Hwx Hxhi HWY Hfuel) as (R & HlR & HwR & HeR & Hres).
    exists R. split; [assumption|]. split; [assumption|]. split; [assumption|].
    cbn [zeros repeat] in Hres. rewrite app_nil_r in Hres.
    replace (n - 1)%nat with (length P + S k)%nat by (unfold yc in *; lia).
    rewrite Hres. f_equal. f_equal. lia.
  - destruct fuel as [|f]; [lia|].
    destruct (list_snoc P (e + (n - yc))%nat ltac:(lia)) as (P' & l & EP & HlP').
    assert (HwP' : wf P' /\ is_word l).
    { rewrite EP in HwP. apply wf_app in HwP. destruct HwP as [H1 H2]. apply wf_cons in H2. tauto. }
    destruct HwP' as [HwP' Hl].
    set (lo := skipn (S e) P).
    assert (Hllo : length lo = (n - yc)%nat) by (unfold lo; rewrite skipn_length; lia).
    destruct (wide_iter lo xw [] x_hi (S e) Hlx Hwx Hxhi HWY)
      as (rl & rh & q & Hlrl & Hwrl & Hrh & Hq & HWq & Hrem & Hb).
    rewrite rem_wide_loop_S by reflexivity.
    replace (n - 1)%nat with (length lo + S k)%nat by (unfold yc in *; lia).
    replace (lo ++ xw) with (lo ++ xw ++ []) by (rewrite app_nil_r; reflexivity).
    rewrite Hb. change (0 <? S e)%nat with true. cbv iota.
    replace (S e - 1)%nat with e by lia.
    (* the shifted buffer *)
    assert (Hshift : nthz xlo e :: firstn (n - 1) (lo ++ rl ++ [rh]) = skipn e P' ++ (l :: rl)).
    { replace (lo ++ rl ++ [rh]) with ((lo ++ rl) ++ [rh]) by (rewrite <- app_assoc; reflexivity).
      rewrite firstn_app. rewrite firstn_all2 by (rewrite app_length; unfold yc in *; lia).
      replace (n - 1 - length (lo ++ rl))%nat with 0%nat by (rewrite app_length; unfold yc in *; lia).
      cbn [firstn]. rewrite app_nil_r.
      assert (Hnx : nthz xlo e = nthz P e).
      { unfold nthz. rewrite <- (firstn_skipn (S e) xlo), <- (firstn_skipn (S e) P), <- Hfst.
        rewrite !app_nth1; [reflexivity | |]; rewrite firstn_length_le; lia. }
      rewrite Hnx.
      assert (Hsk : skipn e P = nthz P e :: skipn (S e) P).
      { unfold nthz. rewrite (Rem2kP.split_nth P e) at 1 by lia.
        rewrite skipn_app, skipn_all2 by (rewrite firstn_length_le; lia).
        rewrite firstn_length_le by lia. rewrite Nat.sub_diag. reflexivity. }
      change (nthz P e :: lo ++ rl) with ((nthz P e :: lo) ++ rl). unfold lo. rewrite <- Hsk.
      rewrite EP. rewrite skipn_app. replace (e - length P')%nat with 0%nat by lia. cbn [skipn].
      rewrite <- app_assoc. reflexivity. }
    rewrite Hshift.
    assert (Hrle : eval (rl ++ [rh]) = eval rl + Bn (S k) * rh) by (rewrite eval_snoc, Hlrl; reflexivity).
    assert (HW' : eval (l :: rl) + Bn yc * rh < Y * B).
    { cbn [eval]. unfold yc. rewrite (Bn_S (S k)). unfold is_word in Hl. pose proof B_gt1.
      assert (B * (eval rl + Bn (S k) * rh) <= B * (Y - 1)) by (apply Z.mul_le_mono_nonneg_l; lia). lia. }
    assert (Hfst' : firstn e P' = firstn e xlo).
    { assert (H1 : firstn e (firstn (S e) P) = firstn e (firstn (S e) xlo)) by (rewrite Hfst; reflexivity).
      rewrite !firstn_firstn in H1. replace (Nat.min e (S e)) with e in H1 by lia.
      rewrite EP in H1. rewrite firstn_app in H1. replace (e - length P')%nat with 0%nat in H1 by lia.
      cbn [firstn] in H1. rewrite app_nil_r in H1. exact H1. }
    replace (length lo + S k)%nat with (n - 1)%nat by (unfold yc in *; lia).
    destruct (IH P' (l :: rl) rh f HwP' HlP' Hycn Hfst' ltac:(lia) ltac:(simpl; unfold yc; lia)
                ltac:(apply wf_cons; split; assumption) Hrh HW' ltac:(lia))
      as (R & HlR & HwR & HeR & Hres).
    exists R. split; [assumption|]. split; [assumption|]. split; [|exact Hres].
    set (W := eval xw + Bn yc * x_hi) in *.
    rewrite HeR. rewrite EP, eval_snoc, app_length. cbn [length]. rewrite Nat.add_1_r, (Bn_S (length P')).
    cbn [eval]. unfold yc. rewrite (Bn_S (S k)).
    set (a := Bn (length P')) in *.
    rewrite Hrle in HWq.
    assert (Hmul : B * a * W = B * a * (q * Y + (eval rl + Bn (S k) * rh))) by (rewrite HWq; reflexivity).
    assert (HYp : 0 < Y) by lia.
    replace (eval P' + a * l + B * a * W) with ((eval P' + a * (l + B * eval rl + B * Bn (S k) * rh)) + (B * a * q) * Y) by lia.
    rewrite Z.mod_add by lia. reflexivity.
Qed.
End Wide.

(* ---------- helpers ---------- *)
Lemma wshl_mult w s : is_word w -> 0 < s < 64 ->
  exists j, wshl w s = j * 2 ^ s /\ 0 <= j /\ wshl w s + 2 ^ s <= B.
Proof.
  intros Hw Hs. destruct (wshl_split w s Hw Hs) as (_ & _ & j & Hj & Hj0). exists j. split; [assumption|]. split; [assumption|].
  assert (H2s : 0 < 2 ^ s) by (apply Z.pow_pos_nonneg; lia).
  assert (H2t : 0 < 2 ^ (64 - s)) by (apply Z.pow_pos_nonneg; lia).
  assert (Hp : B = 2 ^ (64 - s) * 2 ^ s) by (rewrite B_val, <- Z.pow_add_r by lia; f_equal; lia).
  assert (Hlt : j * 2 ^ s < B) by (rewrite <- Hj; unfold wshl, wrap; pose proof B_pos; apply Z.mod_pos_bound; lia).
  rewrite Hj. rewrite Hp in *.
  assert (j < 2 ^ (64 - s)) by (apply (Z.mul_lt_mono_pos_r (2 ^ s)); lia).
  assert ((j + 1) * 2 ^ s <= 2 ^ (64 - s) * 2 ^ s) by (apply Z.mul_le_mono_nonneg_r; lia). lia.
Qed.

(** OR-ing the carry of the low half into the lowest limb of the shifted high half adds it *)
Lemma shl_or_carry x s c : wf x -> x <> [] -> 0 < s < 64 -> 0 <= c < 2 ^ s ->
  let r := fst (shl_limb x s) in
  let r' := upd r 0 (Z.lor (nthz r 0) c) in
  wf r' /\ eval r' = eval r + c /\ length r' = length x.
Proof.
  intros Hw Hne Hs Hc. destruct x as [|wd t]; [congruence|].
  pose proof (shl_limb_correct (wd :: t) s Hw ltac:(lia)) as H.
  unfold shl_limb in *. cbn [fst]. destruct H as (_ & Hwr & Hlr & _).
  cbn [shl_limb_go] in *. assert (s =? 0 = false) as Es by (apply Z.eqb_neq; lia). rewrite Es in *.
  rewrite Z.div_0_l in * by (apply Z.pow_nonzero; lia). rewrite Z.lor_0_r in *.
  apply wf_cons in Hw. destruct Hw as [Hwd Ht].
  destruct (wshl_mult wd s Hwd Hs) as (j & Hj & Hj0 & Hjb).
  unfold upd, nthz. cbn [firstn skipn nth app].
  assert (Hlor : Z.lor (wshl wd s) c = wshl wd s + c) by (rewrite Hj; apply lor_disjoint; lia).
  rewrite Hlor. apply wf_cons in Hwr. destruct Hwr as [Hh Htl].
  split; [|split].
  - apply wf_cons. split; [|assumption]. unfold is_word in *. lia.
  - cbn [eval]. lia.
  - cbn [length] in *. lia.
Qed.

Lemma divisor_decomp k yw yb : wf yw -> length yw = S (S k) -> Bn (S (S k)) <= 2 * eval yw ->
  exists yl v0 d, yw = yl ++ [v0; d] /\ length yl = k /\ wf yl /\ is_word v0 /\ normalized d /\
    nthz (yw ++ yb) (S (S k) - 1) = d /\ nthz yw (S k) = d /\
    recip_new d = {| r_d := d; r_shift := 0; r_v := reciprocal d |}.
Proof.
  intros Hwyw Hlyw Hnlo.
  destruct (list_snoc yw (S k) Hlyw) as (yw' & d & Eyw & Hlyw').
  destruct (list_snoc yw' k Hlyw') as (yl & v0 & Eyw' & Hlyl).
  assert (Eyw2 : yw = yl ++ [v0; d]) by (rewrite Eyw, Eyw', <- app_assoc; reflexivity).
  assert (Hwy3 : wf yl /\ is_word v0 /\ is_word d).
  { rewrite Eyw2 in Hwyw. apply wf_app in Hwyw. destruct Hwyw as [H1 H2].
    apply wf_cons in H2. destruct H2 as [H2 H3]. apply wf_cons in H3. tauto. }
  destruct Hwy3 as (Hwyl & Hv0 & Hdw).
  assert (Hwyw' : wf yw') by (rewrite Eyw in Hwyw; apply wf_app in Hwyw; tauto).
  assert (Hnd : normalized d).
  { unfold normalized. unfold is_word in Hdw. split; [|lia].
    pose proof (eval_bounds yw' Hwyw') as Hb'. rewrite Hlyw' in Hb'.
    rewrite Eyw, eval_snoc, Hlyw' in Hnlo. rewrite (Bn_S (S k)) in Hnlo.
    pose proof (Bn_pos (S k)) as Hp. pose proof B_half.
    destruct (Z_lt_ge_dec (2 * d) B) as [Hlt|]; [|lia]. exfalso.
    assert (2 * d + 2 <= B) by lia.
    assert (Bn (S k) * (2 * d + 2) <= Bn (S k) * B) by (apply Z.mul_le_mono_nonneg_l; lia). lia. }
  exists yl, v0, d. split; [assumption|]. split; [assumption|]. split; [assumption|]. split; [assumption|].
  split; [assumption|]. split; [|split].
  - rewrite Eyw, <- app_assoc. apply nthz_app_mid. lia.
  - rewrite Eyw. replace (yw' ++ [d]) with (yw' ++ d :: []) by reflexivity. apply nthz_app_mid. lia.
  - apply recip_new_normalized. assumption.
Qed.

Lemma top_limb_top64 v yw k : 0 < v -> nlimbs v = S k -> wf yw -> length yw = S k -> eval yw = v * 2 ^ nshift v ->
  nthz yw k = top64 v.
Proof.
  intros Hv Hnl Hw Hl He. rewrite top64_shifted by assumption. rewrite Hnl.
  destruct (list_snoc yw k Hl) as (yw' & d & Eyw & Hlyw').
  assert (Hwyw' : wf yw') by (rewrite Eyw in Hw; apply wf_app in Hw; tauto).
  rewrite <- He, Eyw. replace (S k - 1)%nat with (length yw') by lia.
  rewrite top_limb_div by assumption.
  replace (yw' ++ [d]) with (yw' ++ d :: []) by reflexivity. apply nthz_app_mid. lia.
Qed.

(* ---------- single-limb divisor, double-width dividend ---------- *)
Lemma rem_limb_wide_correct lo hi d rc :
  wf lo -> wf hi -> length hi = length lo -> (1 <= length lo)%nat -> 0 < d -> recip_for d rc ->
  rem_limb_with_reciprocal_wide lo hi rc = (eval lo + Bn (length lo) * eval hi) mod d.
Proof.
  intros Hwlo Hwhi Hlen Hn1 Hd (Hs & Hdn & Hn & Hr). unfold rem_limb_with_reciprocal_wide.
  set (n := length lo) in *. set (s := r_shift rc) in *.
  pose proof (shl_limb_correct lo s Hwlo Hs) as Hl. destruct (shl_limb lo s) as [los carry] eqn:El. fold n in Hl.
  destruct Hl as (Hle & Hwlos & Hllos & Hcarry).
  pose proof (shl_limb_correct hi s Hwhi Hs) as Hh. rewrite Hlen in Hh. fold n in Hh.
  assert (H2s : 0 < 2 ^ s) by (apply Z.pow_pos_nonneg; lia).
  (* the high half with the carry of the low half *)
  assert (Hhis : exists his', (let '(his, xhi) := shl_limb hi s in
                  (match his with [] => [] | h0 :: t => Z.lor h0 carry :: t end, xhi)) = (his', snd (shl_limb hi s))
                 /\ wf his' /\ length his' = n /\ eval his' = eval (fst (shl_limb hi s)) + carry).
  { destruct (Z.eq_dec s 0) as [Es|Es].
    - assert (carry = 0) by (rewrite Es in Hcarry; simpl in Hcarry; lia). subst carry.
      destruct (shl_limb hi s) as [his xhi]. cbn [fst snd]. destruct Hh as (_ & Hw & Hl & _).
      exists his. split; [|split; [assumption|split; [assumption|lia]]].
      destruct his as [|h0 t]; [reflexivity|]. rewrite Z.lor_0_r. reflexivity.
    - assert (Hne : hi <> []) by (intros ->; simpl in Hlen; lia).
      pose proof (shl_or_carry hi s carry Hwhi Hne ltac:(lia) Hcarry) as Ho. cbv zeta in Ho.
      destruct (shl_limb hi s) as [his xhi]. cbn [fst snd] in *. destruct Hh as (_ & Hw & Hl & _).
      destruct his as [|h0 t]; [simpl in Hl; lia|].
      unfold upd, nthz in Ho. cbn [firstn skipn nth app] in Ho. destruct Ho as (Ho1 & Ho2 & Ho3).
      exists (Z.lor h0 carry :: t). split; [reflexivity|]. split; [assumption|]. split; [lia | assumption]. }
  destruct (shl_limb hi s) as [his xhi]. cbn [fst snd] in Hhis. destruct Hh as (Hhe & Hwhis & Hlhis & Hxhi).
  destruct Hhis as (his' & Ehis & Hwhis' & Hlhis' & Hehis').
  apply pair_equal_spec in Ehis. destruct Ehis as [Ehis _]. rewrite Ehis.
  assert (Hxhi' : 0 <= xhi < r_d rc) by (rewrite Hdn; nia).
  destruct (divlimb_go (rev his') xhi rc) as [q1 r1] eqn:E1.
  pose proof (divlimb_go_correct rc Hn Hr his' xhi q1 r1 Hwhis' Hxhi' E1) as (He1 & Hr1 & _ & _).
  destruct (divlimb_go (rev los) r1 rc) as [q2 r2] eqn:E2.
  pose proof (divlimb_go_correct rc Hn Hr los r1 q2 r2 Hwlos Hr1 E2) as (He2 & Hr2 & _ & _).
  rewrite Hlhis' in He1. rewrite Hllos in He2. rewrite Hdn in *.
  set (T := eval lo + Bn n * eval hi).
  assert (HT : T * 2 ^ s = (Bn n * eval (rev q1) + eval (rev q2)) * (d * 2 ^ s) + r2).
  { unfold T.
    assert (Bn n * (xhi * Bn n + eval his') = Bn n * (eval (rev q1) * (d * 2 ^ s) + r1)) by (rewrite He1; reflexivity).
    lia. }
  assert (Hmod : (T * 2 ^ s) mod (d * 2 ^ s) = r2).
  { symmetry. apply (Z.mod_unique_pos _ _ (Bn n * eval (rev q1) + eval (rev q2))); lia. }
  rewrite Z.mul_mod_distr_r in Hmod by lia. rewrite <- Hmod. apply Z.div_mul. lia.
Qed.

(* ---------- Uint::rem_wide_vartime ---------- *)
Theorem rem_wide_vartime_correct lo hi y0 :
  wf lo -> wf hi -> wf y0 -> length hi = length lo -> eval y0 <> 0 ->
  (nlimbs (eval y0) <= length lo)%nat ->
  recip_ok (top64 (eval y0)) (reciprocal (top64 (eval y0))) ->
  let r := rem_wide_vartime lo hi y0 in
  eval r = (eval lo + Bn (length lo) * eval hi) mod eval y0 /\ length r = length lo /\ wf r.
Proof.
  intros Hwlo Hwhi Hwy Hlen Hnz Hycn Hrec. cbv zeta.
  pose proof (eval_nonneg y0 Hwy) as Hy0. assert (Hyp : 0 < eval y0) by lia.
  destruct (nlimbs_spec _ Hyp) as (Hyc1 & Hsh & Hshe & [Hylo Hyhi] & Hnlo & Hnhi).
  pose proof (nlimbs_le_length y0 Hwy Hyp) as Hycm.
  unfold rem_wide_vartime. fold (nlimbs (eval y0)). fold (nshift (eval y0)).
  set (yc := nlimbs (eval y0)) in *. set (s := nshift (eval y0)) in *.
  set (n := length lo) in *. pose proof B_gt1 as HB.
  destruct (yc =? 1)%nat eqn:E1.
  - apply Nat.eqb_eq in E1. rewrite E1 in *. rewrite Bn_1 in Hyhi.
    pose proof (eval_single_limb y0 Hwy Hyhi) as Hd. set (d := nthz y0 0) in *.
    assert (Hfor : recip_for d (recip_new d)).
    { apply recip_new_for; [lia|]. rewrite recip_new_top64 by lia. rewrite <- Hd. assumption. }
    rewrite (rem_limb_wide_correct lo hi d (recip_new d) Hwlo Hwhi Hlen Hycn ltac:(lia) Hfor). fold n. rewrite <- Hd.
    set (T := eval lo + Bn n * eval hi).
    pose proof (Z.mod_pos_bound T (eval y0) Hyp) as Hmb.
    assert (Hwr : wf [T mod eval y0]) by (apply wf_cons; split; [unfold is_word; lia | apply wf_nil]).
    split; [|split; auto using length_resize, wf_resize].
    rewrite eval_resize_ge by (auto; simpl; lia). cbn [eval]. lia.
  - apply Nat.eqb_neq in E1.
    destruct (shl_limb_vartime_low y0 s yc Hwy Hsh Hycm Hnhi) as (yw & yb & Hyw & Hlyw & Hwyw & Hwyb & Heyw & Heyb & Hlyy).
    destruct (shl_limb_vartime y0 s yc) as [y cy]. cbn [fst] in Hyw. subst y.
    pose proof (shl_limb_vartime_full lo s Hwlo Hsh) as Hxl. fold n in Hxl.
    destruct (shl_limb_vartime lo s n) as [xlo clo]. destruct Hxl as (Hxle & Hwxlo & Hlxlo & Hclo).
    (* the high half, with the carry of the low half in its lowest limb *)
    assert (Hx : exists x' x_hi,
      (let '(x, x_hi) := shl_limb_vartime hi s n in
       (if 0 <? s then upd x 0 (Z.lor (nthz x 0) clo) else x, x_hi)) = (x', x_hi) /\
      wf x' /\ length x' = n /\ 0 <= x_hi < 2 ^ s /\ eval x' + Bn n * x_hi = eval hi * 2 ^ s + clo).
    { pose proof (shl_limb_vartime_full hi s Hwhi Hsh) as Hxh. rewrite Hlen in Hxh. fold n in Hxh.
      destruct (0 <? s) eqn:Es.
      - apply Z.ltb_lt in Es. assert (Hne : hi <> []) by (intros ->; simpl in Hlen; lia).
        pose proof (shl_or_carry hi s clo Hwhi Hne ltac:(lia) Hclo) as Ho. cbv zeta in Ho.
        unfold shl_limb_vartime in *. assert (s =? 0 = false) as Es0 by (apply Z.eqb_neq; lia). rewrite Es0 in *.
        rewrite <- Hlen in *. rewrite firstn_all, Nat.sub_diag in *. cbn [zeros repeat] in *.
        destruct (shl_limb hi s) as [x x_hi]. cbn [fst] in Ho. rewrite app_nil_r in *.
        destruct Hxh as (He & Hw & Hl & Hc). destruct Ho as (Ho1 & Ho2 & Ho3).
        eexists _, _. split; [reflexivity|]. split; [assumption|]. split; [lia|]. split; [assumption | lia].
      - apply Z.ltb_ge in Es. assert (s = 0) by lia. assert (clo = 0) by (subst s; replace (nshift (eval y0)) with 0 in Hclo by lia; simpl in Hclo; lia).
        destruct (shl_limb_vartime hi s n) as [x x_hi]. destruct Hxh as (He & Hw & Hl & Hc).
        eexists _, _. split; [reflexivity|]. split; [assumption|]. split; [assumption|]. split; [assumption | lia]. }
    destruct Hx as (x' & x_hi & Ex & Hwx' & Hlx' & Hxhi & Hxe).
    destruct (shl_limb_vartime hi s n) as [x0 x_hi0]. apply pair_equal_spec in Ex. destruct Ex as [Ex1 Ex2].
    rewrite Ex1. subst x_hi0.
    destruct yc as [|[|k]] eqn:Eyc; [lia | lia |]. clear E1 Hyc1.
    assert (Hnlo' : Bn (S (S k)) <= 2 * eval yw) by (rewrite Heyw; assumption).
    destruct (divisor_decomp k yw yb Hwyw Hlyw Hnlo') as (yl & v0 & d & Eyw & Hlyl & Hwyl & Hv0 & Hnd & Htop & Htop' & Hrn).
    assert (Hdtop : d = top64 (eval y0)).
    { rewrite <- Htop'. apply top_limb_top64; auto. }
    rewrite Htop, Hrn.
    set (rc := {| r_d := d; r_shift := 0; r_v := reciprocal d |}).
    assert (Hrcd : recip_ok d (r_v rc)) by (cbn [r_v rc]; rewrite Hdtop; assumption).
    assert (Eyy : yw ++ yb = (yl ++ [v0; d]) ++ yb) by (rewrite Eyw; reflexivity).
    set (F := firstn (n - S (S k)) x'). set (xw := skipn (n - S (S k)) x').
    assert (HlF : length F = (n - S (S k))%nat) by (unfold F; rewrite firstn_length_le; lia).
    assert (Hlxw : length xw = S (S k)) by (unfold xw; rewrite skipn_length; lia).
    assert (HwF : wf F) by (apply wf_firstn; assumption).
    assert (Hwxw : wf xw) by (apply wf_skipn; assumption).
    assert (Hxhiw : is_word x_hi).
    { unfold is_word. assert (2 ^ s <= 2 ^ 64) by (apply Z.pow_le_mono_r; lia). rewrite B_val. lia. }
    pose proof (eval_bounds xw Hwxw) as Hbxw. rewrite Hlxw in Hbxw.
    assert (HY : eval (yl ++ [v0; d]) = eval y0 * 2 ^ s) by (rewrite <- Eyw; assumption).
    assert (HWY : eval xw + Bn (S (S k)) * x_hi < eval (yl ++ [v0; d]) * B).
    { rewrite HY. pose proof (Bn_pos (S (S k))) as HBp. pose proof B_half as Hh. pose proof p63_pos.
      assert (Hx63 : x_hi + 1 <= 2 ^ 63).
      { assert (2 ^ s <= 2 ^ 63) by (apply Z.pow_le_mono_r; lia). lia. }
      assert (Bn (S (S k)) * (x_hi + 1) <= Bn (S (S k)) * 2 ^ 63) by (apply Z.mul_le_mono_nonneg_l; lia).
      assert (Bn (S (S k)) * 2 ^ 63 <= eval y0 * 2 ^ s * B).
      { rewrite Hh. assert (Bn (S (S k)) * 2 ^ 63 <= (2 * (eval y0 * 2 ^ s)) * 2 ^ 63) by (apply Z.mul_le_mono_nonneg_r; lia). lia. }
      lia. }
    set (P := xlo ++ F).
    assert (HlP : length P = (n + (n - S (S k)))%nat) by (unfold P; rewrite app_length; lia).
    assert (HwP : wf P) by (apply wf_app; split; assumption).
    assert (Hfst : firstn n P = firstn n xlo).
    { unfold P. rewrite firstn_app, Hlxlo, Nat.sub_diag. cbn [firstn]. rewrite app_nil_r. reflexivity. }
    assert (Hskip : skipn n P ++ xw = x').
    { unfold P. rewrite skipn_app, Hlxlo, Nat.sub_diag, skipn_all2 by lia. cbn [skipn app]. apply firstn_skipn. }
    destruct (wide_phase1 k n xlo (yw ++ yb) yl v0 d yb rc Eyy Hlyl Hwyl Hv0 eq_refl Hnd Hrcd
                n P xw x_hi (2 * n + 2)%nat HwP HlP Hycn Hfst ltac:(lia) Hlxw Hwxw Hxhiw HWY ltac:(lia))
      as (R & HlR & HwR & HeR & Hres).
    rewrite Hskip in Hres. rewrite Hres.
    pose proof (shr_limb_vartime_correct R (zeros (n - S (S k))) s HwR (wf_zeros _) (eval_zeros _) Hsh) as Hshr.
    rewrite HlR in Hshr. cbv zeta in Hshr. destruct Hshr as (Hre & Hwr & Hlr).
    split; [|split; [rewrite Hlr, app_length, length_zeros; lia | assumption]].
    rewrite Hre, HeR, HY.
    assert (Htot : eval P + Bn (length P) * (eval xw + Bn (S (S k)) * x_hi) = (eval lo + Bn n * eval hi) * 2 ^ s).
    { unfold P. rewrite eval_app, Hlxlo, app_length, Hlxlo, HlF.
      assert (Hx'e : eval x' = eval F + Bn (n - S (S k)) * eval xw).
      { rewrite <- (firstn_skipn (n - S (S k)) x') at 1. rewrite eval_app. fold F xw. rewrite HlF. reflexivity. }
      rewrite Bn_add.
      assert (HBnn : Bn n = Bn (n - S (S k)) * Bn (S (S k))) by (rewrite <- Bn_add; f_equal; lia).
      set (a := Bn (n - S (S k))) in *. set (b := Bn (S (S k))) in *. set (c := Bn n) in *.
      assert (c * (eval x' + c * x_hi) = c * (eval hi * 2 ^ s + clo)) by (rewrite Hxe; reflexivity).
      assert (c * (a * b * x_hi) = c * (c * x_hi)) by (rewrite HBnn; ring).
      lia. }
    rewrite Htot.
    assert (H2s : 0 < 2 ^ s) by (apply Z.pow_pos_nonneg; lia).
    rewrite Z.mul_mod_distr_r by lia. apply Z.div_mul. lia.
Qed.
