(** C18: the model table and the spec table of Model/Der.v agree, key by key, wherever the spec is defined
    (spec entry <> Unsupported), for every argument list. The `*_orig` entries (the code before the repairs) are
    diagnostics and are not part of the statement. *)
From CB Require Import Model.Limbs Model.Conv Model.Der Proofs.WordP Proofs.LimbsP Proofs.ConvDigitsP Proofs.ConvBytesP
  Proofs.CmpBoxedP Proofs.DerSpecP Proofs.DerCodecP Proofs.DerRoutesP Proofs.RlpCodecP.
From Coq Require Import ZArith Lia List Bool String.
Import ListNotations.
Open Scope Z_scope.
Notation length := List.length.

Definition run_op18 (t : list (string * opfn)) (k : string) (dbg : bool) (args : list (list Z)) : outcome :=
  match lookup k t with Some f => f dbg args | None => Unsupported end.
Notation M18 := (run_op18 ops_der_model).
Notation S18 := (run_op18 ops_der_spec).
Ltac table_open :=
  unfold run_op18;
  lazy beta iota zeta delta [lookup ops_der_model ops_der_spec String.eqb Ascii.eqb Bool.eqb].

Lemma bytes_ok_wfd bs : bytes_ok bs = true -> wfd 256 bs.
Proof.
  unfold bytes_ok, wfd. intros H. apply Forall_forall. intros x Hx. rewrite forallb_forall in H. specialize (H x Hx).
  apply andb_prop in H. destruct H as [H1 H2]. apply Z.leb_le in H1. apply Z.ltb_lt in H2. lia.
Qed.

(** the generic shape of a decoder entry *)
Lemma dec_entry (m : res (list Z)) (o : option Z) n :
  m <> Pn -> (forall v, o = Some v -> m = Ok (to_limbs n v)) -> (forall w, m = Ok w -> exists v, o = Some v) ->
  out_limbs m = sp_dec o n (out_limbs m).
Proof.
  intros Hp Hs Hn. unfold sp_dec. destruct o as [v|].
  - rewrite (Hs v eq_refl). reflexivity.
  - destruct m as [w|e|]; [destruct (Hn w eq_refl) as (v & E); discriminate | reflexivity | contradiction].
Qed.
Lemma try_from_mag0_fits n x v : uint_try_from_uintref true n (mag0 x) = Ok v -> 0 <= x -> v = to_limbs n x /\ 0 <= x < Bn n.
Proof.
  intros H Hx. apply try_from_ok in H; [|apply wfd_mag0]. rewrite bev_mag0 in H by assumption. tauto.
Qed.
Lemma try_from_mag0_run n x : (1 <= n)%nat -> 0 <= x < Bn n -> uint_try_from_uintref true n (mag0 x) = Ok (to_limbs n x).
Proof.
  intros Hn Hx. destruct (try_from_fits true n (mag0 x) (wfd_mag0 x) (length_mag0_fits n x Hx Hn)) as [E _].
  rewrite E, bev_mag0 by lia. reflexivity.
Qed.

Section Entries.
Variable a : list (list Z).

(* ---- encoders ---- *)
Lemma enc_dom (f : Z -> outcome) ok : sp_enc ok a f <> Unsupported ->
  wf (arg 0 a) /\ (1 <= ln 0 a)%nat /\ ok = true /\ sp_enc ok a f = f (ev 0 a).
Proof.
  unfold sp_enc. destruct (wfb (arg 0 a)) eqn:E1; [|intros H; contradiction H; reflexivity].
  destruct (Nat.eqb_spec (ln 0 a) 0); [intros H; contradiction H; reflexivity|].
  destruct ok; [|intros H; contradiction H; reflexivity]. cbn [negb andb]. intros _.
  repeat split; try reflexivity; [apply wfb_wf; assumption | lia].
Qed.
Lemma der_width (n : nat) : sp_der_width_ok n = true -> 8 * Z.of_nat n + 7 <= LEN_MAX.
Proof. unfold sp_der_width_ok. intros H. apply Z.leb_le in H. assumption. Qed.

Lemma entry_der_encode : let s := sp_enc (sp_der_width_ok (ln 0 a)) a (fun x => Val [sp_der_encode x]) in
  s <> Unsupported -> out_bytes (der_encode (arg 0 a)) = s.
Proof.
  cbv zeta. intros H. destruct (enc_dom _ _ H) as (Hw & Hn & Hk & ->). apply der_width in Hk. unfold ln, ev in *.
  rewrite der_encode_spec by (try assumption; apply width_total_len; assumption). reflexivity.
Qed.
Lemma entry_der_encoded_len : let s := sp_enc (sp_der_width_ok (ln 0 a)) a (fun x => Val [[lenZ (sp_der_encode x)]]) in
  s <> Unsupported -> out_scalar (der_encoded_len (arg 0 a)) = s.
Proof.
  cbv zeta. intros H. destruct (enc_dom _ _ H) as (Hw & Hn & Hk & ->). apply der_width in Hk. unfold ln, ev in *.
  rewrite der_encoded_len_spec by (try assumption; apply width_total_len; assumption). reflexivity.
Qed.
Lemma entry_der_value_len : let s := sp_enc (sp_der_width_ok (ln 0 a)) a (fun x => Val [[sp_der_content_len x]]) in
  s <> Unsupported -> out_scalar (der_value_len (arg 0 a)) = s.
Proof.
  cbv zeta. intros H. destruct (enc_dom _ _ H) as (Hw & Hn & Hk & ->). apply der_width in Hk. unfold ln, ev in *.
  rewrite der_value_len_spec by (try assumption; apply width_total_len; assumption). reflexivity.
Qed.
Lemma entry_der_encode_value : let s := sp_enc (sp_der_width_ok (ln 0 a)) a (fun x => Val [sp_der_content x]) in
  s <> Unsupported -> out_bytes (der_encode_value (arg 0 a)) = s.
Proof.
  cbv zeta. intros H. destruct (enc_dom _ _ H) as (Hw & Hn & Hk & ->). apply der_width in Hk. unfold ln, ev in *.
  rewrite der_encode_value_spec by (try assumption; apply width_total_len; assumption). reflexivity.
Qed.
Lemma entry_rlp_encode : let s := sp_enc (sp_rlp_width_ok (ln 0 a)) a (fun x => Val [sp_rlp_encode x]) in
  s <> Unsupported -> Val [rlp_encode (arg 0 a)] = s.
Proof.
  cbv zeta. intros H. destruct (enc_dom _ _ H) as (Hw & Hn & Hk & ->). unfold sp_rlp_width_ok in Hk. apply Z.ltb_lt in Hk.
  unfold ln, ev in *. rewrite rlp_encode_spec by assumption. reflexivity.
Qed.

(* ---- decoders ---- *)
Lemma entry_from_der : let s := sp_from_der (der_decode true) a in
  s <> Unsupported -> out_limbs (der_decode true (cv_nat 1 a) (arg 0 a)) = s.
Proof.
  cbv zeta. unfold sp_from_der, sp_bytes_arg. set (n := cv_nat 1 a). set (bs := arg 0 a).
  destruct (bytes_ok bs) eqn:Eb; [|intros H; contradiction H; reflexivity]. apply bytes_ok_wfd in Eb.
  destruct (sp_len_ok bs) eqn:El; [|intros H; contradiction H; reflexivity]. apply Z.leb_le in El.
  unfold sp_n_ok. destruct (Nat.eqb_spec n 0) as [|Hn]; [intros H; contradiction H; reflexivity|]. cbn [negb andb]. intros _.
  apply dec_entry.
  - apply der_decode_nopn.
  - intros v E. apply (sp_der_decode_iff n bs v Eb) in E. destruct E as [Hv ->]. apply der_decode_complete; [lia | assumption | assumption].
  - intros w E. destruct (der_decode_sound true n bs w Eb E) as (_ & _ & Hv & _ & Ee & _).
    exists (eval w). apply (sp_der_decode_iff n bs (eval w) Eb). auto.
Qed.
Lemma entry_from_any : let s := sp_from_der (der_from_any true) a in
  s <> Unsupported -> out_limbs (der_from_any true (cv_nat 1 a) (arg 0 a)) = s.
Proof.
  cbv zeta. unfold sp_from_der, sp_bytes_arg. set (n := cv_nat 1 a). set (bs := arg 0 a).
  destruct (bytes_ok bs) eqn:Eb; [|intros H; contradiction H; reflexivity]. apply bytes_ok_wfd in Eb.
  destruct (sp_len_ok bs) eqn:El; [|intros H; contradiction H; reflexivity]. apply Z.leb_le in El.
  unfold sp_n_ok. destruct (Nat.eqb_spec n 0) as [|Hn]; [intros H; contradiction H; reflexivity|]. cbn [negb andb]. intros _.
  apply dec_entry.
  - apply der_from_any_nopn.
  - intros v E. apply (sp_der_decode_iff n bs v Eb) in E. destruct E as [Hv ->].
    rewrite der_from_any_run by (assumption || lia). apply try_from_mag0_run; [lia | assumption].
  - intros w E. destruct (der_from_any_ok true n bs w Eb E) as (x & Hx & Ee & _ & Ht).
    apply try_from_mag0_fits in Ht; [|assumption]. exists x. apply (sp_der_decode_iff n bs x Eb). tauto.
Qed.
Lemma entry_from_any_parts : let s := sp_from_any_parts true a in
  s <> Unsupported -> out_limbs (der_from_any_parts true (cv_nat 2 a) (sarg 0 a) (arg 1 a)) = s.
Proof.
  cbv zeta. unfold sp_from_any_parts, sp_bytes_arg. set (n := cv_nat 2 a). set (tb := sarg 0 a). set (c := arg 1 a).
  destruct (bytes_ok c) eqn:Eb; [|intros H; contradiction H; reflexivity]. apply bytes_ok_wfd in Eb.
  destruct ((0 <=? tb) && (tb <? 256) && sp_len_ok c && sp_n_ok n) eqn:Ed; [|intros H; contradiction H; reflexivity].
  cbn [negb]. intros _. apply andb_prop in Ed. destruct Ed as [Ed Hn]. apply andb_prop in Ed. destruct Ed as [_ El].
  apply Z.leb_le in El. unfold sp_n_ok in Hn. destruct (Nat.eqb_spec n 0); [discriminate|].
  rewrite horner_bev. assert (Hx : 0 <= bev c) by (apply bev_bounds; assumption).
  apply dec_entry.
  - apply der_from_any_parts_nopn.
  - intros v E. destruct (Z.eqb_spec tb 2) as [->|]; [|discriminate].
    destruct (list_eqb (sp_der_content (bev c)) c) eqn:Ec; [|discriminate]. apply list_eqb_eq in Ec.
    destruct (Z.ltb_spec (bev c) (Bn n)); [|discriminate]. cbn [andb] in E. apply some_inj in E. subst v.
    assert (Hc : der_canonb c = true) by (rewrite <- Ec; apply content_canon; assumption).
    change 2 with TAG_INTEGER. rewrite der_from_any_parts_run by assumption. apply try_from_mag0_run; [lia | lia].
  - intros w E. apply der_from_any_parts_ok in E; [|assumption]. destruct E as (-> & Hc & _ & Ht).
    apply try_from_mag0_fits in Ht; [|assumption]. exists (bev c).
    change (TAG_INTEGER =? 2) with true. rewrite canon_unique by assumption. rewrite list_eqb_refl. rewrite ltb_true by lia. reflexivity.
Qed.
Lemma entry_from_uintref : let s := sp_from_uintref true a in
  s <> Unsupported -> out_limbs (der_from_uintref true (cv_nat 1 a) (arg 0 a)) = s.
Proof.
  cbv zeta. unfold sp_from_uintref, sp_bytes_arg. set (n := cv_nat 1 a). set (bs := arg 0 a).
  destruct (bytes_ok bs) eqn:Eb; [|intros H; contradiction H; reflexivity]. apply bytes_ok_wfd in Eb.
  destruct (sp_len_ok bs && sp_n_ok n) eqn:Ed; [|intros H; contradiction H; reflexivity].
  cbn [negb]. intros _. apply andb_prop in Ed. destruct Ed as [El Hn]. apply Z.leb_le in El.
  unfold sp_n_ok in Hn. destruct (Nat.eqb_spec n 0); [discriminate|].
  rewrite horner_bev. assert (Hx : 0 <= bev bs) by (apply bev_bounds; assumption).
  destruct bs as [|b r] eqn:Ebs.
  { rewrite der_from_uintref_nil. rewrite bev_nil. pose proof (Bn_pos n). rewrite ltb_true by lia. reflexivity. }
  rewrite <- Ebs in *. assert (Hne : bs <> []) by (rewrite Ebs; discriminate).
  rewrite der_from_uintref_spec by assumption.
  apply dec_entry.
  - apply try_from_nopn.
  - intros v E. destruct (Z.ltb_spec (bev bs) (Bn n)); [|discriminate]. apply some_inj in E. subst v.
    apply try_from_mag0_run; lia.
  - intros w E. apply try_from_mag0_fits in E; [|assumption]. exists (bev bs). rewrite ltb_true by lia. reflexivity.
Qed.
Lemma entry_decode_value : let s := sp_decode_value true a in
  s <> Unsupported -> out_pair (der_decode_value true (cv_nat 2 a) (sarg 0 a) (arg 1 a)) = s.
Proof.
  cbv zeta. unfold sp_decode_value, sp_bytes_arg. set (n := cv_nat 2 a). set (hlen := sarg 0 a). set (bs := arg 1 a).
  destruct (bytes_ok bs) eqn:Eb; [|intros H; contradiction H; reflexivity]. apply bytes_ok_wfd in Eb.
  destruct ((0 <=? hlen) && (hlen <=? LEN_MAX) && sp_len_ok bs && sp_n_ok n) eqn:Ed; [|intros H; contradiction H; reflexivity].
  cbn [negb]. intros _. apply andb_prop in Ed. destruct Ed as [Ed Hn]. apply andb_prop in Ed. destruct Ed as [Ed El].
  apply andb_prop in Ed. destruct Ed as [H0 H1]. apply Z.leb_le in El, H0, H1.
  unfold sp_n_ok in Hn. destruct (Nat.eqb_spec n 0); [discriminate|].
  pose proof (der_decode_value_nopn n hlen bs) as Hp.
  destruct (Z.ltb_spec (lenZ bs) hlen) as [Hs|Hs].
  - (* not enough input *)
    destruct (der_decode_value true n hlen bs) as [[v rem]|e|] eqn:E; [|reflexivity|contradiction].
    exfalso. apply der_decode_value_ok in E; [|assumption|assumption]. destruct E as (c & rest & E & Lc & _).
    rewrite E, lenZ_app in Hs. pose proof (lenZ_nonneg rest). lia.
  - set (c := firstn (Z.to_nat hlen) bs). set (rest := skipn (Z.to_nat hlen) bs).
    assert (Es : bs = c ++ rest) by (symmetry; apply firstn_skipn).
    assert (Lc : lenZ c = hlen) by (apply lenZ_firstn; lia).
    assert (Hwc : wfd 256 c) by (apply wfd_firstn; assumption).
    assert (Lr : lenZ rest = lenZ bs - hlen) by (apply lenZ_skipn; lia).
    rewrite horner_bev. assert (Hx : 0 <= bev c) by (apply bev_bounds; assumption).
    destruct (list_eqb (sp_der_content (bev c)) c && (bev c <? Bn n)) eqn:Ec.
    + apply andb_prop in Ec. destruct Ec as [Ec Hv]. apply list_eqb_eq in Ec. apply Z.ltb_lt in Hv.
      assert (Hc : der_canonb c = true) by (rewrite <- Ec; apply content_canon; assumption).
      rewrite Es at 1. rewrite <- Lc at 1. rewrite der_decode_value_run by (try assumption; rewrite <- Es; assumption).
      rewrite try_from_mag0_run by lia. cbn [bind out_pair fst snd]. rewrite Lr. reflexivity.
    + destruct (der_decode_value true n hlen bs) as [[v rem]|e|] eqn:E; [|reflexivity|contradiction].
      exfalso. apply der_decode_value_ok in E; [|assumption|assumption]. destruct E as (c' & rest' & E & Lc' & Hwc' & Hcc & _ & Ht).
      assert (c' = c). { unfold c. rewrite E. rewrite <- Lc'. unfold lenZ. rewrite Nat2Z.id. symmetry. apply firstn_app_len. reflexivity. }
      subst c'. apply try_from_mag0_fits in Ht; [|assumption].
      rewrite canon_unique, list_eqb_refl in Ec by assumption. rewrite ltb_true in Ec by lia. discriminate.
Qed.
Lemma entry_rlp_decode : let s := sp_rlp_dec true a in
  s <> Unsupported -> out_limbs (rlp_decode true (cv_nat 1 a) (arg 0 a)) = s.
Proof.
  cbv zeta. unfold sp_rlp_dec, sp_bytes_arg. set (n := cv_nat 1 a). set (bs := arg 0 a).
  destruct (bytes_ok bs) eqn:Eb; [|intros H; contradiction H; reflexivity]. apply bytes_ok_wfd in Eb.
  destruct (Z.ltb_spec (lenZ bs) USIZE) as [Hu|Hu]; [|intros Hc; contradiction Hc; reflexivity]. intros _.
  apply dec_entry.
  - apply rlp_decode_nopn.
  - intros v E. apply (sp_rlp_decode_iff n bs v Eb) in E. destruct E as [Hv ->]. apply rlp_decode_complete; assumption.
  - intros w E. destruct (rlp_decode_sound n bs w Eb E) as (_ & _ & Hv & _ & Ee).
    exists (eval w). apply (sp_rlp_decode_iff n bs (eval w) Eb). auto.
Qed.
Lemma entry_rlp_decode_item : let s := sp_rlp_dec_item true a in
  s <> Unsupported -> out_limbs (rlp_decode_item true (cv_nat 1 a) (arg 0 a)) = s.
Proof.
  cbv zeta. unfold sp_rlp_dec_item, sp_bytes_arg. set (n := cv_nat 1 a). set (bs := arg 0 a).
  destruct (bytes_ok bs) eqn:Eb; [|intros H; contradiction H; reflexivity]. apply bytes_ok_wfd in Eb.
  destruct (Z.ltb_spec (lenZ bs) USIZE) as [Hu|Hu]; [|intros Hc; contradiction Hc; reflexivity]. intros _.
  apply dec_entry.
  - apply rlp_decode_item_nopn.
  - intros v E. unfold sp_rlp_decode_item in E.
    destruct (find _ _) as [k|] eqn:Ef; [|discriminate]. clear Ef.
    apply (sp_rlp_decode_iff n (firstn k bs) v (wfd_firstn 256 k bs Eb)) in E. destruct E as [Hv Ek].
    rewrite <- (firstn_skipn k bs) in Hu |- *. rewrite Ek in Hu |- *.
    rewrite rlp_decode_item_run by (assumption || lia). apply rlp_decode_complete; [assumption|].
    rewrite lenZ_app in Hu. pose proof (lenZ_nonneg (skipn k bs)). lia.
  - intros w E. unfold rlp_decode_item in E. inv_bind E. destruct a0 as [hl vl]. cbn [fst snd] in E.
    pose proof (payload_info_total _ _ _ Ha) as Ht. set (k0 := Z.to_nat (hl + vl)) in *.
    destruct (rlp_decode_sound n (firstn k0 bs) w (wfd_firstn 256 k0 bs Eb) E) as (_ & _ & Hv & _ & Ee).
    assert (Hs : sp_rlp_decode n (firstn k0 bs) = Some (eval w)).
    { apply (sp_rlp_decode_iff n (firstn k0 bs) (eval w) (wfd_firstn 256 k0 bs Eb)). auto. }
    unfold sp_rlp_decode_item.
    destruct (find _ _) as [k|] eqn:Ef.
    + apply find_some in Ef. destruct Ef as [_ Ef]. destruct (sp_rlp_decode n (firstn k bs)) as [v'|]; [exists v'; reflexivity | discriminate].
    + exfalso. pose proof (find_none _ _ Ef k0) as Hn. cbv beta in Hn. rewrite Hs in Hn.
      assert (In k0 (seq 0 (S (length bs)))); [|specialize (Hn H); discriminate].
      apply in_seq. unfold k0, lenZ in *. lia.
Qed.
End Entries.

Definition der_keys : list string :=
  ["der.encode"; "der.encoded_len"; "der.value_len"; "der.encode_value"; "der.from_der"; "der.from_any";
   "der.from_any_parts"; "der.from_uintref"; "der.decode_value"; "rlp.encode"; "rlp.decode"; "rlp.decode_item"]%string.

Theorem tables_agree_der : forall dbg a k, In k der_keys -> S18 k dbg a <> Unsupported -> M18 k dbg a = S18 k dbg a.
Proof.
  intros dbg a k Hin. unfold der_keys in Hin. cbn [In] in Hin.
  repeat (destruct Hin as [<- | Hin]); try contradiction; table_open.
  - apply entry_der_encode.
  - apply entry_der_encoded_len.
  - apply entry_der_value_len.
  - apply entry_der_encode_value.
  - apply entry_from_der.
  - apply entry_from_any.
  - apply entry_from_any_parts.
  - apply entry_from_uintref.
  - apply entry_decode_value.
  - apply entry_rlp_encode.
  - apply entry_rlp_decode.
  - apply entry_rlp_decode_item.
Qed.
