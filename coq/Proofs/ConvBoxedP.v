(** C16 proofs, part 4: BoxedUint::from_be_slice / from_le_slice (length and precision errors),
    leading_zeros / bits, widen / shorten. *)
From CB Require Import Model.Limbs Model.Conv Proofs.WordP Proofs.LimbsP Proofs.ConvDigitsP Proofs.ConvBytesP.
From Coq Require Import ZArith Lia List Bool.
Import ListNotations.
Open Scope Z_scope.
Open Scope list_scope.

(* ---- u32::div_ceil ---- *)
Lemma div_ceil_eq p k : 0 < k ->
  (let d := p / k in if 0 <? p mod k then d + 1 else d) = (p + (k - 1)) / k.
Proof.
  intros Hk. cbv zeta.
  pose proof (Z.div_mod p k ltac:(lia)) as Hdm. pose proof (Z.mod_pos_bound p k Hk) as Hmb.
  destruct (Z.ltb_spec 0 (p mod k)).
  - symmetry. apply (proj1 (div_mod_unique_pos k (p / k + 1) (p mod k - 1) (p + (k - 1)) ltac:(lia) ltac:(lia))).
  - symmetry. apply (proj1 (div_mod_unique_pos k (p / k) (k - 1) (p + (k - 1)) ltac:(lia) ltac:(lia))).
Qed.

Lemma limbs_for_precision_eq p : limbs_for_precision p = Z.to_nat ((p + 63) / 64).
Proof. unfold limbs_for_precision. f_equal. apply (div_ceil_eq p 64). reflexivity. Qed.

Lemma zero_with_precision_pos p : 1 <= p ->
  zero_with_precision p = zeros (limbs_for_precision p) /\ (1 <= limbs_for_precision p)%nat.
Proof.
  intros Hp. rewrite limbs_for_precision_eq.
  assert (1 <= (p + 63) / 64) by (apply Z.div_le_lower_bound; lia).
  assert (Hn : (1 <= Z.to_nat ((p + 63) / 64))%nat) by lia.
  split; [|assumption]. unfold zero_with_precision. rewrite limbs_for_precision_eq.
  destruct (Z.to_nat ((p + 63) / 64)); [lia | reflexivity].
Qed.

(* ---- variable-length chunking ---- *)
Lemma chunks_all_nil f k : chunks_all f k [] = [].
Proof. destruct f; reflexivity. Qed.

Lemma chunks_all_spec b k : 0 < b -> (0 < k)%nat -> forall fuel bs, (length bs <= fuel)%nat -> wfd b bs ->
  evalb (b ^ Z.of_nat k) (map (evalb b) (chunks_all fuel k bs)) = evalb b bs /\
  Forall (fun c => (length c <= k)%nat /\ wfd b c) (chunks_all fuel k bs) /\
  (k * length (chunks_all fuel k bs) < length bs + k)%nat.
Proof.
  intros Hb Hk. induction fuel as [|f IH]; intros bs Hl Hw.
  - destruct bs; [|cbn in Hl; lia]. cbn. repeat split; [constructor | lia].
  - destruct bs as [|x bs']; [cbn; repeat split; [constructor | lia]|].
    cbn [chunks_all]. remember (x :: bs') as bs eqn:Ebs.
    assert (Hlen : (length bs >= 1)%nat) by (rewrite Ebs; cbn [length]; lia).
    assert (Hs : (length (skipn k bs) <= f)%nat) by (rewrite skipn_length; lia).
    destruct (IH (skipn k bs) Hs (wfd_skipn b k bs Hw)) as (He & Hf & Hc).
    cbn [map evalb length]. rewrite He.
    split; [|split].
    + rewrite <- (firstn_skipn k bs) at 3. rewrite evalb_app.
      destruct (Nat.le_gt_cases k (length bs)) as [Hge|Hlt].
      * rewrite firstn_length_le by assumption. reflexivity.
      * rewrite (skipn_all2 bs) by lia. cbn [evalb]. lia.
    + constructor; [|assumption]. split; [rewrite firstn_length; lia | apply wfd_firstn; assumption].
    + rewrite skipn_length in Hc.
      destruct (Nat.le_gt_cases k (length bs)) as [Hge|Hlt]; [lia|].
      rewrite (skipn_all2 bs), chunks_all_nil by lia. cbn [length]. lia.
Qed.

Lemma evalb_rev_zeros b k : evalb b (rev (repeat 0 k)) = 0.
Proof.
  induction k; cbn [repeat rev]; [reflexivity|]. rewrite evalb_app, IHk. cbn [evalb]. lia.
Qed.
Lemma limb_from_le_slice_eval c : limb_from_le_slice c = evalb 256 c.
Proof. unfold limb_from_le_slice, word_from_le_bytes, zeros. rewrite evalb_app, evalb_repeat0. lia. Qed.
Lemma limb_from_be_slice_eval c : limb_from_be_slice (rev c) = evalb 256 c.
Proof.
  unfold limb_from_be_slice, word_from_be_bytes, zeros.
  rewrite rev_app_distr, rev_involutive, evalb_app, evalb_rev_zeros. lia.
Qed.

Lemma skipn_repeat {A} (x : A) n m : skipn m (repeat x n) = repeat x (n - m).
Proof.
  revert m; induction n; intros m; destruct m; cbn [repeat skipn Nat.sub]; try reflexivity. apply IHn.
Qed.

Lemma zip_assign_zeros nl vals : wf vals -> (length vals <= nl)%nat ->
  let r := zip_assign (zeros nl) vals in wf r /\ length r = nl /\ eval r = eval vals.
Proof.
  intros Hw Hl r. unfold r, zip_assign. rewrite length_zeros, firstn_all2 by lia.
  unfold zeros. rewrite skipn_repeat. fold (zeros (nl - length vals)).
  repeat split.
  - apply wf_app. split; [assumption | apply wf_zeros].
  - rewrite app_length, length_zeros. lia.
  - rewrite eval_app, eval_zeros. lia.
Qed.

(* ---- leading_zeros / bits ---- *)
Definition bitlen (v : Z) : Z := if v =? 0 then 0 else Z.log2 v + 1.

Lemma log2_shifted m l e : 0 <= m -> 1 <= l -> 0 <= e < 2 ^ m -> Z.log2 (e + 2 ^ m * l) = m + Z.log2 l.
Proof.
  intros Hm Hl He. pose proof (Z.log2_spec l ltac:(lia)) as [L1 L2]. pose proof (Z.log2_nonneg l).
  apply Z.log2_unique; [lia|].
  replace (Z.succ (m + Z.log2 l)) with (m + Z.succ (Z.log2 l)) by lia.
  rewrite !Z.pow_add_r by lia.
  assert (0 < 2 ^ m) by (apply Z.pow_pos_nonneg; lia).
  split.
  - assert (2 ^ m * 2 ^ Z.log2 l <= 2 ^ m * l) by (apply Z.mul_le_mono_nonneg_l; lia). lia.
  - assert (2 ^ m * (l + 1) <= 2 ^ m * 2 ^ Z.succ (Z.log2 l)) by (apply Z.mul_le_mono_nonneg_l; lia). lia.
Qed.

Lemma lz_scan_false ms c : lz_scan ms false c = c.
Proof. revert c; induction ms; intros; cbn [lz_scan andb]; [reflexivity | apply IHms]. Qed.

Lemma lz_scan_true ms : forall c, wf ms ->
  lz_scan ms true c = c + 64 * Z.of_nat (length ms) - bitlen (eval (rev ms)).
Proof.
  induction ms as [|l r IH]; intros c Hw.
  - cbn. lia.
  - apply wf_cons in Hw. destruct Hw as [Hl Hw]. cbn [lz_scan andb rev length].
    rewrite eval_app, rev_length. cbn [eval]. rewrite Z.mul_0_r, Z.add_0_r.
    unfold word_lz. destruct (Z.eqb_spec l 0) as [->|Hnz].
    + rewrite IH by assumption. rewrite Z.mul_0_r, Z.add_0_r. lia.
    + rewrite lz_scan_false. unfold is_word in Hl.
      pose proof (eval_bounds (rev r) ltac:(unfold wf in *; apply Forall_rev; assumption)) as Hb.
      rewrite rev_length, Bn_2 in Hb.
      unfold bitlen. rewrite Bn_2.
      assert (0 < 2 ^ Z.of_nat (64 * length r)) by (apply Z.pow_pos_nonneg; lia).
      destruct (Z.eqb_spec (eval (rev r) + 2 ^ Z.of_nat (64 * length r) * l) 0) as [E0|_]; [nia|].
      rewrite log2_shifted by lia. lia.
Qed.

Lemma boxed_bits_bitlen ls : wf ls -> boxed_bits ls = bitlen (eval ls).
Proof.
  intros Hw. unfold boxed_bits, leading_zeros, lenZ.
  rewrite lz_scan_true by (unfold wf in *; apply Forall_rev; assumption).
  rewrite rev_involutive, rev_length. lia.
Qed.

Lemma bitlen_lt p v : 0 <= p -> 0 <= v -> (p <? bitlen v) = (2 ^ p <=? v).
Proof.
  intros Hp Hv. unfold bitlen. destruct (Z.eqb_spec v 0) as [->|Hnz].
  - assert (0 < 2 ^ p) by (apply Z.pow_pos_nonneg; lia).
    destruct (Z.ltb_spec p 0); destruct (Z.leb_spec (2 ^ p) 0); lia.
  - pose proof (Z.log2_le_pow2 v p ltac:(lia)) as Hiff.
    destruct (Z.ltb_spec p (Z.log2 v + 1)); destruct (Z.leb_spec (2 ^ p) v); try reflexivity; lia.
Qed.

(** bits_precision < bits()  iff  the value does not fit the precision *)
Lemma bits_spec ls p : wf ls -> 0 <= p -> (p <? boxed_bits ls) = (2 ^ p <=? eval ls).
Proof. intros Hw Hp. rewrite boxed_bits_bitlen by assumption. apply bitlen_lt; [assumption | apply eval_nonneg; assumption]. Qed.

(* ---- the decoded limbs ---- *)
Lemma vals_eq (be : bool) bs :
  (if be then map limb_from_be_slice (rchunks 8 bs)
   else map limb_from_le_slice (chunks_all (length bs) 8 bs)) =
  map (evalb 256) (chunks_all (length bs) 8 (if be then rev bs else bs)).
Proof.
  destruct be.
  - unfold rchunks. rewrite map_map. apply map_ext. intros c. apply limb_from_be_slice_eval.
  - apply map_ext. intros c. apply limb_from_le_slice_eval.
Qed.

(** * BoxedUint::from_be_slice / from_le_slice: closed form of the outcome.
    InputSize exactly when the input is longer than the precision rounded up to bytes, Precision exactly
    when the value is >= 2^bits_precision, otherwise the value at the precision rounded up to limbs. *)
Theorem boxed_from_slice_spec (be : bool) bs p : wfd 256 bs -> 0 <= p ->
  let v := evalb 256 (if be then rev bs else bs) in
  boxed_from_slice be bs p =
    if Nat.eqb (length bs) 0 && (p =? 0) then Val [[0]]
    else if (p + 7) / 8 <? Z.of_nat (length bs) then ErrV E_InputSize
    else if 2 ^ p <=? v then ErrV E_Precision
    else Val [to_limbs (limbs_for_precision p) v].
Proof.
  intros Hw Hp v. unfold boxed_from_slice.
  destruct (Nat.eqb (length bs) 0 && (p =? 0)) eqn:E1; [reflexivity|].
  pose proof (div_ceil_eq p 8 eq_refl) as Hdc. cbv zeta in Hdc. change (8 - 1) with 7 in Hdc. rewrite Hdc.
  destruct (Z.ltb_spec ((p + 7) / 8) (Z.of_nat (length bs))) as [|Hlen]; [reflexivity|].
  assert (Hp1 : 1 <= p).
  { destruct (Z.eq_dec p 0) as [->|]; [|lia]. change ((0 + 7) / 8) with 0 in Hlen.
    assert (length bs = 0%nat) by lia. rewrite H in E1. cbn in E1. discriminate. }
  destruct (zero_with_precision_pos p Hp1) as [-> Hnl].
  rewrite vals_eq.
  set (bs' := if be then rev bs else bs) in *.
  assert (Hw' : wfd 256 bs') by (unfold bs'; destruct be; [apply wfd_rev|]; assumption).
  assert (Hl' : length bs' = length bs) by (unfold bs'; destruct be; [apply rev_length | reflexivity]).
  rewrite <- Hl'.
  destruct (chunks_all_spec 256 8 ltac:(reflexivity) ltac:(lia) (length bs') bs' (le_n _) Hw') as (He & Hf & Hc).
  set (cs := chunks_all (length bs') 8 bs') in *.
  assert (Hwv : wf (map (evalb 256) cs)).
  { apply (proj1 (wfd_wf _)). unfold wfd. apply Forall_forall. intros y Hy.
    apply in_map_iff in Hy. destruct Hy as (c & <- & Hc').
    rewrite Forall_forall in Hf. destruct (Hf c Hc') as [Hlc Hwc].
    pose proof (evalb_bounds 256 c ltac:(reflexivity) Hwc) as Hb. rewrite B_256.
    assert (256 ^ Z.of_nat (length c) <= 256 ^ Z.of_nat 8) by (apply Z.pow_le_mono_r; lia). lia. }
  assert (Hcnt : (length (map (evalb 256) cs) <= limbs_for_precision p)%nat).
  { rewrite map_length. rewrite limbs_for_precision_eq in *.
    pose proof (Z.div_mod (p + 7) 8 ltac:(lia)). pose proof (Z.mod_pos_bound (p + 7) 8 ltac:(lia)).
    pose proof (Z.div_mod (p + 63) 64 ltac:(lia)). pose proof (Z.mod_pos_bound (p + 63) 64 ltac:(lia)).
    assert (0 <= (p + 63) / 64) by (apply Z.div_pos; lia). lia. }
  destruct (zip_assign_zeros (limbs_for_precision p) (map (evalb 256) cs) Hwv Hcnt) as (Hwr & Hlr & Her).
  set (ret := zip_assign (zeros (limbs_for_precision p)) (map (evalb 256) cs)) in *.
  assert (Hv : eval ret = v).
  { rewrite Her, eval_evalb, B_256, He. reflexivity. }
  rewrite bits_spec by assumption. rewrite Hv.
  destruct (Z.leb_spec (2 ^ p) v); [reflexivity|].
  do 2 f_equal. apply to_limbs_unique; try assumption.
  rewrite Hv. symmetry. apply Z.mod_small. rewrite <- Hv, <- Hlr. apply eval_bounds. assumption.
Qed.

(** the encoders of BoxedUint are those of Uint; decoding what was encoded gives the value back *)
Theorem boxed_be_roundtrip ls : wf ls -> (1 <= length ls)%nat ->
  boxed_from_slice true (uint_to_be_bytes ls) (64 * Z.of_nat (length ls)) = Val [ls].
Proof.
  intros Hw Hn.
  pose proof (boxed_from_slice_spec true (uint_to_be_bytes ls) (64 * Z.of_nat (length ls))
                (wfd_uint_to_be_bytes ls Hw) ltac:(lia)) as S. cbv zeta in S. rewrite S.
  rewrite length_uint_to_be_bytes by assumption.
  destruct (Nat.eqb_spec (8 * length ls) 0); [lia|]. cbn [andb].
  assert (Hq : (64 * Z.of_nat (length ls) + 7) / 8 = 8 * Z.of_nat (length ls)).
  { apply (proj1 (div_mod_unique_pos 8 (8 * Z.of_nat (length ls)) 7 (64 * Z.of_nat (length ls) + 7) ltac:(lia) ltac:(lia))). }
  rewrite Hq. destruct (Z.ltb_spec (8 * Z.of_nat (length ls)) (Z.of_nat (8 * length ls))); [lia|].
  rewrite uint_to_be_bytes_rev, rev_involutive, uint_to_le_bytes_digits, evalb_digits, <- Bn_256 by (assumption || reflexivity).
  pose proof (eval_bounds ls Hw) as Hb. rewrite Z.mod_small by assumption.
  assert (HB : Bn (length ls) = 2 ^ (64 * Z.of_nat (length ls))) by (rewrite Bn_2; f_equal; lia).
  rewrite <- HB. destruct (Z.leb_spec (Bn (length ls)) (eval ls)); [lia|].
  rewrite limbs_for_precision_eq.
  assert (Hq2 : (64 * Z.of_nat (length ls) + 63) / 64 = Z.of_nat (length ls)).
  { apply (proj1 (div_mod_unique_pos 64 (Z.of_nat (length ls)) 63 (64 * Z.of_nat (length ls) + 63) ltac:(lia) ltac:(lia))). }
  rewrite Hq2, Nat2Z.id, to_limbs_eval by assumption. reflexivity.
Qed.

(* ---- widen / shorten ---- *)
Lemma boxed_widen_spec a p r : wf a -> (1 <= length a)%nat -> boxed_widen a p = Some r ->
  64 * Z.of_nat (length a) <= p /\ wf r /\ length r = limbs_for_precision p /\ eval r = eval a.
Proof.
  intros Hw Hn. unfold boxed_widen, lenZ.
  destruct (Z.ltb_spec p (64 * Z.of_nat (length a))) as [|Hp]; [discriminate|].
  destruct (zero_with_precision_pos p ltac:(lia)) as [-> Hnl].
  rewrite length_zeros. destruct (Nat.ltb_spec (limbs_for_precision p) (length a)); [discriminate|].
  intros E. injection E as <-. unfold zeros. rewrite skipn_repeat. fold (zeros (limbs_for_precision p - length a)).
  split; [assumption|]. split; [apply wf_app; split; [assumption | apply wf_zeros]|].
  split; [rewrite app_length, length_zeros; lia|]. rewrite eval_app, eval_zeros. lia.
Qed.
Lemma boxed_widen_panics a p : (1 <= length a)%nat -> boxed_widen a p = None <-> p < 64 * Z.of_nat (length a).
Proof.
  intros Hn. unfold boxed_widen, lenZ. destruct (Z.ltb_spec p (64 * Z.of_nat (length a))) as [|Hp]; [tauto|].
  destruct (zero_with_precision_pos p ltac:(lia)) as [-> Hnl]. rewrite length_zeros.
  destruct (Nat.ltb_spec (limbs_for_precision p) (length a)) as [Hc|]; [|split; [discriminate | lia]].
  exfalso. rewrite limbs_for_precision_eq in Hc.
  assert (Z.of_nat (length a) <= (p + 63) / 64) by (apply Z.div_le_lower_bound; lia). lia.
Qed.

Lemma boxed_shorten_spec a p r : wf a -> 1 <= p -> boxed_shorten a p = Some r ->
  p <= 64 * Z.of_nat (length a) /\ wf r /\ length r = limbs_for_precision p /\
  eval r = eval a mod Bn (limbs_for_precision p).
Proof.
  intros Hw Hp. unfold boxed_shorten, lenZ.
  destruct (Z.ltb_spec (64 * Z.of_nat (length a)) p) as [|Hle]; [discriminate|].
  destruct (zero_with_precision_pos p Hp) as [-> Hnl]. rewrite length_zeros.
  destruct (Nat.ltb_spec (length a) (limbs_for_precision p)) as [|Hn]; [discriminate|].
  intros E. injection E as <-. split; [assumption|]. split; [apply wf_firstn; assumption|].
  split; [apply firstn_length_le; assumption | apply eval_firstn; assumption].
Qed.
Lemma boxed_shorten_panics a p : 1 <= p -> boxed_shorten a p = None <-> 64 * Z.of_nat (length a) < p.
Proof.
  intros Hp. unfold boxed_shorten, lenZ. destruct (Z.ltb_spec (64 * Z.of_nat (length a)) p) as [|Hle]; [tauto|].
  destruct (zero_with_precision_pos p Hp) as [-> Hnl]. rewrite length_zeros.
  destruct (Nat.ltb_spec (length a) (limbs_for_precision p)) as [Hc|]; [|split; [discriminate | lia]].
  exfalso. rewrite limbs_for_precision_eq in Hc.
  assert ((p + 63) / 64 <= Z.of_nat (length a)).
  { apply Z.lt_succ_r. apply Z.div_lt_upper_bound; lia. }
  lia.
Qed.
