(** C05: conjunctions of related statements (one [Print Assumptions] each in Props/C05.v). *)
From CB Require Import Model.Limbs Model.AddSub Model.Bits Proofs.WordP Proofs.LimbsP Proofs.AddSubP
  Proofs.BitsWordP Proofs.ShiftP Proofs.LadderP Proofs.BitQueryP Proofs.IntShiftP Proofs.WideP.
From Coq Require Import ZArith List Bool.
Open Scope Z_scope.

Lemma ct_eq_vartime_all :
  (forall a s,
  wf a -> a <> [] -> 64 * Z.of_nat (length a) < U32 -> 0 <= s < U32 ->
  uint_overflowing_shl a s = Some (uint_overflowing_shl_vartime a s)) /\
  (forall a s,
  wf a -> a <> [] -> 64 * Z.of_nat (length a) < U32 -> 0 <= s < U32 ->
  uint_overflowing_shr a s = Some (uint_overflowing_shr_vartime a s)).
Proof.
  repeat apply conj.
  - exact uint_shl_ct_eq_vartime.
  - exact uint_shr_ct_eq_vartime.
Qed.

Lemma int_wrapping_shr_all :
  (forall a s,
  wf a -> a <> [] -> 64 * Z.of_nat (length a) < U32 -> 0 <= s < U32 ->
  exists v, int_overflowing_shr a s = Some v /\
    let r := ct_unwrap_or v (int_sign_fill a) in
    wf r /\ length r = length a /\ seval r = seval a / 2 ^ s) /\
  (forall a s, wf a -> a <> [] -> 0 <= s ->
  let r := ct_unwrap_or (int_overflowing_shr_vartime a s) (int_sign_fill a) in
  wf r /\ length r = length a /\ seval r = seval a / 2 ^ s) /\
  (forall a, wf a -> a <> [] ->
  int_is_negative a = choice_of_bool (seval a <? 0)).
Proof.
  repeat apply conj.
  - exact int_wrapping_shr_correct.
  - exact int_wrapping_shr_vartime_correct.
  - exact int_is_negative_seval.
Qed.

Lemma boxed_overflowing_shift_all :
  (forall a s, wf a -> a <> [] -> 0 <= s ->
  let bits := 64 * Z.of_nat (length a) in
  exists v, boxed_overflowing_shl a s = Some (v, negb (s <? bits)) /\ wf v /\ length v = length a /\
            eval v = if s <? bits then (eval a * 2 ^ s) mod Bn (length a) else 0) /\
  (forall a s, wf a -> a <> [] -> 0 <= s ->
  let bits := 64 * Z.of_nat (length a) in
  exists v, boxed_overflowing_shr a s = Some (v, negb (s <? bits)) /\ wf v /\ length v = length a /\
            eval v = if s <? bits then eval a / 2 ^ s else 0).
Proof.
  repeat apply conj.
  - exact boxed_overflowing_shl_correct.
  - exact boxed_overflowing_shr_correct.
Qed.

Lemma boxed_shift_vartime_all :
  (forall a s, wf a -> 0 <= s ->
  let r := boxed_shl_vartime_into a s in
  let bits := 64 * Z.of_nat (length a) in
  snd r = choice_of_bool (s <? bits) /\ wf (fst r) /\ length (fst r) = length a /\
  eval (fst r) = if s <? bits then (eval a * 2 ^ s) mod Bn (length a) else 0) /\
  (forall a s, wf a -> 0 <= s ->
  let r := boxed_shr_vartime_into a s in
  let bits := 64 * Z.of_nat (length a) in
  snd r = choice_of_bool (s <? bits) /\ wf (fst r) /\ length (fst r) = length a /\
  eval (fst r) = if s <? bits then eval a / 2 ^ s else 0).
Proof.
  repeat apply conj.
  - exact boxed_shl_vartime_correct.
  - exact boxed_shr_vartime_correct.
Qed.

Lemma limb_all :
  (forall lft dbg x s, is_word x -> 0 <= s ->
     limb_shift lft dbg x s = if s <? 64 then Val [[if lft then (x * 2 ^ s) mod B else x / 2 ^ s]] else PanicV) /\
  (forall (lft : bool) x s, is_word x -> 0 <= s < 64 -> is_word (if lft then (x * 2 ^ s) mod B else x / 2 ^ s)) /\
  (forall x, is_word x -> 64 - wlz x = spec_bits x) /\
  (forall x, is_word x -> wtz x = spec_trailing_zeros 64 x) /\
  (forall x, is_word x -> wto x = spec_trailing_ones 64 x).
Proof.
  repeat apply conj.
  - exact limb_shift_correct.
  - exact limb_shift_is_word.
  - exact limb_bits_correct.
  - exact limb_trailing_zeros_correct.
  - exact limb_trailing_ones_correct.
Qed.

Lemma bit_all :
  (forall ls, wf ls -> forall i, 0 <= i ->
  Z.testbit (eval ls) i = Z.testbit (nthz ls (Z.to_nat (i / 64))) (i mod 64)) /\
  (forall ls index, wf ls -> Z.of_nat (length ls) < U32 -> 0 <= index < U32 ->
  limbs_bit ls index = choice_of_bool (Z.testbit (eval ls) index)) /\
  (forall ls index, wf ls -> 0 <= index ->
  limbs_bit_vartime ls index = Z.testbit (eval ls) index).
Proof.
  repeat apply conj.
  - exact testbit_eval.
  - exact limbs_bit_correct.
  - exact limbs_bit_vartime_correct.
Qed.

Lemma bit_length_all :
  (forall ls, wf ls ->
  limbs_leading_zeros ls = 64 * Z.of_nat (length ls) - spec_bits (eval ls)) /\
  (forall ls, wf ls -> ls <> [] -> limbs_bits_vartime ls = Some (spec_bits (eval ls))) /\
  (forall ls, wf ls -> ls <> [] ->
  limbs_bits_vartime ls = Some (64 * Z.of_nat (length ls) - limbs_leading_zeros ls)) /\
  (forall v, 0 < v ->
  Z.testbit v (spec_bits v - 1) = true /\ forall i, spec_bits v <= i -> Z.testbit v i = false).
Proof.
  repeat apply conj.
  - exact limbs_leading_zeros_correct.
  - exact limbs_bits_vartime_correct.
  - exact bits_ct_eq_vartime.
  - exact spec_bits_testbit.
Qed.

Lemma trailing_all :
  (forall ls, wf ls ->
  limbs_trailing_zeros ls = spec_trailing_zeros (64 * length ls) (eval ls)) /\
  (forall ls, wf ls ->
  limbs_trailing_zeros_vartime ls = spec_trailing_zeros (64 * length ls) (eval ls)) /\
  (forall ls, wf ls ->
  limbs_trailing_ones ls = spec_trailing_ones (64 * length ls) (eval ls)) /\
  (forall ls, wf ls ->
  limbs_trailing_ones_vartime ls = spec_trailing_ones (64 * length ls) (eval ls)) /\
  (forall b v k i, 0 <= i ->
  let t := first_bit b k i v in
  i <= t <= i + Z.of_nat k /\ (forall j, i <= j < t -> Z.testbit v j = negb b) /\
  (t < i + Z.of_nat k -> Z.testbit v t = b)).
Proof.
  repeat apply conj.
  - exact limbs_trailing_zeros_correct.
  - exact limbs_trailing_zeros_vartime_correct.
  - exact limbs_trailing_ones_correct.
  - exact limbs_trailing_ones_vartime_correct.
  - exact first_bit_spec.
Qed.

Lemma set_bit_all :
  (forall ls index b,
  wf ls -> Z.of_nat (length ls) < U32 -> 0 <= index < 64 * Z.of_nat (length ls) ->
  let r := limbs_set_bit ls index (choice_of_bool b) in
  wf r /\ length r = length ls /\ eval r = spec_set_bit (eval ls) index b) /\
  (forall ls index b,
  wf ls -> Z.of_nat (length ls) < U32 -> 64 * Z.of_nat (length ls) <= index < U32 ->
  limbs_set_bit ls index (choice_of_bool b) = ls) /\
  (forall ls index b, wf ls -> 0 <= index ->
  if index <? 64 * Z.of_nat (length ls)
  then exists r, limbs_set_bit_vartime ls index b = Some r /\ wf r /\ length r = length ls /\
                 eval r = spec_set_bit (eval ls) index b
  else limbs_set_bit_vartime ls index b = None) /\
  (forall v i b j, 0 <= v -> 0 <= i -> 0 <= j ->
  Z.testbit (spec_set_bit v i b) j = if j =? i then b else Z.testbit v j).
Proof.
  repeat apply conj.
  - exact limbs_set_bit_correct.
  - exact limbs_set_bit_out_of_range.
  - exact limbs_set_bit_vartime_correct.
  - exact spec_set_bit_testbit.
Qed.

Lemma bitwise_all :
  (forall a b, wf a -> wf b -> length a = length b ->
  wf (limbs_and a b) /\ length (limbs_and a b) = length a /\ eval (limbs_and a b) = Z.land (eval a) (eval b)) /\
  (forall a b, wf a -> wf b -> length a = length b ->
  wf (limbs_or a b) /\ length (limbs_or a b) = length a /\ eval (limbs_or a b) = Z.lor (eval a) (eval b)) /\
  (forall a b, wf a -> wf b -> length a = length b ->
  wf (limbs_xor a b) /\ length (limbs_xor a b) = length a /\ eval (limbs_xor a b) = Z.lxor (eval a) (eval b)) /\
  (forall a, wf a ->
  wf (limbs_not a) /\ length (limbs_not a) = length a /\ eval (limbs_not a) = Bn (length a) - 1 - eval a) /\
  (forall a i, wf a -> 0 <= i < 64 * Z.of_nat (length a) ->
  Z.testbit (eval (limbs_not a)) i = negb (Z.testbit (eval a) i)) /\
  (forall a l, wf a -> is_word l ->
  wf (limbs_and_limb a l) /\ length (limbs_and_limb a l) = length a /\
  eval (limbs_and_limb a l) = Z.land (eval a) (eval (repeat l (length a)))).
Proof.
  repeat apply conj.
  - exact limbs_and_correct.
  - exact limbs_or_correct.
  - exact limbs_xor_correct.
  - exact limbs_not_correct.
  - exact limbs_not_testbit.
  - exact uint_and_limb_correct.
Qed.

Lemma boxed_bitwise_all :
  (forall a b, wf a -> wf b ->
  let n := Nat.max (length a) (length b) in
  wf (boxed_map2 limbs_and a b) /\ length (boxed_map2 limbs_and a b) = n /\
  eval (boxed_map2 limbs_and a b) = Z.land (eval a) (eval b)) /\
  (forall a b, wf a -> wf b ->
  let n := Nat.max (length a) (length b) in
  wf (boxed_map2 limbs_or a b) /\ length (boxed_map2 limbs_or a b) = n /\
  eval (boxed_map2 limbs_or a b) = Z.lor (eval a) (eval b)) /\
  (forall a b, wf a -> wf b ->
  let n := Nat.max (length a) (length b) in
  wf (boxed_map2 limbs_xor a b) /\ length (boxed_map2 limbs_xor a b) = n /\
  eval (boxed_map2 limbs_xor a b) = Z.lxor (eval a) (eval b)).
Proof.
  repeat apply conj.
  - exact boxed_and_correct.
  - exact boxed_or_correct.
  - exact boxed_xor_correct.
Qed.
