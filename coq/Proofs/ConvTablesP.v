(** C16 (tables): the model table and the spec table of Model/Conv.v agree on EVERY key (37 of 37), for all
    well-formed argument lists that satisfy the typing side condition of the key (only the two [from_prim] keys
    with a width tag have one), in both profiles, wherever the spec entry is defined.
    [run_tab t k dbg a] is the table lookup of Model/Api.v (Proofs/TotalityP.v). *)
From CB Require Import Model.Limbs Model.Conv Proofs.WordP Proofs.LimbsP Proofs.ConvDigitsP Proofs.ConvBytesP
  Proofs.ConvHexP Proofs.ConvBoxedP Proofs.ConvCopyP Proofs.ConvP Proofs.TotalityP Proofs.TotalityConvP.
From Coq Require Import ZArith Lia List String Bool.
Import ListNotations.
Open Scope Z_scope.
Notation length := List.length.

(* ------------------------------------------------------------------ typing side conditions (boolean) *)
Definition btyping := list (string * (list (list Z) -> bool)).
Definition typedb (t : btyping) (k : string) (a : list (list Z)) : bool :=
  match lookup k t with Some P => P a | None => true end.

(* The second argument of "uint.from_prim" / "int.from_prim" is a tag that names the Rust source type of the
   conversion (it selects the function that is called: from_u8 .. from_u64, from_word (65), Limb (1), from_u128
   (128), from_wide_word (129); from_i8 .. from_i64, from_i128): an unsigned source type is at most 64 bits wide
   or one of the two 128-bit kinds; a signed source type is i2 .. i64 or i128.  The spec's own domain test
   ([sp_prim_fits]: the value fits the named type) does the rest. *)
Definition ty_uint_prim (a : list (list Z)) : bool :=
  let k := sarg 1 a in (k <=? 65) || (k =? 128) || (k =? 129).
Definition ty_int_prim (a : list (list Z)) : bool :=
  let k := sarg 1 a in ((2 <=? k) && (k <=? 64)) || (k =? 128).

Open Scope string_scope.
Definition conv_tbl_ty : btyping :=
  [("uint.from_prim", ty_uint_prim); ("int.from_prim", ty_int_prim)].
Open Scope Z_scope.

Definition tbl_ok (k : string) : Prop :=
  forall dbg a, wf_args a -> typedb conv_tbl_ty k a = true ->
    run_tab ops_conv_spec k dbg a <> Unsupported ->
    run_tab ops_conv_model k dbg a = run_tab ops_conv_spec k dbg a.

Ltac open_typedb H :=
  unfold typedb in H;
  lazy beta iota delta [lookup conv_tbl_ty String.eqb Ascii.eqb Bool.eqb] in H.
Ltac start_tbl :=
  let dbg := fresh "dbg" in let a := fresh "a" in
  let Hwf := fresh "Hwf" in let Hty := fresh "Hty" in let Hdom := fresh "Hdom" in
  intros dbg a Hwf Hty Hdom; open_typedb Hty; revert Hdom; open_tabs ops_conv_model ops_conv_spec; intros Hdom.
Lemma bytes_dom' bs o : sp_bytes_arg bs o <> Unsupported -> wfd 256 bs /\ sp_bytes_arg bs o = o /\ o <> Unsupported.
Proof.
  intros H. destruct (bytes_dom bs o H) as [Hb Hd]. rewrite Hd in H. auto.
Qed.
(* opens the byte-string domain test of a spec entry: Hb : wfd 256 bs, Hdom : the rest <> Unsupported *)
Ltac bdom := match goal with Hdom : sp_bytes_arg _ _ <> Unsupported |- _ =>
  let Hb := fresh "Hb" in let Hd := fresh "Hd" in
  apply bytes_dom' in Hdom; destruct Hdom as (Hb & Hd & Hdom); rewrite Hd; clear Hd end.
(* [if c then X else Unsupported <> Unsupported] gives c = true *)
Ltac dom_if H :=
  match type of H with
  | (if ?c then _ else _) <> Unsupported =>
      let E := fresh "E" in destruct c eqn:E; [|try (contradiction H; reflexivity)]
  end.

(* ------------------------------------------------------------------ small facts *)
Lemma eval_one x : eval [x] = x.
Proof. cbn [eval]. lia. Qed.
Lemma to_limbs_1 x : to_limbs 1 x = [x mod B].
Proof. reflexivity. Qed.
Lemma sarg_is_word i a : wf_args a -> is_word (sarg i a).
Proof. intros H. exact (sarg_word i a H). Qed.
Lemma wf_one x : is_word x -> wf [x].
Proof. intros H. apply wf_cons. split; [exact H | apply wf_nil]. Qed.
Lemma limbs_of_mod r n x : wf r -> length r = n -> eval r = x mod Bn n -> r = to_limbs n (x mod Bn n).
Proof.
  intros Hw Hl He. apply to_limbs_unique; auto. pose proof (Bn_pos n). rewrite Z.mod_mod by lia. exact He.
Qed.
Lemma limbs_of_val r n x : wf r -> length r = n -> eval r = x -> r = to_limbs n x.
Proof.
  intros Hw Hl He. apply to_limbs_unique; auto. pose proof (eval_bounds r Hw) as Hb. rewrite Hl, He in Hb.
  rewrite Z.mod_small by lia. exact He.
Qed.
Lemma horner_rev b ds : horner b (rev ds) = evalb b ds.
Proof. rewrite horner_evalb, rev_involutive. reflexivity. Qed.

(* ------------------------------------------------------------------ positional digit lists *)
Lemma nth_ext_Z (l1 l2 : list Z) : length l1 = length l2 ->
  (forall i, (i < length l1)%nat -> nth i l1 0 = nth i l2 0) -> l1 = l2.
Proof. intros Hl H. apply (nth_ext l1 l2 0 0 Hl H). Qed.
Lemma length_sp_le_digits b m x : length (sp_le_digits b m x) = m.
Proof. unfold sp_le_digits. rewrite map_length, seq_length. reflexivity. Qed.
Lemma length_sp_be_digits b m x : length (sp_be_digits b m x) = m.
Proof. unfold sp_be_digits. rewrite map_length, seq_length. reflexivity. Qed.
Lemma nth_map_seq (f : nat -> Z) m i : (i < m)%nat -> nth i (map f (seq 0 m)) 0 = f i.
Proof.
  intros H. rewrite (nth_indep _ 0 (f 0%nat)) by (rewrite map_length, seq_length; exact H).
  rewrite map_nth, seq_nth by exact H. reflexivity.
Qed.
Lemma digits_le b k x : 0 < b -> digits b k x = sp_le_digits b k x.
Proof.
  intros Hb. apply nth_ext_Z.
  - rewrite length_digits, length_sp_le_digits. reflexivity.
  - rewrite length_digits. intros i Hi. rewrite nth_digits by assumption.
    unfold sp_le_digits. rewrite nth_map_seq by exact Hi. reflexivity.
Qed.
Lemma digits_be b k x : 0 < b -> rev (digits b k x) = sp_be_digits b k x.
Proof.
  intros Hb. apply nth_ext_Z.
  - rewrite rev_length, length_digits, length_sp_be_digits. reflexivity.
  - rewrite rev_length, length_digits. intros i Hi.
    rewrite nth_rev_lt by (rewrite length_digits; exact Hi). rewrite length_digits.
    rewrite nth_digits by (assumption || lia).
    unfold sp_be_digits. rewrite nth_map_seq by exact Hi. f_equal. f_equal. f_equal. lia.
Qed.

(* ------------------------------------------------------------------ Limb / Uint <-> bytes *)
Lemma tbl_limb_to_be_bytes : tbl_ok "limb.to_be_bytes".
Proof. start_tbl. unfold word_to_be_bytes. rewrite digits_be by reflexivity. reflexivity. Qed.
Lemma tbl_limb_to_le_bytes : tbl_ok "limb.to_le_bytes".
Proof. start_tbl. unfold word_to_le_bytes. rewrite digits_le by reflexivity. reflexivity. Qed.
Lemma tbl_limb_from_be_bytes : tbl_ok "limb.from_be_bytes".
Proof.
  start_tbl. bdom. dom_if Hdom. unfold word_from_be_bytes. rewrite horner_evalb. reflexivity.
Qed.
Lemma tbl_limb_from_le_bytes : tbl_ok "limb.from_le_bytes".
Proof.
  start_tbl. bdom. dom_if Hdom. unfold word_from_le_bytes. rewrite horner_rev. reflexivity.
Qed.
Lemma tbl_limb_from_prim : tbl_ok "limb.from_prim".
Proof.
  start_tbl. dom_if Hdom. rewrite to_limbs_1. pose proof (sarg_word 0 a Hwf).
  rewrite Z.mod_small by assumption. reflexivity.
Qed.

Lemma tbl_uint_to_be_bytes : tbl_ok "uint.to_be_bytes".
Proof.
  start_tbl. pose proof (wf_arg 0 a Hwf) as Hw. unfold cv_ln, cv_ev.
  rewrite uint_to_be_bytes_rev, uint_to_le_bytes_digits by exact Hw. rewrite digits_be by reflexivity. reflexivity.
Qed.
Lemma tbl_uint_to_le_bytes : tbl_ok "uint.to_le_bytes".
Proof.
  start_tbl. pose proof (wf_arg 0 a Hwf) as Hw. unfold cv_ln, cv_ev.
  rewrite uint_to_le_bytes_digits by exact Hw. rewrite digits_le by reflexivity. reflexivity.
Qed.

Lemma tbl_uint_from_be_slice : tbl_ok "uint.from_be_slice".
Proof.
  start_tbl. bdom. unfold cv_ln. destruct (uint_from_be_slice (cv_nat 1 a) (arg 0 a)) as [r|] eqn:E; cbn [vpanic].
  - destruct (from_be_slice_spec _ _ _ Hb E) as (Hl & Hw & Hlr & He). rewrite Hl, Nat.eqb_refl.
    rewrite horner_evalb, <- He. f_equal. f_equal. apply limbs_of_val; auto.
  - apply from_be_slice_none in E. apply Nat.eqb_neq in E. rewrite E. reflexivity.
Qed.
Lemma tbl_uint_from_le_slice : tbl_ok "uint.from_le_slice".
Proof.
  start_tbl. bdom. unfold cv_ln. destruct (uint_from_le_slice (cv_nat 1 a) (arg 0 a)) as [r|] eqn:E; cbn [vpanic].
  - destruct (from_le_slice_spec _ _ _ Hb E) as (Hl & Hw & Hlr & He). rewrite Hl, Nat.eqb_refl.
    rewrite horner_rev, <- He. f_equal. f_equal. apply limbs_of_val; auto.
  - apply from_le_slice_none in E. apply Nat.eqb_neq in E. rewrite E. reflexivity.
Qed.

(* ------------------------------------------------------------------ strict hex decoders *)
Lemma sp_hex_be_ok n cs ds : length cs = (16 * n)%nat -> hexvals cs = Some ds ->
  sp_hex_value false (16 * n) cs = Some (evalb 16 (rev ds)).
Proof. intros Hl Hd. unfold sp_hex_value. rewrite Hl, Nat.eqb_refl, Hd, horner_evalb. reflexivity. Qed.
Lemma sp_hex_le_ok n cs ds : length cs = (16 * n)%nat -> hexvals cs = Some ds ->
  sp_hex_value true (16 * n) cs = Some (evalb 256 (nib_pairs ds)).
Proof. intros Hl Hd. unfold sp_hex_value. rewrite Hl, Nat.eqb_refl, Hd, horner_rev. reflexivity. Qed.
Lemma sp_hex_bad le n cs : length cs <> (16 * n)%nat \/ hexvals cs = None -> sp_hex_value le (16 * n) cs = None.
Proof. intros H. apply (proj2 (sp_hex_value_none le (16 * n) cs)). exact H. Qed.

Lemma tbl_uint_from_be_hex : tbl_ok "uint.from_be_hex".
Proof.
  start_tbl. unfold sp_hex_fixed in *. bdom.
  pose proof (from_be_hex_spec (cv_nat 1 a) (arg 0 a) Hb) as H.
  destruct (uint_from_be_hex (cv_nat 1 a) (arg 0 a)) as [r| |]; cbn [hex_fixed].
  - destruct H as (Hl & ds & Hd & Hw & Hlr & He). rewrite (sp_hex_be_ok _ _ ds Hl Hd), <- He.
    f_equal. f_equal. apply limbs_of_val; auto.
  - destruct H as (Hl & Hd). rewrite sp_hex_bad by tauto. reflexivity.
  - rewrite sp_hex_bad by tauto. reflexivity.
Qed.
Lemma tbl_uint_from_le_hex : tbl_ok "uint.from_le_hex".
Proof.
  start_tbl. unfold sp_hex_fixed in *. bdom.
  pose proof (from_le_hex_spec (cv_nat 1 a) (arg 0 a) Hb) as H.
  destruct (uint_from_le_hex (cv_nat 1 a) (arg 0 a)) as [r| |]; cbn [hex_fixed].
  - destruct H as (Hl & ds & Hd & Hw & Hlr & He). rewrite (sp_hex_le_ok _ _ ds Hl Hd), <- He.
    f_equal. f_equal. apply limbs_of_val; auto.
  - destruct H as (Hl & Hd). rewrite sp_hex_bad by tauto. reflexivity.
  - rewrite sp_hex_bad by tauto. reflexivity.
Qed.

(* ------------------------------------------------------------------ formatting *)
Lemma hexchar_sp u d : hexchar u d = sp_hexchar u d.
Proof. unfold hexchar, sp_hexchar. destruct (d <? 10); [reflexivity|]. destruct u; lia. Qed.
Lemma fmt_hex_eq u ls : wf ls -> uint_fmt_hex u ls = sp_fmt_digits 16 u (16 * length ls) (eval ls).
Proof.
  intros Hw. rewrite uint_fmt_hex_digits by exact Hw. unfold sp_fmt_digits. rewrite digits_be by reflexivity.
  apply map_ext. intros d. apply hexchar_sp.
Qed.
Lemma fmt_bin_eq ls : wf ls -> uint_fmt_bin ls = sp_fmt_digits 2 false (64 * length ls) (eval ls).
Proof.
  intros Hw. rewrite uint_fmt_bin_digits by exact Hw. unfold sp_fmt_digits. rewrite <- digits_be by reflexivity.
  apply map_ext_in. intros d Hd.
  assert (Hwd : wfd 2 (rev (digits 2 (64 * length ls) (eval ls)))) by (apply wfd_rev, wfd_digits; reflexivity).
  unfold wfd in Hwd. rewrite Forall_forall in Hwd. specialize (Hwd d Hd).
  unfold sp_hexchar. destruct (Z.ltb_spec d 10); [reflexivity | lia].
Qed.
Lemma fmt_kind_eq name kind ls : wf ls -> fmt_kind name kind ls = sp_fmt name kind (length ls) (eval ls).
Proof.
  intros Hw. unfold fmt_kind, sp_fmt. rewrite !fmt_hex_eq, fmt_bin_eq by exact Hw.
  repeat match goal with |- context[if ?c then _ else _] => destruct c; [reflexivity|] end. reflexivity.
Qed.

Lemma tbl_limb_fmt : tbl_ok "limb.fmt".
Proof.
  start_tbl. rewrite fmt_kind_eq by (apply wf_one, sarg_is_word; exact Hwf). rewrite eval_one. reflexivity.
Qed.
Lemma tbl_uint_fmt : tbl_ok "uint.fmt".
Proof. start_tbl. rewrite fmt_kind_eq by (apply wf_arg; exact Hwf). reflexivity. Qed.
Lemma tbl_int_fmt : tbl_ok "int.fmt".
Proof. start_tbl. rewrite fmt_kind_eq by (apply wf_arg; exact Hwf). reflexivity. Qed.
Lemma tbl_boxed_fmt : tbl_ok "boxed.fmt".
Proof.
  start_tbl. unfold boxed_fmt, cv_ln, cv_ev. pose proof (wf_arg 0 a Hwf) as Hw.
  destruct (arg 0 a) as [|x r] eqn:E.
  - rewrite fmt_kind_eq by (apply wf_one; unfold is_word; pose proof B_pos; lia). reflexivity.
  - rewrite fmt_kind_eq by exact Hw. reflexivity.
Qed.

(* ------------------------------------------------------------------ words / limbs *)
Lemma tbl_uint_words_id : tbl_ok "uint.words_id".
Proof. start_tbl. unfold cv_ln, cv_ev. rewrite to_limbs_eval by (apply wf_arg; exact Hwf). reflexivity. Qed.
Lemma tbl_boxed_from_vec : tbl_ok "boxed.from_vec".
Proof.
  start_tbl. unfold vec_into_boxed, cv_ln, cv_ev. pose proof (wf_arg 0 a Hwf) as Hw.
  destruct (arg 0 a) as [|x r] eqn:E.
  - cbn [length Nat.max eval]. rewrite to_limbs_1, Z.mod_0_l by (pose proof B_pos; lia). reflexivity.
  - change (Nat.max 1 (length (x :: r))) with (length (x :: r)). rewrite to_limbs_eval by exact Hw. reflexivity.
Qed.

(* ------------------------------------------------------------------ primitives *)
Lemma nthz_word l i : wf l -> is_word (nthz l i).
Proof.
  unfold nthz. revert i. induction l as [|x r IH]; intros i Hw.
  - destruct i; cbn [nth]; unfold is_word; pose proof B_pos; lia.
  - apply wf_cons in Hw. destruct Hw as [Hx Hr]. destruct i; cbn [nth]; [exact Hx | apply IH; exact Hr].
Qed.
Lemma prim_val_bounds l : wf l -> 0 <= prim_val l < B * B.
Proof.
  intros Hw. unfold prim_val. pose proof (nthz_word l 0 Hw) as H0. pose proof (nthz_word l 1 Hw) as H1.
  unfold is_word in *. nia.
Qed.
Lemma prim_val_low l : wf l -> prim_val l mod B = nthz l 0.
Proof.
  intros Hw. unfold prim_val. pose proof (nthz_word l 0 Hw) as H0. unfold is_word in H0.
  rewrite Z.mul_comm, Z_mod_plus_full. apply Z.mod_small. exact H0.
Qed.
Lemma prim_val_high l : wf l -> (prim_val l / B) mod B = nthz l 1.
Proof.
  intros Hw. unfold prim_val. pose proof (nthz_word l 0 Hw) as H0. pose proof (nthz_word l 1 Hw) as H1.
  unfold is_word in *.
  destruct (div_mod_unique_pos B (nthz l 1) (nthz l 0) (nthz l 0 + B * nthz l 1) H0 ltac:(lia)) as [Hq _].
  rewrite Hq. apply Z.mod_small. exact H1.
Qed.
Lemma sp_prim_fits_range kind v : sp_prim_fits kind v = true ->
  0 <= v < 2 ^ (if kind =? 129 then 128 else if kind =? 65 then 64 else if kind =? 1 then 64 else kind).
Proof. unfold sp_prim_fits. intros H. apply andb_prop in H. destruct H as [H1 H2]. apply Z.leb_le in H1. apply Z.ltb_lt in H2. lia. Qed.
Lemma pow2_le_B k : k <= 64 -> 2 ^ k <= B.
Proof.
  intros H. rewrite B_val. destruct (Z.le_gt_cases 0 k).
  - apply Z.pow_le_mono_r; lia.
  - rewrite Z.pow_neg_r by lia. apply Z.pow_nonneg. lia.
Qed.

Lemma uint_from_wide_word_spec n v r : 0 <= v < B * B -> uint_from_wide_word n v = Some r ->
  (2 <= n)%nat /\ wf r /\ length r = n /\ eval r = v.
Proof.
  unfold uint_from_wide_word. intros Hv. destruct (Nat.ltb_spec n 2) as [|Hn]; [discriminate|].
  intros E. injection E as <-. pose proof B_pos as HB.
  assert (Hq : 0 <= v / B < B).
  { split; [apply Z.div_pos; lia | apply Z.div_lt_upper_bound; lia]. }
  split; [exact Hn|]. split; [|split].
  - apply wf_cons. split; [apply Z.mod_pos_bound; lia|]. apply wf_cons. split; [apply Z.mod_pos_bound; lia | apply wf_zeros].
  - cbn [length]. rewrite length_zeros. lia.
  - cbn [eval]. rewrite eval_zeros. rewrite (Z.mod_small (v / B)) by exact Hq.
    pose proof (Z.div_mod v B ltac:(lia)). lia.
Qed.

Lemma tbl_uint_from_prim : tbl_ok "uint.from_prim".
Proof.
  start_tbl. cbv zeta in *. unfold ty_uint_prim in Hty. cbv zeta in Hty.
  set (kind := sarg 1 a) in *. set (n := cv_nat 2 a) in *. set (v := prim_val (arg 0 a)) in *.
  destruct (sp_prim_fits kind v) eqn:Ef; cbn [negb] in *; [|contradiction Hdom; reflexivity].
  pose proof (prim_val_bounds (arg 0 a) (wf_arg 0 a Hwf)) as Hv. fold v in Hv.
  apply sp_prim_fits_range in Ef. unfold m_uint_from_prim.
  destruct (Z.eqb_spec kind 128) as [E128|N128]; cbn [orb].
  - destruct (uint_from_u128 n v) as [r|] eqn:E; cbn [vpanic].
    + destruct (uint_from_u128_spec n v r Hv E) as (Hn & Hw & Hl & He).
      replace (Nat.ltb n 2) with false by (symmetry; apply Nat.ltb_ge; lia).
      f_equal. f_equal. apply limbs_of_val; auto.
    + apply uint_from_u128_none in E. replace (Nat.ltb n 2) with true by (symmetry; apply Nat.ltb_lt; lia). reflexivity.
  - destruct (Z.eqb_spec kind 129) as [E129|N129].
    + destruct (uint_from_wide_word n v) as [r|] eqn:E; cbn [vpanic].
      * destruct (uint_from_wide_word_spec n v r Hv E) as (Hn & Hw & Hl & He).
        replace (Nat.ltb n 2) with false by (symmetry; apply Nat.ltb_ge; lia).
        f_equal. f_equal. apply limbs_of_val; auto.
      * apply uint_from_wide_none in E. replace (Nat.ltb n 2) with true by (symmetry; apply Nat.ltb_lt; lia). reflexivity.
    + assert (Hword : is_word v).
      { unfold is_word. rewrite !orb_false_r in Hty. apply Z.leb_le in Hty.
        destruct (Z.eqb_spec kind 65); [rewrite B_val; exact Ef|]. destruct (kind =? 1); [rewrite B_val; exact Ef|].
        pose proof (pow2_le_B kind). lia. }
      destruct (uint_from_small n v) as [r|] eqn:E; cbn [vpanic].
      * destruct (uint_from_small_spec n v r Hword E) as (Hn & Hw & Hl & He).
        replace (Nat.ltb n 1) with false by (symmetry; apply Nat.ltb_ge; lia).
        f_equal. f_equal. apply limbs_of_val; auto.
      * apply uint_from_small_none in E. replace (Nat.ltb n 1) with true by (symmetry; apply Nat.ltb_lt; lia). reflexivity.
Qed.

Lemma tbl_int_from_prim : tbl_ok "int.from_prim".
Proof.
  start_tbl. cbv zeta in *. unfold ty_int_prim in Hty. cbv zeta in Hty.
  set (kind := sarg 1 a) in *. set (n := cv_nat 2 a) in *. set (v := prim_val (arg 0 a)) in *.
  destruct (sp_prim_fits kind v) eqn:Ef; cbn [negb] in *; [|contradiction Hdom; reflexivity].
  apply sp_prim_fits_range in Ef. unfold m_int_from_prim, to_limbs_s.
  destruct (Z.eqb_spec kind 128) as [E128|N128].
  - rewrite E128 in *. change (128 =? 129) with false in Ef. change (128 =? 65) with false in Ef.
    change (128 =? 1) with false in Ef. cbv iota in Ef.
    destruct (int_from_i128 n v) as [r|] eqn:E; cbn [vpanic].
    + destruct (int_from_i128_spec n v r Ef E) as (Hn & Hw & Hl & He).
      replace (Nat.ltb n 2) with false by (symmetry; apply Nat.ltb_ge; lia).
      f_equal. f_equal. apply limbs_of_mod; auto.
    + apply int_from_i128_none in E. replace (Nat.ltb n 2) with true by (symmetry; apply Nat.ltb_lt; lia). reflexivity.
  - rewrite orb_false_r in Hty. apply andb_prop in Hty. destruct Hty as [Hk1 Hk2].
    apply Z.leb_le in Hk1. apply Z.leb_le in Hk2.
    replace (kind =? 129) with false in Ef by (symmetry; apply Z.eqb_neq; lia).
    replace (kind =? 65) with false in Ef by (symmetry; apply Z.eqb_neq; lia).
    replace (kind =? 1) with false in Ef by (symmetry; apply Z.eqb_neq; lia).
    destruct (int_from_small kind n v) as [r|] eqn:E; cbn [vpanic].
    + destruct (int_from_small_spec kind n v r ltac:(lia) Ef E) as (Hn & Hw & Hl & He).
      replace (Nat.ltb n 1) with false by (symmetry; apply Nat.ltb_ge; lia).
      f_equal. f_equal. apply limbs_of_mod; auto.
    + apply int_from_small_none in E. replace (Nat.ltb n 1) with true by (symmetry; apply Nat.ltb_lt; lia). reflexivity.
Qed.

Lemma tbl_boxed_from_prim : tbl_ok "boxed.from_prim".
Proof.
  start_tbl. cbv zeta in *.
  set (kind := sarg 1 a) in *. set (v := prim_val (arg 0 a)) in *.
  destruct (sp_prim_fits kind v) eqn:Ef; cbn [negb] in *; [|contradiction Hdom; reflexivity].
  pose proof (wf_arg 0 a Hwf) as Hw0.
  pose proof (prim_val_bounds (arg 0 a) Hw0) as Hv. fold v in Hv.
  destruct (kind =? 128).
  - destruct (uint_from_u128 2 v) as [r|] eqn:E; cbn [vpanic].
    + destruct (uint_from_u128_spec 2 v r Hv E) as (Hn & Hw & Hl & He). f_equal. f_equal. apply limbs_of_val; auto.
    + apply uint_from_u128_none in E. lia.
  - rewrite to_limbs_1. unfold v. rewrite prim_val_low by exact Hw0. reflexivity.
Qed.

Lemma tbl_uint_to_prim : tbl_ok "uint.to_prim".
Proof.
  start_tbl. cbv zeta in *. unfold m_uint_to_prim, cv_ln, cv_ev in *. pose proof (wf_arg 0 a Hwf) as Hw.
  destruct (sarg 1 a =? 128).
  - dom_if Hdom. apply Nat.eqb_eq in E. destruct (arg 0 a) as [|lo [|hi [|? ?]]]; try discriminate E.
    apply wf_cons in Hw. destruct Hw as [Hlo Hw]. apply wf_cons in Hw. destruct Hw as [Hhi _].
    cbv zeta. rewrite (u128_of_limbs_spec lo hi Hlo Hhi).
    unfold is_word in *. destruct (div_mod_unique_pos B hi lo (lo + B * hi) Hlo ltac:(lia)) as [Hq Hm].
    rewrite Hq, Hm. f_equal. f_equal. apply limbs_of_val; [|reflexivity|reflexivity].
    apply wf_cons. split; [exact Hlo|]. apply wf_one. exact Hhi.
  - dom_if Hdom. apply Nat.eqb_eq in E. destruct (arg 0 a) as [|x [|? ?]]; try discriminate E.
    apply wf_cons in Hw. destruct Hw as [Hx _]. unfold nthz. cbn [nth].
    rewrite eval_one, to_limbs_1, Z.mod_small by exact Hx. reflexivity.
Qed.

(* ------------------------------------------------------------------ concat / split / resize *)
Lemma tbl_uint_concat : tbl_ok "uint.concat".
Proof.
  start_tbl. unfold cv_ln, cv_ev. pose proof (wf_arg 0 a Hwf) as Hw0. pose proof (wf_arg 1 a Hwf) as Hw1.
  destruct (concat_spec (arg 0 a) (arg 1 a)) as [Ea Ee]. rewrite Ea in *.
  f_equal. f_equal. apply limbs_of_val; [apply wf_app; split; assumption | apply app_length | exact Ee].
Qed.
Lemma tbl_uint_split : tbl_ok "uint.split".
Proof.
  start_tbl. cbv zeta in *. unfold cv_ln, cv_ev in *. pose proof (wf_arg 0 a Hwf) as Hw.
  destruct (Nat.ltb_spec (length (arg 0 a)) (cv_nat 1 a)) as [|Hl]; [contradiction Hdom; reflexivity|].
  destruct (uint_split_mixed (arg 0 a) (cv_nat 1 a) (length (arg 0 a) - cv_nat 1 a)) as [lo hi] eqn:E.
  destruct (split_spec _ _ lo hi Hw Hl E) as (Hllo & Hlhi & Hwlo & Hwhi & Helo & Hehi & _).
  f_equal. f_equal; [|f_equal].
  - apply limbs_of_mod; auto.
  - apply limbs_of_val; auto.
Qed.
Lemma tbl_uint_resize : tbl_ok "uint.resize".
Proof.
  start_tbl. unfold cv_ev. destruct (uint_resize_spec (arg 0 a) (cv_nat 1 a) (wf_arg 0 a Hwf)) as (Hw & Hl & He).
  f_equal. f_equal. apply limbs_of_mod; auto.
Qed.
Lemma tbl_int_resize : tbl_ok "int.resize".
Proof.
  start_tbl. unfold cv_ln in *. destruct (Nat.eqb_spec (length (arg 0 a)) 0) as [|Hn]; [contradiction Hdom; reflexivity|].
  destruct (int_resize_spec (arg 0 a) (cv_nat 1 a) (wf_arg 0 a Hwf) ltac:(lia)) as (Hw & Hl & He).
  unfold to_limbs_s. f_equal. f_equal. apply limbs_of_mod; auto.
Qed.

(* ------------------------------------------------------------------ BoxedUint widen / shorten *)
Lemma sp_limbs_for_pos p : 1 <= p -> sp_limbs_for p = limbs_for_precision p.
Proof.
  intros Hp. unfold sp_limbs_for. replace (p =? 0) with false by (symmetry; apply Z.eqb_neq; lia).
  rewrite limbs_for_precision_eq. reflexivity.
Qed.
Lemma tbl_boxed_widen : tbl_ok "boxed.widen".
Proof.
  start_tbl. cbv zeta in *. unfold cv_ln, cv_ev in *. pose proof (wf_arg 0 a Hwf) as Hw.
  destruct (Nat.eqb_spec (length (arg 0 a)) 0) as [|Hn]; [contradiction Hdom; reflexivity|].
  destruct (boxed_widen (arg 0 a) (sarg 1 a)) as [r|] eqn:E; cbn [vpanic].
  - destruct (boxed_widen_spec _ _ r Hw ltac:(lia) E) as (Hp & Hwr & Hl & He).
    replace (sarg 1 a <? 64 * Z.of_nat (length (arg 0 a))) with false by (symmetry; apply Z.ltb_ge; lia).
    rewrite sp_limbs_for_pos by lia. f_equal. f_equal. apply limbs_of_val; auto.
  - apply boxed_widen_panics in E; [|lia]. apply Z.ltb_lt in E. rewrite E. reflexivity.
Qed.
Lemma tbl_boxed_shorten : tbl_ok "boxed.shorten".
Proof.
  start_tbl. cbv zeta in *. unfold cv_ln, cv_ev in *. pose proof (wf_arg 0 a Hwf) as Hw.
  destruct (Nat.eqb_spec (length (arg 0 a)) 0) as [|Hn]; [contradiction Hdom; reflexivity|].
  pose proof (sarg_word 1 a Hwf) as [Hp _].
  destruct (Z.eq_dec (sarg 1 a) 0) as [E0|E0].
  - rewrite E0. unfold boxed_shorten, lenZ.
    replace (64 * Z.of_nat (length (arg 0 a)) <? 0) with false by (symmetry; apply Z.ltb_ge; lia).
    change (length (zero_with_precision 0)) with 1%nat. change (sp_limbs_for 0) with 1%nat.
    replace (Nat.ltb (length (arg 0 a)) 1) with false by (symmetry; apply Nat.ltb_ge; lia).
    cbn [vpanic]. f_equal. f_equal. apply limbs_of_mod.
    + apply wf_firstn. exact Hw.
    + apply firstn_length_le. lia.
    + apply eval_firstn; [exact Hw | lia].
  - destruct (boxed_shorten (arg 0 a) (sarg 1 a)) as [r|] eqn:E; cbn [vpanic].
    + assert (Hp1 : 1 <= sarg 1 a) by lia.
      destruct (boxed_shorten_spec _ _ r Hw Hp1 E) as (Hp' & Hwr & Hl & He).
      replace (64 * Z.of_nat (length (arg 0 a)) <? sarg 1 a) with false by (symmetry; apply Z.ltb_ge; lia).
      rewrite sp_limbs_for_pos by lia. f_equal. f_equal. apply limbs_of_mod; auto.
    + apply boxed_shorten_panics in E; [|lia]. apply Z.ltb_lt in E. rewrite E. reflexivity.
Qed.

(* ------------------------------------------------------------------ BoxedUint decoders *)
Lemma boxed_slice_entry (be : bool) bs p : wfd 256 bs -> 0 <= p ->
  boxed_from_slice be bs p =
  (let v := horner 256 (if be then bs else rev bs) in
   if 8 * Z.of_nat (length bs) >? 8 * ((p + 7) / 8) then ErrV E_InputSize
   else if 2 ^ p <=? v then ErrV E_Precision
   else Val [to_limbs (sp_limbs_for p) v]).
Proof.
  intros Hb Hp. rewrite (boxed_from_slice_spec be bs p Hb Hp). cbv zeta.
  assert (Ev : horner 256 (if be then bs else rev bs) = evalb 256 (if be then rev bs else bs)).
  { destruct be; [apply horner_evalb | apply horner_rev]. }
  rewrite Ev, Z.gtb_ltb. set (v := evalb 256 (if be then rev bs else bs)).
  destruct (Nat.eqb_spec (length bs) 0) as [E0|N0]; cbn [andb].
  - destruct (Z.eqb_spec p 0) as [Ep|Np].
    + assert (Hv : v = 0). { unfold v. destruct bs; [|discriminate E0]. destruct be; reflexivity. }
      rewrite Hv, Ep, E0. change (sp_limbs_for 0) with 1%nat. rewrite to_limbs_1, Z.mod_0_l by (pose proof B_pos; lia).
      reflexivity.
    + rewrite sp_limbs_for_pos, E0 by lia.
      assert (0 <= (p + 7) / 8) by (apply Z.div_pos; lia).
      replace ((p + 7) / 8 <? Z.of_nat 0) with false by (symmetry; apply Z.ltb_ge; lia).
      replace (8 * ((p + 7) / 8) <? 8 * Z.of_nat 0) with false by (symmetry; apply Z.ltb_ge; lia).
      reflexivity.
  - destruct (Z.ltb_spec ((p + 7) / 8) (Z.of_nat (length bs))) as [Hlt|Hge].
    + replace (8 * ((p + 7) / 8) <? 8 * Z.of_nat (length bs)) with true by (symmetry; apply Z.ltb_lt; lia).
      reflexivity.
    + replace (8 * ((p + 7) / 8) <? 8 * Z.of_nat (length bs)) with false by (symmetry; apply Z.ltb_ge; lia).
      assert (1 <= p).
      { destruct (Z.eq_dec p 0) as [->|]; [|lia]. change ((0 + 7) / 8) with 0 in Hge. lia. }
      rewrite sp_limbs_for_pos by assumption. reflexivity.
Qed.
Lemma tbl_boxed_from_be_slice : tbl_ok "boxed.from_be_slice".
Proof.
  start_tbl. unfold sp_boxed_from_slice in *. bdom. pose proof (sarg_word 1 a Hwf) as [Hp _].
  apply boxed_slice_entry; assumption.
Qed.
Lemma tbl_boxed_from_le_slice : tbl_ok "boxed.from_le_slice".
Proof.
  start_tbl. unfold sp_boxed_from_slice in *. bdom. pose proof (sarg_word 1 a Hwf) as [Hp _].
  apply boxed_slice_entry; assumption.
Qed.

Lemma tbl_boxed_from_be_hex : tbl_ok "boxed.from_be_hex".
Proof.
  start_tbl. cbv zeta in *. bdom.
  pose proof (boxed_from_be_hex_spec (sarg 1 a) (arg 0 a) Hb) as H. cbv zeta in H.
  set (n := Z.to_nat ((sarg 1 a + 63) / 64)) in *.
  destruct (boxed_from_be_hex (sarg 1 a) (arg 0 a)) as [r| |]; cbn [hex_boxed].
  - destruct H as (Hl & ds & Hd & Hw & Hlr & He). revert Hdom. rewrite Hl, Nat.eqb_refl. cbn [negb].
    rewrite (sp_hex_be_ok _ _ ds Hl Hd). destruct (Nat.eqb n 0); [intros Hdom; contradiction Hdom; reflexivity|].
    intros _. rewrite <- He. f_equal. f_equal. apply limbs_of_val; auto.
  - destruct H as (Hl & Hd). rewrite Hl, Nat.eqb_refl. cbn [negb]. rewrite sp_hex_bad by tauto. reflexivity.
  - apply Nat.eqb_neq in H. rewrite H. reflexivity.
Qed.

(* ------------------------------------------------------------------ serde payloads *)
Lemma tbl_uint_serde_ser : tbl_ok "uint.serde_ser".
Proof.
  start_tbl. unfold uint_serde_ser, cv_ln, cv_ev. pose proof (wf_arg 0 a Hwf) as Hw. cbv zeta.
  rewrite length_uint_to_le_bytes by exact Hw. rewrite uint_to_le_bytes_digits by exact Hw.
  rewrite !digits_le by reflexivity. rewrite Nat2Z.inj_mul. reflexivity.
Qed.

Lemma tbl_uint_serde_de : tbl_ok "uint.serde_de".
Proof.
  start_tbl. cbv zeta in *. bdom. set (n := cv_nat 1 a) in *. set (bs := arg 0 a) in *.
  revert Hdom. unfold uint_serde_de, word_from_le_bytes. rewrite horner_rev.
  set (L := evalb 256 (firstn 8 bs)). cbv zeta. rewrite skipn_length. rewrite Nat2Z.inj_mul. change (Z.of_nat 8) with 8.
  destruct (Nat.ltb_spec (length bs) 8) as [H8|H8].
  { replace (Nat.ltb (length bs) (8 + 8 * n)) with true by (symmetry; apply Nat.ltb_lt; lia). reflexivity. }
  destruct (Nat.ltb_spec (length bs) (8 + 8 * n)) as [Hlt|Hge].
  - intros _. destruct (Z.ltb_spec (Z.of_nat (length bs - 8)) L) as [|HL]; [reflexivity|].
    destruct (Z.eqb_spec L (8 * Z.of_nat n)) as [EL|NL]; cbn [negb]; [lia | reflexivity].
  - destruct (Z.eqb_spec L (8 * Z.of_nat n)) as [EL|NL]; cbn [negb].
    + replace (Z.of_nat (length bs - 8) <? L) with false by (symmetry; apply Z.ltb_ge; lia).
      destruct (Nat.eqb_spec (length bs) (8 + 8 * n)) as [El|Nl]; [|intros Hdom; contradiction Hdom; reflexivity].
      intros _. rewrite firstn_all2 by (rewrite skipn_length; lia).
      destruct (uint_from_le_slice n (skipn 8 bs)) as [r|] eqn:E.
      * destruct (from_le_slice_spec n _ r (wfd_skipn 256 8 bs Hb) E) as (_ & Hw & Hlr & He).
        rewrite horner_rev, <- He. f_equal. f_equal. apply limbs_of_val; auto.
      * apply from_le_slice_none in E. rewrite skipn_length in E. lia.
    + intros _. destruct (Z.ltb_spec (Z.of_nat (length bs - 8)) L); reflexivity.
Qed.

(* ------------------------------------------------------------------ NonZero / Odd decoders *)
Lemma tbl_nonzero_be n bs : wfd 256 bs ->
  nonzero_from_be n bs =
  (if Nat.eqb (length bs) (8 * n) then let v := horner 256 bs in if v =? 0 then NoneV else Val [to_limbs n v] else PanicV).
Proof.
  intros Hb. pose proof (nonzero_from_be_spec n bs Hb) as H. cbv zeta. rewrite horner_evalb.
  destruct (nonzero_from_be n bs) as [vs| | | |]; try contradiction.
  - destruct vs as [|r [|? ?]]; try contradiction. destruct H as (Hl & Hw & Hlr & He & Hnz).
    rewrite Hl, Nat.eqb_refl, <- He. replace (eval r =? 0) with false by (symmetry; apply Z.eqb_neq; exact Hnz).
    f_equal. f_equal. apply limbs_of_val; auto.
  - destruct H as (Hl & Hz). rewrite Hl, Nat.eqb_refl, Hz. reflexivity.
  - apply Nat.eqb_neq in H. rewrite H. reflexivity.
Qed.
Lemma tbl_nonzero_le n bs : wfd 256 bs ->
  nonzero_from_le n bs =
  (if Nat.eqb (length bs) (8 * n) then let v := horner 256 (rev bs) in if v =? 0 then NoneV else Val [to_limbs n v] else PanicV).
Proof.
  intros Hb. pose proof (nonzero_from_le_spec n bs Hb) as H. cbv zeta. rewrite horner_rev.
  destruct (nonzero_from_le n bs) as [vs| | | |]; try contradiction.
  - destruct vs as [|r [|? ?]]; try contradiction. destruct H as (Hl & Hw & Hlr & He & Hnz).
    rewrite Hl, Nat.eqb_refl, <- He. replace (eval r =? 0) with false by (symmetry; apply Z.eqb_neq; exact Hnz).
    f_equal. f_equal. apply limbs_of_val; auto.
  - destruct H as (Hl & Hz). rewrite Hl, Nat.eqb_refl, Hz. reflexivity.
  - apply Nat.eqb_neq in H. rewrite H. reflexivity.
Qed.
Lemma tbl_nonzero_from_be_bytes : tbl_ok "nonzero.from_be_bytes".
Proof. start_tbl. unfold sp_nonzero in *. bdom. apply tbl_nonzero_be. exact Hb. Qed.
Lemma tbl_nonzero_from_le_bytes : tbl_ok "nonzero.from_le_bytes".
Proof. start_tbl. unfold sp_nonzero in *. bdom. apply tbl_nonzero_le. exact Hb. Qed.
Lemma tbl_nonzero_from_le_byte_array : tbl_ok "nonzero.from_le_byte_array".
Proof. start_tbl. unfold sp_nonzero in *. bdom. apply tbl_nonzero_le. exact Hb. Qed.

Lemma tbl_odd_from_be_hex : tbl_ok "odd.from_be_hex".
Proof.
  start_tbl. unfold sp_odd in *. bdom. pose proof (odd_from_be_hex_spec (cv_nat 1 a) (arg 0 a) Hb) as H.
  destruct (odd_from_be_hex (cv_nat 1 a) (arg 0 a)) as [vs| | | |]; try contradiction.
  - destruct vs as [|r [|? ?]]; try contradiction. destruct H as (Hl & ds & Hd & Hw & Hlr & He & Ho).
    rewrite (sp_odd_be _ _ ds Hl Hd), <- He, Ho. f_equal. f_equal. apply limbs_of_val; auto.
  - symmetry. destruct H as [H|[H|(ds & Hd & Ho)]].
    + apply sp_odd_bad. tauto.
    + apply sp_odd_bad. tauto.
    + destruct (Nat.eq_dec (length (arg 0 a)) (16 * cv_nat 1 a)) as [Hl|Hl]; [|apply sp_odd_bad; tauto].
      rewrite (sp_odd_be _ _ ds Hl Hd), Ho. reflexivity.
Qed.
Lemma tbl_odd_from_le_hex : tbl_ok "odd.from_le_hex".
Proof.
  start_tbl. unfold sp_odd in *. bdom. pose proof (odd_from_le_hex_spec (cv_nat 1 a) (arg 0 a) Hb) as H.
  destruct (odd_from_le_hex (cv_nat 1 a) (arg 0 a)) as [vs| | | |]; try contradiction.
  - destruct vs as [|r [|? ?]]; try contradiction. destruct H as (Hl & ds & Hd & Hw & Hlr & He & Ho).
    rewrite (sp_odd_le _ _ ds Hl Hd), <- He, Ho. f_equal. f_equal. apply limbs_of_val; auto.
  - symmetry. destruct H as [H|[H|(ds & Hd & Ho)]].
    + apply sp_odd_bad. tauto.
    + apply sp_odd_bad. tauto.
    + destruct (Nat.eq_dec (length (arg 0 a)) (16 * cv_nat 1 a)) as [Hl|Hl]; [|apply sp_odd_bad; tauto].
      rewrite (sp_odd_le _ _ ds Hl Hd), Ho. reflexivity.
Qed.

(* ------------------------------------------------------------------ the area theorem *)
Create HintDb c16tbl.
#[export] Hint Resolve tbl_limb_to_be_bytes tbl_limb_to_le_bytes tbl_limb_from_be_bytes tbl_limb_from_le_bytes
  tbl_limb_fmt tbl_limb_from_prim tbl_uint_to_be_bytes tbl_uint_to_le_bytes tbl_uint_from_be_slice
  tbl_uint_from_le_slice tbl_uint_from_be_hex tbl_uint_from_le_hex tbl_uint_fmt tbl_int_fmt tbl_boxed_fmt
  tbl_uint_words_id tbl_boxed_from_vec tbl_uint_from_prim tbl_uint_to_prim tbl_int_from_prim tbl_boxed_from_prim
  tbl_uint_concat tbl_uint_split tbl_uint_resize tbl_int_resize tbl_boxed_widen tbl_boxed_shorten
  tbl_boxed_from_be_slice tbl_boxed_from_le_slice tbl_boxed_from_be_hex tbl_uint_serde_ser tbl_uint_serde_de
  tbl_nonzero_from_be_bytes tbl_nonzero_from_le_bytes tbl_nonzero_from_le_byte_array tbl_odd_from_be_hex
  tbl_odd_from_le_hex : c16tbl.

(** the list of keys IS the key set of the table (in table order) *)
Definition conv_table_keys : list string := map fst ops_conv_model.
Lemma conv_table_keys_spec : map fst ops_conv_spec = conv_table_keys.
Proof. reflexivity. Qed.
Lemma conv_table_keys_count : length conv_table_keys = 37%nat.
Proof. reflexivity. Qed.

Lemma conv_all_keys_ok : forall k, In k conv_table_keys -> tbl_ok k.
Proof.
  intros k Hin. unfold conv_table_keys in Hin. cbn [map fst ops_conv_model In] in Hin.
  repeat (destruct Hin as [<- | Hin]; [solve [eauto with nocore c16tbl] |]); contradiction.
Qed.

Theorem conv_tables_agree : forall k dbg a,
  In k (map fst ops_conv_model) -> wf_args a -> typedb conv_tbl_ty k a = true ->
  run_tab ops_conv_spec k dbg a <> Unsupported ->
  run_tab ops_conv_model k dbg a = run_tab ops_conv_spec k dbg a.
Proof. intros k dbg a Hin. exact (conv_all_keys_ok k Hin dbg a). Qed.

(** the same over the key list of C11 (Proofs/TotalityP.v), which is the same set of 37 keys *)
Lemma conv_keys_in_table : forall k, In k conv_keys -> In k (map fst ops_conv_model).
Proof. apply sublist_In. vm_compute. reflexivity. Qed.
Lemma table_in_conv_keys : forall k, In k (map fst ops_conv_model) -> In k conv_keys.
Proof. apply sublist_In. vm_compute. reflexivity. Qed.

Theorem conv_tables_agree_c11_keys : forall k dbg a,
  In k conv_keys -> wf_args a -> typedb conv_tbl_ty k a = true ->
  run_tab ops_conv_spec k dbg a <> Unsupported ->
  run_tab ops_conv_model k dbg a = run_tab ops_conv_spec k dbg a.
Proof. intros k dbg a Hin. apply conv_tables_agree. apply conv_keys_in_table. exact Hin. Qed.

Lemma conv_key_set :
  map fst ops_conv_spec = map fst ops_conv_model /\ length (map fst ops_conv_model) = 37%nat /\
  (forall k, In k conv_keys <-> In k (map fst ops_conv_model)).
Proof.
  split; [exact conv_table_keys_spec|]. split; [exact conv_table_keys_count|].
  intros k. split; [apply conv_keys_in_table | apply table_in_conv_keys].
Qed.

(** 35 of the 37 keys have no typing side condition at all *)
Lemma conv_typing_trivial : forall k a, k <> "uint.from_prim"%string -> k <> "int.from_prim"%string ->
  typedb conv_tbl_ty k a = true.
Proof.
  intros k a H1 H2. unfold typedb, conv_tbl_ty. cbn [lookup].
  destruct (String.eqb_spec k "uint.from_prim"); [contradiction|].
  destruct (String.eqb_spec k "int.from_prim"); [contradiction|]. reflexivity.
Qed.

(** the two side conditions are needed: a tag that names no source type makes the two entries differ
    (an "unsigned 100-bit" source holding 2^64; a "signed 65-bit" source holding 2^63) *)
Lemma conv_typing_needed :
  run_tab ops_conv_spec "uint.from_prim" false [[0; 1]; [100]; [2]] <> Unsupported /\
  run_tab ops_conv_model "uint.from_prim" false [[0; 1]; [100]; [2]] <> run_tab ops_conv_spec "uint.from_prim" false [[0; 1]; [100]; [2]] /\
  run_tab ops_conv_spec "int.from_prim" false [[2 ^ 63]; [65]; [2]] <> Unsupported /\
  run_tab ops_conv_model "int.from_prim" false [[2 ^ 63]; [65]; [2]] <> run_tab ops_conv_spec "int.from_prim" false [[2 ^ 63]; [65]; [2]].
Proof. repeat split; vm_compute; discriminate. Qed.
